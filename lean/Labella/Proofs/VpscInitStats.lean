import Labella.Proofs.VpscSplitStats
/-! # `init`: the block list and the position statistics of the initial state -/
namespace Labella.Vpsc
open FrameAux (ibStep IBInv)

theorem newBlock_list (st : St) (i : Nat) : (newBlock st i).1.list = st.list := by
  simp [newBlock_fst, addVariable]

theorem newBlock_bs_size (st : St) (i : Nat) : (newBlock st i).1.bs.size = st.bs.size + 1 := by
  simp [newBlock_fst, addVariable]

/-- the statistics of a freshly created block -/
theorem newBlock_statsB (st : St) (i : Nat) (hσ : (getV st i).s ≠ 0) : StatsB (newBlock st i).1 st.bs.size := by
  have hS := newBlock_steps st.bs.size st i (Nat.le_refl _) hσ
  refine hS.back (fun b h1 h2 => absurd h2 (by omega)) ?_ _ (Nat.le_refl _) (by rw [newBlock_bs_size]; omega)
  intro b hb hlt
  rw [newBlock_bs_size] at hlt
  have : b = st.bs.size := by omega
  subst this
  rw [newBlock_vars]
  refine ⟨List.pairwise_singleton _ _, fun b' hb' hlt' hne => ?_⟩
  rw [newBlock_bs_size] at hlt'
  omega

theorem ibStep_list (st : St) (k : Nat) : (ibStep st k).list = st.list.setIfInBounds k st.bs.size := by
  unfold ibStep
  simp only [setB_list, newBlock_list, newBlock_snd]

theorem ibStep_getB (st : St) (k x : Nat) : getB (ibStep st k) x =
    if x = st.bs.size then { getB (newBlock st k).1 st.bs.size with ind := k } else getB (newBlock st k).1 x := by
  unfold ibStep
  simp only [newBlock_snd]
  show getB (setB (newBlock st k).1 st.bs.size { getB (newBlock st k).1 st.bs.size with ind := k }) x = _
  rw [getB_setB, newBlock_bs_size]
  by_cases hx : x = st.bs.size
  · rw [if_pos ⟨hx, by omega⟩, if_pos hx]
  · rw [if_neg (fun h => hx h.1), if_neg hx]

theorem ibStep_getV' (st : St) (k u : Nat) : getV (ibStep st k) u = getV (newBlock st k).1 u := rfl

/-- the list / `ind` / statistics part of the loop invariant of `initBlocks` -/
def IB2 (n k : Nat) (st : St) : Prop :=
  st.list.size = n ∧ ∀ i, k ≤ i → i < n →
    st.list.getD i 0 = n - 1 - i ∧ (getB st (n - 1 - i)).ind = i ∧ StatsB st (n - 1 - i)

theorem ibStep_ib2 (st0 : St) (n k : Nat) (st : St) (hs : ∀ i, i < n → (getV st0 i).s ≠ 0) (hk : k + 1 ≤ n)
    (h : IBInv st0 n (k + 1) st) (h2 : IB2 n (k + 1) st) : IB2 n k (ibStep st k) := by
  obtain ⟨h1, _, _, _, h5, h6, h7⟩ := h
  obtain ⟨g1, g2⟩ := h2
  have hbs : st.bs.size = n - 1 - k := by omega
  have hkn : k < st.vs.size := by omega
  refine ⟨by rw [ibStep_list]; simpa using g1, fun i hki hin => ?_⟩
  rw [ibStep_list, FrameAux.natArr_getD_setIfInBounds, ibStep_getB]
  by_cases hik : i = k
  · subst hik
    rw [if_pos ⟨rfl, by omega⟩, if_pos hbs.symm]
    refine ⟨hbs, rfl, ?_⟩
    have hσ : (getV st i).s ≠ 0 := by rw [(h6 i).2.2.1]; exact hs i hin
    have := newBlock_statsB st i hσ
    rw [← hbs]
    refine StatsB.congr (st := (newBlock st i).1) (b := st.bs.size) ?_ (fun u _ => VSame.rfl' _) this
    rw [ibStep_getB, if_pos rfl]
    exact BSame.setInd _ _
  · have hne : n - 1 - i ≠ st.bs.size := by omega
    obtain ⟨a1, a2, a3⟩ := g2 i (by omega) hin
    rw [if_neg (fun hh => hik hh.1), if_neg hne, newBlock_getB_ne _ _ _ hne]
    refine ⟨a1, a2, ?_⟩
    refine StatsB.congr (st := st) (b := n - 1 - i) ?_ (fun u hu => ?_) a3
    · rw [ibStep_getB, if_neg hne, newBlock_getB_ne _ _ _ hne]; exact BSame.rfl' _
    · rw [(h7 i (by omega) hin).2.2, List.mem_singleton] at hu
      subst hu
      rw [ibStep_getV', newBlock_getV _ _ _ hkn, if_neg hik]
      exact VSame.rfl' _

theorem ibFold2 (st0 : St) (n : Nat) (hs : ∀ i, i < n → (getV st0 i).s ≠ 0) : ∀ k st, k ≤ n → IBInv st0 n k st →
    IB2 n k st → IB2 n 0 ((List.range k).reverse.foldl ibStep st) := by
  intro k
  induction k with
  | zero => intro st _ _ h; exact h
  | succ k ih =>
    intro st hk h h2
    rw [List.range_succ, List.reverse_append, List.reverse_singleton, List.singleton_append, List.foldl_cons]
    exact ih _ (Nat.le_of_succ_le hk) (FrameAux.ibStep_inv st0 n k st hk h) (ibStep_ib2 st0 n k st hs hk h h2)

theorem initBlocks_ib2 (st0 : St) (hs : ∀ i, i < st0.vs.size → (getV st0 i).s ≠ 0) :
    IB2 st0.vs.size 0 (initBlocks st0) := by
  rw [FrameAux.initBlocks_eq]
  apply ibFold2 st0 st0.vs.size hs st0.vs.size _ (Nat.le_refl _)
  · refine ⟨rfl, rfl, rfl, rfl, by simp, fun i => ⟨rfl, rfl, rfl, rfl, rfl⟩, fun i h1 h2 => ?_⟩
    exact absurd h2 (Nat.not_lt.mpr h1)
  · exact ⟨by simp, fun i h1 h2 => absurd h2 (Nat.not_lt.mpr h1)⟩

end Labella.Vpsc
