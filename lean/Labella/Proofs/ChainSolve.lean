import Labella.Proofs.ChainOpt
/-! `Chain.solve` as a whole: lengths, feasibility, optimality, fixed points (helpers for C01/C02/C03) -/
namespace Labella.Chain
open Labella

/-! ### the shift by the prefix sums of the gaps -/

def shiftItem (v : Item) (g : ℚ) : Item := { w := v.w, t := v.t - g }

def shifted (vars : List Item) (G : List ℚ) : List Item := List.zipWith shiftItem vars G

def singles (l : List Item) : List Block := l.map (fun i => [i])

theorem solve_eq (eps : ℚ) (vars : List Item) (gaps : List ℚ) :
    solve eps vars gaps =
      List.zipWith (· + ·)
        (expand (satisfy eps (shifted vars (prefixSums 0 gaps)).length
          (singles (shifted vars (prefixSums 0 gaps))))) (prefixSums 0 gaps) := rfl

theorem prefixSums_length (acc : ℚ) (gs : List ℚ) : (prefixSums acc gs).length = gs.length + 1 := by
  induction gs generalizing acc with
  | nil => simp [prefixSums]
  | cons g gs ih => simp [prefixSums, ih]

theorem prefixSums_cons (acc : ℚ) (gs : List ℚ) : ∃ t, prefixSums acc gs = acc :: t := by
  cases gs with
  | nil => exact ⟨[], rfl⟩
  | cons g gs => exact ⟨prefixSums (acc + g) gs, rfl⟩

theorem shifted_length (vars : List Item) (G : List ℚ) :
    (shifted vars G).length = min vars.length G.length := by
  simp [shifted]

theorem expand_cons (b : Block) (bs : List Block) :
    expand (b :: bs) = (b.map fun _ => b.mean) ++ expand bs := by
  simp [expand]

theorem expand_length (bs : List Block) : (expand bs).length = bs.flatten.length := by
  induction bs with
  | nil => simp [expand]
  | cons b bs ih => rw [expand_cons]; simp [ih]

theorem singles_flatten (l : List Item) : (singles l).flatten = l := by
  induction l with
  | nil => simp [singles]
  | cons i l ih =>
    simp only [singles, List.map_cons, List.flatten_cons] at *
    rw [ih]; rfl

theorem singles_length (l : List Item) : (singles l).length = l.length := by simp [singles]

theorem single_mean {i : Item} (hw : 0 < i.w) : Block.mean [i] = i.t := by
  have : i.w ≠ 0 := ne_of_gt hw
  simp only [Block.mean, Block.sumWT, Block.sumW, List.map_cons, List.map_nil, List.sum_cons,
    List.sum_nil, add_zero]
  field_simp

theorem WF_singles {l : List Item} (hw : ∀ i ∈ l, 0 < i.w) : WF (singles l) := by
  intro b hb
  simp only [singles, List.mem_map] at hb
  obtain ⟨i, hi, rfl⟩ := hb
  have hpos : PosW [i] := by
    intro j hj
    simp only [List.mem_singleton] at hj
    subst hj; exact hw _ hi
  refine ⟨by simp, hpos, ?_⟩
  intro k
  cases k with
  | zero => simp [residSum]
  | succ k =>
    have : [i].take (k + 1) = [i] := by simp
    rw [this, residSum_mean (by simp) hpos]

theorem shifted_pos {vars : List Item} (hw : ∀ v ∈ vars, 0 < v.w) (G : List ℚ) :
    ∀ i ∈ shifted vars G, 0 < i.w := by
  induction vars generalizing G with
  | nil => simp [shifted]
  | cons v vars ih =>
    cases G with
    | nil => simp [shifted]
    | cons g G =>
      intro i hi
      simp only [shifted, List.zipWith_cons_cons, List.mem_cons] at hi
      rcases hi with rfl | hi
      · exact hw v (by simp)
      · exact ih (fun u hu => hw u (by simp [hu])) G i hi

/-! ### lengths -/

theorem solve_length' (eps : ℚ) (vars : List Item) (gaps : List ℚ)
    (hlen : gaps.length + 1 = vars.length) : (solve eps vars gaps).length = vars.length := by
  rw [solve_eq, List.length_zipWith, expand_length, satisfy_flatten, singles_flatten,
    shifted_length, prefixSums_length]
  omega

/-! ### steps of a list -/

/-- consecutive differences are at least `-e` -/
def StepGe (e : ℚ) : List ℚ → Prop
  | a :: b :: l => -e ≤ b - a ∧ StepGe e (b :: l)
  | _ => True

theorem Nondecr_of_StepGe {l : List ℚ} (h : StepGe 0 l) : Nondecr l := by
  induction l with
  | nil => trivial
  | cons a l ih =>
    cases l with
    | nil => trivial
    | cons b l =>
      simp only [StepGe, Nondecr] at *
      exact ⟨by linarith [h.1], ih h.2⟩

theorem StepGe_replicate_append {e : ℚ} (he : 0 ≤ e) (m : ℚ) (k : ℕ) {l : List ℚ}
    (hl : StepGe e l) (hh : ∀ h ∈ l.head?, -e ≤ h - m) :
    StepGe e (List.replicate k m ++ l) := by
  induction k with
  | zero => simpa using hl
  | succ k ih =>
    cases k with
    | zero =>
      cases l with
      | nil => simp [StepGe]
      | cons h l =>
        show StepGe e (m :: h :: l)
        exact ⟨hh h (by simp), hl⟩
    | succ k =>
      rw [List.replicate_succ, List.cons_append]
      rw [List.replicate_succ, List.cons_append] at ih ⊢
      simp only [StepGe]
      exact ⟨by simpa using he, ih⟩

theorem expand_head {b : Block} (hb : b ≠ []) (bs : List Block) :
    (expand (b :: bs)).head? = some b.mean := by
  rw [expand_cons]
  cases b with
  | nil => exact absurd rfl hb
  | cons i b => simp

theorem expand_StepGe {e : ℚ} (he : 0 ≤ e) {bs : List Block} (hne : ∀ b ∈ bs, b ≠ [])
    (hs : ∀ s ∈ slacks bs, -e ≤ s) : StepGe e (expand bs) := by
  induction bs with
  | nil => simp [expand, StepGe]
  | cons a rest ih =>
    rw [expand_cons, List.map_const']
    have hne' : ∀ b ∈ rest, b ≠ [] := fun b hb => hne b (by simp [hb])
    cases rest with
    | nil =>
      apply StepGe_replicate_append he
      · simp [expand, StepGe]
      · simp [expand]
    | cons b rest' =>
      have hs' : ∀ s ∈ slacks (b :: rest'), -e ≤ s := by
        intro s hs'
        apply hs
        simp only [slacks, List.mem_cons]
        exact Or.inr hs'
      apply StepGe_replicate_append he
      · exact ih hne' hs'
      · rw [expand_head (hne' b (by simp))]
        intro h hh
        simp only [Option.mem_def, Option.some.injEq] at hh
        subst hh
        apply hs
        simp [slacks]

theorem SepBy_of_StepGe {e : ℚ} (gs : List ℚ) (acc : ℚ) (ys : List ℚ) (h : StepGe e ys) :
    SepBy e gs (List.zipWith (· + ·) ys (prefixSums acc gs)) := by
  induction gs generalizing acc ys with
  | nil => simp [SepBy]
  | cons g gs ih =>
    cases ys with
    | nil => simp [SepBy]
    | cons a ys =>
      cases ys with
      | nil => simp [SepBy, prefixSums]
      | cons b ys =>
        have ih' := ih (acc + g) (b :: ys) h.2
        obtain ⟨t, ht⟩ := prefixSums_cons (acc + g) gs
        simp only [prefixSums, ht, List.zipWith_cons_cons, SepBy] at ih' ⊢
        refine ⟨?_, ih'⟩
        have := h.1
        linarith

theorem StepGe_of_SepBy (gs : List ℚ) (acc : ℚ) (ys : List ℚ) (hlen : ys.length = gs.length + 1)
    (h : SepBy 0 gs (List.zipWith (· + ·) ys (prefixSums acc gs))) : StepGe 0 ys := by
  induction gs generalizing acc ys with
  | nil =>
    cases ys with
    | nil => trivial
    | cons a ys =>
      cases ys with
      | nil => trivial
      | cons b ys => simp at hlen
  | cons g gs ih =>
    cases ys with
    | nil => trivial
    | cons a ys =>
      cases ys with
      | nil => trivial
      | cons b ys =>
        obtain ⟨t, ht⟩ := prefixSums_cons (acc + g) gs
        have ih' := ih (acc + g) (b :: ys) (by simpa using hlen)
        simp only [prefixSums, ht, List.zipWith_cons_cons, SepBy, StepGe] at ih' h ⊢
        refine ⟨?_, ih' h.2⟩
        have := h.1
        linarith

/-! ### feasibility -/

theorem solve_feasible' (eps : ℚ) (heps : 0 ≤ eps) (vars : List Item) (gaps : List ℚ)
    (hw : ∀ v ∈ vars, 0 < v.w) : SepBy eps gaps (solve eps vars gaps) := by
  rw [solve_eq]
  apply SepBy_of_StepGe
  set sh := shifted vars (prefixSums 0 gaps)
  have hwf : WF (satisfy eps sh.length (singles sh)) :=
    satisfy_WF heps _ (WF_singles (shifted_pos hw _))
  apply expand_StepGe heps (fun b hb => (hwf b hb).1)
  apply satisfy_feasible
  rw [singles_length]; omega

/-! ### cost and distance under the shift -/

theorem cost_shift (vars : List Item) (G ys : List ℚ) :
    cost vars (List.zipWith (· + ·) ys G) = cost2 (shifted vars G) ys := by
  induction vars generalizing G ys with
  | nil => simp [cost, cost2, shifted]
  | cons v vars ih =>
    cases ys with
    | nil => simp [cost, cost2]
    | cons y ys =>
      cases G with
      | nil => simp [cost, cost2, shifted]
      | cons g G =>
        have := ih G ys
        simp only [cost, cost2, shifted, List.zipWith_cons_cons, List.zip_cons_cons, List.map_cons,
          List.sum_cons, shiftItem] at *
        rw [this]; ring

theorem wdist_shift (vars : List Item) (G ys zs : List ℚ) :
    wdist vars (List.zipWith (· + ·) ys G) (List.zipWith (· + ·) zs G)
      = dist2 (shifted vars G) ys zs := by
  induction vars generalizing G ys zs with
  | nil => simp [wdist, dist2, shifted]
  | cons v vars ih =>
    cases ys with
    | nil => simp [wdist, dist2]
    | cons y ys =>
      cases zs with
      | nil => simp [wdist, dist2]
      | cons z zs =>
        cases G with
        | nil => simp [wdist, dist2, shifted]
        | cons g G =>
          have := ih G ys zs
          simp only [wdist, dist2, shifted, List.zipWith_cons_cons, List.zip_cons_cons,
            List.map_cons, List.sum_cons, shiftItem] at *
          rw [this]; ring

theorem exists_unshift (zs G : List ℚ) (h : zs.length ≤ G.length) :
    ∃ z', z'.length = zs.length ∧ zs = List.zipWith (· + ·) z' G := by
  induction zs generalizing G with
  | nil => exact ⟨[], rfl, by simp⟩
  | cons z zs ih =>
    cases G with
    | nil => simp at h
    | cons g G =>
      obtain ⟨z', h1, h2⟩ := ih G (by simpa using h)
      refine ⟨(z - g) :: z', by simp [h1], ?_⟩
      simp only [List.zipWith_cons_cons, sub_add_cancel]
      rw [← h2]

/-! ### optimality -/

theorem solve_optimal' (eps : ℚ) (heps : 0 ≤ eps) (vars : List Item) (gaps : List ℚ)
    (hlen : gaps.length + 1 = vars.length) (hw : ∀ v ∈ vars, 0 < v.w)
    (zs : List ℚ) (hz : zs.length = vars.length) (hfeas : SepBy 0 gaps zs) :
    cost vars (solve eps vars gaps) + wdist vars (solve eps vars gaps) zs ≤ cost vars zs := by
  have hG := prefixSums_length 0 gaps
  obtain ⟨z', hz'len, rfl⟩ := exists_unshift zs (prefixSums 0 gaps) (by omega)
  have hnd : Nondecr z' :=
    Nondecr_of_StepGe (StepGe_of_SepBy gaps 0 z' (by omega) hfeas)
  rw [solve_eq, cost_shift, wdist_shift, cost_shift]
  set sh := shifted vars (prefixSums 0 gaps) with hsh
  have hwf : WF (satisfy eps sh.length (singles sh)) :=
    satisfy_WF heps _ (WF_singles (shifted_pos hw _))
  have hflat : (satisfy eps sh.length (singles sh)).flatten = sh := by
    rw [satisfy_flatten, singles_flatten]
  have hshlen : sh.length = vars.length := by
    rw [hsh, shifted_length]; omega
  have := chain_optimal hwf z' (by rw [hflat]; omega) hnd
  rw [hflat] at this
  exact this

/-! ### targets that already keep the gaps are a fixed point -/

theorem satisfy_fix {eps : ℚ} (fuel : ℕ) {bs : List Block} (h : ∀ s ∈ slacks bs, -eps ≤ s) :
    satisfy eps fuel bs = bs := by
  cases fuel with
  | zero => rfl
  | succ fuel =>
    simp only [satisfy]
    cases ha : argmin (slacks bs) with
    | none => rfl
    | some p =>
      obtain ⟨k, s⟩ := p
      have hs : s ∈ slacks bs := List.mem_of_getElem? (argmin_spec ha).1
      have := h s hs
      simp only
      rw [if_neg (by linarith)]

theorem slacks_singles {l : List Item} (hw : ∀ i ∈ l, 0 < i.w) {e : ℚ}
    (h : StepGe e (l.map (·.t))) : ∀ s ∈ slacks (singles l), -e ≤ s := by
  induction l with
  | nil => simp [singles, slacks]
  | cons a l ih =>
    cases l with
    | nil => simp [singles, slacks]
    | cons b l =>
      intro s hs
      simp only [singles, List.map_cons, slacks, List.mem_cons] at hs
      rcases hs with rfl | hs
      · rw [single_mean (hw a (by simp)), single_mean (hw b (by simp))]
        exact h.1
      · exact ih (fun i hi => hw i (by simp [hi])) h.2 s hs

theorem expand_singles {l : List Item} (hw : ∀ i ∈ l, 0 < i.w) :
    expand (singles l) = l.map (·.t) := by
  induction l with
  | nil => simp [singles, expand]
  | cons a l ih =>
    have := ih (fun i hi => hw i (by simp [hi]))
    simp only [singles, List.map_cons] at *
    rw [expand_cons, this, single_mean (hw a (by simp))]
    rfl

theorem shifted_targets (vars : List Item) (G : List ℚ) (h : vars.length ≤ G.length) :
    List.zipWith (· + ·) ((shifted vars G).map (·.t)) G = vars.map (·.t) := by
  induction vars generalizing G with
  | nil => simp [shifted]
  | cons v vars ih =>
    cases G with
    | nil => simp at h
    | cons g G =>
      have := ih G (by simpa using h)
      simp only [shifted, List.zipWith_cons_cons, List.map_cons, shiftItem, sub_add_cancel] at *
      rw [this]

theorem solve_room_not_moved' (eps : ℚ) (heps : 0 ≤ eps) (vars : List Item) (gaps : List ℚ)
    (hlen : gaps.length + 1 = vars.length) (hw : ∀ v ∈ vars, 0 < v.w)
    (hroom : SepBy 0 gaps (vars.map (·.t))) :
    solve eps vars gaps = vars.map (·.t) := by
  have hG := prefixSums_length 0 gaps
  rw [solve_eq]
  set sh := shifted vars (prefixSums 0 gaps) with hsh
  have hpos := shifted_pos hw (prefixSums 0 gaps)
  have hst : shifted vars (prefixSums 0 gaps) = sh := rfl
  have htg := shifted_targets vars (prefixSums 0 gaps) (by omega)
  rw [hst] at htg hpos
  have hstep : StepGe 0 (sh.map (·.t)) := by
    apply StepGe_of_SepBy gaps 0
    · rw [List.length_map, hsh, shifted_length]; omega
    · rw [htg]; exact hroom
  have hsl : ∀ s ∈ slacks (singles sh), -eps ≤ s := by
    intro s hs
    have := slacks_singles hpos hstep s hs
    linarith
  rw [satisfy_fix _ hsl, expand_singles hpos, htg]

end Labella.Chain
