import Labella.Proofs.VpscBlockList
/-! # `Blocks.merge` keeps the block list and the position statistics exact -/
namespace Labella.Vpsc

theorem mstep_getB_ne (sb : Nat) (d : Rat) (s : St) (i k : Nat) (hk : k ≠ sb) : getB (mstep sb d s i) k = getB s k := by
  unfold mstep
  rw [getB_addVariable_ne _ _ _ _ hk, getB_setV]

theorem mstep_ind (sb : Nat) (d : Rat) (s : St) (i k : Nat) : (getB (mstep sb d s i) k).ind = (getB s k).ind := by
  by_cases hk : k = sb
  · subst hk
    unfold mstep addVariable
    simp only [getB_setB, getB_setV, setV_bs]
    split <;> rfl
  · rw [mstep_getB_ne _ _ _ _ _ hk]

theorem foldl_mstep_getB_ne (sb : Nat) (d : Rat) (l : List Nat) (k : Nat) (hk : k ≠ sb) :
    ∀ s : St, getB (l.foldl (mstep sb d) s) k = getB s k := by
  induction l with
  | nil => intro s; rfl
  | cons a t ih => intro s; rw [List.foldl_cons, ih, mstep_getB_ne _ _ _ _ _ hk]

theorem foldl_mstep_ind (sb : Nat) (d : Rat) (l : List Nat) (k : Nat) :
    ∀ s : St, (getB (l.foldl (mstep sb d) s) k).ind = (getB s k).ind := by
  induction l with
  | nil => intro s; rfl
  | cons a t ih => intro s; rw [List.foldl_cons, ih, mstep_ind]

theorem mstep_statsB (sb : Nat) (d : Rat) (s : St) (i : Nat) (hsb : sb < s.bs.size) (hi : i ∉ (getB s sb).vars)
    (h : StatsB s sb) : StatsB (mstep sb d s i) sb := by
  unfold mstep
  apply addVariable_statsB
  · simpa using hsb
  · rw [getB_setV]; exact hi
  · exact setV_statsB _ _ _ _ hi h

theorem foldl_mstep_statsB (sb : Nat) (d : Rat) (l : List Nat) : ∀ s : St, sb < s.bs.size → l.Nodup →
    (∀ i ∈ l, i ∉ (getB s sb).vars) → StatsB s sb → StatsB (l.foldl (mstep sb d) s) sb := by
  induction l with
  | nil => intro s _ _ _ h; exact h
  | cons a t ih =>
    intro s hsb hnd hdis h
    rw [List.foldl_cons]
    obtain ⟨hat, ht⟩ := List.nodup_cons.1 hnd
    apply ih
    · rw [mstep_bs_size]; exact hsb
    · exact ht
    · intro i hi
      rw [vars_mstep, if_pos ⟨rfl, hsb⟩, List.mem_append, List.mem_singleton]
      rintro (h1 | h1)
      · exact hdis i (List.mem_cons_of_mem _ hi) h1
      · subst h1; exact hat hi
    · exact mstep_statsB sb d s a hsb (hdis a List.mem_cons_self) h

/-- what `mergeAcross` does to the block objects and the list -/
theorem mergeAcross_blocks (st : St) (sb b ci : Nat) (d : Rat) (hsb : sb < st.bs.size)
    (hnd : (getB st b).vars.Nodup) (hdis : ∀ i ∈ (getB st b).vars, i ∉ (getB st sb).vars) (h : StatsB st sb) :
    (mergeAcross st sb b ci d).list = st.list ∧
    (∀ k, k ≠ sb → getB (mergeAcross st sb b ci d) k = getB st k) ∧
    (∀ k, (getB (mergeAcross st sb b ci d) k).ind = (getB st k).ind) ∧
    StatsB (mergeAcross st sb b ci d) sb := by
  rw [mergeAcross_eq]
  simp only
  generalize hs1 : setC st ci { getC st ci with active := true } = s1
  have hB1 : ∀ k, getB s1 k = getB st k := fun k => by rw [← hs1]; rfl
  have hsb1 : sb < s1.bs.size := by rw [← hs1]; exact hsb
  have h1 : StatsB s1 sb := by
    refine StatsB.congr (st := st) (b := sb) ?_ (fun i _ => ?_) h
    · rw [hB1]; exact BSame.rfl' _
    · rw [← hs1]; exact VSame.rfl' _
  have h2 := foldl_mstep_statsB sb d (getB st b).vars s1 hsb1 hnd (fun i hi => by rw [hB1]; exact hdis i hi) h1
  obtain ⟨_, f2, _, _, _, f6⟩ := foldl_mstep_fields sb d (getB st b).vars s1
  have g1 := fun k hk => foldl_mstep_getB_ne sb d (getB st b).vars k hk s1
  have g2 := fun k => foldl_mstep_ind sb d (getB st b).vars k s1
  generalize (getB st b).vars.foldl (mstep sb d) s1 = s2 at *
  refine ⟨?_, ?_, ?_, ?_⟩
  · rw [setB_list, f2, ← hs1]; rfl
  · intro k hk
    rw [getB_setB, if_neg (fun hh => hk hh.1), g1 k hk, hB1]
  · intro k
    rw [getB_setB]
    split
    · next hh => rw [← hB1, ← g2, hh.1]
    · rw [g2, hB1]
  · refine StatsB.congr (st := s2) (b := sb) ?_ (fun i _ => VSame.rfl' _) h2
    rw [getB_setB, if_pos ⟨rfl, by rw [f6]; exact hsb1⟩]
    exact ⟨rfl, rfl, rfl, rfl, rfl, h2.2.2.2.2.symm⟩


/-- `Blocks.merge`: the emptied block leaves the list, the surviving block's statistics absorb the moved variables -/
theorem mergeBlocks_list_stats (st : St) (ci : Nat) (hinv : Inv st) (hnd : VarsNodup st) (hci : ci < st.cs.size)
    (ha : (getC st ci).active = false)
    (hb : (getV st (getC st ci).l).block ≠ (getV st (getC st ci).r).block)
    (hl : ListInv st) (hs : StatsInv st) : ListInv (mergeBlocks st ci) ∧ StatsInv (mergeBlocks st ci) := by
  obtain ⟨sb, b, d, x, y, e, M⟩ := mergeBlocks_ctx st ci hinv hnd hci ha hb
  rw [e]
  have hsb : sb < st.bs.size := by rw [← M.hxs]; exact hinv.wf.block_lt x M.hx
  have hndb : (getB st b).vars.Nodup := by have := hnd y M.hy; rwa [M.hyb] at this
  have hdis : ∀ i ∈ (getB st b).vars, i ∉ (getB st sb).vars := by
    intro i hi hi'
    exact M.hne (((M.mem_vars_sb i).1 hi').2.symm.trans ((M.mem_vars_b i).1 hi).2)
  have hssb : StatsB st sb := by have := hs x M.hx; rwa [M.hxs] at this
  obtain ⟨m1, m2, m3, m4⟩ := mergeAcross_blocks st sb b ci d hsb hndb hdis hssb
  generalize mergeAcross st sb b ci d = st' at *
  constructor
  · -- the list
    apply removeBlock_listInv
    · intro k hk
      rw [m1] at hk ⊢
      rw [m3]
      exact hl.indOK k hk
    · rw [m1, ← M.hyb]; exact hl.covers y M.hy
    · intro z hz
      rw [m1] at hz
      obtain ⟨v, hv, ev⟩ := hl.inuse z hz
      rw [M.bsize, ← ev]
      exact hinv.wf.block_lt v hv
    · intro v hv
      rw [M.vsize] at hv
      rw [M.blk, m1]
      split
      · exact ⟨by rw [← M.hxs]; exact hl.covers x M.hx, M.hne⟩
      · next hh => exact ⟨hl.covers v hv, fun h2 => hh ⟨hv, h2⟩⟩
    · intro z hz hzb
      rw [m1] at hz
      obtain ⟨v, hv, ev⟩ := hl.inuse z hz
      refine ⟨v, by rw [M.vsize]; exact hv, ?_⟩
      rw [M.blk, if_neg]
      · exact ev
      · rintro ⟨_, h2⟩; exact hzb (ev.symm.trans h2)
  · -- the statistics
    apply StatsInv.of_statEq (removeBlock_statEq st' b)
    intro v hv
    rw [M.vsize] at hv
    by_cases hvs : (getV st' v).block = sb
    · rw [hvs]; exact m4
    · have hvb : (getV st' v).block = (getV st v).block := by
        rw [M.blk] at hvs ⊢
        split_ifs at hvs ⊢ <;> first | rfl | omega
      have hvb' : (getV st v).block ≠ b := by
        intro h
        have := M.blk v
        rw [if_pos ⟨hv, h⟩] at this
        exact hvs this
      rw [hvb] at hvs ⊢
      refine StatsB.congr (st := st) (b := (getV st v).block) ?_ (fun i hi => ?_) (hs v hv)
      · rw [m2 _ hvs]; exact BSame.rfl' _
      · have := (hinv.members v hv i).1 hi
        rw [M.gv, if_neg]
        · exact VSame.rfl' _
        · rintro ⟨_, h2⟩; exact hvb' (this.2.symm.trans h2)

end Labella.Vpsc
