import Labella.Proofs.VpscFrame
import Labella.Proofs.VpscMerge
import Labella.Proofs.VpscSplit
import Mathlib.Algebra.Order.Field.Rat
import Mathlib.Tactic.Linarith
/-! # The loops of the transliterated VPSC solver: `satisfyLoop`, `splitLoop`, `blocksSplit`, `satisfy`, `solveLoop`, `solve`

Built on the per-operation lemmas of sections F (frame, `mostViolated`, slack), M (merge) and S (split). -/
namespace Labella.Vpsc

/-! ## General helpers -/

private theorem zub_nonpos : Gen.zeroUpperBound ≤ 0 := by norm_num [Gen.zeroUpperBound]

private theorem maxsize_nonneg : (0 : Rat) ≤ maxsize := by norm_num [maxsize]

private theorem slack_congr {st st' : St} (h1 : st'.vs = st.vs) (h2 : st'.cs = st.cs) (h3 : st'.bs = st.bs) (c : Nat) :
    slack st' c = slack st c := by
  unfold slack position getV getC getB
  rw [h1, h2, h3]

/-- same graph: the variables, the blocks and everything of the constraints except `unsat` and `lm` coincide; the entries of
`inactive` are constraint indices -/
structure SameG (st st' : St) : Prop where
  vs_eq : st'.vs = st.vs
  bs_eq : st'.bs = st.bs
  csize : st'.cs.size = st.cs.size
  cfix : ∀ i, (getC st' i).l = (getC st i).l ∧ (getC st' i).r = (getC st i).r ∧ (getC st' i).g = (getC st i).g ∧
    (getC st' i).active = (getC st i).active
  inact : ∀ c ∈ st'.inactive.toList, c < st.cs.size

theorem SameG.adj {st st' : St} (h : SameG st st') (x : Option Nat) : Adj st' x = Adj st x := by
  funext u w
  have hl : ∀ i, (getC st' i).l = (getC st i).l := fun i => (h.cfix i).1
  have hr : ∀ i, (getC st' i).r = (getC st i).r := fun i => (h.cfix i).2.1
  have ha : ∀ i, (getC st' i).active = (getC st i).active := fun i => (h.cfix i).2.2.2
  simp only [Adj, h.csize, hl, hr, ha]

theorem SameG.conn {st st' : St} (h : SameG st st') (x : Option Nat) : Conn st' x = Conn st x := by
  unfold Conn; rw [h.adj]

theorem SameG.frame {st st' : St} (h : SameG st st') (herr : st.err = true → st'.err = true) : Frame st st' where
  vsize := by rw [h.vs_eq]
  csize := h.csize
  bsize := by rw [h.bs_eq]
  vstat := fun i => by simp [getV, h.vs_eq]
  cstat := fun i => ⟨(h.cfix i).1, (h.cfix i).2.1, (h.cfix i).2.2.1⟩
  errmono := herr

theorem Inv.of_sameG {st st' : St} (h : SameG st st') (hi : Inv st) : Inv st' := by
  have hV : ∀ i, getV st' i = getV st i := fun i => by simp [getV, h.vs_eq]
  have hB : ∀ i, getB st' i = getB st i := fun i => by simp [getB, h.bs_eq]
  have hvs : st'.vs.size = st.vs.size := by rw [h.vs_eq]
  have hbs : st'.bs.size = st.bs.size := by rw [h.bs_eq]
  have hl : ∀ i, (getC st' i).l = (getC st i).l := fun i => (h.cfix i).1
  have hr : ∀ i, (getC st' i).r = (getC st i).r := fun i => (h.cfix i).2.1
  have hg : ∀ i, (getC st' i).g = (getC st i).g := fun i => (h.cfix i).2.2.1
  have ha : ∀ i, (getC st' i).active = (getC st i).active := fun i => (h.cfix i).2.2.2
  have hc := h.conn
  have hcs := h.csize
  refine ⟨⟨?_, ?_, ?_, ?_, ?_, ?_, ?_, ?_⟩, ?_, ?_, ?_, ?_⟩
  · simpa only [hV, hB, hvs, hbs, hl, hr, hg, ha, hc, hcs] using hi.wf.lr
  · simpa only [hV, hB, hvs, hbs, hl, hr, hg, ha, hc, hcs] using hi.wf.out_mem
  · simpa only [hV, hB, hvs, hbs, hl, hr, hg, ha, hc, hcs] using hi.wf.in_mem
  · simpa only [hV, hB, hvs, hbs, hl, hr, hg, ha, hc, hcs] using hi.wf.out_sound
  · simpa only [hV, hB, hvs, hbs, hl, hr, hg, ha, hc, hcs] using hi.wf.in_sound
  · simpa only [hV, hB, hvs, hbs, hl, hr, hg, ha, hc, hcs] using hi.wf.scale_ne
  · simpa only [hV, hB, hvs, hbs, hl, hr, hg, ha, hc, hcs] using hi.wf.block_lt
  · intro ci hci; rw [hcs]; exact h.inact ci hci
  · simpa only [hV, hB, hvs, hbs, hl, hr, hg, ha, hc, hcs] using hi.tight
  · simpa only [hV, hB, hvs, hbs, hl, hr, hg, ha, hc, hcs] using hi.comps
  · simpa only [hV, hB, hvs, hbs, hl, hr, hg, ha, hc, hcs] using hi.forest
  · simpa only [hV, hB, hvs, hbs, hl, hr, hg, ha, hc, hcs] using hi.members

/-- replacing `inactive` by any list of constraint indices -/
theorem SameG.setInactive (st : St) (l : Array Nat) (hl : ∀ c ∈ l.toList, c < st.cs.size) :
    SameG st { st with inactive := l } :=
  ⟨rfl, rfl, rfl, fun _ => ⟨rfl, rfl, rfl, rfl⟩, hl⟩

theorem SameG.push (st : St) (hwf : WF st) (c : Nat) (hc : c < st.cs.size) :
    SameG st { st with inactive := st.inactive.push c } := by
  apply SameG.setInactive
  intro x hx
  simp only [Array.toList_push, List.mem_append, List.mem_singleton] at hx
  rcases hx with hx | hx
  · exact hwf.inactive_lt x hx
  · exact hx ▸ hc

/-- flagging a constraint unsatisfiable -/
theorem SameG.setUnsat (st : St) (hwf : WF st) (v : Nat) :
    SameG st (setC st v { getC st v with unsat := true }) := by
  refine ⟨rfl, rfl, by simp, fun i => ?_, hwf.inactive_lt⟩
  rw [getC_setC]
  split
  · next h => obtain ⟨rfl, _⟩ := h; exact ⟨rfl, rfl, rfl, rfl⟩
  · exact ⟨rfl, rfl, rfl, rfl⟩

private theorem St.eq_setInactive (a b : St) (h1 : a.vs = b.vs) (h2 : a.cs = b.cs) (h3 : a.bs = b.bs) (h4 : a.list = b.list)
    (h5 : a.err = b.err) : a = { b with inactive := a.inactive } := by
  cases a; cases b; simp_all

private theorem mostViolated_err (st : St) : (mostViolated st).1.err = st.err := (mostViolated_spec st).2.2.2.2.1

private theorem mostViolated_sameG (st : St) (hwf : WF st) : SameG st (mostViolated st).1 := by
  obtain ⟨h1, h2, h3, _, _, h6, _⟩ := mostViolated_spec st
  refine ⟨h1, h3, by rw [h2], fun i => ?_, fun c hc => hwf.inactive_lt c (h6 c hc)⟩
  simp [getC, h2]

private theorem mostViolated_slack (st : St) (c : Nat) : slack (mostViolated st).1 c = slack st c := by
  obtain ⟨h1, h2, h3, _⟩ := mostViolated_spec st
  exact slack_congr h1 h2 h3 c

private theorem mostViolated_getC (st : St) (c : Nat) : getC (mostViolated st).1 c = getC st c := by
  obtain ⟨_, h2, _⟩ := mostViolated_spec st
  simp [getC, h2]

/-! ## Leaving the `satisfy` loop -/

/-- when the pair returned by `mostViolated` makes `satisfyLoop` stop, every unflagged constraint holds (up to the tolerance) and
`mostViolated` did not modify the state -/
theorem exit_feasible (st : St) (hinv : Inv st) (hcov : Covered st none)
    (hstop : match (mostViolated st).2 with
      | none => True
      | some v => ¬ (slack (mostViolated st).1 v < Gen.zeroUpperBound ∧ (getC (mostViolated st).1 v).active = false)) :
    Feasible st ∧ (mostViolated st).1 = st := by
  obtain ⟨h1, h2, h3, h4, h5, h6, h7⟩ := mostViolated_spec st
  have key : (mostViolated st).1.inactive = st.inactive ∧
      ∀ c ∈ st.inactive.toList, (getC st c).unsat = false → Gen.zeroUpperBound ≤ slack st c := by
    cases hmv : (mostViolated st).2 with
    | none =>
      rw [hmv] at h7
      refine ⟨h7.1, fun c hc hu => ?_⟩
      have := h7.2 c hc hu
      have := zub_nonpos; have := maxsize_nonneg
      linarith
    | some v =>
      rw [hmv] at h7 hstop
      simp only [mostViolated_slack, mostViolated_getC] at hstop
      obtain ⟨hv, hvu, hmin, hif⟩ := h7
      rw [if_neg hstop] at hif
      refine ⟨hif, fun c hc hu => ?_⟩
      have hle := hmin c hc hu
      by_cases hlt : slack st v < Gen.zeroUpperBound
      · have hact : (getC st v).active = true := by
          cases ha : (getC st v).active with
          | true => rfl
          | false => exact absurd ⟨hlt, ha⟩ hstop
        have h0 := slack_active st hinv v (hinv.wf.inactive_lt v hv) hact hvu
        have := zub_nonpos
        rw [h0] at hlt
        exact absurd hlt (not_lt.mpr this)
      · exact le_trans (not_lt.mp hlt) hle
  constructor
  · intro ci hci hu
    rcases hcov ci hci (by simp) with ha | hu' | hin
    · rw [slack_active st hinv ci hci ha hu]; exact zub_nonpos
    · rw [hu] at hu'; cases hu'
    · exact key.2 ci hin hu
  · have := St.eq_setInactive (mostViolated st).1 st h1 h2 h3 h4 h5
    rw [this, key.1]

theorem VarsNodup.of_sameG {st st' : St} (h : SameG st st') (hn : VarsNodup st) : VarsNodup st' := by
  intro v hv
  have hV : getV st' v = getV st v := by simp [getV, h.vs_eq]
  have hB : ∀ i, getB st' i = getB st i := fun i => by simp [getB, h.bs_eq]
  rw [hV, hB]
  exact hn v (by rw [h.vs_eq] at hv; exact hv)

/-! ## `err` is sticky (unconditionally) -/

private theorem foldl_errmono {α : Type} (f : St → α → St) (l : List α)
    (hf : ∀ st x, x ∈ l → st.err = true → (f st x).err = true) (st : St) (h : st.err = true) :
    (l.foldl f st).err = true := by
  induction l generalizing st with
  | nil => exact h
  | cons a l ih =>
    simp only [List.foldl_cons]
    exact ih (fun st x hx => hf st x (List.mem_cons_of_mem _ hx)) _ (hf st a List.mem_cons_self h)

private theorem foldl_err_eq {α : Type} (f : St → α → St) (hf : ∀ st x, (f st x).err = st.err) (l : List α) (st : St) :
    (l.foldl f st).err = st.err := by
  induction l generalizing st with
  | nil => rfl
  | cons a l ih => simp only [List.foldl_cons]; rw [ih, hf]

private theorem addVariable_err (st : St) (b i : Nat) : (addVariable st b i).err = st.err := rfl

private theorem newBlock_err (st : St) (i : Nat) : (newBlock st i).1.err = st.err := rfl

private theorem populateSplitBlock_errmono : ∀ (fuel : Nat) (st : St) (b v : Nat) (prev : Option Nat), st.err = true →
    (populateSplitBlock fuel st b v prev).err = true
  | 0, st, _, _, _, _ => rfl
  | fuel + 1, st, b, v, prev, h => by
    rw [populateSplitBlock]
    apply foldl_errmono _ _ _ _ h
    intro s p _ hs
    dsimp only
    split
    · exact populateSplitBlock_errmono fuel _ _ _ _ hs
    · exact hs

private theorem createSplitBlock_errmono (st : St) (start : Nat) (h : st.err = true) : (createSplitBlock st start).1.err = true := by
  unfold createSplitBlock
  exact populateSplitBlock_errmono _ _ _ _ _ h

private theorem blockSplit_errmono (st : St) (ci : Nat) (h : st.err = true) : (blockSplit st ci).1.err = true := by
  unfold blockSplit
  exact createSplitBlock_errmono _ _ (createSplitBlock_errmono _ _ h)

private theorem mergeAcross_err (st : St) (self b ci : Nat) (dist : Rat) : (mergeAcross st self b ci dist).err = st.err := by
  unfold mergeAcross
  simp only [setB_err]
  rw [foldl_err_eq]
  · rfl
  · intro s x; rfl

private theorem mergeBlocks_errmono (st : St) (ci : Nat) (h : st.err = true) : (mergeBlocks st ci).err = true := by
  unfold mergeBlocks
  dsimp only
  split
  · exact (removeBlock_coreEq _ _).errmono (by rw [mergeAcross_err]; exact h)
  · exact (removeBlock_coreEq _ _).errmono (by rw [mergeAcross_err]; exact h)

/-! ## One iteration of the `satisfy` loop -/

/-- the part of an iteration that follows `findMinLMBetween` when it has found the constraint `sc` to split at -/
def splitBranch (st1 : St) (v sc lb : Nat) : St :=
  let sp := blockSplit st1 sc
  let st2 := insertBlock (insertBlock sp.1 sp.2.1) sp.2.2
  let st2 := removeBlock st2 lb
  let st2 := { st2 with inactive := st2.inactive.push sc }
  if slack st2 v ≥ 0 then { st2 with inactive := st2.inactive.push v } else mergeBlocks st2 v

/-- one iteration of the `while` loop of `Solver.satisfy`, up to (not including) the next `mostViolated()`; the flag is
`false` when a traversal ran out of fuel (the loop then returns the state, `err` raised) -/
def satStep (st : St) (v : Nat) : St × Bool :=
  let c := getC st v
  let lb := (getV st c.l).block
  let rb := (getV st c.r).block
  if lb != rb then (mergeBlocks st v, true)
  else
    match isActiveDirectedPathBetween (travFuel st) st c.r c.l with
    | none => ({ st with err := true }, false)
    | some true => (setC st v { c with unsat := true }, true)
    | some false =>
      let st1 := (computeLm (travFuel st) st false none c.l none).1
      match findPath (travFuel st) st1 none c.l none c.r with
      | none => ({ st1 with err := true }, false)
      | some (_, none) => (setC st1 v { getC st1 v with unsat := true }, true)
      | some (_, some sc) => (splitBranch st1 v sc lb, true)

theorem satisfyLoop_succ (fuel : Nat) (st : St) (v : Nat) :
    satisfyLoop (fuel + 1) st (some v) =
      if slack st v < Gen.zeroUpperBound && !(getC st v).active then
        if (satStep st v).2 then satisfyLoop fuel (mostViolated (satStep st v).1).1 (mostViolated (satStep st v).1).2
        else (satStep st v).1
      else st := by
  rw [satisfyLoop]
  unfold satStep splitBranch
  dsimp only
  split
  · split
    · rfl
    · generalize isActiveDirectedPathBetween (travFuel st) st (getC st v).r (getC st v).l = o
      rcases o with _ | _ | _
      · rfl
      · generalize findPath (travFuel st) (computeLm (travFuel st) st false none (getC st v).l none).1 none
          (getC st v).l none (getC st v).r = o2
        rcases o2 with _ | ⟨b, _ | sc⟩ <;> rfl
      · rfl
  · rfl

theorem merge_step (st : St) (v : Nat) (hinv : Inv st) (hnd : VarsNodup st) (hcov : Covered st (some v))
    (hv : v < st.cs.size) (ha : (getC st v).active = false)
    (hb : (getV st (getC st v).l).block ≠ (getV st (getC st v).r).block) :
    Inv (mergeBlocks st v) ∧ VarsNodup (mergeBlocks st v) ∧ Covered (mergeBlocks st v) none ∧
      Frame st (mergeBlocks st v) := by
  obtain ⟨h1, h2, h3, h4, h5, h6⟩ := mergeBlocks_inv st v hinv hnd hv ha hb
  refine ⟨h1, mergeBlocks_varsNodup st v hinv hnd hv ha hb, ?_, h2⟩
  intro ci hci _
  rw [h2.csize] at hci
  by_cases hcv : ci = v
  · subst hcv; exact Or.inl h4
  · rcases hcov ci hci (by simpa using hcv) with h | h | h
    · left; rw [h5 ci hcv]; exact h
    · right; left; rw [h6]; exact h
    · right; right; rw [h3]; exact h

theorem unsat_step (st : St) (v : Nat) (hinv : Inv st) (hnd : VarsNodup st) (hcov : Covered st (some v))
    (hv : v < st.cs.size) :
    Inv (setC st v { getC st v with unsat := true }) ∧ VarsNodup (setC st v { getC st v with unsat := true }) ∧
      Covered (setC st v { getC st v with unsat := true }) none ∧
      Frame st (setC st v { getC st v with unsat := true }) := by
  have hs := SameG.setUnsat st hinv.wf v
  refine ⟨hinv.of_sameG hs, hnd.of_sameG hs, ?_, hs.frame (fun h => h)⟩
  intro ci hci _
  rw [hs.csize] at hci
  rw [getC_setC]
  by_cases hcv : ci = v
  · subst hcv; simp [hv]
  · rw [if_neg (fun h => hcv h.1)]
    exact hcov ci hci (by simpa using hcv)

theorem splitTail_spec (st2 : St) (v : Nat) (hinv : Inv st2) (hnd : VarsNodup st2) (hcov : Covered st2 (some v))
    (hv : v < st2.cs.size) (ha : (getC st2 v).active = false)
    (hb : (getV st2 (getC st2 v).l).block ≠ (getV st2 (getC st2 v).r).block) :
    Inv (if slack st2 v ≥ 0 then { st2 with inactive := st2.inactive.push v } else mergeBlocks st2 v) ∧
    VarsNodup (if slack st2 v ≥ 0 then { st2 with inactive := st2.inactive.push v } else mergeBlocks st2 v) ∧
    Covered (if slack st2 v ≥ 0 then { st2 with inactive := st2.inactive.push v } else mergeBlocks st2 v) none ∧
    Frame st2 (if slack st2 v ≥ 0 then { st2 with inactive := st2.inactive.push v } else mergeBlocks st2 v) := by
  split
  · have hs := SameG.push st2 hinv.wf v hv
    refine ⟨hinv.of_sameG hs, hnd.of_sameG hs, ?_, hs.frame (fun h => h)⟩
    intro ci hci _
    by_cases hcv : ci = v
    · subst hcv; right; right; simp
    · rcases hcov ci hci (by simpa using hcv) with h | h | h
      · exact Or.inl h
      · exact Or.inr (Or.inl h)
      · right; right; simp [h]
  · exact merge_step st2 v hinv hnd hcov hv ha hb

theorem splitBranch_spec (st1 : St) (v sc lb : Nat) (hinv : Inv st1) (hnd : VarsNodup st1) (hadj : AdjNodup st1)
    (hcov : Covered st1 (some v)) (hv : v < st1.cs.size) (ha : (getC st1 v).active = false)
    (hsc : sc < st1.cs.size) (hsa : (getC st1 sc).active = true)
    (hsep : ¬ Conn st1 (some sc) (getC st1 v).l (getC st1 v).r)
    (herr : (splitBranch st1 v sc lb).err = false) :
    Inv (splitBranch st1 v sc lb) ∧ VarsNodup (splitBranch st1 v sc lb) ∧ Covered (splitBranch st1 v sc lb) none ∧
      Frame st1 (splitBranch st1 v sc lb) := by
  have hce : CoreEq (blockSplit st1 sc).1
      (removeBlock (insertBlock (insertBlock (blockSplit st1 sc).1 (blockSplit st1 sc).2.1) (blockSplit st1 sc).2.2) lb) :=
    ((insertBlock_coreEq _ _).trans (insertBlock_coreEq _ _)).trans (removeBlock_coreEq _ _)
  have herr1 : (blockSplit st1 sc).1.err = false := by
    cases h : (blockSplit st1 sc).1.err with
    | false => rfl
    | true =>
      have h2 := hce.errmono h
      have : (splitBranch st1 v sc lb).err = true := by
        unfold splitBranch; dsimp only
        split
        · exact h2
        · exact mergeBlocks_errmono _ _ h2
      rw [this] at herr; cases herr
  have hvsc : v ≠ sc := by
    intro h; rw [h, hsa] at ha; cases ha
  obtain ⟨s1, s2, s3, s4, s5, s6, s7⟩ := blockSplit_inv st1 sc hinv hsc hsa herr1
  have snd := blockSplit_varsNodup st1 sc hinv hnd hadj hsc hsa herr1
  unfold splitBranch at herr ⊢
  dsimp only at herr ⊢
  generalize hsb : removeBlock (insertBlock (insertBlock (blockSplit st1 sc).1 (blockSplit st1 sc).2.1)
    (blockSplit st1 sc).2.2) lb = sb at hce herr ⊢
  generalize (blockSplit st1 sc).1 = sp at *
  clear hsb herr
  have ib : Inv sb := s1.of_coreEq hce
  have nb : VarsNodup sb := snd.of_coreEq hce
  have fb : Frame st1 sb := s2.trans hce.toFrame
  have hcs : sb.cs.size = st1.cs.size := fb.csize
  have g2 := SameG.push sb ib.wf sc (by rw [hcs]; exact hsc)
  have hact : ∀ c, c ≠ sc → (getC sb c).active = (getC st1 c).active := fun c hc =>
    ((hce.flags c).1).trans (s5 c hc)
  have hcov2 : Covered { sb with inactive := sb.inactive.push sc } (some v) := by
    intro ci hci hne
    have hci' : ci < st1.cs.size := by rw [← hcs]; exact hci
    by_cases hcs : ci = sc
    · subst hcs; right; right; simp
    · rcases hcov ci hci' hne with h | h | h
      · left; exact (hact ci hcs).trans h
      · right; left; exact ((hce.flags ci).2.trans (s6 ci)).trans h
      · right; right
        have : ci ∈ sb.inactive.toList := by rw [hce.inactive_eq, s3]; exact h
        simp [this]
  have hl : (getC sb v).l = (getC st1 v).l := (fb.cstat v).1
  have hr : (getC sb v).r = (getC st1 v).r := (fb.cstat v).2.1
  have hV : ∀ i, getV sb i = getV sp i := fun i => by simp [getV, hce.vs_eq]
  have hlr := hinv.wf.lr v hv
  have hb : (getV sb (getC sb v).l).block ≠ (getV sb (getC sb v).r).block := by
    rw [hl, hr, hV, hV]
    intro h
    have := (s1.comps _ _ (by rw [s2.vsize]; exact hlr.1) (by rw [s2.vsize]; exact hlr.2)).mp h
    exact hsep ((s7 _ _).mp this)
  obtain ⟨t1, t2, t3, t4⟩ := splitTail_spec { sb with inactive := sb.inactive.push sc } v (ib.of_sameG g2)
    (nb.of_sameG g2) hcov2 (by rw [← hcs] at hv; exact hv) ((hact v hvsc).trans ha) hb
  exact ⟨t1, t2, t3, fb.trans ((g2.frame (fun h => h)).trans t4)⟩

theorem splitBranch_errmono' (st1 : St) (v sc lb : Nat) (h : (blockSplit st1 sc).1.err = true) :
    (splitBranch st1 v sc lb).err = true := by
  have h2 := (((insertBlock_coreEq _ (blockSplit st1 sc).2.1).trans (insertBlock_coreEq _ (blockSplit st1 sc).2.2)).trans
    (removeBlock_coreEq _ lb)).errmono h
  unfold splitBranch; dsimp only
  split
  · exact h2
  · exact mergeBlocks_errmono _ _ h2

theorem satStep_errmono (st : St) (v : Nat) (h : st.err = true) : (satStep st v).1.err = true := by
  unfold satStep; dsimp only
  split
  · exact mergeBlocks_errmono _ _ h
  · split
    · rfl
    · exact h
    · have h1 := (computeLm_coreEq (travFuel st) st false none (getC st v).l none).errmono h
      split
      · rfl
      · exact h1
      · exact splitBranch_errmono' _ _ _ _ (blockSplit_errmono _ _ h1)

theorem satStep_stop (st : St) (v : Nat) (h : (satStep st v).2 = false) : (satStep st v).1.err = true := by
  revert h
  unfold satStep; dsimp only
  split
  · intro h; cases h
  · split
    · intro _; rfl
    · intro h; cases h
    · split
      · intro _; rfl
      · intro h; cases h
      · intro h; cases h

theorem satStep_spec (st : St) (v : Nat) (hinv : Inv st) (hnd : VarsNodup st) (hadj : AdjNodup st)
    (hcov : Covered st (some v))
    (hv : v < st.cs.size) (ha : (getC st v).active = false) (herr : (satStep st v).1.err = false) :
    Inv (satStep st v).1 ∧ VarsNodup (satStep st v).1 ∧ Covered (satStep st v).1 none ∧ Frame st (satStep st v).1 := by
  revert herr
  unfold satStep; dsimp only
  split
  · next hb =>
    intro _
    exact merge_step st v hinv hnd hcov hv ha (by simpa using hb)
  · split
    · intro h; cases h
    · intro _; exact unsat_step st v hinv hnd hcov hv
    · have hce := computeLm_coreEq (travFuel st) st false none (getC st v).l none
      generalize (computeLm (travFuel st) st false none (getC st v).l none).1 = st1 at hce ⊢
      have i1 : Inv st1 := hinv.of_coreEq hce
      have n1 : VarsNodup st1 := hnd.of_coreEq hce
      have c1 : Covered st1 (some v) := hcov.of_coreEq hce
      have hv1 : v < st1.cs.size := by rw [hce.csize]; exact hv
      split
      · intro h; cases h
      · intro _
        obtain ⟨t1, t2, t3, t4⟩ := unsat_step st1 v i1 n1 c1 hv1
        exact ⟨t1, t2, t3, hce.toFrame.trans t4⟩
      · next b sc hfp =>
        intro herr
        have hl : (getC st1 v).l = (getC st v).l := (hce.cstat v).1
        have hr : (getC st1 v).r = (getC st v).r := (hce.cstat v).2.1
        obtain ⟨p1, p2, p3⟩ := findPath_sep st1 i1 (getC st v).l (getC st v).r
          (by rw [hce.vsize]; exact (hinv.wf.lr v hv).1) _ b sc hfp
        obtain ⟨t1, t2, t3, t4⟩ := splitBranch_spec st1 v sc _ i1 n1 (hadj.of_frame hce.toFrame) c1 hv1 (((hce.flags v).1).trans ha) p1 p2
          (by rw [hl, hr]; exact p3) herr
        exact ⟨t1, t2, t3, hce.toFrame.trans t4⟩

/-! ## The `satisfy` loop -/

theorem satisfyLoop_errmono : ∀ (fuel : Nat) (st : St) (mv : Option Nat), st.err = true →
    (satisfyLoop fuel st mv).err = true
  | 0, st, _, _ => by rw [satisfyLoop]
  | fuel + 1, st, none, h => by rw [satisfyLoop]; exact h
  | fuel + 1, st, some v, h => by
    rw [satisfyLoop_succ]
    split
    · split
      · apply satisfyLoop_errmono
        rw [mostViolated_err]
        exact satStep_errmono _ _ h
      · exact satStep_errmono _ _ h
    · exact h

private theorem mostViolated_frame (st : St) (hwf : WF st) : Frame st (mostViolated st).1 :=
  (mostViolated_sameG st hwf).frame (fun h => by rw [mostViolated_err]; exact h)

theorem satisfyLoop_spec : ∀ (fuel : Nat) (st0 : St), Inv st0 → VarsNodup st0 → AdjNodup st0 → Covered st0 none →
    (satisfyLoop fuel (mostViolated st0).1 (mostViolated st0).2).err = false →
    Inv (satisfyLoop fuel (mostViolated st0).1 (mostViolated st0).2) ∧
    VarsNodup (satisfyLoop fuel (mostViolated st0).1 (mostViolated st0).2) ∧
    Covered (satisfyLoop fuel (mostViolated st0).1 (mostViolated st0).2) none ∧
    Feasible (satisfyLoop fuel (mostViolated st0).1 (mostViolated st0).2) ∧
    Frame st0 (satisfyLoop fuel (mostViolated st0).1 (mostViolated st0).2)
  | 0, st0, _, _, _, _, herr => by rw [satisfyLoop] at herr; cases herr
  | fuel + 1, st0, hinv, hnd, hadj, hcov, herr => by
    obtain ⟨_, _, _, _, _, _, h7⟩ := mostViolated_spec st0
    have hG := mostViolated_sameG st0 hinv.wf
    cases hmv : (mostViolated st0).2 with
    | none =>
      have hx := exit_feasible st0 hinv hcov (by rw [hmv]; trivial)
      rw [satisfyLoop, hx.2]
      exact ⟨hinv, hnd, hcov, hx.1, Frame.refl _⟩
    | some v =>
      rw [hmv] at herr h7
      rw [satisfyLoop_succ] at herr ⊢
      by_cases hc : (slack (mostViolated st0).1 v < Gen.zeroUpperBound && !(getC (mostViolated st0).1 v).active) = true
      · rw [if_pos hc] at herr ⊢
        have hc' : slack st0 v < Gen.zeroUpperBound ∧ (getC st0 v).active = false := by
          simpa [mostViolated_slack, mostViolated_getC] using hc
        obtain ⟨hv, hvu, hmin, hif⟩ := h7
        rw [if_pos hc'] at hif
        have hvlt := hinv.wf.inactive_lt v hv
        have is : Inv (mostViolated st0).1 := hinv.of_sameG hG
        have ns : VarsNodup (mostViolated st0).1 := hnd.of_sameG hG
        have cs : Covered (mostViolated st0).1 (some v) := by
          intro ci hci hne
          rw [hG.csize] at hci
          rcases hcov ci hci (by simp) with h | h | h
          · left; rw [mostViolated_getC]; exact h
          · right; left; rw [mostViolated_getC]; exact h
          · right; right; exact hif ci h (by simpa using hne)
        by_cases h2 : (satStep (mostViolated st0).1 v).2 = true
        · rw [if_pos h2] at herr ⊢
          have herr2 : (satStep (mostViolated st0).1 v).1.err = false := by
            cases h : (satStep (mostViolated st0).1 v).1.err with
            | false => rfl
            | true =>
              rw [satisfyLoop_errmono _ _ _ (by rw [mostViolated_err]; exact h)] at herr
              cases herr
          obtain ⟨t1, t2, t3, t4⟩ := satStep_spec (mostViolated st0).1 v is ns
            (hadj.of_frame (mostViolated_frame st0 hinv.wf)) cs (by rw [hG.csize]; exact hvlt)
            (by rw [mostViolated_getC]; exact hc'.2) herr2
          obtain ⟨u1, u2, u3, u4, u5⟩ := satisfyLoop_spec fuel (satStep (mostViolated st0).1 v).1 t1 t2
            (hadj.of_frame ((mostViolated_frame st0 hinv.wf).trans t4)) t3 herr
          exact ⟨u1, u2, u3, u4, (mostViolated_frame st0 hinv.wf).trans (t4.trans u5)⟩
        · rw [if_neg h2] at herr
          rw [satStep_stop _ v (by simpa using h2)] at herr
          cases herr
      · rw [if_neg hc]
        have hx := exit_feasible st0 hinv hcov (by rw [hmv]; simpa using hc)
        rw [hx.2]
        exact ⟨hinv, hnd, hcov, hx.1, Frame.refl _⟩

/-! ## `Blocks.split` -/

/-- what the loop of `Blocks.split` does with a block whose smallest multiplier (constraint `ci`) is below the tolerance -/
def splitOne (st : St) (ci : Nat) : St :=
  let b' := (getV st (getC st ci).l).block
  let sp := blockSplit st ci
  let st := insertBlock (insertBlock sp.1 sp.2.1) sp.2.2
  let stSet := removeSet st b'
  let st := { stSet with list := stSet.list.pop }
  { st with inactive := st.inactive.push ci }

theorem splitOne_coreEq (st : St) (ci : Nat) : CoreEq (blockSplit st ci).1
    { removeSet (insertBlock (insertBlock (blockSplit st ci).1 (blockSplit st ci).2.1) (blockSplit st ci).2.2)
        (getV st (getC st ci).l).block with
      list := (removeSet (insertBlock (insertBlock (blockSplit st ci).1 (blockSplit st ci).2.1) (blockSplit st ci).2.2)
        (getV st (getC st ci).l).block).list.pop } :=
  (((insertBlock_coreEq _ _).trans (insertBlock_coreEq _ _)).trans (removeSet_coreEq _ _)).trans (setList_coreEq _ _)

theorem splitOne_errmono' (st : St) (ci : Nat) (h : (blockSplit st ci).1.err = true) : (splitOne st ci).err = true :=
  (splitOne_coreEq st ci).errmono h

theorem splitOne_aux (st sp sb : St) (ci : Nat) (hcov : Covered st none) (hci : ci < st.cs.size)
    (s1 : Inv sp) (snd : VarsNodup sp) (s2 : Frame st sp) (s3 : sp.inactive = st.inactive)
    (s5 : ∀ c, c ≠ ci → (getC sp c).active = (getC st c).active)
    (s6 : ∀ c, (getC sp c).unsat = (getC st c).unsat) (hce : CoreEq sp sb) :
    Inv { sb with inactive := sb.inactive.push ci } ∧ VarsNodup { sb with inactive := sb.inactive.push ci } ∧
      Covered { sb with inactive := sb.inactive.push ci } none ∧ Frame st { sb with inactive := sb.inactive.push ci } := by
  have ib : Inv sb := s1.of_coreEq hce
  have nb : VarsNodup sb := snd.of_coreEq hce
  have fb : Frame st sb := s2.trans hce.toFrame
  have hcs : sb.cs.size = st.cs.size := fb.csize
  have g2 := SameG.push sb ib.wf ci (by rw [hcs]; exact hci)
  refine ⟨ib.of_sameG g2, nb.of_sameG g2, ?_, fb.trans (g2.frame (fun h => h))⟩
  intro c hc _
  have hc' : c < st.cs.size := by rw [← hcs]; exact hc
  by_cases hcc : c = ci
  · subst hcc; right; right; simp
  · rcases hcov c hc' (by simp) with h | h | h
    · left; exact ((hce.flags c).1.trans (s5 c hcc)).trans h
    · right; left; exact ((hce.flags c).2.trans (s6 c)).trans h
    · right; right
      have : c ∈ sb.inactive.toList := by rw [hce.inactive_eq, s3]; exact h
      simp [this]

theorem splitOne_spec (st : St) (ci : Nat) (hinv : Inv st) (hnd : VarsNodup st) (hadj : AdjNodup st)
    (hcov : Covered st none)
    (hci : ci < st.cs.size) (ha : (getC st ci).active = true) (herr : (splitOne st ci).err = false) :
    Inv (splitOne st ci) ∧ VarsNodup (splitOne st ci) ∧ Covered (splitOne st ci) none ∧ Frame st (splitOne st ci) := by
  have hce := splitOne_coreEq st ci
  have herr1 : (blockSplit st ci).1.err = false := by
    cases h : (blockSplit st ci).1.err with
    | false => rfl
    | true => rw [splitOne_errmono' st ci h] at herr; cases herr
  obtain ⟨s1, s2, s3, _, s5, s6, _⟩ := blockSplit_inv st ci hinv hci ha herr1
  have snd := blockSplit_varsNodup st ci hinv hnd hadj hci ha herr1
  exact splitOne_aux st _ _ ci hcov hci s1 snd s2 s3 s5 s6 hce

/-- the list object the `for` statement of `Blocks.split` iterates over, after a split -/
def splitL0 (st : St) (ci : Nat) (L0 : Array Nat) (al : Bool) : Array Nat :=
  if al then (removeSet (insertBlock (insertBlock (blockSplit st ci).1 (blockSplit st ci).2.1) (blockSplit st ci).2.2)
    (getV st (getC st ci).l).block).list else L0

theorem splitLoop_succ (fuel : Nat) (st : St) (L0 : Array Nat) (al : Bool) (i : Nat) :
    splitLoop (fuel + 1) st L0 al i =
      if h : i < L0.size then
        match (findMinLM st L0[i]).2 with
        | none => splitLoop fuel (findMinLM st L0[i]).1 L0 al (i + 1)
        | some ci =>
          if (getC (findMinLM st L0[i]).1 ci).lm < Gen.lagrangianTolerance then
            splitLoop fuel (splitOne (findMinLM st L0[i]).1 ci) (splitL0 (findMinLM st L0[i]).1 ci L0 al) false (i + 1)
          else splitLoop fuel (findMinLM st L0[i]).1 L0 al (i + 1)
      else st := by
  rw [splitLoop]
  rfl

theorem splitLoop_errmono : ∀ (fuel : Nat) (st : St) (L0 : Array Nat) (al : Bool) (i : Nat), st.err = true →
    (splitLoop fuel st L0 al i).err = true
  | 0, st, _, _, _, _ => by rw [splitLoop]
  | fuel + 1, st, L0, al, i, h => by
    rw [splitLoop_succ]
    split
    · have h1 := (findMinLM_coreEq st L0[i]).errmono h
      split
      · exact splitLoop_errmono _ _ _ _ _ h1
      · split
        · exact splitLoop_errmono fuel _ _ _ _ (splitOne_errmono' _ _ (blockSplit_errmono _ _ h1))
        · exact splitLoop_errmono _ _ _ _ _ h1
    · exact h

theorem splitLoop_inv : ∀ (fuel : Nat) (st : St) (L0 : Array Nat) (al : Bool) (i : Nat), Inv st → VarsNodup st →
    AdjNodup st → Covered st none → (splitLoop fuel st L0 al i).err = false →
    Inv (splitLoop fuel st L0 al i) ∧ VarsNodup (splitLoop fuel st L0 al i) ∧ Covered (splitLoop fuel st L0 al i) none ∧
      Frame st (splitLoop fuel st L0 al i)
  | 0, st, _, _, _, _, _, _, _, herr => by rw [splitLoop] at herr; cases herr
  | fuel + 1, st, L0, al, i, hinv, hnd, hadj, hcov, herr => by
    revert herr
    rw [splitLoop_succ]
    split
    · next hi =>
      have hce := findMinLM_coreEq st L0[i]
      have hsome := findMinLM_some st hinv.wf L0[i]
      have i1 : Inv (findMinLM st L0[i]).1 := hinv.of_coreEq hce
      have n1 : VarsNodup (findMinLM st L0[i]).1 := hnd.of_coreEq hce
      have c1 : Covered (findMinLM st L0[i]).1 none := hcov.of_coreEq hce
      have a1 : AdjNodup (findMinLM st L0[i]).1 := hadj.of_frame hce.toFrame
      split
      · intro herr
        obtain ⟨t1, t2, t3, t4⟩ := splitLoop_inv fuel _ L0 al (i + 1) i1 n1 a1 c1 herr
        exact ⟨t1, t2, t3, hce.toFrame.trans t4⟩
      · next ci hm =>
        obtain ⟨hci, hact⟩ := hsome ci hm
        split
        · intro herr
          have herr2 : (splitOne (findMinLM st L0[i]).1 ci).err = false := by
            cases h : (splitOne (findMinLM st L0[i]).1 ci).err with
            | false => rfl
            | true =>
              rw [splitLoop_errmono fuel _ _ false (i + 1) h] at herr; cases herr
          obtain ⟨p1, p2, p3, p4⟩ := splitOne_spec (findMinLM st L0[i]).1 ci i1 n1 a1 c1 (by rw [hce.csize]; exact hci)
            ((hce.flags ci).1.trans hact) herr2
          obtain ⟨t1, t2, t3, t4⟩ := splitLoop_inv fuel _ _ false (i + 1) p1 p2 (a1.of_frame p4) p3 herr
          exact ⟨t1, t2, t3, hce.toFrame.trans (p4.trans t4)⟩
        · intro herr
          obtain ⟨t1, t2, t3, t4⟩ := splitLoop_inv fuel _ L0 al (i + 1) i1 n1 a1 c1 herr
          exact ⟨t1, t2, t3, hce.toFrame.trans t4⟩
    · intro _
      exact ⟨hinv, hnd, hcov, Frame.refl _⟩

private theorem foldl_coreEq {α : Type} (f : St → α → St) (hf : ∀ st x, CoreEq st (f st x)) (l : List α) (st : St) :
    CoreEq st (l.foldl f st) := by
  induction l generalizing st with
  | nil => exact CoreEq.refl st
  | cons a l ih => simp only [List.foldl_cons]; exact (hf st a).trans (ih _)

theorem blocksSplit_pre_coreEq (st : St) :
    CoreEq st (st.list.foldl (fun st b => updateWeightedPosition st b) st) := by
  rw [← Array.foldl_toList]
  exact foldl_coreEq _ (fun s b => updateWeightedPosition_coreEq s b) _ _

theorem blocksSplit_errmono (st : St) (h : st.err = true) : (blocksSplit st).err = true := by
  unfold blocksSplit
  exact splitLoop_errmono _ _ _ _ _ ((blocksSplit_pre_coreEq st).errmono h)

theorem blocksSplit_inv (st : St) (hinv : Inv st) (hnd : VarsNodup st) (hadj : AdjNodup st) (hcov : Covered st none)
    (herr : (blocksSplit st).err = false) :
    Inv (blocksSplit st) ∧ VarsNodup (blocksSplit st) ∧ Covered (blocksSplit st) none ∧ Frame st (blocksSplit st) := by
  have hce := blocksSplit_pre_coreEq st
  unfold blocksSplit at herr ⊢
  obtain ⟨t1, t2, t3, t4⟩ := splitLoop_inv _ _ _ _ _ (hinv.of_coreEq hce) (hnd.of_coreEq hce)
    (hadj.of_frame hce.toFrame) (hcov.of_coreEq hce) herr
  exact ⟨t1, t2, t3, hce.toFrame.trans t4⟩

/-! ## `Solver.satisfy` and `Solver.solve` -/

theorem satisfy_errmono (fuel : Nat) (st : St) (h : st.err = true) : (satisfy fuel st).err = true := by
  unfold satisfy
  apply satisfyLoop_errmono
  rw [mostViolated_err]
  exact blocksSplit_errmono st h

theorem satisfy_spec (fuel : Nat) (st : St) (hinv : Inv st) (hnd : VarsNodup st) (hadj : AdjNodup st)
    (hcov : Covered st none) (herr : (satisfy fuel st).err = false) :
    Inv (satisfy fuel st) ∧ VarsNodup (satisfy fuel st) ∧ Covered (satisfy fuel st) none ∧ Feasible (satisfy fuel st) ∧
      Frame st (satisfy fuel st) := by
  have herr1 : (blocksSplit st).err = false := by
    cases h : (blocksSplit st).err with
    | false => rfl
    | true =>
      have : (satisfy fuel st).err = true := by
        unfold satisfy
        apply satisfyLoop_errmono
        rw [mostViolated_err]
        exact h
      rw [this] at herr; cases herr
  obtain ⟨t1, t2, t3, t4⟩ := blocksSplit_inv st hinv hnd hadj hcov herr1
  unfold satisfy at herr ⊢
  obtain ⟨u1, u2, u3, u4, u5⟩ := satisfyLoop_spec fuel (blocksSplit st) t1 t2 (hadj.of_frame t4) t3 herr
  exact ⟨u1, u2, u3, u4, t4.trans u5⟩

theorem solveLoop_errmono : ∀ (fuel sfuel : Nat) (st : St) (lc c : Rat), st.err = true →
    (solveLoop fuel sfuel st lc c).1.err = true
  | 0, _, st, _, _, _ => by rw [solveLoop]
  | fuel + 1, sfuel, st, lc, c, h => by
    rw [solveLoop]
    split
    · exact solveLoop_errmono fuel sfuel _ _ _ (satisfy_errmono sfuel st h)
    · exact h

theorem solveLoop_spec : ∀ (fuel sfuel : Nat) (st : St) (lc c : Rat), Inv st → VarsNodup st → AdjNodup st →
    Covered st none → Feasible st → c = cost st → (solveLoop fuel sfuel st lc c).1.err = false →
    Inv (solveLoop fuel sfuel st lc c).1 ∧ VarsNodup (solveLoop fuel sfuel st lc c).1 ∧
    Covered (solveLoop fuel sfuel st lc c).1 none ∧ Feasible (solveLoop fuel sfuel st lc c).1 ∧
    Frame st (solveLoop fuel sfuel st lc c).1 ∧ (solveLoop fuel sfuel st lc c).2 = cost (solveLoop fuel sfuel st lc c).1
  | 0, _, st, _, _, _, _, _, _, _, _, herr => by rw [solveLoop] at herr; cases herr
  | fuel + 1, sfuel, st, lc, c, hinv, hnd, hadj, hcov, hfeas, hc, herr => by
    revert herr
    rw [solveLoop]
    split
    · intro herr
      have herr1 : (satisfy sfuel st).err = false := by
        cases h : (satisfy sfuel st).err with
        | false => rfl
        | true => rw [solveLoop_errmono fuel sfuel _ _ _ h] at herr; cases herr
      obtain ⟨t1, t2, t3, t4, t5⟩ := satisfy_spec sfuel st hinv hnd hadj hcov herr1
      obtain ⟨u1, u2, u3, u4, u5, u6⟩ := solveLoop_spec fuel sfuel (satisfy sfuel st) c (cost (satisfy sfuel st))
        t1 t2 (hadj.of_frame t5) t3 t4 rfl herr
      exact ⟨u1, u2, u3, u4, t5.trans u5, u6⟩
    · intro _
      exact ⟨hinv, hnd, hcov, hfeas, Frame.refl _, hc⟩

theorem solve_spec (fuel sfuel : Nat) (st : St) (hinv : Inv st) (hnd : VarsNodup st) (hadj : AdjNodup st)
    (hcov : Covered st none) (herr : (solve fuel sfuel st).1.err = false) :
    Inv (solve fuel sfuel st).1 ∧ VarsNodup (solve fuel sfuel st).1 ∧ Covered (solve fuel sfuel st).1 none ∧
    Feasible (solve fuel sfuel st).1 ∧ Frame st (solve fuel sfuel st).1 ∧
    (solve fuel sfuel st).2 = cost (solve fuel sfuel st).1 := by
  unfold solve at herr ⊢
  have herr1 : (satisfy sfuel st).err = false := by
    cases h : (satisfy sfuel st).err with
    | false => rfl
    | true => rw [solveLoop_errmono fuel sfuel _ _ _ h] at herr; cases herr
  obtain ⟨t1, t2, t3, t4, t5⟩ := satisfy_spec sfuel st hinv hnd hadj hcov herr1
  obtain ⟨u1, u2, u3, u4, u5, u6⟩ := solveLoop_spec fuel sfuel (satisfy sfuel st) maxsize (cost (satisfy sfuel st))
    t1 t2 (hadj.of_frame t5) t3 t4 rfl herr
  exact ⟨u1, u2, u3, u4, t5.trans u5, u6⟩

end Labella.Vpsc
