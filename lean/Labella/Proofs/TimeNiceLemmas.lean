import Labella.Proofs.TickCountLemmas
/-! Lemmas for C14 (time part): `nice` moves each end of a time domain onto the nearest point of the tick grid
(outward), hence by less than one grid gap, and the grid gaps differ by at most a factor two. -/
namespace Labella.Calendar
open Labella

/-! ### floor just below / ceil just above a grid point -/

namespace Grid
variable {u : TUnit} {g idx : Int → Int}

theorem floor_pred (G : Grid u g idx) (i : Int) : floorU u (g i - 1) = g (i - 1) := by
  have F := G.isFloor (g i - 1)
  obtain ⟨j, hj⟩ := (G.bdry _).1 F.1
  have h1 : g (i - 1) < g i := G.lt_of_lt (by omega)
  have h2 := F.2.2 (g (i - 1)) (G.isB _) (by omega)
  have h0 := F.2.1
  rw [hj] at h2 h0 ⊢
  have h3 : j < i := G.lt_iff.1 (by omega)
  have h4 := G.le_of_le (show j ≤ i - 1 by omega)
  omega

theorem ceil_succ (G : Grid u g idx) (i : Int) : ceilU u (g i + 1) = g (i + 1) := by
  have C := G.isCeil (g i + 1)
  obtain ⟨j, hj⟩ := (G.bdry _).1 C.1
  have h1 : g i < g (i + 1) := G.lt_succ i
  have h2 := C.2.2 (g (i + 1)) (G.isB _) (by omega)
  have h0 := C.2.1
  rw [hj] at h2 h0 ⊢
  have h3 : i < j := G.lt_iff.1 (by omega)
  have h4 := G.le_of_le (show i + 1 ≤ j by omega)
  omega

theorem le_iff (G : Grid u g idx) {i j : Int} : g i ≤ g j ↔ i ≤ j := by
  constructor
  · intro h
    by_cases c : i ≤ j
    · exact c
    · have := G.lt_of_lt (show j < i by omega); omega
  · exact G.le_of_le

end Grid

/-! ### the skip loops, along an increasing enumeration `g` of the method's boundaries -/

theorem niceFloor_loop (M : Method) (g : Int → Int) (hfl : ∀ i, mFloor M (g i - 1) = g (i - 1)) :
    ∀ (fuel : Nat) (i : Int), (∃ j : Nat, j < fuel ∧ skippedB M (g (i - j)) = false) →
      ∃ j : Nat, j < fuel ∧ niceFloor M fuel (g i) = g (i - j) ∧ skippedB M (g (i - j)) = false ∧
        ∀ j' : Nat, j' < j → skippedB M (g (i - j')) = true := by
  intro fuel
  induction fuel with
  | zero => rintro i ⟨j, hj, _⟩; omega
  | succ f ih =>
    rintro i ⟨j, hj, hq⟩
    unfold niceFloor
    by_cases hs : skippedB M (g i) = true
    · rw [if_pos hs, hfl]
      have hj0 : j ≠ 0 := by
        rintro rfl
        have e : i - ((0 : Nat) : Int) = i := by omega
        rw [e, hs] at hq
        exact absurd hq (by simp)
      have e : i - 1 - ((j - 1 : Nat) : Int) = i - j := by omega
      obtain ⟨j1, h1, h2, h3, h4⟩ := ih (i - 1) ⟨j - 1, by omega, by rw [e]; exact hq⟩
      have e1 : i - 1 - (j1 : Int) = i - ((j1 + 1 : Nat) : Int) := by omega
      refine ⟨j1 + 1, by omega, by rw [← e1]; exact h2, by rw [← e1]; exact h3, ?_⟩
      intro j' hj'
      cases j' with
      | zero =>
        have e : i - ((0 : Nat) : Int) = i := by omega
        rw [e]; exact hs
      | succ j'' =>
        have e2 : i - ((j'' + 1 : Nat) : Int) = i - 1 - (j'' : Int) := by omega
        rw [e2]; exact h4 j'' (by omega)
    · rw [if_neg hs]
      have e : i - ((0 : Nat) : Int) = i := by omega
      refine ⟨0, by omega, by rw [e], ?_, ?_⟩
      · rw [e]; simpa using hs
      · intro j' h; omega

theorem niceCeil_loop (M : Method) (g : Int → Int) (hcl : ∀ i, mCeil M (g i + 1) = g (i + 1)) :
    ∀ (fuel : Nat) (i : Int), (∃ j : Nat, j < fuel ∧ skippedB M (g (i + j)) = false) →
      ∃ j : Nat, j < fuel ∧ niceCeil M fuel (g i) = g (i + j) ∧ skippedB M (g (i + j)) = false ∧
        ∀ j' : Nat, j' < j → skippedB M (g (i + j')) = true := by
  intro fuel
  induction fuel with
  | zero => rintro i ⟨j, hj, _⟩; omega
  | succ f ih =>
    rintro i ⟨j, hj, hq⟩
    unfold niceCeil
    by_cases hs : skippedB M (g i) = true
    · rw [if_pos hs, hcl]
      have hj0 : j ≠ 0 := by
        rintro rfl
        have e : i + ((0 : Nat) : Int) = i := by omega
        rw [e, hs] at hq
        exact absurd hq (by simp)
      have e : i + 1 + ((j - 1 : Nat) : Int) = i + j := by omega
      obtain ⟨j1, h1, h2, h3, h4⟩ := ih (i + 1) ⟨j - 1, by omega, by rw [e]; exact hq⟩
      have e1 : i + 1 + (j1 : Int) = i + ((j1 + 1 : Nat) : Int) := by omega
      refine ⟨j1 + 1, by omega, by rw [← e1]; exact h2, by rw [← e1]; exact h3, ?_⟩
      intro j' hj'
      cases j' with
      | zero =>
        have e : i + ((0 : Nat) : Int) = i := by omega
        rw [e]; exact hs
      | succ j'' =>
        have e2 : i + ((j'' + 1 : Nat) : Int) = i + 1 + (j'' : Int) := by omega
        rw [e2]; exact h4 j'' (by omega)
    · rw [if_neg hs]
      have e : i + ((0 : Nat) : Int) = i := by omega
      refine ⟨0, by omega, by rw [e], ?_, ?_⟩
      · rw [e]; simpa using hs
      · intro j' h; omega

/-! ### what "skipped" means -/

theorem skipped_cal (u : TUnit) (k : Int) (t : Int) :
    skippedB (.cal u (k : Rat)) t = false ↔ Qcal u k t := by
  unfold skippedB
  simp only
  rw [List.isEmpty_eq_false_iff_exists_mem]
  constructor
  · rintro ⟨x, hx⟩
    rw [calRange_mem_int _ _ _ _ (Rat.den_intCast k), Rat.num_intCast] at hx
    have : x = t := by omega
    subst this; exact ⟨hx.1, hx.2.2.2⟩
  · rintro ⟨h1, h2⟩
    exact ⟨t, (calRange_mem_int _ _ _ _ (Rat.den_intCast k) t).2
      ⟨h1, by omega, by omega, by rw [Rat.num_intCast]; exact h2⟩⟩

theorem skipped_ms (s : Rat) (t : Int) :
    skippedB (.ms s) t = false ↔ t % (if s.floor < 1 then 1 else s.floor) = 0 := by
  unfold skippedB
  simp only
  rw [List.isEmpty_eq_false_iff_exists_mem]
  constructor
  · rintro ⟨x, hx⟩
    rw [msRange_mem'] at hx
    have : x = t := by omega
    subst this; exact hx.2.2
  · intro h
    exact ⟨t, (msRange_mem' _ _ _ _).2 ⟨by omega, by omega, h⟩⟩

/-! ### a kept grid point within `k` boundaries, in both directions -/

def Back (Q : Int → Prop) (k : Int) (g : Int → Int) : Prop :=
  ∀ i, (∃ j : Nat, (j : Int) < k ∧ Q (g (i - j))) ∧ (∃ j : Nat, (j : Int) < k ∧ Q (g (i + j)))

theorem back_of_mod (Q : Int → Prop) (k : Int) (g : Int → Int) (hk : 0 < k) (h : ∀ i, Q (g i) ↔ i % k = 0) :
    Back Q k g := by
  intro i
  constructor
  · have h0 := Int.emod_nonneg i (Int.ne_of_gt hk)
    have h1 := Int.emod_lt_of_pos i hk
    have e : ((i % k).toNat : Int) = i % k := Int.toNat_of_nonneg h0
    refine ⟨(i % k).toNat, by omega, ?_⟩
    rw [h, e, Int.sub_emod, Int.emod_emod_of_dvd _ (Int.dvd_refl k), Int.sub_self, Int.zero_emod]
  · have h0 := Int.emod_nonneg (-i) (Int.ne_of_gt hk)
    have h1 := Int.emod_lt_of_pos (-i) hk
    have e : (((-i) % k).toNat : Int) = (-i) % k := Int.toNat_of_nonneg h0
    refine ⟨((-i) % k).toNat, by omega, ?_⟩
    rw [h, e, Int.add_emod_emod, Int.add_right_neg, Int.zero_emod]

theorem back_second (k : Int) (hk : k = 1 ∨ k = 5 ∨ k = 15 ∨ k = 30) :
    Back (Qcal .second k) k (fun i => i * 1000) := by
  apply back_of_mod _ _ _ (by omega)
  intro i
  unfold Qcal
  rw [uniform_second k _ hk]
  rcases hk with rfl | rfl | rfl | rfl <;> omega

theorem back_minute (k : Int) (hk : k = 1 ∨ k = 5 ∨ k = 15 ∨ k = 30) :
    Back (Qcal .minute k) k (fun i => i * 60000) := by
  apply back_of_mod _ _ _ (by omega)
  intro i
  unfold Qcal
  rw [uniform_minute k _ hk]
  rcases hk with rfl | rfl | rfl | rfl <;> omega

theorem back_hour (k : Int) (hk : k = 1 ∨ k = 3 ∨ k = 6 ∨ k = 12) :
    Back (Qcal .hour k) k (fun i => i * 3600000) := by
  apply back_of_mod _ _ _ (by omega)
  intro i
  unfold Qcal
  rw [uniform_hour k _ hk]
  rcases hk with rfl | rfl | rfl | rfl <;> omega

theorem back_day2 : Back (Qcal .day 2) 2 (fun i => i * 86400000) := by
  have key : ∀ i : Int, Qcal .day 2 (i * 86400000) ↔ domZ i % 2 = 0 := by
    intro i
    unfold Qcal
    rw [day2_iff]
    have e : i * 86400000 / 86400000 = i := by omega
    rw [e]
    constructor
    · exact fun h => h.2
    · exact fun h => ⟨by omega, h⟩
  intro i
  constructor
  · by_cases c : domZ i % 2 = 0
    · exact ⟨0, by omega, by rw [key]; simpa using c⟩
    · exact ⟨1, by omega, by rw [key]; exact domZ_prev i c⟩
  · by_cases c : domZ i % 2 = 0
    · exact ⟨0, by omega, by rw [key]; simpa using c⟩
    · exact ⟨1, by omega, by rw [key]; exact domZ_next i c⟩

theorem back_month3 : Back (Qcal .month 3) 3 (fun i => fom i * msPerDay) := by
  apply back_of_mod _ _ _ (by omega)
  intro i
  unfold Qcal
  rw [numberU_month_fom]
  constructor
  · rintro ⟨_, h⟩; omega
  · intro h; exact ⟨grid_month.isB i, Or.inr (by omega)⟩

theorem back_year (k : Int) (hk : 2 ≤ k) : Back (Qcal .year k) k (fun y => daysBeforeYear y * msPerDay) := by
  apply back_of_mod _ _ _ (by omega)
  intro i
  unfold Qcal
  rw [numberU_year_dby]
  constructor
  · rintro ⟨_, h⟩
    rcases h with h | h
    · omega
    · exact h
  · intro h; exact ⟨grid_year.isB i, Or.inr h⟩

/-- the methods `tickMethod` can return (see `tickMethod_table`), with an integer skip -/
def TableMethod (u : TUnit) (k : Int) : Prop :=
  u = .year ∨ (u = .second ∧ (k = 1 ∨ k = 5 ∨ k = 15 ∨ k = 30)) ∨ (u = .minute ∧ (k = 1 ∨ k = 5 ∨ k = 15 ∨ k = 30)) ∨
    (u = .hour ∧ (k = 1 ∨ k = 3 ∨ k = 6 ∨ k = 12)) ∨ (u = .day ∧ (k = 1 ∨ k = 2)) ∨ (u = .week ∧ k = 1) ∨
    (u = .month ∧ (k = 1 ∨ k = 3))

theorem back_exists (u : TUnit) (k : Int) (hT : TableMethod u k) :
    ∃ g idx, Grid u g idx ∧ (2 ≤ k → Back (Qcal u k) k g) := by
  rcases hT with rfl | ⟨rfl, hk⟩ | ⟨rfl, hk⟩ | ⟨rfl, hk⟩ | ⟨rfl, hk⟩ | ⟨rfl, hk⟩ | ⟨rfl, hk⟩
  · exact ⟨_, _, grid_year, fun h => back_year k h⟩
  · exact ⟨_, _, grid_second, fun _ => back_second k hk⟩
  · exact ⟨_, _, grid_minute, fun _ => back_minute k hk⟩
  · exact ⟨_, _, grid_hour, fun _ => back_hour k hk⟩
  · refine ⟨_, _, grid_day, fun h => ?_⟩
    have : k = 2 := by omega
    subst this; exact back_day2
  · exact ⟨_, _, grid_week, fun h => by omega⟩
  · refine ⟨_, _, grid_month, fun h => ?_⟩
    have : k = 3 := by omega
    subst this; exact back_month3

/-! ### `nice` lands on the nearest kept grid points -/

/-- `r` is the greatest point of `Q` not after `t` -/
def GreatestLE (Q : Int → Prop) (t r : Int) : Prop := Q r ∧ r ≤ t ∧ ∀ x, Q x → x ≤ t → x ≤ r

/-- `r` is the least point of `Q` not before `t` -/
def LeastGE (Q : Int → Prop) (t r : Int) : Prop := Q r ∧ t ≤ r ∧ ∀ x, Q x → t ≤ x → r ≤ x

theorem qcal_one (u : TUnit) (x : Int) : Qcal u 1 x ↔ isBoundary u x = true := by
  unfold Qcal
  constructor
  · exact fun h => h.1
  · exact fun h => ⟨h, Or.inl (Int.le_refl 1)⟩

theorem niceRaw_of_lt (e0 e1 : Int) (M : Method) (h : 1 < mSkip M) :
    niceRaw e0 e1 M =
      (niceFloor M ((mSkip M).ceil.toNat + 2) (mFloor M e0), niceCeil M ((mSkip M).ceil.toNat + 2) (mCeil M e1)) := by
  unfold niceRaw; rw [if_pos h]

theorem niceRaw_of_not_lt (e0 e1 : Int) (M : Method) (h : ¬ 1 < mSkip M) :
    niceRaw e0 e1 M = (mFloor M e0, mCeil M e1) := by
  unfold niceRaw; rw [if_neg h]

/-- calendar method with an integral skip: the new lower end is the greatest kept grid point `≤ e0`, the new upper
end the least kept grid point `≥ e1` -/
theorem link_cal (u : TUnit) (k : Int) (hk : 1 ≤ k) (g idx : Int → Int) (G : Grid u g idx)
    (hB : 2 ≤ k → Back (Qcal u k) k g) (e0 e1 : Int) :
    GreatestLE (Qcal u k) e0 (niceRaw e0 e1 (.cal u (k : Rat))).1 ∧
    LeastGE (Qcal u k) e1 (niceRaw e0 e1 (.cal u (k : Rat))).2 := by
  by_cases h : (1 : Rat) < (k : Rat)
  · rw [niceRaw_of_lt _ _ _ (show 1 < mSkip (.cal u (k : Rat)) from h)]
    simp only [mSkip, mFloor, mCeil]
    rw [Rat.ceil_intCast]
    have hk2 : 2 ≤ k := by
      have : (1 : Int) < k := by exact_mod_cast h
      omega
    have B := hB hk2
    have hflM : ∀ i, mFloor (.cal u (k : Rat)) (g i - 1) = g (i - 1) := fun i => G.floor_pred i
    have hclM : ∀ i, mCeil (.cal u (k : Rat)) (g i + 1) = g (i + 1) := fun i => G.ceil_succ i
    constructor
    · have F := floorU_spec u e0
      obtain ⟨i, hi⟩ := (G.bdry _).1 F.1
      obtain ⟨j, hj, hq⟩ := (B i).1
      obtain ⟨j1, _, hr, hq1, hall⟩ := niceFloor_loop _ g hflM (k.toNat + 2) i
        ⟨j, by omega, (skipped_cal u k _).2 hq⟩
      rw [hi, hr]
      have hle : g (i - j1) ≤ g i := G.le_of_le (by omega)
      have hF1 := F.2.1
      rw [hi] at hF1
      refine ⟨(skipped_cal u k _).1 hq1, by omega, ?_⟩
      intro x hx hxe
      have hxi := F.2.2 x hx.1 hxe
      rw [hi] at hxi
      obtain ⟨i', rfl⟩ := (G.bdry x).1 hx.1
      have hii : i' ≤ i := G.le_iff.1 hxi
      apply G.le_of_le
      by_contra hc
      have hs := hall (i - i').toNat (by omega)
      have e : i - ((i - i').toNat : Int) = i' := by omega
      rw [e] at hs
      have := (skipped_cal u k _).2 hx
      rw [hs] at this
      exact absurd this (by simp)
    · have C := ceilU_spec u e1
      obtain ⟨i, hi⟩ := (G.bdry _).1 C.1
      obtain ⟨j, hj, hq⟩ := (B i).2
      obtain ⟨j1, _, hr, hq1, hall⟩ := niceCeil_loop _ g hclM (k.toNat + 2) i
        ⟨j, by omega, (skipped_cal u k _).2 hq⟩
      rw [hi, hr]
      have hle : g i ≤ g (i + j1) := G.le_of_le (by omega)
      have hC1 := C.2.1
      rw [hi] at hC1
      refine ⟨(skipped_cal u k _).1 hq1, by omega, ?_⟩
      intro x hx hxe
      have hxi := C.2.2 x hx.1 hxe
      rw [hi] at hxi
      obtain ⟨i', rfl⟩ := (G.bdry x).1 hx.1
      have hii : i ≤ i' := G.le_iff.1 hxi
      apply G.le_of_le
      by_contra hc
      have hs := hall (i' - i).toNat (by omega)
      have e : i + ((i' - i).toNat : Int) = i' := by omega
      rw [e] at hs
      have := (skipped_cal u k _).2 hx
      rw [hs] at this
      exact absurd this (by simp)
  · rw [niceRaw_of_not_lt _ _ _ (show ¬ 1 < mSkip (.cal u (k : Rat)) from h)]
    simp only [mFloor, mCeil]
    have hk1 : k = 1 := by
      have : ¬ ((1 : Int) < k) := by
        intro hc; exact h (by exact_mod_cast hc)
      omega
    subst hk1
    have F := floorU_spec u e0
    have C := ceilU_spec u e1
    refine ⟨⟨(qcal_one u _).2 F.1, F.2.1, fun x hx hxe => F.2.2 x ((qcal_one u x).1 hx) hxe⟩,
      ⟨(qcal_one u _).2 C.1, C.2.1, fun x hx hxe => C.2.2 x ((qcal_one u x).1 hx) hxe⟩⟩

/-- millisecond method: the same, on the multiples of the integer step -/
theorem link_ms (s : Rat) (st : Int) (hst : (if (effSkip s).floor < 1 then 1 else (effSkip s).floor) = st)
    (e0 e1 : Int) :
    GreatestLE (fun x => x % st = 0) e0 (niceRaw e0 e1 (.ms s)).1 ∧
    LeastGE (fun x => x % st = 0) e1 (niceRaw e0 e1 (.ms s)).2 := by
  by_cases h : (1 : Rat) < s
  · rw [niceRaw_of_lt _ _ _ (show 1 < mSkip (.ms s) from h)]
    simp only [mSkip, mFloor, mCeil]
    have he : effSkip s = s := effSkip_of_ge (Rat.le_of_lt h)
    rw [he] at hst
    have hfl : 1 ≤ s.floor := Rat.le_floor_iff.2 (by exact_mod_cast Rat.le_of_lt h)
    have hst' : s.floor = st := by rw [if_neg (by omega)] at hst; exact hst
    have hfc : s.floor ≤ s.ceil := by
      have h1 : ((s.floor : Int) : Rat) ≤ s := Rat.floor_le s
      have h2 : s ≤ ((s.ceil : Int) : Rat) := Rat.le_ceil
      have : ((s.floor : Int) : Rat) ≤ ((s.ceil : Int) : Rat) := Rat.le_trans h1 h2
      exact_mod_cast this
    have hsk : ∀ t, skippedB (.ms s) t = false ↔ t % st = 0 := by
      intro t
      rw [skipped_ms, if_neg (by omega), hst']
    have B : Back (fun x => x % st = 0) st (fun i => i) := back_of_mod _ _ _ (by omega) (fun i => Iff.rfl)
    constructor
    · obtain ⟨j, hj, hq⟩ := (B e0).1
      obtain ⟨j1, _, hr, hq1, hall⟩ := niceFloor_loop (.ms s) (fun i => i) (fun i => rfl) (s.ceil.toNat + 2) e0
        ⟨j, by omega, (hsk _).2 hq⟩
      rw [hr]
      refine ⟨(hsk _).1 hq1, by omega, ?_⟩
      intro x hx hxe
      by_contra hc
      have hs := hall (e0 - x).toNat (by omega)
      have e : e0 - ((e0 - x).toNat : Int) = x := by omega
      rw [e] at hs
      have := (hsk x).2 hx
      rw [hs] at this
      exact absurd this (by simp)
    · obtain ⟨j, hj, hq⟩ := (B e1).2
      obtain ⟨j1, _, hr, hq1, hall⟩ := niceCeil_loop (.ms s) (fun i => i) (fun i => rfl) (s.ceil.toNat + 2) e1
        ⟨j, by omega, (hsk _).2 hq⟩
      rw [hr]
      refine ⟨(hsk _).1 hq1, by omega, ?_⟩
      intro x hx hxe
      by_contra hc
      have hs := hall (x - e1).toNat (by omega)
      have e : e1 + ((x - e1).toNat : Int) = x := by omega
      rw [e] at hs
      have := (hsk x).2 hx
      rw [hs] at this
      exact absurd this (by simp)
  · rw [niceRaw_of_not_lt _ _ _ (show ¬ 1 < mSkip (.ms s) from h)]
    simp only [mFloor, mCeil]
    have he : effSkip s = ((1 : Int) : Rat) := by
      unfold effSkip
      by_cases c : s < 1
      · rw [if_pos c]; rfl
      · rw [if_neg c]
        have : s ≤ 1 := Rat.not_lt.1 h
        have : 1 ≤ s := Rat.not_lt.1 c
        exact Rat.le_antisymm ‹s ≤ 1› this
    rw [he, Rat.floor_intCast] at hst
    have hst1 : st = 1 := by rw [if_neg (by omega)] at hst; exact hst.symm
    subst hst1
    exact ⟨⟨Int.emod_one _, Int.le_refl _, fun x _ h => h⟩, ⟨Int.emod_one _, Int.le_refl _, fun x _ h => h⟩⟩

/-! ### one description for every method, now with the link to `nice` -/

/-- the ticks of a domain are the points of `Q` in it; `Q` is spaced between `a` and `b ≤ 2a`, aligned to the calendar
at least as coarsely as `b`, and `nice` moves the ends onto the nearest points of `Q` outside the domain -/
structure NRow (d0 d1 : Int) (m : Rat) (Q : Int → Prop) (a b : Int) : Prop where
  sp : Spaced Q a b
  mem : ∀ x, x ∈ ticks d0 d1 m ↔ (min d0 d1 ≤ x ∧ x ≤ max d0 d1 ∧ Q x)
  ratio : b ≤ 2 * a
  align : ∀ x, Q x → AlignedAt b x
  lo : GreatestLE Q (min d0 d1) (niceRaw (min d0 d1) (max d0 d1) (tickMethod (min d0 d1) (max d0 d1) m)).1
  hi : LeastGE Q (max d0 d1) (niceRaw (min d0 d1) (max d0 d1) (tickMethod (min d0 d1) (max d0 d1) m)).2

theorem nrow_cal (d0 d1 : Int) (m : Rat) (u : TUnit) (k a b : Int) (hk : 1 ≤ k)
    (h : tickMethod (min d0 d1) (max d0 d1) m = .cal u (k : Rat)) (hT : TableMethod u k)
    (sp : Spaced (Qcal u k) a b) (ratio : b ≤ 2 * a) (thr : u = .year ∨ b < alignThr u) :
    NRow d0 d1 m (Qcal u k) a b := by
  obtain ⟨g, idx, G, B⟩ := back_exists u k hT
  have L := link_cal u k hk g idx G B (min d0 d1) (max d0 d1)
  rw [← h] at L
  exact ⟨sp, cal_mem d0 d1 m u k hk h, ratio, fun x hx => aligned_of_boundary u x b hx.1 thr, L.1, L.2⟩

theorem nrow_table (d0 d1 : Int) (m : Rat) (p : Nat) (hp : p < 18)
    (h : tickMethod (min d0 d1) (max d0 d1) m = entry p) : ∃ Q a b, NRow d0 d1 m Q a b := by
  obtain ⟨u, k, a, b, hk, he, F, -⟩ := calfam_table p hp
  rw [he] at h
  have hT : TableMethod u k := by
    by_cases hu : u = .year
    · exact Or.inl hu
    · right
      have T := tickMethod_table _ _ _ u _ h hu
      have c : ∀ n : Int, ((k : Rat) = (n : Rat)) → k = n := fun n hn => by exact_mod_cast hn
      rcases T with ⟨rfl, hs⟩ | ⟨rfl, hs⟩ | ⟨rfl, hs⟩ | ⟨rfl, hs⟩ | ⟨rfl, hs⟩ | ⟨rfl, hs⟩
      · refine Or.inl ⟨rfl, ?_⟩
        rcases hs with hs | hs | hs | hs
        · exact Or.inl (c 1 (by exact_mod_cast hs))
        · exact Or.inr (Or.inl (c 5 (by exact_mod_cast hs)))
        · exact Or.inr (Or.inr (Or.inl (c 15 (by exact_mod_cast hs))))
        · exact Or.inr (Or.inr (Or.inr (c 30 (by exact_mod_cast hs))))
      · refine Or.inr (Or.inl ⟨rfl, ?_⟩)
        rcases hs with hs | hs | hs | hs
        · exact Or.inl (c 1 (by exact_mod_cast hs))
        · exact Or.inr (Or.inl (c 5 (by exact_mod_cast hs)))
        · exact Or.inr (Or.inr (Or.inl (c 15 (by exact_mod_cast hs))))
        · exact Or.inr (Or.inr (Or.inr (c 30 (by exact_mod_cast hs))))
      · refine Or.inr (Or.inr (Or.inl ⟨rfl, ?_⟩))
        rcases hs with hs | hs | hs | hs
        · exact Or.inl (c 1 (by exact_mod_cast hs))
        · exact Or.inr (Or.inl (c 3 (by exact_mod_cast hs)))
        · exact Or.inr (Or.inr (Or.inl (c 6 (by exact_mod_cast hs))))
        · exact Or.inr (Or.inr (Or.inr (c 12 (by exact_mod_cast hs))))
      · refine Or.inr (Or.inr (Or.inr (Or.inl ⟨rfl, ?_⟩)))
        rcases hs with hs | hs
        · exact Or.inl (c 1 (by exact_mod_cast hs))
        · exact Or.inr (c 2 (by exact_mod_cast hs))
      · exact Or.inr (Or.inr (Or.inr (Or.inr (Or.inl ⟨rfl, c 1 (by exact_mod_cast hs)⟩))))
      · refine Or.inr (Or.inr (Or.inr (Or.inr (Or.inr ⟨rfl, ?_⟩))))
        rcases hs with hs | hs
        · exact Or.inl (c 1 (by exact_mod_cast hs))
        · exact Or.inr (c 3 (by exact_mod_cast hs))
  exact ⟨_, a, b, nrow_cal d0 d1 m u k a b hk h hT F.sp F.ratio F.thr⟩

theorem nrow_year (d0 d1 : Int) (m : Rat) (hm : 0 < m)
    (hb : bisectRight Gen.timeScaleSteps (target d0 d1 m) = 18)
    (h : tickMethod (min d0 d1) (max d0 d1) m =
      .cal .year (linStep (((min d0 d1 : Int) : Rat) / Gen.yearMillis) (((max d0 d1 : Int) : Rat) / Gen.yearMillis) m)) :
    ∃ Q a b, NRow d0 d1 m Q a b := by
  have sp := (bisect_spec (target d0 d1 m) Gen.timeScaleSteps).1 17 (by omega)
  have hT : (31536000000 : Rat) ≤ target d0 d1 m := by simpa [Gen.timeScaleSteps] using sp
  have hsp := span_eq d0 d1 m hm
  have hY : Gen.yearMillis = 31536000000 := rfl
  rw [hY] at h
  have hlt : ((min d0 d1 : Int) : Rat) / 31536000000 < ((max d0 d1 : Int) : Rat) / 31536000000 := by
    apply div_lt_div_of_pos_right _ (by norm_num)
    nlinarith
  rw [linStep_of_lt _ _ _ hlt] at h
  have hspan' : ((max d0 d1 : Int) : Rat) / 31536000000 - ((min d0 d1 : Int) : Rat) / 31536000000 =
      target d0 d1 m * m / 31536000000 := by rw [← hsp]; ring
  rw [hspan'] at h
  have hpos : 0 < target d0 d1 m * m / 31536000000 := by
    apply div_pos _ (by norm_num); nlinarith
  have hq : 1 ≤ target d0 d1 m * m / 31536000000 / m := by
    have : target d0 d1 m * m / 31536000000 / m = target d0 d1 m / 31536000000 := by field_simp
    rw [this, le_div_iff₀ (by norm_num)]; linarith
  obtain ⟨z, j, hz1, -, hz⟩ := tickStep_nat _ m hpos hm (tickStep_ge_one _ m hpos hm hq)
  rw [hz] at h
  have hc : ((z : Nat) : Rat) = (((z : Nat) : Int) : Rat) := by push_cast; rfl
  rw [hc] at h
  exact ⟨_, _, _, nrow_cal d0 d1 m .year (z : Int) (365 * (z : Int) * 86400000) (366 * (z : Int) * 86400000)
    (by omega) h (Or.inl rfl) (spaced_year z hz1) (by omega) (Or.inl rfl)⟩

theorem nrow_ms (d0 d1 : Int) (m : Rat) (hm : 0 < m)
    (hb : bisectRight Gen.timeScaleSteps (target d0 d1 m) = 0)
    (h : tickMethod (min d0 d1) (max d0 d1) m = .ms (linStep ((min d0 d1 : Int) : Rat) ((max d0 d1 : Int) : Rat) m)) :
    ∃ Q a b, NRow d0 d1 m Q a b := by
  have sp := (bisect_spec (target d0 d1 m) Gen.timeScaleSteps).2 (by rw [hb]; decide)
  rw [hb] at sp
  have hT : target d0 d1 m < 1000 := by simpa [Gen.timeScaleSteps] using sp
  have hT0 := target_nonneg d0 d1 m hm
  have hsp := span_eq d0 d1 m hm
  have mem := ticks_ms_mem d0 d1 m _ h
  have key : ∃ st : Int, (if (effSkip (linStep ((min d0 d1 : Int) : Rat) ((max d0 d1 : Int) : Rat) m)).floor < 1 then 1
        else (effSkip (linStep ((min d0 d1 : Int) : Rat) ((max d0 d1 : Int) : Rat) m)).floor) = st ∧ 1 ≤ st ∧
      (st < 1000 ∨ st = 1000) := by
    by_cases heq : min d0 d1 = max d0 d1
    · refine ⟨1, ?_, by omega, by omega⟩
      rw [heq, linStep_self]; exact ms_step_lt 0 (by norm_num)
    · have hlt : ((min d0 d1 : Int) : Rat) < ((max d0 d1 : Int) : Rat) := by
        exact_mod_cast (show min d0 d1 < max d0 d1 by omega)
      rw [linStep_of_lt _ _ _ hlt, hsp]
      have hpos : 0 < target d0 d1 m * m := by rw [← hsp]; linarith
      have bd := Scale.tickStep_bounds _ m hpos hm
      by_cases h1 : Scale.tickStep (target d0 d1 m * m) m < 1
      · exact ⟨1, ms_step_lt _ h1, by omega, by omega⟩
      · obtain ⟨z, j, hz1, hf, hz⟩ := tickStep_nat _ m hpos hm (not_lt.mp h1)
        rw [hz] at bd
        have e1 : 6999 / 10000 * (target d0 d1 m * m) = 6999 / 10000 * (target d0 d1 m * m / 1) := by ring
        have e2 : 7 / 4 * (target d0 d1 m * m) = 7 / 4 * (target d0 d1 m * m / 1) := by ring
        obtain ⟨l1, l2⟩ := lin_bounds _ m 1 z hm (by norm_num) (by rw [← e1]; exact bd.1) (by rw [← e2]; exact bd.2)
        rw [mul_one] at l1 l2
        have hz1750 : z < 1750 := by
          have : (z : Rat) < 1750 := by linarith
          exact_mod_cast this
        refine ⟨z, ms_step_nat _ z hz1 hz, by omega, ?_⟩
        rcases form_lt_1750 z j hf hz1750 with h' | h'
        · left; omega
        · right; omega
  obtain ⟨st, hst, h1, h1000⟩ := key
  have L := link_ms _ st hst (min d0 d1) (max d0 d1)
  rw [← h] at L
  rw [hst] at mem
  exact ⟨fun x => x % st = 0, st, st, spaced_residue st 0 (by omega) (by omega), mem, by omega,
    fun x hx => aligned_ms st x h1 h1000 hx, L.1, L.2⟩

/-- every domain and count has a description -/
theorem nrow_exists (d0 d1 : Int) (m : Rat) (hm : 0 < m) : ∃ Q a b, NRow d0 d1 m Q a b := by
  rcases tickMethod_cases (min d0 d1) (max d0 d1) m with ⟨hb, h⟩ | ⟨hb, h⟩ | ⟨h0, h18, h⟩
  · exact nrow_year d0 d1 m hm hb h
  · exact nrow_ms d0 d1 m hm hb h
  · refine nrow_table d0 d1 m _ ?_ h
    split <;> omega

/-! ### the heart: `nice` moves the ends onto the nearest ticks-grid points outside the domain -/

/-- for every domain and count there is a tick grid `Q` (the ticks are exactly the points of `Q` in the domain) such
that the nice domain's lower end is the GREATEST point of `Q` not after `min d0 d1` and its upper end the LEAST point of
`Q` not before `max d0 d1`; consecutive points of `Q` are between `a` and `b ≤ 2a` apart -/
theorem nice_nearest (d0 d1 : Int) (m : Rat) (hm : 0 < m) :
    ∃ (Q : Int → Prop) (a b : Int), Spaced Q a b ∧ b ≤ 2 * a ∧
      (∀ x, x ∈ ticks d0 d1 m ↔ (min d0 d1 ≤ x ∧ x ≤ max d0 d1 ∧ Q x)) ∧
      GreatestLE Q (min d0 d1) (if d1 < d0 then (nice d0 d1 m).2 else (nice d0 d1 m).1) ∧
      LeastGE Q (max d0 d1) (if d1 < d0 then (nice d0 d1 m).1 else (nice d0 d1 m).2) := by
  obtain ⟨Q, a, b, R⟩ := nrow_exists d0 d1 m hm
  refine ⟨Q, a, b, R.sp, R.ratio, R.mem, ?_, ?_⟩
  · rw [nice_eq]; split
    · exact R.lo
    · exact R.lo
  · rw [nice_eq]; split
    · exact R.hi
    · exact R.hi

/-- the complete nice predicate, every domain, every positive count -/
theorem niceOK_all (d0 d1 : Int) (m : Rat) (hm : 0 < m) :
    niceOKB d0 d1 m (nice d0 d1 m).1 (nice d0 d1 m).2 = true := by
  obtain ⟨Q, a, b, R⟩ := nrow_exists d0 d1 m hm
  have inc := ticks_incr d0 d1 m
  have gaps := R.sp.gaps _ inc _ _ R.mem
  have e1 : (if d1 < d0 then (nice d0 d1 m).2 else (nice d0 d1 m).1) =
      (niceRaw (min d0 d1) (max d0 d1) (tickMethod (min d0 d1) (max d0 d1) m)).1 := by
    rw [nice_eq]; split <;> rfl
  have e2 : (if d1 < d0 then (nice d0 d1 m).1 else (nice d0 d1 m).2) =
      (niceRaw (min d0 d1) (max d0 d1) (tickMethod (min d0 d1) (max d0 d1) m)).2 := by
    rw [nice_eq]; split <;> rfl
  unfold niceOKB
  simp only [e1, e2]
  obtain ⟨lq, lle, lmax⟩ := R.lo
  obtain ⟨hq, hle, hmin⟩ := R.hi
  generalize (niceRaw (min d0 d1) (max d0 d1) (tickMethod (min d0 d1) (max d0 d1) m)).1 = nlo at *
  generalize (niceRaw (min d0 d1) (max d0 d1) (tickMethod (min d0 d1) (max d0 d1) m)).2 = nhi at *
  rw [Bool.and_eq_true, Bool.and_eq_true]
  refine ⟨⟨decide_eq_true lle, decide_eq_true hle⟩, ?_⟩
  split
  · rename_i g gmin hg hgmin
    have hg' := gaps g (List.max?_mem hg)
    have hgm' := gaps gmin (List.min?_mem hgmin)
    obtain ⟨x, hx1, hx2, hx3⟩ := R.sp.below (min d0 d1)
    obtain ⟨y, hy1, hy2, hy3⟩ := R.sp.above (max d0 d1)
    have := lmax x hx1 hx2
    have := hmin y hy1 hy2
    have := R.ratio
    rw [Bool.and_eq_true, Bool.and_eq_true]
    refine ⟨⟨decide_eq_true (by omega), decide_eq_true (by omega)⟩, ?_⟩
    rw [alignedB_iff]
    intro t ht
    simp only [List.mem_cons, List.not_mem_nil, or_false] at ht
    rcases ht with rfl | rfl
    · exact (R.align _ lq).mono hgm'.2
    · exact (R.align _ hq).mono hgm'.2
  · rfl

end Labella.Calendar
