import Labella.Model.EngineT
import Labella.Proofs.DistributeLemmas
import Mathlib.Data.List.Basic
import Mathlib.Data.List.Nodup
import Mathlib.Data.List.Perm.Basic
/-! # The stub-creation loops of the distributor on `Ref`s, and their closed forms `withStubs` / `simpleLayers`

`stubChainP`, `overlapStubsP`, `simpleStepP` replay the loops of `EngineT.stubChain`, `EngineT.overlapStubs`,
`EngineT.simpleLoop` on the pure side (layers of `Ref`s instead of layers of node ids). -/
namespace Labella.EngineT
open Labella Labella.Layout

def stubChainP (k : Nat) : Nat → List (List Ref) → List (List Ref)
  | 0, L => L
  | j + 1, L => stubChainP k j (L.modify j (· ++ [Ref.stub k j]))

def layerStepP (top : Nat) (acc : List (List Ref)) (r : Ref) : List (List Ref) :=
  if r.isStub then acc else stubChainP r.id top acc

def overlapStubsP : Nat → List (List Ref) → List (List Ref)
  | 0, L => L
  | i + 1, L => overlapStubsP i ((L.getD (i + 1) []).foldl (layerStepP (i + 1)) L)

def simpleStepP (nl : Nat) (acc : List (List Ref)) (p : Nat × Nat) : List (List Ref) :=
  stubChainP p.1 (p.2 % nl) (acc.modify (p.2 % nl) (· ++ [Ref.label p.1]))

/-! ### closed forms -/

theorem stubChainP_getElem? (k : Nat) : ∀ (top : Nat) (Lc : List (List Ref)) (j : Nat),
    (stubChainP k top Lc)[j]? = (Lc[j]?).map (fun l => if j < top then l ++ [Ref.stub k j] else l)
  | 0, Lc, j => by
    simp [stubChainP]
  | t + 1, Lc, j => by
    rw [stubChainP, stubChainP_getElem? k t, List.getElem?_modify]
    cases Lc[j]? with
    | none => simp
    | some l =>
      simp only [Option.map_eq_map, Option.map_some, Option.some.injEq]
      by_cases h : t = j
      · subst h; simp
      · have h1 : (j < t + 1) ↔ (j < t) := by omega
        simp [h, h1]

/-- what one step of the simple loop appends to layer `j` -/
def simpleSel (nl j : Nat) (p : Nat × Nat) : Option Ref :=
  if p.2 % nl = j then some (Ref.label p.1)
  else if j < p.2 % nl then some (Ref.stub p.1 j) else none

theorem simpleStepP_getElem? (nl : Nat) (acc : List (List Ref)) (p : Nat × Nat) (j : Nat) :
    (simpleStepP nl acc p)[j]? = (acc[j]?).map (fun l => l ++ (simpleSel nl j p).toList) := by
  rw [simpleStepP, stubChainP_getElem?, List.getElem?_modify]
  cases acc[j]? with
  | none => simp
  | some l =>
    simp only [Option.map_eq_map, Option.map_some, Option.some.injEq, simpleSel]
    by_cases h : p.2 % nl = j
    · have : ¬ j < p.2 % nl := by omega
      simp [h]
    · by_cases h2 : j < p.2 % nl
      · simp [h, h2]
      · simp [h, h2]

theorem simpleFold_getElem? (nl : Nat) (j : Nat) : ∀ (pre : List (Nat × Nat)) (acc : List (List Ref)),
    (pre.foldl (simpleStepP nl) acc)[j]? = (acc[j]?).map (fun l => l ++ pre.filterMap (simpleSel nl j))
  | [], acc => by simp
  | p :: pre, acc => by
    rw [List.foldl_cons, simpleFold_getElem? nl j pre, simpleStepP_getElem?]
    cases acc[j]? with
    | none => simp
    | some l =>
      simp only [Option.map_some, Option.some.injEq, List.filterMap_cons, List.append_assoc]
      cases simpleSel nl j p <;> simp

theorem layerFold_getElem? (top j : Nat) : ∀ (rs : List Ref) (acc : List (List Ref)),
    (rs.foldl (layerStepP top) acc)[j]? = (acc[j]?).map (fun l =>
      if j < top then l ++ (rs.filter (fun r => !r.isStub)).map (fun r => Ref.stub r.id j) else l)
  | [], acc => by
    rw [List.foldl_nil]
    cases acc[j]? <;> simp
  | r :: rs, acc => by
    rw [List.foldl_cons, layerFold_getElem? top j rs]
    unfold layerStepP
    by_cases hr : r.isStub = true
    · simp [hr]
    · simp only [hr, Bool.false_eq_true, if_false, stubChainP_getElem?]
      cases acc[j]? with
      | none => simp
      | some l =>
        by_cases hj : j < top
        · simp [hj, hr]
        · simp [hj]

/-- the loop invariant of `overlapStubsP` at counter `i` -/
def stubInv (i : Nat) (L : List (List Nat)) : List (List Ref) :=
  L.zipIdx.map (fun p => p.1.map Ref.label ++
    ((L.drop (max (i + 1) (p.2 + 1))).reverse.flatten).map (fun k => Ref.stub k p.2))

theorem stubInv_getElem? (i : Nat) (L : List (List Nat)) (j : Nat) :
    (stubInv i L)[j]? = (L[j]?).map (fun l => l.map Ref.label ++
      ((L.drop (max (i + 1) (j + 1))).reverse.flatten).map (fun k => Ref.stub k j)) := by
  unfold stubInv
  rw [List.getElem?_map, List.getElem?_zipIdx]
  cases L[j]? <;> simp

theorem stubInv_zero (L : List (List Nat)) : stubInv 0 L = withStubs L := by
  apply List.ext_getElem?
  intro j
  rw [stubInv_getElem?, withStubs_getElem?]
  have : max (0 + 1) (j + 1) = j + 1 := by omega
  simp only [this, stubsFor, List.flatMap_id]

theorem stubInv_last (L : List (List Nat)) : stubInv (L.length - 1) L = L.map (List.map Ref.label) := by
  apply List.ext_getElem?
  intro j
  rw [stubInv_getElem?, List.getElem?_map]
  have : L.drop (max (L.length - 1 + 1) (j + 1)) = [] := by
    apply List.drop_eq_nil_of_le; omega
  rw [this]
  cases L[j]? <;> simp

theorem drop_reverse_flatten_step (L : List (List Nat)) (i : Nat) :
    (L.drop i).reverse.flatten = (L.drop (i + 1)).reverse.flatten ++ (L[i]?).getD [] := by
  by_cases h : i < L.length
  · rw [List.drop_eq_getElem_cons h, List.reverse_cons, List.flatten_append,
      List.getElem?_eq_getElem h]
    simp
  · have h1 : L.drop i = [] := List.drop_eq_nil_of_le (by omega)
    have h2 : L.drop (i + 1) = [] := List.drop_eq_nil_of_le (by omega)
    have h3 : L[i]? = none := List.getElem?_eq_none (by omega)
    simp [h1, h2, h3]

theorem stubInv_layer (i : Nat) (L : List (List Nat)) :
    (((stubInv (i + 1) L).getD (i + 1) []).filter (fun r => !r.isStub))
      = ((L[i + 1]?).getD []).map Ref.label := by
  rw [List.getD_eq_getElem?_getD, stubInv_getElem?]
  cases L[i + 1]? with
  | none => simp
  | some l =>
    simp only [Option.map_some, Option.getD_some, List.filter_append]
    have h1 : (l.map Ref.label).filter (fun r => !r.isStub) = l.map Ref.label := by
      apply List.filter_eq_self.2
      intro r hr
      obtain ⟨k, _, rfl⟩ := List.mem_map.1 hr
      rfl
    have h2 : ∀ X : List Nat, (X.map (fun k => Ref.stub k (i + 1))).filter (fun r => !r.isStub) = [] := by
      intro X
      apply List.filter_eq_nil_iff.2
      intro r hr
      obtain ⟨k, _, rfl⟩ := List.mem_map.1 hr
      simp [Ref.isStub]
    rw [h1, h2, List.append_nil]

theorem stubInv_step (i : Nat) (L : List (List Nat)) :
    ((stubInv (i + 1) L).getD (i + 1) []).foldl (layerStepP (i + 1)) (stubInv (i + 1) L) = stubInv i L := by
  apply List.ext_getElem?
  intro j
  rw [layerFold_getElem?, stubInv_layer, stubInv_getElem?, stubInv_getElem?]
  cases L[j]? with
  | none => simp
  | some l =>
    simp only [Option.map_some, Option.some.injEq]
    by_cases hj : j < i + 1
    · have e1 : max (i + 1 + 1) (j + 1) = i + 1 + 1 := by omega
      have e2 : max (i + 1) (j + 1) = i + 1 := by omega
      rw [if_pos hj, e1, e2, drop_reverse_flatten_step L (i + 1)]
      simp [List.map_append, Function.comp_def, Ref.id]
    · have e1 : max (i + 1 + 1) (j + 1) = j + 1 := by omega
      have e2 : max (i + 1) (j + 1) = j + 1 := by omega
      rw [if_neg hj, e1, e2]

theorem overlapStubsP_stubInv (L : List (List Nat)) : ∀ i : Nat, overlapStubsP i (stubInv i L) = withStubs L
  | 0 => by rw [overlapStubsP, stubInv_zero]
  | i + 1 => by rw [overlapStubsP, stubInv_step, overlapStubsP_stubInv L i]

theorem simpleSel_ids_sublist (nl j : Nat) : ∀ Z : List (Nat × Nat),
    ((Z.filterMap (simpleSel nl j)).map Ref.id).Sublist (Z.map (·.1))
  | [] => by simp
  | p :: Z => by
    have ih := simpleSel_ids_sublist nl j Z
    rw [List.filterMap_cons]
    by_cases h : p.2 % nl = j
    · have e : simpleSel nl j p = some (Ref.label p.1) := by simp [simpleSel, h]
      rw [e]
      simpa [Ref.id] using ih
    · by_cases h2 : j < p.2 % nl
      · have e : simpleSel nl j p = some (Ref.stub p.1 j) := by simp [simpleSel, h, h2]
        rw [e]
        simpa [Ref.id] using ih
      · have e : simpleSel nl j p = none := by simp [simpleSel, h, h2]
        rw [e]
        simpa using ih.trans (List.sublist_cons_self _ _)


/-- the loops at the end of `algorithm_overlap` build `withStubs` -/
theorem overlapStubsP_withStubs (L : List (List Nat)) :
    overlapStubsP (L.length - 1) (L.map (List.map Ref.label)) = withStubs L := by
  rw [← stubInv_last, overlapStubsP_stubInv]

/-- the loop of `algorithm_simple` builds `simpleLayers` -/
theorem simpleLoopP_simpleLayers (ids : List Nat) (nl : Nat) (hnl : 0 < nl) :
    ids.zipIdx.foldl (simpleStepP nl) (List.replicate nl []) = simpleLayers ids nl := by
  have _ := hnl
  apply List.ext_getElem?
  intro j
  rw [simpleFold_getElem?]
  unfold simpleLayers
  rw [List.getElem?_map]
  by_cases hj : j < nl
  · rw [List.getElem?_range hj, List.getElem?_replicate]
    simp [hj]
    rfl
  · rw [List.getElem?_eq_none (by simpa using hj), List.getElem?_eq_none (by simpa using hj)]
    rfl

/-- a layer holds at most one item per label -/
theorem withStubs_ids_nodup (L : List (List Nat)) (h : L.flatten.Nodup) :
    ∀ l ∈ withStubs L, (l.map Ref.id).Nodup := by
  intro l hl
  obtain ⟨j, hj⟩ := List.getElem?_of_mem hl
  rw [withStubs_getElem?] at hj
  cases hLj : L[j]? with
  | none => simp [hLj] at hj
  | some ks =>
    rw [hLj] at hj
    simp only [Option.map_some, Option.some.injEq] at hj
    subst hj
    have hlt : j < L.length := by
      by_contra hc
      rw [List.getElem?_eq_none (by omega)] at hLj
      cases hLj
    have hks : L[j] = ks := by
      rw [List.getElem?_eq_getElem hlt] at hLj
      exact Option.some.inj hLj
    have hsub : ((L.drop j).flatten).Sublist L.flatten := (List.drop_sublist j L).flatten
    have hnd : (ks ++ (L.drop (j + 1)).flatten).Nodup := by
      have := hsub.nodup h
      rwa [List.drop_eq_getElem_cons hlt, List.flatten_cons, hks] at this
    have hperm : (ks ++ (L.drop (j + 1)).reverse.flatten).Perm (ks ++ (L.drop (j + 1)).flatten) :=
      List.Perm.append_left _ (List.reverse_perm _).flatten
    have hid : (ks.map Ref.label ++ stubsFor L j).map Ref.id = ks ++ (L.drop (j + 1)).reverse.flatten := by
      simp [stubsFor, List.flatMap_id, Function.comp_def, Ref.id]
    rw [hid]
    exact hperm.nodup_iff.2 hnd

theorem simpleLayers_ids_nodup (ids : List Nat) (nl : Nat) (h : ids.Nodup) :
    ∀ l ∈ simpleLayers ids nl, (l.map Ref.id).Nodup := by
  intro l hl
  unfold simpleLayers at hl
  obtain ⟨j, _, rfl⟩ := List.mem_map.1 hl
  have hs := simpleSel_ids_sublist nl j ids.zipIdx
  rw [List.zipIdx_map_fst] at hs
  exact hs.nodup h

end Labella.EngineT

