import Labella.Model.Text
import Std.Data.String.ToNat
/-! Helper lemmas for `Props/C20`: bijective base-26 numeration (`int2name`) and hex colours. -/
namespace Labella.Text

/-- induction on lists from the right -/
theorem snoc_induction {α : Type} {motive : List α → Prop} (nil : motive [])
    (append_singleton : ∀ (l : List α) (c : α), motive l → motive (l ++ [c])) :
    ∀ l, motive l := by
  have key : ∀ l : List α, motive l.reverse := by
    intro l
    induction l with
    | nil => exact nil
    | cons c l ih => rw [List.reverse_cons]; exact append_singleton _ _ ih
  intro l
  simpa using key l.reverse

/-! ### names -/

/-- one step of the read-back fold -/
def nameStep (acc c : Nat) : Nat := acc * 26 + (c - 65 + 1)

/-- the read-back fold with an explicit start value -/
def nameFold (v : Nat) (l : List Nat) : Nat := l.foldl nameStep v

theorem nameValue_eq (l : List Nat) : nameValue l = nameFold 0 l := by
  cases l <;> rfl

@[simp] theorem nameFold_nil (v : Nat) : nameFold v [] = v := rfl
@[simp] theorem nameFold_cons (v c : Nat) (l : List Nat) :
    nameFold v (c :: l) = nameFold (v * 26 + (c - 65 + 1)) l := rfl
theorem nameFold_append (v : Nat) (l₁ l₂ : List Nat) :
    nameFold v (l₁ ++ l₂) = nameFold (nameFold v l₁) l₂ := by
  simp [nameFold, List.foldl_append]

theorem isUpperAZ_iff (c : Nat) : isUpperAZ c = true ↔ 65 ≤ c ∧ c < 91 := by
  simp only [isUpperAZ, Bool.and_eq_true, decide_eq_true_eq]
  simp only [Gen.nameFirstChar, Gen.nameBase]

theorem nameLoop_zero (fuel : Nat) (acc : List Nat) : nameLoop fuel 0 acc = acc := by
  cases fuel <;> simp [nameLoop]

theorem nameLoop_succ (fuel d : Nat) (acc : List Nat) :
    nameLoop (fuel + 1) (d + 1) acc = nameLoop fuel (d / 26) ((65 + d % 26) :: acc) := by
  have h : (d + 1 - d % 26) / 26 = d / 26 := by omega
  simp [nameLoop, Gen.nameBase, Gen.nameFirstChar, h]

/-- loop invariant: reading the result back equals reading `acc` back starting from `d` -/
theorem nameFold_nameLoop (fuel : Nat) : ∀ (d : Nat) (acc : List Nat), d ≤ fuel →
    nameFold 0 (nameLoop fuel d acc) = nameFold d acc := by
  induction fuel with
  | zero => intro d acc h; obtain rfl : d = 0 := by omega
            simp [nameLoop]
  | succ fuel ih =>
    intro d acc h
    cases d with
    | zero => simp [nameLoop_zero]
    | succ d =>
      rw [nameLoop_succ, ih _ _ (by omega), nameFold_cons]
      congr 1; omega

theorem nameLoop_ne_nil (fuel : Nat) : ∀ (d : Nat) (acc : List Nat), acc ≠ [] →
    nameLoop fuel d acc ≠ [] := by
  induction fuel with
  | zero => intro d acc h; simpa [nameLoop] using h
  | succ fuel ih =>
    intro d acc h
    cases d with
    | zero => simpa [nameLoop_zero] using h
    | succ d => rw [nameLoop_succ]; exact ih _ _ (by simp)

theorem nameLoop_letters (fuel : Nat) : ∀ (d : Nat) (acc : List Nat),
    (∀ c ∈ acc, isUpperAZ c = true) → ∀ c ∈ nameLoop fuel d acc, isUpperAZ c = true := by
  induction fuel with
  | zero => intro d acc h; simpa [nameLoop] using h
  | succ fuel ih =>
    intro d acc h
    cases d with
    | zero => simpa [nameLoop_zero] using h
    | succ d =>
      rw [nameLoop_succ]
      apply ih
      intro c hc
      rcases List.mem_cons.1 hc with rfl | hc
      · rw [isUpperAZ_iff]; omega
      · exact h c hc

theorem int2name_ne_nil (i : Nat) : int2name i ≠ [] := by
  unfold int2name
  rw [nameLoop_succ]
  exact nameLoop_ne_nil _ _ _ (by simp)

theorem int2name_upper (i : Nat) : ∀ c ∈ int2name i, isUpperAZ c = true :=
  nameLoop_letters _ _ _ (by simp)

theorem nameValue_int2name (i : Nat) : nameValue (int2name i) = i + 1 := by
  rw [nameValue_eq, int2name, nameFold_nameLoop _ _ _ (Nat.le_refl _)]; rfl

/-- the loop reproduces any A–Z string from its value -/
theorem nameLoop_nameFold (l : List Nat) : (∀ c ∈ l, isUpperAZ c = true) →
    ∀ (fuel : Nat) (acc : List Nat), nameFold 0 l ≤ fuel →
      nameLoop fuel (nameFold 0 l) acc = l ++ acc := by
  induction l using snoc_induction with
  | nil => intro _ fuel acc _; simp [nameLoop_zero]
  | append_singleton l c ih =>
    intro h fuel acc hf
    have hc : 65 ≤ c ∧ c < 91 := (isUpperAZ_iff c).1 (h c (by simp))
    have hl : ∀ c ∈ l, isUpperAZ c = true := fun x hx => h x (by simp [hx])
    rw [nameFold_append, nameFold_cons, nameFold_nil] at hf ⊢
    generalize nameFold 0 l = v at hf ih ⊢
    cases fuel with
    | zero => omega
    | succ fuel =>
      have e : v * 26 + (c - 65 + 1) = (v * 26 + (c - 65)) + 1 := by omega
      rw [e, nameLoop_succ]
      have h1 : (v * 26 + (c - 65)) / 26 = v := by omega
      have h2 : 65 + (v * 26 + (c - 65)) % 26 = c := by omega
      rw [h1, h2, ih hl fuel _ (by omega)]
      simp

theorem nameFold_pos (l : List Nat) (hne : l ≠ []) : ∀ v, 0 < nameFold v l := by
  induction l using snoc_induction with
  | nil => exact absurd rfl hne
  | append_singleton l c _ =>
    intro v
    rw [nameFold_append, nameFold_cons, nameFold_nil]; omega

/-! ### shortlex order -/

/-- smallest value of a name of length `n` : 1 + 26 + … + 26^(n-1) -/
def nameLow : Nat → Nat
  | 0 => 0
  | n + 1 => 26 * nameLow n + 1

theorem nameLow_mono {m n : Nat} (h : m ≤ n) : nameLow m ≤ nameLow n := by
  induction h with
  | refl => exact Nat.le_refl _
  | step _ ih => simp only [nameLow]; omega

theorem nameFold_bounds (l : List Nat) : (∀ c ∈ l, isUpperAZ c = true) →
    nameLow l.length ≤ nameFold 0 l ∧ nameFold 0 l < nameLow (l.length + 1) := by
  induction l using snoc_induction with
  | nil => intro _; simp [nameLow]
  | append_singleton l c ih =>
    intro h
    have hc : 65 ≤ c ∧ c < 91 := (isUpperAZ_iff c).1 (h c (by simp))
    have hl : ∀ c ∈ l, isUpperAZ c = true := fun x hx => h x (by simp [hx])
    have := ih hl
    rw [nameFold_append, nameFold_cons, nameFold_nil, List.length_append, List.length_singleton]
    simp only [nameLow] at this ⊢
    omega

/-- a strictly smaller start value wins whatever A–Z letters follow (equal lengths) -/
theorem nameFold_lt_of_lt (a : List Nat) : ∀ (b : List Nat) (p q : Nat), a.length = b.length →
    (∀ c ∈ a, isUpperAZ c = true) → (∀ c ∈ b, isUpperAZ c = true) → p < q →
    nameFold p a < nameFold q b := by
  induction a with
  | nil => intro b p q hlen _ _ hpq
           obtain rfl : b = [] := List.length_eq_zero_iff.1 hlen.symm
           simpa using hpq
  | cons x a ih =>
    intro b p q hlen ha hb hpq
    cases b with
    | nil => simp at hlen
    | cons y b =>
      have hx := (isUpperAZ_iff x).1 (ha x (by simp))
      have hy := (isUpperAZ_iff y).1 (hb y (by simp))
      rw [nameFold_cons, nameFold_cons]
      apply ih b _ _ (by simpa using hlen) (fun c hc => ha c (by simp [hc]))
        (fun c hc => hb c (by simp [hc]))
      omega

/-- for equal lengths, the order of values is the lexicographic order -/
theorem lt_of_nameFold_lt (a : List Nat) : ∀ (b : List Nat) (p : Nat), a.length = b.length →
    (∀ c ∈ a, isUpperAZ c = true) → (∀ c ∈ b, isUpperAZ c = true) →
    nameFold p a < nameFold p b → a < b := by
  induction a with
  | nil => intro b p hlen _ _ h
           obtain rfl : b = [] := List.length_eq_zero_iff.1 hlen.symm
           simp at h
  | cons x a ih =>
    intro b p hlen ha hb h
    cases b with
    | nil => simp at hlen
    | cons y b =>
      have hx := (isUpperAZ_iff x).1 (ha x (by simp))
      have hy := (isUpperAZ_iff y).1 (hb y (by simp))
      have hlen' : a.length = b.length := by simpa using hlen
      have ha' : ∀ c ∈ a, isUpperAZ c = true := fun c hc => ha c (by simp [hc])
      have hb' : ∀ c ∈ b, isUpperAZ c = true := fun c hc => hb c (by simp [hc])
      rw [List.cons_lt_cons_iff]
      rcases Nat.lt_trichotomy x y with hxy | rfl | hxy
      · exact Or.inl hxy
      · exact Or.inr ⟨rfl, ih b _ hlen' ha' hb' h⟩
      · exfalso
        rw [nameFold_cons, nameFold_cons] at h
        have := nameFold_lt_of_lt b a (p * 26 + (y - 65 + 1)) (p * 26 + (x - 65 + 1))
          hlen'.symm hb' ha' (by omega)
        omega

theorem shortlexLt_of_nameValue_lt (a b : List Nat) (ha : ∀ c ∈ a, isUpperAZ c = true)
    (hb : ∀ c ∈ b, isUpperAZ c = true) (h : nameValue a < nameValue b) :
    shortlexLt a b = true := by
  rw [nameValue_eq, nameValue_eq] at h
  have hA := nameFold_bounds a ha
  have hB := nameFold_bounds b hb
  have hle : a.length ≤ b.length := by
    apply Nat.le_of_not_lt
    intro hlt
    have := nameLow_mono (show b.length + 1 ≤ a.length from hlt)
    omega
  simp only [shortlexLt, Bool.or_eq_true, Bool.and_eq_true, decide_eq_true_eq, beq_iff_eq]
  rcases Nat.lt_or_eq_of_le hle with hlt | heq
  · exact Or.inl hlt
  · exact Or.inr ⟨heq, lt_of_nameFold_lt a b 0 heq ha hb h⟩

/-! ### hex colours -/

/-- everything we need to know about one hex digit character -/
def HexOK (c : Char) : Prop :=
  (hexVal c).isSome = true →
    ((hexVal c).getD 0 < 16 ∧ hexVal c = some ((hexVal c).getD 0) ∧ hexVal (upperHex c) = hexVal c ∧
      (('0' ≤ upperHex c ∧ upperHex c ≤ '9') ∨ ('A' ≤ upperHex c ∧ upperHex c ≤ 'F')) ∧ c ≠ '#')

instance (c : Char) : Decidable (HexOK c) := by unfold HexOK; infer_instance

theorem hexOK_small : ∀ n, n < 128 → HexOK (Char.ofNat n) := by decide +kernel

theorem toNat_lt_of_isSome (c : Char) (h : (hexVal c).isSome = true) : c.toNat < 128 := by
  unfold hexVal at h
  simp only [Char.le_def, UInt32.le_iff_toNat_le] at h
  simp only [show ∀ c : Char, c.val.toNat = c.toNat from fun _ => rfl] at h
  simp only [show '0'.toNat = 48 from rfl, show '9'.toNat = 57 from rfl, show 'a'.toNat = 97 from rfl,
    show 'f'.toNat = 102 from rfl, show 'A'.toNat = 65 from rfl, show 'F'.toNat = 70 from rfl] at h
  split at h
  · omega
  · split at h
    · omega
    · split at h
      · omega
      · simp at h

theorem hexOK (c : Char) : HexOK c := by
  intro h
  have := hexOK_small c.toNat (toNat_lt_of_isSome c h)
  rw [Char.ofNat_toNat] at this
  exact this h

theorem stripHash_hash (l : List Char) : stripHash ('#' :: l) = l := rfl

theorem stripHash_cons_of_ne (c : Char) (l : List Char) (h : c ≠ '#') :
    stripHash (c :: l) = c :: l := by
  unfold stripHash
  split
  · next rest heq => exact absurd (List.cons.inj heq).1 h
  · rfl

/-- `stripHash` removes the optional `#` in front of a code starting with a hex digit -/
theorem stripHash_opt (hash : Bool) (c : Char) (l : List Char) (h : (hexVal c).isSome = true) :
    stripHash ((if hash then ['#'] else []) ++ c :: l) = c :: l := by
  cases hash
  · exact stripHash_cons_of_ne c l (hexOK c h).2.2.2.2
  · rfl

theorem hexPair_eq (a b : Char) (ha : (hexVal a).isSome = true) (hb : (hexVal b).isSome = true) :
    hexPair a b = some (16 * (hexVal a).getD 0 + (hexVal b).getD 0) := by
  unfold hexPair
  rw [(hexOK a ha).2.1, (hexOK b hb).2.1]
  rfl

theorem hexPair_upper (a b : Char) (ha : (hexVal a).isSome = true) (hb : (hexVal b).isSome = true) :
    hexPair (upperHex a) (upperHex b) = hexPair a b := by
  unfold hexPair
  rw [(hexOK a ha).2.2.1, (hexOK b hb).2.2.1]

theorem isSome_upperHex (a : Char) (ha : (hexVal a).isSome = true) :
    (hexVal (upperHex a)).isSome = true := by
  rw [(hexOK a ha).2.2.1]; exact ha

theorem hex2rgb_opt (hash : Bool) (c : Char) (l : List Char) (h : (hexVal c).isSome = true) :
    hex2rgb ((if hash then ['#'] else []) ++ c :: l) = hex2rgb (c :: l) := by
  unfold hex2rgb
  rw [stripHash_opt hash c l h, stripHash_cons_of_ne c l (hexOK c h).2.2.2.2]

theorem hex2rgb_six_eq (a b c d e f : Char) (ha : (hexVal a).isSome = true) :
    hex2rgb [a, b, c, d, e, f]
      = (do some (← hexPair a b, ← hexPair c d, ← hexPair e f)) := by
  unfold hex2rgb
  rw [stripHash_cons_of_ne a _ (hexOK a ha).2.2.2.2]

theorem hex2rgb_three_eq (a b c : Char) (ha : (hexVal a).isSome = true) :
    hex2rgb [a, b, c]
      = (do some (← hexPair a a, ← hexPair b b, ← hexPair c c)) := by
  unfold hex2rgb
  rw [stripHash_cons_of_ne a _ (hexOK a ha).2.2.2.2]

theorem hex2rgb_upper (a b c d e f : Char) (ha : (hexVal a).isSome = true)
    (hb : (hexVal b).isSome = true) (hc : (hexVal c).isSome = true) (hd : (hexVal d).isSome = true)
    (he : (hexVal e).isSome = true) (hf : (hexVal f).isSome = true) :
    hex2rgb ([a, b, c, d, e, f].map upperHex) = hex2rgb [a, b, c, d, e, f] := by
  simp only [List.map]
  rw [hex2rgb_six_eq _ _ _ _ _ _ (isSome_upperHex a ha), hex2rgb_six_eq _ _ _ _ _ _ ha,
    hexPair_upper a b ha hb, hexPair_upper c d hc hd, hexPair_upper e f he hf]

theorem hex2html_three (hash : Bool) (a b c : Char) (ha : (hexVal a).isSome = true) :
    hex2html ((if hash then ['#'] else []) ++ [a, b, c]) = [a, a, b, b, c, c].map upperHex := by
  unfold hex2html
  rw [stripHash_opt hash a _ ha]

theorem hex2html_six (hash : Bool) (a b c d e f : Char) (ha : (hexVal a).isSome = true) :
    hex2html ((if hash then ['#'] else []) ++ [a, b, c, d, e, f])
      = [a, b, c, d, e, f].map upperHex := by
  unfold hex2html
  rw [stripHash_opt hash a _ ha]

theorem upperHex_range (l : List Char) (h : ∀ c ∈ l, (hexVal c).isSome = true) :
    ∀ x ∈ l.map upperHex, (('0' ≤ x ∧ x ≤ '9') ∨ ('A' ≤ x ∧ x ≤ 'F')) := by
  intro x hx
  obtain ⟨c, hc, rfl⟩ := List.mem_map.1 hx
  exact (hexOK c (h c hc)).2.2.2.1

theorem length_three_or_six (l : List Char) (h : l.length = 3 ∨ l.length = 6) :
    (∃ a b c, l = [a, b, c]) ∨ (∃ a b c d e f, l = [a, b, c, d, e, f]) := by
  rcases l with _ | ⟨a, _ | ⟨b, _ | ⟨c, _ | ⟨d, _ | ⟨e, _ | ⟨f, _ | ⟨g, l⟩⟩⟩⟩⟩⟩⟩ <;>
    simp only [List.length_cons, List.length_nil] at h
  all_goals first
    | exact Or.inl ⟨_, _, _, rfl⟩
    | exact Or.inr ⟨_, _, _, _, _, _, rfl⟩
    | omega

theorem natDigits_toNat (n : Nat) : (String.ofList (natDigits n)).toNat? = some n := by
  unfold natDigits
  rw [String.ofList_toList]
  exact Nat.toNat?_repr n

end Labella.Text
