import Labella.Model.Scale
import Mathlib.Algebra.Order.Field.Rat
import Mathlib.Algebra.Order.GroupWithZero.Basic
import Mathlib.Algebra.Order.Field.Basic
import Mathlib.Tactic.Ring
import Mathlib.Tactic.Linarith
import Mathlib.Tactic.FieldSimp
import Mathlib.Tactic.Positivity
import Mathlib.Tactic.NormNum
import Mathlib.Tactic.LinearCombination
/-! Helper lemmas for the linear tick arithmetic (`Props/C13.lean`). -/
namespace Labella.Scale
open Labella

/-! ### `pow10` -/

theorem pow10_eq_zpow (k : Int) : pow10 k = (10 : ℚ) ^ k := by
  unfold pow10
  split_ifs with h
  · conv_rhs => rw [← Int.toNat_of_nonneg h]
    rw [zpow_natCast]
  · have h' : 0 ≤ -k := by omega
    have : k = -((-k).toNat : Int) := by rw [Int.toNat_of_nonneg h']; ring
    conv_rhs => rw [this]
    rw [zpow_neg, zpow_natCast, one_div]

theorem pow10_pos (k : Int) : 0 < pow10 k := by
  rw [pow10_eq_zpow]; exact zpow_pos (by norm_num) k

theorem pow10_succ (k : Int) : pow10 (k + 1) = 10 * pow10 k := by
  rw [pow10_eq_zpow, pow10_eq_zpow, zpow_add_one₀ (by norm_num), mul_comm]

theorem pow10_zero : pow10 0 = 1 := by
  rw [pow10_eq_zpow]; simp

theorem pow10_lt_iff (a b : Int) : pow10 a < pow10 b ↔ a < b := by
  rw [pow10_eq_zpow, pow10_eq_zpow]
  exact zpow_lt_zpow_iff_right₀ (by norm_num)

theorem pow10_le_iff (a b : Int) : pow10 a ≤ pow10 b ↔ a ≤ b := by
  rw [pow10_eq_zpow, pow10_eq_zpow]
  exact zpow_le_zpow_iff_right₀ (by norm_num)

theorem pow10_natCast (n : Nat) : pow10 (n : Int) = (10 : ℚ) ^ n := by
  rw [pow10_eq_zpow, zpow_natCast]

theorem pow10_neg_natCast (n : Nat) : pow10 (-(n : Int)) = 1 / (10 : ℚ) ^ n := by
  rw [pow10_eq_zpow, zpow_neg, zpow_natCast, one_div]

/-- uniqueness of the decade -/
theorem decade_unique (q : ℚ) (a b : Int) (ha : pow10 a ≤ q) (ha' : q < pow10 (a + 1))
    (hb : pow10 b ≤ q) (hb' : q < pow10 (b + 1)) : a = b := by
  have h1 : a < b + 1 := (pow10_lt_iff _ _).mp (lt_of_le_of_lt ha hb')
  have h2 : b < a + 1 := (pow10_lt_iff _ _).mp (lt_of_le_of_lt hb ha')
  omega

/-! ### the two search loops -/

theorem log10Down_spec (f : Nat) : ∀ (k : Int) (q : ℚ), pow10 (k - f) ≤ q →
    pow10 (log10Down f k q) ≤ q ∧ log10Down f k q ≤ k ∧
      (log10Down f k q = k ∨ q < pow10 (log10Down f k q + 1)) := by
  induction f with
  | zero =>
    intro k q h
    have e : log10Down 0 k q = k := rfl
    rw [e]
    simp only [Nat.cast_zero, sub_zero] at h
    exact ⟨h, le_refl _, Or.inl rfl⟩
  | succ f ih =>
    intro k q h
    simp only [log10Down]
    split_ifs with hlt
    · have h' : pow10 (k - 1 - (f : Int)) ≤ q := by
        have : k - 1 - (f : Int) = k - ((f + 1 : Nat) : Int) := by push_cast; ring
        rw [this]; exact h
      obtain ⟨h1, h2, h3⟩ := ih (k - 1) q h'
      refine ⟨h1, by omega, Or.inr ?_⟩
      rcases h3 with h3 | h3
      · rw [h3]; simpa using hlt
      · exact h3
    · exact ⟨not_lt.mp hlt, le_refl _, Or.inl rfl⟩

theorem log10Up_spec (f : Nat) : ∀ (k : Int) (q : ℚ), pow10 k ≤ q → q < pow10 (k + f) →
    pow10 (log10Up f k q) ≤ q ∧ q < pow10 (log10Up f k q + 1) := by
  induction f with
  | zero =>
    intro k q h h'
    simp only [Nat.cast_zero, add_zero] at h'
    exact absurd h (not_le.mpr h')
  | succ f ih =>
    intro k q h h'
    simp only [log10Up]
    split_ifs with hle
    · apply ih (k + 1) q hle
      have : k + 1 + (f : Int) = k + ((f + 1 : Nat) : Int) := by push_cast; ring
      rw [this]; exact h'
    · exact ⟨h, not_le.mp hle⟩

theorem two_pow_le_ten_pow (n : Nat) : (2 : ℚ) ^ n ≤ (10 : ℚ) ^ n :=
  pow_le_pow_left₀ (by norm_num) (by norm_num) n

theorem natCast_lt_ten_pow (n : Nat) : (n : ℚ) < (10 : ℚ) ^ (n.log2 + 1) := by
  have h : n < 2 ^ (n.log2 + 1) := Nat.lt_log2_self
  have h' : (n : ℚ) < (2 : ℚ) ^ (n.log2 + 1) := by exact_mod_cast h
  exact lt_of_lt_of_le h' (two_pow_le_ten_pow _)

theorem floorLog10_spec (q : ℚ) (hq : 0 < q) :
    pow10 (floorLog10 q) ≤ q ∧ q < pow10 (floorLog10 q + 1) := by
  unfold floorLog10
  simp only
  set fuel := q.num.natAbs.log2 + q.den.log2 + 2 with hfuel
  have hnum : 0 < q.num := Rat.num_pos.mpr hq
  have hden : (0 : ℚ) < q.den := by exact_mod_cast q.den_pos
  have hqe : q = (q.num.natAbs : ℚ) / (q.den : ℚ) := by
    have h0 : ((q.num.natAbs : Int) : ℚ) = (q.num : ℚ) := by
      rw [Int.natAbs_of_nonneg hnum.le]
    have h1 : ((q.num.natAbs : ℕ) : ℚ) = ((q.num.natAbs : Int) : ℚ) := (Int.cast_natCast _).symm
    rw [h1, h0]; exact (Rat.num_div_den q).symm
  have hden1 : (1 : ℚ) ≤ q.den := by exact_mod_cast q.den_pos
  have hnum1 : (1 : ℚ) ≤ (q.num.natAbs : ℚ) := by
    have : 0 < q.num.natAbs := Int.natAbs_pos.mpr hnum.ne'
    exact_mod_cast this
  -- lower bound on q
  have hlow : pow10 (0 - (fuel : Int)) ≤ q := by
    rw [zero_sub, pow10_neg_natCast, hqe]
    have h1 : (q.den : ℚ) < (10 : ℚ) ^ fuel := by
      refine lt_of_lt_of_le (natCast_lt_ten_pow q.den) ?_
      exact pow_le_pow_right₀ (by norm_num) (by omega)
    rw [div_le_div_iff₀ (by positivity) hden]
    nlinarith
  -- upper bound on q
  have hup : q < pow10 (fuel : Int) := by
    rw [pow10_natCast]
    have h1 : (q.num.natAbs : ℚ) < (10 : ℚ) ^ fuel := by
      refine lt_of_lt_of_le (natCast_lt_ten_pow q.num.natAbs) ?_
      exact pow_le_pow_right₀ (by norm_num) (by omega)
    have : q ≤ (q.num.natAbs : ℚ) := by
      conv_lhs => rw [hqe]
      rw [div_le_iff₀ hden]; nlinarith
    linarith
  obtain ⟨d1, d2, d3⟩ := log10Down_spec fuel 0 q hlow
  set k1 := log10Down fuel 0 q
  apply log10Up_spec fuel k1 q d1
  rcases d3 with d3 | d3
  · rw [d3, zero_add]; exact hup
  · refine lt_of_lt_of_le d3 ((pow10_le_iff _ _).mpr ?_)
    have : (1 : Int) ≤ fuel := by rw [hfuel]; push_cast; omega
    omega

theorem floorLog10_eq (q : ℚ) (k : Int) (h1 : pow10 k ≤ q) (h2 : q < pow10 (k + 1)) :
    floorLog10 q = k := by
  have hq : 0 < q := lt_of_lt_of_le (pow10_pos k) h1
  obtain ⟨a, b⟩ := floorLog10_spec q hq
  exact decade_unique q _ _ a b h1 h2

theorem floorLog10_mono (q1 q2 : ℚ) (h1 : 0 < q1) (h12 : q1 ≤ q2) : floorLog10 q1 ≤ floorLog10 q2 := by
  obtain ⟨a, _⟩ := floorLog10_spec q1 h1
  obtain ⟨_, b⟩ := floorLog10_spec q2 (lt_of_lt_of_le h1 h12)
  have : floorLog10 q1 < floorLog10 q2 + 1 := (pow10_lt_iff _ _).mp (by linarith)
  omega

/-! ### `tickStep` -/

/-- the four branches of `tickStep`, with `err = m / span * 10^k`, `k` the decade of `span / m` -/
theorem tickStep_cases (span m : ℚ) (hs : 0 < span) (hm : 0 < m) :
    ∃ (k : Int) (err : ℚ), k = floorLog10 (span / m) ∧ err = m / span * pow10 k ∧
      m * pow10 k = err * span ∧ 1 / 10 < err ∧ err ≤ 1 ∧
      ((err ≤ Gen.tickErr10 ∧ tickStep span m = 10 * pow10 k) ∨
       (Gen.tickErr10 < err ∧ err ≤ Gen.tickErr5 ∧ tickStep span m = 5 * pow10 k) ∨
       (Gen.tickErr5 < err ∧ err ≤ Gen.tickErr2 ∧ tickStep span m = 2 * pow10 k) ∨
       (Gen.tickErr2 < err ∧ tickStep span m = pow10 k)) := by
  have hq : 0 < span / m := div_pos hs hm
  obtain ⟨h1, h2⟩ := floorLog10_spec (span / m) hq
  rw [pow10_succ] at h2
  have hp := pow10_pos (floorLog10 (span / m))
  refine ⟨floorLog10 (span / m), m / span * pow10 (floorLog10 (span / m)), rfl, rfl, ?_, ?_, ?_, ?_⟩
  · field_simp
  · rw [div_lt_iff₀ hm] at h2
    have : m / span * pow10 (floorLog10 (span / m)) = (m * pow10 (floorLog10 (span / m))) / span := by ring
    rw [this, lt_div_iff₀ hs]; linarith
  · rw [le_div_iff₀ hm] at h1
    have : m / span * pow10 (floorLog10 (span / m)) = (m * pow10 (floorLog10 (span / m))) / span := by ring
    rw [this, div_le_iff₀ hs]; linarith
  · unfold tickStep
    simp only [Gen.tickMul10, Gen.tickMul5, Gen.tickMul2]
    split_ifs with a b c
    · exact Or.inl ⟨a, by ring⟩
    · exact Or.inr (Or.inl ⟨not_le.mp a, b, by ring⟩)
    · exact Or.inr (Or.inr (Or.inl ⟨not_le.mp b, c, by ring⟩))
    · exact Or.inr (Or.inr (Or.inr ⟨not_le.mp c, rfl⟩))

theorem tickStep_pos (span m : ℚ) (hs : 0 < span) (hm : 0 < m) : 0 < tickStep span m := by
  obtain ⟨k, err, -, -, -, -, -, h⟩ := tickStep_cases span m hs hm
  have hp := pow10_pos k
  rcases h with ⟨_, h⟩ | ⟨_, _, h⟩ | ⟨_, _, h⟩ | ⟨_, h⟩ <;> rw [h] <;> linarith

theorem tickStep_form (span m : ℚ) (hs : 0 < span) (hm : 0 < m) :
    ∃ k : Int, tickStep span m = pow10 k ∨ tickStep span m = 2 * pow10 k ∨ tickStep span m = 5 * pow10 k := by
  obtain ⟨k, err, -, -, -, -, -, h⟩ := tickStep_cases span m hs hm
  rcases h with ⟨_, h⟩ | ⟨_, _, h⟩ | ⟨_, _, h⟩ | ⟨_, h⟩
  · exact ⟨k + 1, Or.inl (by rw [h, pow10_succ])⟩
  · exact ⟨k, Or.inr (Or.inr h)⟩
  · exact ⟨k, Or.inr (Or.inl h)⟩
  · exact ⟨k, Or.inl h⟩

theorem tickStep_bounds (span m : ℚ) (hs : 0 < span) (hm : 0 < m) :
    (6999 / 10000) * span < m * tickStep span m ∧ m * tickStep span m ≤ (7 / 4) * span := by
  obtain ⟨k, err, -, -, he, hlo, hhi, h⟩ := tickStep_cases span m hs hm
  have e10 : Gen.tickErr10 = 5404319552844595 / 36028797018963968 := rfl
  have e5 : Gen.tickErr5 = 3152519739159347 / 9007199254740992 := rfl
  have e2 : Gen.tickErr2 = 3 / 4 := rfl
  rw [e10, e5, e2] at h
  rcases h with ⟨a, h⟩ | ⟨a, b, h⟩ | ⟨a, b, h⟩ | ⟨a, h⟩
  · have : m * tickStep span m = 10 * err * span := by rw [h]; linear_combination 10 * he
    rw [this]; constructor <;> nlinarith
  · have : m * tickStep span m = 5 * err * span := by rw [h]; linear_combination 5 * he
    rw [this]; constructor <;> nlinarith
  · have : m * tickStep span m = 2 * err * span := by rw [h]; linear_combination 2 * he
    rw [this]; constructor <;> nlinarith
  · have : m * tickStep span m = err * span := by rw [h]; linear_combination he
    rw [this]; constructor <;> nlinarith

/-! ### `tickRange`, `ticks` -/

theorem extent_lt (d0 d1 : ℚ) (hd : d0 ≠ d1) : (extent d0 d1).1 < (extent d0 d1).2 := by
  unfold extent
  split_ifs with h
  · exact h
  · exact lt_of_le_of_ne (not_lt.mp h) (Ne.symm hd)

theorem tickRange_ne (d0 d1 m : ℚ) (hd : d0 ≠ d1) :
    tickRange d0 d1 m =
      let lo := (extent d0 d1).1
      let hi := (extent d0 d1).2
      let step := tickStep (hi - lo) m
      (((lo / step).ceil : ℚ) * step, ((hi / step).floor : ℚ) * step + step / 2, step) := by
  have h := extent_lt d0 d1 hd
  unfold tickRange
  simp only
  rw [if_neg]
  intro h0
  linarith

theorem tickRange_step (d0 d1 m : ℚ) (hd : d0 ≠ d1) :
    (tickRange d0 d1 m).2.2 = tickStep ((extent d0 d1).2 - (extent d0 d1).1) m := by
  rw [tickRange_ne d0 d1 m hd]

theorem tickRange_step_pos (d0 d1 m : ℚ) (hd : d0 ≠ d1) (hm : 0 < m) : 0 < (tickRange d0 d1 m).2.2 := by
  rw [tickRange_step d0 d1 m hd]
  exact tickStep_pos _ _ (sub_pos.mpr (extent_lt d0 d1 hd)) hm

theorem ceil_intCast_add_half (z : Int) : ((z : ℚ) + 1 / 2).ceil = z + 1 := by
  rw [add_comm, Rat.ceil_add_intCast]
  have : ((1 : ℚ) / 2).ceil = 1 := by decide +kernel
  rw [this]; ring

theorem ticks_eq (d0 d1 m : ℚ) (hd : d0 ≠ d1) (hm : 0 < m) :
    ticks d0 d1 m =
      let step := (tickRange d0 d1 m).2.2
      let C := ((extent d0 d1).1 / step).ceil
      let F := ((extent d0 d1).2 / step).floor
      (List.range (F - C + 1).toNat).map (fun (k : Nat) => ((C + (k : Int) : Int) : ℚ) * step) := by
  have hpos := tickRange_step_pos d0 d1 m hd hm
  have hstep := tickRange_step d0 d1 m hd
  unfold ticks
  simp only
  rw [if_neg (not_le.mpr hpos)]
  rw [hstep] at hpos ⊢
  rw [tickRange_ne d0 d1 m hd]
  simp only
  set step := tickStep ((extent d0 d1).2 - (extent d0 d1).1) m with hst
  set C := ((extent d0 d1).1 / step).ceil
  set F := ((extent d0 d1).2 / step).floor
  have e : ((F : ℚ) * step + step / 2 - (C : ℚ) * step) / step = ((F - C : Int) : ℚ) + 1 / 2 := by
    push_cast; field_simp; ring
  rw [e, ceil_intCast_add_half]
  apply List.map_congr_left
  intro k _
  push_cast; ring

theorem increasingB_map_range' (f : Nat → ℚ) (hf : ∀ k, f k < f (k + 1)) :
    ∀ n s, increasingB ((List.range' s n).map f) = true := by
  intro n
  induction n with
  | zero => intro s; rfl
  | succ n ih =>
    intro s
    cases n with
    | zero => rfl
    | succ n' =>
      have := ih (s + 1)
      simp only [List.range'_succ, List.map_cons] at this ⊢
      simp only [increasingB, Bool.and_eq_true, decide_eq_true_eq]
      exact ⟨hf s, this⟩

/-! ### monotonicity of the step -/

theorem tickStep_between (span m : ℚ) (hs : 0 < span) (hm : 0 < m) :
    pow10 (floorLog10 (span / m)) ≤ tickStep span m ∧
      tickStep span m ≤ pow10 (floorLog10 (span / m) + 1) := by
  obtain ⟨k, err, hk, -, -, -, -, h⟩ := tickStep_cases span m hs hm
  subst hk
  have hp := pow10_pos (floorLog10 (span / m))
  rw [pow10_succ]
  rcases h with ⟨_, h⟩ | ⟨_, _, h⟩ | ⟨_, _, h⟩ | ⟨_, h⟩ <;> rw [h] <;> constructor <;> linarith

theorem tickStep_mono (s1 s2 m : ℚ) (h1 : 0 < s1) (h12 : s1 ≤ s2) (hm : 0 < m) :
    tickStep s1 m ≤ tickStep s2 m := by
  have h2 : 0 < s2 := lt_of_lt_of_le h1 h12
  have hq : s1 / m ≤ s2 / m := div_le_div_of_nonneg_right h12 hm.le
  have hk := floorLog10_mono (s1 / m) (s2 / m) (div_pos h1 hm) hq
  rcases lt_or_eq_of_le hk with hlt | heq
  · -- different decades
    have a := (tickStep_between s1 m h1 hm).2
    have b := (tickStep_between s2 m h2 hm).1
    have c : pow10 (floorLog10 (s1 / m) + 1) ≤ pow10 (floorLog10 (s2 / m)) :=
      (pow10_le_iff _ _).mpr (by omega)
    linarith
  · -- same decade: the error shrinks, the multiplier grows
    obtain ⟨k1, err1, hk1, -, he1, hlo1, -, c1⟩ := tickStep_cases s1 m h1 hm
    obtain ⟨k2, err2, hk2, -, he2, hlo2, -, c2⟩ := tickStep_cases s2 m h2 hm
    have hkk : k1 = k2 := by rw [hk1, hk2, heq]
    subst hkk
    have hp := pow10_pos k1
    have herr : err2 ≤ err1 := by
      have : err2 * s2 ≤ err1 * s2 := by
        calc err2 * s2 = err1 * s1 := by rw [← he1, ← he2]
          _ ≤ err1 * s2 := by apply mul_le_mul_of_nonneg_left h12; linarith
      exact le_of_mul_le_mul_right this h2
    have e10 : Gen.tickErr10 = 5404319552844595 / 36028797018963968 := rfl
    have e5 : Gen.tickErr5 = 3152519739159347 / 9007199254740992 := rfl
    have e2 : Gen.tickErr2 = 3 / 4 := rfl
    rw [e10, e5, e2] at c1 c2
    rcases c1 with ⟨a1, t1⟩ | ⟨a1, b1, t1⟩ | ⟨a1, b1, t1⟩ | ⟨a1, t1⟩ <;>
    rcases c2 with ⟨a2, t2⟩ | ⟨a2, b2, t2⟩ | ⟨a2, b2, t2⟩ | ⟨a2, t2⟩ <;>
    linarith

/-! ### `nicePass` -/

theorem extent_of_lt (d0 d1 : ℚ) (h : d0 < d1) : extent d0 d1 = (d0, d1) := by
  unfold extent; rw [if_pos h]

theorem extent_of_gt (d0 d1 : ℚ) (h : d1 < d0) : extent d0 d1 = (d1, d0) := by
  unfold extent; rw [if_neg (not_lt.mpr h.le)]

theorem tickRange_step_of_lt (d0 d1 m : ℚ) (h : d0 < d1) :
    (tickRange d0 d1 m).2.2 = tickStep (d1 - d0) m := by
  rw [tickRange_step d0 d1 m h.ne, extent_of_lt d0 d1 h]

theorem tickRange_step_of_gt (d0 d1 m : ℚ) (h : d1 < d0) :
    (tickRange d0 d1 m).2.2 = tickStep (d0 - d1) m := by
  rw [tickRange_step d0 d1 m h.ne', extent_of_gt d0 d1 h]

theorem nicePass_of_lt (d0 d1 m : ℚ) (h : d0 < d1) (hm : 0 < m) :
    nicePass d0 d1 m =
      (((d0 / tickStep (d1 - d0) m).floor : ℚ) * tickStep (d1 - d0) m,
       ((d1 / tickStep (d1 - d0) m).ceil : ℚ) * tickStep (d1 - d0) m) := by
  have hp := tickStep_pos (d1 - d0) m (sub_pos.mpr h) hm
  unfold nicePass
  simp only
  rw [tickRange_step_of_lt d0 d1 m h, if_neg hp.ne', if_neg (not_lt.mpr h.le)]

theorem nicePass_of_gt (d0 d1 m : ℚ) (h : d1 < d0) (hm : 0 < m) :
    nicePass d0 d1 m =
      (((d0 / tickStep (d0 - d1) m).ceil : ℚ) * tickStep (d0 - d1) m,
       ((d1 / tickStep (d0 - d1) m).floor : ℚ) * tickStep (d0 - d1) m) := by
  have hp := tickStep_pos (d0 - d1) m (sub_pos.mpr h) hm
  unfold nicePass
  simp only
  rw [tickRange_step_of_gt d0 d1 m h, if_neg hp.ne', if_pos h]

theorem floor_mul_le (x step : ℚ) (hp : 0 < step) : ((x / step).floor : ℚ) * step ≤ x := by
  have := Rat.floor_le (x / step)
  rwa [le_div_iff₀ hp] at this

theorem lt_floor_mul (x step : ℚ) (hp : 0 < step) : x - step < ((x / step).floor : ℚ) * step := by
  have := Rat.lt_floor (x := x / step)
  rw [sub_lt_iff_lt_add, div_lt_iff₀ hp] at this
  linarith

theorem le_ceil_mul (x step : ℚ) (hp : 0 < step) : x ≤ ((x / step).ceil : ℚ) * step := by
  have := Rat.le_ceil (x := x / step)
  rwa [div_le_iff₀ hp] at this

theorem ceil_mul_lt (x step : ℚ) (hp : 0 < step) : ((x / step).ceil : ℚ) * step < x + step := by
  have := Rat.ceil_lt (x := x / step)
  have h2 : ((x / step).ceil : ℚ) * step < (x / step + 1) * step := mul_lt_mul_of_pos_right this hp
  have h3 : (x / step + 1) * step = x + step := by field_simp
  linarith

theorem nice_eq (d0 d1 m : ℚ) : nice d0 d1 m = nicePass (nicePass d0 d1 m).1 (nicePass d0 d1 m).2 m := rfl

/-- one pass on an increasing domain: ends move outward by less than the step, to multiples of the step -/
theorem nicePass_lt_props (d0 d1 m : ℚ) (h : d0 < d1) (hm : 0 < m) :
    (nicePass d0 d1 m).1 ≤ d0 ∧ d1 ≤ (nicePass d0 d1 m).2 ∧
      d0 - (nicePass d0 d1 m).1 < tickStep (d1 - d0) m ∧
      (nicePass d0 d1 m).2 - d1 < tickStep (d1 - d0) m ∧
      (∃ k0 k1 : Int, (nicePass d0 d1 m).1 = (k0 : ℚ) * tickStep (d1 - d0) m ∧
        (nicePass d0 d1 m).2 = (k1 : ℚ) * tickStep (d1 - d0) m) := by
  have hp := tickStep_pos (d1 - d0) m (sub_pos.mpr h) hm
  rw [nicePass_of_lt d0 d1 m h hm]
  simp only
  refine ⟨floor_mul_le _ _ hp, le_ceil_mul _ _ hp, ?_, ?_, ⟨_, _, rfl, rfl⟩⟩
  · have := lt_floor_mul d0 _ hp; linarith
  · have := ceil_mul_lt d1 _ hp; linarith

theorem nicePass_gt_props (d0 d1 m : ℚ) (h : d1 < d0) (hm : 0 < m) :
    d0 ≤ (nicePass d0 d1 m).1 ∧ (nicePass d0 d1 m).2 ≤ d1 := by
  have hp := tickStep_pos (d0 - d1) m (sub_pos.mpr h) hm
  rw [nicePass_of_gt d0 d1 m h hm]
  exact ⟨le_ceil_mul _ _ hp, floor_mul_le _ _ hp⟩

/-! ### label precision -/

theorem roundHalfEven_intCast (z : Int) : roundHalfEven (z : ℚ) = z := by
  unfold roundHalfEven
  simp only [Rat.floor_intCast, sub_self]
  rw [if_pos (by norm_num)]

theorem pow10_mul_dec (k : Int) : ∃ z : Int, pow10 k * (10 : ℚ) ^ ((-k).toNat) = (z : ℚ) := by
  rcases le_or_gt 0 k with h | h
  · refine ⟨10 ^ k.toNat, ?_⟩
    have : (-k).toNat = 0 := by omega
    rw [this, pow_zero, mul_one]
    unfold pow10
    rw [if_pos h]; push_cast; rfl
  · refine ⟨1, ?_⟩
    unfold pow10
    rw [if_neg (not_le.mpr h)]
    have : (10 : ℚ) ^ (-k).toNat ≠ 0 := by positivity
    field_simp
    simp

theorem tickDecimals_of_form (step : ℚ) (k : Int)
    (h : step = pow10 k ∨ step = 2 * pow10 k ∨ step = 5 * pow10 k) :
    tickDecimals step = (-k).toNat := by
  have hp := pow10_pos k
  have hpos : 0 < step := by rcases h with h | h | h <;> rw [h] <;> linarith
  have hk : floorLog10 step = k := by
    apply floorLog10_eq
    · rcases h with h | h | h <;> rw [h] <;> linarith
    · rw [pow10_succ]; rcases h with h | h | h <;> rw [h] <;> linarith
  unfold tickDecimals
  rw [if_neg (not_le.mpr hpos)]
  simp only [hk]

end Labella.Scale
