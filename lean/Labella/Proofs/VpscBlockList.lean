import Labella.Proofs.VpscStats
/-! # The block list (`Blocks._list`): `insertBlock`, `removeBlock` and the `ind` fields

`IndOK st`: every listed block knows its own index.  This alone makes the list duplicate-free.  `insertBlock` appends a block,
`removeBlock` removes exactly the given block (the last element is swapped into its slot). -/
namespace Labella.Vpsc
open FrameAux (natArr_getD_setIfInBounds natArr_mem_toList_iff)

def IndOK (st : St) : Prop := ∀ k, k < st.list.size → (getB st (st.list.getD k 0)).ind = k

theorem IndOK.inj {st : St} (h : IndOK st) (i j : Nat) (hi : i < st.list.size) (hj : j < st.list.size)
    (e : st.list.getD i 0 = st.list.getD j 0) : i = j := by
  have a := h i hi
  have b := h j hj
  rw [e] at a
  exact a.symm.trans b

theorem natArr_getD_eq_getElem (a : Array Nat) (k : Nat) (h : k < a.size) : a.getD k 0 = a[k] := by
  simp [Array.getD_eq_getD_getElem?, h]

theorem natArr_nodup_of_inj (a : Array Nat)
    (h : ∀ i j, i < a.size → j < a.size → a.getD i 0 = a.getD j 0 → i = j) : a.toList.Nodup := by
  unfold List.Nodup
  rw [List.pairwise_iff_getElem]
  intro i j hi hj hij e
  have hi' : i < a.size := by simpa using hi
  have hj' : j < a.size := by simpa using hj
  have := h i j hi' hj' (by rw [natArr_getD_eq_getElem a _ hi', natArr_getD_eq_getElem a _ hj']; simpa using e)
  omega

theorem IndOK.nodup {st : St} (h : IndOK st) : st.list.toList.Nodup := natArr_nodup_of_inj _ h.inj

theorem ListInv.indOK {st : St} (h : ListInv st) : IndOK st := by
  intro k hk
  rw [natArr_getD_eq_getElem _ _ hk]
  exact h.ind k hk

theorem ListInv.mk' {st : St} (h : IndOK st) (hc : ∀ v, v < st.vs.size → (getV st v).block ∈ st.list.toList)
    (hu : ∀ b ∈ st.list.toList, ∃ v, v < st.vs.size ∧ (getV st v).block = b) : ListInv st := by
  refine ⟨h.nodup, hc, hu, fun k hk => ?_⟩
  rw [← natArr_getD_eq_getElem _ _ hk]
  exact h k hk

theorem natArr_getD_push (a : Array Nat) (x k : Nat) :
    (a.push x).getD k 0 = if k < a.size then a.getD k 0 else if k = a.size then x else 0 := by
  simp only [Array.getD_eq_getD_getElem?, Array.getElem?_push]
  by_cases h : k < a.size
  · have : ¬ k = a.size := by omega
    simp [h, this]
  · by_cases h2 : k = a.size
    · simp [h2]
    · simp [h, h2]

theorem natArr_getD_pop (a : Array Nat) (k : Nat) :
    a.pop.getD k 0 = if k < a.size - 1 then a.getD k 0 else 0 := by
  simp only [Array.getD_eq_getD_getElem?, Array.getElem?_pop]
  split <;> simp

/-- `Blocks.insert` -/
theorem insertBlock_indOK (st : St) (b : Nat) (hb : b < st.bs.size) (hnb : b ∉ st.list.toList) (h : IndOK st) :
    IndOK (insertBlock st b) ∧ (∀ x, x ∈ (insertBlock st b).list.toList ↔ (x ∈ st.list.toList ∨ x = b)) := by
  have hl : (insertBlock st b).list = st.list.push b := rfl
  have hB : ∀ x, getB (insertBlock st b) x = if x = b then { getB st b with ind := st.list.size } else getB st x := by
    intro x
    show getB (setB st b { getB st b with ind := st.list.size }) x = _
    rw [getB_setB]
    by_cases hx : x = b
    · rw [if_pos ⟨hx, hb⟩, if_pos hx]
    · rw [if_neg (fun hh => hx hh.1), if_neg hx]
  constructor
  · intro k hk
    rw [hl, Array.size_push] at hk
    rw [hl, natArr_getD_push, hB]
    by_cases hk' : k < st.list.size
    · rw [if_pos hk']
      have hne : st.list.getD k 0 ≠ b := by
        intro e
        exact hnb ((natArr_mem_toList_iff _ _).2 ⟨k, hk', e⟩)
      rw [if_neg hne]
      exact h k hk'
    · have : k = st.list.size := by omega
      rw [if_neg hk', if_pos this, if_pos rfl]
      exact this.symm
  · intro x
    rw [hl]
    simp

theorem removeBlock_eq_last (st : St) (b : Nat) (hs : b = st.list.getD (st.list.size - 1) 0) :
    removeBlock st b = { st with list := st.list.pop } := by
  unfold removeBlock removeSet
  simp only
  rw [if_neg (by simpa using hs)]

theorem removeBlock_eq_swap (st : St) (b : Nat) (hs : b ≠ st.list.getD (st.list.size - 1) 0) :
    (removeBlock st b).list = (st.list.setIfInBounds (getB st b).ind (st.list.getD (st.list.size - 1) 0)).pop ∧
    ∀ x, getB (removeBlock st b) x =
      getB (setB st (st.list.getD (st.list.size - 1) 0)
        { getB st (st.list.getD (st.list.size - 1) 0) with ind := (getB st b).ind }) x := by
  unfold removeBlock removeSet
  simp only
  rw [if_pos (by simpa using hs)]
  exact ⟨rfl, fun _ => rfl⟩

/-- `Blocks.remove` -/
theorem removeBlock_indOK (st : St) (b : Nat) (h : IndOK st) (hb : b ∈ st.list.toList)
    (hlt : ∀ x ∈ st.list.toList, x < st.bs.size) :
    IndOK (removeBlock st b) ∧ (∀ x, x ∈ (removeBlock st b).list.toList ↔ (x ∈ st.list.toList ∧ x ≠ b)) := by
  obtain ⟨j, hj, ej⟩ := (natArr_mem_toList_iff _ _).1 hb
  have hn : 0 < st.list.size := by omega
  by_cases hs : b = st.list.getD (st.list.size - 1) 0
  · rw [removeBlock_eq_last st b hs]
    constructor
    · intro k hk
      simp only [Array.size_pop] at hk
      simp only
      rw [natArr_getD_pop, if_pos hk]
      exact h k (by omega)
    · intro x
      simp only
      rw [natArr_mem_toList_iff, natArr_mem_toList_iff]
      constructor
      · rintro ⟨k, hk, e⟩
        simp only [Array.size_pop] at hk
        rw [natArr_getD_pop, if_pos hk] at e
        refine ⟨⟨k, by omega, e⟩, ?_⟩
        rw [hs, ← e]
        intro e2
        have := h.inj k (st.list.size - 1) (by omega) (by omega) e2
        omega
      · rintro ⟨⟨k, hk, e⟩, hne⟩
        have hk' : k ≠ st.list.size - 1 := by
          rintro rfl
          exact hne (e.symm.trans hs.symm)
        refine ⟨k, by simp only [Array.size_pop]; omega, ?_⟩
        rw [natArr_getD_pop, if_pos (by omega)]
        exact e
  · obtain ⟨hL, hB⟩ := removeBlock_eq_swap st b hs
    have hbi : (getB st b).ind = j := by rw [← ej]; exact h j hj
    have hjn : j ≠ st.list.size - 1 := by
      rintro rfl
      exact hs ej.symm
    rw [hbi] at hL hB
    have hsw : st.list.getD (st.list.size - 1) 0 < st.bs.size :=
      hlt _ ((natArr_mem_toList_iff _ _).2 ⟨st.list.size - 1, by omega, rfl⟩)
    have hget : ∀ k, k < st.list.size - 1 → (removeBlock st b).list.getD k 0 =
        if k = j then st.list.getD (st.list.size - 1) 0 else st.list.getD k 0 := by
      intro k hk
      rw [hL, natArr_getD_pop, Array.size_setIfInBounds, if_pos hk, natArr_getD_setIfInBounds]
      by_cases hkj : k = j
      · rw [if_pos ⟨hkj, hj⟩, if_pos hkj]
      · rw [if_neg (fun hh => hkj hh.1), if_neg hkj]
    have hsz : (removeBlock st b).list.size = st.list.size - 1 := by
      rw [hL]; simp
    constructor
    · intro k hk
      rw [hsz] at hk
      rw [hget k hk, hB, getB_setB]
      by_cases hkj : k = j
      · rw [if_pos hkj, if_pos ⟨rfl, hsw⟩]
        exact hkj.symm
      · rw [if_neg hkj, if_neg]
        · exact h k (by omega)
        · rintro ⟨e, _⟩
          have := h.inj k (st.list.size - 1) (by omega) (by omega) e
          omega
    · intro x
      rw [natArr_mem_toList_iff, natArr_mem_toList_iff, hsz]
      constructor
      · rintro ⟨k, hk, e⟩
        rw [hget k hk] at e
        by_cases hkj : k = j
        · rw [if_pos hkj] at e
          refine ⟨⟨st.list.size - 1, by omega, e⟩, ?_⟩
          rw [← e]
          exact fun e2 => hs e2.symm
        · rw [if_neg hkj] at e
          refine ⟨⟨k, by omega, e⟩, ?_⟩
          rw [← e, ← ej]
          intro e2
          exact hkj (h.inj k j (by omega) hj e2)
      · rintro ⟨⟨k, hk, e⟩, hne⟩
        have hkj : k ≠ j := by
          rintro rfl
          exact hne (e.symm.trans ej)
        by_cases hkl : k = st.list.size - 1
        · refine ⟨j, by omega, ?_⟩
          rw [hget j (by omega), if_pos rfl, ← hkl]
          exact e
        · refine ⟨k, by omega, ?_⟩
          rw [hget k (by omega), if_neg hkj]
          exact e


theorem removeBlock_listInv (st : St) (b : Nat) (hI : IndOK st) (hb : b ∈ st.list.toList)
    (hlt : ∀ x ∈ st.list.toList, x < st.bs.size)
    (hc : ∀ v, v < st.vs.size → (getV st v).block ∈ st.list.toList ∧ (getV st v).block ≠ b)
    (hu : ∀ x ∈ st.list.toList, x ≠ b → ∃ v, v < st.vs.size ∧ (getV st v).block = x) : ListInv (removeBlock st b) := by
  obtain ⟨h1, h2⟩ := removeBlock_indOK st b hI hb hlt
  have hE := removeBlock_statEq st b
  refine ListInv.mk' h1 ?_ ?_
  · intro v hv
    rw [hE.vs_eq] at hv
    rw [hE.getV, h2]
    exact hc v hv
  · intro x hx
    obtain ⟨hx1, hx2⟩ := (h2 x).1 hx
    obtain ⟨v, hv, e⟩ := hu x hx1 hx2
    exact ⟨v, by rw [hE.vs_eq]; exact hv, by rw [hE.getV]; exact e⟩

/-! ## Steps that leave the variables, the list and the `ind` fields alone -/

structure IndEq (st st' : St) : Prop where
  vs_eq : st'.vs = st.vs
  list_eq : st'.list = st.list
  ind_eq : ∀ x, (getB st' x).ind = (getB st x).ind

theorem ListInv.of_indEq {st st' : St} (h : IndEq st st') (hl : ListInv st) : ListInv st' := by
  have hV : ∀ i, getV st' i = getV st i := fun i => by unfold getV; rw [h.vs_eq]
  refine ⟨?_, ?_, ?_, ?_⟩
  · rw [h.list_eq]; exact hl.nodup
  · intro v hv
    rw [h.vs_eq] at hv
    rw [h.list_eq, hV]; exact hl.covers v hv
  · intro b hb
    rw [h.list_eq] at hb
    obtain ⟨v, hv, e⟩ := hl.inuse b hb
    exact ⟨v, by rw [h.vs_eq]; exact hv, by rw [hV]; exact e⟩
  · intro k hk
    have hk' : k < st.list.size := by rw [h.list_eq] at hk; exact hk
    have : st'.list[k] = st.list[k] := by simp only [h.list_eq]
    rw [this, h.ind_eq]; exact hl.ind k hk'

/-! ## `Block.updateWeightedPosition` -/

theorem foldl_addStats (st : St) (l : List Nat) : ∀ x : B,
    (l.foldl (fun acc i => addStats acc (getV st i)) x).vars = x.vars ∧
    (l.foldl (fun acc i => addStats acc (getV st i)) x).scale = x.scale ∧
    (l.foldl (fun acc i => addStats acc (getV st i)) x).ind = x.ind ∧
    (l.foldl (fun acc i => addStats acc (getV st i)) x).AB = x.AB +
      (l.map (fun i => (getV st i).w * (x.scale / (getV st i).s) * ((getV st i).offset / (getV st i).s))).sum ∧
    (l.foldl (fun acc i => addStats acc (getV st i)) x).AD = x.AD +
      (l.map (fun i => (getV st i).w * (x.scale / (getV st i).s) * (getV st i).d)).sum ∧
    (l.foldl (fun acc i => addStats acc (getV st i)) x).A2 = x.A2 +
      (l.map (fun i => (getV st i).w * (x.scale / (getV st i).s) * (x.scale / (getV st i).s))).sum := by
  induction l with
  | nil => intro x; simp
  | cons a t ih =>
    intro x
    obtain ⟨h1, h2, h3, h4, h5, h6⟩ := ih (addStats x (getV st a))
    simp only [List.foldl_cons, List.map_cons, List.sum_cons]
    refine ⟨h1, h2, h3, ?_, ?_, ?_⟩
    · rw [h4]; simp only [addStats]; ring
    · rw [h5]; simp only [addStats]; ring
    · rw [h6]; simp only [addStats]; ring

theorem updateWeightedPosition_getB (st : St) (b x : Nat) :
    getB (updateWeightedPosition st b) x = if x = b ∧ b < st.bs.size then
      { (getB st b).vars.foldl (fun acc i => addStats acc (getV st i)) { getB st b with AB := 0, AD := 0, A2 := 0 } with
        posn := getPosn ((getB st b).vars.foldl (fun acc i => addStats acc (getV st i))
          { getB st b with AB := 0, AD := 0, A2 := 0 }) }
    else getB st x := by
  unfold updateWeightedPosition
  simp only
  rw [getB_setB]

theorem updateWeightedPosition_indEq (st : St) (b : Nat) : IndEq st (updateWeightedPosition st b) := by
  refine ⟨rfl, rfl, fun x => ?_⟩
  rw [updateWeightedPosition_getB]
  split
  · next h =>
    simp only
    rw [(foldl_addStats st _ _).2.2.1, h.1]
  · rfl

theorem updateWeightedPosition_statsInv (st : St) (b : Nat) (h : StatsInv st) : StatsInv (updateWeightedPosition st b) := by
  have hV : ∀ i, getV (updateWeightedPosition st b) i = getV st i := fun _ => rfl
  intro v hv
  have hv' : v < st.vs.size := hv
  have h0 := h v hv'
  rw [hV]
  by_cases hx : (getV st v).block = b ∧ b < st.bs.size
  · show StatsOK _ (getB _ _)
    rw [updateWeightedPosition_getB, if_pos hx]
    obtain ⟨f1, f2, _, f4, f5, f6⟩ := foldl_addStats st (getB st b).vars { getB st b with AB := 0, AD := 0, A2 := 0 }
    rw [hx.1] at h0
    refine ⟨?_, ?_, ?_, ?_, rfl⟩
    · simp only; rw [f2]; exact h0.1
    · simp only [sumAB, hV]; rw [f4, f1, f2]; simp
    · simp only [sumAD, hV]; rw [f5, f1, f2]; simp
    · simp only [sumA2, hV]; rw [f6, f1, f2]; simp
  · refine StatsB.congr (st := st) (b := (getV st v).block) ?_ (fun i _ => VSame.rfl' _) h0
    rw [updateWeightedPosition_getB, if_neg hx]
    exact BSame.rfl' _

end Labella.Vpsc
