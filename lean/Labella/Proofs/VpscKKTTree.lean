import Labella.Proofs.VpscKKTAux
/-! # Optimality half of C05, part 2: what `computeLm` computes on a tree

`computeLm_post`: called on `v` (reached through the constraint `pe`) in a state whose active graph is a forest, `computeLm`
* changes nothing but the multipliers of the active constraints (other than `pe`) that have an end in the region of `v`
  (the variables connected to `v` by active constraints other than `pe`),
* leaves every variable `x ≠ v` of that region balanced: `Σ_c lm_c · ∂slack_c/∂x = dfdv x`,
* returns `D` with `Σ_{c ≠ pe} lm_c · ∂slack_c/∂v = dfdv v − s_v · D`
  (so the caller balances `v` by storing `±D` in `pe`; at the root, `v` is balanced iff `D = 0`). -/
namespace Labella.Vpsc
namespace KKT
open FrameAux

/-! ## the loop body -/

def stepSt (sub : St × Option Nat × Rat) (c w : Nat) : St :=
  setC sub.1 c { getC sub.1 c with lm := if w == (getC sub.1 c).r then sub.2.2 else -sub.2.2 }

def stepDv (sub : St × Option Nat × Rat) (c w : Nat) (dv : Rat) : Rat :=
  if w == (getC sub.1 c).r then dv + sub.2.2 * (getV sub.1 (getC sub.1 c).l).s
  else dv + sub.2.2 * (getV sub.1 (getC sub.1 c).r).s

theorem lmStep_pos (fuel : Nat) (track : Bool) (v : Nat) (u : Option Nat) (acc : St × Option Nat × Rat) (c w : Nat)
    (h : ((getC acc.1 c).active && u != some w) = true) :
    (lmStep fuel track v u acc (c, w)).1 = stepSt (computeLm fuel acc.1 track acc.2.1 w (some v)) c w ∧
    (lmStep fuel track v u acc (c, w)).2.2 = stepDv (computeLm fuel acc.1 track acc.2.1 w (some v)) c w acc.2.2 := by
  unfold lmStep
  simp only
  rw [if_pos h]
  exact ⟨rfl, rfl⟩

theorem lmStep_neg (fuel : Nat) (track : Bool) (v : Nat) (u : Option Nat) (acc : St × Option Nat × Rat) (c w : Nat)
    (h : ¬ ((getC acc.1 c).active && u != some w) = true) :
    lmStep fuel track v u acc (c, w) = acc := by
  unfold lmStep
  simp only
  rw [if_neg h]

theorem lmStep_err (fuel : Nat) (track : Bool) (v : Nat) (u : Option Nat) (acc : St × Option Nat × Rat) (p : Nat × Nat)
    (h : acc.1.err = true) : (lmStep fuel track v u acc p).1.err = true := by
  unfold lmStep
  simp only
  split
  · simp only [setC_err]
    exact (computeLm_coreEq _ _ _ _ _ _).errmono h
  · exact h

theorem lmFold_err (fuel : Nat) (track : Bool) (v : Nat) (u : Option Nat) :
    ∀ (l : List (Nat × Nat)) (acc : St × Option Nat × Rat), acc.1.err = true →
      (l.foldl (lmStep fuel track v u) acc).1.err = true := by
  intro l
  induction l with
  | nil => intro acc h; exact h
  | cons x l ih => intro acc h; exact ih _ (lmStep_err fuel track v u acc x h)

theorem err_false_of_lmFold {fuel : Nat} {track : Bool} {v : Nat} {u : Option Nat} {l : List (Nat × Nat)}
    {acc : St × Option Nat × Rat} (h : (l.foldl (lmStep fuel track v u) acc).1.err = false) : acc.1.err = false := by
  cases hh : acc.1.err with
  | false => rfl
  | true =>
    rw [lmFold_err fuel track v u l acc hh] at h
    exact h

/-! ## the specification -/

structure Post (s0 s : St) (pe : Option Nat) (v : Nat) (s' : St) (D : Rat) : Prop where
  lmo : LmOnly s0 s'
  untouched : ∀ c2, ¬ Touched s0 pe v c2 → (getC s' c2).lm = (getC s c2).lm
  below : ∀ x, Conn s0 pe v x → x ≠ v → netVx s0 s' none x = dfdv s0 x
  atv : netVx s0 s' pe v = dfdv s0 v - (getV s0 v).s * D

structure FoldInv (s0 s : St) (pe : Option Nat) (v : Nat) (pre : List (Nat × Nat)) (a : St) (dv : Rat) : Prop where
  lmo : LmOnly s0 a
  untouched : ∀ c2, ¬ TouchedPre s0 pe pre c2 → (getC a c2).lm = (getC s c2).lm
  below : ∀ p ∈ pre, (getC s0 p.1).active = true → some p.1 ≠ pe → ∀ x, Conn s0 (some p.1) p.2 x →
    netVx s0 a none x = dfdv s0 x
  dv : dv = dfdv s0 v - (pre.map fun p => (if some p.1 = pe then 0 else lam s0 a p.1) * coef s0 v p.1).sum

theorem TouchedPre.mono {s0 : St} {pe : Option Nat} {pre suf : List (Nat × Nat)} {c2 : Nat}
    (h : TouchedPre s0 pe pre c2) : TouchedPre s0 pe (pre ++ suf) c2 := by
  obtain ⟨h1, p, hp, h2⟩ := h
  exact ⟨h1, p, List.mem_append_left _ hp, h2⟩

theorem edge_ne {s0 : St} (hf : Forest s0) {c v w : Nat} (he : IsEdge s0 c v w) : v ≠ w := by
  rintro rfl
  exact he.bridge hf (Conn.reflS _ _ _)

theorem fold_step {s0 : St} (hinv : Inv s0) {track : Bool} {fuel : Nat}
    (ih : ∀ (s : St) (m : Option Nat) (v : Nat) (u pe : Option Nat), LmOnly s0 s → v < s0.vs.size → ParentOK s0 v u pe →
      (computeLm fuel s track m v u).1.err = false →
      Post s0 s pe v (computeLm fuel s track m v u).1 (computeLm fuel s track m v u).2.2)
    {s : St} {v : Nat} {u pe : Option Nat} (hv : v < s0.vs.size) (hp : ParentOK s0 v u pe)
    {pre : List (Nat × Nat)} {acc : St × Option Nat × Rat} (hacc : FoldInv s0 s pe v pre acc.1 acc.2.2)
    (hpm : ∀ p ∈ pre, p ∈ neighbours s0 v) {x : Nat × Nat} (hx : x ∈ neighbours s0 v)
    (hdist : ∀ p ∈ pre, NbDistinct s0 p x) (herr : (lmStep fuel track v u acc x).1.err = false) :
    FoldInv s0 s pe v (pre ++ [x]) (lmStep fuel track v u acc x).1 (lmStep fuel track v u acc x).2.2 := by
  obtain ⟨c, w⟩ := x
  have hwfd : WFd s0 := hinv.wf.toWFd
  have hf : Forest s0 := hinv.forest
  by_cases hcond : ((getC acc.1 c).active && u != some w) = true
  · obtain ⟨e1, e2⟩ := lmStep_pos fuel track v u acc c w hcond
    rw [e1] at herr
    rw [e1, e2]
    rw [Bool.and_eq_true, hacc.lmo.active, bne_iff_ne] at hcond
    obtain ⟨hact, hprev⟩ := hcond
    have he : IsEdge s0 c v w := nb_edge hwfd hv hx hact
    have hne : some c ≠ pe := (parent_iff hf hp he).1 hprev
    have hvw : v ≠ w := edge_ne hf he
    have hc : c < s0.cs.size := he.1
    obtain ⟨_, hw, _⟩ := hwfd.nb_sound hv hx
    have herr' : (computeLm fuel acc.1 track acc.2.1 w (some v)).1.err = false := by
      simpa [stepSt] using herr
    have P := ih acc.1 acc.2.1 w (some v) (some c) hacc.lmo hw (Or.inr ⟨v, c, rfl, rfl, he⟩) herr'
    generalize computeLm fuel acc.1 track acc.2.1 w (some v) = sub at P herr' ⊢
    obtain ⟨s1, m1, D⟩ := sub
    simp only at P
    have hL1 : LmOnly s0 s1 := P.lmo
    have hc1 : c < s1.cs.size := by rw [hL1.core.csize]; exact hc
    -- the multipliers after the step
    have hlm : ∀ c2, (getC (stepSt (s1, m1, D) c w) c2).lm =
        if c2 = c then (if w == (getC s0 c).r then D else -D) else (getC s1 c2).lm := by
      intro c2
      unfold stepSt
      rw [getC_setC]
      by_cases h : c2 = c
      · rw [if_pos ⟨h, hc1⟩, if_pos h, hL1.r]
      · rw [if_neg (fun hh => h hh.1), if_neg h]
    have hlm_stable : ∀ c2, c2 ≠ c → ¬ Touched s0 (some c) w c2 →
        (getC (stepSt (s1, m1, D) c w) c2).lm = (getC acc.1 c2).lm := by
      intro c2 h1 h2
      rw [hlm, if_neg h1]
      exact P.untouched c2 h2
    have hLval : (if w == (getC s0 c).r then D else -D) * coef s0 v c = - (D * (getV s0 v).s) ∧
        (if w == (getC s0 c).r then D else -D) * coef s0 w c = D * (getV s0 w).s := by
      unfold coef
      rcases he.2.2 with ⟨a1, a2⟩ | ⟨a1, a2⟩
      · rw [a1, a2]
        simp only [beq_self_eq_true, if_true]
        rw [if_neg (fun e => hvw e.symm), if_neg hvw]
        constructor <;> ring
      · rw [a1, a2]
        have : (w == v) = false := by simpa using fun e => hvw e.symm
        rw [this]
        simp only [Bool.false_eq_true, if_false, if_true]
        rw [if_neg (fun e => hvw e.symm), if_neg hvw]
        constructor <;> ring
    refine ⟨hL1.setLm c _, ?_, ?_, ?_⟩
    · -- untouched
      intro c2 h
      have hne2 : c2 ≠ c := by
        rintro rfl
        apply h
        refine ⟨hact, (c2, w), List.mem_append_right _ (List.mem_singleton_self _), hact, hne, ?_⟩
        rcases he.2.2 with ⟨_, a2⟩ | ⟨a1, _⟩
        · right; rw [a2]; exact Conn.reflS _ _ _
        · left; rw [a1]; exact Conn.reflS _ _ _
      have hnt : ¬ Touched s0 (some c) w c2 := by
        rintro ⟨t1, _, t3⟩
        exact h ⟨t1, (c, w), List.mem_append_right _ (List.mem_singleton_self _), hact, hne, t3⟩
      rw [hlm_stable c2 hne2 hnt]
      exact hacc.untouched c2 (fun ht => h ht.mono)
    · -- below
      intro p hpmem hpa hpne x hxc
      rcases List.mem_append.1 hpmem with hpp | hpp
      · obtain ⟨c', w'⟩ := p
        simp only at hpa hpne hxc
        have he' : IsEdge s0 c' v w' := nb_edge hwfd hv (hpm _ hpp) hpa
        have hcc : c' ≠ c := hdist _ hpp hpa hact
        have hnb : ¬ Conn s0 (some c) w x := fun h => sub_disjoint hf he he' (fun e => hcc e.symm) h hxc
        have hxv : x ≠ v := by
          rintro rfl
          exact he'.bridge hf hxc.symmS
        rw [← hacc.below (c', w') hpp hpa hpne x hxc]
        apply netVx_congr
        intro c2 hc2 _ ha2 hi
        obtain ⟨k1, k2⟩ := step_stable he hnb hxv hc2 ha2 hi
        exact hlm_stable c2 k1 k2
      · rw [List.mem_singleton] at hpp
        subst hpp
        simp only at hxc
        have hxv : x ≠ v := by
          rintro rfl
          exact he.bridge hf hxc.symmS
        by_cases hxw : x = w
        · subst hxw
          rw [netVx_split s0 _ x c hc, lam_active hact, hlm, if_pos rfl, hLval.2]
          have : netVx s0 (stepSt (s1, m1, D) c x) (some c) x = netVx s0 s1 (some c) x := by
            apply netVx_congr
            intro c2 _ hc2ne _ _
            rw [hlm, if_neg (by simpa using hc2ne)]
          rw [this, P.atv]
          ring
        · rw [← P.below x hxc hxw]
          apply netVx_congr
          intro c2 hc2 _ ha2 hi
          rw [hlm, if_neg]
          rintro rfl
          rcases he.2.2 with ⟨a1, a2⟩ | ⟨a1, a2⟩ <;> rcases hi with b | b <;> omega
    · -- the running sum
      have hdv : stepDv (s1, m1, D) c w acc.2.2 = acc.2.2 + D * (getV s0 v).s := by
        unfold stepDv
        simp only [hL1.r, hL1.l, hL1.getV]
        rcases he.2.2 with ⟨a1, a2⟩ | ⟨a1, a2⟩
        · rw [a1, a2]; simp
        · rw [a1, a2]
          have : (w == v) = false := by simpa using fun e => hvw e.symm
          rw [this]; simp
      rw [hdv, hacc.dv, List.map_append, List.sum_append]
      have hpre : (pre.map fun p => (if some p.1 = pe then 0 else lam s0 (stepSt (s1, m1, D) c w) p.1) * coef s0 v p.1) =
          (pre.map fun p => (if some p.1 = pe then 0 else lam s0 acc.1 p.1) * coef s0 v p.1) := by
        apply List.map_congr_left
        rintro ⟨c', w'⟩ hpp
        simp only
        by_cases h1 : some c' = pe
        · rw [if_pos h1, if_pos h1]
        · rw [if_neg h1, if_neg h1]
          by_cases ha' : (getC s0 c').active = true
          · have he' : IsEdge s0 c' v w' := nb_edge hwfd hv (hpm _ hpp) ha'
            have hcc : c' ≠ c := hdist _ hpp ha' hact
            rw [lam_active ha', lam_active ha', hlm_stable c' hcc]
            rintro ⟨_, _, t3⟩
            have hends : Conn s0 (some c) w v ∨ Conn s0 (some c) w w' := by
              rcases he'.2.2 with ⟨a1, a2⟩ | ⟨a1, a2⟩
              · rw [a1, a2] at t3; exact t3
              · rw [a1, a2] at t3; exact t3.symm
            rcases hends with h | h
            · exact he.bridge hf h.symmS
            · exact sub_disjoint hf he he' (fun e => hcc e.symm) h (Conn.reflS _ _ _)
          · have ha'' : (getC s0 c').active = false := by simpa using ha'
            rw [lam_inactive ha'', lam_inactive ha'']
      rw [hpre]
      simp only [List.map_cons, List.map_nil, List.sum_cons, List.sum_nil]
      rw [if_neg hne, lam_active hact, hlm, if_pos rfl, hLval.1]
      ring
  · rw [lmStep_neg fuel track v u acc c w hcond]
    refine ⟨hacc.lmo, fun c2 h => hacc.untouched c2 (fun ht => h ht.mono), ?_, ?_⟩
    · intro p hpmem hpa hpne x hxc
      rcases List.mem_append.1 hpmem with hpp | hpp
      · exact hacc.below p hpp hpa hpne x hxc
      · rw [List.mem_singleton] at hpp
        subst hpp
        exfalso
        apply hcond
        rw [Bool.and_eq_true, hacc.lmo.active, bne_iff_ne]
        exact ⟨hpa, (parent_iff hf hp (nb_edge hwfd hv hx hpa)).2 hpne⟩
    · rw [hacc.dv, List.map_append, List.sum_append]
      simp only [List.map_cons, List.map_nil, List.sum_cons, List.sum_nil]
      have : (if some c = pe then 0 else lam s0 acc.1 c) = 0 := by
        by_cases h1 : some c = pe
        · rw [if_pos h1]
        · rw [if_neg h1]
          by_cases ha' : (getC s0 c).active = true
          · exfalso
            apply hcond
            rw [Bool.and_eq_true, hacc.lmo.active, bne_iff_ne]
            exact ⟨ha', (parent_iff hf hp (nb_edge hwfd hv hx ha')).2 h1⟩
          · exact lam_inactive (by simpa using ha')
      rw [this]
      ring

theorem fold_all {s0 : St} (hinv : Inv s0) {track : Bool} {fuel : Nat}
    (ih : ∀ (s : St) (m : Option Nat) (v : Nat) (u pe : Option Nat), LmOnly s0 s → v < s0.vs.size → ParentOK s0 v u pe →
      (computeLm fuel s track m v u).1.err = false →
      Post s0 s pe v (computeLm fuel s track m v u).1 (computeLm fuel s track m v u).2.2)
    {s : St} {v : Nat} {u pe : Option Nat} (hv : v < s0.vs.size) (hp : ParentOK s0 v u pe) :
    ∀ (suf pre : List (Nat × Nat)) (acc : St × Option Nat × Rat), (∀ x ∈ suf, x ∈ neighbours s0 v) →
      (∀ x ∈ pre, x ∈ neighbours s0 v) → suf.Pairwise (NbDistinct s0) → (∀ p ∈ pre, ∀ q ∈ suf, NbDistinct s0 p q) →
      FoldInv s0 s pe v pre acc.1 acc.2.2 → (suf.foldl (lmStep fuel track v u) acc).1.err = false →
      FoldInv s0 s pe v (pre ++ suf) (suf.foldl (lmStep fuel track v u) acc).1
        (suf.foldl (lmStep fuel track v u) acc).2.2 := by
  intro suf
  induction suf with
  | nil => intro pre acc _ _ _ _ h _; simpa using h
  | cons x suf ihl =>
    intro pre acc hmem hpm hpw hd hacc herr
    rw [List.foldl_cons] at herr ⊢
    rw [List.pairwise_cons] at hpw
    have hx := hmem x (List.mem_cons_self ..)
    have h1 := fold_step hinv ih hv hp hacc hpm hx (fun p hp' => hd p hp' x (List.mem_cons_self ..))
      (err_false_of_lmFold herr)
    have := ihl (pre ++ [x]) _ (fun y hy => hmem y (List.mem_cons_of_mem _ hy))
      (fun y hy => by
        rcases List.mem_append.1 hy with h | h
        · exact hpm y h
        · rw [List.mem_singleton] at h; subst h; exact hx)
      hpw.2
      (fun p hp' q hq => by
        rcases List.mem_append.1 hp' with h | h
        · exact hd p h q (List.mem_cons_of_mem _ hq)
        · rw [List.mem_singleton] at h; subst h; exact hpw.1 q hq)
      h1 herr
    rwa [List.append_assoc, List.singleton_append] at this

/-- **the tree lemma** -/
theorem computeLm_post {s0 : St} (hinv : Inv s0) (hadj : AdjNodup s0) (track : Bool) (fuel : Nat) :
    ∀ (s : St) (m : Option Nat) (v : Nat) (u pe : Option Nat), LmOnly s0 s → v < s0.vs.size → ParentOK s0 v u pe →
      (computeLm fuel s track m v u).1.err = false →
      Post s0 s pe v (computeLm fuel s track m v u).1 (computeLm fuel s track m v u).2.2 := by
  induction fuel with
  | zero =>
    intro s m v u pe _ _ _ herr
    rw [computeLm] at herr
    exact absurd herr (by simp)
  | succ fuel ih =>
    intro s m v u pe hs hv hp herr
    have hwfd : WFd s0 := hinv.wf.toWFd
    have hf : Forest s0 := hinv.forest
    rw [computeLm_succ] at herr ⊢
    simp only at herr ⊢
    rw [hs.neighbours, hs.dfdv] at herr ⊢
    have h0 : FoldInv s0 s pe v [] s (dfdv s0 v) :=
      ⟨hs, fun _ _ => rfl, fun p hp' => absurd hp' (List.not_mem_nil), by simp⟩
    have FI := fold_all hinv ih hv hp (neighbours s0 v) [] (s, m, dfdv s0 v) (fun _ h => h)
      (fun p hp' => absurd hp' (List.not_mem_nil)) (neighbours_pairwise hwfd hf hadj hv)
      (fun p hp' => absurd hp' (List.not_mem_nil)) h0 herr
    rw [List.nil_append] at FI
    generalize (neighbours s0 v).foldl (lmStep fuel track v u) (s, m, dfdv s0 v) = res at FI herr ⊢
    obtain ⟨s', m', dv⟩ := res
    simp only at FI herr ⊢
    refine ⟨FI.lmo, ?_, ?_, ?_⟩
    · intro c2 h
      exact FI.untouched c2 (fun ht => h (touched_of_pre hwfd hf hv hp ht))
    · intro x hx hxv
      rcases region_cover hwfd hf hv hx with h | ⟨p, hpm, hpa, hpne, hpc⟩
      · exact absurd h hxv
      · exact FI.below p hpm hpa hpne x hpc
    · have hsv : (getV s0 v).s ≠ 0 := hinv.wf.scale_ne v hv
      rw [FI.lmo.getV, mul_div_cancel₀ _ hsv, FI.dv]
      have hn := nbr_sum hinv.wf hadj hf hv (fun c => if some c = pe then 0 else lam s0 s' c)
        (fun c hc => by rw [lam_inactive hc]; simp)
      rw [hn]
      unfold netVx
      have : ((List.range s0.cs.size).map fun c => if some c = pe then 0 else lam s0 s' c * coef s0 v c) =
          ((List.range s0.cs.size).map fun c => (if some c = pe then 0 else lam s0 s' c) * coef s0 v c) := by
        apply List.map_congr_left
        intro c _
        split_ifs <;> ring
      rw [this]
      ring

end KKT
end Labella.Vpsc
