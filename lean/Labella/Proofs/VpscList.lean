import Labella.Proofs.VpscLoops
import Labella.Proofs.VpscMergeStats
import Labella.Proofs.VpscSplitStats
import Labella.Proofs.VpscInitStats
/-! # `ListInv` and `StatsInv` hold along the whole run of the transliterated VPSC solver

* `init_listInv`, `init_statsInv` — the initial state;
* per-operation lemmas: `Quiet` steps (`computeLm`, `findMinLM`, `mostViolated`, flag changes, `inactive` pushes:
  `ListInv.of_quiet`, `StatsInv.of_quiet` in `VpscStats.lean`), `updateWeightedPosition` (`VpscBlockList.lean`),
  `mergeBlocks` (`mergeBlocks_list_stats`, `VpscMergeStats.lean`), `blockSplit` + `insertBlock` ×2 + `removeBlock`
  (`split_listInv`, `split_statsInv`, `VpscSplitStats.lean`);
* the loops, mirroring `VpscLoops.lean`: `splitLoop_ls`, `blocksSplit_ls`, `satisfyLoop_ls`, `satisfy_ls`, `solveLoop_ls`,
  `solve_ls`; and the bundle `Inv2` with `solve_spec2`. -/
namespace Labella.Vpsc

/-! ## The initial state -/

theorem init_ib2 (vars : List (Rat × Rat × Rat)) (cons : List (Nat × Nat × Rat)) (hs : ∀ v ∈ vars, v.2.2 ≠ 0) :
    IB2 vars.length 0 (init vars cons) := by
  have h := initBlocks_ib2 (FrameAux.init0 vars cons) (fun i hi => by
    rw [FrameAux.init0_vs_size] at hi
    rw [((FrameAux.init0_getV vars cons i).1 hi).2.2]
    exact hs _ (List.getElem_mem hi))
  rw [FrameAux.init0_vs_size, ← FrameAux.init_eq] at h
  exact h

theorem init_listInv (vars : List (Rat × Rat × Rat)) (cons : List (Nat × Nat × Rat))
    (hidx : ∀ c ∈ cons, c.1 < vars.length ∧ c.2.1 < vars.length) (hs : ∀ v ∈ vars, v.2.2 ≠ 0) :
    ListInv (init vars cons) := by
  have _ := hidx
  obtain ⟨g1, g2⟩ := init_ib2 vars cons hs
  obtain ⟨f1, _, _, _, _, _, _, f8⟩ := FrameAux.init_facts vars cons
  refine ListInv.mk' ?_ ?_ ?_
  · intro k hk
    rw [g1] at hk
    obtain ⟨a1, a2, _⟩ := g2 k (Nat.zero_le _) hk
    rw [a1]; exact a2
  · intro v hv
    rw [f1] at hv
    rw [(f8 v hv).1, ← (g2 v (Nat.zero_le _) hv).1]
    exact (FrameAux.natArr_mem_toList_iff _ _).2 ⟨v, by rw [g1]; exact hv, rfl⟩
  · intro b hb
    obtain ⟨k, hk, e⟩ := (FrameAux.natArr_mem_toList_iff _ _).1 hb
    rw [g1] at hk
    refine ⟨k, by rw [f1]; exact hk, ?_⟩
    rw [(f8 k hk).1, ← e, (g2 k (Nat.zero_le _) hk).1]

theorem init_statsInv (vars : List (Rat × Rat × Rat)) (cons : List (Nat × Nat × Rat))
    (hidx : ∀ c ∈ cons, c.1 < vars.length ∧ c.2.1 < vars.length) (hs : ∀ v ∈ vars, v.2.2 ≠ 0) :
    StatsInv (init vars cons) := by
  have _ := hidx
  obtain ⟨_, g2⟩ := init_ib2 vars cons hs
  obtain ⟨f1, _, _, _, _, _, _, f8⟩ := FrameAux.init_facts vars cons
  intro v hv
  rw [f1] at hv
  rw [(f8 v hv).1]
  exact (g2 v (Nat.zero_le _) hv).2.2


/-! ## Per-operation preservation (named wrappers around the lemmas of the helper files) -/

theorem computeLm_ls (fuel : Nat) (st : St) (track : Bool) (m : Option Nat) (v : Nat) (u : Option Nat)
    (hL : ListInv st) (hS : StatsInv st) :
    ListInv (computeLm fuel st track m v u).1 ∧ StatsInv (computeLm fuel st track m v u).1 :=
  ⟨hL.of_quiet (computeLm_quiet track fuel st m v u), hS.of_quiet (computeLm_quiet track fuel st m v u)⟩

theorem findMinLM_ls (st : St) (b : Nat) (hL : ListInv st) (hS : StatsInv st) :
    ListInv (findMinLM st b).1 ∧ StatsInv (findMinLM st b).1 :=
  ⟨hL.of_quiet (findMinLM_quiet st b), hS.of_quiet (findMinLM_quiet st b)⟩

theorem mostViolated_ls (st : St) (hL : ListInv st) (hS : StatsInv st) :
    ListInv (mostViolated st).1 ∧ StatsInv (mostViolated st).1 :=
  ⟨hL.of_quiet (mostViolated_quiet st), hS.of_quiet (mostViolated_quiet st)⟩

theorem setC_ls (st : St) (ci : Nat) (c : C) (hL : ListInv st) (hS : StatsInv st) :
    ListInv (setC st ci c) ∧ StatsInv (setC st ci c) :=
  ⟨hL.of_quiet (quiet_setC st ci c), hS.of_quiet (quiet_setC st ci c)⟩

theorem setInactive_ls (st : St) (l : Array Nat) (hL : ListInv st) (hS : StatsInv st) :
    ListInv { st with inactive := l } ∧ StatsInv { st with inactive := l } :=
  ⟨hL.of_quiet (quiet_setInactive st l), hS.of_quiet (quiet_setInactive st l)⟩

theorem updateWeightedPosition_ls (st : St) (b : Nat) (hL : ListInv st) (hS : StatsInv st) :
    ListInv (updateWeightedPosition st b) ∧ StatsInv (updateWeightedPosition st b) :=
  ⟨hL.of_indEq (updateWeightedPosition_indEq st b), updateWeightedPosition_statsInv st b hS⟩

theorem mergeBlocks_ls (st : St) (ci : Nat) (hinv : Inv st) (hnd : VarsNodup st) (hci : ci < st.cs.size)
    (ha : (getC st ci).active = false)
    (hb : (getV st (getC st ci).l).block ≠ (getV st (getC st ci).r).block)
    (hL : ListInv st) (hS : StatsInv st) : ListInv (mergeBlocks st ci) ∧ StatsInv (mergeBlocks st ci) :=
  mergeBlocks_list_stats st ci hinv hnd hci ha hb hL hS

/-- `Block.split(ci)`, `Blocks.insert` of the two new blocks, `Blocks.remove` of the block that was split -/
theorem splitReplace_ls (st : St) (ci : Nat) (hinv : Inv st) (hadj : AdjNodup st) (hci : ci < st.cs.size)
    (ha : (getC st ci).active = true) (herr : (blockSplit st ci).1.err = false) (hL : ListInv st) (hS : StatsInv st) :
    ListInv (removeBlock (insertBlock (insertBlock (blockSplit st ci).1 (blockSplit st ci).2.1) (blockSplit st ci).2.2)
      (getV st (getC st ci).l).block) ∧
    StatsInv (removeBlock (insertBlock (insertBlock (blockSplit st ci).1 (blockSplit st ci).2.1) (blockSplit st ci).2.2)
      (getV st (getC st ci).l).block) :=
  ⟨split_listInv st ci hinv hci ha herr hL, split_statsInv st ci hinv hadj hci ha herr hS _⟩

/-! ## `mostViolated` (the helpers of `VpscLoops.lean` are private there) -/

theorem mv_err (st : St) : (mostViolated st).1.err = st.err := (mostViolated_spec st).2.2.2.2.1

theorem mv_sameG (st : St) (hwf : WF st) : SameG st (mostViolated st).1 := by
  obtain ⟨h1, h2, h3, _, _, h6, _⟩ := mostViolated_spec st
  refine ⟨h1, h3, by rw [h2], fun i => ?_, fun c hc => hwf.inactive_lt c (h6 c hc)⟩
  simp [getC, h2]

theorem mv_slack (st : St) (c : Nat) : slack (mostViolated st).1 c = slack st c := by
  obtain ⟨h1, h2, h3, _⟩ := mostViolated_spec st
  unfold slack position getV getC getB
  rw [h1, h2, h3]

theorem mv_getC (st : St) (c : Nat) : getC (mostViolated st).1 c = getC st c := by
  obtain ⟨_, h2, _⟩ := mostViolated_spec st
  simp [getC, h2]

theorem mv_frame (st : St) (hwf : WF st) : Frame st (mostViolated st).1 :=
  (mv_sameG st hwf).frame (fun h => by rw [mv_err]; exact h)

/-- the state `satisfyLoop` hands to an iteration -/
theorem mv_pre (st0 : St) (hinv : Inv st0) (hnd : VarsNodup st0) (hadj : AdjNodup st0) (hcov : Covered st0 none) (v : Nat)
    (hmv : (mostViolated st0).2 = some v)
    (hc : (slack (mostViolated st0).1 v < Gen.zeroUpperBound && !(getC (mostViolated st0).1 v).active) = true) :
    Inv (mostViolated st0).1 ∧ VarsNodup (mostViolated st0).1 ∧ AdjNodup (mostViolated st0).1 ∧
    Covered (mostViolated st0).1 (some v) ∧ v < (mostViolated st0).1.cs.size ∧
    (getC (mostViolated st0).1 v).active = false := by
  obtain ⟨_, _, _, _, _, _, h7⟩ := mostViolated_spec st0
  have hG := mv_sameG st0 hinv.wf
  rw [hmv] at h7
  have hc' : slack st0 v < Gen.zeroUpperBound ∧ (getC st0 v).active = false := by
    simpa [mv_slack, mv_getC] using hc
  obtain ⟨hv, hvu, hmin, hif⟩ := h7
  rw [if_pos hc'] at hif
  have hvlt := hinv.wf.inactive_lt v hv
  refine ⟨hinv.of_sameG hG, hnd.of_sameG hG, hadj.of_frame (mv_frame st0 hinv.wf), ?_, by rw [hG.csize]; exact hvlt,
    by rw [mv_getC]; exact hc'.2⟩
  intro ci hci hne
  rw [hG.csize] at hci
  rcases hcov ci hci (by simp) with h | h | h
  · left; rw [mv_getC]; exact h
  · right; left; rw [mv_getC]; exact h
  · right; right; exact hif ci h (by simpa using hne)

/-! ## One iteration of the `satisfy` loop -/

theorem splitTail_ls (st2 : St) (v : Nat) (hinv : Inv st2) (hnd : VarsNodup st2)
    (hv : v < st2.cs.size) (ha : (getC st2 v).active = false)
    (hb : (getV st2 (getC st2 v).l).block ≠ (getV st2 (getC st2 v).r).block) (hL : ListInv st2) (hS : StatsInv st2) :
    ListInv (if slack st2 v ≥ 0 then { st2 with inactive := st2.inactive.push v } else mergeBlocks st2 v) ∧
    StatsInv (if slack st2 v ≥ 0 then { st2 with inactive := st2.inactive.push v } else mergeBlocks st2 v) := by
  split
  · exact ⟨hL.of_quiet (quiet_setInactive _ _), hS.of_quiet (quiet_setInactive _ _)⟩
  · exact mergeBlocks_list_stats st2 v hinv hnd hv ha hb hL hS

theorem splitBranch_ls (st1 : St) (v sc lb : Nat) (hinv : Inv st1) (hnd : VarsNodup st1) (hadj : AdjNodup st1)
    (hv : v < st1.cs.size) (ha : (getC st1 v).active = false)
    (hsc : sc < st1.cs.size) (hsa : (getC st1 sc).active = true)
    (hsep : ¬ Conn st1 (some sc) (getC st1 v).l (getC st1 v).r)
    (herr : (splitBranch st1 v sc lb).err = false) (hlb : lb = (getV st1 (getC st1 sc).l).block)
    (hL : ListInv st1) (hS : StatsInv st1) :
    ListInv (splitBranch st1 v sc lb) ∧ StatsInv (splitBranch st1 v sc lb) := by
  have hce : CoreEq (blockSplit st1 sc).1
      (removeBlock (insertBlock (insertBlock (blockSplit st1 sc).1 (blockSplit st1 sc).2.1) (blockSplit st1 sc).2.2) lb) :=
    ((insertBlock_coreEq _ _).trans (insertBlock_coreEq _ _)).trans (removeBlock_coreEq _ _)
  have herr1 : (blockSplit st1 sc).1.err = false := by
    cases h : (blockSplit st1 sc).1.err with
    | false => rfl
    | true => rw [splitBranch_errmono' st1 v sc lb h] at herr; cases herr
  have hvsc : v ≠ sc := by
    intro h; rw [h, hsa] at ha; cases ha
  obtain ⟨s1, s2, s3, s4, s5, s6, s7⟩ := blockSplit_inv st1 sc hinv hsc hsa herr1
  have snd := blockSplit_varsNodup st1 sc hinv hnd hadj hsc hsa herr1
  have hL2 := split_listInv st1 sc hinv hsc hsa herr1 hL
  have hS2 := split_statsInv st1 sc hinv hadj hsc hsa herr1 hS lb
  rw [← hlb] at hL2
  unfold splitBranch
  dsimp only
  generalize removeBlock (insertBlock (insertBlock (blockSplit st1 sc).1 (blockSplit st1 sc).2.1)
    (blockSplit st1 sc).2.2) lb = sb at hce hL2 hS2 ⊢
  generalize (blockSplit st1 sc).1 = sp at *
  have ib : Inv sb := s1.of_coreEq hce
  have nb : VarsNodup sb := snd.of_coreEq hce
  have fb : Frame st1 sb := s2.trans hce.toFrame
  have hcs : sb.cs.size = st1.cs.size := fb.csize
  have g2 := SameG.push sb ib.wf sc (by rw [hcs]; exact hsc)
  have hact : ∀ c, c ≠ sc → (getC sb c).active = (getC st1 c).active := fun c hc =>
    ((hce.flags c).1).trans (s5 c hc)
  have hcl : (getC sb v).l = (getC st1 v).l := (fb.cstat v).1
  have hcr : (getC sb v).r = (getC st1 v).r := (fb.cstat v).2.1
  have hV : ∀ i, getV sb i = getV sp i := fun i => by simp [getV, hce.vs_eq]
  have hlr := hinv.wf.lr v hv
  have hb : (getV sb (getC sb v).l).block ≠ (getV sb (getC sb v).r).block := by
    rw [hcl, hcr, hV, hV]
    intro h
    have := (s1.comps _ _ (by rw [s2.vsize]; exact hlr.1) (by rw [s2.vsize]; exact hlr.2)).mp h
    exact hsep ((s7 _ _).mp this)
  exact splitTail_ls { sb with inactive := sb.inactive.push sc } v (ib.of_sameG g2) (nb.of_sameG g2)
    (by rw [← hcs] at hv; exact hv) ((hact v hvsc).trans ha) hb (hL2.of_quiet (quiet_setInactive _ _))
    (hS2.of_quiet (quiet_setInactive _ _))

theorem satStep_ls (st : St) (v : Nat) (hinv : Inv st) (hnd : VarsNodup st) (hadj : AdjNodup st)
    (hv : v < st.cs.size) (ha : (getC st v).active = false) (herr : (satStep st v).1.err = false)
    (hL : ListInv st) (hS : StatsInv st) : ListInv (satStep st v).1 ∧ StatsInv (satStep st v).1 := by
  revert herr
  unfold satStep; dsimp only
  split
  · next hb =>
    intro _
    exact mergeBlocks_list_stats st v hinv hnd hv ha (by simpa using hb) hL hS
  · next hb =>
    have hbeq : (getV st (getC st v).l).block = (getV st (getC st v).r).block := by simpa using hb
    split
    · intro h; cases h
    · intro _; exact ⟨hL.of_quiet (quiet_setC _ _ _), hS.of_quiet (quiet_setC _ _ _)⟩
    · have hce := computeLm_coreEq (travFuel st) st false none (getC st v).l none
      have hq := computeLm_quiet false (travFuel st) st none (getC st v).l none
      generalize (computeLm (travFuel st) st false none (getC st v).l none).1 = st1 at hce hq ⊢
      have i1 : Inv st1 := hinv.of_coreEq hce
      have n1 : VarsNodup st1 := hnd.of_coreEq hce
      have hv1 : v < st1.cs.size := by rw [hce.csize]; exact hv
      have l1 := hL.of_quiet hq
      have s1 := hS.of_quiet hq
      split
      · intro h; cases h
      · intro _; exact ⟨l1.of_quiet (quiet_setC _ _ _), s1.of_quiet (quiet_setC _ _ _)⟩
      · next b sc hfp =>
        intro herr
        have hcl : (getC st1 v).l = (getC st v).l := (hce.cstat v).1
        have hcr : (getC st1 v).r = (getC st v).r := (hce.cstat v).2.1
        obtain ⟨hl0, hr0⟩ := hinv.wf.lr v hv
        obtain ⟨p1, p2, p3⟩ := findPath_sep st1 i1 (getC st v).l (getC st v).r
          (by rw [hce.vsize]; exact hl0) _ b sc hfp
        have hlb : (getV st (getC st v).l).block = (getV st1 (getC st1 sc).l).block := by
          have hV := FrameAux.getV_of_coreEq hce
          have hconn : Conn st1 none (getC st v).l (getC st v).r :=
            (i1.comps _ _ (by rw [hce.vsize]; exact hl0) (by rw [hce.vsize]; exact hr0)).1 (by rw [hV, hV]; exact hbeq)
          rcases conn_cases hconn sc with h | ⟨h, _⟩
          · exact absurd h p3
          · rw [← hV]
            exact (i1.comps _ _ (by rw [hce.vsize]; exact hl0) (i1.wf.lr sc p1).1).2 h
        exact splitBranch_ls st1 v sc _ i1 n1 (hadj.of_frame hce.toFrame) hv1 (((hce.flags v).1).trans ha) p1 p2
          (by rw [hcl, hcr]; exact p3) herr hlb l1 s1

/-! ## The `satisfy` loop -/

theorem satisfyLoop_ls : ∀ (fuel : Nat) (st0 : St), Inv st0 → VarsNodup st0 → AdjNodup st0 → Covered st0 none →
    ListInv st0 → StatsInv st0 →
    (satisfyLoop fuel (mostViolated st0).1 (mostViolated st0).2).err = false →
    ListInv (satisfyLoop fuel (mostViolated st0).1 (mostViolated st0).2) ∧
    StatsInv (satisfyLoop fuel (mostViolated st0).1 (mostViolated st0).2)
  | 0, st0, _, _, _, _, _, _, herr => by rw [satisfyLoop] at herr; cases herr
  | fuel + 1, st0, hinv, hnd, hadj, hcov, hL, hS, herr => by
    have hQ := mostViolated_quiet st0
    cases hmv : (mostViolated st0).2 with
    | none =>
      rw [satisfyLoop]
      exact ⟨hL.of_quiet hQ, hS.of_quiet hQ⟩
    | some v =>
      rw [hmv] at herr
      rw [satisfyLoop_succ] at herr ⊢
      by_cases hc : (slack (mostViolated st0).1 v < Gen.zeroUpperBound && !(getC (mostViolated st0).1 v).active) = true
      · rw [if_pos hc] at herr ⊢
        obtain ⟨is, ns, as, cs, hv, hact⟩ := mv_pre st0 hinv hnd hadj hcov v hmv hc
        by_cases h2 : (satStep (mostViolated st0).1 v).2 = true
        · rw [if_pos h2] at herr ⊢
          have herr2 : (satStep (mostViolated st0).1 v).1.err = false := by
            cases h : (satStep (mostViolated st0).1 v).1.err with
            | false => rfl
            | true =>
              rw [satisfyLoop_errmono _ _ _ (by rw [mv_err]; exact h)] at herr
              cases herr
          obtain ⟨t1, t2, t3, t4⟩ := satStep_spec (mostViolated st0).1 v is ns as cs hv hact herr2
          obtain ⟨l1, s1⟩ := satStep_ls (mostViolated st0).1 v is ns as hv hact herr2 (hL.of_quiet hQ) (hS.of_quiet hQ)
          exact satisfyLoop_ls fuel (satStep (mostViolated st0).1 v).1 t1 t2 (as.of_frame t4) t3 l1 s1 herr
        · rw [if_neg h2] at herr
          rw [satStep_stop _ v (by simpa using h2)] at herr
          cases herr
      · rw [if_neg hc]
        exact ⟨hL.of_quiet hQ, hS.of_quiet hQ⟩

/-! ## `Blocks.split` -/

theorem splitOne_ls (st : St) (ci : Nat) (hinv : Inv st) (hadj : AdjNodup st)
    (hci : ci < st.cs.size) (ha : (getC st ci).active = true) (herr : (splitOne st ci).err = false)
    (hL : ListInv st) (hS : StatsInv st) : ListInv (splitOne st ci) ∧ StatsInv (splitOne st ci) := by
  have herr1 : (blockSplit st ci).1.err = false := by
    cases h : (blockSplit st ci).1.err with
    | false => rfl
    | true => rw [splitOne_errmono' st ci h] at herr; cases herr
  have hL2 := split_listInv st ci hinv hci ha herr1 hL
  have hS2 := split_statsInv st ci hinv hadj hci ha herr1 hS (getV st (getC st ci).l).block
  have e : splitOne st ci =
      { removeBlock (insertBlock (insertBlock (blockSplit st ci).1 (blockSplit st ci).2.1) (blockSplit st ci).2.2)
          (getV st (getC st ci).l).block with
        inactive := (removeBlock (insertBlock (insertBlock (blockSplit st ci).1 (blockSplit st ci).2.1)
          (blockSplit st ci).2.2) (getV st (getC st ci).l).block).inactive.push ci } := rfl
  rw [e]
  exact ⟨hL2.of_quiet (quiet_setInactive _ _), hS2.of_quiet (quiet_setInactive _ _)⟩

theorem splitLoop_ls : ∀ (fuel : Nat) (st : St) (L0 : Array Nat) (al : Bool) (i : Nat), Inv st → VarsNodup st →
    AdjNodup st → Covered st none → ListInv st → StatsInv st → (splitLoop fuel st L0 al i).err = false →
    ListInv (splitLoop fuel st L0 al i) ∧ StatsInv (splitLoop fuel st L0 al i)
  | 0, st, _, _, _, _, _, _, _, _, _, herr => by rw [splitLoop] at herr; cases herr
  | fuel + 1, st, L0, al, i, hinv, hnd, hadj, hcov, hL, hS, herr => by
    revert herr
    rw [splitLoop_succ]
    split
    · next hi =>
      have hce := findMinLM_coreEq st L0[i]
      have hq := findMinLM_quiet st L0[i]
      have hsome := findMinLM_some st hinv.wf L0[i]
      have i1 : Inv (findMinLM st L0[i]).1 := hinv.of_coreEq hce
      have n1 : VarsNodup (findMinLM st L0[i]).1 := hnd.of_coreEq hce
      have c1 : Covered (findMinLM st L0[i]).1 none := hcov.of_coreEq hce
      have a1 : AdjNodup (findMinLM st L0[i]).1 := hadj.of_frame hce.toFrame
      have l1 := hL.of_quiet hq
      have s1 := hS.of_quiet hq
      split
      · intro herr
        exact splitLoop_ls fuel _ L0 al (i + 1) i1 n1 a1 c1 l1 s1 herr
      · next ci hm =>
        obtain ⟨hci, hact⟩ := hsome ci hm
        split
        · intro herr
          have herr2 : (splitOne (findMinLM st L0[i]).1 ci).err = false := by
            cases h : (splitOne (findMinLM st L0[i]).1 ci).err with
            | false => rfl
            | true =>
              rw [splitLoop_errmono fuel _ _ false (i + 1) h] at herr; cases herr
          obtain ⟨p1, p2, p3, p4⟩ := splitOne_spec (findMinLM st L0[i]).1 ci i1 n1 a1 c1 (by rw [hce.csize]; exact hci)
            ((hce.flags ci).1.trans hact) herr2
          obtain ⟨l2, s2⟩ := splitOne_ls (findMinLM st L0[i]).1 ci i1 a1 (by rw [hce.csize]; exact hci)
            ((hce.flags ci).1.trans hact) herr2 l1 s1
          exact splitLoop_ls fuel _ _ false (i + 1) p1 p2 (a1.of_frame p4) p3 l2 s2 herr
        · intro herr
          exact splitLoop_ls fuel _ L0 al (i + 1) i1 n1 a1 c1 l1 s1 herr
    · intro _
      exact ⟨hL, hS⟩

theorem foldl_uwp_ls (l : List Nat) : ∀ st : St, ListInv st → StatsInv st →
    ListInv (l.foldl (fun st b => updateWeightedPosition st b) st) ∧
    StatsInv (l.foldl (fun st b => updateWeightedPosition st b) st) := by
  induction l with
  | nil => intro st hL hS; exact ⟨hL, hS⟩
  | cons a t ih =>
    intro st hL hS
    rw [List.foldl_cons]
    exact ih _ (hL.of_indEq (updateWeightedPosition_indEq st a)) (updateWeightedPosition_statsInv st a hS)

theorem blocksSplit_ls (st : St) (hinv : Inv st) (hnd : VarsNodup st) (hadj : AdjNodup st) (hcov : Covered st none)
    (hL : ListInv st) (hS : StatsInv st) (herr : (blocksSplit st).err = false) :
    ListInv (blocksSplit st) ∧ StatsInv (blocksSplit st) := by
  have hce := blocksSplit_pre_coreEq st
  have hpre : ListInv (st.list.foldl (fun st b => updateWeightedPosition st b) st) ∧
      StatsInv (st.list.foldl (fun st b => updateWeightedPosition st b) st) := by
    rw [← Array.foldl_toList]
    exact foldl_uwp_ls _ st hL hS
  unfold blocksSplit at herr ⊢
  exact splitLoop_ls _ _ _ _ _ (hinv.of_coreEq hce) (hnd.of_coreEq hce) (hadj.of_frame hce.toFrame)
    (hcov.of_coreEq hce) hpre.1 hpre.2 herr

/-! ## `Solver.satisfy` and `Solver.solve` -/

theorem satisfy_ls (fuel : Nat) (st : St) (hinv : Inv st) (hnd : VarsNodup st) (hadj : AdjNodup st)
    (hcov : Covered st none) (hL : ListInv st) (hS : StatsInv st) (herr : (satisfy fuel st).err = false) :
    ListInv (satisfy fuel st) ∧ StatsInv (satisfy fuel st) := by
  have herr1 : (blocksSplit st).err = false := by
    cases h : (blocksSplit st).err with
    | false => rfl
    | true =>
      have : (satisfy fuel st).err = true := by
        unfold satisfy
        apply satisfyLoop_errmono
        rw [mv_err]
        exact h
      rw [this] at herr; cases herr
  obtain ⟨t1, t2, t3, t4⟩ := blocksSplit_inv st hinv hnd hadj hcov herr1
  obtain ⟨l1, s1⟩ := blocksSplit_ls st hinv hnd hadj hcov hL hS herr1
  unfold satisfy at herr ⊢
  exact satisfyLoop_ls fuel (blocksSplit st) t1 t2 (hadj.of_frame t4) t3 l1 s1 herr

theorem solveLoop_ls : ∀ (fuel sfuel : Nat) (st : St) (lc c : Rat), Inv st → VarsNodup st → AdjNodup st →
    Covered st none → ListInv st → StatsInv st → (solveLoop fuel sfuel st lc c).1.err = false →
    ListInv (solveLoop fuel sfuel st lc c).1 ∧ StatsInv (solveLoop fuel sfuel st lc c).1
  | 0, _, st, _, _, _, _, _, _, _, _, herr => by rw [solveLoop] at herr; cases herr
  | fuel + 1, sfuel, st, lc, c, hinv, hnd, hadj, hcov, hL, hS, herr => by
    revert herr
    rw [solveLoop]
    split
    · intro herr
      have herr1 : (satisfy sfuel st).err = false := by
        cases h : (satisfy sfuel st).err with
        | false => rfl
        | true => rw [solveLoop_errmono fuel sfuel _ _ _ h] at herr; cases herr
      obtain ⟨t1, t2, t3, _, t5⟩ := satisfy_spec sfuel st hinv hnd hadj hcov herr1
      obtain ⟨l1, s1⟩ := satisfy_ls sfuel st hinv hnd hadj hcov hL hS herr1
      exact solveLoop_ls fuel sfuel (satisfy sfuel st) c (cost (satisfy sfuel st)) t1 t2 (hadj.of_frame t5) t3 l1 s1 herr
    · intro _
      exact ⟨hL, hS⟩

theorem solve_ls (fuel sfuel : Nat) (st : St) (hinv : Inv st) (hnd : VarsNodup st) (hadj : AdjNodup st)
    (hcov : Covered st none) (hL : ListInv st) (hS : StatsInv st) (herr : (solve fuel sfuel st).1.err = false) :
    ListInv (solve fuel sfuel st).1 ∧ StatsInv (solve fuel sfuel st).1 := by
  unfold solve at herr ⊢
  have herr1 : (satisfy sfuel st).err = false := by
    cases h : (satisfy sfuel st).err with
    | false => rfl
    | true => rw [solveLoop_errmono fuel sfuel _ _ _ h] at herr; cases herr
  obtain ⟨t1, t2, t3, _, t5⟩ := satisfy_spec sfuel st hinv hnd hadj hcov herr1
  obtain ⟨l1, s1⟩ := satisfy_ls sfuel st hinv hnd hadj hcov hL hS herr1
  exact solveLoop_ls fuel sfuel (satisfy sfuel st) maxsize (cost (satisfy sfuel st)) t1 t2 (hadj.of_frame t5) t3 l1 s1 herr

/-! ## The bundle -/

/-- everything that holds of the solver state between two operations -/
structure Inv2 (st : St) : Prop where
  inv : Inv st
  nd : VarsNodup st
  adj : AdjNodup st
  list : ListInv st
  stats : StatsInv st

theorem init_inv2 (vars : List (Rat × Rat × Rat)) (cons : List (Nat × Nat × Rat))
    (hidx : ∀ c ∈ cons, c.1 < vars.length ∧ c.2.1 < vars.length) (hs : ∀ v ∈ vars, v.2.2 ≠ 0) :
    Inv2 (init vars cons) ∧ Covered (init vars cons) none :=
  ⟨⟨(init_inv vars cons hidx hs).1, init_varsNodup vars cons hidx, init_adjNodup vars cons hidx,
    init_listInv vars cons hidx hs, init_statsInv vars cons hidx hs⟩, (init_inv vars cons hidx hs).2.1⟩

/-- `solve` ends (when no fuel ran out) in a state that satisfies every invariant and is feasible -/
theorem solve_spec2 (fuel sfuel : Nat) (st : St) (hinv : Inv st) (hnd : VarsNodup st) (hadj : AdjNodup st)
    (hcov : Covered st none) (hL : ListInv st) (hS : StatsInv st) (herr : (solve fuel sfuel st).1.err = false) :
    Inv (solve fuel sfuel st).1 ∧ VarsNodup (solve fuel sfuel st).1 ∧ AdjNodup (solve fuel sfuel st).1 ∧
    ListInv (solve fuel sfuel st).1 ∧ StatsInv (solve fuel sfuel st).1 ∧ Feasible (solve fuel sfuel st).1 := by
  obtain ⟨u1, u2, _, u4, u5, _⟩ := solve_spec fuel sfuel st hinv hnd hadj hcov herr
  obtain ⟨l1, s1⟩ := solve_ls fuel sfuel st hinv hnd hadj hcov hL hS herr
  exact ⟨u1, u2, hadj.of_frame u5, l1, s1, u4⟩

/-- the same with the bundle, plus the frame (problem data unchanged) and the returned number -/
theorem solve_spec2' (fuel sfuel : Nat) (st : St) (h : Inv2 st) (hcov : Covered st none)
    (herr : (solve fuel sfuel st).1.err = false) :
    Inv2 (solve fuel sfuel st).1 ∧ Covered (solve fuel sfuel st).1 none ∧ Feasible (solve fuel sfuel st).1 ∧
    Frame st (solve fuel sfuel st).1 ∧ (solve fuel sfuel st).2 = cost (solve fuel sfuel st).1 := by
  obtain ⟨u1, u2, u3, u4, u5, u6⟩ := solve_spec fuel sfuel st h.inv h.nd h.adj hcov herr
  obtain ⟨l1, s1⟩ := solve_ls fuel sfuel st h.inv h.nd h.adj hcov h.list h.stats herr
  exact ⟨⟨u1, u2, h.adj.of_frame u5, l1, s1⟩, u3, u4, u5, u6⟩

end Labella.Vpsc
