import Labella.Model.Num
import Mathlib.Algebra.Order.Field.Rat
import Mathlib.Tactic.Ring
import Mathlib.Tactic.Linarith
import Mathlib.Tactic.NormNum
/-! `roundHalfEven` is within 1/2 of its argument -/
namespace Labella

theorem round_close' (x : ℚ) : |((roundHalfEven x : Int) : ℚ) - x| ≤ 1 / 2 := by
  have h1 : (x.floor : ℚ) ≤ x := Rat.floor_le x
  have h2 : x < ((x.floor + 1 : Int) : ℚ) := Rat.lt_floor_add_one x
  push_cast at h2
  rw [abs_le]
  unfold roundHalfEven
  simp only
  split_ifs with ha hb hc <;> push_cast <;> constructor <;> linarith

/-- rounding two numbers loses at most 1 of their difference -/
theorem round_diff (x y : ℚ) :
    y - x - 1 ≤ ((roundHalfEven y : Int) : ℚ) - ((roundHalfEven x : Int) : ℚ) := by
  have hx := abs_le.mp (round_close' x)
  have hy := abs_le.mp (round_close' y)
  linarith [hx.1, hx.2, hy.1, hy.2]

end Labella
