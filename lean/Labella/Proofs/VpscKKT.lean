import Labella.Proofs.VpscKKTBlock
import Labella.Proofs.QPLemmas
import Mathlib.Algebra.Order.BigOperators.Group.List
/-! # Optimality half of C05 for the transliterated general solver (`Model/Vpsc.lean`)

In a state that satisfies the solver's invariants (`Inv`, `VarsNodup`, `AdjNodup`, `ListInv`, `StatsInv`; positive weights),
the multipliers `Vpsc.multipliers st` (recomputed by `findMinLM` on every block; 0 on constraints that are not active) and the
positions `Vpsc.positions st` satisfy the KKT stationarity condition of the problem `instOf st`:

* `multipliers_stationary` : `QP.dualPoint (instOf st) (multipliers st) = positions st`;
* `vpsc_kkt_bound` : `cost x ≤ cost z − Σ_c lam_c · slack_c(z)` for EVERY `z`;
* `vpsc_optimal_of_nonneg_multipliers` : if no multiplier is negative, `x` is optimal among the exactly feasible `z`;
* `vpsc_near_optimal_of_tolerance` : if every multiplier is `≥ LAGRANGIAN_TOLERANCE` (the solver's own exit condition: `Blocks.split`
  splits nothing), `cost x ≤ cost z + (−LAGRANGIAN_TOLERANCE) · Σ_{c : lam_c < 0} slack_c(z)` for every feasible `z`.

The tree lemma about `computeLm` is `KKT.computeLm_post` (`Proofs/VpscKKTTree.lean`), per-block and all-block stationarity are
`KKT.findMinLM_block`, `KKT.multipliers_fold` (`Proofs/VpscKKTBlock.lean`). -/
namespace Labella.Vpsc
open KKT

/-- the optimisation problem of a solver state -/
def instOf (st : St) : QP.Inst :=
  { vars := (List.range st.vs.size).map (fun i => ⟨(getV st i).d, (getV st i).w, (getV st i).s⟩)
    cons := (List.range st.cs.size).map (fun c => ⟨(getC st c).l, (getC st c).r, (getC st c).g⟩) }

/-- the state in which `multipliers` reads the multipliers -/
def lmState (st : St) : St := st.list.foldl (fun st b => (findMinLM st b).1) st

theorem multipliers_eq (st : St) : multipliers st =
    (List.range (lmState st).cs.size).map
      (fun i => if (getC (lmState st) i).active then (getC (lmState st) i).lm else 0) := rfl

theorem lmState_spec (st : St) (hinv : Inv st) (hnd : VarsNodup st) (hadj : AdjNodup st) (hlist : ListInv st)
    (hstats : StatsInv st) (hw : ∀ v, v < st.vs.size → 0 < (getV st v).w) (herr : (lmState st).err = false) :
    LmOnly st (lmState st) ∧ ∀ x, x < st.vs.size → netVx st (lmState st) none x = dfdv st x := by
  unfold lmState at herr ⊢
  rw [← Array.foldl_toList] at herr ⊢
  obtain ⟨h1, _, h3⟩ := multipliers_fold hinv hnd hadj hstats hw st.list.toList st (LmOnly.refl st) hlist.nodup
    hlist.inuse herr
  exact ⟨h1, fun x hx => h3 x hx (hlist.covers x hx)⟩

theorem multipliers_lam (st : St) (h : LmOnly st (lmState st)) :
    multipliers st = (List.range st.cs.size).map (lam st (lmState st)) := by
  rw [multipliers_eq, h.core.csize]
  apply List.map_congr_left
  intro c _
  unfold lam
  rw [h.active]

theorem instOf_vars_length (st : St) : (instOf st).vars.length = st.vs.size := by simp [instOf]

theorem scaleOf_instOf (st : St) (i : Nat) (hi : i < st.vs.size) : QP.scaleOf (instOf st) i = (getV st i).s := by
  simp [QP.scaleOf, instOf, hi]

theorem net_instOf (st : St) (f : Nat → Rat) (i : Nat) (hi : i < st.vs.size) :
    QP.net (instOf st) ((List.range st.cs.size).map f) i = ((List.range st.cs.size).map fun c => f c * coef st i c).sum := by
  unfold QP.net
  rw [scaleOf_instOf st i hi]
  simp only [instOf]
  rw [List.zip_map', List.map_map]
  rfl

theorem pos_positions (st : St) (k : Nat) (hk : k < st.vs.size) : QP.pos (positions st) k = position st k := by
  simp [QP.pos, positions, hk]

theorem wellFormed_instOf (st : St) (hwf : WF st) (hw : ∀ v, v < st.vs.size → 0 < (getV st v).w) :
    QP.wellFormedB (instOf st) = true := by
  unfold QP.wellFormedB
  rw [Bool.and_eq_true, List.all_eq_true, List.all_eq_true]
  constructor
  · intro v hv
    simp only [instOf, List.mem_map, List.mem_range] at hv
    obtain ⟨i, hi, rfl⟩ := hv
    simpa using hw i hi
  · intro c hc
    simp only [instOf, List.mem_map, List.mem_range] at hc
    obtain ⟨i, hi, rfl⟩ := hc
    simpa [instOf] using hwf.lr i hi

/-- **Stationarity of the Lagrangian at the solver's positions**: every variable is balanced by the multipliers of the
active constraints, `2·w_i·(x_i − d_i) = Σ_c lam_c·(s_i·[r_c = i] − s_i·[l_c = i])`, i.e. the unconstrained minimiser of
`L(·, lam)` is the vector of positions -/
theorem multipliers_stationary (st : St) (hinv : Inv st) (hnd : VarsNodup st) (hadj : AdjNodup st) (hlist : ListInv st)
    (hstats : StatsInv st) (hw : ∀ v, v < st.vs.size → 0 < (getV st v).w)
    (herr : (st.list.foldl (fun st b => (findMinLM st b).1) st).err = false) :
    QP.dualPoint (instOf st) (multipliers st) = positions st := by
  obtain ⟨hL, hnet⟩ := lmState_spec st hinv hnd hadj hlist hstats hw herr
  apply List.ext_getElem
  · simp [QP.dualPoint, instOf, positions]
  · intro i h1 _
    have hi : i < st.vs.size := by simpa [QP.dualPoint, instOf] using h1
    have hn : QP.net (instOf st) (multipliers st) i = dfdv st i := by
      rw [multipliers_lam st hL, net_instOf st _ i hi, ← hnet i hi]
      unfold netVx
      apply congrArg
      apply List.map_congr_left
      intro c _
      simp
    have hwi := hw i hi
    simp only [QP.dualPoint, positions, List.getElem_map, List.getElem_zipIdx, List.getElem_range, Nat.zero_add, hn]
    simp only [instOf, List.getElem_map, List.getElem_range]
    unfold dfdv
    simp only [Gen.dfdvFactor]
    have : (getV st i).w ≠ 0 := ne_of_gt hwi
    field_simp
    ring

/-- the constraints carrying a nonzero multiplier are tight at the solver's positions (complementary slackness) -/
theorem multipliers_slack_zero (st : St) (hinv : Inv st) (hL : LmOnly st (lmState st)) :
    (((instOf st).cons.zip (multipliers st)).map fun p => p.2 * QP.slack (instOf st) (positions st) p.1).sum = 0 := by
  rw [multipliers_lam st hL]
  simp only [instOf]
  rw [List.zip_map', List.map_map]
  apply List.sum_eq_zero
  intro t ht
  obtain ⟨c, hc, rfl⟩ := List.mem_map.1 ht
  rw [List.mem_range] at hc
  simp only [Function.comp]
  by_cases ha : (getC st c).active = true
  · obtain ⟨h1, h2⟩ := hinv.wf.lr c hc
    have hsl := hinv.wf.scale_ne _ h1
    have hsr := hinv.wf.scale_ne _ h2
    have hb := same_block_of_active hinv hc ha
    have ht := hinv.tight c hc ha
    have hs : QP.slack (instOf st) (positions st) ⟨(getC st c).l, (getC st c).r, (getC st c).g⟩ = 0 := by
      unfold QP.slack
      simp only
      rw [scaleOf_instOf st _ h1, scaleOf_instOf st _ h2, pos_positions st _ h1, pos_positions st _ h2]
      unfold position
      simp only [hb]
      rw [mul_div_cancel₀ _ hsr, mul_div_cancel₀ _ hsl]
      linarith
    exact mul_eq_zero_of_right _ hs
  · rw [lam_inactive (by simpa using ha)]
    exact zero_mul _

/-- **KKT bound**: for EVERY `z` (feasible or not), `cost x ≤ cost z − Σ_c lam_c · slack_c(z)` -/
theorem vpsc_kkt_bound (st : St) (hinv : Inv st) (hnd : VarsNodup st) (hadj : AdjNodup st) (hlist : ListInv st)
    (hstats : StatsInv st) (hw : ∀ v, v < st.vs.size → 0 < (getV st v).w)
    (herr : (st.list.foldl (fun st b => (findMinLM st b).1) st).err = false)
    (z : List Rat) (hz : z.length = st.vs.size) :
    QP.cost (instOf st) (positions st) ≤ QP.cost (instOf st) z -
      (((instOf st).cons.zip (multipliers st)).map fun p => p.2 * QP.slack (instOf st) z p.1).sum := by
  have hstat := multipliers_stationary st hinv hnd hadj hlist hstats hw herr
  obtain ⟨hL, _⟩ := lmState_spec st hinv hnd hadj hlist hstats hw herr
  have hwf := wellFormed_instOf st hinv.wf hw
  have hlag := QP.lagrangian_eq (instOf st) (multipliers st) hwf z (by rw [instOf_vars_length]; exact hz)
  have hdv : QP.dualValue (instOf st) (multipliers st) = QP.cost (instOf st) (positions st) := by
    unfold QP.dualValue
    simp only [hstat]
    rw [multipliers_slack_zero st hinv hL, sub_zero]
  have hS : 0 ≤ ∑ i ∈ Finset.range (instOf st).vars.length,
      QP.vw (instOf st) i * (QP.pos z i - QP.pos (QP.dualPoint (instOf st) (multipliers st)) i) *
        (QP.pos z i - QP.pos (QP.dualPoint (instOf st) (multipliers st)) i) := by
    apply Finset.sum_nonneg
    intro i hi
    rw [mul_assoc]
    exact mul_nonneg (QP.vw_pos hwf (Finset.mem_range.mp hi)).le (mul_self_nonneg _)
  rw [hlag, hdv]
  linarith

/-- if no multiplier is negative the solver's positions are optimal among all exactly feasible placements -/
theorem vpsc_optimal_of_nonneg_multipliers (st : St) (hinv : Inv st) (hnd : VarsNodup st) (hadj : AdjNodup st)
    (hlist : ListInv st) (hstats : StatsInv st) (hw : ∀ v, v < st.vs.size → 0 < (getV st v).w)
    (herr : (st.list.foldl (fun st b => (findMinLM st b).1) st).err = false)
    (hpos : ∀ l ∈ multipliers st, 0 ≤ l)
    (z : List Rat) (hz : z.length = st.vs.size) (hfeas : ∀ c ∈ (instOf st).cons, 0 ≤ QP.slack (instOf st) z c) :
    QP.cost (instOf st) (positions st) ≤ QP.cost (instOf st) z := by
  have h1 := vpsc_kkt_bound st hinv hnd hadj hlist hstats hw herr z hz
  have h2 := QP.mult_slack_nonneg (instOf st) (multipliers st) z hpos hfeas
  linarith

/-- the solver's own exit condition (`Blocks.split` splits nothing: every multiplier is `≥ LAGRANGIAN_TOLERANCE`, a tiny
negative number): the solver's positions are optimal up to `−LAGRANGIAN_TOLERANCE` times the total slack `z` leaves on the
constraints whose multiplier is negative -/
theorem vpsc_near_optimal_of_tolerance (st : St) (hinv : Inv st) (hnd : VarsNodup st) (hadj : AdjNodup st)
    (hlist : ListInv st) (hstats : StatsInv st) (hw : ∀ v, v < st.vs.size → 0 < (getV st v).w)
    (herr : (st.list.foldl (fun st b => (findMinLM st b).1) st).err = false)
    (htol : ∀ l ∈ multipliers st, Gen.lagrangianTolerance ≤ l)
    (z : List Rat) (hz : z.length = st.vs.size) (hfeas : ∀ c ∈ (instOf st).cons, 0 ≤ QP.slack (instOf st) z c) :
    QP.cost (instOf st) (positions st) ≤ QP.cost (instOf st) z + (-Gen.lagrangianTolerance) *
      (((instOf st).cons.zip (multipliers st)).map fun p => if p.2 < 0 then QP.slack (instOf st) z p.1 else 0).sum := by
  have h1 := vpsc_kkt_bound st hinv hnd hadj hlist hstats hw herr z hz
  have h2 : - (((instOf st).cons.zip (multipliers st)).map fun p => p.2 * QP.slack (instOf st) z p.1).sum ≤
      (-Gen.lagrangianTolerance) *
        (((instOf st).cons.zip (multipliers st)).map fun p => if p.2 < 0 then QP.slack (instOf st) z p.1 else 0).sum := by
    rw [← sum_map_neg', ← List.sum_map_mul_left]
    apply List.sum_le_sum
    intro p hp
    obtain ⟨hp1, hp2⟩ := List.of_mem_zip hp
    have hs := hfeas p.1 hp1
    have ht := htol p.2 hp2
    by_cases hneg : p.2 < 0
    · rw [if_pos hneg]
      nlinarith
    · rw [if_neg hneg, mul_zero]
      have : 0 ≤ p.2 := not_lt.mp hneg
      nlinarith
  linarith

/-- sanity check of the statements on a solved instance (4 variables with scales 1, 2, 1, 3; 4 constraints, one redundant, one
slack): no traversal runs out of fuel, the recomputed multipliers are `[28/9, 8/3, 0, 0]` and the stationary point of the
Lagrangian is the vector of positions -/
example :
    let st := (solve 10 10 (init [(0, 1, 1), (0, 2, 2), (1, 3, 1), (5, 1, 3)] [(0, 1, 2), (1, 2, 1), (0, 2, 1), (2, 3, 1)])).1
    (st.list.foldl (fun st b => (findMinLM st b).1) st).err = false ∧ multipliers st = [28 / 9, 8 / 3, 0, 0] ∧
    positions st = [-14 / 9, 2 / 9, 13 / 9, 5] ∧ QP.dualPoint (instOf st) (multipliers st) = positions st := by
  decide +kernel

end Labella.Vpsc
