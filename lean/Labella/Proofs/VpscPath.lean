import Labella.Proofs.VpscFuel
/-! # The `satisfy` loop on path graphs only merges, hence ends after at most `cs.size ≤ vs.size` iterations

A *path state* (`IsPathSt`): every constraint joins two consecutive variables `i`, `i + 1`, and no two constraints join the same pair.

* `IsPathSt.not_conn`: an inactive constraint of a path state has its two ends in different components of the active graph (a walk from
  a variable `≤ l` to a variable `≥ l + 1` has to use a constraint that joins `l` and `l + 1`, and there is only one);
* hence an iteration of the `while` loop of `Solver.satisfy` takes the MERGE branch (`satStep_path_eq`), which makes exactly one more
  constraint active (`nact_merge`); `mostViolated` changes no constraint;
* the number of active constraints is at most `cs.size`, and `cs.size ≤ vs.size` on a path (`IsPathSt.csize_le`), so the test of the loop
  fails at some iteration `k ≤ cs.size` (`path_satCond_stops`), and `satisfy` with more loop fuel than there are variables raises no `err`
  (`path_satisfy_noerr`);
* `solve_err_cases_frame`: `solve_err_only_from_loops` with the extra information that the state the failing pass was entered in has the
  same problem data (`Frame`) as the initial one. -/
namespace Labella.Vpsc

/-- every constraint joins two consecutive variables `i`, `i + 1`, and no two constraints join the same pair -/
def IsPathSt (st : St) : Prop :=
  (∀ c, c < st.cs.size → (getC st c).r = (getC st c).l + 1 ∧ (getC st c).r < st.vs.size) ∧
  ∀ c c', c < st.cs.size → c' < st.cs.size → (getC st c).l = (getC st c').l → c = c'

theorem IsPathSt.of_frame {st st' : St} (h : Frame st st') (hp : IsPathSt st) : IsPathSt st' := by
  obtain ⟨h1, h2⟩ := hp
  refine ⟨fun c hc => ?_, fun c c' hc hc' e => ?_⟩
  · rw [h.csize] at hc
    rw [(h.cstat c).1, (h.cstat c).2.1, h.vsize]
    exact h1 c hc
  · rw [h.csize] at hc hc'
    rw [(h.cstat c).1, (h.cstat c').1] at e
    exact h2 c c' hc hc' e

/-- a path on `n` variables has at most `n` (indeed fewer than `n`) constraints -/
theorem IsPathSt.csize_le {st : St} (hp : IsPathSt st) : st.cs.size ≤ st.vs.size := by
  have hnd : ((List.range st.cs.size).map (fun c => (getC st c).l)).Nodup := by
    refine List.Nodup.map_on ?_ List.nodup_range
    intro x hx y hy e
    exact hp.2 x y (List.mem_range.1 hx) (List.mem_range.1 hy) e
  have hs : ((List.range st.cs.size).map (fun c => (getC st c).l)) ⊆ List.range st.vs.size := by
    intro a ha
    obtain ⟨c, hc, rfl⟩ := List.mem_map.1 ha
    have := hp.1 c (List.mem_range.1 hc)
    exact List.mem_range.2 (by omega)
  have := (List.subperm_of_subset hnd hs).length_le
  simpa using this

/-- an active constraint never crosses the gap between the two ends of an inactive one -/
theorem IsPathSt.adj_side {st : St} (hp : IsPathSt st) {v : Nat} (hv : v < st.cs.size)
    (ha : (getC st v).active = false) {a b : Nat} (h : Adj st none a b) :
    (a ≤ (getC st v).l ↔ b ≤ (getC st v).l) := by
  obtain ⟨ci, hci, _, hact, he⟩ := h
  have hr := (hp.1 ci hci).1
  have hne : (getC st ci).l ≠ (getC st v).l := by
    intro e
    have := hp.2 ci v hci hv e
    subst this
    rw [ha] at hact
    cases hact
  rcases he with ⟨rfl, rfl⟩ | ⟨rfl, rfl⟩ <;> omega

/-- on a path, the two ends of an inactive constraint are not connected by active constraints -/
theorem IsPathSt.not_conn {st : St} (hp : IsPathSt st) {v : Nat} (hv : v < st.cs.size)
    (ha : (getC st v).active = false) : ¬ Conn st none (getC st v).l (getC st v).r := by
  intro hc
  have key : ∀ a b, Conn st none a b → (a ≤ (getC st v).l ↔ b ≤ (getC st v).l) := by
    intro a b hab
    unfold Conn at hab
    induction hab with
    | refl => exact Iff.rfl
    | tail _ hbc ih => exact ih.trans (hp.adj_side hv ha hbc)
  have := key _ _ hc
  have hr := (hp.1 v hv).1
  omega

/-- … hence they lie in different blocks -/
theorem path_block_ne (st : St) (v : Nat) (hinv : Inv st) (hp : IsPathSt st) (hv : v < st.cs.size)
    (ha : (getC st v).active = false) : (getV st (getC st v).l).block ≠ (getV st (getC st v).r).block := by
  obtain ⟨hl, hr⟩ := hinv.wf.lr v hv
  intro e
  exact hp.not_conn hv ha ((hinv.comps _ _ hl hr).1 e)

/-- on a path an iteration of the `satisfy` loop is a merge -/
theorem satStep_path_eq (st : St) (v : Nat) (hinv : Inv st) (hp : IsPathSt st) (hv : v < st.cs.size)
    (ha : (getC st v).active = false) : (satStep st v).1 = mergeBlocks st v := by
  have hb := path_block_ne st v hinv hp hv ha
  unfold satStep
  dsimp only
  rw [if_pos (bne_iff_ne.2 hb)]

/-! ## the number of active constraints -/

def nact (st : St) : Nat := (List.range st.cs.size).countP (fun c => (getC st c).active)

theorem nact_le (st : St) : nact st ≤ st.cs.size := by
  have := List.countP_le_length (p := fun c => (getC st c).active) (l := List.range st.cs.size)
  simpa [nact] using this

theorem countP_range_flip (v : Nat) (p q : Nat → Bool) (hp : p v = false) (hq : q v = true)
    (h : ∀ c, c ≠ v → q c = p c) : ∀ n, v < n → (List.range n).countP q = (List.range n).countP p + 1 := by
  intro n
  induction n with
  | zero => intro hv; omega
  | succ n ih =>
    intro hv
    rw [List.range_succ, List.countP_append, List.countP_append, List.countP_singleton, List.countP_singleton]
    by_cases hvn : v = n
    · subst hvn
      have e : (List.range v).countP q = (List.range v).countP p := by
        apply List.countP_congr
        intro c hc
        have : c ≠ v := Nat.ne_of_lt (List.mem_range.1 hc)
        rw [h c this]
      rw [e, hp, hq]
      simp
    · have hlt : v < n := by omega
      rw [ih hlt, h n (fun e => hvn e.symm)]
      omega

theorem nact_merge (st : St) (v : Nat) (hinv : Inv st) (hnd : VarsNodup st) (hv : v < st.cs.size)
    (ha : (getC st v).active = false) (hb : (getV st (getC st v).l).block ≠ (getV st (getC st v).r).block) :
    nact (mergeBlocks st v) = nact st + 1 := by
  obtain ⟨_, hF, _, h4, h5, _⟩ := mergeBlocks_inv st v hinv hnd hv ha hb
  unfold nact
  rw [hF.csize]
  exact countP_range_flip v _ _ ha h4 h5 st.cs.size hv

theorem nact_mv (st : St) : nact (mostViolated st).1 = nact st := by
  unfold nact
  simp only [mv_getC]
  rw [(mostViolated_spec st).2.1]

/-! ## the loop -/

/-- what the `while` loop of `satisfy` is entered with at each iteration, on a path -/
def PGood (p : St × Option Nat) : Prop :=
  ∃ st0, p = mostViolated st0 ∧ Inv st0 ∧ VarsNodup st0 ∧ AdjNodup st0 ∧ Covered st0 none ∧ IsPathSt st0 ∧ st0.err = false

theorem PGood.step {p : St × Option Nat} (hg : PGood p) (hc : satCond p = true) :
    PGood (satNext p) ∧ nact (satNext p).1 = nact p.1 + 1 ∧ (satNext p).1.cs.size = p.1.cs.size := by
  obtain ⟨st0, rfl, hinv, hnd, hadj, hcov, hp, herr⟩ := hg
  unfold satCond at hc
  cases hmv : (mostViolated st0).2 with
  | none => rw [hmv] at hc; cases hc
  | some v =>
    rw [hmv] at hc
    simp only at hc
    obtain ⟨is, ns, as, cs, hv, hact⟩ := mv_pre st0 hinv hnd hadj hcov v hmv hc
    have herr0 : (mostViolated st0).1.err = false := by rw [mv_err]; exact herr
    have hp0 : IsPathSt (mostViolated st0).1 := hp.of_frame (mv_frame st0 hinv.wf)
    obtain ⟨_, serr⟩ := satStep_noerr (mostViolated st0).1 v is hv herr0
    obtain ⟨t1, t2, t3, t4⟩ := satStep_spec (mostViolated st0).1 v is ns as cs hv hact serr
    have hnext : satNext (mostViolated st0) = mostViolated (satStep (mostViolated st0).1 v).1 := by
      simp only [satNext, hmv]
    rw [hnext]
    refine ⟨⟨_, rfl, t1, t2, as.of_frame t4, t3, hp0.of_frame t4, serr⟩, ?_, ?_⟩
    · rw [nact_mv, satStep_path_eq _ v is hp0 hv hact]
      exact nact_merge _ v is ns hv hact (path_block_ne _ v is hp0 hv hact)
    · rw [(mv_frame _ t1.wf).csize, t4.csize]

theorem PGood.iter : ∀ (k : Nat) (p : St × Option Nat), PGood p → (∀ j, j < k → satCond (satIter j p) = true) →
    PGood (satIter k p) ∧ nact (satIter k p).1 = nact p.1 + k ∧ (satIter k p).1.cs.size = p.1.cs.size
  | 0, p, hg, _ => ⟨hg, rfl, rfl⟩
  | k + 1, p, hg, h => by
    have h0 : satCond p = true := h 0 (Nat.succ_pos k)
    obtain ⟨g1, n1, s1⟩ := hg.step h0
    obtain ⟨g2, n2, s2⟩ := PGood.iter k (satNext p) g1 (fun j hj => h (j + 1) (Nat.succ_lt_succ hj))
    rw [satIter]
    exact ⟨g2, by rw [n2, n1]; omega, s2.trans s1⟩

theorem PGood.start (st : St) (h : Inv2 st) (hcov : Covered st none) (herr : st.err = false) (hp : IsPathSt st) :
    PGood (satStart st) ∧ (satStart st).1.cs.size = st.cs.size := by
  have e1 := blocksSplit_noerr st h.inv h.nd h.adj hcov h.list herr
  obtain ⟨t1, t2, t3, t4⟩ := blocksSplit_inv st h.inv h.nd h.adj hcov e1
  refine ⟨⟨blocksSplit st, rfl, t1, t2, h.adj.of_frame t4, t3, hp.of_frame t4, e1⟩, ?_⟩
  unfold satStart
  rw [(mv_frame _ t1.wf).csize, t4.csize]

/-- on a path the test of the `while` loop of `satisfy` fails at one of the first `cs.size + 1` iterations -/
theorem path_satCond_stops (st : St) (h : Inv2 st) (hcov : Covered st none) (herr : st.err = false) (hp : IsPathSt st) :
    ∃ k, k ≤ st.cs.size ∧ satCond (satIter k (satStart st)) = false := by
  by_contra hno
  have hall : ∀ j, j < st.cs.size + 1 → satCond (satIter j (satStart st)) = true := by
    intro j hj
    cases hc : satCond (satIter j (satStart st)) with
    | true => rfl
    | false => exact absurd ⟨j, by omega, hc⟩ hno
  obtain ⟨g0, s0⟩ := PGood.start st h hcov herr hp
  obtain ⟨_, n, s⟩ := PGood.iter (st.cs.size + 1) (satStart st) g0 hall
  have hle := nact_le (satIter (st.cs.size + 1) (satStart st)).1
  omega

/-- **on a path, a `satisfy` pass with more loop fuel than there are variables finishes** -/
theorem path_satisfy_noerr (st : St) (h : Inv2 st) (hcov : Covered st none) (herr : st.err = false)
    (hp : IsPathSt st) (sfuel : Nat) (hf : st.vs.size < sfuel) : (satisfy sfuel st).err = false := by
  cases he : (satisfy sfuel st).err with
  | false => rfl
  | true =>
    obtain ⟨k, hk, hstop⟩ := path_satCond_stops st h hcov herr hp
    have := (satisfy_err_iff sfuel st h hcov herr).1 he k (by have := hp.csize_le; omega)
    rw [this] at hstop
    cases hstop

/-! ## `solve`: the state a failing `satisfy` pass was entered in has the problem data of the initial state -/

theorem satisfy_frame (sfuel : Nat) (st : St) (h : Inv2 st) (hcov : Covered st none)
    (herr : (satisfy sfuel st).err = false) : Frame st (satisfy sfuel st) :=
  (satisfy_spec sfuel st h.inv h.nd h.adj hcov herr).2.2.2.2

theorem solveLoop_err_cases_frame (sfuel : Nat) : ∀ (n : Nat) (st : St) (lc c : Rat), Inv2 st → Covered st none →
    st.err = false → (solveLoop n sfuel st lc c).1.err = true →
    (∃ st', Frame st st' ∧ Inv2 st' ∧ Covered st' none ∧ st'.err = false ∧ (satisfy sfuel st').err = true) ∨
    (∀ k, k < n → solveCond (solveIter sfuel k (st, lc, c)) = true)
  | 0, _, _, _, _, _, _, _ => Or.inr (fun k hk => absurd hk (Nat.not_lt_zero k))
  | n + 1, st, lc, c, h, hcov, herr, he => by
    rw [solveLoop] at he
    by_cases hc : ratAbs (lc - c) > Gen.solveCostTolerance
    · rw [if_pos hc] at he
      cases h1 : (satisfy sfuel st).err with
      | true => exact Or.inl ⟨st, Frame.refl st, h, hcov, herr, h1⟩
      | false =>
        obtain ⟨h2, hcov2⟩ := satisfy_inv2 sfuel st h hcov h1
        have hF := satisfy_frame sfuel st h hcov h1
        rcases solveLoop_err_cases_frame sfuel n (satisfy sfuel st) c (cost (satisfy sfuel st)) h2 hcov2 h1 he with
          ⟨st', f, r⟩ | hr
        · exact Or.inl ⟨st', hF.trans f, r⟩
        · refine Or.inr (fun k hk => ?_)
          cases k with
          | zero => simpa [solveIter, solveCond] using hc
          | succ k => exact hr k (Nat.lt_of_succ_lt_succ hk)
    · rw [if_neg hc] at he
      rw [herr] at he
      cases he

/-- `solve_err_only_from_loops` with the frame of the state the failing `satisfy` pass started from -/
theorem solve_err_cases_frame (fuel sfuel : Nat) (st : St) (h : Inv2 st) (hcov : Covered st none) (herr : st.err = false)
    (he : (solve fuel sfuel st).1.err = true) :
    (∃ st', Frame st st' ∧ Inv2 st' ∧ Covered st' none ∧ st'.err = false ∧ (satisfy sfuel st').err = true) ∨
    (∀ k, k < fuel → solveCond (solveIter sfuel k (solveStart sfuel st)) = true) := by
  unfold solve at he
  cases h1 : (satisfy sfuel st).err with
  | true => exact Or.inl ⟨st, Frame.refl st, h, hcov, herr, h1⟩
  | false =>
    obtain ⟨h2, hcov2⟩ := satisfy_inv2 sfuel st h hcov h1
    have hF := satisfy_frame sfuel st h hcov h1
    rcases solveLoop_err_cases_frame sfuel fuel (satisfy sfuel st) maxsize (cost (satisfy sfuel st)) h2 hcov2 h1 he with
      ⟨st', f, r⟩ | hr
    · exact Or.inl ⟨st', hF.trans f, r⟩
    · exact Or.inr hr

/-- on a path, `solve` with enough loop fuel for its `satisfy` passes raises `err` only through its own outer loop -/
theorem path_solve_err_outer (fuel sfuel : Nat) (st : St) (h : Inv2 st) (hcov : Covered st none) (herr : st.err = false)
    (hp : IsPathSt st) (hf : st.vs.size < sfuel) (he : (solve fuel sfuel st).1.err = true) :
    ∀ k, k < fuel → solveCond (solveIter sfuel k (solveStart sfuel st)) = true := by
  rcases solve_err_cases_frame fuel sfuel st h hcov herr he with ⟨st', f, a1, a2, a3, a4⟩ | hr
  · rw [path_satisfy_noerr st' a1 a2 a3 (hp.of_frame f) sfuel (by rw [f.vsize]; exact hf)] at a4
    cases a4
  · exact hr

/-- the initial state of a path instance is a path state -/
theorem init_isPathSt (vars : List (Rat × Rat × Rat)) (cons : List (Nat × Nat × Rat))
    (hidx : ∀ c ∈ cons, c.1 < vars.length ∧ c.2.1 < vars.length) (hs : ∀ v ∈ vars, v.2.2 ≠ 0)
    (hpath : ∀ c ∈ cons, c.2.1 = c.1 + 1) (hnd : (cons.map (·.1)).Nodup) : IsPathSt (init vars cons) := by
  obtain ⟨_, _, _, i4, i5, _, i7⟩ := init_inv vars cons hidx hs
  refine ⟨fun c hc => ?_, fun c c' hc hc' e => ?_⟩
  · rw [i5] at hc
    obtain ⟨a1, a2, _⟩ := i7 c hc
    rw [a1, a2, i4]
    exact ⟨hpath _ (List.getElem_mem hc), (hidx _ (List.getElem_mem hc)).2⟩
  · rw [i5] at hc hc'
    rw [(i7 c hc).1, (i7 c' hc').1] at e
    have hc1 : c < (cons.map (·.1)).length := by simpa using hc
    have hc2 : c' < (cons.map (·.1)).length := by simpa using hc'
    have e' : (cons.map (·.1))[c] = (cons.map (·.1))[c'] := by simpa using e
    exact (List.Nodup.getElem_inj_iff hnd).1 e'

end Labella.Vpsc
