import Labella.Proofs.CalendarLemmas
/-! Lemmas about the time scale's tick generation and `nice` used by the C16 property theorems. -/
namespace Labella.Calendar

-- decidable equality of tick methods (the model only derives `BEq`), for evaluating closed examples
deriving instance DecidableEq for Method

/-! ### millisecond range -/

/-- ceiling of an integer quotient, times the divisor: the least multiple `≥ t0` -/
theorem ceil_div_mul (t0 st : Int) (hst : 0 < st) :
    t0 ≤ ((t0 : Rat) / (st : Rat)).ceil * st ∧ ((t0 : Rat) / (st : Rat)).ceil * st < t0 + st := by
  have hstq : (0 : Rat) < (st : Rat) := by exact_mod_cast hst
  have key : ∀ y : Int, y < ((t0 : Rat) / (st : Rat)).ceil ↔ y * st < t0 := by
    intro y
    rw [Rat.lt_ceil_iff, Rat.lt_div_iff hstq, ← Rat.intCast_mul, Rat.intCast_lt_intCast]
  have h1 := (key ((t0 : Rat) / (st : Rat)).ceil)
  have h2 := (key (((t0 : Rat) / (st : Rat)).ceil - 1)).1 (by omega)
  rw [Int.sub_mul] at h2
  constructor
  · have : ¬ ((t0 : Rat) / (st : Rat)).ceil * st < t0 := fun h => by have := h1.2 h; omega
    omega
  · omega

theorem mem_arith (t0 t1 st c : Int) (hst : 0 < st) (h0 : t0 ≤ c * st) (h1 : c * st < t0 + st) (x : Int) :
    x ∈ (if t1 ≤ c * st then [] else
        (List.range ((t1 - c * st + st - 1) / st).toNat).map (fun (k : Nat) => c * st + (k : Int) * st)) ↔
      (t0 ≤ x ∧ x < t1 ∧ x % st = 0) := by
  have kbound : ∀ k : Int, k < (t1 - c * st + st - 1) / st ↔ c * st + k * st < t1 := by
    intro k
    rw [show k < (t1 - c * st + st - 1) / st ↔ k + 1 ≤ (t1 - c * st + st - 1) / st from Iff.rfl,
      Int.le_ediv_iff_mul_le hst, Int.add_mul, Int.one_mul]
    omega
  constructor
  · intro hx
    split at hx
    · simp at hx
    · rw [List.mem_map] at hx
      obtain ⟨k, hk, rfl⟩ := hx
      rw [List.mem_range] at hk
      have hk' : (k : Int) < (t1 - c * st + st - 1) / st := by omega
      have hnn : 0 ≤ (k : Int) * st := Int.mul_nonneg (by omega) (by omega)
      refine ⟨by omega, (kbound k).1 hk', ?_⟩
      rw [← Int.add_mul]; exact Int.mul_emod_left _ _
  · rintro ⟨hx0, hx1, hm⟩
    obtain ⟨q, rfl⟩ := Int.dvd_of_emod_eq_zero hm
    rw [Int.mul_comm st q] at hx0 hx1 ⊢
    have hcq : c ≤ q := by
      have : (c - 1) * st < q * st := by rw [Int.sub_mul]; omega
      have := Int.lt_of_mul_lt_mul_right this (by omega)
      omega
    have hle : c * st ≤ q * st := Int.mul_le_mul_of_nonneg_right hcq (by omega)
    rw [if_neg (by omega), List.mem_map]
    refine ⟨(q - c).toNat, ?_, ?_⟩
    · rw [List.mem_range]
      have e : ((q - c).toNat : Int) = q - c := by omega
      have : (q - c) < (t1 - c * st + st - 1) / st := by
        rw [kbound, Int.sub_mul]; omega
      omega
    · have e : ((q - c).toNat : Int) = q - c := by omega
      rw [e, Int.sub_mul]; omega

theorem incr_arith (a st : Int) (hst : 0 < st) : ∀ (n : Nat) (j : Nat),
    strictlyIncreasingB ((List.range' j n).map (fun (k : Nat) => a + (k : Int) * st)) = true := by
  intro n
  induction n with
  | zero => intro j; rfl
  | succ n ih =>
    intro j
    rw [List.range'_succ, List.map_cons]
    apply sincr_cons (ih _)
    intro x hx
    rw [List.mem_map] at hx
    obtain ⟨k, hk, rfl⟩ := hx
    rw [List.mem_range'_1] at hk
    have : (j : Int) * st < (k : Int) * st := Int.mul_lt_mul_of_pos_right (by omega) hst
    omega

theorem msStep_pos (step : Rat) : 0 < (if step.floor < 1 then 1 else step.floor : Int) := by
  split <;> omega

theorem msRange_mem' (t0 t1 : Int) (step : Rat) (x : Int) :
    x ∈ msRange t0 t1 step ↔
      (t0 ≤ x ∧ x < t1 ∧ x % (if step.floor < 1 then 1 else step.floor) = 0) := by
  unfold msRange
  simp only
  have hst := msStep_pos step
  generalize (if step.floor < 1 then 1 else step.floor : Int) = st at hst
  obtain ⟨h0, h1⟩ := ceil_div_mul t0 st hst
  exact mem_arith t0 t1 st _ hst h0 h1 x

theorem msRange_increasing' (t0 t1 : Int) (step : Rat) : strictlyIncreasingB (msRange t0 t1 step) = true := by
  unfold msRange
  simp only
  have hst := msStep_pos step
  generalize (if step.floor < 1 then 1 else step.floor : Int) = st at hst
  split
  · rfl
  · rw [List.range_eq_range']
    exact incr_arith _ st hst _ _

/-! ### strictly increasing lists and filters -/

theorem sincr_iff_pairwise (l : List Int) : strictlyIncreasingB l = true ↔ l.Pairwise (· < ·) := by
  induction l with
  | nil => simp [strictlyIncreasingB]
  | cons a r ih =>
    cases r with
    | nil => simp [strictlyIncreasingB]
    | cons b r' =>
      rw [List.pairwise_cons, ← ih]
      simp only [strictlyIncreasingB, Bool.and_eq_true, decide_eq_true_eq]
      constructor
      · rintro ⟨hab, hr⟩
        refine ⟨?_, hr⟩
        intro x hx
        rcases List.mem_cons.1 hx with rfl | hx'
        · exact hab
        · have := (List.pairwise_cons.1 (ih.1 hr)).1 x hx'
          omega
      · rintro ⟨h, hr⟩
        exact ⟨h b List.mem_cons_self, hr⟩

theorem sincr_filter (p : Int → Bool) {l : List Int} (h : strictlyIncreasingB l = true) :
    strictlyIncreasingB (l.filter p) = true :=
  (sincr_iff_pairwise _).2 (((sincr_iff_pairwise _).1 h).filter p)

/-! ### calendar range with a rational skip -/

theorem calRange_increasing (u : TUnit) (t0 t1 : Int) (skip : Rat) :
    strictlyIncreasingB (calRange u t0 t1 skip) = true := by
  obtain ⟨g, idx, G⟩ := grid_exists u
  unfold calRange
  split
  · exact G.range_increasing _ _ _
  · exact sincr_filter _ (G.range_increasing _ _ _)

/-- every element of the calendar range is a boundary in `[t0, t1)` -/
theorem calRange_sub (u : TUnit) (t0 t1 : Int) (skip : Rat) (x : Int) (hx : x ∈ calRange u t0 t1 skip) :
    isBoundary u x = true ∧ t0 ≤ x ∧ x < t1 := by
  obtain ⟨g, idx, G⟩ := grid_exists u
  unfold calRange at hx
  split at hx
  · have := (G.range_mem _ _ _ _).1 hx
    exact ⟨this.1, this.2.1, this.2.2.1⟩
  · have := (G.range_mem _ _ _ _).1 (List.mem_filter.1 hx).1
    exact ⟨this.1, this.2.1, this.2.2.1⟩

theorem calRange_mem_int (u : TUnit) (t0 t1 : Int) (skip : Rat) (hs : skip.den = 1) (x : Int) :
    x ∈ calRange u t0 t1 skip ↔
      (isBoundary u x = true ∧ t0 ≤ x ∧ x < t1 ∧ (skip.num ≤ 1 ∨ numberU u x % skip.num = 0)) := by
  obtain ⟨g, idx, G⟩ := grid_exists u
  unfold calRange
  rw [if_pos hs]
  exact G.range_mem _ _ _ _

/-! ### nice -/

theorem floorU_spec (u : TUnit) (t : Int) : IsFloor u t (floorU u t) := by
  obtain ⟨g, idx, G⟩ := grid_exists u
  exact G.isFloor t

theorem ceilU_spec (u : TUnit) (t : Int) : IsCeil u t (ceilU u t) := by
  obtain ⟨g, idx, G⟩ := grid_exists u
  exact G.isCeil t

theorem mFloor_le' (m : Method) (t : Int) : mFloor m t ≤ t := by
  cases m with
  | ms s => exact Int.le_refl _
  | cal u s => exact (floorU_spec u t).2.1

theorem le_mCeil' (m : Method) (t : Int) : t ≤ mCeil m t := by
  cases m with
  | ms s => exact Int.le_refl _
  | cal u s => exact (ceilU_spec u t).2.1

theorem niceFloor_le' (m : Method) : ∀ (fuel : Nat) (t : Int), niceFloor m fuel t ≤ t := by
  intro fuel
  induction fuel with
  | zero => intro t; exact Int.le_refl _
  | succ f ih =>
    intro t
    unfold niceFloor
    split
    · have h1 := ih (mFloor m (t - 1))
      have h2 := mFloor_le' m (t - 1)
      omega
    · exact Int.le_refl _

theorem le_niceCeil' (m : Method) : ∀ (fuel : Nat) (t : Int), t ≤ niceCeil m fuel t := by
  intro fuel
  induction fuel with
  | zero => intro t; exact Int.le_refl _
  | succ f ih =>
    intro t
    unfold niceCeil
    split
    · have h1 := ih (mCeil m (t + 1))
      have h2 := le_mCeil' m (t + 1)
      omega
    · exact Int.le_refl _

theorem niceFloor_boundary (u : TUnit) (s : Rat) : ∀ (fuel : Nat) (t : Int), isBoundary u t = true →
    isBoundary u (niceFloor (.cal u s) fuel t) = true := by
  intro fuel
  induction fuel with
  | zero => intro t h; exact h
  | succ f ih =>
    intro t h
    unfold niceFloor
    split
    · exact ih _ (floorU_spec u (t - 1)).1
    · exact h

theorem niceCeil_boundary (u : TUnit) (s : Rat) : ∀ (fuel : Nat) (t : Int), isBoundary u t = true →
    isBoundary u (niceCeil (.cal u s) fuel t) = true := by
  intro fuel
  induction fuel with
  | zero => intro t h; exact h
  | succ f ih =>
    intro t h
    unfold niceCeil
    split
    · exact ih _ (ceilU_spec u (t + 1)).1
    · exact h

/-- the un-oriented result of `nice`: both ends moved outward -/
def niceRaw (e0 e1 : Int) (m : Method) : Int × Int :=
  if 1 < mSkip m then
    (niceFloor m ((mSkip m).ceil.toNat + 2) (mFloor m e0), niceCeil m ((mSkip m).ceil.toNat + 2) (mCeil m e1))
  else (mFloor m e0, mCeil m e1)

theorem nice_eq (d0 d1 : Int) (count : Rat) :
    nice d0 d1 count =
      if d1 < d0 then ((niceRaw (min d0 d1) (max d0 d1) (tickMethod (min d0 d1) (max d0 d1) count)).2,
                       (niceRaw (min d0 d1) (max d0 d1) (tickMethod (min d0 d1) (max d0 d1) count)).1)
      else niceRaw (min d0 d1) (max d0 d1) (tickMethod (min d0 d1) (max d0 d1) count) := rfl

theorem niceRaw_widens (e0 e1 : Int) (m : Method) : (niceRaw e0 e1 m).1 ≤ e0 ∧ e1 ≤ (niceRaw e0 e1 m).2 := by
  unfold niceRaw
  split
  · have a := niceFloor_le' m ((mSkip m).ceil.toNat + 2) (mFloor m e0)
    have b := mFloor_le' m e0
    have c := le_niceCeil' m ((mSkip m).ceil.toNat + 2) (mCeil m e1)
    have d := le_mCeil' m e1
    exact ⟨by omega, by omega⟩
  · exact ⟨mFloor_le' m e0, le_mCeil' m e1⟩

theorem niceRaw_boundary (e0 e1 : Int) (u : TUnit) (s : Rat) :
    isBoundary u (niceRaw e0 e1 (.cal u s)).1 = true ∧ isBoundary u (niceRaw e0 e1 (.cal u s)).2 = true := by
  unfold niceRaw
  split
  · exact ⟨niceFloor_boundary u s _ _ (floorU_spec u e0).1, niceCeil_boundary u s _ _ (ceilU_spec u e1).1⟩
  · exact ⟨(floorU_spec u e0).1, (ceilU_spec u e1).1⟩

end Labella.Calendar
