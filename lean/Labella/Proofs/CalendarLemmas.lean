import Labella.Model.CalSpec
/-! Lemmas about the civil-calendar model used by the C17 property theorems. -/
namespace Labella.Calendar

/-! ### years -/

theorem yearLen_bounds (y : Int) : 365 ≤ yearLen y ∧ yearLen y ≤ 366 := by
  unfold yearLen; split <;> omega

theorem daysBeforeYear_succ (y : Int) : daysBeforeYear (y + 1) = daysBeforeYear y + yearLen y := by
  unfold daysBeforeYear yearLen isLeap
  by_cases h4 : y % 4 = 0 <;> by_cases h100 : y % 100 = 0 <;> by_cases h400 : y % 400 = 0 <;>
    simp [h4, h100, h400] <;> omega

/-- 400·dby(y) stays within a fixed band around 146097·(y-1970) -/
theorem dby_band (y : Int) :
    146097 * (y - 1970) - 600 ≤ 400 * daysBeforeYear y ∧ 400 * daysBeforeYear y ≤ 146097 * (y - 1970) + 600 := by
  unfold daysBeforeYear; omega

theorem yearOfDay_spec (n : Int) : daysBeforeYear (yearOfDay n) ≤ n ∧ n < daysBeforeYear (yearOfDay n + 1) := by
  unfold yearOfDay
  simp only
  generalize hy : 1970 + n * 400 / 146097 = y0
  have hb0 := dby_band y0; have hbm := dby_band (y0 - 1); have hbp := dby_band (y0 + 1); have hbpp := dby_band (y0 + 1 + 1)
  have s0 := daysBeforeYear_succ y0; have sm := daysBeforeYear_succ (y0 - 1); have sp := daysBeforeYear_succ (y0 + 1)
  have l0 := yearLen_bounds y0
  have lm := yearLen_bounds (y0 - 1)
  have lp := yearLen_bounds (y0 + 1)
  have e1 : y0 - 1 + 1 = y0 := by omega
  rw [e1] at sm
  split
  · rw [e1]; constructor <;> omega
  · split
    · constructor <;> omega
    · constructor <;> omega

theorem dby_add_le (y : Int) (k : Nat) : daysBeforeYear y + 365 * (k : Int) ≤ daysBeforeYear (y + k) := by
  induction k with
  | zero => simp
  | succ k ih =>
    have s := daysBeforeYear_succ (y + k)
    have l := yearLen_bounds (y + k)
    have e : y + ((k + 1 : Nat) : Int) = y + k + 1 := by omega
    rw [e]; omega

theorem dby_succ_le_of_lt {y y' : Int} (h : y < y') : daysBeforeYear (y + 1) ≤ daysBeforeYear y' := by
  have := dby_add_le (y + 1) (y' - (y + 1)).toNat
  have e : y + 1 + ((y' - (y + 1)).toNat : Int) = y' := by omega
  rw [e] at this; omega

theorem dby_lt_of_lt {y y' : Int} (h : y < y') : daysBeforeYear y < daysBeforeYear y' := by
  have := dby_succ_le_of_lt h
  have s := daysBeforeYear_succ y
  have l := yearLen_bounds y
  omega

theorem dby_le_of_le {y y' : Int} (h : y ≤ y') : daysBeforeYear y ≤ daysBeforeYear y' := by
  by_cases e : y = y'
  · subst e; omega
  · have := dby_lt_of_lt (show y < y' by omega); omega

/-- the year is determined by the day range containing `n` -/
theorem year_unique {n y y' : Int} (h1 : daysBeforeYear y ≤ n) (h2 : n < daysBeforeYear (y + 1))
    (h1' : daysBeforeYear y' ≤ n) (h2' : n < daysBeforeYear (y' + 1)) : y = y' := by
  by_cases a : y < y'
  · have := dby_succ_le_of_lt a; omega
  · by_cases b : y' < y
    · have := dby_succ_le_of_lt b; omega
    · omega

theorem yearOfDay_eq {n y : Int} (h1 : daysBeforeYear y ≤ n) (h2 : n < daysBeforeYear (y + 1)) :
    yearOfDay n = y :=
  year_unique (yearOfDay_spec n).1 (yearOfDay_spec n).2 h1 h2

/-! ### months -/

theorem monthLen_bounds (y : Int) (m : Nat) : 28 ≤ monthLen y m ∧ monthLen y m ≤ 31 := by
  unfold monthLen
  split <;> (try split) <;> omega

theorem dbm_succ (y : Int) (m : Nat) (hm : 1 ≤ m) :
    daysBeforeMonth y (m + 1) = daysBeforeMonth y m + monthLen y m := by
  cases m with
  | zero => omega
  | succ k => rfl

theorem dbm_one (y : Int) : daysBeforeMonth y 1 = 0 := rfl

theorem dbm_13 (y : Int) : daysBeforeMonth y 13 = yearLen y := by
  simp only [daysBeforeMonth, monthLen, yearLen]
  split <;> omega

theorem dbm_succ_le_of_lt (y : Int) {m m' : Nat} (hm : 1 ≤ m) (h : m < m') :
    daysBeforeMonth y (m + 1) ≤ daysBeforeMonth y m' := by
  induction m' with
  | zero => omega
  | succ k ih =>
    by_cases e : m = k
    · subst e; omega
    · have := ih (by omega)
      have s := dbm_succ y k (by omega)
      have l := monthLen_bounds y k
      omega

theorem dbm_lt_of_lt (y : Int) {m m' : Nat} (hm : 1 ≤ m) (h : m < m') :
    daysBeforeMonth y m < daysBeforeMonth y m' := by
  have := dbm_succ_le_of_lt y hm h
  have s := dbm_succ y m hm
  have l := monthLen_bounds y m
  omega

theorem dbm_nonneg (y : Int) {m : Nat} (hm : 1 ≤ m) : 0 ≤ daysBeforeMonth y m := by
  by_cases e : m = 1
  · subst e; simp [dbm_one]
  · have := dbm_lt_of_lt y (m := 1) (m' := m) (by omega) (by omega)
    rw [dbm_one] at this; omega

theorem dbm_le_13 (y : Int) {m : Nat} (hm : 1 ≤ m) (h12 : m ≤ 12) :
    daysBeforeMonth y (m + 1) ≤ yearLen y := by
  rw [← dbm_13]
  by_cases e : m = 12
  · subst e; exact Int.le_refl _
  · exact dbm_succ_le_of_lt y hm (by omega)

/-- what the month search returns -/
theorem monthOfDoy_spec (y doy : Int) (h13 : doy < daysBeforeMonth y 13) :
    ∀ (fuel m : Nat), 1 ≤ m → m ≤ 12 → 12 - m < fuel → daysBeforeMonth y m ≤ doy →
      m ≤ (monthOfDoy y doy fuel m).1 ∧ (monthOfDoy y doy fuel m).1 ≤ 12 ∧
      daysBeforeMonth y (monthOfDoy y doy fuel m).1 ≤ doy ∧
      doy < daysBeforeMonth y ((monthOfDoy y doy fuel m).1 + 1) ∧
      (monthOfDoy y doy fuel m).2 = doy - daysBeforeMonth y (monthOfDoy y doy fuel m).1 + 1 := by
  intro fuel
  induction fuel with
  | zero => intro m _ _ h; omega
  | succ f ih =>
    intro m h1 h12 hf hle
    unfold monthOfDoy
    by_cases a : 12 ≤ m
    · have e : m = 12 := by omega
      subst e
      simp [h13, hle]
    · simp only [a, if_false]
      by_cases b : doy < daysBeforeMonth y (m + 1)
      · simp [b, hle, h12]
      · simp only [b, if_false]
        have := ih (m + 1) (by omega) (by omega) (by omega) (by omega)
        refine ⟨by omega, this.2.1, this.2.2.1, this.2.2.2.1, this.2.2.2.2⟩

theorem month_unique (y doy : Int) {m r : Nat} (hm : 1 ≤ m) (hr : 1 ≤ r)
    (h1 : daysBeforeMonth y m ≤ doy) (h2 : doy < daysBeforeMonth y (m + 1))
    (h1' : daysBeforeMonth y r ≤ doy) (h2' : doy < daysBeforeMonth y (r + 1)) : r = m := by
  by_cases a : r < m
  · have := dbm_succ_le_of_lt y hr a; omega
  · by_cases b : m < r
    · have := dbm_succ_le_of_lt y hm b; omega
    · omega

/-! ### civil dates -/

theorem civil_fst (n : Int) : (civil n).1 = yearOfDay n := rfl
theorem civil_snd (n : Int) :
    (civil n).2 = monthOfDoy (yearOfDay n) (n - daysBeforeYear (yearOfDay n)) 12 1 := rfl

theorem civil_valid (n : Int) :
    1 ≤ (civil n).2.1 ∧ (civil n).2.1 ≤ 12 ∧ 1 ≤ (civil n).2.2 ∧ (civil n).2.2 ≤ monthLen (civil n).1 (civil n).2.1 ∧
    dayNumber (civil n).1 (civil n).2.1 (civil n).2.2 = n := by
  rw [civil_fst, civil_snd]
  have hy := yearOfDay_spec n
  generalize yearOfDay n = y at hy ⊢
  have s := daysBeforeYear_succ y
  have h13 : n - daysBeforeYear y < daysBeforeMonth y 13 := by rw [dbm_13]; omega
  have sp := monthOfDoy_spec y (n - daysBeforeYear y) h13 12 1 (by omega) (by omega) (by omega)
    (by rw [dbm_one]; omega)
  generalize monthOfDoy y (n - daysBeforeYear y) 12 1 = r at sp ⊢
  obtain ⟨a, b, c, d, e⟩ := sp
  have sm := dbm_succ y r.1 a
  unfold dayNumber
  refine ⟨a, b, by omega, by omega, by omega⟩

theorem civil_dayNumber (y : Int) (m : Nat) (d : Int) (hm : 1 ≤ m ∧ m ≤ 12) (hd : 1 ≤ d ∧ d ≤ monthLen y m) :
    civil (dayNumber y m d) = (y, m, d) := by
  have sm := dbm_succ y m hm.1
  have n0 := dbm_nonneg y hm.1
  have l13 := dbm_le_13 y hm.1 hm.2
  have s := daysBeforeYear_succ y
  have hyr : yearOfDay (dayNumber y m d) = y := by
    apply yearOfDay_eq <;> unfold dayNumber <;> omega
  have hdoy : dayNumber y m d - daysBeforeYear y = daysBeforeMonth y m + d - 1 := by
    unfold dayNumber; omega
  have h13 : daysBeforeMonth y m + d - 1 < daysBeforeMonth y 13 := by rw [dbm_13]; omega
  have sp := monthOfDoy_spec y _ h13 12 1 (by omega) (by omega) (by omega) (by rw [dbm_one]; omega)
  have e2 : (civil (dayNumber y m d)).2 = monthOfDoy y (daysBeforeMonth y m + d - 1) 12 1 := by
    rw [civil_snd, hyr, hdoy]
  have e1 : (civil (dayNumber y m d)).1 = y := by rw [civil_fst, hyr]
  generalize monthOfDoy y (daysBeforeMonth y m + d - 1) 12 1 = r at sp e2
  obtain ⟨a, b, c, dd, e⟩ := sp
  have hr : r.1 = m := month_unique y (daysBeforeMonth y m + d - 1) hm.1 a (by omega) (by omega) c dd
  have hr2 : r.2 = d := by rw [e, hr]; omega
  generalize civil (dayNumber y m d) = cv at e1 e2
  obtain ⟨c1, c2⟩ := cv
  obtain ⟨r1, r2⟩ := r
  simp only at e1 e2 hr hr2
  subst e1 hr hr2
  rw [e2]

/-! ### milliseconds and day numbers -/

theorem mul_ms_div (n : Int) : n * msPerDay / msPerDay = n := by unfold msPerDay; omega
theorem mul_ms_mod (n : Int) : n * msPerDay % msPerDay = 0 := by unfold msPerDay; omega
theorem div_mul_ms_le (t : Int) : t / msPerDay * msPerDay ≤ t := by unfold msPerDay; omega
theorem ms_le_of_le_div {n t : Int} (h : n ≤ t / msPerDay) : n * msPerDay ≤ t := by
  unfold msPerDay at *; omega
theorem lt_ms_of_div_lt {n t : Int} (h : t / msPerDay < n) : t < n * msPerDay := by
  unfold msPerDay at *; omega
theorem eq_div_mul_ms {b : Int} (h : b % msPerDay = 0) : b = b / msPerDay * msPerDay := by
  unfold msPerDay at *; omega

/-! ### month index: `i = 12·year + (month − 1)` -/

/-- day number of the first day of the month with index `i` -/
def fom (i : Int) : Int := dayNumber (i / 12) ((i % 12).toNat + 1) 1

theorem fom_succ (i : Int) : fom (i + 1) = fom i + monthLen (i / 12) ((i % 12).toNat + 1) := by
  unfold fom dayNumber
  by_cases h : i % 12 = 11
  · have e1 : (i + 1) / 12 = i / 12 + 1 := by omega
    have e2 : (i + 1) % 12 = 0 := by omega
    rw [e1, e2, h]
    have t1 : (11 : Int).toNat + 1 = 12 := rfl
    have t2 : (0 : Int).toNat + 1 = 1 := rfl
    rw [t1, t2, dbm_one]
    have s := daysBeforeYear_succ (i / 12)
    have a : daysBeforeMonth (i / 12) 13 = daysBeforeMonth (i / 12) 12 + monthLen (i / 12) 12 :=
      dbm_succ (i / 12) 12 (by omega)
    have b := dbm_13 (i / 12)
    omega
  · have e1 : (i + 1) / 12 = i / 12 := by omega
    have e2 : (i + 1) % 12 = i % 12 + 1 := by omega
    have e3 : ((i % 12 + 1).toNat + 1) = ((i % 12).toNat + 1) + 1 := by omega
    rw [e1, e2, e3, dbm_succ _ _ (by omega)]
    omega

theorem fom_of_date (y : Int) (m : Nat) (h1 : 1 ≤ m) (h12 : m ≤ 12) :
    fom (12 * y + ((m : Int) - 1)) = dayNumber y m 1 := by
  unfold fom
  have e1 : (12 * y + ((m : Int) - 1)) / 12 = y := by omega
  have e2 : ((12 * y + ((m : Int) - 1)) % 12).toNat + 1 = m := by omega
  rw [e1, e2]

theorem civil_fom (i : Int) : civil (fom i) = (i / 12, (i % 12).toNat + 1, 1) := by
  unfold fom
  apply civil_dayNumber
  · omega
  · have := monthLen_bounds (i / 12) ((i % 12).toNat + 1); omega

/-- index of the month containing day number `n` -/
def monthIdx (n : Int) : Int := 12 * (civil n).1 + (((civil n).2.1 : Int) - 1)

theorem fom_monthIdx (n : Int) : fom (monthIdx n) = dayNumber (civil n).1 (civil n).2.1 1 := by
  have v := civil_valid n
  exact fom_of_date _ _ v.1 v.2.1

theorem fom_monthIdx_le (n : Int) : fom (monthIdx n) ≤ n := by
  have v := civil_valid n
  rw [fom_monthIdx]
  have e := v.2.2.2.2
  unfold dayNumber at *; omega

theorem lt_fom_monthIdx_succ (n : Int) : n < fom (monthIdx n + 1) := by
  have v := civil_valid n
  rw [fom_succ, fom_monthIdx]
  have e1 : monthIdx n / 12 = (civil n).1 := by unfold monthIdx; omega
  have e2 : (monthIdx n % 12).toNat + 1 = (civil n).2.1 := by unfold monthIdx; omega
  rw [e1, e2]
  have e := v.2.2.2.2
  unfold dayNumber at *; omega

theorem dayNumber_jan1 (y : Int) : dayNumber y 1 1 = daysBeforeYear y := by
  unfold dayNumber; rw [dbm_one]; omega

theorem civil_dby (y : Int) : civil (daysBeforeYear y) = (y, 1, 1) := by
  rw [← dayNumber_jan1]
  apply civil_dayNumber
  · omega
  · simp [monthLen]

/-! ### every unit's boundaries form a grid `g : ℤ → ℤ` -/

structure Grid (u : TUnit) (g : Int → Int) (idx : Int → Int) : Prop where
  bdry : ∀ b, isBoundary u b = true ↔ ∃ i, b = g i
  floor_eq : ∀ t, floorU u t = g (idx t)
  floor_le : ∀ t, g (idx t) ≤ t
  floor_lt : ∀ t, t < g (idx t + 1)
  step_eq : ∀ i k, stepU u (g i) k = g (i + k)
  gap : ∀ i, g i + minUnitMs u ≤ g (i + 1)

theorem grid_second : Grid .second (fun i => i * 1000) (fun t => t / 1000) where
  bdry b := by
    simp only [isBoundary, beq_iff_eq]
    constructor
    · intro h; exact ⟨b / 1000, by omega⟩
    · rintro ⟨i, rfl⟩; omega
  floor_eq t := rfl
  floor_le t := by omega
  floor_lt t := by omega
  step_eq i k := by simp only [stepU]; omega
  gap i := by simp only [minUnitMs, unitMs]; omega

theorem grid_minute : Grid .minute (fun i => i * 60000) (fun t => t / 60000) where
  bdry b := by
    simp only [isBoundary, beq_iff_eq]
    constructor
    · intro h; exact ⟨b / 60000, by omega⟩
    · rintro ⟨i, rfl⟩; omega
  floor_eq t := rfl
  floor_le t := by omega
  floor_lt t := by omega
  step_eq i k := by simp only [stepU]; omega
  gap i := by simp only [minUnitMs, unitMs]; omega

theorem grid_hour : Grid .hour (fun i => i * 3600000) (fun t => t / 3600000) where
  bdry b := by
    simp only [isBoundary, beq_iff_eq]
    constructor
    · intro h; exact ⟨b / 3600000, by omega⟩
    · rintro ⟨i, rfl⟩; omega
  floor_eq t := rfl
  floor_le t := by omega
  floor_lt t := by omega
  step_eq i k := by simp only [stepU]; omega
  gap i := by simp only [minUnitMs, unitMs]; omega

theorem grid_day : Grid .day (fun i => i * 86400000) (fun t => t / 86400000) where
  bdry b := by
    simp only [isBoundary, beq_iff_eq, msPerDay]
    constructor
    · intro h; exact ⟨b / 86400000, by omega⟩
    · rintro ⟨i, rfl⟩; omega
  floor_eq t := rfl
  floor_le t := by omega
  floor_lt t := by omega
  step_eq i k := by simp only [stepU, msPerDay]; omega
  gap i := by simp only [minUnitMs, unitMs]; omega

theorem grid_week :
    Grid .week (fun i => (7 * i + 3) * 86400000) (fun t => (t / 86400000 + 4) / 7 - 1) where
  bdry b := by
    simp only [isBoundary, beq_iff_eq, msPerDay, weekdaySun0, Bool.and_eq_true]
    constructor
    · intro h; exact ⟨(b / 86400000 + 4) / 7 - 1, by omega⟩
    · rintro ⟨i, rfl⟩; omega
  floor_eq t := by simp only [floorU, msPerDay, weekdaySun0]; omega
  floor_le t := by omega
  floor_lt t := by omega
  step_eq i k := by simp only [stepU, msPerDay]; omega
  gap i := by simp only [minUnitMs, unitMs]; omega

theorem grid_month : Grid .month (fun i => fom i * msPerDay) (fun t => monthIdx (t / msPerDay)) where
  bdry b := by
    simp only [isBoundary, beq_iff_eq, Bool.and_eq_true]
    constructor
    · rintro ⟨h1, h2⟩
      refine ⟨monthIdx (b / msPerDay), ?_⟩
      have v := (civil_valid (b / msPerDay)).2.2.2.2
      rw [h2] at v
      rw [fom_monthIdx, v]
      exact eq_div_mul_ms h1
    · rintro ⟨i, rfl⟩
      rw [mul_ms_div, mul_ms_mod, civil_fom]
      exact ⟨rfl, rfl⟩
  floor_eq t := by simp only [floorU]; rw [fom_monthIdx]
  floor_le t := ms_le_of_le_div (fom_monthIdx_le _)
  floor_lt t := lt_ms_of_div_lt (lt_fom_monthIdx_succ _)
  step_eq i k := by
    simp only [stepU]
    rw [mul_ms_div, civil_fom]
    simp only
    have e1 : i / 12 + (((((i % 12).toNat + 1 : Nat) : Int)) - 1 + k) / 12 = (i + k) / 12 := by omega
    have e2 : ((((((i % 12).toNat + 1 : Nat) : Int)) - 1 + k) % 12).toNat + 1 = ((i + k) % 12).toNat + 1 := by
      omega
    rw [e1, e2]; unfold fom; omega
  gap i := by
    simp only [minUnitMs]
    rw [fom_succ]
    have := monthLen_bounds (i / 12) ((i % 12).toNat + 1)
    unfold msPerDay; omega

theorem grid_year :
    Grid .year (fun y => daysBeforeYear y * msPerDay) (fun t => yearOfDay (t / msPerDay)) where
  bdry b := by
    simp only [isBoundary, beq_iff_eq, Bool.and_eq_true]
    constructor
    · rintro ⟨⟨h1, h2⟩, h3⟩
      refine ⟨(civil (b / msPerDay)).1, ?_⟩
      have v := (civil_valid (b / msPerDay)).2.2.2.2
      rw [h2, h3, dayNumber_jan1] at v
      rw [v]
      exact eq_div_mul_ms h1
    · rintro ⟨i, rfl⟩
      rw [mul_ms_div, mul_ms_mod, civil_dby]
      exact ⟨⟨rfl, rfl⟩, rfl⟩
  floor_eq t := by simp only [floorU]; rw [dayNumber_jan1, civil_fst]
  floor_le t := ms_le_of_le_div (yearOfDay_spec _).1
  floor_lt t := lt_ms_of_div_lt (yearOfDay_spec _).2
  step_eq i k := by
    simp only [stepU]
    rw [mul_ms_div, civil_dby]
    simp only
    rw [dayNumber_jan1]; omega
  gap i := by
    simp only [minUnitMs]
    rw [daysBeforeYear_succ]
    have := yearLen_bounds i
    unfold msPerDay; omega

theorem grid_exists (u : TUnit) : ∃ g idx, Grid u g idx := by
  cases u
  · exact ⟨_, _, grid_second⟩
  · exact ⟨_, _, grid_minute⟩
  · exact ⟨_, _, grid_hour⟩
  · exact ⟨_, _, grid_day⟩
  · exact ⟨_, _, grid_week⟩
  · exact ⟨_, _, grid_month⟩
  · exact ⟨_, _, grid_year⟩

/-! ### consequences that hold on any grid -/

theorem minUnitMs_pos (u : TUnit) : 0 < minUnitMs u := by cases u <;> decide

theorem sincr_cons {a : Int} {l : List Int} (h : strictlyIncreasingB l = true) (hl : ∀ x ∈ l, a < x) :
    strictlyIncreasingB (a :: l) = true := by
  cases l with
  | nil => rfl
  | cons b r =>
    have := hl b List.mem_cons_self
    simp [strictlyIncreasingB, h, this]

namespace Grid
variable {u : TUnit} {g idx : Int → Int}

theorem lt_succ (G : Grid u g idx) (i : Int) : g i < g (i + 1) := by
  have := G.gap i; have := minUnitMs_pos u; omega

theorem add_le (G : Grid u g idx) (i : Int) (k : Nat) : g i + minUnitMs u * (k : Int) ≤ g (i + k) := by
  induction k with
  | zero => simp
  | succ k ih =>
    have h := G.gap (i + k)
    have e : i + ((k + 1 : Nat) : Int) = i + k + 1 := by omega
    rw [e]
    have e2 : minUnitMs u * ((k + 1 : Nat) : Int) = minUnitMs u * (k : Int) + minUnitMs u := by
      rw [Int.natCast_succ, Int.mul_add, Int.mul_one]
    omega

theorem le_of_le (G : Grid u g idx) {i j : Int} (h : i ≤ j) : g i ≤ g j := by
  have h1 := G.add_le i (j - i).toNat
  have e : i + ((j - i).toNat : Int) = j := by omega
  rw [e] at h1
  have h2 : 0 ≤ minUnitMs u * ((j - i).toNat : Int) :=
    Int.mul_nonneg (Int.le_of_lt (minUnitMs_pos u)) (by omega)
  omega

theorem lt_of_lt (G : Grid u g idx) {i j : Int} (h : i < j) : g i < g j := by
  have := G.le_of_le (show i + 1 ≤ j by omega); have := G.lt_succ i; omega

theorem lt_iff (G : Grid u g idx) {i j : Int} : g i < g j ↔ i < j := by
  constructor
  · intro h
    by_cases c : i < j
    · exact c
    · have := G.le_of_le (show j ≤ i by omega); omega
  · exact G.lt_of_lt

theorem isB (G : Grid u g idx) (i : Int) : isBoundary u (g i) = true := (G.bdry _).2 ⟨i, rfl⟩

theorem isFloor (G : Grid u g idx) (t : Int) : IsFloor u t (floorU u t) := by
  rw [G.floor_eq]
  refine ⟨G.isB _, G.floor_le t, ?_⟩
  intro b hb hbt
  obtain ⟨j, rfl⟩ := (G.bdry b).1 hb
  have h1 := G.floor_lt t
  have h2 : j < idx t + 1 := G.lt_iff.1 (by omega)
  exact G.le_of_le (by omega)

theorem isNext (G : Grid u g idx) (b : Int) (hb : isBoundary u b = true) : IsNext u b (stepU u b 1) := by
  obtain ⟨i, rfl⟩ := (G.bdry b).1 hb
  rw [G.step_eq]
  refine ⟨G.isB _, G.lt_succ i, ?_⟩
  intro x hx hlt
  obtain ⟨j, rfl⟩ := (G.bdry x).1 hx
  have := G.lt_iff.1 hlt
  exact G.le_of_le (by omega)

theorem step_add (G : Grid u g idx) (b : Int) (hb : isBoundary u b = true) (j k : Nat) :
    stepU u (stepU u b j) k = stepU u b ((j + k : Nat) : Int) := by
  obtain ⟨i, rfl⟩ := (G.bdry b).1 hb
  rw [G.step_eq, G.step_eq, G.step_eq]
  congr 1
  omega

theorem step_zero (G : Grid u g idx) (b : Int) (hb : isBoundary u b = true) : stepU u b 0 = b := by
  obtain ⟨i, rfl⟩ := (G.bdry b).1 hb
  rw [G.step_eq, Int.add_zero]

theorem step_boundary (G : Grid u g idx) (b : Int) (hb : isBoundary u b = true) (k : Nat) :
    isBoundary u (stepU u b k) = true := by
  obtain ⟨i, rfl⟩ := (G.bdry b).1 hb
  rw [G.step_eq]; exact G.isB _

theorem ceil_eq (G : Grid u g idx) (t : Int) : ceilU u t = g (idx (t - 1) + 1) := by
  unfold ceilU; rw [G.floor_eq, G.step_eq]

theorem isCeil (G : Grid u g idx) (t : Int) : IsCeil u t (ceilU u t) := by
  rw [G.ceil_eq]
  have h1 := G.floor_lt (t - 1)
  have h0 := G.floor_le (t - 1)
  refine ⟨G.isB _, by omega, ?_⟩
  intro b hb hbt
  obtain ⟨j, rfl⟩ := (G.bdry b).1 hb
  have h2 : idx (t - 1) < j := G.lt_iff.1 (by omega)
  exact G.le_of_le (by omega)

theorem lt_step_floor (G : Grid u g idx) (t : Int) : t < stepU u (floorU u t) 1 := by
  rw [G.floor_eq, G.step_eq]; exact G.floor_lt t

theorem mem_rangeLoop (G : Grid u g idx) (t1 dt : Int) : ∀ (fuel : Nat) (i : Int) (x : Int),
    x ∈ rangeLoop u t1 dt fuel (g i) ↔
      ∃ k : Nat, k < fuel ∧ x = g (i + k) ∧ x < t1 ∧ (dt ≤ 1 ∨ numberU u x % dt = 0) := by
  intro fuel
  induction fuel with
  | zero => intro i x; simp [rangeLoop]
  | succ n ih =>
    intro i x
    unfold rangeLoop
    by_cases h : g i < t1
    · rw [if_pos h, G.step_eq, List.mem_append, ih]
      constructor
      · rintro (hx | ⟨k, hk, rfl, hlt, hf⟩)
        · by_cases f : dt ≤ 1 ∨ numberU u (g i) % dt = 0
          · rw [if_pos f, List.mem_singleton] at hx
            subst hx
            exact ⟨0, by omega, by simp, h, f⟩
          · rw [if_neg f] at hx; simp at hx
        · refine ⟨k + 1, by omega, ?_, hlt, hf⟩
          congr 1; omega
      · rintro ⟨k, hk, rfl, hlt, hf⟩
        cases k with
        | zero =>
          left
          have e : i + ((0 : Nat) : Int) = i := by omega
          rw [e] at hf ⊢
          rw [if_pos hf]; exact List.mem_singleton.2 rfl
        | succ k =>
          right
          have e : i + ((k + 1 : Nat) : Int) = i + 1 + k := by omega
          rw [e] at hlt hf ⊢
          exact ⟨k, by omega, rfl, hlt, hf⟩
    · rw [if_neg h]
      constructor
      · intro hx; simp at hx
      · rintro ⟨k, hk, rfl, hlt, hf⟩
        have := G.le_of_le (show i ≤ i + (k : Int) by omega)
        omega

theorem rangeLoop_incr (G : Grid u g idx) (t1 dt : Int) : ∀ (fuel : Nat) (i : Int),
    strictlyIncreasingB (rangeLoop u t1 dt fuel (g i)) = true := by
  intro fuel
  induction fuel with
  | zero => intro i; rfl
  | succ n ih =>
    intro i
    unfold rangeLoop
    split
    · rw [G.step_eq]
      split
      · rw [List.singleton_append]
        apply sincr_cons (ih _)
        intro x hx
        rw [G.mem_rangeLoop] at hx
        obtain ⟨k, _, rfl, _⟩ := hx
        exact G.lt_of_lt (by omega)
      · rw [List.nil_append]; exact ih _
    · rfl

theorem range_mem (G : Grid u g idx) (t0 t1 dt : Int) (x : Int) :
    x ∈ rangeU u t0 t1 dt ↔
      (isBoundary u x = true ∧ t0 ≤ x ∧ x < t1 ∧ (dt ≤ 1 ∨ numberU u x % dt = 0)) := by
  unfold rangeU
  simp only
  rw [G.ceil_eq, G.mem_rangeLoop]
  have h1 := G.floor_lt (t0 - 1)
  have h0 := G.floor_le (t0 - 1)
  generalize idx (t0 - 1) = i0 at h0 h1
  constructor
  · rintro ⟨k, hk, rfl, hlt, hf⟩
    refine ⟨G.isB _, ?_, hlt, hf⟩
    have := G.le_of_le (show i0 + 1 ≤ i0 + 1 + (k : Int) by omega)
    omega
  · rintro ⟨hb, hx0, hx1, hf⟩
    obtain ⟨j, rfl⟩ := (G.bdry x).1 hb
    have h2 : i0 < j := G.lt_iff.1 (by omega)
    have A := G.add_le (i0 + 1) (j - (i0 + 1)).toNat
    have e : i0 + 1 + ((j - (i0 + 1)).toNat : Int) = j := by omega
    rw [e] at A
    refine ⟨(j - (i0 + 1)).toNat, ?_, by rw [e], hx1, hf⟩
    have B : ((j - (i0 + 1)).toNat : Int) ≤ (t1 - g (i0 + 1)) / minUnitMs u :=
      (Int.le_ediv_iff_mul_le (minUnitMs_pos u)).2 (by rw [Int.mul_comm]; omega)
    omega

theorem range_increasing (G : Grid u g idx) (t0 t1 dt : Int) :
    strictlyIncreasingB (rangeU u t0 t1 dt) = true := by
  unfold rangeU
  simp only
  rw [G.ceil_eq]
  exact G.rangeLoop_incr _ _ _ _

end Grid

end Labella.Calendar
