import Labella.Model.Text
/-! Helper lemmas for `Props/C19` (model of `uni2tex`). -/
namespace Labella.Text

/-! ### the accent table -/

/-- the code points of the command of an accent mark, as `render` writes them -/
def cmdChars (m : Nat) : List Nat := ((accentCmd m).getD "?").toList.map Char.toNat

theorem isAccent_exists {m : Nat} (h : isAccent m = true) : ∃ p ∈ Gen.texAccents, p.1 = m := by
  unfold isAccent accentCmd at h
  rw [Option.isSome_map, List.find?_isSome] at h
  obtain ⟨p, hp, hpm⟩ := h
  exact ⟨p, hp, by simpa using hpm⟩

theorem table_keys_ge : ∀ p ∈ Gen.texAccents, 768 ≤ p.1 := by decide

theorem isAccent_ge {m : Nat} (h : isAccent m = true) : 768 ≤ m := by
  obtain ⟨p, hp, rfl⟩ := isAccent_exists h
  exact table_keys_ge p hp

theorem isAccent_lt_false {c : Nat} (h : c < 768) : isAccent c = false := by
  cases hc : isAccent c with
  | false => rfl
  | true => have := isAccent_ge hc; omega

theorem table_cmd_roundtrip :
    ∀ p ∈ Gen.texAccents, (cmdChars p.1).length = 1 ∧ markOfCmd ((cmdChars p.1).headD 0) = some p.1 := by
  decide

/-- the command of an accent of the table is one character, and that character identifies the mark -/
theorem cmdChars_of_isAccent {m : Nat} (h : isAccent m = true) :
    ∃ a, cmdChars m = [a] ∧ markOfCmd a = some m := by
  obtain ⟨p, hp, rfl⟩ := isAccent_exists h
  obtain ⟨h1, h2⟩ := table_cmd_roundtrip p hp
  match hc : cmdChars p.1, h1, h2 with
  | [a], _, h2 => exact ⟨a, rfl, by simpa [hc] using h2⟩

/-! ### well-formed pieces -/

/-- a (possibly nested) accent command over a plain character with every command in the table -/
def WF : Tok → Prop
  | .plain _ => True
  | .accent m t => isAccent m = true ∧ WF t

theorem step_wf (db : UDB) (out : List Tok) (c : Nat) (h : ∀ t ∈ out, WF t) :
    ∀ t ∈ step db out c, WF t := by
  unfold step
  split
  · next hm =>
    have hacc : isAccent c = true := by simp at hm; exact hm.2
    cases out with
    | nil => simp [WF]
    | cons last rest =>
      intro t ht
      simp only [List.mem_cons] at ht
      rcases ht with rfl | ht
      · exact ⟨hacc, h _ (by simp)⟩
      · exact h _ (by simp [ht])
  · split
    · next base acc _ =>
      split
      · next ha =>
        intro t ht
        simp only [List.mem_cons] at ht
        rcases ht with rfl | ht
        · exact ⟨ha, trivial⟩
        · exact h _ ht
      · intro t ht
        simp only [List.mem_cons] at ht
        rcases ht with rfl | ht
        · trivial
        · exact h _ ht
    · intro t ht
      simp only [List.mem_cons] at ht
      rcases ht with rfl | ht
      · trivial
      · exact h _ ht

theorem foldl_step_wf (db : UDB) (s : List Nat) (out : List Tok) (h : ∀ t ∈ out, WF t) :
    ∀ t ∈ s.foldl (step db) out, WF t := by
  induction s generalizing out with
  | nil => simpa using h
  | cons c s ih => exact ih _ (step_wf db out c h)

theorem uni2texToks_wf (db : UDB) (s : List Nat) : ∀ t ∈ uni2texToks db s, WF t := by
  intro t ht
  unfold uni2texToks at ht
  rw [List.mem_reverse] at ht
  exact foldl_step_wf db s [] (by simp) t ht

/-! ### token-level read-back -/

theorem step_readBack (db : UDB) (out : List Tok) (c : Nat) :
    (step db out c).reverse.flatMap readBack = out.reverse.flatMap readBack ++ oneStep db c := by
  unfold step oneStep
  split
  · cases out with
    | nil => simp [readBack]
    | cons last rest => simp [readBack]
  · split
    · split <;> simp [readBack]
    · simp [readBack]

theorem foldl_step_readBack (db : UDB) (s : List Nat) (out : List Tok) :
    (s.foldl (step db) out).reverse.flatMap readBack
      = out.reverse.flatMap readBack ++ s.flatMap (oneStep db) := by
  induction s generalizing out with
  | nil => simp
  | cons c s ih => rw [List.foldl_cons, ih, step_readBack]; simp

/-! ### untouched characters -/

theorem foldl_step_untouched (db : UDB) (s : List Nat) (out : List Tok)
    (h : ∀ c ∈ s, db.decomp c = none ∧ isAccent c = false) :
    s.foldl (step db) out = (s.map Tok.plain).reverse ++ out := by
  induction s generalizing out with
  | nil => simp
  | cons c s ih =>
    have hc := h c (by simp)
    have hs : step db out c = Tok.plain c :: out := by simp [step, hc.1, hc.2]
    rw [List.foldl_cons, hs, ih _ (fun c hc => h c (by simp [hc]))]
    simp

theorem flatMap_render_plain (s : List Nat) : (s.map Tok.plain).flatMap render = s := by
  induction s with
  | nil => rfl
  | cons c s ih => simp [render, ih]

/-! ### plain pieces are input characters -/

theorem step_plain (db : UDB) (out : List Tok) (c x : Nat) (h : Tok.plain x ∈ step db out c) :
    x = c ∨ Tok.plain x ∈ out := by
  unfold step at h
  split at h
  · cases out with
    | nil => simp at h; exact Or.inl h
    | cons last rest =>
      simp only [List.mem_cons] at h
      rcases h with h | h
      · cases h
      · exact Or.inr (by simp [h])
  · split at h
    · split at h
      · simp only [List.mem_cons] at h
        rcases h with h | h
        · cases h
        · exact Or.inr h
      · simp only [List.mem_cons, Tok.plain.injEq] at h
        exact h
    · simp only [List.mem_cons, Tok.plain.injEq] at h
      exact h

theorem foldl_step_plain (db : UDB) (s : List Nat) (out : List Tok) (x : Nat)
    (h : Tok.plain x ∈ s.foldl (step db) out) : x ∈ s ∨ Tok.plain x ∈ out := by
  induction s generalizing out with
  | nil => exact Or.inr (by simpa using h)
  | cons c s ih =>
    rcases ih _ h with h | h
    · exact Or.inl (by simp [h])
    · rcases step_plain db out c x h with h | h
      · exact Or.inl (by simp [h])
      · exact Or.inr h

/-! ### string-level read-back -/

theorem render_accent (m : Nat) (t : Tok) :
    render (.accent m t) = 92 :: (cmdChars m ++ 123 :: render t ++ [125]) := rfl

/-- a piece is parseable when it is well formed and no character read back from it is a backslash or a
closing brace -/
def Parseable (t : Tok) : Prop := WF t ∧ ∀ c ∈ readBack t, c ≠ 92 ∧ c ≠ 125

theorem parseable_inner {m : Nat} {t : Tok} (h : Parseable (.accent m t)) :
    isAccent m = true ∧ Parseable t :=
  ⟨h.1.1, h.1.2, fun c hc => h.2 c (by simp [readBack, hc])⟩

theorem parsePieces_plain (fuel c : Nat) (rest : List Nat) (h1 : c ≠ 92) (h2 : c ≠ 125) :
    parsePieces (fuel + 1) (c :: rest)
      = ((c :: (parsePieces fuel rest).1), (parsePieces fuel rest).2) := by
  rw [parsePieces]
  · simp_all
  · simp_all

/-- the parser inverts `render` on a sequence of parseable pieces followed by the end of the input or by
a closing brace, given enough fuel -/
theorem parsePieces_render (fuel : Nat) : ∀ (ts : List Tok) (tail : List Nat),
    (∀ t ∈ ts, Parseable t) → (tail = [] ∨ ∃ tl, tail = 125 :: tl) →
    (ts.flatMap render ++ tail).length + 1 ≤ fuel →
    parsePieces fuel (ts.flatMap render ++ tail) = (ts.flatMap readBack, tail) := by
  induction fuel with
  | zero => intro ts tail _ _ h; omega
  | succ fuel ih =>
    intro ts tail hts htail hfuel
    cases ts with
    | nil =>
      rcases htail with rfl | ⟨tl, rfl⟩
      · simp [parsePieces]
      · simp [parsePieces]
    | cons t ts =>
      have hts' : ∀ t ∈ ts, Parseable t := fun t ht => hts t (by simp [ht])
      have ht := hts t (by simp)
      cases t with
      | plain c =>
        have hc := ht.2 c (by simp [readBack])
        simp only [List.flatMap_cons, render, readBack, List.cons_append, List.nil_append] at hfuel ⊢
        rw [parsePieces_plain _ _ _ hc.1 hc.2, ih ts tail hts' htail
          (by simp only [List.length_append, List.length_cons] at hfuel ⊢; omega)]
      | accent m t =>
        obtain ⟨hm, ht1⟩ := parseable_inner ht
        obtain ⟨a, ha, hmark⟩ := cmdChars_of_isAccent hm
        simp only [List.flatMap_cons, render_accent, ha, readBack, List.cons_append, List.nil_append,
          List.append_assoc, List.length_cons, List.length_append] at hfuel ⊢
        have h1 := ih [t] (125 :: (ts.flatMap render ++ tail)) (by simpa using ht1) (Or.inr ⟨_, rfl⟩)
          (by simp only [List.flatMap_cons, List.flatMap_nil, List.append_nil, List.length_append,
                List.length_cons]; omega)
        have h2 := ih ts tail hts' htail (by simp only [List.length_append]; omega)
        simp only [List.flatMap_cons, List.flatMap_nil, List.append_nil] at h1
        rw [parsePieces]
        simp only [hmark, h1, h2, List.append_assoc, List.cons_append, List.nil_append]

end Labella.Text
