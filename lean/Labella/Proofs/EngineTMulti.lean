import Labella.Proofs.EngineTLemmas
/-! # Several engines alive at once, sharing list objects and node objects (`MWorld` of `Model/EngineT.lean`)

What every reachable multi-engine world satisfies, and hence: `computeT` of ANY engine of ANY reachable world starts from a good state. -/
namespace Labella.EngineT
open Labella Labella.Layout

/-- what every reachable multi-engine world satisfies -/
structure MInv (w : MWorld) : Prop where
  len : w.lists.length = w.created.length
  /-- every list object as created: its nodes exist, are distinct, are labels -/
  good : ∀ (b : Nat) (c : List Nat), w.created[b]? = some c → GoodN w.store c
  /-- a list object now holds the nodes it was created with, possibly reordered (in-place sorts) -/
  perm : ∀ (b : Nat) (l c : List Nat), w.lists[b]? = some l → w.created[b]? = some c → l.Perm c
  /-- the payload of a node is its own identity -/
  data : ∀ (b : Nat) (c : List Nat), w.created[b]? = some c → ∀ i ∈ c, (get w.store i).data = i
  /-- engines refer to existing list objects -/
  ref : ∀ e ∈ w.engines, ∀ b : Nat, e.ref = some b → b < w.lists.length
  cur : w.engines = [] ∨ w.cur < w.engines.length

/-! ### helpers -/

/-- an element of a modified list is an old element or the image of one -/
theorem mem_modify {α : Type} (l : List α) (i : Nat) (f : α → α) (x : α) (hx : x ∈ l.modify i f) :
    x ∈ l ∨ ∃ y ∈ l, x = f y := by
  obtain ⟨j, hj⟩ := List.mem_iff_getElem?.1 hx
  rw [List.getElem?_modify] at hj
  cases hl : l[j]? with
  | none => rw [hl] at hj; cases hj
  | some y =>
    rw [hl] at hj
    simp only [Option.map_eq_map, Option.map_some, Option.some.injEq] at hj
    have hy : y ∈ l := List.mem_of_getElem? hl
    by_cases hij : i = j
    · rw [if_pos hij] at hj; exact Or.inr ⟨y, hy, hj.symm⟩
    · rw [if_neg hij] at hj; exact Or.inl (hj ▸ hy)

theorem cur_modify {α : Type} (l : List α) (c : Nat) (f : α → α) (h : l = [] ∨ c < l.length) :
    l.modify c f = [] ∨ c < (l.modify c f).length := by
  rcases h with h | h
  · left; subst h; cases c <;> rfl
  · right; rw [List.length_modify]; exact h

/-- the payloads of freshly made nodes are their own identities (the multi-engine copy of `freshNodes_fold_data` of `Proofs/EndToEnd.lean`,
which this file cannot import) -/
theorem freshNodes_fold_dataM : ∀ (ls : List Label) (acc : Store × List Nat),
    GoodN acc.1 acc.2 → (∀ i ∈ acc.2, (get acc.1 i).data = i) →
    ∀ i ∈ (ls.foldl (fun (acc : Store × List Nat) l =>
        ((mkNode acc.1 l.ideal l.width acc.1.size).1, acc.2 ++ [(mkNode acc.1 l.ideal l.width acc.1.size).2])) acc).2,
      (get (ls.foldl (fun (acc : Store × List Nat) l =>
        ((mkNode acc.1 l.ideal l.width acc.1.size).1, acc.2 ++ [(mkNode acc.1 l.ideal l.width acc.1.size).2])) acc).1 i).data = i := by
  intro ls
  induction ls with
  | nil => intro acc _ hd; exact hd
  | cons l rest ih =>
    intro acc h hd
    rw [List.foldl_cons]
    apply ih
    · exact (freshNodes_fold [l] acc h).1
    · intro i hi
      rcases List.mem_append.1 hi with hi | hi
      · simp only [mkNode]
        rw [get_push_lt _ _ _ (h.lt i hi)]
        exact hd i hi
      · simp only [List.mem_singleton] at hi
        subst hi
        simp only [mkNode]
        rw [get_push_size]

/-- `engineAt` when engine `k` exists -/
theorem MWorld.engineAt_some (w : MWorld) (k : Nat) (e : MEngine) (he : w.engines[k]? = some e) :
    w.engineAt k = { opts := e.opts, nodes := (e.ref.bind (fun b => w.lists[b]?)).getD [], layers := e.layers } := by
  unfold MWorld.engineAt
  rw [he]

theorem MWorld.engineAt_none (w : MWorld) (k : Nat) (he : w.engines[k]? = none) :
    w.engineAt k = { opts := FOpts.default, nodes := [], layers := none } := by
  unfold MWorld.engineAt
  rw [he]

/-- the nodes of any engine: empty, or the current content of an existing list object -/
theorem MWorld.engineAt_nodes (w : MWorld) (k : Nat) :
    (w.engineAt k).nodes = [] ∨
      ∃ e b l, w.engines[k]? = some e ∧ e.ref = some b ∧ w.lists[b]? = some l ∧ (w.engineAt k).nodes = l := by
  cases he : w.engines[k]? with
  | none => left; rw [w.engineAt_none k he]
  | some e =>
    rw [w.engineAt_some k e he]
    cases hr : e.ref with
    | none => left; rfl
    | some b =>
      cases hl : w.lists[b]? with
      | none => left; simp only [Option.bind_some, hl, Option.getD_none]
      | some l => right; exact ⟨e, b, l, rfl, hr, hl, by simp only [Option.bind_some, hl, Option.getD_some]⟩

/-! ### the invariant -/

theorem MInv.init : MInv MWorld.init where
  len := rfl
  good := by intro b c h; simp [MWorld.init] at h
  perm := by intro b l c h; simp [MWorld.init] at h
  data := by intro b c h; simp [MWorld.init] at h
  ref := by intro e he; simp [MWorld.init] at he
  cur := Or.inl rfl

/-- replacing fields other than `ref` of the current engine keeps the invariant -/
theorem MInv.modify_engine {w : MWorld} (h : MInv w) (f : MEngine → MEngine) (hf : ∀ e, (f e).ref = e.ref) :
    MInv { w with engines := w.engines.modify w.cur f } where
  len := h.len
  good := h.good
  perm := h.perm
  data := h.data
  ref := by
    intro e he b hb
    rcases mem_modify _ _ _ _ he with he | ⟨e', he', rfl⟩
    · exact h.ref e he b hb
    · rw [hf] at hb; exact h.ref e' he' b hb
  cur := by
    exact cur_modify _ _ _ h.cur

/-- pointing the current engine at an existing list object keeps the invariant -/
theorem MInv.set_ref {w : MWorld} (h : MInv w) (b : Nat) (hb : b < w.lists.length) (f : MEngine → MEngine)
    (hf : ∀ e, (f e).ref = some b) :
    MInv { w with engines := w.engines.modify w.cur f } where
  len := h.len
  good := h.good
  perm := h.perm
  data := h.data
  ref := by
    intro e he b' hb'
    rcases mem_modify _ _ _ _ he with he | ⟨e', _, rfl⟩
    · exact h.ref e he b' hb'
    · rw [hf] at hb'; cases hb'; exact hb
  cur := by
    exact cur_modify _ _ _ h.cur

theorem MInv.step_fresh {w : MWorld} (h : MInv w) (ls : List Label) : MInv (w.step (.freshNodes ls)) := by
  simp only [MWorld.step]
  split
  · exact h
  · obtain ⟨ga, gf⟩ := freshNodes_fold ls (w.store, []) (GoodN.nil _)
    have gd := freshNodes_fold_dataM ls (w.store, []) (GoodN.nil _) (by intro i hi; cases hi)
    refine ⟨?_, ?_, ?_, ?_, ?_, ?_⟩
    · show (w.lists ++ [_]).length = (w.created ++ [_]).length
      rw [List.length_append, List.length_append, h.len]
    · intro b c hc
      change (w.created ++ [_])[b]? = some c at hc
      by_cases hb : b < w.created.length
      · rw [List.getElem?_append_left hb] at hc
        exact (h.good b c hc).frame gf
      · rw [List.getElem?_append_right (Nat.le_of_not_lt hb)] at hc
        have hc' := List.mem_of_getElem? hc
        simp only [List.mem_singleton] at hc'
        subst hc'
        exact ga
    · intro b l c hl hc
      change (w.lists ++ [_])[b]? = some l at hl
      change (w.created ++ [_])[b]? = some c at hc
      by_cases hb : b < w.created.length
      · rw [List.getElem?_append_left hb] at hc
        rw [List.getElem?_append_left (h.len ▸ hb)] at hl
        exact h.perm b l c hl hc
      · rw [List.getElem?_append_right (Nat.le_of_not_lt hb)] at hc
        rw [List.getElem?_append_right (h.len ▸ Nat.le_of_not_lt hb)] at hl
        have hc' := List.mem_of_getElem? hc
        have hl' := List.mem_of_getElem? hl
        simp only [List.mem_singleton] at hc' hl'
        rw [hc', hl']
    · intro b c hc i hi
      change (w.created ++ [_])[b]? = some c at hc
      by_cases hb : b < w.created.length
      · rw [List.getElem?_append_left hb] at hc
        exact (gf.data i ((h.good b c hc).lt i hi)).trans (h.data b c hc i hi)
      · rw [List.getElem?_append_right (Nat.le_of_not_lt hb)] at hc
        have hc' := List.mem_of_getElem? hc
        simp only [List.mem_singleton] at hc'
        subst hc'
        exact gd i hi
    · intro e he b hb
      show b < (w.lists ++ [_]).length
      rw [List.length_append, List.length_singleton]
      rcases mem_modify _ _ _ _ he with he | ⟨e', _, rfl⟩
      · exact Nat.lt_succ_of_lt (h.ref e he b hb)
      · simp only [Option.some.injEq] at hb
        omega
    · exact cur_modify _ _ _ h.cur

theorem MInv.step_compute {w : MWorld} (h : MInv w) : MInv (w.step .compute) := by
  simp only [MWorld.step]
  cases he : w.engines[w.cur]? with
  | none => exact h
  | some e =>
    simp only
    have hf := computeT_frame (w.engineAt w.cur) w.store
    have hn := (computeT_nodes (w.engineAt w.cur) w.store).1
    have heng := w.engineAt_some w.cur e he
    have hlen : ∀ L : List Nat, (match e.ref with
        | some b => w.lists.modify b (fun _ => L)
        | none => w.lists).length = w.lists.length := by
      intro L
      cases e.ref with
      | none => rfl
      | some b => exact List.length_modify _ _ _
    refine ⟨?_, ?_, ?_, ?_, ?_, ?_⟩
    · show (match e.ref with
        | some b => w.lists.modify b (fun _ => (computeT (w.engineAt w.cur) w.store).1.nodes)
        | none => w.lists).length = w.created.length
      rw [hlen]; exact h.len
    · intro b c hc
      exact (h.good b c hc).frame hf
    · intro b l c hl hc
      change (match e.ref with
        | some b => w.lists.modify b (fun _ => (computeT (w.engineAt w.cur) w.store).1.nodes)
        | none => w.lists)[b]? = some l at hl
      change w.created[b]? = some c at hc
      cases hr : e.ref with
      | none => rw [hr] at hl; exact h.perm b l c hl hc
      | some b' =>
        rw [hr] at hl
        simp only [List.getElem?_modify] at hl
        cases hl0 : w.lists[b]? with
        | none => rw [hl0] at hl; cases hl
        | some l0 =>
          rw [hl0] at hl
          simp only [Option.map_eq_map, Option.map_some, Option.some.injEq] at hl
          by_cases hbb : b' = b
          · rw [if_pos hbb] at hl
            subst hbb
            subst hl
            have : (w.engineAt w.cur).nodes = l0 := by
              rw [heng, hr]
              simp only [Option.bind_some, hl0, Option.getD_some]
            rw [this] at hn
            exact hn.trans (h.perm b' l0 c hl0 hc)
          · rw [if_neg hbb] at hl
            subst hl
            exact h.perm b l0 c hl0 hc
    · intro b c hc i hi
      exact (hf.data i ((h.good b c hc).lt i hi)).trans (h.data b c hc i hi)
    · intro e' he' b hb
      show b < (match e.ref with
        | some b => w.lists.modify b (fun _ => (computeT (w.engineAt w.cur) w.store).1.nodes)
        | none => w.lists).length
      rw [hlen]
      rcases mem_modify _ _ _ _ he' with he' | ⟨e'', he'', rfl⟩
      · exact h.ref e' he' b hb
      · exact h.ref e'' he'' b hb
    · exact cur_modify _ _ _ h.cur

/-- assigning widths changes nothing but the `width` field of existing nodes -/
theorem setWidths_fold : ∀ (ps : List (Nat × Rat)) (s : Store),
    (ps.foldl (fun s p => set s p.1 { get s p.1 with width := p.2 }) s).size = s.size ∧
    ∀ j, (get (ps.foldl (fun s p => set s p.1 { get s p.1 with width := p.2 }) s) j).data = (get s j).data ∧
      (get (ps.foldl (fun s p => set s p.1 { get s p.1 with width := p.2 }) s) j).child = (get s j).child ∧
      (get (ps.foldl (fun s p => set s p.1 { get s p.1 with width := p.2 }) s) j).parent = (get s j).parent ∧
      (get (ps.foldl (fun s p => set s p.1 { get s p.1 with width := p.2 }) s) j).ideal = (get s j).ideal ∧
      (get (ps.foldl (fun s p => set s p.1 { get s p.1 with width := p.2 }) s) j).cur = (get s j).cur ∧
      (get (ps.foldl (fun s p => set s p.1 { get s p.1 with width := p.2 }) s) j).layerIndex = (get s j).layerIndex := by
  intro ps
  induction ps with
  | nil => intro s; exact ⟨rfl, fun _ => ⟨rfl, rfl, rfl, rfl, rfl, rfl⟩⟩
  | cons p rest ih =>
    intro s
    rw [List.foldl_cons]
    obtain ⟨hs, hj⟩ := ih (set s p.1 { get s p.1 with width := p.2 })
    refine ⟨by rw [hs, size_set], fun j => ?_⟩
    obtain ⟨h1, h2, h3, h4, h5, h6⟩ := hj j
    exact ⟨h1.trans (get_set_field N.data s p.1 j _ rfl), h2.trans (get_set_field N.child s p.1 j _ rfl),
      h3.trans (get_set_field N.parent s p.1 j _ rfl), h4.trans (get_set_field N.ideal s p.1 j _ rfl),
      h5.trans (get_set_field N.cur s p.1 j _ rfl), h6.trans (get_set_field N.layerIndex s p.1 j _ rfl)⟩

theorem MInv.step_setWidths {w : MWorld} (h : MInv w) (b : Nat) (ws : List Rat) : MInv (w.step (.setWidths b ws)) := by
  simp only [MWorld.step]
  cases hc : w.created[b]? with
  | none => exact h
  | some ids =>
    simp only
    obtain ⟨hs, hj⟩ := setWidths_fold (ids.zip ws) w.store
    refine ⟨h.len, ?_, h.perm, ?_, h.ref, h.cur⟩
    · intro b' c hc'
      have g := h.good b' c hc'
      exact ⟨fun i hi => by rw [hs]; exact g.lt i hi, g.nodup, fun i hi => ((hj i).2.1).trans (g.label i hi)⟩
    · intro b' c hc' i hi
      exact ((hj i).1).trans (h.data b' c hc' i hi)

theorem MInv.step {w : MWorld} (h : MInv w) (op : MOp) : MInv (w.step op) := by
  cases op with
  | newEngine o =>
    refine ⟨h.len, h.good, h.perm, h.data, ?_, ?_⟩
    · intro e he b hb
      change e ∈ w.engines ++ [_] at he
      rcases List.mem_append.1 he with he | he
      · exact h.ref e he b hb
      · simp only [List.mem_singleton] at he
        subst he
        cases hb
    · right
      show w.engines.length < (w.engines ++ [_]).length
      rw [List.length_append, List.length_singleton]
      exact Nat.lt_succ_self _
  | switch k =>
    simp only [MWorld.step]
    split
    · next hk => exact ⟨h.len, h.good, h.perm, h.data, h.ref, Or.inr hk⟩
    · exact h
  | setOptions o => exact h.modify_engine _ (fun _ => rfl)
  | freshNodes ls => exact h.step_fresh ls
  | useList b =>
    simp only [MWorld.step]
    split
    · next hb => exact h.set_ref b hb _ (fun _ => rfl)
    · exact h
  | compute => exact h.step_compute
  | setWidths b ws => exact h.step_setWidths b ws

theorem mworld_inv (ops : List MOp) : MInv (MWorld.run ops) := by
  unfold MWorld.run
  have key : ∀ (ops : List MOp) (w : MWorld), MInv w → MInv (ops.foldl MWorld.step w) := by
    intro ops
    induction ops with
    | nil => intro w h; exact h
    | cons op rest ih => intro w h; rw [List.foldl_cons]; exact ih _ (h.step op)
  exact key ops MWorld.init MInv.init

/-- the nodes of any engine are a reordering of a list object as created -/
theorem MInv.engine_nodes {w : MWorld} (h : MInv w) (k : Nat) :
    (w.engineAt k).nodes = [] ∨
      ∃ e b c, w.engines[k]? = some e ∧ e.ref = some b ∧ w.created[b]? = some c ∧ (w.engineAt k).nodes.Perm c := by
  rcases w.engineAt_nodes k with h0 | ⟨e, b, l, he, hr, hl, hn⟩
  · exact Or.inl h0
  · right
    have hb : b < w.created.length := by
      rw [← h.len]
      by_contra hcon
      rw [List.getElem?_eq_none (Nat.le_of_not_lt hcon)] at hl
      cases hl
    refine ⟨e, b, w.created[b], he, hr, List.getElem?_eq_getElem hb, ?_⟩
    rw [hn]
    exact h.perm b l _ hl (List.getElem?_eq_getElem hb)

/-- the node list any engine of a reachable world would lay out is good -/
theorem MInv.engine_good {w : MWorld} (h : MInv w) (k : Nat) : GoodN w.store (w.engineAt k).nodes := by
  rcases h.engine_nodes k with h0 | ⟨e, b, c, _, _, hc, hp⟩
  · rw [h0]; exact GoodN.nil _
  · exact (h.good b c hc).perm hp

theorem MInv.datas_eq {w : MWorld} (h : MInv w) (k : Nat) :
    (w.engineAt k).nodes.map (fun i => (get w.store i).data) = (w.engineAt k).nodes := by
  conv_rhs => rw [← List.map_id (w.engineAt k).nodes]
  apply List.map_congr_left
  intro i hi
  rcases h.engine_nodes k with h0 | ⟨e, b, c, _, _, hc, hp⟩
  · rw [h0] at hi; cases hi
  · exact h.data b c hc i (hp.subset hi)

theorem MInv.datas_nodup {w : MWorld} (h : MInv w) (k : Nat) :
    ((w.engineAt k).nodes.map (fun i => (get w.store i).data)).Nodup := by
  rw [h.datas_eq]; exact (h.engine_good k).nodup

/-- what a `compute` step records: the observation of `computeT` on the current engine, payloads reported as positions in the list as created -/
theorem MWorld.step_compute_outs (w : MWorld) (e : MEngine) (he : w.engines[w.cur]? = some e) :
    (w.step .compute).outs = w.outs ++ [(w.cur,
      (observe (computeT (w.engineAt w.cur) w.store).2 ((computeT (w.engineAt w.cur) w.store).1.layers.getD [])).map
        (fun l => l.map (fun x => { x with data := ((e.ref.bind (fun b => w.created[b]?)).getD []).idxOf x.data })))] ∧
    (w.step .compute).store = (computeT (w.engineAt w.cur) w.store).2 ∧
    ((w.step .compute).engineAt w.cur).layers = (computeT (w.engineAt w.cur) w.store).1.layers ∧
    ((w.step .compute).engineAt w.cur).nodes = (computeT (w.engineAt w.cur) w.store).1.nodes ∧
    ((w.step .compute).engineAt w.cur).opts = (w.engineAt w.cur).opts := by
  have hn := (computeT_nodes (w.engineAt w.cur) w.store).1
  have heng := w.engineAt_some w.cur e he
  have hstep : w.step .compute =
      { w with
        store := (computeT (w.engineAt w.cur) w.store).2,
        lists := (match e.ref with
          | some b => w.lists.modify b (fun _ => (computeT (w.engineAt w.cur) w.store).1.nodes)
          | none => w.lists),
        engines := w.engines.modify w.cur (fun e => { e with layers := (computeT (w.engineAt w.cur) w.store).1.layers }),
        outs := w.outs ++ [(w.cur,
          (observe (computeT (w.engineAt w.cur) w.store).2 ((computeT (w.engineAt w.cur) w.store).1.layers.getD [])).map
            (fun l => l.map (fun x => { x with data := ((e.ref.bind (fun b => w.created[b]?)).getD []).idxOf x.data })))] } := by
    simp only [MWorld.step, he]
    rfl
  have he' : (w.step .compute).engines[w.cur]? =
      some { e with layers := (computeT (w.engineAt w.cur) w.store).1.layers } := by
    rw [hstep]
    simp only [List.getElem?_modify, he, Option.map_eq_map, Option.map_some, if_true]
  have heng' := (w.step .compute).engineAt_some w.cur _ he'
  refine ⟨by rw [hstep], by rw [hstep], by rw [heng'], ?_, by rw [heng', heng]⟩
  rw [heng']
  simp only
  rw [hstep]
  simp only
  cases hr : e.ref with
  | none =>
    have : (w.engineAt w.cur).nodes = [] := by rw [heng, hr]; rfl
    rw [this] at hn
    rw [List.perm_nil.1 hn]
    rfl
  | some b =>
    simp only [Option.bind_some, List.getElem?_modify, if_true]
    cases hl : w.lists[b]? with
    | some l => simp only [Option.map_eq_map, Option.map_some, Option.getD_some]
    | none =>
      have : (w.engineAt w.cur).nodes = [] := by
        rw [heng, hr]; simp only [Option.bind_some, hl, Option.getD_none]
      rw [this] at hn
      rw [List.perm_nil.1 hn]
      rfl

/-- as long as no engine exists nothing has been recorded (so a `compute` step that records nothing leaves no last observation at all) -/
theorem MWorld.outs_nil_of_no_engine (ops : List MOp) (h : (MWorld.run ops).engines = []) : (MWorld.run ops).outs = [] := by
  have hmod : ∀ (l : List MEngine) (c : Nat) (f : MEngine → MEngine), l.modify c f = [] → l = [] := by
    intro l c f hl
    have := congrArg List.length hl
    rw [List.length_modify] at this
    exact List.length_eq_zero_iff.1 this
  have key : ∀ (ops : List MOp) (w : MWorld), (w.engines = [] → w.outs = []) →
      (ops.foldl MWorld.step w).engines = [] → (ops.foldl MWorld.step w).outs = [] := by
    intro ops
    induction ops with
    | nil => intro w hw; exact hw
    | cons op rest ih =>
      intro w hw
      rw [List.foldl_cons]
      apply ih
      cases op with
      | newEngine o =>
        intro hc
        change w.engines ++ [_] = [] at hc
        exact absurd hc (List.append_ne_nil_of_right_ne_nil _ (List.cons_ne_nil _ _))
      | switch k =>
        simp only [MWorld.step]
        split
        · exact hw
        · exact hw
      | setOptions o => intro hc; exact hw (hmod _ _ _ hc)
      | freshNodes ls =>
        simp only [MWorld.step]
        split
        · exact hw
        · intro hc; exact hw (hmod _ _ _ hc)
      | useList b =>
        simp only [MWorld.step]
        split
        · intro hc; exact hw (hmod _ _ _ hc)
        · exact hw
      | compute =>
        simp only [MWorld.step]
        cases he : w.engines[w.cur]? with
        | none => exact hw
        | some e =>
          intro hc
          have := hmod _ _ _ hc
          rw [this] at he
          cases he
      | setWidths b ws =>
        simp only [MWorld.step]
        cases hc : w.created[b]? with
        | none => exact hw
        | some ids => exact hw
  exact key ops MWorld.init (fun _ => rfl) h

end Labella.EngineT
