import Labella.Model.Layout
import Mathlib.Algebra.Order.Field.Rat
import Mathlib.Order.Basic
/-! Kernel-evaluable form of the layout pipeline.

`List.mergeSort` (and `List.merge`) are defined by well-founded recursion and do not reduce in the kernel, so closed
instances of `compute` cannot be checked by `decide +kernel` directly.  A stable merge sort by a total preorder equals
the stable insertion sort `isort`, which is structurally recursive; `compute'` is `compute` with every sort replaced by
`isort`, and `compute'_eq : compute' = compute`. -/
namespace Labella.Layout
open Labella

def insBy {α : Type} (le : α → α → Bool) (a : α) : List α → List α
  | [] => [a]
  | b :: t => if le a b then a :: b :: t else b :: insBy le a t

/-- stable insertion sort -/
def isort {α : Type} (le : α → α → Bool) (l : List α) : List α := l.foldr (insBy le) []

theorem insBy_append {α : Type} (le : α → α → Bool) (a : α) (l₁ l₂ : List α)
    (h1 : ∀ b ∈ l₁, (!le a b) = true) (h2 : ∀ b ∈ l₂, le a b = true) :
    insBy le a (l₁ ++ l₂) = l₁ ++ a :: l₂ := by
  induction l₁ with
  | nil =>
    cases l₂ with
    | nil => rfl
    | cons b t => simp [insBy, h2 b (by simp)]
  | cons c t ih =>
    have hc : le a c = false := by simpa using h1 c (by simp)
    simp only [List.cons_append, insBy, hc, Bool.false_eq_true, if_false]
    rw [ih (fun b hb => h1 b (by simp [hb]))]

theorem mergeSort_eq_isort {α : Type} (le : α → α → Bool)
    (trans : ∀ (a b c : α), le a b → le b c → le a c)
    (total : ∀ (a b : α), le a b || le b a) (l : List α) :
    l.mergeSort le = isort le l := by
  induction l with
  | nil => simp [isort]
  | cons a l ih =>
    obtain ⟨l₁, l₂, e1, e2, h1⟩ := List.mergeSort_cons trans total a l
    have hs := List.pairwise_mergeSort trans total (a :: l)
    rw [e1] at hs
    have h2 : ∀ b ∈ l₂, le a b = true := by
      intro b hb
      have := (List.pairwise_append.1 hs).2.1
      exact List.rel_of_pairwise_cons this hb
    show _ = insBy le a (isort le l)
    rw [← ih, e2, e1, insBy_append le a l₁ l₂ h1 h2]

/-! ### the three sorts of the pipeline -/

theorem sortIds_isort (labels : List Label) :
    sortIds labels = (isort (fun a b => decide (a.1.ideal ≤ b.1.ideal)) labels.zipIdx).map (·.2) := by
  unfold sortIds
  rw [mergeSort_eq_isort]
  · intro a b c hab hbc; simp only [decide_eq_true_eq] at *; exact le_trans hab hbc
  · intro a b; simp only [Bool.or_eq_true, decide_eq_true_eq]; exact le_total _ _

theorem sortItems_isort (items : List (LItem × Nat)) :
    sortItems items = isort (fun a b => decide (a.1.target ≤ b.1.target)) items := by
  unfold sortItems
  rw [mergeSort_eq_isort]
  · intro a b c hab hbc; simp only [decide_eq_true_eq] at *; exact le_trans hab hbc
  · intro a b; simp only [Bool.or_eq_true, decide_eq_true_eq]; exact le_total _ _

theorem countSort_isort (cur : List (Nat × Int)) :
    cur.mergeSort (fun a b => decide (b.2 ≤ a.2)) = isort (fun a b => decide (b.2 ≤ a.2)) cur := by
  rw [mergeSort_eq_isort]
  · intro a b c hab hbc; simp only [decide_eq_true_eq] at *; exact le_trans hbc hab
  · intro a b; simp only [Bool.or_eq_true, decide_eq_true_eq]; exact le_total _ _

/-! ### the pipeline with `isort` -/

def removeOverlap' (o : ROpts) (items : List LItem) : ROut :=
  let sorted := isort (fun a b => decide (a.1.target ≤ b.1.target)) items.zipIdx
  let its := sorted.map (·.1)
  let xs := if its.isEmpty then [] else solveSorted o its
  { order := sorted.map (·.2), xs := xs, pos := xs.map roundHalfEven }

theorem removeOverlap'_eq (o : ROpts) (items : List LItem) : removeOverlap' o items = removeOverlap o items := by
  unfold removeOverlap' removeOverlap
  rw [sortItems_isort]

def punt' (labels : List Label) (o : DOpts) (maxW : Rat) :
    Nat → List (Nat × Int) → Rat → List Nat → List (Nat × Int) × List Nat
  | 0, cur, _, punted => (cur, punted)
  | fuel+1, cur, cw, punted =>
    if decide (Gen.overlapMinLabels < (cur.length : Rat)) && decide (maxW < cw) then
      match isort (fun a b => decide (b.2 ≤ a.2)) cur with
      | [] => (cur, punted)
      | h :: rest =>
        let rest' := rest.map (fun p => if overlaps labels h.1 p.1 then (p.1, p.2 - 1) else p)
        punt' labels o maxW fuel rest' (cw - widthOf labels h.1 + o.stubWidth) (punted ++ [h.1])
    else (cur, punted)

theorem punt'_eq (labels : List Label) (o : DOpts) (maxW : Rat) :
    ∀ (fuel : Nat) (cur : List (Nat × Int)) (cw : Rat) (punted : List Nat),
      punt' labels o maxW fuel cur cw punted = punt labels o maxW fuel cur cw punted := by
  intro fuel
  induction fuel with
  | zero => intro cur cw punted; rw [punt, punt']
  | succ fuel ih =>
    intro cur cw punted
    rw [punt, punt', countSort_isort]
    simp only [ih]
    by_cases hc : (decide (Gen.overlapMinLabels < (cur.length : Rat)) && decide (maxW < cw)) = true
    · rw [if_pos hc, if_pos hc]
      cases isort (fun a b : Nat × Int => decide (b.2 ≤ a.2)) cur <;> rfl
    · rw [if_neg hc, if_neg hc]

def overlapLayers' (labels : List Label) (o : DOpts) (maxW : Rat) :
    Nat → List Nat → List (List Nat)
  | 0, punted => if punted.isEmpty then [] else [punted]
  | fuel+1, punted =>
    let pw := requiredWidth o.nodeSpacing (punted.map (widthOf labels))
    if maxW < pw then
      let counted := punted.map (fun i => (i, ((punted.filter (overlaps labels i)).length : Int)))
      let r := punt' labels o maxW punted.length counted pw []
      (r.1.map (·.1)) :: overlapLayers' labels o maxW fuel r.2
    else if punted.isEmpty then [] else [punted]

theorem overlapLayers'_eq (labels : List Label) (o : DOpts) (maxW : Rat) :
    ∀ (fuel : Nat) (punted : List Nat),
      overlapLayers' labels o maxW fuel punted = overlapLayers labels o maxW fuel punted := by
  intro fuel
  induction fuel with
  | zero => intro punted; rw [overlapLayers, overlapLayers']
  | succ fuel ih =>
    intro punted
    rw [overlapLayers, overlapLayers']
    simp only [punt'_eq, ih]

def distribute' (o : DOpts) (labels : List Label) : List (List Ref) :=
  if labels.isEmpty then [] else
  match o.algorithm with
  | .none => [(List.range labels.length).map Ref.label]
  | alg =>
    let ids := (isort (fun a b => decide (a.1.ideal ≤ b.1.ideal)) labels.zipIdx).map (·.2)
    let nl := estimateLayers o (ids.map (widthOf labels))
    if nl ≤ 1 then [ids.map Ref.label] else
    match alg with
    | .simple => simpleLayers ids nl.toNat
    | _ => withStubs (overlapLayers' labels o (maxWidthPerLayer o) (ids.length + 1) ids)

theorem distribute'_eq (o : DOpts) (labels : List Label) : distribute' o labels = distribute o labels := by
  unfold distribute' distribute
  simp only [overlapLayers'_eq, ← sortIds_isort]
  rcases o with ⟨alg, a, b, c, d⟩
  cases alg <;> rfl

def placeLayer' (o : FOpts) (labels : List Label) (prev : Option (List Placed)) (layer : List Ref) :
    List Placed :=
  let out := removeOverlap' o.toR (layer.map (layerItem o labels prev))
  List.zipWith (fun idx p => { ref := layer.getD idx (Ref.label 0), pos := p }) out.order out.pos

theorem placeLayer'_eq (o : FOpts) (labels : List Label) (prev : Option (List Placed)) (layer : List Ref) :
    placeLayer' o labels prev layer = placeLayer o labels prev layer := by
  unfold placeLayer' placeLayer
  rw [removeOverlap'_eq]

def placeLayers' (o : FOpts) (labels : List Label) :
    Option (List Placed) → List (List Ref) → List (List Placed)
  | _, [] => []
  | prev, l :: ls =>
    let placed := placeLayer' o labels prev l
    placed :: placeLayers' o labels (some placed) ls

theorem placeLayers'_eq (o : FOpts) (labels : List Label) :
    ∀ (layers : List (List Ref)) (prev : Option (List Placed)),
      placeLayers' o labels prev layers = placeLayers o labels prev layers := by
  intro layers
  induction layers with
  | nil => intro prev; rfl
  | cons l ls ih =>
    intro prev
    simp only [placeLayers', placeLayers, placeLayer'_eq, ih]

/-- `compute` with every merge sort replaced by the (equal) stable insertion sort: reduces in the kernel -/
def compute' (o : FOpts) (labels : List Label) : List (List Placed) :=
  placeLayers' o labels none (distribute' o.toD labels)

theorem compute'_eq (o : FOpts) (labels : List Label) : compute' o labels = compute o labels := by
  unfold compute' compute
  rw [distribute'_eq, placeLayers'_eq]

end Labella.Layout
