import Labella.Model.QP
import Labella.Model.Chain
import Mathlib.Algebra.Order.Field.Rat
import Mathlib.Algebra.BigOperators.Group.List.Basic
import Mathlib.Algebra.BigOperators.Group.Finset.Basic
import Mathlib.Algebra.BigOperators.Ring.Finset
import Mathlib.Algebra.Order.BigOperators.Group.Finset
import Mathlib.Algebra.Order.BigOperators.Group.List
import Mathlib.Tactic.Ring
import Mathlib.Tactic.Linarith
import Mathlib.Tactic.FieldSimp
/-! Helper lemmas for C05: list sums as `Finset.range` sums, the double-sum exchange for `net`, and the
complete-the-square identity behind weak duality. -/
namespace Labella.QP
open Labella Finset

/-! ### list sums as range sums -/

/-- a mapped list sum, read index by index -/
theorem sum_map_eq_sum_range {α : Type} (l : List α) (f : α → ℚ) :
    (l.map f).sum = ∑ i ∈ range l.length, ((l[i]?).map f).getD 0 := by
  induction l with
  | nil => simp
  | cons a t ih =>
    rw [List.length_cons, Finset.sum_range_succ', List.map_cons, List.sum_cons, ih]
    simp [add_comm]

/-! ### variable accessors by index -/

def vd (I : Inst) (i : ℕ) : ℚ := ((I.vars[i]?).map (·.d)).getD 0
def vw (I : Inst) (i : ℕ) : ℚ := ((I.vars[i]?).map (·.w)).getD 0

theorem cost_eq (I : Inst) (x : List ℚ) (hx : x.length = I.vars.length) :
    cost I x = ∑ i ∈ range I.vars.length, vw I i * (pos x i - vd I i) * (pos x i - vd I i) := by
  unfold cost
  rw [sum_map_eq_sum_range]
  have hl : (I.vars.zip x).length = I.vars.length := by simp [hx]
  rw [hl]
  apply Finset.sum_congr rfl
  intro i hi
  have hi' : i < I.vars.length := Finset.mem_range.mp hi
  have hix : i < x.length := by omega
  simp [vw, vd, pos, hi', hix, List.getD_eq_getElem?_getD]

theorem pos_dualPoint (I : Inst) (lam : List ℚ) (i : ℕ) (hi : i < I.vars.length) :
    pos (dualPoint I lam) i = vd I i + net I lam i / (2 * vw I i) := by
  simp [pos, dualPoint, vd, vw, List.getD_eq_getElem?_getD, hi]

theorem dualPoint_length (I : Inst) (lam : List ℚ) : (dualPoint I lam).length = I.vars.length := by
  simp [dualPoint]


/-! ### the double-sum exchange for `net` -/

/-- `net` over an arbitrary list of (constraint, multiplier) pairs -/
def netL (I : Inst) (ps : List (Con × ℚ)) (i : ℕ) : ℚ :=
  (ps.map fun p =>
    p.2 * ((if p.1.r = i then scaleOf I i else 0) - (if p.1.l = i then scaleOf I i else 0))).sum

theorem net_eq_netL (I : Inst) (lam : List ℚ) (i : ℕ) : net I lam i = netL I (I.cons.zip lam) i := rfl

theorem sum_mul_netL (I : Inst) (n : ℕ) (a : ℕ → ℚ) (ps : List (Con × ℚ))
    (hps : ∀ p ∈ ps, p.1.l < n ∧ p.1.r < n) :
    ∑ i ∈ range n, a i * netL I ps i
      = (ps.map fun p => p.2 * (scaleOf I p.1.r * a p.1.r - scaleOf I p.1.l * a p.1.l)).sum := by
  induction ps with
  | nil => simp [netL]
  | cons p t ih =>
    have ht : ∀ q ∈ t, q.1.l < n ∧ q.1.r < n := fun q hq => hps q (List.mem_cons_of_mem _ hq)
    obtain ⟨hl, hr⟩ := hps p List.mem_cons_self
    have hstep : ∀ i, a i * netL I (p :: t) i
        = p.2 * ((if p.1.r = i then scaleOf I i * a i else 0) - (if p.1.l = i then scaleOf I i * a i else 0))
          + a i * netL I t i := by
      intro i
      simp only [netL, List.map_cons, List.sum_cons]
      split_ifs <;> ring
    simp only [hstep, Finset.sum_add_distrib, ih ht, List.map_cons, List.sum_cons]
    rw [← Finset.mul_sum, Finset.sum_sub_distrib, Finset.sum_ite_eq, Finset.sum_ite_eq]
    simp [hl, hr]

/-! ### complete the square -/

theorem square_identity (w d z nt : ℚ) (hw : 0 < w) :
    w * (z - d) * (z - d) - w * ((d + nt / (2 * w)) - d) * ((d + nt / (2 * w)) - d)
      = w * (z - (d + nt / (2 * w))) * (z - (d + nt / (2 * w))) + (z - (d + nt / (2 * w))) * nt := by
  have : w ≠ 0 := ne_of_gt hw
  field_simp
  ring


theorem list_sum_map_sub {α : Type} (l : List α) (f g : α → ℚ) :
    (l.map fun p => f p - g p).sum = (l.map f).sum - (l.map g).sum := by
  induction l with
  | nil => simp
  | cons a t ih => simp only [List.map_cons, List.sum_cons, ih]; ring

/-! ### well-formedness -/

theorem wf_weights {I : Inst} (hwf : wellFormedB I = true) : ∀ v ∈ I.vars, 0 < v.w := by
  unfold wellFormedB at hwf
  rw [Bool.and_eq_true, List.all_eq_true] at hwf
  intro v hv
  simpa using hwf.1 v hv

theorem wf_cons {I : Inst} (hwf : wellFormedB I = true) :
    ∀ c ∈ I.cons, c.l < I.vars.length ∧ c.r < I.vars.length := by
  unfold wellFormedB at hwf
  rw [Bool.and_eq_true, List.all_eq_true, List.all_eq_true] at hwf
  intro c hc
  simpa using hwf.2 c hc

theorem vw_pos {I : Inst} (hwf : wellFormedB I = true) {i : ℕ} (hi : i < I.vars.length) : 0 < vw I i := by
  have := wf_weights hwf (I.vars[i]) (List.getElem_mem hi)
  simpa [vw, hi] using this

/-! ### the Lagrangian at `z` versus at the dual point -/

/-- `L(z) = L(y) + Σ wᵢ (zᵢ − yᵢ)²` for the stationary point `y = dualPoint I lam` -/
theorem lagrangian_eq (I : Inst) (lam : List ℚ) (hwf : wellFormedB I = true)
    (z : List ℚ) (hz : z.length = I.vars.length) :
    cost I z - ((I.cons.zip lam).map fun p => p.2 * slack I z p.1).sum
      = dualValue I lam
        + ∑ i ∈ range I.vars.length,
            vw I i * (pos z i - pos (dualPoint I lam) i) * (pos z i - pos (dualPoint I lam) i) := by
  have hps : ∀ p ∈ I.cons.zip lam, p.1.l < I.vars.length ∧ p.1.r < I.vars.length :=
    fun p hp => wf_cons hwf p.1 (List.of_mem_zip hp).1
  have hN := sum_mul_netL I I.vars.length (fun i => pos z i - pos (dualPoint I lam) i) (I.cons.zip lam) hps
  have hS : (∑ i ∈ range I.vars.length, vw I i * (pos z i - vd I i) * (pos z i - vd I i))
      - ∑ i ∈ range I.vars.length,
          vw I i * (pos (dualPoint I lam) i - vd I i) * (pos (dualPoint I lam) i - vd I i)
      = (∑ i ∈ range I.vars.length,
            vw I i * (pos z i - pos (dualPoint I lam) i) * (pos z i - pos (dualPoint I lam) i))
        + ∑ i ∈ range I.vars.length, (pos z i - pos (dualPoint I lam) i) * netL I (I.cons.zip lam) i := by
    rw [← Finset.sum_sub_distrib, ← Finset.sum_add_distrib]
    apply Finset.sum_congr rfl
    intro i hi
    have hi' : i < I.vars.length := Finset.mem_range.mp hi
    rw [pos_dualPoint I lam i hi', ← net_eq_netL]
    exact square_identity _ _ _ _ (vw_pos hwf hi')
  have hD : (I.cons.zip lam).map (fun p => p.2 *
        (scaleOf I p.1.r * (pos z p.1.r - pos (dualPoint I lam) p.1.r)
          - scaleOf I p.1.l * (pos z p.1.l - pos (dualPoint I lam) p.1.l)))
      = (I.cons.zip lam).map (fun p => p.2 * slack I z p.1 - p.2 * slack I (dualPoint I lam) p.1) := by
    apply List.map_congr_left
    intro p _
    simp only [slack]; ring
  rw [hD, list_sum_map_sub] at hN
  simp only [dualValue]
  rw [cost_eq I z hz, cost_eq I _ (dualPoint_length I lam)]
  linarith


/-! ### multipliers and the clipped list -/

theorem clip_nonneg (lam : List ℚ) : ∀ l ∈ clip lam, 0 ≤ l := by
  intro l hl
  simp only [clip, List.mem_map] at hl
  obtain ⟨a, _, rfl⟩ := hl
  unfold ratMax
  split_ifs with h
  · exact h
  · exact le_refl 0

theorem clip_length (lam : List ℚ) : (clip lam).length = lam.length := by simp [clip]

/-- `Σ λ_c · slack_c(z) ≥ 0` for `λ ≥ 0` and `z` feasible -/
theorem mult_slack_nonneg (I : Inst) (lam z : List ℚ) (hpos : ∀ l ∈ lam, 0 ≤ l)
    (hfeas : ∀ c ∈ I.cons, 0 ≤ slack I z c) :
    0 ≤ ((I.cons.zip lam).map fun p => p.2 * slack I z p.1).sum := by
  apply List.sum_nonneg
  intro t ht
  obtain ⟨p, hp, rfl⟩ := List.mem_map.mp ht
  have := List.of_mem_zip hp
  exact mul_nonneg (hpos _ this.2) (hfeas _ this.1)

/-! ### chains -/

theorem wdist_nonneg (vars : List Chain.Item) (xs zs : List ℚ) (hw : ∀ v ∈ vars, 0 < v.w) :
    0 ≤ Chain.wdist vars xs zs := by
  unfold Chain.wdist
  apply List.sum_nonneg
  intro t ht
  obtain ⟨p, hp, rfl⟩ := List.mem_map.mp ht
  have hwp := hw _ (List.of_mem_zip hp).1
  rw [mul_assoc]
  exact mul_nonneg hwp.le (mul_self_nonneg _)

end Labella.QP
