import Labella.Proofs.VpscBlockList
/-! # `Block.split` keeps the position statistics exact; the block list after `split` + `insert` + `insert` + `remove`

`blockSplit` is a sequence of elementary steps (`SStep`): flag changes, the creation of an empty block object, and
"place variable `w` in the NEW block `b` with a new offset".  If, at the end, the `vars` lists of the new blocks are
duplicate-free and pairwise disjoint (which `SplitDesc` says), no variable was placed twice, hence the statistics accumulated
by `addVariable` are those of the final offsets. -/
namespace Labella.Vpsc

/-- an empty block object -/
def emptyB (σ : Rat) : B := { vars := [], scale := σ, AB := 0, AD := 0, A2 := 0, posn := 0, ind := 0 }

inductive SStep (n0 : Nat) : St → St → Prop
  | err (s : St) (e : Bool) : SStep n0 s { s with err := e }
  | setC (s : St) (ci : Nat) (c : C) : SStep n0 s (Vpsc.setC s ci c)
  | push (s : St) (σ : Rat) (hσ : σ ≠ 0) (h : n0 ≤ s.bs.size) : SStep n0 s (pushB s (emptyB σ))
  | place (s : St) (w b : Nat) (o : Rat) (hb : n0 ≤ b) (hlt : b < s.bs.size) :
      SStep n0 s (addVariable (setV s w { getV s w with offset := o }) b w)

def Steps (n0 : Nat) : St → St → Prop := Relation.ReflTransGen (SStep n0)

theorem Steps.refl (n0 : Nat) (s : St) : Steps n0 s s := Relation.ReflTransGen.refl
theorem Steps.trans {n0 : Nat} {a b c : St} (h1 : Steps n0 a b) (h2 : Steps n0 b c) : Steps n0 a c :=
  Relation.ReflTransGen.trans h1 h2
theorem SStep.steps {n0 : Nat} {a b : St} (h : SStep n0 a b) : Steps n0 a b := Relation.ReflTransGen.single h

/-- what every step preserves -/
structure SFacts (n0 : Nat) (s s' : St) : Prop where
  list_eq : s'.list = s.list
  bsize : s.bs.size ≤ s'.bs.size
  scale : ∀ i, (getV s' i).s = (getV s i).s

theorem SStep.facts {n0 : Nat} {s s' : St} (h : SStep n0 s s') : SFacts n0 s s' := by
  cases h with
  | err e => exact ⟨rfl, Nat.le_refl _, fun _ => rfl⟩
  | setC ci c => exact ⟨rfl, Nat.le_refl _, fun _ => rfl⟩
  | push σ hσ h => exact ⟨rfl, by simp, fun _ => rfl⟩
  | place w b o hb hlt =>
    refine ⟨by simp [addVariable], by simp [addVariable], fun i => ?_⟩
    by_cases hi : i = w
    · subst hi
      rw [getV_addVariable, getV_setV]
      split_ifs <;> rfl
    · rw [getV_addVariable, if_neg (fun h => hi h.1), getV_setV, if_neg (fun h => hi h.1)]

theorem Steps.facts {n0 : Nat} {s s' : St} (h : Steps n0 s s') : SFacts n0 s s' := by
  induction h with
  | refl => exact ⟨rfl, Nat.le_refl _, fun _ => rfl⟩
  | tail _ hst ih =>
    have f := hst.facts
    exact ⟨f.list_eq.trans ih.list_eq, Nat.le_trans ih.bsize f.bsize, fun i => (f.scale i).trans (ih.scale i)⟩

/-- the `vars` lists of the new blocks are duplicate-free and pairwise disjoint -/
def NewDisj (n0 : Nat) (s : St) : Prop :=
  ∀ b, n0 ≤ b → b < s.bs.size → (getB s b).vars.Nodup ∧
    ∀ b', n0 ≤ b' → b' < s.bs.size → b ≠ b' → ∀ i ∈ (getB s b).vars, i ∉ (getB s b').vars

def NewStats (n0 : Nat) (s : St) : Prop := ∀ b, n0 ≤ b → b < s.bs.size → StatsB s b

theorem emptyB_statsOK (s : St) (σ : Rat) (hσ : σ ≠ 0) : StatsOK s (emptyB σ) := by
  refine ⟨hσ, ?_, ?_, ?_, ?_⟩ <;> simp [emptyB, sumAB, sumAD, sumA2, getPosn]

theorem addVariable_vars (s : St) (b w k : Nat) (hb : b < s.bs.size) :
    (getB (addVariable s b w) k).vars = if k = b then (getB s b).vars ++ [w] else (getB s k).vars := by
  by_cases hk : k = b
  · subst hk
    rw [if_pos rfl, getB_addVariable_vars _ _ _ hb]
  · rw [if_neg hk, getB_addVariable_ne _ _ _ _ hk]

theorem SStep.back {n0 : Nat} {s s' : St} (h : SStep n0 s s') (hd : NewDisj n0 s') :
    NewDisj n0 s ∧ (NewStats n0 s → NewStats n0 s') := by
  cases h with
  | err e => exact ⟨hd, fun hs => hs⟩
  | setC ci c => exact ⟨hd, fun hs => hs⟩
  | push σ hσ h =>
    have hB := getB_pushB s (emptyB σ)
    constructor
    · intro b hb hlt
      have hne : b ≠ s.bs.size := by omega
      obtain ⟨h1, h2⟩ := hd b hb (by simp; omega)
      rw [hB, if_neg hne] at h1 h2
      refine ⟨h1, fun b' hb' hlt' hbb' => ?_⟩
      have hne' : b' ≠ s.bs.size := by omega
      have := h2 b' hb' (by simp; omega) hbb'
      rw [hB, if_neg hne'] at this
      exact this
    · intro hs b hb hlt
      simp only [pushB_bs_size] at hlt
      by_cases hbs : b = s.bs.size
      · show StatsOK _ (getB _ _)
        rw [hB, if_pos hbs]
        exact emptyB_statsOK _ σ hσ
      · refine StatsB.congr (st := s) (b := b) ?_ (fun i _ => VSame.rfl' _) (hs b hb (by omega))
        rw [hB, if_neg hbs]
        exact BSame.rfl' _
  | place w b o hb hlt =>
    have hsz : (addVariable (setV s w { getV s w with offset := o }) b w).bs.size = s.bs.size := by
      simp [addVariable]
    have hvars : ∀ k, (getB (addVariable (setV s w { getV s w with offset := o }) b w) k).vars =
        if k = b then (getB s b).vars ++ [w] else (getB s k).vars := by
      intro k
      rw [addVariable_vars _ _ _ _ (by simpa using hlt)]
      simp only [getB_setV]
    have hnw : ∀ k, n0 ≤ k → k < s.bs.size → w ∉ (getB s k).vars := by
      intro k hk hklt hmem
      by_cases hkb : k = b
      · subst hkb
        have := (hd k hk (by rw [hsz]; exact hklt)).1
        rw [hvars, if_pos rfl] at this
        have := (List.nodup_append.1 this).2.2 w hmem w (List.mem_singleton_self w)
        exact this rfl
      · have := (hd k hk (by rw [hsz]; exact hklt)).2 b hb (by rw [hsz]; exact hlt) hkb w
        rw [hvars, if_neg hkb, hvars, if_pos rfl] at this
        exact this hmem (List.mem_append_right _ (List.mem_singleton_self w))
    constructor
    · intro k hk hklt
      obtain ⟨h1, h2⟩ := hd k hk (by rw [hsz]; exact hklt)
      constructor
      · rw [hvars] at h1
        split at h1
        · next hkb => rw [hkb]; exact (List.nodup_append.1 h1).1
        · exact h1
      · intro k' hk' hklt' hkk' i hi
        have := h2 k' hk' (by rw [hsz]; exact hklt') hkk' i
        rw [hvars, hvars] at this
        intro hi'
        refine this ?_ ?_
        · split
          · next hkb => rw [← hkb]; exact List.mem_append_left _ hi
          · exact hi
        · split
          · next hkb => rw [← hkb]; exact List.mem_append_left _ hi'
          · exact hi'
    · intro hs k hk hklt
      rw [hsz] at hklt
      have h0 := setV_statsB s k w { getV s w with offset := o } (hnw k hk hklt) (hs k hk hklt)
      by_cases hkb : k = b
      · subst hkb
        exact addVariable_statsB _ _ _ (by simpa using hklt) (by rw [getB_setV]; exact hnw k hk hklt) h0
      · exact addVariable_statsB_ne _ _ _ _ hkb (by rw [getB_setV]; exact hnw k hk hklt) h0

theorem Steps.back {n0 : Nat} {s s' : St} (h : Steps n0 s s') (hs : NewStats n0 s) (hd : NewDisj n0 s') :
    NewStats n0 s' := by
  induction h with
  | refl => exact hs
  | tail _ hst ih =>
    obtain ⟨h1, h2⟩ := hst.back hd
    exact h2 (ih h1)


/-! ## `blockSplit` as a sequence of steps -/

theorem visit_step (n0 : Nat) (s : St) (b v c w : Nat) (hb : n0 ≤ b) (hlt : b < s.bs.size) :
    SStep n0 s (visit s b v c w) := by
  unfold visit
  exact SStep.place s w b _ hb hlt

theorem populate_steps (n0 b : Nat) (hb : n0 ≤ b) (fuel : Nat) : ∀ (s : St) (v : Nat) (prev : Option Nat),
    b < s.bs.size → Steps n0 s (populateSplitBlock fuel s b v prev) := by
  induction fuel with
  | zero => intro s v prev _; exact (SStep.err s true).steps
  | succ fuel ih =>
    intro s v prev hlt
    rw [populate_succ]
    refine foldl_invS (fun acc => Steps n0 s acc) _ _ _ (Steps.refl _ _) ?_
    intro acc x _ hacc
    unfold pstep
    split
    · have hlt' : b < acc.bs.size := Nat.lt_of_lt_of_le hlt hacc.facts.bsize
      exact (hacc.trans (visit_step n0 acc b v x.1 x.2 hb hlt').steps).trans
        (ih _ _ _ (by rw [visit_bs_size]; exact hlt'))
    · exact hacc

theorem newBlock_steps (n0 : Nat) (s : St) (i : Nat) (hn : n0 ≤ s.bs.size) (hσ : (getV s i).s ≠ 0) :
    Steps n0 s (newBlock s i).1 := by
  have e : (newBlock s i).1 = addVariable (setV (pushB s (emptyB (getV s i).s)) i
      { getV (pushB s (emptyB (getV s i).s)) i with offset := 0 }) s.bs.size i := by
    rw [newBlock_fst]
    have : (getV (setV s i { getV s i with offset := 0 }) i).s = (getV s i).s := by
      rw [getV_setV]; split <;> rfl
    rw [this]
    rfl
  rw [e]
  exact (SStep.push s _ hσ hn).steps.trans (SStep.place _ i s.bs.size 0 hn (by simp)).steps

theorem createSplitBlock_steps (n0 : Nat) (s : St) (start : Nat) (hn : n0 ≤ s.bs.size) (hσ : (getV s start).s ≠ 0) :
    Steps n0 s (createSplitBlock s start).1 := by
  rw [createSplitBlock_fst]
  refine (newBlock_steps n0 s start hn hσ).trans (populate_steps n0 _ hn _ _ _ _ ?_)
  simp [newBlock_fst, addVariable]

theorem blockSplit_steps (st : St) (ci : Nat) (hl : (getV st (getC st ci).l).s ≠ 0) (hr : (getV st (getC st ci).r).s ≠ 0) :
    Steps st.bs.size st (blockSplit st ci).1 := by
  rw [blockSplit_fst]
  have e1 : (getC (setC st ci { getC st ci with active := false }) ci).l = (getC st ci).l := by
    rw [getC_setC]; split <;> rfl
  have e2 : (getC (setC st ci { getC st ci with active := false }) ci).r = (getC st ci).r := by
    rw [getC_setC]; split <;> rfl
  rw [e1, e2]
  have s0 := (SStep.setC (n0 := st.bs.size) st ci { getC st ci with active := false }).steps
  have s1 := createSplitBlock_steps st.bs.size (setC st ci { getC st ci with active := false }) (getC st ci).l
    (Nat.le_refl _) hl
  have s01 := s0.trans s1
  have s2 := createSplitBlock_steps st.bs.size _ (getC st ci).r s01.facts.bsize
    (by rw [s01.facts.scale]; exact hr)
  exact s01.trans s2


/-! ## the state after `blockSplit` -/

/-- where a variable ends up: in the new block of `l`, in the new block of `r`, or where it was (a block other than the one split) -/
theorem split_tri {st : St} {ci : Nat} {sp : St} (D : SplitDesc st ci sp) (hinv : Inv st) (hci : ci < st.cs.size)
    (_ha : (getC st ci).active = true) (u : Nat) (hu : u < st.vs.size) :
    ((getV sp u).block = st.bs.size ∧ Conn st (some ci) (getC st ci).l u) ∨
    ((getV sp u).block = st.bs.size + 1 ∧ Conn st (some ci) (getC st ci).r u) ∨
    ((getV sp u).block = (getV st u).block ∧ (getV sp u).offset = (getV st u).offset ∧
      (getV st u).block < st.bs.size ∧ (getV st u).block ≠ (getV st (getC st ci).l).block) := by
  by_cases h1 : Conn st (some ci) (getC st ci).l u
  · exact Or.inl ⟨(D.inL u h1).2.1, h1⟩
  · by_cases h2 : Conn st (some ci) (getC st ci).r u
    · exact Or.inr (Or.inl ⟨(D.inR u h2).2.1, h2⟩)
    · refine Or.inr (Or.inr ⟨(D.out u h1 h2).1, (D.out u h1 h2).2, hinv.wf.block_lt u hu, ?_⟩)
      intro hb
      have hc := (hinv.comps u _ hu (hinv.wf.lr ci hci).1).1 hb
      rcases conn_cover hc.symmS with h | h
      · exact h1 h
      · exact h2 h

theorem blockSplit_stats (st : St) (ci : Nat) (hinv : Inv st) (hadj : AdjNodup st) (hci : ci < st.cs.size)
    (ha : (getC st ci).active = true) (herr : (blockSplit st ci).1.err = false) (hs : StatsInv st) :
    (blockSplit st ci).1.list = st.list ∧ StatsInv (blockSplit st ci).1 := by
  have D := blockSplit_desc st ci hinv hci ha herr
  obtain ⟨hl, hr⟩ := hinv.wf.lr ci hci
  have hS := blockSplit_steps st ci (hinv.wf.scale_ne _ hl) (hinv.wf.scale_ne _ hr)
  generalize (blockSplit st ci).1 = sp at *
  refine ⟨hS.facts.list_eq, ?_⟩
  have hdisj : ∀ u, Conn st (some ci) (getC st ci).l u → Conn st (some ci) (getC st ci).r u → False :=
    fun u h1' h2' => hinv.forest ci hci ha (h1'.trans h2'.symmS)
  have hND : NewDisj st.bs.size sp := by
    intro b hb hlt
    rw [D.bsize] at hlt
    have hb' : b = st.bs.size ∨ b = st.bs.size + 1 := by omega
    rcases hb' with rfl | rfl
    · refine ⟨D.ndL hadj, fun b' hb' hlt' hne i hi hi' => ?_⟩
      rw [D.bsize] at hlt'
      have : b' = st.bs.size + 1 := by omega
      subst this
      exact hdisj i ((D.varsL i).1 hi) ((D.varsR i).1 hi')
    · refine ⟨D.ndR hadj, fun b' hb' hlt' hne i hi hi' => ?_⟩
      rw [D.bsize] at hlt'
      have : b' = st.bs.size := by omega
      subst this
      exact hdisj i ((D.varsL i).1 hi') ((D.varsR i).1 hi)
  have hNS : NewStats st.bs.size sp := hS.back (fun b h1 h2 => absurd h2 (by omega)) hND
  intro v hv
  rw [D.vsize] at hv
  rcases split_tri D hinv hci ha v hv with ⟨e, _⟩ | ⟨e, _⟩ | ⟨e, _, e2, e3⟩
  · rw [e]; exact hNS _ (Nat.le_refl _) (by rw [D.bsize]; omega)
  · rw [e]; exact hNS _ (Nat.le_succ _) (by rw [D.bsize]; omega)
  · rw [e]
    refine StatsB.congr (st := st) (b := (getV st v).block) ?_ (fun i hi => ?_) (hs v hv)
    · rw [D.bother _ (by omega) (by omega)]; exact BSame.rfl' _
    · obtain ⟨hi1, hi2⟩ := (hinv.members v hv i).1 hi
      obtain ⟨a1, a2, a3, a4, _⟩ := D.vstat i
      refine ⟨a2, a3, ?_, a1⟩
      have hcv := (hinv.comps i v hi1 hv).1 hi2
      have hadjlr : Adj st none (getC st ci).l (getC st ci).r := ⟨ci, hci, by simp, ha, Or.inl ⟨rfl, rfl⟩⟩
      rcases split_tri D hinv hci ha i hi1 with ⟨_, c⟩ | ⟨_, c⟩ | ⟨_, c, _⟩
      · exact absurd ((hinv.comps _ v hl hv).2 (c.to_noneS.trans hcv)).symm e3
      · exact absurd ((hinv.comps _ v hl hv).2 (hadjlr.connS.trans (c.to_noneS.trans hcv))).symm e3
      · exact c


/-! ## the ids of the two new blocks -/

theorem populate_bs_size (b : Nat) (fuel : Nat) : ∀ (s : St) (v : Nat) (prev : Option Nat),
    (populateSplitBlock fuel s b v prev).bs.size = s.bs.size := by
  induction fuel with
  | zero => intro s v prev; rfl
  | succ fuel ih =>
    intro s v prev
    rw [populate_succ]
    refine foldl_invS (fun acc : St => acc.bs.size = s.bs.size) _ _ _ rfl ?_
    intro acc x _ hacc
    unfold pstep
    split
    · rw [ih, visit_bs_size]; exact hacc
    · exact hacc

theorem createSplitBlock_bs_size (s : St) (start : Nat) : (createSplitBlock s start).1.bs.size = s.bs.size + 1 := by
  rw [createSplitBlock_fst, populate_bs_size]
  simp [newBlock_fst, addVariable]

theorem blockSplit_ids (st : St) (ci : Nat) : (blockSplit st ci).2.1 = st.bs.size ∧ (blockSplit st ci).2.2 = st.bs.size + 1 := by
  unfold blockSplit
  simp only
  rw [createSplitBlock_snd, createSplitBlock_snd, createSplitBlock_bs_size]
  exact ⟨rfl, rfl⟩

/-- the block list after `split` + `insert` + `insert` + `remove` -/
theorem split_listInv (st : St) (ci : Nat) (hinv : Inv st) (hci : ci < st.cs.size)
    (ha : (getC st ci).active = true) (herr : (blockSplit st ci).1.err = false) (hL : ListInv st) :
    ListInv (removeBlock (insertBlock (insertBlock (blockSplit st ci).1 (blockSplit st ci).2.1) (blockSplit st ci).2.2)
      (getV st (getC st ci).l).block) := by
  have D := blockSplit_desc st ci hinv hci ha herr
  obtain ⟨hl, hr⟩ := hinv.wf.lr ci hci
  have hS := blockSplit_steps st ci (hinv.wf.scale_ne _ hl) (hinv.wf.scale_ne _ hr)
  rw [(blockSplit_ids st ci).1, (blockSplit_ids st ci).2]
  generalize (blockSplit st ci).1 = sp at *
  have hlist : sp.list = st.list := hS.facts.list_eq
  have hlt0 : ∀ x ∈ st.list.toList, x < st.bs.size := by
    intro x hx
    obtain ⟨v, hv, e⟩ := hL.inuse x hx
    rw [← e]; exact hinv.wf.block_lt v hv
  have hI0 : IndOK sp := by
    intro k hk
    rw [hlist] at hk ⊢
    have hx := hlt0 _ ((FrameAux.natArr_mem_toList_iff _ _).2 ⟨k, hk, rfl⟩)
    rw [D.bother _ (by omega) (by omega)]
    exact hL.indOK k hk
  obtain ⟨I1, m1⟩ := insertBlock_indOK sp st.bs.size (by rw [D.bsize]; omega)
    (by rw [hlist]; intro h; exact absurd (hlt0 _ h) (by omega)) hI0
  have hb1 := (insertBlock_coreEq sp st.bs.size).bsize
  have hE1 := insertBlock_statEq sp st.bs.size
  generalize insertBlock sp st.bs.size = s1 at *
  obtain ⟨I2, m2⟩ := insertBlock_indOK s1 (st.bs.size + 1) (by rw [D.bsize] at hb1; omega)
    (by
      rw [m1, hlist]
      rintro (h | h)
      · exact absurd (hlt0 _ h) (by omega)
      · omega) I1
  have hb2 := (insertBlock_coreEq s1 (st.bs.size + 1)).bsize
  have hE2 := insertBlock_statEq s1 (st.bs.size + 1)
  generalize insertBlock s1 (st.bs.size + 1) = s2 at *
  have hV : ∀ i, getV s2 i = getV sp i := fun i => (hE2.getV i).trans (hE1.getV i)
  have hvs : s2.vs.size = st.vs.size := by rw [hE2.vs_eq, hE1.vs_eq]; exact D.vsize
  have hmem : ∀ x, x ∈ s2.list.toList ↔ (x ∈ st.list.toList ∨ x = st.bs.size ∨ x = st.bs.size + 1) := by
    intro x; rw [m2, m1, hlist]; tauto
  have hold := hL.covers _ hl
  have hadjlr : Adj st none (getC st ci).l (getC st ci).r := ⟨ci, hci, by simp, ha, Or.inl ⟨rfl, rfl⟩⟩
  apply removeBlock_listInv s2 _ I2
  · rw [hmem]; exact Or.inl hold
  · intro x hx
    rw [D.bsize] at hb1
    rcases (hmem x).1 hx with h | h | h
    · have := hlt0 x h; omega
    · omega
    · omega
  · intro v hv
    rw [hvs] at hv
    rw [hV, hmem]
    have := hlt0 _ hold
    rcases split_tri D hinv hci ha v hv with ⟨e, _⟩ | ⟨e, _⟩ | ⟨e, _, e2, e3⟩
    · rw [e]; exact ⟨Or.inr (Or.inl rfl), by omega⟩
    · rw [e]; exact ⟨Or.inr (Or.inr rfl), by omega⟩
    · rw [e]; exact ⟨Or.inl (hL.covers v hv), e3⟩
  · intro x hx hne
    rcases (hmem x).1 hx with h | h | h
    · obtain ⟨v, hv, e⟩ := hL.inuse x h
      refine ⟨v, by rw [hvs]; exact hv, ?_⟩
      rw [hV]
      rcases split_tri D hinv hci ha v hv with ⟨_, c⟩ | ⟨_, c⟩ | ⟨e1, _⟩
      · exact absurd (e.symm.trans ((hinv.comps _ v hl hv).2 c.to_noneS).symm) hne
      · exact absurd (e.symm.trans ((hinv.comps _ v hl hv).2 (hadjlr.connS.trans c.to_noneS)).symm) hne
      · exact e1.trans e
    · refine ⟨_, by rw [hvs]; exact hl, ?_⟩
      rw [hV, h]; exact (D.inL _ (Conn.reflS _ _ _)).2.1
    · refine ⟨_, by rw [hvs]; exact hr, ?_⟩
      rw [hV, h]; exact (D.inR _ (Conn.reflS _ _ _)).2.1

/-- the statistics after `split` + `insert` + `insert` + `remove` -/
theorem split_statsInv (st : St) (ci : Nat) (hinv : Inv st) (hadj : AdjNodup st) (hci : ci < st.cs.size)
    (ha : (getC st ci).active = true) (herr : (blockSplit st ci).1.err = false) (hs : StatsInv st) (old : Nat) :
    StatsInv (removeBlock (insertBlock (insertBlock (blockSplit st ci).1 (blockSplit st ci).2.1) (blockSplit st ci).2.2) old) :=
  StatsInv.of_statEq (((insertBlock_statEq _ _).trans (insertBlock_statEq _ _)).trans (removeBlock_statEq _ _))
    (blockSplit_stats st ci hinv hadj hci ha herr hs).2

end Labella.Vpsc
