import Labella.Proofs.VpscBasic
import Mathlib.Logic.Relation
import Mathlib.Algebra.Order.Field.Rat
import Mathlib.Tactic.Linarith
import Mathlib.Tactic.Ring
import Mathlib.Tactic.FieldSimp
/-! Section F: frame lemmas (`CoreEq`), transfer of `Inv` / `Covered` / `VarsNodup` / `AdjNodup`, slack lemmas,
`mostViolated_spec`, `init_inv`, `init_varsNodup`, `init_adjNodup`.

The theorems of the interface (`VpscIfaceF.lean`) live in `Labella.Vpsc` with the interface's names and statements; every
auxiliary definition / lemma of this file lives in `Labella.Vpsc.FrameAux` (no clash with helpers of the other sections). -/
namespace Labella.Vpsc

/-! ## `Adj` / `Conn` under `CoreEq` -/

theorem FrameAux.adj_of_coreEq {st st' : St} (h : CoreEq st st') (x : Option Nat) : Adj st' x = Adj st x := by
  funext u v
  apply propext
  unfold Adj
  constructor
  · rintro ⟨ci, h1, h2, h3, h4⟩
    refine ⟨ci, h.csize ▸ h1, h2, ?_, ?_⟩
    · rw [← (h.flags ci).1]; exact h3
    · rw [← (h.cstat ci).1, ← (h.cstat ci).2.1]; exact h4
  · rintro ⟨ci, h1, h2, h3, h4⟩
    refine ⟨ci, h.csize.symm ▸ h1, h2, ?_, ?_⟩
    · rw [(h.flags ci).1]; exact h3
    · rw [(h.cstat ci).1, (h.cstat ci).2.1]; exact h4

open FrameAux

theorem FrameAux.conn_of_coreEq {st st' : St} (h : CoreEq st st') (x : Option Nat) : Conn st' x = Conn st x := by
  unfold Conn
  rw [adj_of_coreEq h x]

theorem FrameAux.getV_of_coreEq {st st' : St} (h : CoreEq st st') (i : Nat) : getV st' i = getV st i := by
  unfold getV
  rw [h.vs_eq]

theorem Inv.of_coreEq {st st' : St} (h : CoreEq st st') (hi : Inv st) : Inv st' := by
  have hV : ∀ i, getV st' i = getV st i := getV_of_coreEq h
  have hl : ∀ i, (getC st' i).l = (getC st i).l := fun i => (h.cstat i).1
  have hr : ∀ i, (getC st' i).r = (getC st i).r := fun i => (h.cstat i).2.1
  have hg : ∀ i, (getC st' i).g = (getC st i).g := fun i => (h.cstat i).2.2
  have ha : ∀ i, (getC st' i).active = (getC st i).active := fun i => (h.flags i).1
  have hvs : st'.vs.size = st.vs.size := h.vsize
  have hcs : st'.cs.size = st.cs.size := h.csize
  refine ⟨⟨?_, ?_, ?_, ?_, ?_, ?_, ?_, ?_⟩, ?_, ?_, ?_, ?_⟩
  · intro ci hci
    rw [hcs] at hci
    rw [hl, hr, hvs]
    exact hi.wf.lr ci hci
  · intro ci hci
    rw [hcs] at hci
    rw [hl, hV]
    exact hi.wf.out_mem ci hci
  · intro ci hci
    rw [hcs] at hci
    rw [hr, hV]
    exact hi.wf.in_mem ci hci
  · intro v hv ci hmem
    rw [hvs] at hv
    rw [hV] at hmem
    rw [hcs, hl]
    exact hi.wf.out_sound v hv ci hmem
  · intro v hv ci hmem
    rw [hvs] at hv
    rw [hV] at hmem
    rw [hcs, hr]
    exact hi.wf.in_sound v hv ci hmem
  · intro v hv
    rw [hvs] at hv
    rw [hV]
    exact hi.wf.scale_ne v hv
  · intro v hv
    rw [hvs] at hv
    rw [hV]
    exact Nat.lt_of_lt_of_le (hi.wf.block_lt v hv) h.bsize
  · intro ci hmem
    rw [h.inactive_eq] at hmem
    rw [hcs]
    exact hi.wf.inactive_lt ci hmem
  · intro ci hci hact
    rw [hcs] at hci
    rw [ha] at hact
    rw [hr, hl, hg, hV, hV]
    exact hi.tight ci hci hact
  · intro u v hu hv
    rw [hvs] at hu hv
    rw [hV, hV, conn_of_coreEq h]
    exact hi.comps u v hu hv
  · intro ci hci hact
    rw [hcs] at hci
    rw [ha] at hact
    rw [conn_of_coreEq h, hl, hr]
    exact hi.forest ci hci hact
  · intro v hv u
    rw [hvs] at hv
    rw [hV, hV, h.bvars, hvs]
    exact hi.members v hv u

theorem Covered.of_coreEq {st st' : St} {x : Option Nat} (h : CoreEq st st') (hc : Covered st x) : Covered st' x := by
  intro ci hci hx
  rw [h.csize] at hci
  rw [(h.flags ci).1, (h.flags ci).2, h.inactive_eq]
  exact hc ci hci hx

/-! ## Elementary `CoreEq` steps -/

theorem FrameAux.coreEq_setB (st : St) (b : Nat) (blk : B) (h : blk.vars = (getB st b).vars) : CoreEq st (setB st b blk) where
  vsize := rfl
  csize := rfl
  bsize := by simp
  vstat := fun _ => ⟨rfl, rfl, rfl, rfl, rfl⟩
  cstat := fun _ => ⟨rfl, rfl, rfl⟩
  errmono := id
  vs_eq := rfl
  inactive_eq := rfl
  flags := fun _ => ⟨rfl, rfl⟩
  bvars := fun b' => by
    rw [getB_setB]
    split
    · next hb => rw [h, hb.1]
    · rfl

theorem FrameAux.coreEq_setC (st : St) (ci : Nat) (c : C) (hl : c.l = (getC st ci).l) (hr : c.r = (getC st ci).r)
    (hg : c.g = (getC st ci).g) (ha : c.active = (getC st ci).active) (hu : c.unsat = (getC st ci).unsat) :
    CoreEq st (setC st ci c) where
  vsize := rfl
  csize := by simp
  bsize := Nat.le_refl _
  vstat := fun _ => ⟨rfl, rfl, rfl, rfl, rfl⟩
  cstat := fun i => by
    rw [getC_setC]
    split
    · next hb => rw [hl, hr, hg, hb.1]; exact ⟨rfl, rfl, rfl⟩
    · exact ⟨rfl, rfl, rfl⟩
  errmono := id
  vs_eq := rfl
  inactive_eq := rfl
  flags := fun i => by
    rw [getC_setC]
    split
    · next hb => rw [ha, hu, hb.1]; exact ⟨rfl, rfl⟩
    · exact ⟨rfl, rfl⟩
  bvars := fun _ => rfl

theorem FrameAux.coreEq_err (st : St) (e : Bool) (h : st.err = true → e = true) : CoreEq st { st with err := e } where
  vsize := rfl
  csize := rfl
  bsize := Nat.le_refl _
  vstat := fun _ => ⟨rfl, rfl, rfl, rfl, rfl⟩
  cstat := fun _ => ⟨rfl, rfl, rfl⟩
  errmono := h
  vs_eq := rfl
  inactive_eq := rfl
  flags := fun _ => ⟨rfl, rfl⟩
  bvars := fun _ => rfl

theorem setList_coreEq (st : St) (l : Array Nat) : CoreEq st { st with list := l } where
  vsize := rfl
  csize := rfl
  bsize := Nat.le_refl _
  vstat := fun _ => ⟨rfl, rfl, rfl, rfl, rfl⟩
  cstat := fun _ => ⟨rfl, rfl, rfl⟩
  errmono := id
  vs_eq := rfl
  inactive_eq := rfl
  flags := fun _ => ⟨rfl, rfl⟩
  bvars := fun _ => rfl

theorem FrameAux.addStats_vars (b : B) (v : V) : (addStats b v).vars = b.vars := rfl

theorem FrameAux.foldl_addStats_vars (st : St) (l : List Nat) (b : B) :
    (l.foldl (fun acc i => addStats acc (getV st i)) b).vars = b.vars := by
  induction l generalizing b with
  | nil => rfl
  | cons x xs ih => rw [List.foldl_cons, ih]; rfl

theorem updateWeightedPosition_coreEq (st : St) (b : Nat) : CoreEq st (updateWeightedPosition st b) := by
  unfold updateWeightedPosition
  apply coreEq_setB
  simp only
  rw [foldl_addStats_vars]

theorem insertBlock_coreEq (st : St) (b : Nat) : CoreEq st (insertBlock st b) := by
  unfold insertBlock
  exact (coreEq_setB st b { getB st b with ind := st.list.size } rfl).trans (setList_coreEq _ _)

theorem removeSet_coreEq (st : St) (b : Nat) : CoreEq st (removeSet st b) := by
  unfold removeSet
  simp only
  split
  · exact (setList_coreEq st _).trans (coreEq_setB _ _ _ rfl)
  · exact CoreEq.refl st

theorem removeBlock_coreEq (st : St) (b : Nat) : CoreEq st (removeBlock st b) := by
  unfold removeBlock
  exact (removeSet_coreEq st b).trans (setList_coreEq _ _)

/-! ## Slack -/

theorem slack_same_block (st : St) (hwf : WF st) (ci : Nat) (hci : ci < st.cs.size)
    (hu : (getC st ci).unsat = false)
    (hb : (getV st (getC st ci).l).block = (getV st (getC st ci).r).block) :
    slack st ci = (getV st (getC st ci).r).offset - (getV st (getC st ci).l).offset - (getC st ci).g := by
  have hl := hwf.scale_ne _ (hwf.lr ci hci).1
  have hr := hwf.scale_ne _ (hwf.lr ci hci).2
  unfold slack position
  simp only [hu, hb, Bool.false_eq_true, if_false]
  rw [mul_div_cancel₀ _ hr, mul_div_cancel₀ _ hl]
  ring

theorem slack_active (st : St) (hinv : Inv st) (ci : Nat) (hci : ci < st.cs.size)
    (ha : (getC st ci).active = true) (hu : (getC st ci).unsat = false) : slack st ci = 0 := by
  have hlr := hinv.wf.lr ci hci
  have hconn : Conn st none (getC st ci).l (getC st ci).r :=
    Relation.ReflTransGen.single ⟨ci, hci, by simp, ha, Or.inl ⟨rfl, rfl⟩⟩
  have hb := (hinv.comps _ _ hlr.1 hlr.2).2 hconn
  rw [slack_same_block st hinv.wf ci hci hu hb, hinv.tight ci hci ha]
  ring

/-! ## `computeLm` -/

theorem FrameAux.foldl_inv {α β : Type} (P : α → Prop) (step : α → β → α) (l : List β) (acc : α) (h0 : P acc)
    (hstep : ∀ acc x, x ∈ l → P acc → P (step acc x)) : P (l.foldl step acc) := by
  induction l generalizing acc with
  | nil => exact h0
  | cons x xs ih =>
    rw [List.foldl_cons]
    exact ih _ (hstep _ _ (List.mem_cons_self) h0) (fun a y hy => hstep a y (List.mem_cons_of_mem _ hy))

/-- the body of the loop of `computeLm` -/
def FrameAux.lmStep (fuel : Nat) (track : Bool) (v : Nat) (u : Option Nat) (acc : St × Option Nat × Rat) (p : Nat × Nat) :
    St × Option Nat × Rat :=
  let st := acc.1
  if (getC st p.1).active && u != some p.2 then
    let sub := computeLm fuel st track acc.2.1 p.2 (some v)
    let st := sub.1
    let d := sub.2.2
    let cc := getC st p.1
    let lm := if p.2 == cc.r then d else -d
    let dv := if p.2 == cc.r then acc.2.2 + d * (getV st cc.l).s else acc.2.2 + d * (getV st cc.r).s
    let st := setC st p.1 { cc with lm := lm }
    let m := if track then
        (match sub.2.1 with
         | none => some p.1
         | some mi => if lm < (getC st mi).lm then some p.1 else some mi)
      else sub.2.1
    (st, m, dv)
  else acc

theorem FrameAux.computeLm_succ (fuel : Nat) (st : St) (track : Bool) (m : Option Nat) (v : Nat) (u : Option Nat) :
    computeLm (fuel + 1) st track m v u =
      (((neighbours st v).foldl (lmStep fuel track v u) (st, m, dfdv st v)).1,
       ((neighbours st v).foldl (lmStep fuel track v u) (st, m, dfdv st v)).2.1,
       ((neighbours st v).foldl (lmStep fuel track v u) (st, m, dfdv st v)).2.2 /
         (getV ((neighbours st v).foldl (lmStep fuel track v u) (st, m, dfdv st v)).1 v).s) := by
  rw [computeLm]
  rfl

theorem FrameAux.default_C_active : (default : C).active = false := rfl

theorem FrameAux.active_lt (st : St) (ci : Nat) (h : (getC st ci).active = true) : ci < st.cs.size := by
  by_contra hn
  have : getC st ci = default := by
    unfold getC
    simp [Array.getD_eq_getD_getElem?, Array.getElem?_eq_none (Nat.le_of_not_lt hn)]
  rw [this, default_C_active] at h
  exact Bool.false_ne_true h

/-- what `computeLm` does to the state, and where the tracked constraint comes from -/
theorem FrameAux.computeLm_spec (track : Bool) (fuel : Nat) : ∀ (st : St) (m : Option Nat) (v : Nat) (u : Option Nat),
    CoreEq st (computeLm fuel st track m v u).1 ∧
    ((computeLm fuel st track m v u).2.1 = m ∨
      ∃ ci, (computeLm fuel st track m v u).2.1 = some ci ∧ (getC st ci).active = true) := by
  induction fuel with
  | zero =>
    intro st m v u
    rw [computeLm]
    exact ⟨coreEq_err st true (fun _ => rfl), Or.inl rfl⟩
  | succ fuel ih =>
    intro st m v u
    rw [computeLm_succ]
    simp only
    refine foldl_inv (fun acc : St × Option Nat × Rat => CoreEq st acc.1 ∧
      (acc.2.1 = m ∨ ∃ ci, acc.2.1 = some ci ∧ (getC st ci).active = true)) _ _ _
      ⟨CoreEq.refl st, Or.inl rfl⟩ ?_
    rintro acc p _ ⟨hce, hm⟩
    unfold lmStep
    simp only
    split
    · next hcond =>
      rw [Bool.and_eq_true] at hcond
      have hact : (getC st p.1).active = true := by rw [← (hce.flags p.1).1]; exact hcond.1
      obtain ⟨h1, h2⟩ := ih acc.1 acc.2.1 p.2 (some v)
      have hce2 : CoreEq st (computeLm fuel acc.1 track acc.2.1 p.2 (some v)).1 := hce.trans h1
      have hsub : (computeLm fuel acc.1 track acc.2.1 p.2 (some v)).2.1 = m ∨
          ∃ ci, (computeLm fuel acc.1 track acc.2.1 p.2 (some v)).2.1 = some ci ∧ (getC st ci).active = true := by
        rcases h2 with h2 | ⟨ci, h2, h3⟩
        · rw [h2]; exact hm
        · exact Or.inr ⟨ci, h2, by rw [← (hce.flags ci).1]; exact h3⟩
      refine ⟨hce2.trans (coreEq_setC _ _ _ rfl rfl rfl rfl rfl), ?_⟩
      cases track with
      | false => exact hsub
      | true =>
        simp only [if_true]
        split
        · exact Or.inr ⟨p.1, rfl, hact⟩
        · next mi hmi =>
          rw [hmi] at hsub
          split_ifs <;> first | exact Or.inr ⟨p.1, rfl, hact⟩ | exact hsub
    · exact ⟨hce, hm⟩

theorem computeLm_coreEq (fuel : Nat) (st : St) (track : Bool) (m : Option Nat) (v : Nat) (u : Option Nat) :
    CoreEq st (computeLm fuel st track m v u).1 :=
  (computeLm_spec track fuel st m v u).1

theorem findMinLM_coreEq (st : St) (b : Nat) : CoreEq st (findMinLM st b).1 := by
  unfold findMinLM
  split
  · exact coreEq_err st true (fun _ => rfl)
  · exact computeLm_coreEq _ _ _ _ _ _

/-- whatever `findMinLM` returns is an active constraint of the problem -/
theorem findMinLM_some (st : St) (hwf : WF st) (b ci : Nat) (h : (findMinLM st b).2 = some ci) :
    ci < st.cs.size ∧ (getC st ci).active = true := by
  have _ := hwf
  unfold findMinLM at h
  split at h
  · exact absurd h (by simp)
  · next v0 _ _ =>
    simp only at h
    rcases (computeLm_spec true (travFuel st) st none v0 none).2 with h2 | ⟨cj, h2, h3⟩
    · rw [h2] at h; exact absurd h (by simp)
    · rw [h2] at h
      cases h
      exact ⟨active_lt st _ h3, h3⟩

theorem VarsNodup.of_coreEq {st st' : St} (h : CoreEq st st') (hn : VarsNodup st) : VarsNodup st' := by
  intro v hv
  rw [h.vsize] at hv
  rw [getV_of_coreEq h, h.bvars]
  exact hn v hv

/-! ## `mostViolated` -/

theorem FrameAux.natArr_getD_setIfInBounds (a : Array Nat) (i j x : Nat) :
    (a.setIfInBounds i x).getD j 0 = if j = i ∧ i < a.size then x else a.getD j 0 := by
  simp only [Array.getD_eq_getD_getElem?, Array.getElem?_setIfInBounds]
  by_cases h : j = i
  · subst h
    by_cases hi : j < a.size
    · simp [hi]
    · simp [hi]
  · have h' : ¬ i = j := fun e => h e.symm
    simp [h, h']

theorem FrameAux.natArr_mem_toList_iff (a : Array Nat) (c : Nat) : c ∈ a.toList ↔ ∃ j, j < a.size ∧ a.getD j 0 = c := by
  rw [Array.mem_toList_iff, Array.mem_iff_getElem]
  constructor
  · rintro ⟨j, hj, h⟩
    exact ⟨j, hj, by simp [Array.getD_eq_getD_getElem?, hj, h]⟩
  · rintro ⟨j, hj, h⟩
    refine ⟨j, hj, ?_⟩
    simpa [Array.getD_eq_getD_getElem?, hj] using h

/-- the body of the loop of `mostViolated` -/
def FrameAux.mvStep (st : St) (acc : Rat × Option Nat × Nat) (i : Nat) : Rat × Option Nat × Nat :=
  let c := st.inactive.getD i 0
  if (getC st c).unsat then acc
  else
    let sl := slack st c
    if sl < acc.1 then (sl, some c, i) else acc

def FrameAux.mvFold (st : St) (k : Nat) : Rat × Option Nat × Nat :=
  (List.range k).foldl (mvStep st) (maxsize, none, st.inactive.size)

theorem FrameAux.mostViolated_eq (st : St) : mostViolated st =
    match (mvFold st st.inactive.size).2.1 with
    | none => (st, none)
    | some v =>
      if (mvFold st st.inactive.size).2.2 != st.inactive.size &&
          ((mvFold st st.inactive.size).1 < Gen.zeroUpperBound && !(getC st v).active) then
        ({ st with inactive := st.inactive.setIfInBounds (mvFold st st.inactive.size).2.2 (st.inactive.getD (st.inactive.size - 1) 0) }, some v)
      else (st, some v) := rfl

theorem FrameAux.mvFold_succ (st : St) (k : Nat) : mvFold st (k + 1) = mvStep st (mvFold st k) k := by
  unfold mvFold
  rw [List.range_succ, List.foldl_append]
  rfl

theorem FrameAux.mvFold_inv (st : St) (k : Nat) :
    ((mvFold st k).2.1 = none → (mvFold st k).1 = maxsize) ∧
    (∀ j, j < k → (getC st (st.inactive.getD j 0)).unsat = false →
      (mvFold st k).1 ≤ slack st (st.inactive.getD j 0)) ∧
    (∀ v, (mvFold st k).2.1 = some v → (mvFold st k).2.2 < k ∧ st.inactive.getD (mvFold st k).2.2 0 = v ∧
      (getC st v).unsat = false ∧ (mvFold st k).1 = slack st v) := by
  induction k with
  | zero =>
    refine ⟨fun _ => rfl, fun j hj => absurd hj (Nat.not_lt_zero j), fun v hv => ?_⟩
    exact absurd hv (by simp [mvFold])
  | succ k ih =>
    obtain ⟨ih1, ih2, ih3⟩ := ih
    rw [mvFold_succ]
    unfold mvStep
    simp only
    by_cases hu : (getC st (st.inactive.getD k 0)).unsat = true
    · rw [if_pos hu]
      refine ⟨ih1, fun j hj hju => ?_, fun v hv => ?_⟩
      · rcases Nat.lt_succ_iff_lt_or_eq.mp hj with hj | hj
        · exact ih2 j hj hju
        · subst hj; rw [hu] at hju; exact absurd hju (by simp)
      · obtain ⟨a, b, c, d⟩ := ih3 v hv
        exact ⟨Nat.lt_succ_of_lt a, b, c, d⟩
    · rw [if_neg hu]
      have hu' : (getC st (st.inactive.getD k 0)).unsat = false := by
        cases h : (getC st (st.inactive.getD k 0)).unsat
        · rfl
        · exact absurd h hu
      by_cases hlt : slack st (st.inactive.getD k 0) < (mvFold st k).1
      · rw [if_pos hlt]
        refine ⟨fun h => absurd h (by simp), fun j hj hju => ?_, fun v hv => ?_⟩
        · rcases Nat.lt_succ_iff_lt_or_eq.mp hj with hj | hj
          · exact le_trans (le_of_lt hlt) (ih2 j hj hju)
          · subst hj; exact le_refl _
        · simp only [Option.some.injEq] at hv
          subst hv
          exact ⟨Nat.lt_succ_self k, rfl, hu', rfl⟩
      · rw [if_neg hlt]
        refine ⟨ih1, fun j hj hju => ?_, fun v hv => ?_⟩
        · rcases Nat.lt_succ_iff_lt_or_eq.mp hj with hj | hj
          · exact ih2 j hj hju
          · subst hj; exact not_lt.mp hlt
        · obtain ⟨a, b, c, d⟩ := ih3 v hv
          exact ⟨Nat.lt_succ_of_lt a, b, c, d⟩

theorem mostViolated_spec (st : St) :
    (mostViolated st).1.vs = st.vs ∧ (mostViolated st).1.cs = st.cs ∧ (mostViolated st).1.bs = st.bs ∧
    (mostViolated st).1.list = st.list ∧ (mostViolated st).1.err = st.err ∧
    (∀ c ∈ (mostViolated st).1.inactive.toList, c ∈ st.inactive.toList) ∧
    (match (mostViolated st).2 with
     | none => (mostViolated st).1.inactive = st.inactive ∧
         ∀ c ∈ st.inactive.toList, (getC st c).unsat = false → maxsize ≤ slack st c
     | some v => v ∈ st.inactive.toList ∧ (getC st v).unsat = false ∧
         (∀ c ∈ st.inactive.toList, (getC st c).unsat = false → slack st v ≤ slack st c) ∧
         (if slack st v < Gen.zeroUpperBound ∧ (getC st v).active = false
          then ∀ c ∈ st.inactive.toList, c ≠ v → c ∈ (mostViolated st).1.inactive.toList
          else (mostViolated st).1.inactive = st.inactive)) := by
  obtain ⟨h1, h2, h3⟩ := mvFold_inv st st.inactive.size
  cases hm : (mvFold st st.inactive.size).2.1 with
  | none =>
    have he : mostViolated st = (st, none) := by rw [mostViolated_eq, hm]
    rw [he]
    refine ⟨rfl, rfl, rfl, rfl, rfl, fun c hc => hc, rfl, fun c hc hu => ?_⟩
    obtain ⟨j, hj, hjc⟩ := (natArr_mem_toList_iff _ _).1 hc
    subst hjc
    rw [← h1 hm]
    exact h2 j hj hu
  | some v =>
    obtain ⟨hidx, hget, hvu, hsl⟩ := h3 v hm
    have hvmem : v ∈ st.inactive.toList := (natArr_mem_toList_iff _ _).2 ⟨_, hidx, hget⟩
    have hmin : ∀ c ∈ st.inactive.toList, (getC st c).unsat = false → slack st v ≤ slack st c := by
      intro c hc hu
      obtain ⟨j, hj, hjc⟩ := (natArr_mem_toList_iff _ _).1 hc
      subst hjc
      rw [← hsl]
      exact h2 j hj hu
    have hne : ((mvFold st st.inactive.size).2.2 != st.inactive.size) = true := by
      simp only [bne_iff_ne, ne_eq]
      exact Nat.ne_of_lt hidx
    by_cases hcond : slack st v < Gen.zeroUpperBound ∧ (getC st v).active = false
    · have he : mostViolated st = ({ st with inactive := st.inactive.setIfInBounds (mvFold st st.inactive.size).2.2 (st.inactive.getD (st.inactive.size - 1) 0) }, some v) := by
        rw [mostViolated_eq, hm]
        simp only
        rw [if_pos]
        rw [hne, hsl]
        simp [hcond.1, hcond.2]
      rw [he]
      refine ⟨rfl, rfl, rfl, rfl, rfl, fun c hc => ?_, hvmem, hvu, hmin, ?_⟩
      · obtain ⟨j, hj, hjc⟩ := (natArr_mem_toList_iff _ _).1 hc
        rw [natArr_getD_setIfInBounds] at hjc
        rw [Array.size_setIfInBounds] at hj
        by_cases hji : j = (mvFold st st.inactive.size).2.2 ∧ (mvFold st st.inactive.size).2.2 < st.inactive.size
        · rw [if_pos hji] at hjc
          exact (natArr_mem_toList_iff _ _).2 ⟨st.inactive.size - 1, by omega, hjc⟩
        · rw [if_neg hji] at hjc
          exact (natArr_mem_toList_iff _ _).2 ⟨j, hj, hjc⟩
      · rw [if_pos hcond]
        intro c hc hcv
        obtain ⟨j, hj, hjc⟩ := (natArr_mem_toList_iff _ _).1 hc
        refine (natArr_mem_toList_iff _ _).2 ⟨j, by rw [Array.size_setIfInBounds]; exact hj, ?_⟩
        rw [natArr_getD_setIfInBounds, if_neg]
        · exact hjc
        · rintro ⟨hji, _⟩
          apply hcv
          rw [← hjc, hji, hget]
    · have he : mostViolated st = (st, some v) := by
        rw [mostViolated_eq, hm]
        simp only
        rw [if_neg]
        rw [hne, hsl]
        intro hh
        apply hcond
        simpa using hh
      rw [he]
      refine ⟨rfl, rfl, rfl, rfl, rfl, fun c hc => hc, hvmem, hvu, hmin, ?_⟩
      rw [if_neg hcond]

/-! ## `init` : the adjacency lists -/

def FrameAux.mkV (p : Rat × Rat × Rat) : V :=
  { d := p.1, w := p.2.1, s := p.2.2, offset := 0, block := 0, cOut := [], cIn := [] }

def FrameAux.mkC (p : Nat × Nat × Rat) : C :=
  { l := p.1, r := p.2.1, g := p.2.2, active := false, unsat := false, lm := 0 }

def FrameAux.adjStep (vs : Array V) (p : (Nat × Nat × Rat) × Nat) : Array V :=
  (vs.modify p.1.1 (fun v => { v with cOut := v.cOut ++ [p.2] })).modify p.1.2.1
    (fun v => { v with cIn := v.cIn ++ [p.2] })

/-- the solver state before the blocks are created -/
def FrameAux.init0 (vars : List (Rat × Rat × Rat)) (cons : List (Nat × Nat × Rat)) : St :=
  { vs := cons.zipIdx.foldl adjStep (vars.map mkV).toArray, cs := (cons.map mkC).toArray, bs := #[], list := #[],
    inactive := (List.range cons.length).toArray, err := false }

theorem FrameAux.init_eq (vars : List (Rat × Rat × Rat)) (cons : List (Nat × Nat × Rat)) :
    init vars cons = initBlocks (init0 vars cons) := rfl

theorem FrameAux.getD_modify (vs : Array V) (k i : Nat) (f : V → V) :
    (vs.modify k f).getD i default = if i = k ∧ k < vs.size then f (vs.getD i default) else vs.getD i default := by
  simp only [Array.getD_eq_getD_getElem?, Array.getElem?_modify]
  by_cases h : k = i
  · subst h
    by_cases hk : k < vs.size
    · simp [hk]
    · simp [hk]
  · have h' : ¬ i = k := fun e => h e.symm
    simp [h, h']

theorem FrameAux.adjStep_size (vs : Array V) (p : (Nat × Nat × Rat) × Nat) : (adjStep vs p).size = vs.size := by
  simp [adjStep]

theorem FrameAux.adjStep_get (vs : Array V) (p : (Nat × Nat × Rat) × Nat) (i : Nat) :
    ((adjStep vs p).getD i default).d = (vs.getD i default).d ∧
    ((adjStep vs p).getD i default).w = (vs.getD i default).w ∧
    ((adjStep vs p).getD i default).s = (vs.getD i default).s ∧
    ((adjStep vs p).getD i default).offset = (vs.getD i default).offset ∧
    ((adjStep vs p).getD i default).block = (vs.getD i default).block ∧
    ((adjStep vs p).getD i default).cOut =
      (if i = p.1.1 ∧ p.1.1 < vs.size then (vs.getD i default).cOut ++ [p.2] else (vs.getD i default).cOut) ∧
    ((adjStep vs p).getD i default).cIn =
      (if i = p.1.2.1 ∧ p.1.2.1 < vs.size then (vs.getD i default).cIn ++ [p.2] else (vs.getD i default).cIn) := by
  unfold adjStep
  rw [getD_modify, getD_modify, Array.size_modify]
  split_ifs <;> exact ⟨rfl, rfl, rfl, rfl, rfl, rfl, rfl⟩

theorem FrameAux.adjFold_spec (L : List ((Nat × Nat × Rat) × Nat)) : ∀ vs : Array V,
    (L.foldl adjStep vs).size = vs.size ∧ ∀ i,
    ((L.foldl adjStep vs).getD i default).d = (vs.getD i default).d ∧
    ((L.foldl adjStep vs).getD i default).w = (vs.getD i default).w ∧
    ((L.foldl adjStep vs).getD i default).s = (vs.getD i default).s ∧
    ((L.foldl adjStep vs).getD i default).offset = (vs.getD i default).offset ∧
    ((L.foldl adjStep vs).getD i default).block = (vs.getD i default).block ∧
    (∀ ci, ci ∈ ((L.foldl adjStep vs).getD i default).cOut ↔
      (ci ∈ (vs.getD i default).cOut ∨ (i < vs.size ∧ ∃ p ∈ L, p.1.1 = i ∧ p.2 = ci))) ∧
    (∀ ci, ci ∈ ((L.foldl adjStep vs).getD i default).cIn ↔
      (ci ∈ (vs.getD i default).cIn ∨ (i < vs.size ∧ ∃ p ∈ L, p.1.2.1 = i ∧ p.2 = ci))) := by
  induction L with
  | nil =>
    intro vs
    simp
  | cons p xs ih =>
    intro vs
    rw [List.foldl_cons]
    obtain ⟨hsz, hrest⟩ := ih (adjStep vs p)
    refine ⟨hsz.trans (adjStep_size vs p), fun i => ?_⟩
    obtain ⟨a1, a2, a3, a4, a5, a6, a7⟩ := hrest i
    obtain ⟨b1, b2, b3, b4, b5, b6, b7⟩ := adjStep_get vs p i
    refine ⟨a1.trans b1, a2.trans b2, a3.trans b3, a4.trans b4, a5.trans b5, fun ci => ?_, fun ci => ?_⟩
    · rw [a6, b6, adjStep_size]
      by_cases h : i = p.1.1 ∧ p.1.1 < vs.size
      · rw [if_pos h]
        obtain ⟨h1, h2⟩ := h
        subst h1
        simp only [List.mem_append, List.mem_cons, List.not_mem_nil, or_false, exists_eq_or_imp, true_and]
        constructor
        · rintro ((h | h) | ⟨h, h'⟩)
          · exact Or.inl h
          · exact Or.inr ⟨h2, Or.inl h.symm⟩
          · exact Or.inr ⟨h, Or.inr h'⟩
        · rintro (h | ⟨h, (h' | h')⟩)
          · exact Or.inl (Or.inl h)
          · exact Or.inl (Or.inr h'.symm)
          · exact Or.inr ⟨h, h'⟩
      · rw [if_neg h]
        simp only [List.mem_cons, exists_eq_or_imp]
        constructor
        · rintro (h' | ⟨h1, h2⟩)
          · exact Or.inl h'
          · exact Or.inr ⟨h1, Or.inr h2⟩
        · rintro (h' | ⟨h1, (h2 | h2)⟩)
          · exact Or.inl h'
          · exact absurd ⟨h2.1.symm, h2.1 ▸ h1⟩ h
          · exact Or.inr ⟨h1, h2⟩
    · rw [a7, b7, adjStep_size]
      by_cases h : i = p.1.2.1 ∧ p.1.2.1 < vs.size
      · rw [if_pos h]
        obtain ⟨h1, h2⟩ := h
        subst h1
        simp only [List.mem_append, List.mem_cons, List.not_mem_nil, or_false, exists_eq_or_imp, true_and]
        constructor
        · rintro ((h | h) | ⟨h, h'⟩)
          · exact Or.inl h
          · exact Or.inr ⟨h2, Or.inl h.symm⟩
          · exact Or.inr ⟨h, Or.inr h'⟩
        · rintro (h | ⟨h, (h' | h')⟩)
          · exact Or.inl (Or.inl h)
          · exact Or.inl (Or.inr h'.symm)
          · exact Or.inr ⟨h, h'⟩
      · rw [if_neg h]
        simp only [List.mem_cons, exists_eq_or_imp]
        constructor
        · rintro (h' | ⟨h1, h2⟩)
          · exact Or.inl h'
          · exact Or.inr ⟨h1, Or.inr h2⟩
        · rintro (h' | ⟨h1, (h2 | h2)⟩)
          · exact Or.inl h'
          · exact absurd ⟨h2.1.symm, h2.1 ▸ h1⟩ h
          · exact Or.inr ⟨h1, h2⟩

theorem FrameAux.default_V_cOut : (default : V).cOut = [] := rfl
theorem FrameAux.default_V_cIn : (default : V).cIn = [] := rfl
theorem FrameAux.default_C_unsat : (default : C).unsat = false := rfl

theorem FrameAux.baseV_get (vars : List (Rat × Rat × Rat)) (i : Nat) :
    ((vars.map mkV).toArray.getD i default).cOut = [] ∧ ((vars.map mkV).toArray.getD i default).cIn = [] ∧
    ∀ h : i < vars.length, (vars.map mkV).toArray.getD i default = mkV vars[i] := by
  by_cases h : i < vars.length
  · have : (vars.map mkV).toArray.getD i default = mkV vars[i] := by
      simp [Array.getD_eq_getD_getElem?, h]
    rw [this]
    exact ⟨rfl, rfl, fun _ => rfl⟩
  · have : (vars.map mkV).toArray.getD i default = default := by
      simp [Array.getD_eq_getD_getElem?, h]
    rw [this]
    exact ⟨rfl, rfl, fun h' => absurd h' h⟩

theorem FrameAux.init0_getC (vars : List (Rat × Rat × Rat)) (cons : List (Nat × Nat × Rat)) (ci : Nat) :
    (getC (init0 vars cons) ci).active = false ∧ (getC (init0 vars cons) ci).unsat = false ∧
    ∀ h : ci < cons.length, getC (init0 vars cons) ci = mkC cons[ci] := by
  unfold getC init0
  by_cases h : ci < cons.length
  · have : (cons.map mkC).toArray.getD ci default = mkC cons[ci] := by
      simp [Array.getD_eq_getD_getElem?, h]
    simp only
    rw [this]
    exact ⟨rfl, rfl, fun _ => rfl⟩
  · have : (cons.map mkC).toArray.getD ci default = default := by
      simp [Array.getD_eq_getD_getElem?, h]
    simp only
    rw [this]
    exact ⟨rfl, rfl, fun h' => absurd h' h⟩

theorem FrameAux.init0_vs_size (vars : List (Rat × Rat × Rat)) (cons : List (Nat × Nat × Rat)) :
    (init0 vars cons).vs.size = vars.length := by
  unfold init0
  simp only
  rw [(adjFold_spec _ _).1]
  simp

theorem FrameAux.init0_cs_size (vars : List (Rat × Rat × Rat)) (cons : List (Nat × Nat × Rat)) :
    (init0 vars cons).cs.size = cons.length := by
  simp [init0]

theorem FrameAux.init0_getV (vars : List (Rat × Rat × Rat)) (cons : List (Nat × Nat × Rat)) (i : Nat) :
    (∀ h : i < vars.length, (getV (init0 vars cons) i).d = vars[i].1 ∧ (getV (init0 vars cons) i).w = vars[i].2.1 ∧
      (getV (init0 vars cons) i).s = vars[i].2.2) ∧
    (∀ ci, ci ∈ (getV (init0 vars cons) i).cOut ↔ (i < vars.length ∧ ∃ h : ci < cons.length, cons[ci].1 = i)) ∧
    (∀ ci, ci ∈ (getV (init0 vars cons) i).cIn ↔ (i < vars.length ∧ ∃ h : ci < cons.length, cons[ci].2.1 = i)) := by
  obtain ⟨a1, a2, a3, _, _, a6, a7⟩ := (adjFold_spec cons.zipIdx (vars.map mkV).toArray).2 i
  obtain ⟨b1, b2, b3⟩ := baseV_get vars i
  have hsz : (vars.map mkV).toArray.size = vars.length := by simp
  have hg : getV (init0 vars cons) i = (cons.zipIdx.foldl adjStep (vars.map mkV).toArray).getD i default := rfl
  rw [hg]
  refine ⟨fun h => ?_, fun ci => ?_, fun ci => ?_⟩
  · rw [a1, a2, a3, b3 h]
    exact ⟨rfl, rfl, rfl⟩
  · rw [a6, b1, hsz]
    simp only [List.not_mem_nil, false_or]
    constructor
    · rintro ⟨hi, p, hp, hp1, hp2⟩
      rw [List.mem_zipIdx_iff_getElem?] at hp
      rw [hp2] at hp
      obtain ⟨hlt, he⟩ := List.getElem?_eq_some_iff.1 hp
      exact ⟨hi, hlt, by rw [he]; exact hp1⟩
    · rintro ⟨hi, hlt, he⟩
      refine ⟨hi, (cons[ci], ci), ?_, he, rfl⟩
      rw [List.mem_zipIdx_iff_getElem?]
      exact List.getElem?_eq_getElem hlt
  · rw [a7, b2, hsz]
    simp only [List.not_mem_nil, false_or]
    constructor
    · rintro ⟨hi, p, hp, hp1, hp2⟩
      rw [List.mem_zipIdx_iff_getElem?] at hp
      rw [hp2] at hp
      obtain ⟨hlt, he⟩ := List.getElem?_eq_some_iff.1 hp
      exact ⟨hi, hlt, by rw [he]; exact hp1⟩
    · rintro ⟨hi, hlt, he⟩
      refine ⟨hi, (cons[ci], ci), ?_, he, rfl⟩
      rw [List.mem_zipIdx_iff_getElem?]
      exact List.getElem?_eq_getElem hlt

/-! ## `init` : the blocks -/

/-- the body of the loop of `initBlocks` -/
def FrameAux.ibStep (st : St) (i : Nat) : St :=
  let r := newBlock st i
  let st := setB r.1 r.2 { getB r.1 r.2 with ind := i }
  { st with list := st.list.setIfInBounds i r.2 }

theorem FrameAux.initBlocks_eq (st : St) : initBlocks st =
    (List.range st.vs.size).reverse.foldl ibStep { st with bs := #[], list := Array.replicate st.vs.size 0 } := rfl

/-- appending a block object to the store -/
def FrameAux.pushB (st : St) (x : B) : St := { st with bs := st.bs.push x }

@[simp] theorem FrameAux.pushB_vs (st : St) (x : B) : (pushB st x).vs = st.vs := rfl
@[simp] theorem FrameAux.pushB_cs (st : St) (x : B) : (pushB st x).cs = st.cs := rfl
@[simp] theorem FrameAux.pushB_list (st : St) (x : B) : (pushB st x).list = st.list := rfl
@[simp] theorem FrameAux.pushB_inactive (st : St) (x : B) : (pushB st x).inactive = st.inactive := rfl
@[simp] theorem FrameAux.pushB_err (st : St) (x : B) : (pushB st x).err = st.err := rfl
@[simp] theorem FrameAux.pushB_bs_size (st : St) (x : B) : (pushB st x).bs.size = st.bs.size + 1 := by simp [pushB]
@[simp] theorem FrameAux.getV_pushB (st : St) (x : B) (j : Nat) : getV (pushB st x) j = getV st j := rfl
@[simp] theorem FrameAux.getC_pushB (st : St) (x : B) (j : Nat) : getC (pushB st x) j = getC st j := rfl

theorem FrameAux.getB_pushB (st : St) (x : B) (j : Nat) :
    getB (pushB st x) j = if j = st.bs.size then x else getB st j := by
  unfold getB pushB
  simp only [Array.getD_eq_getD_getElem?, Array.getElem?_push]
  by_cases h : j = st.bs.size
  · simp [h]
  · simp [h]

theorem FrameAux.addVariable_fields (st : St) (b i : Nat) :
    (addVariable st b i).vs.size = st.vs.size ∧ (addVariable st b i).cs = st.cs ∧
    (addVariable st b i).inactive = st.inactive ∧ (addVariable st b i).err = st.err ∧
    (addVariable st b i).bs.size = st.bs.size ∧ (addVariable st b i).list = st.list := by
  unfold addVariable
  simp

theorem FrameAux.addVariable_getV (st : St) (b i j : Nat) :
    getV (addVariable st b i) j = if j = i ∧ i < st.vs.size then { getV st i with block := b } else getV st j := by
  unfold addVariable
  simp only [getV_setB]
  rw [getV_setV]

theorem FrameAux.addVariable_getB_vars (st : St) (b i j : Nat) :
    (getB (addVariable st b i) j).vars =
      if j = b ∧ b < st.bs.size then (getB st b).vars ++ [i] else (getB st j).vars := by
  unfold addVariable
  simp only
  by_cases h : j = b ∧ b < st.bs.size
  · rw [getB_setB, if_pos h, if_pos (by exact h)]
    rfl
  · rw [getB_setB, if_neg h, if_neg (by exact h)]
    rfl

theorem FrameAux.newBlock_eq (st : St) (i : Nat) : newBlock st i =
    (addVariable (pushB (setV st i { getV st i with offset := 0 })
      { vars := [], scale := (getV (setV st i { getV st i with offset := 0 }) i).s, AB := 0, AD := 0, A2 := 0,
        posn := 0, ind := 0 }) st.bs.size i, st.bs.size) := rfl

theorem FrameAux.newBlock_fields (st : St) (i : Nat) :
    (newBlock st i).1.vs.size = st.vs.size ∧ (newBlock st i).1.cs = st.cs ∧
    (newBlock st i).1.inactive = st.inactive ∧ (newBlock st i).1.err = st.err ∧
    (newBlock st i).1.bs.size = st.bs.size + 1 ∧ (newBlock st i).2 = st.bs.size := by
  rw [newBlock_eq]
  simp only
  obtain ⟨a, b, c, d, e, _⟩ := addVariable_fields (pushB (setV st i { getV st i with offset := 0 })
      { vars := [], scale := (getV (setV st i { getV st i with offset := 0 }) i).s, AB := 0, AD := 0, A2 := 0,
        posn := 0, ind := 0 }) st.bs.size i
  rw [a, b, c, d, e]
  simp

theorem FrameAux.newBlock_getV (st : St) (i j : Nat) :
    getV (newBlock st i).1 j =
      if j = i ∧ i < st.vs.size then { getV st i with offset := 0, block := st.bs.size } else getV st j := by
  rw [newBlock_eq]
  simp only
  rw [addVariable_getV]
  simp only [pushB_vs, setV_vs_size, getV_pushB]
  rw [getV_setV, getV_setV]
  by_cases h : j = i ∧ i < st.vs.size
  · rw [if_pos h, if_pos h, if_pos ⟨rfl, h.2⟩]
  · simp only [if_neg h]

theorem FrameAux.newBlock_getB_vars (st : St) (i j : Nat) :
    (getB (newBlock st i).1 j).vars = if j = st.bs.size then [i] else (getB st j).vars := by
  rw [newBlock_eq]
  simp only
  rw [addVariable_getB_vars, getB_pushB, getB_pushB]
  simp only [pushB_bs_size, setV_bs, getB_setV]
  by_cases h : j = st.bs.size
  · subst h
    simp
  · simp [h]

theorem FrameAux.ibStep_fields (st : St) (i : Nat) :
    (ibStep st i).vs.size = st.vs.size ∧ (ibStep st i).cs = st.cs ∧
    (ibStep st i).inactive = st.inactive ∧ (ibStep st i).err = st.err ∧
    (ibStep st i).bs.size = st.bs.size + 1 := by
  obtain ⟨a, b, c, d, e, _⟩ := newBlock_fields st i
  unfold ibStep
  simp only [setB_vs, setB_cs, setB_inactive, setB_err, setB_bs_size]
  exact ⟨a, b, c, d, e⟩

theorem FrameAux.ibStep_getV (st : St) (i j : Nat) :
    getV (ibStep st i) j =
      if j = i ∧ i < st.vs.size then { getV st i with offset := 0, block := st.bs.size } else getV st j := by
  rw [← newBlock_getV]
  rfl

theorem FrameAux.ibStep_getB_vars (st : St) (i j : Nat) :
    (getB (ibStep st i) j).vars = if j = st.bs.size then [i] else (getB st j).vars := by
  rw [← newBlock_getB_vars]
  unfold ibStep
  simp only
  have : ∀ s : St, ∀ l : Array Nat, getB { s with list := l } j = getB s j := fun _ _ => rfl
  rw [this, getB_setB]
  split_ifs with h
  · rw [h.1]
  · rfl

/-- the state of the loop of `initBlocks` when the variables `k, …, n-1` have received their blocks -/
def FrameAux.IBInv (st0 : St) (n k : Nat) (st : St) : Prop :=
  st.vs.size = n ∧ st.cs = st0.cs ∧ st.inactive = st0.inactive ∧ st.err = st0.err ∧ st.bs.size = n - k ∧
  (∀ i, (getV st i).d = (getV st0 i).d ∧ (getV st i).w = (getV st0 i).w ∧ (getV st i).s = (getV st0 i).s ∧
    (getV st i).cOut = (getV st0 i).cOut ∧ (getV st i).cIn = (getV st0 i).cIn) ∧
  (∀ i, k ≤ i → i < n →
    (getV st i).block = n - 1 - i ∧ (getV st i).offset = 0 ∧ (getB st (n - 1 - i)).vars = [i])

theorem FrameAux.ibStep_inv (st0 : St) (n k : Nat) (st : St) (hk : k + 1 ≤ n) (h : IBInv st0 n (k + 1) st) :
    IBInv st0 n k (ibStep st k) := by
  obtain ⟨h1, h2, h3, h4, h5, h6, h7⟩ := h
  obtain ⟨a, b, c, d, e⟩ := ibStep_fields st k
  have hkn : k < st.vs.size := by omega
  refine ⟨a.trans h1, b.trans h2, c.trans h3, d.trans h4, by omega, fun i => ?_, fun i hki hin => ?_⟩
  · rw [ibStep_getV]
    by_cases hik : i = k ∧ k < st.vs.size
    · rw [if_pos hik, hik.1]
      exact h6 k
    · rw [if_neg hik]
      exact h6 i
  · rw [ibStep_getV, ibStep_getB_vars]
    by_cases hik : i = k
    · subst hik
      rw [if_pos ⟨rfl, hkn⟩, if_pos (by omega)]
      exact ⟨by simp only; omega, rfl, rfl⟩
    · rw [if_neg (fun hh => hik hh.1), if_neg (by omega)]
      exact h7 i (by omega) hin

theorem FrameAux.ibFold (st0 : St) (n : Nat) : ∀ k st, k ≤ n → IBInv st0 n k st →
    IBInv st0 n 0 ((List.range k).reverse.foldl ibStep st) := by
  intro k
  induction k with
  | zero => intro st _ h; exact h
  | succ k ih =>
    intro st hk h
    rw [List.range_succ, List.reverse_append, List.reverse_singleton, List.singleton_append, List.foldl_cons]
    exact ih _ (Nat.le_of_succ_le hk) (ibStep_inv st0 n k st hk h)

theorem FrameAux.initBlocks_spec (st0 : St) : IBInv st0 st0.vs.size 0 (initBlocks st0) := by
  rw [initBlocks_eq]
  apply ibFold st0 st0.vs.size st0.vs.size _ (Nat.le_refl _)
  refine ⟨rfl, rfl, rfl, rfl, by simp, fun i => ⟨rfl, rfl, rfl, rfl, rfl⟩, fun i h1 h2 => ?_⟩
  exact absurd h2 (Nat.not_lt.mpr h1)

/-! ## `init` : assembling the invariant -/

theorem FrameAux.conn_of_no_active (st : St) (x : Option Nat) (h : ∀ ci, (getC st ci).active = false) (u v : Nat) :
    Conn st x u v ↔ u = v := by
  constructor
  · intro hc
    induction hc with
    | refl => rfl
    | tail _ hadj _ =>
      obtain ⟨ci, _, _, ha, _⟩ := hadj
      rw [h ci] at ha
      exact absurd ha Bool.false_ne_true
  · rintro rfl
    exact Relation.ReflTransGen.refl

theorem FrameAux.init_facts (vars : List (Rat × Rat × Rat)) (cons : List (Nat × Nat × Rat)) :
    (init vars cons).vs.size = vars.length ∧ (init vars cons).cs.size = cons.length ∧
    (∀ ci, getC (init vars cons) ci = getC (init0 vars cons) ci) ∧
    (init vars cons).inactive = (List.range cons.length).toArray ∧ (init vars cons).err = false ∧
    (init vars cons).bs.size = vars.length ∧
    (∀ i, (getV (init vars cons) i).d = (getV (init0 vars cons) i).d ∧
      (getV (init vars cons) i).w = (getV (init0 vars cons) i).w ∧
      (getV (init vars cons) i).s = (getV (init0 vars cons) i).s ∧
      (getV (init vars cons) i).cOut = (getV (init0 vars cons) i).cOut ∧
      (getV (init vars cons) i).cIn = (getV (init0 vars cons) i).cIn) ∧
    (∀ i, i < vars.length → (getV (init vars cons) i).block = vars.length - 1 - i ∧
      (getV (init vars cons) i).offset = 0 ∧ (getB (init vars cons) (vars.length - 1 - i)).vars = [i]) := by
  obtain ⟨h1, h2, h3, h4, h5, h6, h7⟩ := initBlocks_spec (init0 vars cons)
  rw [← init_eq, init0_vs_size] at h1 h5 h7
  rw [← init_eq] at h2 h3 h4 h6
  refine ⟨h1, ?_, fun ci => ?_, h3, h4, h5, h6, fun i hi => h7 i (Nat.zero_le _) hi⟩
  · rw [h2, init0_cs_size]
  · unfold getC
    rw [h2]

theorem init_inv (vars : List (Rat × Rat × Rat)) (cons : List (Nat × Nat × Rat))
    (hidx : ∀ c ∈ cons, c.1 < vars.length ∧ c.2.1 < vars.length) (hs : ∀ v ∈ vars, v.2.2 ≠ 0) :
    Inv (init vars cons) ∧ Covered (init vars cons) none ∧ (init vars cons).err = false ∧
    (init vars cons).vs.size = vars.length ∧ (init vars cons).cs.size = cons.length ∧
    (∀ i (h : i < vars.length), (getV (init vars cons) i).d = vars[i].1 ∧ (getV (init vars cons) i).w = vars[i].2.1 ∧
      (getV (init vars cons) i).s = vars[i].2.2) ∧
    (∀ i (h : i < cons.length), (getC (init vars cons) i).l = cons[i].1 ∧ (getC (init vars cons) i).r = cons[i].2.1 ∧
      (getC (init vars cons) i).g = cons[i].2.2) := by
  obtain ⟨f1, f2, f3, f4, f5, f6, f7, f8⟩ := init_facts vars cons
  have hact : ∀ ci, (getC (init vars cons) ci).active = false := fun ci => by
    rw [f3]; exact (init0_getC vars cons ci).1
  have hC : ∀ ci (h : ci < cons.length), getC (init vars cons) ci = mkC cons[ci] := fun ci h => by
    rw [f3]; exact (init0_getC vars cons ci).2.2 h
  have hout : ∀ i ci, ci ∈ (getV (init vars cons) i).cOut ↔ (i < vars.length ∧ ∃ h : ci < cons.length, cons[ci].1 = i) :=
    fun i ci => by rw [(f7 i).2.2.2.1]; exact (init0_getV vars cons i).2.1 ci
  have hin : ∀ i ci, ci ∈ (getV (init vars cons) i).cIn ↔ (i < vars.length ∧ ∃ h : ci < cons.length, cons[ci].2.1 = i) :=
    fun i ci => by rw [(f7 i).2.2.2.2]; exact (init0_getV vars cons i).2.2 ci
  have hdata : ∀ i (h : i < vars.length), (getV (init vars cons) i).d = vars[i].1 ∧
      (getV (init vars cons) i).w = vars[i].2.1 ∧ (getV (init vars cons) i).s = vars[i].2.2 := fun i h => by
    rw [(f7 i).1, (f7 i).2.1, (f7 i).2.2.1]
    exact (init0_getV vars cons i).1 h
  refine ⟨⟨⟨?_, ?_, ?_, ?_, ?_, ?_, ?_, ?_⟩, ?_, ?_, ?_, ?_⟩, ?_, f5, f1, f2, hdata, ?_⟩
  · intro ci hci
    rw [f2] at hci
    rw [hC ci hci, f1]
    exact hidx _ (List.getElem_mem hci)
  · intro ci hci
    rw [f2] at hci
    rw [hout, hC ci hci]
    exact ⟨(hidx _ (List.getElem_mem hci)).1, hci, rfl⟩
  · intro ci hci
    rw [f2] at hci
    rw [hin, hC ci hci]
    exact ⟨(hidx _ (List.getElem_mem hci)).2, hci, rfl⟩
  · intro v _ ci hmem
    rw [hout] at hmem
    obtain ⟨_, hci, he⟩ := hmem
    rw [f2, hC ci hci]
    exact ⟨hci, he⟩
  · intro v _ ci hmem
    rw [hin] at hmem
    obtain ⟨_, hci, he⟩ := hmem
    rw [f2, hC ci hci]
    exact ⟨hci, he⟩
  · intro v hv
    rw [f1] at hv
    rw [(hdata v hv).2.2]
    exact hs _ (List.getElem_mem hv)
  · intro v hv
    rw [f1] at hv
    rw [(f8 v hv).1, f6]
    omega
  · intro ci hmem
    rw [f4] at hmem
    rw [f2]
    simpa using hmem
  · intro ci _ ha
    rw [hact ci] at ha
    exact absurd ha Bool.false_ne_true
  · intro u v hu hv
    rw [f1] at hu hv
    rw [conn_of_no_active _ _ hact, (f8 u hu).1, (f8 v hv).1]
    omega
  · intro ci _ ha
    rw [hact ci] at ha
    exact absurd ha Bool.false_ne_true
  · intro v hv u
    rw [f1] at hv
    rw [f1, (f8 v hv).1, (f8 v hv).2.2, List.mem_singleton]
    constructor
    · rintro rfl
      exact ⟨hv, (f8 u hv).1⟩
    · rintro ⟨hu, hb⟩
      rw [(f8 u hu).1] at hb
      omega
  · intro ci hci _
    rw [f2] at hci
    refine Or.inr (Or.inr ?_)
    rw [f4]
    simpa using hci
  · intro i h
    rw [hC i h]
    exact ⟨rfl, rfl, rfl⟩

theorem init_varsNodup (vars : List (Rat × Rat × Rat)) (cons : List (Nat × Nat × Rat))
    (hidx : ∀ c ∈ cons, c.1 < vars.length ∧ c.2.1 < vars.length) : VarsNodup (init vars cons) := by
  have _ := hidx
  obtain ⟨f1, _, _, _, _, _, _, f8⟩ := init_facts vars cons
  intro v hv
  rw [f1] at hv
  rw [(f8 v hv).1, (f8 v hv).2.2]
  exact List.pairwise_singleton _ _

theorem AdjNodup.of_frame {st st' : St} (h : Frame st st') (hn : AdjNodup st) : AdjNodup st' := by
  intro v hv
  rw [h.vsize] at hv
  rw [(h.vstat v).2.2.2.1, (h.vstat v).2.2.2.2]
  exact hn v hv

/-! ## `init` : the adjacency lists have no duplicates -/

theorem FrameAux.nodup_snoc_aux (l : List Nat) (a : Nat) (rest : List Nat) (hl : l.Nodup)
    (hfresh : ∀ ci ∈ l, ci ∉ a :: rest) (ha : a ∉ rest) :
    (l ++ [a]).Nodup ∧ ∀ ci ∈ l ++ [a], ci ∉ rest := by
  refine ⟨List.nodup_append.2 ⟨hl, List.pairwise_singleton _ _, fun x hx y hy => ?_⟩, fun ci hci => ?_⟩
  · rw [List.mem_singleton] at hy
    subst hy
    intro hxy
    exact hfresh x hx (by rw [hxy]; exact List.mem_cons_self)
  · rcases List.mem_append.1 hci with h | h
    · exact fun hr => hfresh ci h (List.mem_cons_of_mem _ hr)
    · rw [List.mem_singleton] at h
      rw [h]
      exact ha

theorem FrameAux.adjFold_nodup (L : List ((Nat × Nat × Rat) × Nat)) : ∀ vs : Array V, (L.map Prod.snd).Nodup →
    (∀ i, (vs.getD i default).cOut.Nodup ∧ (∀ ci ∈ (vs.getD i default).cOut, ci ∉ L.map Prod.snd) ∧
      (vs.getD i default).cIn.Nodup ∧ (∀ ci ∈ (vs.getD i default).cIn, ci ∉ L.map Prod.snd)) →
    ∀ i, ((L.foldl adjStep vs).getD i default).cOut.Nodup ∧ ((L.foldl adjStep vs).getD i default).cIn.Nodup := by
  induction L with
  | nil =>
    intro vs _ h i
    exact ⟨(h i).1, (h i).2.2.1⟩
  | cons p xs ih =>
    intro vs hnd h i
    rw [List.map_cons, List.nodup_cons] at hnd
    rw [List.foldl_cons]
    refine ih (adjStep vs p) hnd.2 (fun j => ?_) i
    obtain ⟨_, _, _, _, _, b6, b7⟩ := adjStep_get vs p j
    obtain ⟨c1, c2, c3, c4⟩ := h j
    rw [List.map_cons] at c2 c4
    rw [b6, b7]
    refine ⟨?_, ?_, ?_, ?_⟩
    · split_ifs
      · exact (nodup_snoc_aux _ _ _ c1 c2 hnd.1).1
      · exact c1
    · split_ifs
      · exact (nodup_snoc_aux _ _ _ c1 c2 hnd.1).2
      · exact fun ci hci hr => c2 ci hci (List.mem_cons_of_mem _ hr)
    · split_ifs
      · exact (nodup_snoc_aux _ _ _ c3 c4 hnd.1).1
      · exact c3
    · split_ifs
      · exact (nodup_snoc_aux _ _ _ c3 c4 hnd.1).2
      · exact fun ci hci hr => c4 ci hci (List.mem_cons_of_mem _ hr)

theorem init_adjNodup (vars : List (Rat × Rat × Rat)) (cons : List (Nat × Nat × Rat))
    (hidx : ∀ c ∈ cons, c.1 < vars.length ∧ c.2.1 < vars.length) : AdjNodup (init vars cons) := by
  have _ := hidx
  obtain ⟨_, _, _, _, _, _, f7, _⟩ := init_facts vars cons
  intro v _
  rw [(f7 v).2.2.2.1, (f7 v).2.2.2.2]
  have hg : getV (init0 vars cons) v = (cons.zipIdx.foldl adjStep (vars.map mkV).toArray).getD v default := rfl
  rw [hg]
  refine adjFold_nodup cons.zipIdx (vars.map mkV).toArray ?_ (fun i => ?_) v
  · rw [List.zipIdx_map_snd]
    exact List.nodup_range'
  · obtain ⟨b1, b2, _⟩ := baseV_get vars i
    rw [b1, b2]
    exact ⟨List.nodup_nil, fun _ h => absurd h List.not_mem_nil, List.nodup_nil, fun _ h => absurd h List.not_mem_nil⟩

end Labella.Vpsc
