import Labella.Model.EngineT
import Labella.Proofs.SortEval
/-! Kernel-evaluable form of the stateful engine `EngineT.computeT` (every `List.mergeSort` replaced by the equal stable
insertion sort of `Proofs/SortEval.lean`), for closed examples checked by `decide +kernel`. -/
namespace Labella.EngineT
open Labella Labella.Layout

def distributeT' (o : DOpts) (s : Store) (nodes : List Nat) : Store × List (List Nat) × Bool :=
  if nodes.isEmpty then (s, [], false) else
  match o.algorithm with
  | .none => (s, [nodes], true)
  | alg =>
    let labels := labelsOf s nodes
    let order := (isort (fun a b => decide (a.1.ideal ≤ b.1.ideal)) labels.zipIdx).map (·.2)
    let sorted := order.map (fun k => nodes.getD k 0)
    let nl := estimateLayers o (order.map (widthOf labels))
    if nl ≤ 1 then (s, [sorted], false) else
    match alg with
    | .simple =>
      let r := simpleLoop o.stubWidth nl.toNat sorted s
      (r.1, r.2, false)
    | _ =>
      let labLayers := (overlapLayers' labels o (maxWidthPerLayer o) (order.length + 1) order).map
        (fun l => l.map (fun k => nodes.getD k 0))
      let r := overlapStubs o.stubWidth (labLayers.length - 1) s labLayers
      (r.1, r.2, false)

theorem distributeT'_eq : distributeT' = distributeT := by
  funext o s nodes
  unfold distributeT' distributeT
  simp only [overlapLayers'_eq, ← sortIds_isort]
  rcases o with ⟨alg, a, b, c, d⟩
  cases alg <;> rfl

def removeOverlapT' (o : ROpts) (s : Store) (layer : List Nat) : Store × List Nat :=
  if layer.isEmpty then (s, layer) else
  let items : List LItem := layer.map (fun i =>
    { target := (match (get s i).parent with
        | some p => (get s p).cur
        | none => (get s i).ideal),
      width := (get s i).width, stub := isStub s i })
  let out := removeOverlap' o items
  let sorted := out.order.map (fun k => layer.getD k 0)
  let s := (sorted.zip out.pos).foldl (fun s (p : Nat × Int) => set s p.1 { get s p.1 with cur := (p.2 : Rat) }) s
  (s, sorted)

theorem removeOverlapT'_eq : removeOverlapT' = removeOverlapT := by
  funext o s layer
  unfold removeOverlapT' removeOverlapT
  simp only [removeOverlap'_eq]
  rfl

def computeT' (e : Engine) (s : Store) : Engine × Store :=
  let s := e.nodes.foldl removeStub s
  let d := distributeT' e.opts.toD s e.nodes
  let r := d.2.1.zipIdx.foldl (fun (acc : Store × List (List Nat)) (p : List Nat × Nat) =>
    let s := p.1.foldl (fun s i => set s i { get s i with layerIndex := p.2 }) acc.1
    let ro := removeOverlapT' e.opts.toR s p.1
    (ro.1, acc.2 ++ [ro.2])) (d.1, [])
  let nodes' := if d.2.2 then r.2.headD e.nodes else e.nodes
  ({ e with nodes := nodes', layers := some r.2 }, r.1)

theorem computeT'_eq : computeT' = computeT := by
  funext e s
  unfold computeT' computeT
  simp only [distributeT'_eq, removeOverlapT'_eq]

def World.step' (w : World) : Op → World
  | .compute =>
    let r := computeT' w.engine w.store
    let obs := (observe r.2 (r.1.layers.getD [])).map (fun l => l.map (fun x => { x with data := w.last.idxOf x.data }))
    { w with engine := r.1, store := r.2, outs := w.outs ++ [obs] }
  | op => w.step op

theorem World.step'_eq : World.step' = World.step := by
  funext w op
  cases op <;> simp only [World.step', World.step, computeT'_eq]

def World.run' (ops : List Op) : World := ops.foldl World.step' World.init

theorem World.run'_eq : World.run' = World.run := by
  funext ops
  unfold World.run' World.run
  rw [World.step'_eq]

end Labella.EngineT
