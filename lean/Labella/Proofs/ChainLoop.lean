import Labella.Proofs.ChainPM
/-! loop-level facts about `Chain.satisfy` -/
namespace Labella.Chain

theorem mergeAt_flatten (k : ℕ) (bs : List Block) : (mergeAt k bs).flatten = bs.flatten := by
  induction bs generalizing k with
  | nil => cases k <;> simp [mergeAt]
  | cons a rest ih =>
    cases k with
    | zero =>
      cases rest with
      | nil => simp [mergeAt]
      | cons b rest' => simp [mergeAt]
    | succ k => simp [mergeAt, ih]

theorem slacks_length (bs : List Block) : (slacks bs).length = bs.length - 1 := by
  induction bs with
  | nil => simp [slacks]
  | cons a rest ih =>
    cases rest with
    | nil => simp [slacks]
    | cons b rest' => simp [slacks] at *; omega

theorem mergeAt_length {k : ℕ} {bs : List Block} (h : k + 1 < bs.length) :
    (mergeAt k bs).length + 1 = bs.length := by
  induction bs generalizing k with
  | nil => simp at h
  | cons a rest ih =>
    cases k with
    | zero =>
      cases rest with
      | nil => simp at h
      | cons b rest' => simp [mergeAt]
    | succ k =>
      simp only [mergeAt, List.length_cons] at *
      have := ih (k := k) (by omega)
      omega

theorem argmin_spec {l : List ℚ} {k : ℕ} {s : ℚ} (h : argmin l = some (k, s)) :
    l[k]? = some s ∧ ∀ x ∈ l, s ≤ x := by
  induction l generalizing k s with
  | nil => simp [argmin] at h
  | cons x xs ih =>
    simp only [argmin] at h
    cases hxs : argmin xs with
    | none =>
      rw [hxs] at h
      simp only [Option.some.injEq, Prod.mk.injEq] at h
      obtain ⟨rfl, rfl⟩ := h
      have : xs = [] := by
        cases xs with
        | nil => rfl
        | cons y ys =>
          simp only [argmin] at hxs
          cases h2 : argmin ys <;> rw [h2] at hxs <;> simp at hxs
          split at hxs <;> simp at hxs
      subst this
      simp
    | some p =>
      obtain ⟨k', y⟩ := p
      rw [hxs] at h
      obtain ⟨h1, h2⟩ := ih hxs
      by_cases hyx : y < x
      · simp only [hyx, if_true, Option.some.injEq, Prod.mk.injEq] at h
        obtain ⟨rfl, rfl⟩ := h
        refine ⟨by simpa using h1, ?_⟩
        intro z hz
        rcases List.mem_cons.mp hz with rfl | hz
        · exact hyx.le
        · exact h2 z hz
      · simp only [hyx, if_false, Option.some.injEq, Prod.mk.injEq] at h
        obtain ⟨rfl, rfl⟩ := h
        refine ⟨by simp, ?_⟩
        intro z hz
        rcases List.mem_cons.mp hz with rfl | hz
        · exact le_refl _
        · exact le_trans (not_lt.mp hyx) (h2 z hz)

theorem argmin_none {l : List ℚ} (h : argmin l = none) : l = [] := by
  cases l with
  | nil => rfl
  | cons x xs =>
    simp only [argmin] at h
    cases h2 : argmin xs with
    | none => rw [h2] at h; simp at h
    | some p => rw [h2] at h; obtain ⟨k, y⟩ := p; simp only at h; split at h <;> simp at h

/-- well-formed block list -/
def WF (bs : List Block) : Prop := ∀ b ∈ bs, b ≠ [] ∧ PosW b ∧ PM b

theorem WF_mergeAt {bs : List Block} {k : ℕ} {s : ℚ} (hwf : WF bs)
    (hs : (slacks bs)[k]? = some s) (hneg : s ≤ 0) : WF (mergeAt k bs) := by
  induction bs generalizing k with
  | nil => simp [slacks] at hs
  | cons a rest ih =>
    cases rest with
    | nil => simp [slacks] at hs
    | cons b rest' =>
      cases k with
      | zero =>
        simp only [slacks, List.getElem?_cons_zero, Option.some.injEq] at hs
        simp only [mergeAt]
        intro c hc
        rcases List.mem_cons.mp hc with rfl | hc
        · obtain ⟨ha, hwa, pa⟩ := hwf a (by simp)
          obtain ⟨hb, hwb, pb⟩ := hwf b (by simp)
          refine ⟨by simp [ha], ?_, PM_append ha hb hwa hwb pa pb (by linarith)⟩
          intro i hi
          rcases List.mem_append.mp hi with h | h
          · exact hwa i h
          · exact hwb i h
        · exact hwf c (by simp [hc])
      | succ k =>
        simp only [slacks, List.getElem?_cons_succ] at hs
        simp only [mergeAt]
        intro c hc
        rcases List.mem_cons.mp hc with rfl | hc
        · exact hwf c (by simp)
        · exact ih (fun d hd => hwf d (by simp [hd])) hs c hc

theorem satisfy_WF {eps : ℚ} (heps : 0 ≤ eps) (fuel : ℕ) {bs : List Block} (hwf : WF bs) :
    WF (satisfy eps fuel bs) := by
  induction fuel generalizing bs with
  | zero => simpa [satisfy]
  | succ fuel ih =>
    simp only [satisfy]
    cases h : argmin (slacks bs) with
    | none => simpa
    | some p =>
      obtain ⟨k, s⟩ := p
      simp only
      split
      · rename_i hlt
        exact ih (WF_mergeAt hwf (argmin_spec h).1 (by linarith))
      · exact hwf

theorem satisfy_flatten (eps : ℚ) (fuel : ℕ) (bs : List Block) :
    (satisfy eps fuel bs).flatten = bs.flatten := by
  induction fuel generalizing bs with
  | zero => simp [satisfy]
  | succ fuel ih =>
    simp only [satisfy]
    cases h : argmin (slacks bs) with
    | none => simp
    | some p =>
      obtain ⟨k, s⟩ := p
      simp only
      split
      · rw [ih, mergeAt_flatten]
      · rfl

/-- with enough fuel the loop ends in a state where no adjacent pair is violated by more than eps -/
theorem satisfy_feasible (eps : ℚ) (fuel : ℕ) (bs : List Block) (hf : bs.length ≤ fuel + 1) :
    ∀ s ∈ slacks (satisfy eps fuel bs), -eps ≤ s := by
  induction fuel generalizing bs with
  | zero =>
    intro s hs
    simp only [satisfy] at hs
    have : (slacks bs).length = 0 := by rw [slacks_length]; omega
    have : slacks bs = [] := List.eq_nil_of_length_eq_zero this
    rw [this] at hs; simp at hs
  | succ fuel ih =>
    simp only [satisfy]
    cases h : argmin (slacks bs) with
    | none =>
      intro s hs
      simp only at hs
      rw [argmin_none h] at hs; simp at hs
    | some p =>
      obtain ⟨k, m⟩ := p
      simp only
      split
      · rename_i hlt
        apply ih
        have hk : k < (slacks bs).length := by
          have := (argmin_spec h).1
          exact (List.getElem?_eq_some_iff.mp this).1
        rw [slacks_length] at hk
        have := mergeAt_length (k := k) (bs := bs) (by omega)
        omega
      · rename_i hge
        intro s hs
        have := (argmin_spec h).2 s hs
        linarith [not_lt.mp hge]

end Labella.Chain
