import Labella.Model.Scale
import Mathlib.Algebra.Order.Field.Rat
import Mathlib.Tactic.Ring
import Mathlib.Tactic.Linarith
import Mathlib.Tactic.FieldSimp
import Mathlib.Tactic.Positivity
import Mathlib.Data.List.Nodup
/-! Helper lemmas for C12 (linear scale): algebra of `apply`, and the invariant of the object state machine. -/
namespace Labella.Scale
open Labella

/-! ### algebra -/

theorem uninterp_of_ne (a b x : ℚ) (h : a ≠ b) : uninterp a b x = (x - a) / (b - a) := by
  have : b - a ≠ 0 := sub_ne_zero.mpr (Ne.symm h)
  simp [uninterp, this]

theorem uninterp_self (a x : ℚ) : uninterp a a x = 0 := by simp [uninterp]

theorem clamp01_nonneg (t : ℚ) : 0 ≤ clamp01 t := by
  unfold clamp01 ratMax ratMin; split_ifs <;> linarith

theorem clamp01_le_one (t : ℚ) : clamp01 t ≤ 1 := by
  unfold clamp01 ratMax ratMin; split_ifs <;> linarith

theorem clamp01_of_mem (t : ℚ) (h0 : 0 ≤ t) (h1 : t ≤ 1) : clamp01 t = t := by
  unfold clamp01 ratMax ratMin; split_ifs <;> linarith

theorem interp_zero (r0 r1 : ℚ) : interp r0 r1 0 = r0 := by simp [interp]
theorem interp_one (r0 r1 : ℚ) : interp r0 r1 1 = r1 := by simp [interp]

theorem interp_mem (r0 r1 t : ℚ) (h0 : 0 ≤ t) (h1 : t ≤ 1) :
    ratMin r0 r1 ≤ interp r0 r1 t ∧ interp r0 r1 t ≤ ratMax r0 r1 := by
  unfold interp ratMin ratMax
  split_ifs with h
  · constructor <;> nlinarith [mul_nonneg h0 (sub_nonneg.mpr h), mul_nonneg (sub_nonneg.mpr h1) (sub_nonneg.mpr h)]
  · have h' : r1 ≤ r0 := le_of_lt (not_le.mp h)
    constructor <;> nlinarith [mul_nonneg h0 (sub_nonneg.mpr h'), mul_nonneg (sub_nonneg.mpr h1) (sub_nonneg.mpr h')]

theorem uninterp_mem (a b x : ℚ) (h : a ≠ b) (hx : ratMin a b ≤ x ∧ x ≤ ratMax a b) :
    0 ≤ uninterp a b x ∧ uninterp a b x ≤ 1 := by
  rw [uninterp_of_ne a b x h]
  unfold ratMin ratMax at hx
  obtain ⟨hx0, hx1⟩ := hx
  split_ifs at hx0 hx1 with hab
  · have hlt : a < b := lt_of_le_of_ne hab h
    have hpos : 0 < b - a := sub_pos.mpr hlt
    exact ⟨div_nonneg (by linarith) hpos.le, (div_le_one hpos).mpr (by linarith)⟩
  · have hlt : b < a := not_le.mp hab
    have hpos : 0 < a - b := sub_pos.mpr hlt
    have e : (x - a) / (b - a) = (a - x) / (a - b) := by
      rw [← neg_sub a x, ← neg_sub a b, neg_div_neg_eq]
    rw [e]
    exact ⟨div_nonneg (by linarith) hpos.le, (div_le_one hpos).mpr (by linarith)⟩

theorem apply_false_eq (a b r0 r1 x : ℚ) (h : a ≠ b) :
    apply false a b r0 r1 x = r0 + (r1 - r0) * ((x - a) / (b - a)) := by
  simp only [apply, Bool.false_eq_true, if_false, uninterp_of_ne a b x h, interp]
  ring

/-! ### the object state machine -/

/-- identical to `Labella.C12.Separated` -/
def Sep (h : Heap) : Prop :=
  (∀ o ∈ h.objs, o.domCell < h.cells.length ∧ o.rngCell < h.cells.length ∧ o.domCell ≠ o.rngCell) ∧
  (h.objs.map (fun o => [o.domCell, o.rngCell])).flatten.Nodup

/-- cell `c` is one of the two list cells of object `o` -/
def owns (o : SObj) (c : Nat) : Prop := c = o.domCell ∨ c = o.rngCell

/-- the invariant of the repaired state machine, in index form -/
structure HInv (h : Heap) : Prop where
  valid : ∀ (i : Nat) (o : SObj), h.objs[i]? = some o →
    o.domCell < h.cells.length ∧ o.rngCell < h.cells.length ∧ o.domCell ≠ o.rngCell
  coh : ∀ (i : Nat) (o : SObj), h.objs[i]? = some o → o.cached = reported h o
  sep : ∀ (i j : Nat) (oi oj : SObj) (c : Nat), h.objs[i]? = some oi → h.objs[j]? = some oj → i ≠ j → owns oi c → ¬ owns oj c

/-- what an operation on object `i` leaves alone -/
def Frame (h h' : Heap) (i : Nat) : Prop :=
  ∀ (k : Nat) (ok : SObj), k ≠ i → h.objs[k]? = some ok → h'.objs[k]? = some ok ∧ reported h' ok = reported h ok

theorem reported_congr (h h' : Heap) (o : SObj) (hd : h'.cell o.domCell = h.cell o.domCell)
    (hr : h'.cell o.rngCell = h.cell o.rngCell) : reported h' o = reported h o := by
  simp [reported, hd, hr]

theorem cached_rescale (h : Heap) (o : SObj) : (rescale h o).cached = reported h (rescale h o) := rfl

/-- the one generic preservation lemma: object slot `i` is (re)written with `o'`, cells not owned by the old occupant
of slot `i` keep their contents, and `o'` owns only cells of the old occupant or fresh cells -/
theorem HInv.update {h h' : Heap} {i : Nat} {o' : SObj} (hI : HInv h)
    (hobjs : ∀ k, k ≠ i → h'.objs[k]? = h.objs[k]?)
    (hi : ∀ x, h'.objs[i]? = some x → x = o')
    (hlen : h.cells.length ≤ h'.cells.length)
    (hcells : ∀ c, c < h.cells.length → (∀ o, h.objs[i]? = some o → ¬ owns o c) → h'.cell c = h.cell c)
    (hv : o'.domCell < h'.cells.length ∧ o'.rngCell < h'.cells.length ∧ o'.domCell ≠ o'.rngCell)
    (hown : ∀ c, owns o' c → (∃ o, h.objs[i]? = some o ∧ owns o c) ∨ h.cells.length ≤ c)
    (hc : o'.cached = reported h' o') : HInv h' ∧ Frame h h' i := by
  -- other objects' cells are old cells not owned by the old occupant of slot i
  have other : ∀ k ok, k ≠ i → h.objs[k]? = some ok → ∀ c, owns ok c → h'.cell c = h.cell c := by
    intro k ok hk hok c hc'
    apply hcells c
    · rcases hc' with rfl | rfl
      · exact (hI.valid k ok hok).1
      · exact (hI.valid k ok hok).2.1
    · intro o ho hoc
      exact hI.sep i k o ok c ho hok (Ne.symm hk) hoc hc'
  have rep : ∀ k ok, k ≠ i → h.objs[k]? = some ok → reported h' ok = reported h ok := by
    intro k ok hk hok
    exact reported_congr h h' ok (other k ok hk hok _ (Or.inl rfl)) (other k ok hk hok _ (Or.inr rfl))
  -- o' against another object
  have sepNew : ∀ k ok c, k ≠ i → h.objs[k]? = some ok → owns o' c → ¬ owns ok c := by
    intro k ok c hk hok hoc hkc
    rcases hown c hoc with ⟨o, ho, hoc'⟩ | hge
    · exact hI.sep i k o ok c ho hok (Ne.symm hk) hoc' hkc
    · have hlt : c < h.cells.length := by
        rcases hkc with rfl | rfl
        · exact (hI.valid k ok hok).1
        · exact (hI.valid k ok hok).2.1
      omega
  refine ⟨⟨?_, ?_, ?_⟩, ?_⟩
  · intro k ok hok
    by_cases hk : k = i
    · subst hk; rw [hi ok hok]; exact hv
    · rw [hobjs k hk] at hok
      obtain ⟨h1, h2, h3⟩ := hI.valid k ok hok
      exact ⟨by omega, by omega, h3⟩
  · intro k ok hok
    by_cases hk : k = i
    · subst hk; rw [hi ok hok]; exact hc
    · rw [hobjs k hk] at hok
      rw [rep k ok hk hok]; exact hI.coh k ok hok
  · intro j k oj ok c hoj hok hjk hjc hkc
    by_cases hj : j = i
    · subst hj
      rw [hi oj hoj] at hjc
      rw [hobjs k (Ne.symm hjk)] at hok
      exact sepNew k ok c (Ne.symm hjk) hok hjc hkc
    · rw [hobjs j hj] at hoj
      by_cases hk : k = i
      · subst hk
        rw [hi ok hok] at hkc
        exact sepNew j oj c hj hoj hkc hjc
      · rw [hobjs k hk] at hok
        exact hI.sep j k oj ok c hoj hok hjk hjc hkc
  · intro k ok hk hok
    exact ⟨by rw [hobjs k hk]; exact hok, rep k ok hk hok⟩

theorem Frame.refl (h : Heap) (i : Nat) : Frame h h i := fun _ _ _ hok => ⟨hok, rfl⟩

theorem Frame.of_length {h h' : Heap} {i : Nat} (hf : Frame h h' h.objs.length) : Frame h h' i := by
  intro k ok _ hok
  have hk : k < h.objs.length := (List.getElem?_eq_some_iff.mp hok).1
  exact hf k ok (by omega) hok

theorem cell_append_left (cs ex : List (Rat × Rat)) (objs objs' : List SObj) (c : Nat) (hc : c < cs.length) :
    Heap.cell ⟨cs ++ ex, objs'⟩ c = Heap.cell ⟨cs, objs⟩ c := by
  simp [Heap.cell, List.getD_eq_getElem?_getD, List.getElem?_append_left hc]

theorem cell_set_ne (cs : List (Rat × Rat)) (objs objs' : List SObj) (d c : Nat) (v : Rat × Rat) (hc : c ≠ d) :
    Heap.cell ⟨cs.set d v, objs'⟩ c = Heap.cell ⟨cs, objs⟩ c := by
  simp [Heap.cell, List.getD_eq_getElem?_getD, List.getElem?_set_ne (Ne.symm hc)]

/-- the target object of an operation (identical to `Labella.C12.Op.target`) -/
def Op.tgt : Op → Nat
  | .domain i _ _ => i | .range i _ _ => i | .clamp i _ => i | .nice i _ => i | .inplace i _ _ => i | .copy i => i

/-- slot `i` of `objs.set i o'` -/
theorem set_slot {objs : List SObj} {i : Nat} {o' : SObj} :
    (∀ k, k ≠ i → (objs.set i o')[k]? = objs[k]?) ∧ (∀ x, (objs.set i o')[i]? = some x → x = o') := by
  refine ⟨fun k hk => List.getElem?_set_ne (Ne.symm hk), fun x hx => ?_⟩
  rw [List.getElem?_set] at hx
  simp only [if_true] at hx
  split_ifs at hx
  exact (Option.some.inj hx).symm

/-- slot `objs.length` of `objs ++ [o']` -/
theorem append_slot {objs : List SObj} {o' : SObj} :
    (∀ k, k ≠ objs.length → (objs ++ [o'])[k]? = objs[k]?) ∧
    (∀ x, (objs ++ [o'])[objs.length]? = some x → x = o') := by
  refine ⟨fun k hk => ?_, fun x hx => ?_⟩
  · rcases Nat.lt_or_ge k objs.length with hlt | hge
    · exact List.getElem?_append_left hlt
    · have h1 : objs[k]? = none := List.getElem?_eq_none hge
      have h2 : (objs ++ [o'])[k]? = none := List.getElem?_eq_none (by simp; omega)
      rw [h1, h2]
  · rw [List.getElem?_concat_length] at hx
    exact (Option.some.inj hx).symm

theorem step_spec (h : Heap) (op : Op) (hI : HInv h) :
    HInv (stepOp false h op) ∧ Frame h (stepOp false h op) op.tgt := by
  obtain ⟨cs, objs⟩ := h
  cases op with
  | domain i a b =>
    simp only [stepOp, Op.tgt]
    cases ho : objs[i]? with
    | none => exact ⟨hI, Frame.refl _ _⟩
    | some o =>
      simp only [setObj]
      have hvo := hI.valid i o ho
      refine HInv.update (i := i) hI set_slot.1 set_slot.2 (by simp) ?_ ?_ ?_ (cached_rescale _ _)
      · intro c hc _; exact cell_append_left cs _ _ _ c hc
      · simp only [rescale, List.length_append, List.length_singleton]
        exact ⟨by omega, by have := hvo.2.1; simp at this; omega, by have := hvo.2.1; simp at this; omega⟩
      · intro c hc
        rcases hc with rfl | rfl
        · right; simp [rescale]
        · left; exact ⟨o, ho, Or.inr rfl⟩
  | range i a b =>
    simp only [stepOp, Op.tgt]
    cases ho : objs[i]? with
    | none => exact ⟨hI, Frame.refl _ _⟩
    | some o =>
      simp only [setObj]
      have hvo := hI.valid i o ho
      refine HInv.update (i := i) hI set_slot.1 set_slot.2 (by simp) ?_ ?_ ?_ (cached_rescale _ _)
      · intro c hc _; exact cell_append_left cs _ _ _ c hc
      · simp only [rescale, List.length_append, List.length_singleton]
        exact ⟨by have := hvo.1; simp at this; omega, by omega, by have := hvo.1; simp at this; omega⟩
      · intro c hc
        rcases hc with rfl | rfl
        · left; exact ⟨o, ho, Or.inl rfl⟩
        · right; simp [rescale]
  | clamp i b =>
    simp only [stepOp, Op.tgt]
    cases ho : objs[i]? with
    | none => exact ⟨hI, Frame.refl _ _⟩
    | some o =>
      simp only [setObj]
      have hvo := hI.valid i o ho
      refine HInv.update (i := i) hI set_slot.1 set_slot.2 (by simp) ?_ ?_ ?_ (cached_rescale _ _)
      · intro c hc _; rfl
      · exact hvo
      · intro c hc
        left; exact ⟨o, ho, hc⟩
  | nice i m =>
    simp only [stepOp, Op.tgt]
    cases ho : objs[i]? with
    | none => exact ⟨hI, Frame.refl _ _⟩
    | some o =>
      simp only [setObj]
      have hvo := hI.valid i o ho
      refine HInv.update (i := i) hI set_slot.1 set_slot.2 (by simp) ?_ ?_ ?_ (cached_rescale _ _)
      · intro c hc hno
        exact cell_set_ne cs _ _ _ c _ (fun e => hno o ho (Or.inl e))
      · simpa [rescale] using hvo
      · intro c hc
        left; exact ⟨o, ho, hc⟩
  | inplace i a b =>
    simp only [stepOp, Op.tgt]
    cases ho : objs[i]? with
    | none => exact ⟨hI, Frame.refl _ _⟩
    | some o =>
      simp only [setObj]
      have hvo := hI.valid i o ho
      refine HInv.update (i := i) hI set_slot.1 set_slot.2 (by simp) ?_ ?_ ?_ (cached_rescale _ _)
      · intro c hc hno
        exact cell_set_ne cs _ _ _ c _ (fun e => hno o ho (Or.inl e))
      · simpa [rescale] using hvo
      · intro c hc
        left; exact ⟨o, ho, hc⟩
  | copy i =>
    simp only [stepOp, Op.tgt]
    cases ho : objs[i]? with
    | none => exact ⟨hI, Frame.refl _ _⟩
    | some o =>
      simp only [Bool.false_eq_true, if_false]
      have hvo := hI.valid i o ho
      refine (fun hup => ⟨hup.1, Frame.of_length hup.2⟩)
        (HInv.update (i := objs.length) hI append_slot.1 append_slot.2 (by simp) ?_ ?_ ?_ (cached_rescale _ _))
      · intro c hc _; exact cell_append_left cs _ _ _ c hc
      · simp only [rescale, List.length_append, List.length_cons, List.length_nil]
        exact ⟨by omega, by omega, by omega⟩
      · intro c hc
        right
        rcases hc with rfl | rfl <;> simp [rescale]

theorem HInv.init : HInv Heap.init := by
  refine ⟨?_, ?_, ?_⟩
  · intro i o ho
    cases i with
    | zero => simp [Heap.init, rescale] at ho; subst ho; simp [Heap.init]
    | succ n => simp [Heap.init] at ho
  · intro i o ho
    cases i with
    | zero => simp [Heap.init] at ho; subst ho; exact cached_rescale _ _
    | succ n => simp [Heap.init] at ho
  · intro i j oi oj c hi hj hij
    cases i with
    | zero =>
      cases j with
      | zero => exact absurd rfl hij
      | succ n => simp [Heap.init] at hj
    | succ n => simp [Heap.init] at hi

theorem HInv.foldl (ops : List Op) (h : Heap) (hI : HInv h) : HInv (ops.foldl (stepOp false) h) := by
  induction ops generalizing h with
  | nil => exact hI
  | cons op ops ih => exact ih _ (step_spec h op hI).1

theorem HInv.run (ops : List Op) : HInv (run false ops) := HInv.foldl ops _ HInv.init

theorem HInv.coherent {h : Heap} (hI : HInv h) : coherentB h = true := by
  unfold coherentB
  rw [List.all_eq_true]
  intro o ho
  obtain ⟨i, hi⟩ := List.mem_iff_getElem?.mp ho
  rw [hI.coh i o hi]
  exact beq_self_eq_true _

theorem HInv.separated {h : Heap} (hI : HInv h) : Sep h := by
  refine ⟨?_, ?_⟩
  · intro o ho
    obtain ⟨i, hi⟩ := List.mem_iff_getElem?.mp ho
    exact hI.valid i o hi
  · rw [List.nodup_flatten]
    refine ⟨?_, ?_⟩
    · intro l hl
      obtain ⟨o, ho, rfl⟩ := List.mem_map.mp hl
      obtain ⟨i, hi⟩ := List.mem_iff_getElem?.mp ho
      have := (hI.valid i o hi).2.2
      simp [this]
    · rw [List.pairwise_map, List.pairwise_iff_getElem]
      intro i j hi hj hij
      have h1 : h.objs[i]? = some h.objs[i] := List.getElem?_eq_getElem hi
      have h2 : h.objs[j]? = some h.objs[j] := List.getElem?_eq_getElem hj
      intro c hc1 hc2
      refine hI.sep i j _ _ c h1 h2 (by omega) ?_ ?_
      · simpa [owns] using hc1
      · simpa [owns] using hc2

theorem copy_last (h : Heap) (i : Nat) (o : SObj) (hi : h.objs[i]? = some o) :
    ∃ o', (stepOp false h (.copy i)).objs.getLast? = some o' ∧
      reported (stepOp false h (.copy i)) o' = reported h o := by
  simp only [stepOp, hi, Bool.false_eq_true, if_false]
  refine ⟨_, List.getLast?_concat, ?_⟩
  simp [reported, rescale, Heap.cell]

end Labella.Scale
