import Labella.Model.Pipeline
import Labella.Proofs.EndToEnd
import Labella.Proofs.Rounding
import Labella.Proofs.RenderLemmas
import Labella.Props.C01
import Mathlib.Algebra.Order.Field.Rat
import Mathlib.Tactic.Ring
import Mathlib.Tactic.Linarith
import Mathlib.Tactic.NormNum
/-! Helper lemmas for the end-to-end statements of C07 / C08 about `Pipeline.drawn`
(`Timeline.compute` + the emitters' box geometry, composed). -/
namespace Labella.Pipeline
open Labella Labella.Layout Labella.Render

/-! ### what is in `drawn` -/

/-- an element of `drawn` is the node / box of a non-stub item `p` found at `(layer, idx)` of the computed layout -/
theorem mem_drawn (dir : Dir) (layerGap : ℚ) (fo : FOpts) (items : List PItem) (a : Drawn)
    (h : a ∈ drawn dir layerGap fo items) :
    ∃ layer p, (compute fo (labelsOf dir items))[a.layer]? = some layer ∧ layer[a.idx]? = some p ∧
      p.ref.isStub = false ∧ a.id = p.ref.id ∧
      a.node = rnode dir items (compute fo (labelsOf dir items)) a.layer p.ref.id p.pos ∧
      a.box = modelBox (ropt dir layerGap items) a.node := by
  unfold drawn at h
  simp only [List.mem_flatMap, List.mem_filterMap] at h
  obtain ⟨⟨layer, k⟩, hlk, ⟨p, i⟩, hpi, h⟩ := h
  have h1 := List.mem_zipIdx_iff_getElem?.1 hlk
  have h2 := List.mem_zipIdx_iff_getElem?.1 hpi
  simp only at h1 h2 h
  split at h
  · cases h
  · rename_i hs
    simp only [Option.some.injEq] at h
    subst h
    exact ⟨layer, p, h1, h2, by simpa using hs, rfl, rfl, rfl⟩


/-! ### every datum exactly once -/

/-- label ids of one layer of refs -/
def labelsIn (layer : List Ref) : List Nat :=
  layer.filterMap (fun r => match r with | .label i => some i | .stub _ _ => none)

theorem labelIds_cons (l : List Ref) (D : List (List Ref)) : labelIds (l :: D) = labelsIn l ++ labelIds D := by
  have e : (fun r : Ref => match r with | .label i => some i | .stub _ _ => none)
      = (fun r : Ref => match r with | .label i => some i | .stub _ _ => (none : Option Nat)) := by
    funext r; cases r <;> rfl
  unfold labelIds labelsIn
  rw [List.flatten_cons, List.filterMap_append]
  congr 1

theorem labelIds_eq_flatMap (D : List (List Ref)) : labelIds D = D.flatMap labelsIn := by
  induction D with
  | nil => rfl
  | cons l D ih => rw [labelIds_cons, ih, List.flatMap_cons]

theorem zipIdx_flatMap_fst {α β : Type} (l : List α) (g : α × Nat → List β) (g' : α → List β)
    (h : ∀ x, g x = g' x.1) : l.zipIdx.flatMap g = l.flatMap g' := by
  have e : g = g' ∘ Prod.fst := funext h
  have := List.flatMap_map Prod.fst g' (l := l.zipIdx)
  rw [List.zipIdx_map_fst] at this
  rw [e, this]
  rfl

theorem zipIdx_filterMap_fst {α β : Type} (l : List α) (g : α × Nat → Option β) (g' : α → Option β)
    (h : ∀ x, g x = g' x.1) : l.zipIdx.filterMap g = l.filterMap g' := by
  have e : g = g' ∘ Prod.fst := funext h
  have := List.filterMap_map (f := Prod.fst) (g := g') (l := l.zipIdx)
  rw [List.zipIdx_map_fst] at this
  rw [e, this]

theorem drawn_ids (dir : Dir) (layerGap : ℚ) (fo : FOpts) (items : List PItem) :
    (drawn dir layerGap fo items).map (·.id)
      = (compute fo (labelsOf dir items)).flatMap (fun layer => labelsIn (layer.map (·.ref))) := by
  unfold drawn
  simp only [List.map_flatMap, List.map_filterMap]
  apply zipIdx_flatMap_fst
  intro lk
  unfold labelsIn
  rw [List.filterMap_map]
  apply zipIdx_filterMap_fst
  intro pi
  simp only [Function.comp]
  cases hr : pi.1.ref with
  | label i => simp [Ref.isStub, Ref.id]
  | stub i lv => simp [Ref.isStub]

theorem zipWith_fst_eq_map {α β γ : Type} (f : α → γ) : ∀ (as : List α) (bs : List β), as.length ≤ bs.length →
    List.zipWith (fun a _ => f a) as bs = as.map f := by
  intro as
  induction as with
  | nil => intro bs _; simp
  | cons a as ih =>
    intro bs h
    cases bs with
    | nil => simp at h
    | cons b bs =>
      simp only [List.zipWith_cons_cons, List.map_cons]
      rw [ih bs (by simpa using h)]

theorem range_map_getD {α : Type} (l : List α) (d : α) : (List.range l.length).map (fun k => l.getD k d) = l := by
  apply List.ext_getElem
  · simp
  · intro i h1 h2
    simp [List.getD_eq_getElem?_getD, List.getElem?_eq_getElem h2]

/-- `placeLayer` keeps the refs of the layer: it only reorders them -/
theorem placeLayer_refs_perm (o : FOpts) (labels : List Label) (prev : Option (List Placed)) (layer : List Ref) :
    ((placeLayer o labels prev layer).map (·.ref)).Perm layer := by
  unfold placeLayer
  have hperm := EngineT.removeOverlap_order_perm o.toR (layer.map (layerItem o labels prev))
  have hpos := EngineT.removeOverlap_pos_length o.toR (layer.map (layerItem o labels prev))
  generalize removeOverlap o.toR (layer.map (layerItem o labels prev)) = out at *
  rw [List.length_map] at hperm hpos
  simp only [List.map_zipWith]
  rw [zipWith_fst_eq_map (fun idx => layer.getD idx (Ref.label 0)) out.order out.pos
    (by rw [hperm.length_eq, List.length_range, hpos])]
  have := hperm.map (fun k => layer.getD k (Ref.label 0))
  rwa [range_map_getD] at this

theorem placeLayers_refs_perm (o : FOpts) (labels : List Label) :
    ∀ (ls : List (List Ref)) (prev : Option (List Placed)),
      List.Forall₂ (fun (pl : List Placed) (l : List Ref) => (pl.map (·.ref)).Perm l) (placeLayers o labels prev ls) ls := by
  intro ls
  induction ls with
  | nil => intro prev; exact List.Forall₂.nil
  | cons l ls ih =>
    intro prev
    simp only [placeLayers]
    exact List.Forall₂.cons (placeLayer_refs_perm o labels prev l) (ih _)

theorem forall₂_labels_perm : ∀ (L : List (List Placed)) (D : List (List Ref)),
    List.Forall₂ (fun (pl : List Placed) (l : List Ref) => (pl.map (·.ref)).Perm l) L D →
    (L.flatMap (fun layer => labelsIn (layer.map (·.ref)))).Perm (labelIds D) := by
  intro L D h
  induction h with
  | nil => exact List.Perm.refl _
  | cons hp _ ih =>
    rw [List.flatMap_cons, labelIds_cons]
    exact (hp.filterMap _).append ih

theorem labelsOf_length (dir : Dir) (items : List PItem) : (labelsOf dir items).length = items.length := by
  simp [labelsOf]

/-- **every datum is drawn exactly once** -/
theorem drawn_ids_perm (dir : Dir) (layerGap : ℚ) (fo : FOpts) (items : List PItem) :
    ((drawn dir layerGap fo items).map (·.id)).Perm (List.range items.length) := by
  rw [drawn_ids]
  have h1 := forall₂_labels_perm _ _ (placeLayers_refs_perm fo (labelsOf dir items) (distribute fo.toD (labelsOf dir items)) none)
  have h2 := C04.distribute_conserves fo.toD (labelsOf dir items)
  rw [labelsOf_length] at h2
  exact h1.trans h2


/-! ### separation of two items of one layer, the earlier one a label -/

/-- left edges along a separated layer: item `k` places after the head starts at most `k·e` before the head does -/
theorem left_edge_at (o : ROpts) (e : ℚ) (hns : 0 ≤ o.nodeSpacing) (hls : 0 ≤ o.lineSpacing) :
    ∀ (L : List (LItem × ℚ)) (k : Nat) (a b : LItem × ℚ), sepAdjB o e L = true → (∀ p ∈ L, 0 ≤ p.1.width) →
      L[0]? = some a → L[k]? = some b → a.2 - a.1.width / 2 - e * (k : ℚ) ≤ b.2 - b.1.width / 2 := by
  intro L
  induction L with
  | nil => intro k a b _ _ h0; simp at h0
  | cons a' rest ih =>
    intro k a b hs hw h0 hk
    simp only [List.getElem?_cons_zero, Option.some.injEq] at h0
    subst h0
    cases k with
    | zero =>
      simp only [List.getElem?_cons_zero, Option.some.injEq] at hk
      subst hk
      simp
    | succ k =>
      cases rest with
      | nil => simp at hk
      | cons c rest' =>
        have hs' := hs
        simp only [sepAdjB, Bool.and_eq_true, decide_eq_true_eq] at hs'
        obtain ⟨⟨_, hgap⟩, hrest⟩ := hs'
        have hi := ih k c b hrest (fun q hq => hw q (by simp [hq])) rfl (by simpa using hk)
        have hsp := spacing_nonneg o hns hls a'.1 c.1
        have hwa := hw a' (by simp)
        unfold gap at hgap
        rw [halfDivisor_eq'] at hgap
        push_cast
        linarith

/-- a label and any later item of a separated layer: centres at least half the widths plus the LABEL spacing apart, less the
tolerance for every step between them -/
theorem sep_label_from (o : ROpts) (e : ℚ) (hns : 0 ≤ o.nodeSpacing) (hls : 0 ≤ o.lineSpacing) :
    ∀ (L : List (LItem × ℚ)) (i k : Nat) (a b : LItem × ℚ), sepAdjB o e L = true → (∀ p ∈ L, 0 ≤ p.1.width) →
      L[i]? = some a → L[i + k + 1]? = some b → a.1.stub = false →
      (a.1.width + b.1.width) / 2 + o.nodeSpacing - e * ((k + 1 : Nat) : ℚ) ≤ b.2 - a.2 := by
  intro L
  induction L with
  | nil => intro i k a b _ _ h0; simp at h0
  | cons a' rest ih =>
    intro i k a b hs hw ha hb hst
    cases i with
    | zero =>
      simp only [List.getElem?_cons_zero, Option.some.injEq] at ha
      subst ha
      simp only [Nat.zero_add, List.getElem?_cons_succ] at hb
      cases rest with
      | nil => simp at hb
      | cons c rest' =>
        have hs' := hs
        simp only [sepAdjB, Bool.and_eq_true, decide_eq_true_eq] at hs'
        obtain ⟨⟨_, hgap⟩, hrest⟩ := hs'
        have hle := left_edge_at o e hns hls (c :: rest') k c b hrest (fun q hq => hw q (by simp [hq])) rfl hb
        have hsp : spacing o a'.1 c.1 = o.nodeSpacing := by
          unfold spacing; simp [hst]
        unfold gap at hgap
        rw [halfDivisor_eq', hsp] at hgap
        push_cast
        linarith
    | succ i =>
      have e1 : i + 1 + k + 1 = (i + k + 1) + 1 := by omega
      rw [e1, List.getElem?_cons_succ] at hb
      rw [List.getElem?_cons_succ] at ha
      exact ih i k a b (sepAdjB_tail hs) (fun q hq => hw q (by simp [hq])) ha hb hst


/-! ### the computed layout, layer by layer, with the solver's own (unrounded) positions -/

/-- item `i` of layer `k` of the computed layout is item `i` of the solver's sorted list; its reported position is the rounding
of the solver's position `i` -/
theorem layer_unrounded (fo : FOpts) (labels : List Label) (k : Nat) (layer : List Placed)
    (hL : (compute fo labels)[k]? = some layer) (i : Nat) (p : Placed) (hp : layer[i]? = some p) :
    ∃ x, ((C01.solvedItems fo labels k).zip (solveSorted fo.toR (C01.solvedItems fo labels k)))[i]?
        = some (layerItem fo labels (if k = 0 then none else (compute fo labels)[k - 1]?) p.ref, x) ∧
      (p.pos : ℚ) = ((roundHalfEven x : Int) : ℚ) := by
  have hv := C01.layerView_eq_zip fo labels k
  have hvi : (C01.layerView fo labels (compute fo labels) k)[i]?
      = some (layerItem fo labels (if k = 0 then none else (compute fo labels)[k - 1]?) p.ref, (p.pos : ℚ)) := by
    unfold C01.layerView
    rw [List.getD_eq_getElem?_getD, hL, Option.getD_some, List.getElem?_map, hp]
    rfl
  rw [hv, List.getElem?_zip_eq_some] at hvi
  obtain ⟨h1, h2⟩ := hvi
  rw [List.getElem?_map] at h2
  cases hx : (solveSorted fo.toR (C01.solvedItems fo labels k))[i]? with
  | none => rw [hx] at h2; simp at h2
  | some x =>
    rw [hx] at h2
    simp only [Option.map_some, Option.some.injEq] at h2
    refine ⟨x, ?_, h2.symm⟩
    rw [List.getElem?_zip_eq_some]
    exact ⟨h1, hx⟩

theorem default_along (dir : Dir) : along dir (default : PItem) = 0 := by
  cases dir <;> rfl

theorem widthOf_labelsOf (dir : Dir) (items : List PItem) (id : Nat) :
    widthOf (labelsOf dir items) id = along dir (items.getD id default) := by
  unfold widthOf labelsOf
  rw [List.getElem?_map, List.getD_eq_getElem?_getD]
  cases items[id]? with
  | none => simp [default_along]
  | some it => simp

theorem idealOf_labelsOf (dir : Dir) (items : List PItem) (id : Nat) :
    idealOf (labelsOf dir items) id = (items.getD id default).ideal := by
  unfold idealOf labelsOf
  rw [List.getElem?_map, List.getD_eq_getElem?_getD]
  cases items[id]? with
  | none => rfl
  | some it => simp

theorem along_nonneg (dir : Dir) (it : PItem) (h : 0 ≤ it.w ∧ 0 ≤ it.h) : 0 ≤ along dir it := by
  unfold along; split
  · exact h.1
  · exact h.2

theorem labelsOf_width_nonneg (dir : Dir) (items : List PItem) (hsz : ∀ it ∈ items, 0 ≤ it.w ∧ 0 ≤ it.h) :
    ∀ l ∈ labelsOf dir items, 0 ≤ l.width := by
  intro l hl
  unfold labelsOf at hl
  obtain ⟨it, hit, rfl⟩ := List.mem_map.1 hl
  exact along_nonneg dir it (hsz it hit)

/-- **two boxes of one layer, centres**: the reported positions of two labels of one layer keep half the sum of their extents
along the axis plus the label spacing, less 1 (rounding) and the solver tolerance for every step between them -/
theorem drawn_sep (dir : Dir) (layerGap : ℚ) (fo : FOpts) (items : List PItem)
    (hns : 0 ≤ fo.nodeSpacing) (hls : 0 ≤ fo.lineSpacing) (hsw : 0 ≤ fo.stubWidth)
    (hsz : ∀ it ∈ items, 0 ≤ it.w ∧ 0 ≤ it.h)
    (a b : Drawn) (ha : a ∈ drawn dir layerGap fo items) (hb : b ∈ drawn dir layerGap fo items)
    (hl : a.layer = b.layer) (hi : a.idx < b.idx) :
    (a.node.width + b.node.width) / 2 + fo.nodeSpacing - 1 - Layout.eps * ((b.idx - a.idx : Nat) : ℚ)
      ≤ b.node.cur - a.node.cur := by
  obtain ⟨la, pa, hLa, hpa, hsa, hida, hna, hba⟩ := mem_drawn dir layerGap fo items a ha
  obtain ⟨lb, pb, hLb, hpb, hsb, hidb, hnb, hbb⟩ := mem_drawn dir layerGap fo items b hb
  rw [← hl, hLa] at hLb
  obtain rfl := Option.some.inj hLb
  obtain ⟨xa, hUa, hra⟩ := layer_unrounded fo (labelsOf dir items) a.layer la hLa a.idx pa hpa
  obtain ⟨xb, hUb, hrb⟩ := layer_unrounded fo (labelsOf dir items) a.layer la hLa b.idx pb hpb
  have hsorted := C01.solvedItems_sorted fo (labelsOf dir items) a.layer
  have hsep := sep_unrounded' fo.toR _ hsorted
  have hwS : ∀ q ∈ (C01.solvedItems fo (labelsOf dir items) a.layer).zip
      (solveSorted fo.toR (C01.solvedItems fo (labelsOf dir items) a.layer)), 0 ≤ q.1.width := by
    intro q hq
    have h1 := (List.of_mem_zip hq).1
    rw [C01.solvedItems_eq] at h1
    exact sorted_width_nonneg fo (labelsOf dir items) (labelsOf_width_nonneg dir items hsz) hsw a.layer q.1 h1
  have hidx : a.idx + (b.idx - a.idx - 1) + 1 = b.idx := by omega
  have key := sep_label_from fo.toR Layout.eps hns hls _ a.idx (b.idx - a.idx - 1) _ _ hsep hwS hUa
    (by rw [hidx]; exact hUb) (by simp [layerItem, hsa])
  have hcnt : b.idx - a.idx - 1 + 1 = b.idx - a.idx := by omega
  rw [hcnt] at key
  have hwa : a.node.width = widthOf (labelsOf dir items) pa.ref.id := by
    rw [hna, widthOf_labelsOf]; rfl
  have hwb : b.node.width = widthOf (labelsOf dir items) pb.ref.id := by
    rw [hnb, widthOf_labelsOf]; rfl
  have hca : a.node.cur = (pa.pos : ℚ) := by rw [hna]; rfl
  have hcb : b.node.cur = (pb.pos : ℚ) := by rw [hnb]; rfl
  simp only [layerItem, hsa, hsb, Bool.false_eq_true, if_false] at key
  have r1 := abs_le.mp (round_close' xa)
  have r2 := abs_le.mp (round_close' xb)
  rw [hwa, hwb, hca, hcb, hra, hrb]
  change _ + (fo.nodeSpacing : ℚ) - _ ≤ _ at key
  linarith [r1.1, r1.2, r2.1, r2.2]


/-! ### `nodeHeight` is the largest thickness -/

theorem foldl_max_ge_init : ∀ (l : List ℚ) (init : ℚ), init ≤ l.foldl max init := by
  intro l
  induction l with
  | nil => intro init; exact le_refl _
  | cons x l ih => intro init; exact le_trans (le_max_left init x) (ih (max init x))

theorem le_foldl_max : ∀ (l : List ℚ) (init x : ℚ), x ∈ l → x ≤ l.foldl max init := by
  intro l
  induction l with
  | nil => intro init x h; cases h
  | cons y l ih =>
    intro init x h
    rcases List.mem_cons.1 h with rfl | h
    · exact le_trans (le_max_right init x) (foldl_max_ge_init l (max init x))
    · exact ih (max init y) x h

theorem nodeHeight_nonneg (dir : Dir) (items : List PItem) : 0 ≤ nodeHeight dir items :=
  foldl_max_ge_init _ 0

theorem thick_le_nodeHeight (dir : Dir) (items : List PItem) (it : PItem) (h : it ∈ items) :
    thick dir it ≤ nodeHeight dir items :=
  le_foldl_max _ 0 _ (List.mem_map.2 ⟨it, h, rfl⟩)

/-- what the node and box of a drawn label are -/
theorem drawn_node (dir : Dir) (layerGap : ℚ) (fo : FOpts) (items : List PItem) (a : Drawn)
    (h : a ∈ drawn dir layerGap fo items) :
    a.id < items.length ∧ a.node.layer = a.layer ∧ a.node.w = (items.getD a.id default).w ∧
      a.node.h = (items.getD a.id default).h ∧ a.node.width = along dir (items.getD a.id default) ∧
      a.node.ideal = (items.getD a.id default).ideal ∧ a.box = modelBox (ropt dir layerGap items) a.node := by
  obtain ⟨la, pa, hLa, hpa, hsa, hida, hna, hba⟩ := mem_drawn dir layerGap fo items a h
  have hlt := compute_ids_lt fo (labelsOf dir items) la (List.mem_of_getElem? hLa) pa (List.mem_of_getElem? hpa)
  rw [labelsOf_length] at hlt
  rw [hna, hida]
  exact ⟨hlt, rfl, rfl, rfl, rfl, rfl, by rw [hba, hna]⟩

theorem getD_mem {α : Type} (l : List α) (i : Nat) (d : α) (h : i < l.length) : l.getD i d ∈ l := by
  rw [List.getD_eq_getElem?_getD, List.getElem?_eq_getElem h, Option.getD_some]
  exact List.getElem_mem h

/-- boxes of a farther layer lie wholly beyond the boxes of nearer layers (layer gap ≥ 1, labels no thicker
than `nodeHeight`; for `up` the far label may be thinner than `nodeHeight`: its near edge is then farther still) -/
theorem layers_nested' (o : ROpt) (a b : RNode) (hnh : 0 ≤ o.nodeHeight) (hlg : 1 ≤ o.layerGap)
    (hab : a.layer < b.layer)
    (hta : if o.dir.horizontalAxis then a.h ≤ o.nodeHeight else a.w ≤ o.nodeHeight)
    (htb : if o.dir.horizontalAxis then b.h ≤ o.nodeHeight else b.w ≤ o.nodeHeight)
    (hwa : 0 ≤ a.w ∧ 0 ≤ a.h) (hwb : 0 ≤ b.w ∧ 0 ≤ b.h) :
    ((modelBox o a).span o.dir).2 ≤ ((modelBox o b).span o.dir).1 := by
  have hlg0 : 0 ≤ o.layerGap := by linarith
  have hg : 0 ≤ gapOf o := by unfold gapOf; linarith
  have hpa := posOf_ge o a hnh hlg0
  have hpb := posOf_ge o b hnh hlg0
  have hst := posOf_step o a b hg hab
  have hgd : gapOf o = o.layerGap + o.nodeHeight := rfl
  cases hd : o.dir
  · rw [hd] at hta htb
    simp only [Dir.horizontalAxis, if_true] at hta htb
    simp only [Box.span, modelBox_eq, nodePos_up o _ hd]
    have ka := truncToZero_of_nonpos (-posOf o a - o.nodeHeight) (by linarith)
    have kb := truncToZero_of_nonpos (-posOf o b - o.nodeHeight) (by linarith)
    linarith [ka.1, ka.2, kb.1, kb.2]
  · rw [hd] at hta
    simp only [Dir.horizontalAxis, if_true] at hta
    simp only [Box.span, modelBox_eq, nodePos_down o _ hd]
    have ka := truncToZero_of_nonneg (posOf o a) (by linarith)
    have kb := truncToZero_of_nonneg (posOf o b) (by linarith)
    linarith [ka.1, ka.2, kb.1, kb.2]
  · rw [hd] at hta
    simp only [Dir.horizontalAxis, Bool.false_eq_true, if_false] at hta
    simp only [Box.span, modelBox_eq, nodePos_left o _ hd]
    have ka := truncToZero_of_nonpos (-posOf o a - o.nodeHeight - a.w + o.nodeHeight) (by linarith [hwa.1])
    have kb := truncToZero_of_nonpos (-posOf o b - o.nodeHeight - b.w + o.nodeHeight) (by linarith [hwb.1])
    linarith [ka.1, ka.2, kb.1, kb.2]
  · rw [hd] at hta
    simp only [Dir.horizontalAxis, Bool.false_eq_true, if_false] at hta
    simp only [Box.span, modelBox_eq, nodePos_right o _ hd]
    have ka := truncToZero_of_nonneg (posOf o a) (by linarith)
    have kb := truncToZero_of_nonneg (posOf o b) (by linarith)
    linarith [ka.1, ka.2, kb.1, kb.2]

/-- the thickness hypothesis of `side_of_axis` / `layers_nested'` for a drawn label -/
theorem drawn_thick (dir : Dir) (layerGap : ℚ) (fo : FOpts) (items : List PItem) (a : Drawn)
    (h : a ∈ drawn dir layerGap fo items) :
    if (ropt dir layerGap items).dir.horizontalAxis then a.node.h ≤ (ropt dir layerGap items).nodeHeight
    else a.node.w ≤ (ropt dir layerGap items).nodeHeight := by
  obtain ⟨hlt, _, hw, hh, _, _, _⟩ := drawn_node dir layerGap fo items a h
  have hm := getD_mem items a.id default hlt
  have ht := thick_le_nodeHeight dir items _ hm
  unfold thick at ht
  change if dir.horizontalAxis then a.node.h ≤ nodeHeight dir items else a.node.w ≤ nodeHeight dir items
  rw [hw, hh]
  split <;> rename_i hc <;> simp only [hc, if_true, Bool.false_eq_true, if_false] at ht <;> exact ht

theorem drawn_size_nonneg (dir : Dir) (layerGap : ℚ) (fo : FOpts) (items : List PItem)
    (hsz : ∀ it ∈ items, 0 ≤ it.w ∧ 0 ≤ it.h) (a : Drawn) (h : a ∈ drawn dir layerGap fo items) :
    0 ≤ a.node.w ∧ 0 ≤ a.node.h := by
  obtain ⟨hlt, _, hw, hh, _, _, _⟩ := drawn_node dir layerGap fo items a h
  rw [hw, hh]
  exact hsz _ (getD_mem items a.id default hlt)


/-- the place `(layer, idx)` determines the datum -/
theorem drawn_place_inj (dir : Dir) (layerGap : ℚ) (fo : FOpts) (items : List PItem) (a b : Drawn)
    (ha : a ∈ drawn dir layerGap fo items) (hb : b ∈ drawn dir layerGap fo items)
    (hl : a.layer = b.layer) (hi : a.idx = b.idx) : a.id = b.id := by
  obtain ⟨la, pa, hLa, hpa, _, hida, _, _⟩ := mem_drawn dir layerGap fo items a ha
  obtain ⟨lb, pb, hLb, hpb, _, hidb, _, _⟩ := mem_drawn dir layerGap fo items b hb
  rw [← hl, hLa] at hLb
  obtain rfl := Option.some.inj hLb
  rw [← hi, hpa] at hpb
  obtain rfl := Option.some.inj hpb
  rw [hida, hidb]


/-! ### links: the stand-ins of a label in the layers nearer the axis -/

theorem compute_getElem? (fo : FOpts) (labels : List Label) (j : Nat) :
    (compute fo labels)[j]? = (distribute fo.toD labels)[j]?.map
      (placeLayer fo labels (if j = 0 then none else (compute fo labels)[j - 1]?)) :=
  placeLayers_getElem? fo labels _ none j

/-- a computed layer is a reordering of the distributed layer, and every distributed layer is computed -/
theorem compute_layer (fo : FOpts) (labels : List Label) (j : Nat) :
    (∀ pl, (compute fo labels)[j]? = some pl →
      ∃ l, (distribute fo.toD labels)[j]? = some l ∧ (pl.map (·.ref)).Perm l) ∧
    (∀ l, (distribute fo.toD labels)[j]? = some l →
      ∃ pl, (compute fo labels)[j]? = some pl ∧ (pl.map (·.ref)).Perm l) := by
  have h := compute_getElem? fo labels j
  constructor
  · intro pl hpl
    rw [hpl] at h
    cases hd : (distribute fo.toD labels)[j]? with
    | none => rw [hd] at h; simp at h
    | some l =>
      rw [hd] at h
      simp only [Option.map_some, Option.some.injEq] at h
      refine ⟨l, rfl, ?_⟩
      rw [h]
      exact placeLayer_refs_perm fo labels _ l
  · intro l hl
    rw [hl] at h
    exact ⟨_, h, placeLayer_refs_perm fo labels _ l⟩

theorem layer_ids_split : ∀ (layer : List Ref),
    (layer.map Ref.id).Perm (labelsIn layer ++ (stubsOf layer).map Prod.fst) := by
  intro layer
  induction layer with
  | nil => exact List.Perm.refl _
  | cons r rest ih =>
    cases r with
    | label i =>
      have e1 : labelsIn (Ref.label i :: rest) = i :: labelsIn rest := rfl
      have e2 : stubsOf (Ref.label i :: rest) = stubsOf rest := rfl
      rw [e1, e2, List.map_cons, List.cons_append]
      exact List.Perm.cons i ih
    | stub i lv =>
      have e1 : labelsIn (Ref.stub i lv :: rest) = labelsIn rest := rfl
      have e2 : stubsOf (Ref.stub i lv :: rest) = (i, lv) :: stubsOf rest := rfl
      rw [e1, e2, List.map_cons, List.map_cons]
      exact (List.Perm.cons i ih).trans List.perm_middle.symm

/-- the ids of the items of a distributed layer: its own labels and one stub for each label of a farther layer -/
theorem layer_ids_perm (o : DOpts) (labels : List Label) (j : Nat) (layer : List Ref)
    (h : (distribute o labels)[j]? = some layer) :
    (layer.map Ref.id).Perm (labelIds ((distribute o labels).drop j)) := by
  obtain ⟨hj, e⟩ := List.getElem?_eq_some_iff.1 h
  have hdrop : (distribute o labels).drop j = layer :: (distribute o labels).drop (j + 1) := by
    rw [List.drop_eq_getElem_cons hj, e]
  rw [hdrop, labelIds_cons]
  have hst := (C04.stubs_exact o labels j layer h).map Prod.fst
  rw [List.map_map] at hst
  have e2 : (labelIds ((distribute o labels).drop (j + 1))).map (Prod.fst ∘ fun i => (i, j))
      = labelIds ((distribute o labels).drop (j + 1)) := by
    simp [Function.comp_def]
  rw [e2] at hst
  exact (layer_ids_split layer).trans (List.Perm.append_left _ hst)

theorem labelIds_drop_nodup (o : DOpts) (labels : List Label) (j : Nat) :
    (labelIds ((distribute o labels).drop j)).Nodup := by
  have hn : (labelIds (distribute o labels)).Nodup :=
    (C04.distribute_conserves o labels).nodup_iff.2 List.nodup_range
  have hs : (labelIds ((distribute o labels).drop j)).Sublist (labelIds (distribute o labels)) := by
    rw [labelIds_eq_flatMap, labelIds_eq_flatMap]
    conv_rhs => rw [← List.take_append_drop j (distribute o labels)]
    rw [List.flatMap_append]
    exact List.sublist_append_right _ _
  exact hn.sublist hs

/-- in a computed layer no two items belong to the same datum -/
theorem compute_layer_ids_nodup (fo : FOpts) (labels : List Label) (j : Nat) (pl : List Placed)
    (h : (compute fo labels)[j]? = some pl) : (pl.map (fun p => p.ref.id)).Nodup := by
  obtain ⟨l, hl, hp⟩ := (compute_layer fo labels j).1 pl h
  have h1 := (hp.map Ref.id).trans (layer_ids_perm fo.toD labels j l hl)
  rw [List.map_map] at h1
  exact h1.nodup_iff.2 (labelIds_drop_nodup fo.toD labels j)

theorem find?_of_nodup {α : Type} (f : α → Nat) : ∀ (l : List α) (q : α), (l.map f).Nodup → q ∈ l →
    l.find? (fun p => f p == f q) = some q := by
  intro l
  induction l with
  | nil => intro q _ h; cases h
  | cons a l ih =>
    intro q hn hq
    rw [List.map_cons, List.nodup_cons] at hn
    by_cases haq : a = q
    · subst haq
      simp
    · have hq' : q ∈ l := by
        rcases List.mem_cons.1 hq with h | h
        · exact absurd h.symm haq
        · exact h
      have hne : f a ≠ f q := by
        intro e
        exact hn.1 (by rw [e]; exact List.mem_map.2 ⟨q, hq', rfl⟩)
      rw [List.find?_cons_of_neg (by simpa using hne)]
      exact ih q hn.2 hq'

/-- looking a datum up by id in a computed layer finds its one item there -/
theorem find_in_layer (fo : FOpts) (labels : List Label) (j : Nat) (pl : List Placed)
    (h : (compute fo labels)[j]? = some pl) (q : Placed) (hq : q ∈ pl) :
    pl.find? (fun p => p.ref.id == q.ref.id) = some q :=
  find?_of_nodup (fun p : Placed => p.ref.id) pl q (compute_layer_ids_nodup fo labels j pl h) hq

theorem ref_eq_label_of_not_stub (r : Ref) (h : r.isStub = false) : r = Ref.label r.id := by
  cases r with
  | label i => rfl
  | stub i lv => simp [Ref.isStub] at h

/-- the label found in layer `k` has a stub in every nearer layer `j` -/
theorem stub_in_nearer_layer (fo : FOpts) (labels : List Label) (k : Nat) (la : List Placed)
    (hL : (compute fo labels)[k]? = some la) (pa : Placed) (hpa : pa ∈ la) (hs : pa.ref.isStub = false)
    (j : Nat) (hj : j < k) :
    ∃ pj q, (compute fo labels)[j]? = some pj ∧ q ∈ pj ∧ q.ref = Ref.stub pa.ref.id j := by
  obtain ⟨lk, hlk, hpk⟩ := (compute_layer fo labels k).1 la hL
  have hmem : Ref.label pa.ref.id ∈ lk := by
    rw [← ref_eq_label_of_not_stub pa.ref hs]
    exact hpk.subset (List.mem_map.2 ⟨pa, hpa, rfl⟩)
  have hlkd : lk ∈ (distribute fo.toD labels).drop (j + 1) := by
    apply List.mem_of_getElem? (i := k - (j + 1))
    rw [List.getElem?_drop]
    have : j + 1 + (k - (j + 1)) = k := by omega
    rw [this]; exact hlk
  have hid := mem_labelIds_of_mem hlkd hmem
  have hjlt : j < (distribute fo.toD labels).length := by
    obtain ⟨hk, _⟩ := List.getElem?_eq_some_iff.1 hlk
    omega
  have hlj : (distribute fo.toD labels)[j]? = some (distribute fo.toD labels)[j] := List.getElem?_eq_getElem hjlt
  have hst := C04.stubs_exact fo.toD labels j _ hlj
  have hin : (pa.ref.id, j) ∈ stubsOf (distribute fo.toD labels)[j] :=
    hst.symm.subset (List.mem_map.2 ⟨pa.ref.id, hid, rfl⟩)
  unfold stubsOf at hin
  rw [List.mem_filterMap] at hin
  obtain ⟨r, hr, er⟩ := hin
  have hr' : r = Ref.stub pa.ref.id j := by
    cases r with
    | label i => simp at er
    | stub i lv =>
      simp only [Option.some.injEq, Prod.mk.injEq] at er
      rw [er.1, er.2]
  obtain ⟨pj, hpj, hperm⟩ := (compute_layer fo labels j).2 _ hlj
  have hrin : r ∈ pj.map (·.ref) := hperm.symm.subset hr
  obtain ⟨q, hq, eq⟩ := List.mem_map.1 hrin
  exact ⟨pj, q, hpj, hq, by rw [eq, hr']⟩

theorem hops_getD (dir : Dir) (items : List PItem) (L : List (List Placed)) (k id : Nat) (pos : Int) (j : Nat)
    (hj : j < k + 1) :
    (rnode dir items L k id pos).hops.getD j 0
      = (((L.getD j []).find? (fun p => p.ref.id == id)).map (fun p => (p.pos : Rat))).getD 0 := by
  simp only [rnode]
  rw [List.getD_eq_getElem?_getD, List.getElem?_map, List.getElem?_range hj]
  rfl

/-- **the link of a drawn label**: one hop per layer up to its own; the hop in a nearer layer is the reported position of the datum's own
stub there; the last hop is the label itself -/
theorem drawn_links (dir : Dir) (layerGap : ℚ) (fo : FOpts) (items : List PItem) (a : Drawn)
    (h : a ∈ drawn dir layerGap fo items) :
    a.node.hops.length = a.layer + 1 ∧ a.node.hops.getD a.layer 0 = a.node.cur ∧
      a.node.hops.getLast? = some a.node.cur ∧
      ∀ j, j < a.layer → ∃ p ∈ (compute fo (labelsOf dir items)).getD j [],
        p.ref.id = a.id ∧ p.ref.isStub = true ∧ a.node.hops.getD j 0 = (p.pos : ℚ) := by
  obtain ⟨la, pa, hLa, hpa, hsa, hida, hna, hba⟩ := mem_drawn dir layerGap fo items a h
  have hpam : pa ∈ la := List.mem_of_getElem? hpa
  have hlen : a.node.hops.length = a.layer + 1 := by
    rw [hna]; simp [rnode]
  have hcur : a.node.hops.getD a.layer 0 = a.node.cur := by
    rw [hna, hops_getD dir items _ a.layer pa.ref.id pa.pos a.layer (by omega)]
    rw [List.getD_eq_getElem?_getD, hLa, Option.getD_some, find_in_layer fo _ a.layer la hLa pa hpam]
    rfl
  refine ⟨hlen, hcur, ?_, ?_⟩
  · rw [List.getLast?_eq_getElem?, hlen, Nat.add_sub_cancel]
    rw [List.getD_eq_getElem?_getD] at hcur
    have hlt : a.layer < a.node.hops.length := by omega
    rw [List.getElem?_eq_getElem hlt] at hcur ⊢
    rw [Option.getD_some] at hcur
    rw [hcur]
  · intro j hj
    obtain ⟨pj, q, hpj, hq, hqr⟩ := stub_in_nearer_layer fo _ a.layer la hLa pa hpam hsa j hj
    have hqid : q.ref.id = pa.ref.id := by rw [hqr]; rfl
    refine ⟨q, ?_, ?_, ?_, ?_⟩
    · rw [List.getD_eq_getElem?_getD, hpj]; exact hq
    · rw [hqid, hida]
    · rw [hqr]; rfl
    · rw [hna, hops_getD dir items _ a.layer pa.ref.id pa.pos j (by omega)]
      rw [List.getD_eq_getElem?_getD, hpj, Option.getD_some, ← hqid,
        find_in_layer fo _ j pj hpj q hq]
      rfl

end Labella.Pipeline
