import Labella.Proofs.VpscPath
import Labella.Proofs.VpscKKT
import Mathlib.Algebra.Order.BigOperators.Group.Finset
import Mathlib.Algebra.BigOperators.Ring.Finset
import Mathlib.Tactic.Ring
import Mathlib.Tactic.Linarith
/-! # Path instances with unit scales: the first `satisfy` pass leaves no negative multiplier, the second changes nothing

Pool-adjacent-violators argument for the transliterated solver.

* `bpre st c` — the sum of the gradients `dfdv` of the variables of the block of `c` that lie on the left of the cut `c`;
  `lam_eq_neg_bpre`: on a path with unit scales the multiplier of an active constraint `c` is `- bpre st c` in ANY assignment of
  multipliers that balances the variables of the block of `c`;
* `NonnegLM st` — `bpre st c ≤ 0` for every active `c`; it holds when no constraint is active, it is kept by `mergeBlocks` across a
  violated constraint (`mergeBlocks_nonnegLM`), by `mostViolated` and by every step that only rewrites multipliers;
* in a state with `NonnegLM` the split pass splits nothing (`blocksSplit_calm`);
* `PState` bundles everything; `satisfy_pstate`, `pstate_multipliers_nonneg`, `satisfy_feasible_cost`, `solve_pstate`. -/
namespace Labella.Vpsc
open KKT Finset

/-! ## indicator sums over `range n` -/

/-- `Σ_{x < n, P x} f x` -/
def isum (n : Nat) (P : Nat → Prop) [DecidablePred P] (f : Nat → Rat) : Rat :=
  ∑ x ∈ range n, if P x then f x else 0

theorem isum_congr {n : Nat} {P Q : Nat → Prop} [DecidablePred P] [DecidablePred Q] {f g : Nat → Rat}
    (hPQ : ∀ x, x < n → (P x ↔ Q x)) (hfg : ∀ x, x < n → P x → f x = g x) : isum n P f = isum n Q g := by
  unfold isum
  apply Finset.sum_congr rfl
  intro x hx
  rw [Finset.mem_range] at hx
  by_cases h : P x
  · rw [if_pos h, if_pos ((hPQ x hx).1 h), hfg x hx h]
  · rw [if_neg h, if_neg (fun hq => h ((hPQ x hx).2 hq))]

theorem isum_add (n : Nat) (P : Nat → Prop) [DecidablePred P] (f g : Nat → Rat) :
    isum n P (fun x => f x + g x) = isum n P f + isum n P g := by
  unfold isum
  rw [← Finset.sum_add_distrib]
  apply Finset.sum_congr rfl
  intro x _
  by_cases h : P x
  · simp only [if_pos h]
  · simp only [if_neg h, add_zero]

theorem isum_mul (n : Nat) (P : Nat → Prop) [DecidablePred P] (k : Rat) (f : Nat → Rat) :
    isum n P (fun x => k * f x) = k * isum n P f := by
  unfold isum
  rw [Finset.mul_sum]
  apply Finset.sum_congr rfl
  intro x _
  by_cases h : P x
  · simp only [if_pos h]
  · simp only [if_neg h, mul_zero]

theorem isum_nonneg {n : Nat} {P : Nat → Prop} [DecidablePred P] {f : Nat → Rat}
    (h : ∀ x, x < n → P x → 0 ≤ f x) : 0 ≤ isum n P f := by
  unfold isum
  apply Finset.sum_nonneg
  intro x hx
  rw [Finset.mem_range] at hx
  by_cases hp : P x
  · rw [if_pos hp]; exact h x hx hp
  · rw [if_neg hp]

theorem isum_mono {n : Nat} {P Q : Nat → Prop} [DecidablePred P] [DecidablePred Q] {f : Nat → Rat}
    (hPQ : ∀ x, x < n → P x → Q x) (h : ∀ x, x < n → Q x → 0 ≤ f x) : isum n P f ≤ isum n Q f := by
  unfold isum
  apply Finset.sum_le_sum
  intro x hx
  rw [Finset.mem_range] at hx
  by_cases hp : P x
  · rw [if_pos hp, if_pos (hPQ x hx hp)]
  · rw [if_neg hp]
    by_cases hq : Q x
    · rw [if_pos hq]; exact h x hx hq
    · rw [if_neg hq]

theorem isum_or {n : Nat} {P Q : Nat → Prop} [DecidablePred P] [DecidablePred Q] {f : Nat → Rat}
    (hdis : ∀ x, x < n → P x → Q x → False) :
    isum n (fun x => P x ∨ Q x) f = isum n P f + isum n Q f := by
  unfold isum
  rw [← Finset.sum_add_distrib]
  apply Finset.sum_congr rfl
  intro x hx
  rw [Finset.mem_range] at hx
  by_cases hp : P x
  · have hq : ¬ Q x := fun hq => hdis x hx hp hq
    rw [if_pos (Or.inl hp), if_pos hp, if_neg hq, add_zero]
  · by_cases hq : Q x
    · rw [if_pos (Or.inr hq), if_neg hp, if_pos hq, zero_add]
    · rw [if_neg (fun h => h.elim hp hq), if_neg hp, if_neg hq, add_zero]

theorem isum_pos {n : Nat} {P : Nat → Prop} [DecidablePred P] {f : Nat → Rat}
    (h : ∀ x, x < n → P x → 0 < f x) (hex : ∃ x, x < n ∧ P x) : 0 < isum n P f := by
  obtain ⟨y, hy, hpy⟩ := hex
  unfold isum
  apply Finset.sum_pos'
  · intro x hx
    rw [Finset.mem_range] at hx
    by_cases hp : P x
    · rw [if_pos hp]; exact (h x hx hp).le
    · rw [if_neg hp]
  · exact ⟨y, Finset.mem_range.2 hy, by rw [if_pos hpy]; exact h y hy hpy⟩

/-! ## the cut sums and the invariant -/

/-- the total gradient of the variables of the block of `c` on the left of the cut `c` -/
def bpre (st : St) (c : Nat) : Rat :=
  isum st.vs.size (fun x => x ≤ (getC st c).l ∧ (getV st x).block = (getV st (getC st c).l).block) (dfdv st)

/-- no active constraint carries a negative multiplier (multipliers written as cut sums) -/
def NonnegLM (st : St) : Prop := ∀ c, c < st.cs.size → (getC st c).active = true → bpre st c ≤ 0

def UnitSc (st : St) : Prop := ∀ v, v < st.vs.size → (getV st v).s = 1

def PosW (st : St) : Prop := ∀ v, v < st.vs.size → 0 < (getV st v).w

theorem UnitSc.of_frame {st st' : St} (h : Frame st st') (hu : UnitSc st) : UnitSc st' := by
  intro v hv
  rw [h.vsize] at hv
  rw [(h.vstat v).2.2.1]
  exact hu v hv

theorem PosW.of_frame {st st' : St} (h : Frame st st') (hu : PosW st) : PosW st' := by
  intro v hv
  rw [h.vsize] at hv
  rw [(h.vstat v).2.1]
  exact hu v hv

/-- **the multiplier of an active constraint of a path is minus the cut sum**, for any multipliers that balance its block -/
theorem lam_eq_neg_bpre {st s : St} (hinv : Inv st) (hp : IsPathSt st) (hu : UnitSc st) {c0 : Nat} (hc0 : c0 < st.cs.size)
    (ha : (getC st c0).active = true)
    (hbal : ∀ x, x < st.vs.size → (getV st x).block = (getV st (getC st c0).l).block → netVx st s none x = dfdv st x) :
    (getC s c0).lm = - bpre st c0 := by
  have hex := exchange st s st.vs.size
    (fun x => if x ≤ (getC st c0).l ∧ (getV st x).block = (getV st (getC st c0).l).block then 1 else 0)
    (List.range st.cs.size) (fun c hc => hinv.wf.lr c (List.mem_range.1 hc))
  have hlhs : ∑ i ∈ range st.vs.size,
      (if i ≤ (getC st c0).l ∧ (getV st i).block = (getV st (getC st c0).l).block then (1 : Rat) else 0) *
        ((List.range st.cs.size).map fun c => lam st s c * coef st i c).sum = bpre st c0 := by
    unfold bpre isum
    apply Finset.sum_congr rfl
    intro i hi
    rw [Finset.mem_range] at hi
    have hnet : ((List.range st.cs.size).map fun c => lam st s c * coef st i c).sum = netVx st s none i := by
      unfold netVx
      apply congrArg
      apply List.map_congr_left
      intro c _
      simp
    rw [hnet]
    by_cases hP : i ≤ (getC st c0).l ∧ (getV st i).block = (getV st (getC st c0).l).block
    · rw [if_pos hP, if_pos hP, one_mul, hbal i hi hP.2]
    · rw [if_neg hP, if_neg hP, zero_mul]
  have hrhs : ((List.range st.cs.size).map fun c => lam st s c *
      ((getV st (getC st c).r).s *
          (if (getC st c).r ≤ (getC st c0).l ∧ (getV st (getC st c).r).block = (getV st (getC st c0).l).block then (1 : Rat) else 0) -
        (getV st (getC st c).l).s *
          (if (getC st c).l ≤ (getC st c0).l ∧ (getV st (getC st c).l).block = (getV st (getC st c0).l).block then (1 : Rat) else 0))).sum
      = - (getC s c0).lm := by
    rw [sum_range_split _ _ c0 hc0]
    have hr0 := (hp.1 c0 hc0).1
    have h0 : ((List.range st.cs.size).map fun c' => if c' = c0 then 0 else lam st s c' *
        ((getV st (getC st c').r).s *
            (if (getC st c').r ≤ (getC st c0).l ∧ (getV st (getC st c').r).block = (getV st (getC st c0).l).block then (1 : Rat) else 0) -
          (getV st (getC st c').l).s *
            (if (getC st c').l ≤ (getC st c0).l ∧ (getV st (getC st c').l).block = (getV st (getC st c0).l).block then (1 : Rat) else 0))).sum
        = 0 := by
      apply List.sum_eq_zero
      intro t ht
      obtain ⟨c, hc, rfl⟩ := List.mem_map.1 ht
      rw [List.mem_range] at hc
      by_cases hcc : c = c0
      · rw [if_pos hcc]
      · rw [if_neg hcc]
        by_cases hact : (getC st c).active = true
        · have hb := same_block_of_active hinv hc hact
          have hr := (hp.1 c hc).1
          have hne : (getC st c).l ≠ (getC st c0).l := fun e => hcc (hp.2 c c0 hc hc0 e)
          rw [← hb]
          by_cases hB : (getV st (getC st c).l).block = (getV st (getC st c0).l).block
          · by_cases hle : (getC st c).l ≤ (getC st c0).l
            · rw [if_pos ⟨by omega, hB⟩, if_pos ⟨hle, hB⟩, hu _ (hinv.wf.lr c hc).1, hu _ (hinv.wf.lr c hc).2]
              ring
            · rw [if_neg (fun h => hle (by omega)), if_neg (fun h => hle h.1)]
              ring
          · rw [if_neg (fun h => hB h.2), if_neg (fun h => hB h.2)]
            ring
        · rw [lam_inactive (by simpa using hact)]
          ring
    rw [h0, zero_add, lam_active ha, hr0, if_neg (fun h => by omega), if_pos ⟨Nat.le_refl _, rfl⟩,
      hu _ (hinv.wf.lr c0 hc0).1]
    ring
  rw [hlhs, hrhs] at hex
  linarith

/-! ## pure arithmetic of a pooling step -/

/-- two blocks `bL`, `bR`, each balanced, are shifted rigidly by `tL`, `tR` with `tR - tL > 0` so that their union is balanced: then the
left one moves left, the right one moves right, and the weighted shifts cancel -/
theorem shift_signs {n : Nat} {blk : Nat → Nat} {w g g' : Nat → Rat} {bL bR : Nat} {tL tR : Rat} (hne : bL ≠ bR)
    (hw : ∀ x, x < n → 0 < w x) (hLne : ∃ x, x < n ∧ blk x = bL) (hRne : ∃ x, x < n ∧ blk x = bR)
    (hgL : ∀ x, x < n → blk x = bL → g' x = g x + 2 * tL * w x)
    (hgR : ∀ x, x < n → blk x = bR → g' x = g x + 2 * tR * w x)
    (h3 : isum n (fun x => blk x = bL) g = 0) (h4 : isum n (fun x => blk x = bR) g = 0)
    (h5 : isum n (fun x => blk x = bL ∨ blk x = bR) g' = 0) (h6 : 0 < tR - tL) :
    tL * isum n (fun x => blk x = bL) w + tR * isum n (fun x => blk x = bR) w = 0 ∧ tL ≤ 0 ∧ 0 ≤ tR := by
  have e1 : isum n (fun x => blk x = bL) g' = isum n (fun x => blk x = bL) g + 2 * tL * isum n (fun x => blk x = bL) w := by
    rw [← isum_mul, ← isum_add]
    exact isum_congr (fun _ _ => Iff.rfl) (fun x hx hP => hgL x hx hP)
  have e2 : isum n (fun x => blk x = bR) g' = isum n (fun x => blk x = bR) g + 2 * tR * isum n (fun x => blk x = bR) w := by
    rw [← isum_mul, ← isum_add]
    exact isum_congr (fun _ _ => Iff.rfl) (fun x hx hP => hgR x hx hP)
  rw [isum_or (fun x _ h1 h2 => hne (h1.symm.trans h2)), e1, e2, h3, h4] at h5
  have hWL : 0 < isum n (fun x => blk x = bL) w := isum_pos (fun x hx _ => hw x hx) hLne
  have hWR : 0 < isum n (fun x => blk x = bR) w := isum_pos (fun x hx _ => hw x hx) hRne
  have key : tL * isum n (fun x => blk x = bL) w + tR * isum n (fun x => blk x = bR) w = 0 := by linarith
  refine ⟨key, ?_, ?_⟩
  · by_contra hc
    have h1 : 0 < tL := not_le.1 hc
    have h2 : 0 < tR := by linarith
    have := mul_pos h1 hWL
    have := mul_pos h2 hWR
    linarith
  · by_contra hc
    have h2 : tR < 0 := not_le.1 hc
    have h1 : tL < 0 := by linarith
    have := mul_pos_of_neg_of_neg h1 (neg_neg_of_pos hWL)
    have := mul_pos_of_neg_of_neg h2 (neg_neg_of_pos hWR)
    nlinarith

section Cut
variable {n : Nat} {blk blk' : Nat → Nat} {w g g' : Nat → Rat} {bL bR m l : Nat} {tL tR : Rat}

/-- a cut inside a block that is not involved in the pooling step -/
theorem cut_other (hm : m = bL ∨ m = bR)
    (hblk' : ∀ x, x < n → blk' x = if blk x = bL ∨ blk x = bR then m else blk x)
    (hg' : ∀ x, x < n → g' x = g x + 2 * (if blk x = bL then tL else if blk x = bR then tR else 0) * w x)
    {a : Nat} (ha : a < n) (hnL : blk a ≠ bL) (hnR : blk a ≠ bR) :
    isum n (fun x => x ≤ a ∧ blk' x = blk' a) g' = isum n (fun x => x ≤ a ∧ blk x = blk a) g := by
  have hba : blk' a = blk a := by rw [hblk' a ha, if_neg (fun h => h.elim hnL hnR)]
  apply isum_congr
  · intro x hx
    rw [hba, hblk' x hx]
    by_cases hin : blk x = bL ∨ blk x = bR
    · rw [if_pos hin]
      constructor
      · rintro ⟨_, h2⟩
        rcases hm with h | h
        · exact absurd (h2.symm.trans h) hnL
        · exact absurd (h2.symm.trans h) hnR
      · rintro ⟨_, h2⟩
        rcases hin with h | h
        · exact absurd (h2.symm.trans h) hnL
        · exact absurd (h2.symm.trans h) hnR
    · rw [if_neg hin]
  · rintro x hx ⟨_, h2⟩
    rw [hba, hblk' x hx] at h2
    have hxL : blk x ≠ bL := by
      intro h
      rw [if_pos (Or.inl h)] at h2
      rcases hm with h' | h'
      · exact hnL (h2.symm.trans h')
      · exact hnR (h2.symm.trans h')
    have hxR : blk x ≠ bR := by
      intro h
      rw [if_pos (Or.inr h)] at h2
      rcases hm with h' | h'
      · exact hnL (h2.symm.trans h')
      · exact hnR (h2.symm.trans h')
    rw [hg' x hx, if_neg hxL, if_neg hxR]
    ring

/-- a cut inside the left block (or the joining cut itself) -/
theorem cut_L (hm : m = bL ∨ m = bR)
    (hblk' : ∀ x, x < n → blk' x = if blk x = bL ∨ blk x = bR then m else blk x)
    (hg' : ∀ x, x < n → g' x = g x + 2 * (if blk x = bL then tL else if blk x = bR then tR else 0) * w x)
    (hsideL : ∀ x, x < n → blk x = bL → x ≤ l) (hsideR : ∀ x, x < n → blk x = bR → l < x)
    {a : Nat} (ha : a < n) (hL : blk a = bL) :
    isum n (fun x => x ≤ a ∧ blk' x = blk' a) g' =
      isum n (fun x => x ≤ a ∧ blk x = bL) g + 2 * tL * isum n (fun x => x ≤ a ∧ blk x = bL) w := by
  have hal : a ≤ l := hsideL a ha hL
  have hba : blk' a = m := by rw [hblk' a ha, if_pos (Or.inl hL)]
  rw [← isum_mul, ← isum_add]
  apply isum_congr
  · intro x hx
    rw [hba, hblk' x hx]
    constructor
    · rintro ⟨h1, h2⟩
      refine ⟨h1, ?_⟩
      by_cases hin : blk x = bL ∨ blk x = bR
      · rcases hin with h | h
        · exact h
        · have := hsideR x hx h
          omega
      · rw [if_neg hin] at h2
        exact absurd (hm.elim (fun h => Or.inl (h2.trans h)) (fun h => Or.inr (h2.trans h))) hin
    · rintro ⟨h1, h2⟩
      exact ⟨h1, by rw [if_pos (Or.inl h2)]⟩
  · rintro x hx ⟨h1, h2⟩
    rw [hba, hblk' x hx] at h2
    have hxL : blk x = bL := by
      by_cases hin : blk x = bL ∨ blk x = bR
      · rcases hin with h | h
        · exact h
        · have := hsideR x hx h
          omega
      · rw [if_neg hin] at h2
        exact absurd (hm.elim (fun h => Or.inl (h2.trans h)) (fun h => Or.inr (h2.trans h))) hin
    rw [hg' x hx, if_pos hxL]

/-- a cut inside the right block -/
theorem cut_R (hne : bL ≠ bR) (hm : m = bL ∨ m = bR)
    (hblk' : ∀ x, x < n → blk' x = if blk x = bL ∨ blk x = bR then m else blk x)
    (hg' : ∀ x, x < n → g' x = g x + 2 * (if blk x = bL then tL else if blk x = bR then tR else 0) * w x)
    (hsideL : ∀ x, x < n → blk x = bL → x ≤ l) (hsideR : ∀ x, x < n → blk x = bR → l < x)
    {a : Nat} (ha : a < n) (hR : blk a = bR) :
    isum n (fun x => x ≤ a ∧ blk' x = blk' a) g' =
      (isum n (fun x => blk x = bL) g + 2 * tL * isum n (fun x => blk x = bL) w) +
      (isum n (fun x => x ≤ a ∧ blk x = bR) g + 2 * tR * isum n (fun x => x ≤ a ∧ blk x = bR) w) := by
  have hal : l < a := hsideR a ha hR
  have hba : blk' a = m := by rw [hblk' a ha, if_pos (Or.inr hR)]
  have e0 : isum n (fun x => x ≤ a ∧ blk' x = blk' a) g' =
      isum n (fun x => blk x = bL ∨ (x ≤ a ∧ blk x = bR)) g' := by
    apply isum_congr
    · intro x hx
      rw [hba, hblk' x hx]
      constructor
      · rintro ⟨h1, h2⟩
        by_cases hin : blk x = bL ∨ blk x = bR
        · rcases hin with h | h
          · exact Or.inl h
          · exact Or.inr ⟨h1, h⟩
        · rw [if_neg hin] at h2
          exact absurd (hm.elim (fun h => Or.inl (h2.trans h)) (fun h => Or.inr (h2.trans h))) hin
      · rintro (h | ⟨h1, h2⟩)
        · have := hsideL x hx h
          exact ⟨by omega, by rw [if_pos (Or.inl h)]⟩
        · exact ⟨h1, by rw [if_pos (Or.inr h2)]⟩
    · intro _ _ _; rfl
  rw [e0, isum_or (fun x _ h1 h2 => hne (h1.symm.trans h2.2))]
  congr 1
  · rw [← isum_mul, ← isum_add]
    apply isum_congr (fun _ _ => Iff.rfl)
    intro x hx h
    rw [hg' x hx, if_pos h]
  · rw [← isum_mul, ← isum_add]
    apply isum_congr (fun _ _ => Iff.rfl)
    rintro x hx ⟨_, h⟩
    rw [hg' x hx, if_neg (fun h' => hne (h'.symm.trans h)), if_pos h]

end Cut


/-! ## positions with unit scales -/

/-- the reference position of a block -/
def bref (st : St) (b : Nat) : Rat := (getB st b).scale * (getB st b).posn

theorem position_unit {st : St} (hu : UnitSc st) {x : Nat} (hx : x < st.vs.size) :
    position st x = bref st (getV st x).block + (getV st x).offset := by
  unfold position bref
  simp only
  rw [hu x hx, div_one]

theorem dfdv_eq (st : St) (x : Nat) : dfdv st x = 2 * (getV st x).w * (position st x - (getV st x).d) := rfl

theorem position_of_statEq {st st' : St} (h : StatEq st st') (z : Nat) : position st' z = position st z := by
  unfold position
  simp only [h.getV]
  obtain ⟨_, h2, _, _, _, h6⟩ := h.bsame (getV st z).block
  rw [h2, h6]

theorem slack_unit {st : St} (hu : UnitSc st) (hwf : WF st) {c : Nat} (hc : c < st.cs.size)
    (hun : (getC st c).unsat = false) :
    slack st c = position st (getC st c).r - (getC st c).g - position st (getC st c).l := by
  unfold slack
  simp only [hun, Bool.false_eq_true, if_false]
  rw [hu _ (hwf.lr c hc).1, hu _ (hwf.lr c hc).2]
  ring

/-- a block in use is balanced: the gradients of its variables add up to 0 -/
theorem block_isum_zero {st : St} (hinv : Inv st) (hnd : VarsNodup st) (hstats : StatsInv st) (hw : PosW st) (hu : UnitSc st)
    {v : Nat} (hv : v < st.vs.size) :
    isum st.vs.size (fun x => (getV st x).block = (getV st v).block) (dfdv st) = 0 := by
  have h1 := block_stationary hinv hstats hw hv
  rw [block_sum hinv hnd hv] at h1
  rw [← h1]
  unfold isum
  apply Finset.sum_congr rfl
  intro x hx
  rw [Finset.mem_range] at hx
  rw [hu x hx, div_one]

/-- on a path, variables connected by active constraints lie on the same side of an inactive constraint -/
theorem IsPathSt.conn_side {st : St} (hp : IsPathSt st) {v : Nat} (hv : v < st.cs.size)
    (ha : (getC st v).active = false) {a b : Nat} (h : Conn st none a b) :
    (a ≤ (getC st v).l ↔ b ≤ (getC st v).l) := by
  unfold Conn at h
  induction h with
  | refl => exact Iff.rfl
  | tail _ hbc ih => exact ih.trans (hp.adj_side hv ha hbc)

/-- what `Blocks.merge` does to the block ids and to the positions: the two blocks are shifted rigidly -/
theorem merge_positions (st : St) (ci : Nat) (hinv : Inv st) (hnd : VarsNodup st) (hci : ci < st.cs.size)
    (ha : (getC st ci).active = false)
    (hb : (getV st (getC st ci).l).block ≠ (getV st (getC st ci).r).block) (hs : StatsInv st) (hu : UnitSc st) :
    ∃ tL tR m, (m = (getV st (getC st ci).l).block ∨ m = (getV st (getC st ci).r).block) ∧
      (∀ x, x < st.vs.size → (getV (mergeBlocks st ci) x).block =
        if (getV st x).block = (getV st (getC st ci).l).block ∨ (getV st x).block = (getV st (getC st ci).r).block then m
        else (getV st x).block) ∧
      (∀ x, x < st.vs.size → position (mergeBlocks st ci) x = position st x +
        (if (getV st x).block = (getV st (getC st ci).l).block then tL
         else if (getV st x).block = (getV st (getC st ci).r).block then tR else 0)) := by
  obtain ⟨sb, b, d, x, y, e, M⟩ := mergeBlocks_ctx st ci hinv hnd hci ha hb
  have hsb : sb < st.bs.size := by rw [← M.hxs]; exact hinv.wf.block_lt x M.hx
  have hndb : (getB st b).vars.Nodup := by have := hnd y M.hy; rwa [M.hyb] at this
  have hdis : ∀ i ∈ (getB st b).vars, i ∉ (getB st sb).vars := by
    intro i hi hi'
    exact M.hne (((M.mem_vars_sb i).1 hi').2.symm.trans ((M.mem_vars_b i).1 hi).2)
  have hssb : StatsB st sb := by have := hs x M.hx; rwa [M.hxs] at this
  obtain ⟨_, m2, _, _⟩ := mergeAcross_blocks st sb b ci d hsb hndb hdis hssb
  have hSE := removeBlock_statEq (mergeAcross st sb b ci d) b
  rw [e]
  generalize mergeAcross st sb b ci d = stM at *
  -- block ids
  have hblk : ∀ z, z < st.vs.size → (getV (removeBlock stM b) z).block =
      if (getV st z).block = sb ∨ (getV st z).block = b then sb else (getV st z).block := by
    intro z hz
    rw [hSE.getV, M.blk]
    by_cases h1 : (getV st z).block = b
    · rw [if_pos ⟨hz, h1⟩, if_pos (Or.inr h1)]
    · rw [if_neg (fun h => h1 h.2)]
      by_cases h2 : (getV st z).block = sb
      · rw [if_pos (Or.inl h2), h2]
      · rw [if_neg (fun h => h.elim h2 h1)]
  -- positions
  have hpos : ∀ z, z < st.vs.size → position (removeBlock stM b) z = position st z +
      (if (getV st z).block = sb then bref stM sb - bref st sb
       else if (getV st z).block = b then bref stM sb + d - bref st b else 0) := by
    intro z hz
    have huM : UnitSc stM := hu.of_frame M.frame
    rw [position_of_statEq hSE, position_unit huM (by rw [M.vsize]; exact hz), position_unit hu hz, M.blk, M.off]
    by_cases h1 : (getV st z).block = b
    · have hne : (getV st z).block ≠ sb := fun h => M.hne (h.symm.trans h1)
      rw [if_pos ⟨hz, h1⟩, if_pos ⟨hz, h1⟩, if_neg hne, if_pos h1, h1]
      ring
    · rw [if_neg (fun h => h1 h.2), if_neg (fun h => h1 h.2)]
      by_cases h2 : (getV st z).block = sb
      · rw [if_pos h2, h2]
        ring
      · rw [if_neg h2, if_neg h1]
        unfold bref
        rw [m2 _ h2]
        ring
  rcases M.hd with ⟨e1, e2, _⟩ | ⟨e1, e2, _⟩
  · -- the left block survives
    have hL : (getV st (getC st ci).l).block = sb := by rw [e1]; exact M.hxs
    have hR : (getV st (getC st ci).r).block = b := by rw [e2]; exact M.hyb
    rw [hL, hR]
    exact ⟨_, _, sb, Or.inl rfl, hblk, hpos⟩
  · -- the right block survives
    have hL : (getV st (getC st ci).l).block = b := by rw [e1]; exact M.hyb
    have hR : (getV st (getC st ci).r).block = sb := by rw [e2]; exact M.hxs
    rw [hL, hR]
    refine ⟨bref stM sb + d - bref st b, bref stM sb - bref st sb, sb, Or.inr rfl, ?_, ?_⟩
    · intro z hz
      rw [hblk z hz]
      by_cases h1 : (getV st z).block = b
      · rw [if_pos (Or.inr h1), if_pos (Or.inl h1)]
      · by_cases h2 : (getV st z).block = sb
        · rw [if_pos (Or.inl h2), if_pos (Or.inr h2)]
        · rw [if_neg (fun h => h.elim h2 h1), if_neg (fun h => h.elim h1 h2)]
    · intro z hz
      rw [hpos z hz]
      by_cases h1 : (getV st z).block = b
      · have hne : (getV st z).block ≠ sb := fun h => M.hne (h.symm.trans h1)
        simp only [if_neg hne, if_pos h1]
      · by_cases h2 : (getV st z).block = sb
        · simp only [if_pos h2, if_neg h1]
        · simp only [if_neg h2, if_neg h1]


/-! ## a pooling step keeps every multiplier nonnegative -/

/-- **merging two blocks of a path across a violated constraint keeps `NonnegLM`** -/
theorem mergeBlocks_nonnegLM (st : St) (ci : Nat) (hinv : Inv st) (hnd : VarsNodup st) (hL : ListInv st) (hs : StatsInv st)
    (hp : IsPathSt st) (hu : UnitSc st) (hw : PosW st) (hN : NonnegLM st) (hci : ci < st.cs.size)
    (ha : (getC st ci).active = false) (hun : (getC st ci).unsat = false) (hviol : slack st ci < 0) :
    NonnegLM (mergeBlocks st ci) := by
  have hb := path_block_ne st ci hinv hp hci ha
  obtain ⟨i1, hF, _, hact, hact', hunsat'⟩ := mergeBlocks_inv st ci hinv hnd hci ha hb
  obtain ⟨_, s1⟩ := mergeBlocks_list_stats st ci hinv hnd hci ha hb hL hs
  have n1 := mergeBlocks_varsNodup st ci hinv hnd hci ha hb
  obtain ⟨tL, tR, m, hm, hblk', hpos⟩ := merge_positions st ci hinv hnd hci ha hb hs hu
  generalize mergeBlocks st ci = st' at *
  obtain ⟨hl, hr⟩ := hinv.wf.lr ci hci
  have hrl : (getC st ci).r = (getC st ci).l + 1 := (hp.1 ci hci).1
  have hu' : UnitSc st' := hu.of_frame hF
  have hw' : PosW st' := hw.of_frame hF
  -- the two shifts differ by the violation
  have h6 : 0 < tR - tL := by
    have hsl' : slack st' ci = 0 := slack_active st' i1 ci (by rw [hF.csize]; exact hci) hact (by rw [hunsat']; exact hun)
    rw [slack_unit hu' i1.wf (by rw [hF.csize]; exact hci) (by rw [hunsat']; exact hun), (hF.cstat ci).1, (hF.cstat ci).2.1,
      (hF.cstat ci).2.2, hpos _ hr, hpos _ hl, if_pos rfl, if_neg hb.symm, if_pos rfl] at hsl'
    have hsl := slack_unit hu hinv.wf hci hun
    linarith
  -- gradients after the step
  have hg' : ∀ x, x < st.vs.size → dfdv st' x = dfdv st x + 2 *
      (if (getV st x).block = (getV st (getC st ci).l).block then tL
       else if (getV st x).block = (getV st (getC st ci).r).block then tR else 0) * (getV st x).w := by
    intro x hx
    rw [dfdv_eq, dfdv_eq, hpos x hx, (hF.vstat x).2.1, (hF.vstat x).1]
    ring
  -- the two blocks lie on either side of the constraint
  have hsideL : ∀ x, x < st.vs.size → (getV st x).block = (getV st (getC st ci).l).block → x ≤ (getC st ci).l := by
    intro x hx h
    exact (hp.conn_side hci ha ((hinv.comps x _ hx hl).1 h)).2 (Nat.le_refl _)
  have hsideR : ∀ x, x < st.vs.size → (getV st x).block = (getV st (getC st ci).r).block → (getC st ci).l < x := by
    intro x hx h
    have := hp.conn_side hci ha ((hinv.comps x _ hx hr).1 h)
    by_contra hc
    have := this.1 (by omega)
    omega
  -- balance before and after
  have h3 := block_isum_zero hinv hnd hs hw hu hl
  have h4 := block_isum_zero hinv hnd hs hw hu hr
  have h5 : isum st.vs.size (fun x => (getV st x).block = (getV st (getC st ci).l).block ∨
      (getV st x).block = (getV st (getC st ci).r).block) (dfdv st') = 0 := by
    have h := block_isum_zero i1 n1 s1 hw' hu' (v := (getC st ci).l) (by rw [hF.vsize]; exact hl)
    rw [hF.vsize] at h
    rw [← h]
    apply isum_congr
    · intro x hx
      rw [hblk' x hx, hblk' _ hl, if_pos (Or.inl rfl)]
      constructor
      · intro hin; rw [if_pos hin]
      · intro h2
        by_cases hin : (getV st x).block = (getV st (getC st ci).l).block ∨ (getV st x).block = (getV st (getC st ci).r).block
        · exact hin
        · rw [if_neg hin] at h2
          exact hm.elim (fun h => Or.inl (h2.trans h)) (fun h => Or.inr (h2.trans h))
    · intro _ _ _; rfl
  obtain ⟨key, htL, htR⟩ := shift_signs (blk := fun x => (getV st x).block) (w := fun x => (getV st x).w) (g := dfdv st)
    (g' := dfdv st') hb hw ⟨_, hl, rfl⟩ ⟨_, hr, rfl⟩
    (fun x hx h => by rw [hg' x hx, if_pos h])
    (fun x hx h => by rw [hg' x hx, if_neg (fun h' => hb (h'.symm.trans h)), if_pos h]) h3 h4 h5 h6
  -- the cuts
  intro c hc hactc
  rw [hF.csize] at hc
  have ha_lt : (getC st c).l < st.vs.size := (hinv.wf.lr c hc).1
  unfold bpre
  rw [hF.vsize, (hF.cstat c).1]
  have hWcut : ∀ b : Nat, 0 ≤ isum st.vs.size (fun x => x ≤ (getC st c).l ∧ (getV st x).block = b) (fun x => (getV st x).w) :=
    fun b => isum_nonneg (fun x hx _ => (hw x hx).le)
  have hcutL : (getV st (getC st c).l).block = (getV st (getC st ci).l).block →
      isum st.vs.size (fun x => x ≤ (getC st c).l ∧ (getV st' x).block = (getV st' (getC st c).l).block) (dfdv st') ≤
        isum st.vs.size (fun x => x ≤ (getC st c).l ∧ (getV st x).block = (getV st (getC st ci).l).block) (dfdv st) := by
    intro h1
    rw [cut_L (blk := fun x => (getV st x).block) (blk' := fun x => (getV st' x).block) (w := fun x => (getV st x).w)
      (g := dfdv st) (g' := dfdv st') hm hblk' hg' hsideL hsideR ha_lt h1]
    have := mul_nonneg (neg_nonneg.2 htL) (hWcut (getV st (getC st ci).l).block)
    linarith
  by_cases hcc : c = ci
  · subst hcc
    refine le_trans (hcutL rfl) (le_of_eq ?_)
    rw [← h3]
    apply isum_congr
    · intro x hx
      exact ⟨fun h => h.2, fun h => ⟨hsideL x hx h, h⟩⟩
    · intro _ _ _; rfl
  · have hactc0 : (getC st c).active = true := by rw [← hact' c hcc]; exact hactc
    have hN0 := hN c hc hactc0
    unfold bpre at hN0
    by_cases h1 : (getV st (getC st c).l).block = (getV st (getC st ci).l).block
    · refine le_trans (hcutL h1) ?_
      rw [h1] at hN0
      exact hN0
    · by_cases h2 : (getV st (getC st c).l).block = (getV st (getC st ci).r).block
      · rw [cut_R (blk := fun x => (getV st x).block) (blk' := fun x => (getV st' x).block) (w := fun x => (getV st x).w)
          (g := dfdv st) (g' := dfdv st') hb hm hblk' hg' hsideL hsideR ha_lt h2, h3]
        rw [h2] at hN0
        have hmono : isum st.vs.size (fun x => x ≤ (getC st c).l ∧ (getV st x).block = (getV st (getC st ci).r).block)
            (fun x => (getV st x).w) ≤
            isum st.vs.size (fun x => (getV st x).block = (getV st (getC st ci).r).block) (fun x => (getV st x).w) :=
          isum_mono (fun x _ h => h.2) (fun x hx _ => (hw x hx).le)
        have := mul_le_mul_of_nonneg_left hmono htR
        linarith
      · rw [cut_other (blk := fun x => (getV st x).block) (blk' := fun x => (getV st' x).block) (w := fun x => (getV st x).w)
          (g := dfdv st) (g' := dfdv st') hm hblk' hg' ha_lt h1 h2]
        exact hN0


/-! ## steps that leave positions, blocks and active flags alone keep `NonnegLM` -/

theorem NonnegLM.congr {st s : St} (hvs : s.vs = st.vs) (hbs : s.bs = st.bs) (hcsz : s.cs.size = st.cs.size)
    (hl : ∀ c, (getC s c).l = (getC st c).l) (hact : ∀ c, (getC s c).active = (getC st c).active) (hN : NonnegLM st) :
    NonnegLM s := by
  have hV : ∀ i, getV s i = getV st i := fun i => by unfold getV; rw [hvs]
  have hB : ∀ i, getB s i = getB st i := fun i => by unfold getB; rw [hbs]
  have hd : dfdv s = dfdv st := by
    funext i
    unfold dfdv position
    simp only [hV, hB]
  intro c hc ha
  rw [hcsz] at hc
  rw [hact] at ha
  have := hN c hc ha
  unfold bpre at this ⊢
  rw [hvs, hl, hd]
  simp only [hV]
  exact this

theorem NonnegLM.of_lmOnly {st s : St} (h : LmOnly st s) (hN : NonnegLM st) : NonnegLM s :=
  hN.congr h.core.vs_eq h.bs_eq h.core.csize h.l h.active

theorem NonnegLM.of_mv {st : St} (hN : NonnegLM st) : NonnegLM (mostViolated st).1 := by
  obtain ⟨h1, h2, h3, _⟩ := mostViolated_spec st
  exact hN.congr h1 h3 (by rw [h2]) (fun c => by rw [mv_getC]) (fun c => by rw [mv_getC])

/-- with no active constraint there is nothing to check -/
theorem nonnegLM_of_no_active {st : St} (h : ∀ c, (getC st c).active = false) : NonnegLM st := by
  intro c _ ha
  rw [h c] at ha
  cases ha

/-! ## the constraint `findMinLM` reports lies in the block it was asked about -/

open FrameAux in
theorem computeLm_tracked {base : St} (hinv : Inv base) (track : Bool) (fuel : Nat) :
    ∀ (s : St) (m : Option Nat) (v : Nat) (u : Option Nat), CoreEq base s → v < base.vs.size →
      ((computeLm fuel s track m v u).2.1 = m ∨
        ∃ ci, (computeLm fuel s track m v u).2.1 = some ci ∧ (getC base ci).active = true ∧
          (getV base (getC base ci).l).block = (getV base v).block) := by
  induction fuel with
  | zero =>
    intro s m v u _ _
    rw [computeLm]
    exact Or.inl rfl
  | succ fuel ih =>
    intro s m v u hce hv
    rw [computeLm_succ]
    simp only
    have hnb : neighbours s v = neighbours base v := neighbours_of_coreEq hce v
    rw [hnb]
    refine (foldl_inv (fun acc : St × Option Nat × Rat => CoreEq base acc.1 ∧
      (acc.2.1 = m ∨ ∃ ci, acc.2.1 = some ci ∧ (getC base ci).active = true ∧
        (getV base (getC base ci).l).block = (getV base v).block)) _ _ _ ⟨hce, Or.inl rfl⟩ ?_).2
    rintro acc p hpm ⟨hca, hm⟩
    unfold lmStep
    simp only
    split
    · next hcond =>
      rw [Bool.and_eq_true] at hcond
      have hact : (getC base p.1).active = true := by rw [← (hca.flags p.1).1]; exact hcond.1
      obtain ⟨hp1, hp2, hends⟩ := hinv.wf.toWFd.nb_sound hv (c := p.1) (w := p.2) hpm
      have hsb := same_block_of_active hinv hp1 hact
      have hbw : (getV base p.2).block = (getV base v).block := by
        rcases hends with ⟨a1, a2⟩ | ⟨a1, a2⟩
        · rw [a1, a2] at hsb; exact hsb.symm
        · rw [a1, a2] at hsb; exact hsb
      have hbl : (getV base (getC base p.1).l).block = (getV base v).block := by
        rcases hends with ⟨a1, _⟩ | ⟨a1, _⟩
        · rw [a1]
        · rw [a1]; exact hbw
      have hsub : (computeLm fuel acc.1 track acc.2.1 p.2 (some v)).2.1 = m ∨
          ∃ ci, (computeLm fuel acc.1 track acc.2.1 p.2 (some v)).2.1 = some ci ∧ (getC base ci).active = true ∧
            (getV base (getC base ci).l).block = (getV base v).block := by
        rcases ih acc.1 acc.2.1 p.2 (some v) hca hp2 with h2 | ⟨ci, h2, h3, h4⟩
        · rw [h2]; exact hm
        · exact Or.inr ⟨ci, h2, h3, h4.trans hbw⟩
      refine ⟨(hca.trans (computeLm_coreEq _ _ _ _ _ _)).trans (coreEq_setC _ _ _ rfl rfl rfl rfl rfl), ?_⟩
      cases track with
      | false => exact hsub
      | true =>
        simp only [if_true]
        split
        · exact Or.inr ⟨p.1, rfl, hact, hbl⟩
        · next mi hmi =>
          rw [hmi] at hsub
          split_ifs <;> first | exact Or.inr ⟨p.1, rfl, hact, hbl⟩ | exact hsub
    · exact ⟨hca, hm⟩

theorem findMinLM_tracked {base s : St} (hinv : Inv base) (hce : CoreEq base s) {v : Nat} (hv : v < base.vs.size) {ci : Nat}
    (h : (findMinLM s (getV base v).block).2 = some ci) :
    (getC base ci).active = true ∧ (getV base (getC base ci).l).block = (getV base v).block := by
  unfold findMinLM at h
  rw [hce.bvars] at h
  split at h
  · exact absurd h (by simp)
  · next v0 rest hvars =>
    simp only at h
    have hv0mem : v0 ∈ (getB base (getV base v).block).vars := by rw [hvars]; exact List.mem_cons_self ..
    obtain ⟨hv0, hb0⟩ := (hinv.members v hv v0).1 hv0mem
    rcases computeLm_tracked hinv true (travFuel s) s none v0 none hce hv0 with h2 | ⟨cj, h2, h3, h4⟩
    · rw [h2] at h; exact absurd h (by simp)
    · rw [h2] at h
      cases h
      exact ⟨h3, h4.trans hb0⟩

/-! ## the position update at the start of `Blocks.split` changes nothing when the statistics are exact -/

theorem B_eq_of_fields {x y : B} (h1 : x.vars = y.vars) (h2 : x.scale = y.scale) (h3 : x.AB = y.AB) (h4 : x.AD = y.AD)
    (h5 : x.A2 = y.A2) (h6 : x.posn = y.posn) (h7 : x.ind = y.ind) : x = y := by
  cases x; cases y
  simp only at h1 h2 h3 h4 h5 h6 h7
  subst h1 h2 h3 h4 h5 h6 h7
  rfl

theorem setB_self (st : St) (b : Nat) : setB st b (getB st b) = st := by
  unfold setB getB
  have : st.bs.setIfInBounds b (st.bs.getD b default) = st.bs := by
    apply Array.ext
    · simp
    · intro j h1 h2
      rw [Array.getElem_setIfInBounds]
      split
      · next h => subst h; simp [Array.getD, h2]
      · rfl
  rw [this]

theorem uwp_self (st : St) (b : Nat) (h : StatsB st b) : updateWeightedPosition st b = st := by
  obtain ⟨_, g2, g3, g4, g5⟩ := h
  obtain ⟨f1, f2, f3, f4, f5, f6⟩ := foldl_addStats st (getB st b).vars { getB st b with AB := 0, AD := 0, A2 := 0 }
  have e : ({ (getB st b).vars.foldl (fun acc i => addStats acc (getV st i)) { getB st b with AB := 0, AD := 0, A2 := 0 } with
        posn := getPosn ((getB st b).vars.foldl (fun acc i => addStats acc (getV st i))
          { getB st b with AB := 0, AD := 0, A2 := 0 }) } : B) = getB st b := by
    have eAB : ((getB st b).vars.foldl (fun acc i => addStats acc (getV st i)) { getB st b with AB := 0, AD := 0, A2 := 0 }).AB
        = (getB st b).AB := by rw [f4, g2]; simp [sumAB]
    have eAD : ((getB st b).vars.foldl (fun acc i => addStats acc (getV st i)) { getB st b with AB := 0, AD := 0, A2 := 0 }).AD
        = (getB st b).AD := by rw [f5, g3]; simp [sumAD]
    have eA2 : ((getB st b).vars.foldl (fun acc i => addStats acc (getV st i)) { getB st b with AB := 0, AD := 0, A2 := 0 }).A2
        = (getB st b).A2 := by rw [f6, g4]; simp [sumA2]
    apply B_eq_of_fields
    · exact f1
    · exact f2
    · exact eAB
    · exact eAD
    · exact eA2
    · show getPosn _ = _
      rw [g5]
      unfold getPosn
      rw [eAB, eAD, eA2]
    · exact f3
  have : updateWeightedPosition st b = setB st b (getB st b) := by
    unfold updateWeightedPosition
    simp only
    rw [e]
  rw [this, setB_self]

theorem foldl_uwp_self (st : St) (l : List Nat) (h : ∀ b ∈ l, StatsB st b) :
    l.foldl (fun st b => updateWeightedPosition st b) st = st := by
  induction l with
  | nil => rfl
  | cons a t ih =>
    rw [List.foldl_cons, uwp_self st a (h a List.mem_cons_self)]
    exact ih (fun b hb => h b (List.mem_cons_of_mem _ hb))

theorem blocksSplit_eq_splitLoop (st : St) (hL : ListInv st) (hS : StatsInv st) :
    blocksSplit st = splitLoop (st.list.size + 3) st st.list true 0 := by
  have : st.list.foldl (fun st b => updateWeightedPosition st b) st = st := by
    rw [← Array.foldl_toList]
    apply foldl_uwp_self
    intro b hb
    obtain ⟨v, hv, e⟩ := hL.inuse b hb
    rw [← e]
    exact hS v hv
  unfold blocksSplit
  simp only [this]


/-! ## the bundle, and the split pass -/

/-- everything that holds of the solver state of a path instance with unit scales between two `satisfy` passes -/
structure PState (st : St) : Prop where
  inv2 : Inv2 st
  cov : Covered st none
  err : st.err = false
  path : IsPathSt st
  unit : UnitSc st
  posw : PosW st
  nn : NonnegLM st

theorem lagrangianTolerance_neg : Gen.lagrangianTolerance < 0 := by norm_num [Gen.lagrangianTolerance]

theorem zeroUpperBound_nonpos : Gen.zeroUpperBound ≤ 0 := by norm_num [Gen.zeroUpperBound]

/-- in a state where no multiplier is negative the loop of `Blocks.split` only rewrites multipliers -/
theorem splitLoop_calm {base : St} (P : PState base) :
    ∀ (fuel : Nat) (s : St) (L0 : Array Nat) (al : Bool) (i : Nat), LmOnly base s → s.list = base.list → s.err = false →
      (∀ b ∈ L0.toList, ∃ v, v < base.vs.size ∧ (getV base v).block = b) →
      LmOnly base (splitLoop fuel s L0 al i) ∧ (splitLoop fuel s L0 al i).list = base.list
  | 0, s, _, _, _, hs, hlist, _, _ => by
    rw [splitLoop]
    exact ⟨hs.setErr, hlist⟩
  | fuel + 1, s, L0, al, i, hs, hlist, herr, huse => by
    have h2 := P.inv2
    rw [splitLoop_succ]
    split
    · next hi =>
      obtain ⟨v, hv, hvb⟩ := huse L0[i] (by simp)
      have hce : CoreEq base s := hs.core
      have is : Inv s := h2.inv.of_coreEq hce
      have hne : (getB s L0[i]).vars ≠ [] := by
        rw [hs.getB, ← hvb]; exact vars_ne_nil_of_inuse base h2.inv v hv
      have e1 := findMinLM_noerr s is herr L0[i] hne
      have hq := findMinLM_quiet s L0[i]
      have hsome := findMinLM_some s is.wf L0[i]
      have hblock : LmOnly base (findMinLM s L0[i]).1 ∧ ∀ x, x < base.vs.size → (getV base x).block = L0[i] →
          netVx base (findMinLM s L0[i]).1 none x = dfdv base x := by
        rw [← hvb] at e1 ⊢
        obtain ⟨b1, _, b3⟩ := findMinLM_block h2.inv h2.nd h2.adj h2.stats P.posw hs hv e1
        exact ⟨b1, b3⟩
      have htr : ∀ ci, (findMinLM s L0[i]).2 = some ci →
          (getC base ci).active = true ∧ (getV base (getC base ci).l).block = L0[i] := by
        intro ci hm
        rw [← hvb] at hm ⊢
        exact findMinLM_tracked h2.inv hce hv hm
      generalize findMinLM s L0[i] = fm at *
      obtain ⟨b1, b3⟩ := hblock
      have hl1 : fm.1.list = base.list := hq.list_eq.trans hlist
      split
      · exact splitLoop_calm P fuel fm.1 L0 al (i + 1) b1 hl1 e1 huse
      · next ci hm =>
        obtain ⟨hactb, hblk⟩ := htr ci hm
        have hcib : ci < base.cs.size := FrameAux.active_lt base ci hactb
        have hlm : (getC fm.1 ci).lm = - bpre base ci :=
          lam_eq_neg_bpre h2.inv P.path P.unit hcib hactb (fun x hx hxb => b3 x hx (hxb.trans hblk))
        have hnn := P.nn ci hcib hactb
        have hnot : ¬ (getC fm.1 ci).lm < Gen.lagrangianTolerance := by
          have := lagrangianTolerance_neg
          rw [hlm]
          intro h
          linarith
        rw [if_neg hnot]
        exact splitLoop_calm P fuel fm.1 L0 al (i + 1) b1 hl1 e1 huse
    · exact ⟨hs, hlist⟩

/-- **the split pass of `satisfy` splits nothing when no multiplier is negative** -/
theorem blocksSplit_calm {st : St} (P : PState st) :
    LmOnly st (blocksSplit st) ∧ (blocksSplit st).list = st.list := by
  rw [blocksSplit_eq_splitLoop st P.inv2.list P.inv2.stats]
  exact splitLoop_calm P _ st st.list true 0 (LmOnly.refl st) rfl P.err (fun b hb => P.inv2.list.inuse b hb)

/-! ## the `while` loop of `satisfy` keeps `NonnegLM` -/

/-- what the `while` loop of `satisfy` is entered with at each iteration, on a path with unit scales -/
def PGood2 (p : St × Option Nat) : Prop :=
  ∃ st0, p = mostViolated st0 ∧ Inv st0 ∧ VarsNodup st0 ∧ AdjNodup st0 ∧ Covered st0 none ∧ IsPathSt st0 ∧ st0.err = false ∧
    ListInv st0 ∧ StatsInv st0 ∧ UnitSc st0 ∧ PosW st0 ∧ NonnegLM st0

theorem PGood2.step {p : St × Option Nat} (hg : PGood2 p) (hc : satCond p = true) : PGood2 (satNext p) := by
  obtain ⟨st0, rfl, hinv, hnd, hadj, hcov, hp, herr, hL, hS, hu, hw, hN⟩ := hg
  unfold satCond at hc
  cases hmv : (mostViolated st0).2 with
  | none => rw [hmv] at hc; cases hc
  | some v =>
    rw [hmv] at hc
    simp only at hc
    obtain ⟨is, ns, as, cs, hv, hact⟩ := mv_pre st0 hinv hnd hadj hcov v hmv hc
    have hQ := mostViolated_quiet st0
    have hF0 := mv_frame st0 hinv.wf
    have herr0 : (mostViolated st0).1.err = false := by rw [mv_err]; exact herr
    have hp0 : IsPathSt (mostViolated st0).1 := hp.of_frame hF0
    have hun : (getC (mostViolated st0).1 v).unsat = false := by
      have h7 := (mostViolated_spec st0).2.2.2.2.2.2
      rw [hmv] at h7
      rw [mv_getC]
      exact h7.2.1
    have hviol : slack (mostViolated st0).1 v < 0 := by
      rw [Bool.and_eq_true, decide_eq_true_eq] at hc
      have := zeroUpperBound_nonpos
      linarith [hc.1]
    obtain ⟨_, serr⟩ := satStep_noerr (mostViolated st0).1 v is hv herr0
    obtain ⟨t1, t2, t3, t4⟩ := satStep_spec (mostViolated st0).1 v is ns as cs hv hact serr
    obtain ⟨l1, s1⟩ := satStep_ls (mostViolated st0).1 v is ns as hv hact serr (hL.of_quiet hQ) (hS.of_quiet hQ)
    have hN1 : NonnegLM (satStep (mostViolated st0).1 v).1 := by
      rw [satStep_path_eq _ v is hp0 hv hact]
      exact mergeBlocks_nonnegLM _ v is ns (hL.of_quiet hQ) (hS.of_quiet hQ) hp0 (hu.of_frame hF0) (hw.of_frame hF0)
        hN.of_mv hv hact hun hviol
    have hnext : satNext (mostViolated st0) = mostViolated (satStep (mostViolated st0).1 v).1 := by
      simp only [satNext, hmv]
    rw [hnext]
    exact ⟨_, rfl, t1, t2, as.of_frame t4, t3, hp0.of_frame t4, serr, l1, s1, (hu.of_frame hF0).of_frame t4,
      (hw.of_frame hF0).of_frame t4, hN1⟩

theorem PGood2.iter : ∀ (k : Nat) (p : St × Option Nat), PGood2 p → (∀ j, j < k → satCond (satIter j p) = true) →
    PGood2 (satIter k p)
  | 0, _, hg, _ => hg
  | k + 1, p, hg, h => by
    have h0 : satCond p = true := h 0 (Nat.succ_pos k)
    rw [satIter]
    exact PGood2.iter k (satNext p) (hg.step h0) (fun j hj => h (j + 1) (Nat.succ_lt_succ hj))

theorem PGood2.start {st : St} (P : PState st) : PGood2 (satStart st) := by
  have h := P.inv2
  obtain ⟨hLm, _⟩ := blocksSplit_calm P
  have e1 := blocksSplit_noerr st h.inv h.nd h.adj P.cov h.list P.err
  obtain ⟨t1, t2, t3, t4⟩ := blocksSplit_inv st h.inv h.nd h.adj P.cov e1
  obtain ⟨l1, s1⟩ := blocksSplit_ls st h.inv h.nd h.adj P.cov h.list h.stats e1
  exact ⟨blocksSplit st, rfl, t1, t2, h.adj.of_frame t4, t3, P.path.of_frame t4, e1, l1, s1, P.unit.of_frame t4,
    P.posw.of_frame t4, P.nn.of_lmOnly hLm⟩

theorem first_false (Q : Nat → Bool) : ∀ N, (∃ k, k ≤ N ∧ Q k = false) →
    ∃ k0, k0 ≤ N ∧ Q k0 = false ∧ ∀ j, j < k0 → Q j = true
  | 0, ⟨k, hk, hq⟩ => by
    have : k = 0 := by omega
    subst this
    exact ⟨0, Nat.le_refl _, hq, fun j hj => absurd hj (Nat.not_lt_zero j)⟩
  | N + 1, ⟨k, hk, hq⟩ => by
    by_cases hex : ∃ k', k' ≤ N ∧ Q k' = false
    · obtain ⟨k0, h1, h2, h3⟩ := first_false Q N hex
      exact ⟨k0, by omega, h2, h3⟩
    · have hk' : k = N + 1 := by
        by_contra hne
        exact hex ⟨k, by omega, hq⟩
      subst hk'
      refine ⟨N + 1, Nat.le_refl _, hq, fun j hj => ?_⟩
      cases hj' : Q j with
      | true => rfl
      | false => exact absurd ⟨j, by omega, hj'⟩ hex

/-- **a `satisfy` pass on a path with unit scales keeps the bundle**, and ends feasible -/
theorem satisfy_pstate {st : St} (P : PState st) (sfuel : Nat) (hf : st.vs.size < sfuel) :
    PState (satisfy sfuel st) ∧ Feasible (satisfy sfuel st) ∧ Frame st (satisfy sfuel st) := by
  have h := P.inv2
  have herr := path_satisfy_noerr st h P.cov P.err P.path sfuel hf
  obtain ⟨h2, hcov2⟩ := satisfy_inv2 sfuel st h P.cov herr
  obtain ⟨_, _, _, hfe, hF⟩ := satisfy_spec sfuel st h.inv h.nd h.adj P.cov herr
  obtain ⟨k0, hk0, hstop, hbefore⟩ := first_false (fun k => satCond (satIter k (satStart st))) st.cs.size
    (path_satCond_stops st h P.cov P.err P.path)
  have hlt : k0 < sfuel := by have := P.path.csize_le; omega
  have heq := satisfy_eq_iter sfuel st h P.cov P.err k0 hlt hbefore hstop
  obtain ⟨st0, e0, _, _, _, _, _, _, _, _, _, _, hN0⟩ := PGood2.iter k0 (satStart st) (PGood2.start P) hbefore
  have hN : NonnegLM (satisfy sfuel st) := by
    rw [heq, e0]
    exact hN0.of_mv
  exact ⟨⟨h2, hcov2, herr, P.path.of_frame hF, P.unit.of_frame hF, P.posw.of_frame hF, hN⟩, hfe, hF⟩

/-! ## the solver's own multipliers -/

/-- **in a state of the bundle the multipliers the solver computes are nonnegative** -/
theorem pstate_multipliers_nonneg {st : St} (P : PState st) :
    (lmState st).err = false ∧ ∀ l ∈ multipliers st, 0 ≤ l := by
  have h := P.inv2
  have herr := lmState_noerr st h.inv h.list P.err
  obtain ⟨hL, hnet⟩ := lmState_spec st h.inv h.nd h.adj h.list h.stats P.posw herr
  refine ⟨herr, ?_⟩
  rw [multipliers_lam st hL]
  intro l hl
  obtain ⟨c, hc, rfl⟩ := List.mem_map.1 hl
  rw [List.mem_range] at hc
  by_cases ha : (getC st c).active = true
  · rw [lam_active ha, lam_eq_neg_bpre h.inv P.path P.unit hc ha (fun x hx _ => hnet x hx)]
    have := P.nn c hc ha
    linarith
  · rw [lam_inactive (by simpa using ha)]

/-! ## a pass entered in a feasible state of the bundle changes no position -/

theorem cost_congr {st s : St} (hvs : s.vs = st.vs) (hbs : s.bs = st.bs) (hlist : s.list = st.list) : cost s = cost st := by
  unfold cost position getV getB
  rw [hvs, hbs, hlist]

theorem KKT.LmOnly.slack {st s : St} (h : LmOnly st s) (c : Nat) : slack s c = slack st c := by
  unfold Vpsc.slack
  simp only [h.getV, h.position, h.l, h.r, h.g, (h.core.flags c).2]

theorem satisfy_feasible_cost {st : St} (P : PState st) (hfe : Feasible st) (sfuel : Nat) (hf : 0 < sfuel) :
    cost (satisfy sfuel st) = cost st := by
  have h := P.inv2
  obtain ⟨hLm, hlist⟩ := blocksSplit_calm P
  have hstop : satCond (satIter 0 (satStart st)) = false := by
    rw [satIter]
    unfold satCond satStart
    cases hmv : (mostViolated (blocksSplit st)).2 with
    | none => rfl
    | some v =>
      simp only
      have h7 := (mostViolated_spec (blocksSplit st)).2.2.2.2.2.2
      rw [hmv] at h7
      obtain ⟨hvin, hvu, _, _⟩ := h7
      rw [hLm.core.inactive_eq] at hvin
      have hvlt := h.inv.wf.inactive_lt v hvin
      have hsl := hfe v hvlt (by rw [← (hLm.core.flags v).2]; exact hvu)
      rw [mv_slack, hLm.slack]
      have : ¬ slack st v < Gen.zeroUpperBound := not_lt.2 hsl
      simp [this]
  have heq := satisfy_eq_iter sfuel st h P.cov P.err 0 hf (fun j hj => absurd hj (Nat.not_lt_zero j)) hstop
  rw [heq, satIter]
  obtain ⟨m1, _, m3, m4, _⟩ := mostViolated_spec (blocksSplit st)
  exact cost_congr (m1.trans hLm.core.vs_eq) (m3.trans hLm.bs_eq) (m4.trans hlist)

theorem ratAbs_self_sub (c : Rat) : ¬ ratAbs (c - c) > Gen.solveCostTolerance := by
  rw [sub_self]
  unfold ratAbs
  norm_num [Gen.solveCostTolerance]

/-- **`solve` on a path with unit scales finishes within two iterations of its loop, in a state of the bundle** -/
theorem solve_pstate {st : St} (P : PState st) (fuel sfuel : Nat) (hfuel : 2 ≤ fuel) (hf : st.vs.size < sfuel) :
    PState (solve fuel sfuel st).1 ∧ Frame st (solve fuel sfuel st).1 := by
  obtain ⟨f, rfl⟩ : ∃ f, fuel = f + 2 := ⟨fuel - 2, by omega⟩
  obtain ⟨P1, F1, Fr1⟩ := satisfy_pstate P sfuel hf
  unfold solve
  simp only
  rw [solveLoop]
  split
  · obtain ⟨P2, _, Fr2⟩ := satisfy_pstate P1 sfuel (by rw [Fr1.vsize]; exact hf)
    have hcost := satisfy_feasible_cost P1 F1 sfuel (by omega)
    rw [solveLoop, hcost, if_neg (ratAbs_self_sub _)]
    exact ⟨P2, Fr1.trans Fr2⟩
  · exact ⟨P1, Fr1⟩

/-! ## the initial state -/

theorem init_pstate (vars : List (Rat × Rat × Rat)) (cons : List (Nat × Nat × Rat))
    (hidx : ∀ c ∈ cons, c.1 < vars.length ∧ c.2.1 < vars.length) (hw : ∀ v ∈ vars, 0 < v.2.1) (hsc : ∀ v ∈ vars, v.2.2 = 1)
    (hpath : ∀ c ∈ cons, c.2.1 = c.1 + 1) (hnd : (cons.map (·.1)).Nodup) : PState (init vars cons) := by
  have hs : ∀ v ∈ vars, v.2.2 ≠ 0 := fun v hv => by rw [hsc v hv]; exact one_ne_zero
  obtain ⟨_, _, i3, i4, _, i6, _⟩ := init_inv vars cons hidx hs
  obtain ⟨hI2, hcov⟩ := init_inv2 vars cons hidx hs
  refine ⟨hI2, hcov, i3, init_isPathSt vars cons hidx hs hpath hnd, ?_, ?_, ?_⟩
  · intro v hv
    rw [i4] at hv
    rw [(i6 v hv).2.2]
    exact hsc _ (List.getElem_mem _)
  · intro v hv
    rw [i4] at hv
    rw [(i6 v hv).2.1]
    exact hw _ (List.getElem_mem _)
  · apply nonnegLM_of_no_active
    intro c
    rw [(FrameAux.init_facts vars cons).2.2.1 c]
    exact (FrameAux.init0_getC vars cons c).1

end Labella.Vpsc
