import Labella.Proofs.VpscInv
/-! Store access lemmas for the solver state, and reflexivity / transitivity of `Frame` and `CoreEq`. -/
namespace Labella.Vpsc

@[simp] theorem setV_vs_size (st : St) (i : Nat) (v : V) : (setV st i v).vs.size = st.vs.size := by simp [setV]
@[simp] theorem setV_cs (st : St) (i : Nat) (v : V) : (setV st i v).cs = st.cs := rfl
@[simp] theorem setV_bs (st : St) (i : Nat) (v : V) : (setV st i v).bs = st.bs := rfl
@[simp] theorem setV_list (st : St) (i : Nat) (v : V) : (setV st i v).list = st.list := rfl
@[simp] theorem setV_inactive (st : St) (i : Nat) (v : V) : (setV st i v).inactive = st.inactive := rfl
@[simp] theorem setV_err (st : St) (i : Nat) (v : V) : (setV st i v).err = st.err := rfl
@[simp] theorem setC_cs_size (st : St) (i : Nat) (c : C) : (setC st i c).cs.size = st.cs.size := by simp [setC]
@[simp] theorem setC_vs (st : St) (i : Nat) (c : C) : (setC st i c).vs = st.vs := rfl
@[simp] theorem setC_bs (st : St) (i : Nat) (c : C) : (setC st i c).bs = st.bs := rfl
@[simp] theorem setC_list (st : St) (i : Nat) (c : C) : (setC st i c).list = st.list := rfl
@[simp] theorem setC_inactive (st : St) (i : Nat) (c : C) : (setC st i c).inactive = st.inactive := rfl
@[simp] theorem setC_err (st : St) (i : Nat) (c : C) : (setC st i c).err = st.err := rfl
@[simp] theorem setB_bs_size (st : St) (i : Nat) (b : B) : (setB st i b).bs.size = st.bs.size := by simp [setB]
@[simp] theorem setB_vs (st : St) (i : Nat) (b : B) : (setB st i b).vs = st.vs := rfl
@[simp] theorem setB_cs (st : St) (i : Nat) (b : B) : (setB st i b).cs = st.cs := rfl
@[simp] theorem setB_list (st : St) (i : Nat) (b : B) : (setB st i b).list = st.list := rfl
@[simp] theorem setB_inactive (st : St) (i : Nat) (b : B) : (setB st i b).inactive = st.inactive := rfl
@[simp] theorem setB_err (st : St) (i : Nat) (b : B) : (setB st i b).err = st.err := rfl

theorem getV_setV (st : St) (i j : Nat) (v : V) :
    getV (setV st i v) j = if j = i ∧ i < st.vs.size then v else getV st j := by
  unfold getV setV
  simp only [Array.getD_eq_getD_getElem?, Array.getElem?_setIfInBounds]
  by_cases h : j = i
  · subst h
    by_cases hi : j < st.vs.size
    · simp [hi]
    · simp [hi]
  · have h' : ¬ i = j := fun e => h e.symm
    simp [h, h']

theorem getC_setC (st : St) (i j : Nat) (c : C) :
    getC (setC st i c) j = if j = i ∧ i < st.cs.size then c else getC st j := by
  unfold getC setC
  simp only [Array.getD_eq_getD_getElem?, Array.getElem?_setIfInBounds]
  by_cases h : j = i
  · subst h
    by_cases hi : j < st.cs.size
    · simp [hi]
    · simp [hi]
  · have h' : ¬ i = j := fun e => h e.symm
    simp [h, h']

theorem getB_setB (st : St) (i j : Nat) (b : B) :
    getB (setB st i b) j = if j = i ∧ i < st.bs.size then b else getB st j := by
  unfold getB setB
  simp only [Array.getD_eq_getD_getElem?, Array.getElem?_setIfInBounds]
  by_cases h : j = i
  · subst h
    by_cases hi : j < st.bs.size
    · simp [hi]
    · simp [hi]
  · have h' : ¬ i = j := fun e => h e.symm
    simp [h, h']

@[simp] theorem getC_setV (st : St) (i j : Nat) (v : V) : getC (setV st i v) j = getC st j := rfl
@[simp] theorem getB_setV (st : St) (i j : Nat) (v : V) : getB (setV st i v) j = getB st j := rfl
@[simp] theorem getV_setC (st : St) (i j : Nat) (c : C) : getV (setC st i c) j = getV st j := rfl
@[simp] theorem getB_setC (st : St) (i j : Nat) (c : C) : getB (setC st i c) j = getB st j := rfl
@[simp] theorem getV_setB (st : St) (i j : Nat) (b : B) : getV (setB st i b) j = getV st j := rfl
@[simp] theorem getC_setB (st : St) (i j : Nat) (b : B) : getC (setB st i b) j = getC st j := rfl

theorem Frame.refl (st : St) : Frame st st :=
  ⟨rfl, rfl, Nat.le_refl _, fun _ => ⟨rfl, rfl, rfl, rfl, rfl⟩, fun _ => ⟨rfl, rfl, rfl⟩, id⟩

theorem Frame.trans {a b c : St} (h1 : Frame a b) (h2 : Frame b c) : Frame a c where
  vsize := h2.vsize.trans h1.vsize
  csize := h2.csize.trans h1.csize
  bsize := Nat.le_trans h1.bsize h2.bsize
  vstat := fun i => by
    obtain ⟨a1, a2, a3, a4, a5⟩ := h1.vstat i
    obtain ⟨b1, b2, b3, b4, b5⟩ := h2.vstat i
    exact ⟨b1.trans a1, b2.trans a2, b3.trans a3, b4.trans a4, b5.trans a5⟩
  cstat := fun i => by
    obtain ⟨a1, a2, a3⟩ := h1.cstat i
    obtain ⟨b1, b2, b3⟩ := h2.cstat i
    exact ⟨b1.trans a1, b2.trans a2, b3.trans a3⟩
  errmono := fun h => h2.errmono (h1.errmono h)

theorem CoreEq.refl (st : St) : CoreEq st st :=
  { toFrame := Frame.refl st, vs_eq := rfl, inactive_eq := rfl, flags := fun _ => ⟨rfl, rfl⟩, bvars := fun _ => rfl }

theorem CoreEq.trans {a b c : St} (h1 : CoreEq a b) (h2 : CoreEq b c) : CoreEq a c :=
  { toFrame := h1.toFrame.trans h2.toFrame
    vs_eq := h2.vs_eq.trans h1.vs_eq
    inactive_eq := h2.inactive_eq.trans h1.inactive_eq
    flags := fun i => ⟨(h2.flags i).1.trans (h1.flags i).1, (h2.flags i).2.trans (h1.flags i).2⟩
    bvars := fun b => (h2.bvars b).trans (h1.bvars b) }

end Labella.Vpsc
