import Labella.Proofs.VpscList
import Mathlib.Data.List.Nodup
import Mathlib.Algebra.BigOperators.Group.List.Basic
/-! # `Vpsc.cost` (summed block by block over the block list) is the sum over all variables

With `ListInv` (the list enumerates the in-use blocks once), `Inv.members` and `VarsNodup` (the `vars` lists partition the
variables) the concatenation of the `vars` lists of the listed blocks is a permutation of `0 … n-1`. -/
namespace Labella.Vpsc

theorem sum_map_sum_eq_flatMap {α β : Type} (l : List α) (f : α → List β) (g : β → Rat) :
    (l.map (fun b => ((f b).map g).sum)).sum = ((l.flatMap f).map g).sum := by
  induction l with
  | nil => simp
  | cons a t ih => simp [List.flatMap_cons, ih]

/-- the variables, block by block in the order of the block list -/
def allVars (st : St) : List Nat := st.list.toList.flatMap (fun b => (getB st b).vars)

theorem mem_allVars (st : St) (hinv : Inv st) (hL : ListInv st) (i : Nat) : i ∈ allVars st ↔ i < st.vs.size := by
  unfold allVars
  rw [List.mem_flatMap]
  constructor
  · rintro ⟨b, hb, hi⟩
    obtain ⟨v, hv, e⟩ := hL.inuse b hb
    rw [← e] at hi
    exact ((hinv.members v hv i).1 hi).1
  · intro hi
    exact ⟨_, hL.covers i hi, (hinv.members i hi i).2 ⟨hi, rfl⟩⟩

theorem nodup_allVars (st : St) (hinv : Inv st) (hnd : VarsNodup st) (hL : ListInv st) : (allVars st).Nodup := by
  unfold allVars
  rw [List.nodup_flatMap]
  constructor
  · intro b hb
    obtain ⟨v, hv, e⟩ := hL.inuse b hb
    rw [← e]; exact hnd v hv
  · refine List.Pairwise.imp_of_mem ?_ hL.nodup
    intro a b ha hb hne
    show List.Disjoint _ _
    intro i hia hib
    obtain ⟨v, hv, e⟩ := hL.inuse a ha
    obtain ⟨w, hw, e'⟩ := hL.inuse b hb
    rw [← e] at hia
    rw [← e'] at hib
    have h1 := ((hinv.members v hv i).1 hia).2
    have h2 := ((hinv.members w hw i).1 hib).2
    exact hne (e.symm.trans (h1.symm.trans (h2.trans e')))

theorem allVars_perm (st : St) (hinv : Inv st) (hnd : VarsNodup st) (hL : ListInv st) :
    (allVars st).Perm (List.range st.vs.size) := by
  rw [List.perm_ext_iff_of_nodup (nodup_allVars st hinv hnd hL) List.nodup_range]
  intro i
  rw [mem_allVars st hinv hL, List.mem_range]

/-- `Block.cost` summed over `Blocks._list` is the weighted squared displacement summed over all variables -/
theorem cost_eq_range (st : St) (hinv : Inv st) (hnd : VarsNodup st) (hL : ListInv st) :
    cost st = ((List.range st.vs.size).map (fun i =>
      (position st i - (getV st i).d) * (position st i - (getV st i).d) * (getV st i).w)).sum := by
  unfold cost
  rw [sum_map_sum_eq_flatMap]
  exact ((allVars_perm st hinv hnd hL).map _).sum_eq

end Labella.Vpsc
