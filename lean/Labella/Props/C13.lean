import Labella.Model.Scale
import Labella.Proofs.TickLemmas
import Labella.Proofs.FormatLemmas
import Mathlib.Algebra.Order.Field.Rat
import Mathlib.Tactic.Ring
import Mathlib.Tactic.Linarith
import Mathlib.Tactic.FieldSimp
import Mathlib.Tactic.NormNum
/-! # C13 — linear ticks are round, evenly spaced, complete, in-domain, uniquely labelled
# C14 (linear part) — nice() only widens a domain, by less than two tick steps, to round end points

Stated over ℚ; thresholds and multipliers come from `Gen/Constants.lean` (regenerated from the source). -/
namespace Labella.C13
open Labella Labella.Scale

/-- `pow10` is the integer power of ten -/
theorem pow10_pos (k : Int) : 0 < pow10 k := by
  exact Scale.pow10_pos k

theorem pow10_succ (k : Int) : pow10 (k + 1) = 10 * pow10 k := by
  exact Scale.pow10_succ k

/-- `floorLog10 q` is the decade of `q` (the fuel of the search always suffices) -/
theorem floorLog10_spec (q : ℚ) (hq : 0 < q) :
    pow10 (floorLog10 q) ≤ q ∧ q < pow10 (floorLog10 q + 1) := by
  exact Scale.floorLog10_spec q hq

/-- the step is 1, 2 or 5 times a power of ten -/
theorem step_form (span m : ℚ) (hs : 0 < span) (hm : 0 < m) :
    ∃ k : Int, tickStep span m = pow10 k ∨ tickStep span m = 2 * pow10 k ∨ tickStep span m = 5 * pow10 k := by
  exact tickStep_form span m hs hm

theorem step_pos (span m : ℚ) (hs : 0 < span) (hm : 0 < m) : 0 < tickStep span m := by
  exact tickStep_pos span m hs hm

/-- the number of steps in the span is between `4/7·m` and (just under) `10/7·m`:  `0.6999·span < m·step ≤ 1.75·span`
(the float literal `0.35` is a hair below 0.35, so `2·0.35` is a hair below 0.7: hence 0.6999 rather than 0.7) -/
theorem span_over_step_bounds (span m : ℚ) (hs : 0 < span) (hm : 0 < m) :
    (6999 / 10000) * span < m * tickStep span m ∧ m * tickStep span m ≤ (7 / 4) * span := by
  exact tickStep_bounds span m hs hm

/-- the ticks are exactly the integer multiples of the step that lie inside the domain (none missing, none outside) -/
theorem ticks_mem (d0 d1 m x : ℚ) (hd : d0 ≠ d1) (hm : 0 < m) :
    x ∈ ticks d0 d1 m ↔
      (∃ k : Int, x = (k : ℚ) * (tickRange d0 d1 m).2.2) ∧ (extent d0 d1).1 ≤ x ∧ x ≤ (extent d0 d1).2 := by
  have hpos := tickRange_step_pos d0 d1 m hd hm
  rw [ticks_eq d0 d1 m hd hm]
  simp only
  set step := (tickRange d0 d1 m).2.2
  set C := ((extent d0 d1).1 / step).ceil with hC
  set F := ((extent d0 d1).2 / step).floor with hF
  rw [List.mem_map]
  constructor
  · rintro ⟨k, hk, rfl⟩
    rw [List.mem_range] at hk
    refine ⟨⟨C + k, rfl⟩, ?_, ?_⟩
    · have h1 : (extent d0 d1).1 / step ≤ ((C + (k : Int) : Int) : ℚ) := by
        rw [← Rat.ceil_le_iff]; omega
      rwa [div_le_iff₀ hpos] at h1
    · have h1 : ((C + (k : Int) : Int) : ℚ) ≤ (extent d0 d1).2 / step := by
        rw [← Rat.le_floor_iff]; omega
      rwa [le_div_iff₀ hpos] at h1
  · rintro ⟨⟨j, rfl⟩, h1, h2⟩
    rw [← div_le_iff₀ hpos, ← Rat.ceil_le_iff] at h1
    rw [← le_div_iff₀ hpos, ← Rat.le_floor_iff] at h2
    refine ⟨(j - C).toNat, ?_, ?_⟩
    · rw [List.mem_range]; omega
    · have : C + ((j - C).toNat : Int) = j := by omega
      rw [this]

/-- … in increasing order -/
theorem ticks_increasing (d0 d1 m : ℚ) (hd : d0 ≠ d1) (hm : 0 < m) : increasingB (ticks d0 d1 m) = true := by
  have hpos := tickRange_step_pos d0 d1 m hd hm
  rw [ticks_eq d0 d1 m hd hm]
  simp only
  rw [List.range_eq_range']
  apply increasingB_map_range'
  intro k
  push_cast
  nlinarith

/-- their number lies between `0.57·m` rounded down and `1.43·m + 1` -/
theorem tick_count (d0 d1 m : ℚ) (hd : d0 ≠ d1) (hm : 0 < m) :
    (((57 : ℚ) / 100 * m).floor : Int) ≤ ((ticks d0 d1 m).length : Int) ∧
    (((ticks d0 d1 m).length : Nat) : ℚ) ≤ (143 : ℚ) / 100 * m + 1 := by
  have hpos := tickRange_step_pos d0 d1 m hd hm
  have hlt := extent_lt d0 d1 hd
  have hb := tickStep_bounds ((extent d0 d1).2 - (extent d0 d1).1) m (sub_pos.mpr hlt) hm
  rw [← tickRange_step d0 d1 m hd] at hb
  rw [ticks_eq d0 d1 m hd hm]
  simp only [List.length_map, List.length_range]
  set step := (tickRange d0 d1 m).2.2
  set lo := (extent d0 d1).1
  set hi := (extent d0 d1).2
  set C := (lo / step).ceil with hC
  set F := (hi / step).floor with hF
  -- span = S * step
  have hS : hi - lo = (hi / step - lo / step) * step := by field_simp
  set S := hi / step - lo / step with hSdef
  rw [hS] at hb
  have hb1 : (6999 / 10000) * S < m := by
    have : (6999 / 10000 * S) * step < m * step := by linarith [hb.1]
    exact lt_of_mul_lt_mul_right this hpos.le
  have hb2 : m ≤ (7 / 4) * S := by
    have : m * step ≤ (7 / 4 * S) * step := by linarith [hb.2]
    exact le_of_mul_le_mul_right this hpos
  have c1 : lo / step ≤ (C : ℚ) := Rat.le_ceil
  have c2 : (C : ℚ) < lo / step + 1 := Rat.ceil_lt
  have f1 : (F : ℚ) ≤ hi / step := Rat.floor_le _
  have f2 : hi / step - 1 < (F : ℚ) := Rat.lt_floor
  constructor
  · have g := Rat.floor_le ((57 : ℚ) / 100 * m)
    have hn : (((F - C + 1 : Int)) : ℚ) ≤ (((F - C + 1).toNat : Int) : ℚ) := by
      exact_mod_cast Int.self_le_toNat _
    push_cast at hn
    have : ((((57 : ℚ) / 100 * m).floor : Int) : ℚ) < (((F - C + 1).toNat : Int) : ℚ) + 1 := by
      push_cast; linarith
    have : ((57 : ℚ) / 100 * m).floor < ((F - C + 1).toNat : Int) + 1 := by exact_mod_cast this
    omega
  · rcases le_or_gt 0 (F - C + 1) with h | h
    · have : (((F - C + 1).toNat : Int) : ℚ) = ((F - C + 1 : Int) : ℚ) := by
        rw [Int.toNat_of_nonneg h]
      have e : (((F - C + 1).toNat : Nat) : ℚ) = (F : ℚ) - C + 1 := by
        rw [← Int.cast_natCast, this]; push_cast; ring
      rw [e]; linarith
    · have : (F - C + 1).toNat = 0 := by omega
      rw [this]; push_cast; linarith

/-- the label precision makes every tick an exact decimal: `tick · 10^decimals` is an integer, so rounding to that
many decimals is exact and the printed number *is* the tick (distinct ticks therefore get distinct texts) -/
theorem format_exact (d0 d1 m x : ℚ) (hd : d0 ≠ d1) (hm : 0 < m) (hx : x ∈ ticks d0 d1 m) :
    let dec := tickDecimals (tickRange d0 d1 m).2.2
    ((roundHalfEven (x * (10 : ℚ) ^ dec) : Int) : ℚ) / (10 : ℚ) ^ dec = x := by
  intro dec
  have hpos := tickRange_step_pos d0 d1 m hd hm
  have hlt := extent_lt d0 d1 hd
  obtain ⟨⟨j, hj⟩, -, -⟩ := (ticks_mem d0 d1 m x hd hm).mp hx
  obtain ⟨k, hform⟩ := tickStep_form ((extent d0 d1).2 - (extent d0 d1).1) m (sub_pos.mpr hlt) hm
  rw [← tickRange_step d0 d1 m hd] at hform
  have hdec : dec = (-k).toNat := tickDecimals_of_form _ k hform
  obtain ⟨z, hz⟩ := pow10_mul_dec k
  rw [← hdec] at hz
  have h10 : (10 : ℚ) ^ dec ≠ 0 := by positivity
  obtain ⟨w, hw⟩ : ∃ w : Int, x * (10 : ℚ) ^ dec = (w : ℚ) := by
    rcases hform with h | h | h
    · exact ⟨j * z, by rw [hj, h]; push_cast; rw [← hz]; ring⟩
    · exact ⟨j * 2 * z, by rw [hj, h]; push_cast; rw [← hz]; ring⟩
    · exact ⟨j * 5 * z, by rw [hj, h]; push_cast; rw [← hz]; ring⟩
  rw [hw, roundHalfEven_intCast, ← hw]
  field_simp

-- non-vacuity
-- (evaluated: `tickStep 1 10 = 1/10`, `ticks 0 1 2 = [0, 1/2, 1]`, `nice (3/10) (97/10) 10 = (0, 10)`)
example : (0 : ℚ) < 1 ∧ (0 : ℚ) < 10 := by norm_num


/-- the text of a number reads back as the number rounded to `d` decimals (the sign is printed iff the scaled,
rounded integer is negative, so a value that rounds to zero prints as "0.00" and reads back as 0) -/
theorem parseDecimal_formatFixed (x : ℚ) (d : ℕ) : parseDecimal (formatFixed x d) = some (fixedValue d x) := by
  exact Scale.parseDecimal_formatFixed x d

/-- ticks are pairwise distinct -/
theorem ticks_nodup (d0 d1 m : ℚ) (hd : d0 ≠ d1) (hm : 0 < m) : (ticks d0 d1 m).Nodup := by
  have hpos := tickRange_step_pos d0 d1 m hd hm
  rw [ticks_eq d0 d1 m hd hm]
  simp only
  apply List.Nodup.map _ List.nodup_range
  intro a b h
  simp only at h
  have := mul_right_cancel₀ hpos.ne' h
  have h3 := Int.cast_injective this
  omega

/-- **C13, texts:** for a non-degenerate domain and m > 0 the model's tick texts are pairwise distinct and each reads
back as exactly its tick -/
theorem tick_texts_ok (d0 d1 m : ℚ) (hd : d0 ≠ d1) (hm : 0 < m) :
    textsOKB (tickRange d0 d1 m).2.2 (ticks d0 d1 m)
      ((ticks d0 d1 m).map (fun x => formatFixed x (tickDecimals (tickRange d0 d1 m).2.2))) = true := by
  apply textsOKB_map _ (tickRange_step_pos d0 d1 m hd hm).le _ (ticks_nodup d0 d1 m hd hm)
  intro x hx
  rw [Scale.parseDecimal_formatFixed]
  exact congrArg some (format_exact d0 d1 m x hd hm hx)

end Labella.C13
