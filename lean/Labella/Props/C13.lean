import Labella.Model.CalSpec
namespace Labella.C13
open Labella Labella.Scale

theorem placeholder_interp (a b : Rat) : interp a b 0 = a * (1 - 0) + b * 0 := rfl

end Labella.C13
