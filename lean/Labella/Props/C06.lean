import Labella.Proofs.EngineTMulti
import Labella.Model.LayoutSpec
import Labella.Proofs.LayoutSep
import Labella.Proofs.DistributeLemmas
import Labella.Proofs.PermLemmas
import Labella.Proofs.SortEval
import Labella.Model.EngineT
import Labella.Proofs.EngineTLemmas
import Labella.Proofs.EngineTEval
import Labella.Proofs.EngineTMultiEval
/-! # C06 — a layout is a pure function of the labels and options

For every label list (ties, identical positions, labels wider than a layer, 1–2 labels) and every option set. -/
namespace Labella.C06
open Labella Labella.Layout

/-! ### C06 -/

/-- The engine reports exactly the layering it computed, and its result after ANY history of
set-options / set-labels / compute calls is the pure function `compute` of the accumulated options and the current
labels: re-computing changes nothing and a reused engine behaves like a fresh one. -/
theorem engine_is_pure (e : Engine) (ops : List EOp) :
    ((e.run ops).step .compute).layers = some (compute (e.run ops).opts (e.run ops).labels) := by
  simp [Engine.step]

theorem compute_idempotent (e : Engine) :
    ((e.step .compute).step .compute).layers = (e.step .compute).layers := by
  simp [Engine.step]

/-- two stable sorts of permutations of a list whose key-equal elements are equal are the same list -/
theorem sort_canonical (l1 l2 : List LItem) (hp : l1.Perm l2)
    (hint : ∀ a ∈ l1, ∀ b ∈ l1, a.target = b.target → a = b) :
    (sortItems l1.zipIdx).map (·.1) = (sortItems l2.zipIdx).map (·.1) := by
  exact sortItems_canonical l1 l2 hp hint

/-- hence presenting the items of a layer in a different input order (interchangeable ties) gives the same
positions, item for item -/
theorem removeOverlap_perm (o : ROpts) (l1 l2 : List LItem) (hp : l1.Perm l2)
    (hint : ∀ a ∈ l1, ∀ b ∈ l1, a.target = b.target → a = b) :
    (removeOverlap o l1).xs = (removeOverlap o l2).xs ∧ (removeOverlap o l1).pos = (removeOverlap o l2).pos := by
  unfold removeOverlap
  simp only [sortItems_canonical l1 l2 hp hint, and_self]

/-- the same for the label order seen by the layering step -/
theorem sortIds_canonical (l1 l2 : List Label) (hp : l1.Perm l2)
    (hint : ∀ a ∈ l1, ∀ b ∈ l1, a.ideal = b.ideal → a = b) :
    (sortIds l1).map (fun i => l1.getD i ⟨0, 0⟩) = (sortIds l2).map (fun i => l2.getD i ⟨0, 0⟩) := by
  rw [sortIds_getD, sortIds_getD]
  exact sortedLabels_canonical l1 l2 hp hint

/-! ### permutation invariance of the whole multi-layer pipeline -/

/-- what an observer sees of a placed item: the data position and width of the label it belongs to, whether it
is a stub, of which level (0 for a label), and its position -/
def valueOf (labels : List Label) (p : Placed) : Rat × Rat × Bool × Nat × Int :=
  (idealOf labels p.ref.id, widthOf labels p.ref.id, p.ref.isStub,
    (match p.ref with | .stub _ l => l | .label _ => 0), p.pos)

theorem valueOf_eq_obs (labels : List Label) (p : Placed) : valueOf labels p = Placed.obs labels p := by
  rcases p with ⟨r, pos⟩
  cases r <;> rfl

/-- presenting the same labels in a different input order yields, layer by layer and item by item, the same
layout — provided labels that share a data position also share a width (such labels are interchangeable) -/
theorem compute_perm (o : FOpts) (l1 l2 : List Label) (hp : l1.Perm l2)
    (hint : ∀ a ∈ l1, ∀ b ∈ l1, a.ideal = b.ideal → a = b) :
    (compute o l1).map (fun layer => layer.map (valueOf l1))
      = (compute o l2).map (fun layer => layer.map (valueOf l2)) := by
  have e : ∀ l : List Label, valueOf l = Placed.obs l := fun l => funext (valueOf_eq_obs l)
  rw [e l1, e l2]
  exact compute_perm_obs o l1 l2 hp hint

/-- the relabelled form for the layering algorithms (`simple`, `overlap`): the layout of a permuted input IS the
layout of the original with the label indices renamed by a bijection `π` carrying each label to an equal one -/
theorem compute_relabel (o : FOpts) (l1 l2 : List Label) (hp : l1.Perm l2)
    (hint : ∀ a ∈ l1, ∀ b ∈ l1, a.ideal = b.ideal → a = b) (halg : o.algorithm ≠ .none) :
    ∃ π : Nat → Nat, Function.Injective π ∧ (∀ i, l2[π i]? = l1[i]?) ∧
      compute o l2 = (compute o l1).map (List.map (Placed.rename π)) := by
  obtain ⟨π, R, hs⟩ := exists_relabel l1 l2 hp hint
  exact ⟨π, R.inj, R.get, compute_rel R o hs hp.length_eq halg⟩

-- non-vacuity: 6 labels (with a tie), 3 layers, both walls; the input and a permutation of it
def permExOpts : FOpts :=
  { nodeSpacing := 3, lineSpacing := 2, minPos := some 0, maxPos := some 30,
    algorithm := .overlap, density := 3/4, stubWidth := 1 }
def permExL1 : List Label := [⟨5, 8⟩, ⟨5, 8⟩, ⟨9, 6⟩, ⟨10, 7⟩, ⟨20, 9⟩, ⟨22, 5⟩]
def permExL2 : List Label := [⟨22, 5⟩, ⟨5, 8⟩, ⟨10, 7⟩, ⟨20, 9⟩, ⟨5, 8⟩, ⟨9, 6⟩]

/-- (a shortcut: the nested instance search for lists of lists of 5-tuples exceeds the default size limit) -/
local instance valueDecEq : DecidableEq (Rat × Rat × Bool × Nat × Int) := inferInstance

example :
    (compute permExOpts permExL1).map (fun layer => layer.map (valueOf permExL1)) =
      [[(5, 8, true, 0, 0), (5, 8, true, 0, 4), (9, 6, true, 0, 6), (10, 7, false, 0, 14),
        (20, 9, true, 0, 20), (22, 5, false, 0, 26)],
       [(5, 8, true, 1, 0), (5, 8, true, 1, 3), (9, 6, false, 0, 10), (20, 9, false, 0, 20)],
       [(5, 8, false, 0, 4), (5, 8, false, 0, 15)]] ∧
    (compute permExOpts permExL2).map (fun layer => layer.map (valueOf permExL2)) =
      (compute permExOpts permExL1).map (fun layer => layer.map (valueOf permExL1)) ∧
    -- the index-level results differ: the two presentations number the labels differently
    (compute permExOpts permExL1).map (fun layer => layer.map (·.ref)) ≠
      (compute permExOpts permExL2).map (fun layer => layer.map (·.ref)) := by
  -- `List.mergeSort` does not reduce in the kernel: evaluate the equal pipeline `compute'` (stable insertion sort)
  rw [← compute'_eq, ← compute'_eq]
  decide +kernel

local instance labelDecEq : DecidableEq Label := fun a b =>
  decidable_of_iff (a.ideal = b.ideal ∧ a.width = b.width) (by cases a; cases b; simp)

-- the hypotheses of `compute_perm` hold on this instance (the two labels at 5 are interchangeable) …
theorem permEx_hyps : permExL1.Perm permExL2 ∧ ∀ a ∈ permExL1, ∀ b ∈ permExL1, a.ideal = b.ideal → a = b := by decide +kernel

-- … so the theorem applies to it
example : (compute permExOpts permExL1).map (fun layer => layer.map (valueOf permExL1))
    = (compute permExOpts permExL2).map (fun layer => layer.map (valueOf permExL2)) :=
  compute_perm permExOpts permExL1 permExL2 permEx_hyps.1 permEx_hyps.2

-- the tie hypothesis cannot be dropped: two labels at the same data position with different widths keep their
-- input order (the sorts are stable), and an observer sees the difference
example :
    (compute permExOpts [⟨5, 8⟩, ⟨5, 2⟩]).map (fun layer => layer.map (valueOf [⟨5, 8⟩, ⟨5, 2⟩]))
      = [[(5, 8, false, 0, 4), (5, 2, false, 0, 12)]] ∧
    (compute permExOpts [⟨5, 2⟩, ⟨5, 8⟩]).map (fun layer => layer.map (valueOf [⟨5, 2⟩, ⟨5, 8⟩]))
      = [[(5, 2, false, 0, 1), (5, 8, false, 0, 9)]] := by
  rw [← compute'_eq, ← compute'_eq]
  decide +kernel

/-! ### the stateful engine: stale positions, layers and stubs in the node objects do not matter

`Model/EngineT.lean` transliterates the stateful steps of `Force.compute` (shared mutable `Node` objects with `currentPos`,
`layerIndex`, `parent` / `child` links; `removeStub`, `createStub`, in-place sorts) over a node store. -/

/-- what must hold of the store for an engine's node list (it does in every reachable state): the nodes exist, are pairwise distinct and are labels (no `child`).  NOTHING is assumed about their `cur`, `layerIndex`, `parent` fields, nor about the rest of the store (stale stubs of earlier layouts). -/
structure Good (s : EngineT.Store) (nodes : List Nat) : Prop where
  lt : ∀ i ∈ nodes, i < s.size
  nodup : nodes.Nodup
  label : ∀ i ∈ nodes, (EngineT.get s i).child = none

theorem Good.toN {s : EngineT.Store} {nodes : List Nat} (h : Good s nodes) : EngineT.GoodN s nodes :=
  ⟨h.lt, h.nodup, h.label⟩

theorem Good.ofN {s : EngineT.Store} {nodes : List Nat} (h : EngineT.GoodN s nodes) : Good s nodes :=
  ⟨h.lt, h.nodup, h.label⟩

/-- stale state does not matter: for EVERY store in which the engine's nodes are labels — whatever positions, layer numbers and parent links they carry, whatever else the store holds — what `compute` leaves behind (the layers `getLayers()` reports; for every item its data position, width, stub flag, reported layer index, position, payload)
is the pure layout `Layout.compute` of the engine's options and the (data position, width) of its nodes -/
theorem computeT_pure (e : EngineT.Engine) (s : EngineT.Store) (hg : Good s e.nodes) :
    EngineT.observe (EngineT.computeT e s).2 ((EngineT.computeT e s).1.layers.getD []) =
      EngineT.observePure e.opts (EngineT.labelsOf s e.nodes) (e.nodes.map (fun i => (EngineT.get s i).data))
        (Layout.compute e.opts (EngineT.labelsOf s e.nodes)) :=
  EngineT.computeT_observe e s hg.lt hg.nodup hg.label

/-- and the state it leaves is good again, with the same nodes (reordered by a stable sort on the data position only for algorithm `none`) and unchanged data -/
theorem computeT_good (e : EngineT.Engine) (s : EngineT.Store) (hg : Good s e.nodes) :
    Good (EngineT.computeT e s).2 (EngineT.computeT e s).1.nodes ∧
    (EngineT.computeT e s).1.nodes.Perm e.nodes ∧
    (e.opts.algorithm ≠ .none → (EngineT.computeT e s).1.nodes = e.nodes) ∧
    (∀ i ∈ e.nodes, (EngineT.get (EngineT.computeT e s).2 i).ideal = (EngineT.get s i).ideal ∧ (EngineT.get (EngineT.computeT e s).2 i).width = (EngineT.get s i).width ∧ (EngineT.get (EngineT.computeT e s).2 i).data = (EngineT.get s i).data) := by
  have hf := EngineT.computeT_frame e s
  have hn := EngineT.computeT_nodes e s
  refine ⟨Good.ofN (EngineT.computeT_goodN e s hg.toN), hn.1, hn.2, ?_⟩
  intro i hi
  exact ⟨hf.ideal i (hg.lt i hi), hf.width i (hg.lt i hi), hf.data i (hg.lt i hi)⟩

/-- every world reachable by ANY history of operations (new engines, re-configuration, fresh nodes, the same node objects registered again, computes) is good -/
theorem world_good (ops : List EngineT.Op) : Good (EngineT.World.run ops).store (EngineT.World.run ops).engine.nodes :=
  Good.ofN (EngineT.world_goodN ops).1

/-- hence: the compute that follows ANY history yields the pure layout of the current options and the data of the current nodes -/
theorem compute_after_any_history (ops : List EngineT.Op) :
    EngineT.observe (EngineT.computeT (EngineT.World.run ops).engine (EngineT.World.run ops).store).2
        ((EngineT.computeT (EngineT.World.run ops).engine (EngineT.World.run ops).store).1.layers.getD []) =
      EngineT.observePure (EngineT.World.run ops).engine.opts
        (EngineT.labelsOf (EngineT.World.run ops).store (EngineT.World.run ops).engine.nodes)
        ((EngineT.World.run ops).engine.nodes.map (fun i => (EngineT.get (EngineT.World.run ops).store i).data))
        (Layout.compute (EngineT.World.run ops).engine.opts
          (EngineT.labelsOf (EngineT.World.run ops).store (EngineT.World.run ops).engine.nodes)) :=
  computeT_pure _ _ (world_good ops)

-- non-vacuity: a history with two computes; the second runs under different options on node objects that carry the stubs,
-- layer numbers and positions of the first (6 labels with a tie; first layout: `overlap`, 3 layers; second: `simple`, 2 layers)
def staleO1 : FOpts :=
  { nodeSpacing := 3, lineSpacing := 2, minPos := some 0, maxPos := some 30, algorithm := .overlap, density := 3/4, stubWidth := 1 }
def staleO2 : FOpts :=
  { nodeSpacing := 2, lineSpacing := 1, minPos := some 0, maxPos := some 40, algorithm := .simple, density := 3/4, stubWidth := 2 }
def staleLabels : List Label := [⟨5, 8⟩, ⟨5, 8⟩, ⟨9, 6⟩, ⟨10, 7⟩, ⟨20, 9⟩, ⟨22, 5⟩]
def staleOps : List EngineT.Op := [.newEngine staleO1, .freshNodes staleLabels, .compute, .setOptions staleO2]

example :
    -- before the second compute the engine's six nodes carry (parent stub, layer number, position) of the first layout …
    (EngineT.World.run staleOps).engine.nodes.map (fun i =>
        ((EngineT.get (EngineT.World.run staleOps).store i).parent,
          (EngineT.get (EngineT.World.run staleOps).store i).layerIndex,
          (EngineT.get (EngineT.World.run staleOps).store i).cur)) =
      [(some 6, 2, 4), (some 8, 2, 15), (some 10, 1, 10), (none, 0, 14), (some 11, 1, 20), (none, 0, 26)] ∧
    -- … what the second compute reports is what a fresh engine with fresh nodes reports under the second options …
    ((EngineT.World.run (staleOps ++ [.compute])).outs.getLast? ==
      (EngineT.World.run [.newEngine staleO2, .freshNodes staleLabels, .compute]).outs.getLast?) = true ∧
    -- … with new stubs (ids 12–14) next to the six stale ones (ids 6–11) in the store
    (EngineT.World.run (staleOps ++ [.compute])).engine.layers = some [[0, 12, 2, 13, 4, 14], [1, 3, 5]] := by
  -- `List.mergeSort` does not reduce in the kernel: evaluate the equal `World.run'` (stable insertion sort)
  rw [← EngineT.World.run'_eq]
  decide +kernel

-- the theorem applies to that state (no evaluation needed: every reachable world is good)
example :
    EngineT.observe (EngineT.computeT (EngineT.World.run staleOps).engine (EngineT.World.run staleOps).store).2
        ((EngineT.computeT (EngineT.World.run staleOps).engine (EngineT.World.run staleOps).store).1.layers.getD []) =
      EngineT.observePure (EngineT.World.run staleOps).engine.opts
        (EngineT.labelsOf (EngineT.World.run staleOps).store (EngineT.World.run staleOps).engine.nodes)
        ((EngineT.World.run staleOps).engine.nodes.map (fun i => (EngineT.get (EngineT.World.run staleOps).store i).data))
        (Layout.compute (EngineT.World.run staleOps).engine.opts
          (EngineT.labelsOf (EngineT.World.run staleOps).store (EngineT.World.run staleOps).engine.nodes)) :=
  computeT_pure _ _ (world_good staleOps)

/-! ### several engines alive at once (interleaved operations, shared list objects and node objects) -/

/-- every engine of every world reachable by ANY interleaving of operations on ANY number of engines (creation, switching between
them, re-configuration, fresh node lists, list objects registered with a second engine or registered again — in whatever order an
in-place sort by another engine left them and whatever positions, layer numbers and stub links another engine's layout left in the
node objects —, computes) is in a good state -/
theorem mworld_good (ops : List EngineT.MOp) (k : Nat) :
    Good (EngineT.MWorld.run ops).store ((EngineT.MWorld.run ops).engineAt k).nodes :=
  Good.ofN ((EngineT.mworld_inv ops).engine_good k)

/-- hence: a compute of ANY engine after ANY interleaving yields the pure layout of that engine's options and the data of its nodes -/
theorem compute_after_any_interleaving (ops : List EngineT.MOp) (k : Nat) :
    EngineT.observe (EngineT.computeT ((EngineT.MWorld.run ops).engineAt k) (EngineT.MWorld.run ops).store).2
        ((EngineT.computeT ((EngineT.MWorld.run ops).engineAt k) (EngineT.MWorld.run ops).store).1.layers.getD []) =
      EngineT.observePure ((EngineT.MWorld.run ops).engineAt k).opts
        (EngineT.labelsOf (EngineT.MWorld.run ops).store ((EngineT.MWorld.run ops).engineAt k).nodes)
        (((EngineT.MWorld.run ops).engineAt k).nodes.map (fun i => (EngineT.get (EngineT.MWorld.run ops).store i).data))
        (Layout.compute ((EngineT.MWorld.run ops).engineAt k).opts
          (EngineT.labelsOf (EngineT.MWorld.run ops).store ((EngineT.MWorld.run ops).engineAt k).nodes)) :=
  computeT_pure _ _ (mworld_good ops k)

-- non-vacuity: two engines alive at once.  Engine 0 (`overlap`, bounds 0…30) lays out list 0; engine 1 (algorithm `none`) is given
-- the SAME list object, lays it out (which sorts the list object in place and overwrites positions, layer numbers and links of the
-- shared node objects); then engine 0 computes again.
def interOps : List EngineT.MOp :=
  [.newEngine staleO1, .freshNodes permExL2, .compute,
   .newEngine { staleO2 with algorithm := .none }, .useList 0, .compute, .switch 0]

example :
    -- (1) the list object engine 0 holds is no longer in creation order: engine 1's layout (algorithm `none`) sorted it in place …
    (EngineT.MWorld.run interOps).lists = [[1, 4, 5, 2, 3, 0]] ∧
    (EngineT.MWorld.run interOps).created = [[0, 1, 2, 3, 4, 5]] ∧
    (EngineT.MWorld.run interOps).lists.head? ≠ (EngineT.MWorld.run interOps).created.head? ∧
    (EngineT.MWorld.run interOps).cur = 0 ∧
    -- (2) … and before engine 0's second compute its six nodes (in the order its `_nodes` now has) carry (parent, layer number, position) of
    -- engine 1's single-layer layout (bounds 0 … 40, spacing 2), not of engine 0's own first layout (three layers, stubs 6–11) …
    ((EngineT.MWorld.run interOps).engineAt 0).nodes.map (fun i =>
        ((EngineT.get (EngineT.MWorld.run interOps).store i).parent,
          (EngineT.get (EngineT.MWorld.run interOps).store i).layerIndex,
          (EngineT.get (EngineT.MWorld.run interOps).store i).cur)) =
      [(none, 0, -3), (none, 0, 7), (none, 0, 16), (none, 0, 25), (none, 0, 35), (none, 0, 44)] ∧
    -- … which were, after engine 0's first compute, for the nodes in creation order:
    ((EngineT.MWorld.run (interOps.take 3)).engineAt 0).nodes.map (fun i =>
        ((EngineT.get (EngineT.MWorld.run (interOps.take 3)).store i).parent,
          (EngineT.get (EngineT.MWorld.run (interOps.take 3)).store i).layerIndex,
          (EngineT.get (EngineT.MWorld.run (interOps.take 3)).store i).cur)) =
      [(none, 0, 26), (some 6, 2, 4), (none, 0, 14), (some 11, 1, 20), (some 8, 2, 15), (some 10, 1, 10)] ∧
    -- (3) what engine 0's next compute records (payloads reported as positions in the list as created) is what a fresh single engine with
    -- fresh nodes records under `staleO1` on `permExL2` …
    (EngineT.MWorld.run (interOps ++ [.compute])).outs.map (·.1) = [0, 1, 0] ∧
    ((EngineT.MWorld.run (interOps ++ [.compute])).outs.getLast?.map (·.2) ==
      (EngineT.World.run [.newEngine staleO1, .freshNodes permExL2, .compute]).outs.getLast?) = true ∧
    -- … with new stubs (ids 12–17) next to the six stale ones (ids 6–11) in the store
    ((EngineT.MWorld.run (interOps ++ [.compute])).engineAt 0).layers =
      some [[13, 15, 16, 2, 17, 0], [12, 14, 5, 3], [1, 4]] := by
  -- `List.mergeSort` does not reduce in the kernel: evaluate the equal `MWorld.run'` / `World.run'` (stable insertion sort)
  rw [← EngineT.MWorld.run'_eq, ← EngineT.World.run'_eq]
  decide +kernel

-- non-vacuity of `setWidths`: between two computes of one engine the CALLER assigns `node.width = 0` to the first two node objects
-- of list 0; the widths in the store change (nothing else of the history does) and the second compute is recorded as well.
def rewidthOps : List EngineT.MOp :=
  [.newEngine staleO1, .freshNodes permExL2, .compute, .setWidths 0 [0, 0], .compute]

example :
    ((EngineT.MWorld.run (rewidthOps.take 3)).created[0]?.getD []).map
        (fun i => (EngineT.get (EngineT.MWorld.run (rewidthOps.take 3)).store i).width) = permExL2.map (·.width) ∧
    ((EngineT.MWorld.run rewidthOps).created[0]?.getD []).map
        (fun i => (EngineT.get (EngineT.MWorld.run rewidthOps).store i).width) = [0, 0] ++ (permExL2.map (·.width)).drop 2 ∧
    (EngineT.get (EngineT.MWorld.run rewidthOps).store 0).width = 0 ∧
    (EngineT.get (EngineT.MWorld.run rewidthOps).store 1).width = 0 ∧
    (EngineT.MWorld.run rewidthOps).outs.length = 2 ∧
    (EngineT.MWorld.run rewidthOps).outs.map (·.1) = [0, 0] := by
  rw [← EngineT.MWorld.run'_eq]
  decide +kernel

-- the theorem applies to that state (no evaluation needed: every engine of every reachable world is in a good state)
example :
    EngineT.observe (EngineT.computeT ((EngineT.MWorld.run interOps).engineAt 0) (EngineT.MWorld.run interOps).store).2
        ((EngineT.computeT ((EngineT.MWorld.run interOps).engineAt 0) (EngineT.MWorld.run interOps).store).1.layers.getD []) =
      EngineT.observePure ((EngineT.MWorld.run interOps).engineAt 0).opts
        (EngineT.labelsOf (EngineT.MWorld.run interOps).store ((EngineT.MWorld.run interOps).engineAt 0).nodes)
        (((EngineT.MWorld.run interOps).engineAt 0).nodes.map (fun i => (EngineT.get (EngineT.MWorld.run interOps).store i).data))
        (Layout.compute ((EngineT.MWorld.run interOps).engineAt 0).opts
          (EngineT.labelsOf (EngineT.MWorld.run interOps).store ((EngineT.MWorld.run interOps).engineAt 0).nodes)) :=
  compute_after_any_interleaving interOps 0

end Labella.C06
