import Labella.Model.LayoutSpec
import Labella.Proofs.LayoutSep
import Labella.Proofs.DistributeLemmas
/-! # C06 — a layout is a pure function of the labels and options

For every label list (ties, identical positions, labels wider than a layer, 1–2 labels) and every option set. -/
namespace Labella.C06
open Labella Labella.Layout

/-! ### C06 -/

/-- The engine reports exactly the layering it computed, and its result after ANY history of
set-options / set-labels / compute calls is the pure function `compute` of the accumulated options and the current
labels: re-computing changes nothing and a reused engine behaves like a fresh one. -/
theorem engine_is_pure (e : Engine) (ops : List EOp) :
    ((e.run ops).step .compute).layers = some (compute (e.run ops).opts (e.run ops).labels) := by
  simp [Engine.step]

theorem compute_idempotent (e : Engine) :
    ((e.step .compute).step .compute).layers = (e.step .compute).layers := by
  simp [Engine.step]

/-- two stable sorts of permutations of a list whose key-equal elements are equal are the same list -/
theorem sort_canonical (l1 l2 : List LItem) (hp : l1.Perm l2)
    (hint : ∀ a ∈ l1, ∀ b ∈ l1, a.target = b.target → a = b) :
    (sortItems l1.zipIdx).map (·.1) = (sortItems l2.zipIdx).map (·.1) := by
  exact sortItems_canonical l1 l2 hp hint

/-- hence presenting the items of a layer in a different input order (interchangeable ties) gives the same
positions, item for item -/
theorem removeOverlap_perm (o : ROpts) (l1 l2 : List LItem) (hp : l1.Perm l2)
    (hint : ∀ a ∈ l1, ∀ b ∈ l1, a.target = b.target → a = b) :
    (removeOverlap o l1).xs = (removeOverlap o l2).xs ∧ (removeOverlap o l1).pos = (removeOverlap o l2).pos := by
  unfold removeOverlap
  simp only [sortItems_canonical l1 l2 hp hint, and_self]

/-- the same for the label order seen by the layering step -/
theorem sortIds_canonical (l1 l2 : List Label) (hp : l1.Perm l2)
    (hint : ∀ a ∈ l1, ∀ b ∈ l1, a.ideal = b.ideal → a = b) :
    (sortIds l1).map (fun i => l1.getD i ⟨0, 0⟩) = (sortIds l2).map (fun i => l2.getD i ⟨0, 0⟩) := by
  rw [sortIds_getD, sortIds_getD]
  exact sortedLabels_canonical l1 l2 hp hint

end Labella.C06
