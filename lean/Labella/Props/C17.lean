import Labella.Model.CalSpec
import Labella.Proofs.CalendarLemmas
/-! # C17 — calendar intervals round instants correctly

All statements are for EVERY integer instant (milliseconds since 1970-01-01T00:00, negative ones
included), not only the years 1900–2200 that the correspondence check samples. -/
namespace Labella.C17
open Labella Labella.Calendar

/-! ### the civil calendar -/

/-- consecutive years: the day count advances by the year's length -/
theorem daysBeforeYear_succ (y : Int) : daysBeforeYear (y + 1) = daysBeforeYear y + yearLen y := by
  exact Calendar.daysBeforeYear_succ y

/-- `yearOfDay n` is the year whose day range contains `n` -/
theorem yearOfDay_spec (n : Int) :
    daysBeforeYear (yearOfDay n) ≤ n ∧ n < daysBeforeYear (yearOfDay n + 1) := by
  exact Calendar.yearOfDay_spec n

/-- the civil date of a day number is a valid date that denotes that day number -/
theorem civil_valid (n : Int) :
    1 ≤ (civil n).2.1 ∧ (civil n).2.1 ≤ 12 ∧ 1 ≤ (civil n).2.2 ∧ (civil n).2.2 ≤ monthLen (civil n).1 (civil n).2.1 ∧
    dayNumber (civil n).1 (civil n).2.1 (civil n).2.2 = n := by
  exact Calendar.civil_valid n

/-- and conversely every valid date is the civil date of its day number (so `civil` and `dayNumber` are
mutually inverse bijections between day numbers and valid dates) -/
theorem civil_dayNumber (y : Int) (m : Nat) (d : Int) (hm : 1 ≤ m ∧ m ≤ 12) (hd : 1 ≤ d ∧ d ≤ monthLen y m) :
    civil (dayNumber y m d) = (y, m, d) := by
  exact Calendar.civil_dayNumber y m d hm hd

/-! ### floor / ceil / round / offset, for each of the seven units -/

/-- `floor(t)` is the latest boundary of the unit not after `t` -/
theorem floor_is_floor (u : TUnit) (t : Int) : IsFloor u t (floorU u t) := by
  obtain ⟨g, idx, G⟩ := grid_exists u
  exact G.isFloor t

/-- stepping a boundary forward by one unit gives the next boundary -/
theorem step_is_next (u : TUnit) (b : Int) (hb : isBoundary u b = true) : IsNext u b (stepU u b 1) := by
  obtain ⟨g, idx, G⟩ := grid_exists u
  exact G.isNext b hb

/-- stepping a boundary forward by `j` and then by `k` units is stepping by `j + k`: `offset(b, k)` is the
`k`-th boundary after `b` (`k ≥ 0`) -/
theorem step_add (u : TUnit) (b : Int) (hb : isBoundary u b = true) (j k : Nat) :
    stepU u (stepU u b j) k = stepU u b ((j + k : Nat) : Int) := by
  obtain ⟨g, idx, G⟩ := grid_exists u
  exact G.step_add b hb j k

theorem step_zero (u : TUnit) (b : Int) (hb : isBoundary u b = true) : stepU u b 0 = b := by
  obtain ⟨g, idx, G⟩ := grid_exists u
  exact G.step_zero b hb

theorem step_boundary (u : TUnit) (b : Int) (hb : isBoundary u b = true) (k : Nat) :
    isBoundary u (stepU u b k) = true := by
  obtain ⟨g, idx, G⟩ := grid_exists u
  exact G.step_boundary b hb k

/-- `ceil(t)` is the earliest boundary not before `t` -/
theorem ceil_is_ceil (u : TUnit) (t : Int) : IsCeil u t (ceilU u t) := by
  obtain ⟨g, idx, G⟩ := grid_exists u
  exact G.isCeil t

/-- `round(t)` is the nearer of the two neighbouring boundaries `f ≤ t < c`, the later one on a tie -/
theorem round_is_nearest (u : TUnit) (t : Int) :
    let f := floorU u t
    let c := stepU u f 1
    IsFloor u t f ∧ IsNext u f c ∧ t < c ∧ roundU u t = (if t - f < c - t then f else c) := by
  obtain ⟨g, idx, G⟩ := grid_exists u
  exact ⟨G.isFloor t, G.isNext _ (G.isFloor t).1, G.lt_step_floor t, rfl⟩

/-! ### range -/

/-- `range(t0, t1, dt)` lists exactly the boundaries in `[t0, t1)` whose unit number is divisible by `dt`
(all of them when `dt ≤ 1`) … -/
theorem range_mem (u : TUnit) (t0 t1 dt : Int) (x : Int) :
    x ∈ rangeU u t0 t1 dt ↔
      (isBoundary u x = true ∧ t0 ≤ x ∧ x < t1 ∧ (dt ≤ 1 ∨ numberU u x % dt = 0)) := by
  obtain ⟨g, idx, G⟩ := grid_exists u
  exact G.range_mem t0 t1 dt x

/-- … in strictly increasing order (so without repetition) -/
theorem range_increasing (u : TUnit) (t0 t1 dt : Int) : strictlyIncreasingB (rangeU u t0 t1 dt) = true := by
  obtain ⟨g, idx, G⟩ := grid_exists u
  exact G.range_increasing t0 t1 dt

-- non-vacuity: concrete instants
example : floorU .month 1614470400000 = 1612137600000 ∧ isBoundary .month 1612137600000 = true := by decide  -- 2021-02-28 → 2021-02-01
example : stepU .month 1612137600000 1 = 1614556800000 := by decide                                       -- → 2021-03-01
example : rangeU .day 1582761600000 1583107200000 1 = [1582761600000, 1582848000000, 1582934400000, 1583020800000] := by decide +kernel  -- 27 Feb 2020 … 1 Mar 2020 (leap day included)


end Labella.C17
