import Labella.Model.CalSpec
namespace Labella.C17
open Labella Labella.Calendar

theorem placeholder_epoch : civil 0 = (1970, 1, 1) := by decide

end Labella.C17
