import Labella.Model.Scale
import Labella.Proofs.ScaleLemmas
import Mathlib.Algebra.Order.Field.Rat
import Mathlib.Tactic.Ring
import Mathlib.Tactic.Linarith
import Mathlib.Tactic.FieldSimp
/-! # C12 — the linear scale is the affine map through its domain and range end points

Stated over ℚ (exact arithmetic stands for IEEE doubles: "up to floating-point error" in the property text is
the part that lives in the trusted base and is sampled by the correspondence check). -/
namespace Labella.C12
open Labella Labella.Scale

/-- the two domain end points are mapped exactly to the two range end points (clamped or not) -/
theorem endpoints (c : Bool) (a b r0 r1 : ℚ) (h : a ≠ b) :
    apply c a b r0 r1 a = r0 ∧ apply c a b r0 r1 b = r1 := by
  have hba : b - a ≠ 0 := sub_ne_zero.mpr (Ne.symm h)
  have ha : uninterp a b a = 0 := by rw [uninterp_of_ne a b a h]; simp
  have hb : uninterp a b b = 1 := by rw [uninterp_of_ne a b b h]; exact div_self hba
  have c0 : clamp01 0 = 0 := clamp01_of_mem 0 le_rfl zero_le_one
  have c1 : clamp01 1 = 1 := clamp01_of_mem 1 zero_le_one le_rfl
  cases c <;> simp [apply, ha, hb, c0, c1, interp_zero, interp_one]

/-- affine in between and beyond -/
theorem affine (a b r0 r1 x : ℚ) (h : a ≠ b) :
    apply false a b r0 r1 x = r0 + (r1 - r0) * ((x - a) / (b - a)) := by
  exact apply_false_eq a b r0 r1 x h

/-- strictly monotone, increasing iff domain and range are oriented alike -/
theorem strict_mono (a b r0 r1 x y : ℚ) (h : a ≠ b) (hr : r0 ≠ r1) (hxy : x < y) :
    if (a < b ↔ r0 < r1) then apply false a b r0 r1 x < apply false a b r0 r1 y
    else apply false a b r0 r1 y < apply false a b r0 r1 x := by
  rw [apply_false_eq a b r0 r1 x h, apply_false_eq a b r0 r1 y h]
  have key : ∀ {s d : ℚ}, 0 < s → 0 < d → s * ((x - a) / d) < s * ((y - a) / d) := by
    intro s d hs hd
    exact mul_lt_mul_of_pos_left (div_lt_div_of_pos_right (by linarith) hd) hs
  have flip : ∀ z : ℚ, (z - a) / (b - a) = -((z - a) / (a - b)) := by
    intro z; rw [← neg_sub a b, div_neg]
  rcases lt_or_gt_of_ne h with hab | hab <;> rcases lt_or_gt_of_ne hr with hr' | hr'
  · rw [if_pos (by simp [hab, hr'])]
    have := key (sub_pos.mpr hr') (sub_pos.mpr hab); linarith
  · rw [if_neg (by simp [hab, not_lt.mpr hr'.le])]
    have := key (s := r0 - r1) (sub_pos.mpr hr') (sub_pos.mpr hab); linarith
  · rw [if_neg (by simp [hr', not_lt.mpr hab.le])]
    have := key (s := r1 - r0) (d := a - b) (sub_pos.mpr hr') (sub_pos.mpr hab)
    rw [flip x, flip y]; linarith
  · rw [if_pos (by simp [not_lt.mpr hab.le, not_lt.mpr hr'.le])]
    have := key (s := r0 - r1) (d := a - b) (sub_pos.mpr hr') (sub_pos.mpr hab)
    rw [flip x, flip y]; linarith

/-- `invert` is the inverse: `invert(scale(x)) = x` … -/
theorem invert_apply (a b r0 r1 x : ℚ) (h : a ≠ b) (hr : r0 ≠ r1) :
    invert false a b r0 r1 (apply false a b r0 r1 x) = x := by
  have hba : b - a ≠ 0 := sub_ne_zero.mpr (Ne.symm h)
  have hr10 : r1 - r0 ≠ 0 := sub_ne_zero.mpr (Ne.symm hr)
  unfold invert
  rw [apply_false_eq r0 r1 a b _ hr, apply_false_eq a b r0 r1 x h]
  field_simp
  ring

/-- … and `scale(invert(y)) = y` -/
theorem apply_invert (a b r0 r1 y : ℚ) (h : a ≠ b) (hr : r0 ≠ r1) :
    apply false a b r0 r1 (invert false a b r0 r1 y) = y := by
  have hba : b - a ≠ 0 := sub_ne_zero.mpr (Ne.symm h)
  have hr10 : r1 - r0 ≠ 0 := sub_ne_zero.mpr (Ne.symm hr)
  unfold invert
  rw [apply_false_eq a b r0 r1 _ h, apply_false_eq r0 r1 a b y hr]
  field_simp
  ring

/-- with clamping, outputs never leave the range … -/
theorem clamp_in_range (a b r0 r1 x : ℚ) :
    ratMin r0 r1 ≤ apply true a b r0 r1 x ∧ apply true a b r0 r1 x ≤ ratMax r0 r1 := by
  simp only [apply, if_true]
  exact interp_mem r0 r1 _ (clamp01_nonneg _) (clamp01_le_one _)

/-- … and equal the unclamped value inside the domain -/
theorem clamp_eq_inside (a b r0 r1 x : ℚ) (h : a ≠ b) (hx : ratMin a b ≤ x ∧ x ≤ ratMax a b) :
    apply true a b r0 r1 x = apply false a b r0 r1 x := by
  obtain ⟨h0, h1⟩ := uninterp_mem a b x h hx
  simp only [apply, if_true, Bool.false_eq_true, if_false, clamp01_of_mem _ h0 h1]

/-- a degenerate domain maps everything to the start of the range -/
theorem degenerate (c : Bool) (a r0 r1 x : ℚ) : apply c a a r0 r1 x = r0 := by
  have c0 : clamp01 0 = 0 := clamp01_of_mem 0 le_rfl zero_le_one
  cases c <;> simp [apply, uninterp_self, c0, interp_zero]

/-! ### histories of domain / range / clamp / nice / copy calls on a scale and its copies -/

/-- no two live objects share a list cell, and every cell reference is valid -/
def Separated (h : Heap) : Prop :=
  (∀ o ∈ h.objs, o.domCell < h.cells.length ∧ o.rngCell < h.cells.length ∧ o.domCell ≠ o.rngCell) ∧
  (h.objs.map (fun o => [o.domCell, o.rngCell])).flatten.Nodup

/-- bridge to the identical definition used by the helper lemmas in `Labella/Proofs/ScaleLemmas.lean` -/
theorem separated_iff_sep (h : Heap) : Separated h ↔ Sep h := Iff.rfl

/-- after ANY sequence of calls every scale maps with exactly the end points it reports -/
theorem cache_coherent (ops : List Op) : coherentB (run false ops) = true := by
  exact (HInv.run ops).coherent

/-- objects stay separated (this is what the repaired `copy()` guarantees) -/
theorem separated (ops : List Op) : Separated (run false ops) := by
  exact (separated_iff_sep _).mpr (HInv.run ops).separated

/-- the target object of an operation -/
def Op.target : Op → Nat
  | .domain i _ _ => i | .range i _ _ => i | .clamp i _ => i | .nice i _ => i | .inplace i _ _ => i | .copy i => i

/-- a copy and its original (indeed any two distinct objects) never influence each other: an operation on
object `i` leaves what every other existing object reports unchanged, and existing objects are never removed -/
theorem others_unaffected (ops : List Op) (op : Op) (j : Nat) (hj : j < (run false ops).objs.length)
    (hne : j ≠ Op.target op) :
    ∃ o o', (run false ops).objs[j]? = some o ∧ (stepOp false (run false ops) op).objs[j]? = some o' ∧
      reported (stepOp false (run false ops) op) o' = reported (run false ops) o := by
  have hI := HInv.run ops
  have htgt : Op.target op = Op.tgt op := by cases op <;> rfl
  obtain ⟨o, ho⟩ : ∃ o, (run false ops).objs[j]? = some o := ⟨_, List.getElem?_eq_getElem hj⟩
  have hf := (step_spec (run false ops) op hI).2 j o (by rw [← htgt]; exact hne) ho
  exact ⟨o, o, ho, hf.1, hf.2⟩

/-- a fresh copy reports what its original reports -/
theorem copy_reports_same (ops : List Op) (i : Nat) (o : SObj) (hi : (run false ops).objs[i]? = some o) :
    ∃ o', (stepOp false (run false ops) (.copy i)).objs.getLast? = some o' ∧
      reported (stepOp false (run false ops) (.copy i)) o' = reported (run false ops) o := by
  exact copy_last (run false ops) i o hi

/-- the pre-repair behaviour (copy shares the two lists) violates coherence: after `c = s.copy(); c.<nice>` the
original reports a domain it does not map -/
theorem legacy_copy_counterexample :
    coherentB (run true [.domain 0 (3/10) (97/10), .copy 0, .inplace 1 0 10]) = false := by
  decide +kernel

-- non-vacuity
example : apply false 2 4 10 20 3 = 15 ∧ invert false 2 4 10 20 15 = 3 := by
  constructor <;> norm_num [apply, invert, interp, uninterp]

end Labella.C12
