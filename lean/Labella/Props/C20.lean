import Labella.Model.Text
import Labella.Proofs.TextName
import Mathlib.Tactic.Ring
import Mathlib.Tactic.Linarith
/-! # C20 — per-label TeX names are unique and colour conversions agree

Property theorems only. -/
namespace Labella.C20
open Labella Labella.Text

/-- names are non-empty and consist of the letters A–Z only -/
theorem int2name_letters (i : Nat) : int2name i ≠ [] ∧ ∀ c ∈ int2name i, isUpperAZ c = true := by
  exact ⟨int2name_ne_nil i, int2name_upper i⟩

/-- reading a name back (bijective base-26 value, minus one) gives the index -/
theorem name2int_int2name (i : Nat) : name2int (int2name i) = i := by
  unfold name2int
  rw [nameValue_int2name]
  rfl

/-- different indices get different names — for every natural number, not only up to 10⁶ -/
theorem int2name_injective (i j : Nat) (h : int2name i = int2name j) : i = j := by
  have := congrArg name2int h
  rwa [name2int_int2name, name2int_int2name] at this

/-- every non-empty string over A–Z is the name of exactly its value: names enumerate all of them -/
theorem int2name_name2int (l : List Nat) (hne : l ≠ []) (h : ∀ c ∈ l, isUpperAZ c = true) :
    int2name (name2int l) = l := by
  have hpos : 0 < nameFold 0 l := nameFold_pos l hne 0
  unfold name2int int2name
  rw [nameValue_eq, Nat.sub_add_cancel hpos, nameLoop_nameFold l h _ _ (Nat.le_refl _)]
  simp

/-- and they do so in length-then-alphabetical order -/
theorem int2name_shortlex (i j : Nat) (h : i < j) : shortlexLt (int2name i) (int2name j) = true := by
  apply shortlexLt_of_nameValue_lt _ _ (int2name_upper i) (int2name_upper j)
  rw [nameValue_int2name, nameValue_int2name]
  omega

/-! ### colours -/

/-- a hex digit, either case -/
def IsHex (c : Char) : Prop := (hexVal c).isSome = true

/-- the value of a hex digit character -/
def hv (c : Char) : Nat := (hexVal c).getD 0

/-- six-digit codes, with or without `#`: the RGB triple is the three digit pairs, each below 256 -/
theorem hex2rgb_six (a b c d e f : Char) (ha : IsHex a) (hb : IsHex b) (hc : IsHex c) (hd : IsHex d)
    (he : IsHex e) (hf : IsHex f) (hash : Bool) :
    hex2rgb ((if hash then ['#'] else []) ++ [a, b, c, d, e, f])
      = some (16 * hv a + hv b, 16 * hv c + hv d, 16 * hv e + hv f)
    ∧ 16 * hv a + hv b < 256 ∧ 16 * hv c + hv d < 256 ∧ 16 * hv e + hv f < 256 := by
  refine ⟨?_, ?_, ?_, ?_⟩
  · rw [hex2rgb_opt hash a _ ha, hex2rgb_six_eq _ _ _ _ _ _ ha, hexPair_eq a b ha hb,
      hexPair_eq c d hc hd, hexPair_eq e f he hf]
    rfl
  · have := (hexOK a ha).1; have := (hexOK b hb).1; unfold hv; omega
  · have := (hexOK c hc).1; have := (hexOK d hd).1; unfold hv; omega
  · have := (hexOK e he).1; have := (hexOK f hf).1; unfold hv; omega

/-- three-digit codes are expanded by doubling each digit -/
theorem hex2rgb_three (a b c : Char) (ha : IsHex a) (hb : IsHex b) (hc : IsHex c) (hash : Bool) :
    hex2rgb ((if hash then ['#'] else []) ++ [a, b, c])
      = hex2rgb [a, a, b, b, c, c] := by
  rw [hex2rgb_opt hash a _ ha, hex2rgb_three_eq _ _ _ ha, hex2rgb_six_eq _ _ _ _ _ _ ha,
    hexPair_eq a a ha ha, hexPair_eq b b hb hb, hexPair_eq c c hc hc]

/-- the TeX code is six upper-case hex digits … -/
theorem hex2html_shape (code : List Char) (hash : Bool)
    (hlen : code.length = 3 ∨ code.length = 6) (hhex : ∀ c ∈ code, IsHex c) :
    (hex2html ((if hash then ['#'] else []) ++ code)).length = 6 ∧
    ∀ c ∈ hex2html ((if hash then ['#'] else []) ++ code),
      (('0' ≤ c ∧ c ≤ '9') ∨ ('A' ≤ c ∧ c ≤ 'F')) := by
  rcases length_three_or_six code hlen with ⟨a, b, c, rfl⟩ | ⟨a, b, c, d, e, f, rfl⟩
  · rw [hex2html_three hash a b c (hhex a (by simp))]
    refine ⟨rfl, upperHex_range _ ?_⟩
    intro x hx
    simp only [List.mem_cons, List.not_mem_nil, or_false] at hx
    rcases hx with rfl | rfl | rfl | rfl | rfl | rfl <;> exact hhex _ (by simp)
  · rw [hex2html_six hash a b c d e f (hhex a (by simp))]
    exact ⟨rfl, upperHex_range _ hhex⟩

/-- … denoting the same colour as the RGB triple used for SVG -/
theorem hex2html_same_colour (code : List Char) (hash : Bool)
    (hlen : code.length = 3 ∨ code.length = 6) (hhex : ∀ c ∈ code, IsHex c) :
    hex2rgb (hex2html ((if hash then ['#'] else []) ++ code))
      = hex2rgb ((if hash then ['#'] else []) ++ code) := by
  rcases length_three_or_six code hlen with ⟨a, b, c, rfl⟩ | ⟨a, b, c, d, e, f, rfl⟩
  · have ha := hhex a (by simp)
    have hb := hhex b (by simp)
    have hc := hhex c (by simp)
    rw [hex2html_three hash a b c ha, hex2rgb_upper _ _ _ _ _ _ ha ha hb hb hc hc]
    exact (hex2rgb_three a b c ha hb hc hash).symm
  · have ha := hhex a (by simp)
    rw [hex2html_six hash a b c d e f ha, hex2rgb_opt hash a _ ha]
    exact hex2rgb_upper _ _ _ _ _ _ ha (hhex b (by simp)) (hhex c (by simp)) (hhex d (by simp))
      (hhex e (by simp)) (hhex f (by simp))

/-- the SVG string is `rgb(r, g, b)` with the decimal renderings of that same triple -/
theorem hex2rgbstr_spec (code : List Char) (r g b : Nat) (h : hex2rgb code = some (r, g, b)) :
    hex2rgbstr code = some ("rgb(".toList ++ natDigits r ++ ", ".toList ++ natDigits g ++ ", ".toList ++ natDigits b ++ ")".toList) := by
  simp [hex2rgbstr, h]

/-- decimal rendering reads back as the number -/
theorem natDigits_readback (n : Nat) : (String.ofList (natDigits n)).toNat? = some n := by
  exact natDigits_toNat n

-- the hypotheses are satisfiable by non-trivial inputs
example : int2name 701 = [90, 90] ∧ int2name 702 = [65, 65, 65] := by decide
example : IsHex 'a' ∧ IsHex 'F' ∧ IsHex '7' := by unfold IsHex; decide
example : hex2rgb "#1f77B4".toList = some (31, 119, 180) := by decide

end Labella.C20
