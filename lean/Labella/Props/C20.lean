import Labella.Model.Text
namespace Labella.C20
open Labella Labella.Text

theorem placeholder_name0 : int2name 0 = [65] := by decide

end Labella.C20
