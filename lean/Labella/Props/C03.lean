import Labella.Proofs.LayoutSep
import Labella.Model.LayoutSpec
import Labella.Props.C01
/-! # C03 — position bounds are honoured whenever the items fit; otherwise the excess spills -/
namespace Labella.C03
open Labella Labella.Chain Labella.Layout

/-- **If they do not fit, separation is still kept in full**: the separation theorem has no hypothesis about
fitting — whatever the bounds, neighbours keep their gaps up to eps (so the excess can only go beyond the
bounds, never into overlap). -/
theorem separation_kept_regardless_of_bounds (o : ROpts) (its : List LItem)
    (hs : its.Pairwise (fun a b => a.target ≤ b.target)) :
    sepAdjB o Layout.eps (its.zip (solveSorted o its)) = true :=
  sep_unrounded' o its hs

/-- **If they fit, the walls stay at the bounds** up to `sqrt(K / W)`: whenever some placement `zs` of the items
keeps all gaps inside `[lo, hi]`, `W·(x_L − lo)² + W·(x_R − hi)² ≤ K := Σ (zᵢ − tᵢ)²` (W = 1e10). -/
theorem walls_near_bounds (its : List LItem) (lo hi : ℚ) (ns ls : ℚ) (h : its ≠ [])
    (zs : List ℚ) (hz : zs.length = its.length)
    (hfeas : SepBy 0 (chainGaps ⟨some lo, some hi, ns, ls⟩ its) (lo :: zs ++ [hi])) :
    let o : ROpts := ⟨some lo, some hi, ns, ls⟩
    let all := solve Layout.eps (chainVars o its) (chainGaps o its)
    Gen.wallWeight * (all.headD 0 - lo) * (all.headD 0 - lo)
      + Gen.wallWeight * (all.getLastD 0 - hi) * (all.getLastD 0 - hi)
      ≤ cost (its.map toVar) zs := by
  intro o all
  exact walls_near_bounds' its lo hi ns ls h zs hz hfeas

/-- the bounds are stiff: the wall weight extracted from the source is at least the 10¹⁰ the property's "inside the
bounds to within 0.5 rounding" presupposes (the predicates evaluated on the implementation use 10¹⁰ as a fixed reference) -/
theorem wall_weight_large : refWallWeight ≤ Gen.wallWeight := by
  unfold refWallWeight Gen.wallWeight; norm_num

/-- the first (last) item is a hard half-width away from its wall, like every other gap of the chain -/
theorem wall_gaps_kept (o : ROpts) (its : List LItem) :
    SepBy Layout.eps (chainGaps o its) (solve Layout.eps (chainVars o its) (chainGaps o its)) :=
  solve_feasible' Layout.eps eps_nonneg' _ _ (chainVars_pos o its)

-- non-vacuity: two labels that fit between 0 and 20 lie inside; walls stay (almost) put
example : solve Layout.eps (chainVars ⟨some 0, some 20, 3, 2⟩ [⟨5, 4, false⟩, ⟨6, 4, false⟩])
    (chainGaps ⟨some 0, some 20, 3, 2⟩ [⟨5, 4, false⟩, ⟨6, 4, false⟩]) = [0, 2, 9, 20] := by decide +kernel


/-! ### end to end -/
open Labella.C01 (layerView solvedItems) in
/-- **C03 end to end** (proved in `Props/C01.lean`): in every layer whose items fit between the bounds every item lies inside the bounds up to the
wall-stiffness bound `d` (`Σ (zᵢ − tᵢ)² ≤ W·d²`), the accumulated solver tolerance and the rounding 1/2; and in every layer, fitting or not, the separation
holds in full (the excess spills over the bounds instead of being absorbed as overlap) -/
theorem layout_inside_end_to_end (o : FOpts) (labels : List Label) (j : Nat)
    (hw : ∀ l ∈ labels, 0 ≤ l.width) (hsw : 0 ≤ o.stubWidth) (hns : 0 ≤ o.nodeSpacing) (hls : 0 ≤ o.lineSpacing)
    (zs : List ℚ) (hz : zs.length = (solvedItems o labels j).length)
    (hfeas : SepBy 0 (chainGaps o.toR (solvedItems o labels j))
      ((leftWall o.toR).map (·.t) ++ zs ++ (rightWall o.toR).map (·.t)))
    (d : ℚ) (hd : 0 ≤ d) (hK : cost ((solvedItems o labels j).map toVar) zs ≤ Gen.wallWeight * d * d) :
    insideB o.toR (d + ((solvedItems o labels j).length : ℚ) * Layout.eps + 1 / 2)
        (layerView o labels (compute o labels) j) = true ∧
      sepAdjB o.toR (1 + Layout.eps) (layerView o labels (compute o labels) j) = true :=
  C01.compute_inside o labels j hw hsw hns hls zs hz hfeas d hd hK

open Labella.C01 (layerView solvedItems) in
/-- "the items fit" (widths plus spacings ≤ maxPos − minPos) is exactly the hypothesis of `layout_inside_end_to_end` -/
theorem fits_iff_feasible (o : FOpts) (labels : List Label) (j : Nat) (h : solvedItems o labels j ≠ []) :
    fitsB o.toR (solvedItems o labels j) = true ↔
      ∃ zs : List ℚ, zs.length = (solvedItems o labels j).length ∧
        SepBy 0 (chainGaps o.toR (solvedItems o labels j))
          ((leftWall o.toR).map (·.t) ++ zs ++ (rightWall o.toR).map (·.t)) :=
  C01.fits_iff_feasible o labels j h

end Labella.C03
