import Labella.Proofs.ChainOpt
/-! # C03 — bounds honoured when the items fit, otherwise the excess spills -/
namespace Labella.C03
open Labella Labella.Chain

/-- Walls are ordinary chain variables: whatever their weight and whether or not the items fit, the loop
ends with every neighbour constraint satisfied up to `eps` (separation is never traded for the bounds). -/
theorem separation_kept_with_walls (eps : ℚ) (bs : List Block) :
    ∀ s ∈ slacks (satisfy eps bs.length bs), -eps ≤ s :=
  satisfy_feasible eps bs.length bs (by omega)

end Labella.C03
