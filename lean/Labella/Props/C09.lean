import Labella.Props.C07
import Labella.Props.C19
import Labella.Props.C20
/-! # C09 — the SVG and TikZ back-ends draw the same picture

Both back-ends print the geometry of ONE layout (same nodes, same `nodePos`, same path generator); they differ
only in how numbers are printed.  The theorems bound those differences; the correspondence check parses the two real
documents and compares them field by field. -/
namespace Labella.C09
open Labella Labella.Render

/-- `"%f"` (TikZ dots) and `"%.8f"` (link points, both back-ends) are within half a unit of the last printed decimal of
the number: a dot printed in full by SVG and with six decimals by TikZ differs by at most 5·10⁻⁷ -/
theorem fixed_close (d : Nat) (x : ℚ) : |fixedValue d x - x| ≤ 1 / (2 * (10 : ℚ) ^ d) := by
  have hp : (0 : ℚ) < (10 : ℚ) ^ d := by positivity
  have h := round_close' (x * (10 : ℚ) ^ d)
  unfold fixedValue
  have e : ((roundHalfEven (x * (10 : ℚ) ^ d) : Int) : ℚ) / (10 : ℚ) ^ d - x
      = (((roundHalfEven (x * (10 : ℚ) ^ d) : Int) : ℚ) - x * (10 : ℚ) ^ d) / (10 : ℚ) ^ d := by
    field_simp
  rw [e, abs_div, abs_of_pos hp, div_le_div_iff₀ hp (by positivity)]
  calc |((roundHalfEven (x * (10 : ℚ) ^ d) : Int) : ℚ) - x * (10 : ℚ) ^ d| * (2 * (10 : ℚ) ^ d)
      ≤ (1 / 2) * (2 * (10 : ℚ) ^ d) := by
        apply mul_le_mul_of_nonneg_right h (by positivity)
    _ = 1 * (10 : ℚ) ^ d := by ring

/-- box and tick origins printed with `"%i"` are within 1 unit of the number printed in full -/
theorem truncated_within_one (x : ℚ) : |((truncToZero x : Int) : ℚ) - x| < 1 := C07.trunc_close x

/-- both back-ends truncate the same box origin: the printed origins are equal, the printed size is the node's -/
theorem same_box (o : ROpt) (n : RNode) :
    (modelBox o n).ox = (boxOrigin o n).1 ∧ (modelBox o n).oy = (boxOrigin o n).2 ∧
    (modelBox o n).w = n.w ∧ (modelBox o n).h = n.h := ⟨rfl, rfl, rfl, rfl⟩

/-- per-datum colours: the `rgb(r, g, b)` string of the SVG and the 6-digit code of the TeX colour definition denote
the same triple (C20) -/
theorem same_colour (code : List Char) (hash : Bool)
    (hlen : code.length = 3 ∨ code.length = 6) (hhex : ∀ c ∈ code, C20.IsHex c) :
    Text.hex2rgb (Text.hex2html ((if hash then ['#'] else []) ++ code))
      = Text.hex2rgb ((if hash then ['#'] else []) ++ code) :=
  C20.hex2html_same_colour code hash hlen hhex

/-- label texts: the TeX text reads back as the SVG text up to canonical decomposition of the converted characters (C19) -/
theorem same_text (db : Text.UDB) (s : List Nat) :
    (Text.uni2texToks db s).flatMap Text.readBack = s.flatMap (Text.oneStep db) :=
  C19.readBack_eq_oneStep db s

/-- per-label macro names never collide (C20), so every label keeps its own colour and text -/
theorem distinct_names (i j : Nat) (h : Text.int2name i = Text.int2name j) : i = j :=
  C20.int2name_injective i j h

example : fixedValue 6 (1 / 3) = 333333 / 1000000 := by decide +kernel

end Labella.C09
