import Labella.Model.Render
namespace Labella.C09
open Labella Labella.Render

theorem placeholder_gap (o : ROpt) : gapOf o = o.layerGap + o.nodeHeight := rfl

end Labella.C09
