import Labella.Model.Text
import Labella.Proofs.TextTex
/-! # C19 — label text reaches TeX intact: accents become TeX accents, nothing else changes

Property theorems only.  `db` (the Unicode database as far as `uni2tex` consults it) is universally
quantified: the statements hold for every database, in particular for the running interpreter's. -/
namespace Labella.C19
open Labella Labella.Text

/-- a piece of the output is a (possibly nested) accent command over a plain character, and every command
is one of the accents of the table -/
def WellFormed : Tok → Prop
  | .plain _ => True
  | .accent m t => isAccent m = true ∧ WellFormed t

/-- the innermost character of a piece -/
def base : Tok → Nat
  | .plain c => c
  | .accent _ t => base t

theorem wellFormed_iff_wf (t : Tok) : WellFormed t ↔ Text.WF t := by
  induction t with
  | plain c => simp [WellFormed, Text.WF]
  | accent m t ih => simp [WellFormed, Text.WF, ih]

/-- conversion is defined for every string and every database (the model is a total function; the
implementation's exceptions are covered by the correspondence), and only ever produces accent
commands from the table -/
theorem only_accent_commands (db : UDB) (s : List Nat) : ∀ t ∈ uni2texToks db s, WellFormed t := by
  intro t ht
  exact (wellFormed_iff_wf t).2 (uni2texToks_wf db s t ht)

/-- Reading every accent command back as "base followed by combining mark" reproduces the input, with each
converted precomposed character replaced by its canonical pair (base, mark) — i.e. the input up to
canonical equivalence, by the definition of canonical decomposition. -/
theorem readBack_eq_oneStep (db : UDB) (s : List Nat) :
    (uni2texToks db s).flatMap readBack = s.flatMap (oneStep db) := by
  have := foldl_step_readBack db s []
  simpa [uni2texToks] using this

/-- characters that have no two-element canonical decomposition and are not accent marks are copied -/
theorem untouched (db : UDB) (s : List Nat)
    (h : ∀ c ∈ s, db.decomp c = none ∧ isAccent c = false) : uni2tex db s = s := by
  unfold uni2tex uni2texToks
  rw [foldl_step_untouched db s [] h]
  simp [flatMap_render_plain]

/-- no accent mark of the table is an ASCII character … -/
theorem accents_not_ascii (c : Nat) (h : c < 128) : isAccent c = false := by
  exact isAccent_lt_false (by omega)

/-- … hence ASCII text (including TeX specials) is left untouched, for every database in which ASCII
characters have no decomposition (true of Unicode) -/
theorem ascii_untouched (db : UDB) (s : List Nat) (h : ∀ c ∈ s, c < 128)
    (hdb : ∀ c, c < 128 → db.decomp c = none) : uni2tex db s = s :=
  untouched db s (fun c hc => ⟨hdb c (h c hc), accents_not_ascii c (h c hc)⟩)

/-- the number of pieces never exceeds the number of input characters, and each input character that is
neither converted nor a mark yields exactly itself: the output differs from the input only inside accent
commands -/
theorem plain_pieces_are_input_chars (db : UDB) (s : List Nat) :
    ∀ t ∈ uni2texToks db s, ∀ c, t = Tok.plain c → c ∈ s := by
  intro t ht c hc
  subst hc
  unfold uni2texToks at ht
  rw [List.mem_reverse] at ht
  rcases foldl_step_plain db s [] c ht with h | h
  · exact h
  · simp at h

/-- String-level read-back: parsing `\a{…}` commands out of the rendered text gives the same result as the
token-level read-back, provided no character of the (decomposed) input is a backslash or a brace (TeX
specials pass through by design, so on such inputs the rendered string is not uniquely parseable and
only the token-level statement `readBack_eq_oneStep` is claimed). -/
theorem parseBack_render (db : UDB) (s : List Nat)
    (h : ∀ c ∈ s.flatMap (oneStep db), c ≠ 92 ∧ c ≠ 123 ∧ c ≠ 125) :
    parseBack (uni2tex db s) = s.flatMap (oneStep db) := by
  have hrb := readBack_eq_oneStep db s
  have hp : ∀ t ∈ uni2texToks db s, Parseable t := by
    intro t ht
    refine ⟨uni2texToks_wf db s t ht, fun c hc => ?_⟩
    have hmem : c ∈ s.flatMap (oneStep db) := by
      rw [← hrb]; exact List.mem_flatMap.2 ⟨t, ht, hc⟩
    exact ⟨(h c hmem).1, (h c hmem).2.2⟩
  have hparse : parsePieces ((uni2tex db s).length + 1) (uni2tex db s)
      = ((uni2texToks db s).flatMap readBack, []) := by
    have := parsePieces_render ((uni2tex db s).length + 1) (uni2texToks db s) [] hp (Or.inl rfl)
      (by simp [uni2tex])
    simpa [uni2tex] using this
  unfold parseBack
  rw [hparse]
  simpa using hrb

-- non-vacuity: a database with é = e + U+0301 and the mark itself
def demoDb : UDB := { isMark := fun c => c == 769, decomp := fun c => if c == 233 then some (101, 769) else none }
example : uni2tex demoDb [233, 97, 769] = [92, 39, 123, 101, 125, 92, 39, 123, 97, 125] := by decide
example : (uni2texToks demoDb [233, 97, 769]).flatMap readBack = [101, 769, 97, 769] := by decide

end Labella.C19
