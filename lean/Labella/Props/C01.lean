import Labella.Proofs.ChainOpt
/-! # C01 — items sharing a layer never overlap and keep the order of their targets

Property theorems only; helper lemmas live in `Labella/Proofs`. -/
namespace Labella.C01
open Labella Labella.Chain

/-- The merge loop of the solver, run with one unit of fuel per block, ends in a state in which no
constraint between neighbouring blocks is violated by more than `eps` — for every chain instance,
every tolerance, bounds present or not (walls are just two more chain variables). -/
theorem chain_satisfy_feasible (eps : ℚ) (bs : List Block) :
    ∀ s ∈ slacks (satisfy eps bs.length bs), -eps ≤ s :=
  satisfy_feasible eps bs.length bs (by omega)

/-- the loop never reorders or loses an item: the blocks always concatenate to the input chain -/
theorem chain_satisfy_keeps_order (eps : ℚ) (fuel : ℕ) (bs : List Block) :
    (satisfy eps fuel bs).flatten = bs.flatten :=
  satisfy_flatten eps fuel bs

example : ∃ bs : List Block, bs.length = 3 ∧ (satisfy (0:ℚ) 3 bs).length = 2 :=
  ⟨[[⟨1, 0⟩], [⟨1, -1⟩], [⟨1, 5⟩]], by decide +kernel⟩

end Labella.C01
