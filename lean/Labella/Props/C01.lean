import Labella.Proofs.LayoutSep
import Labella.Model.LayoutSpec
/-! # C01 — items sharing a layer never overlap and keep the order of their targets

Property theorems only; helper lemmas live in `Labella/Proofs`.  All statements are for every layer
(any number of items, any widths and targets, ties included), every option set — bounds present, absent
or infeasible alike, because the walls are just two more variables of the chain. -/
namespace Labella.C01
open Labella Labella.Chain Labella.Layout

/-! ### constants the statements depend on (re-proved whenever `Gen/Constants.lean` is regenerated) -/

/-- the solver's merge threshold `ZERO_UPPERBOUND` is non-positive (`eps = −ZERO_UPPERBOUND ≥ 0`) -/
theorem eps_nonneg : 0 ≤ Layout.eps := eps_nonneg'

/-- the wall weight is positive -/
theorem wallWeight_pos : 0 < Gen.wallWeight := wallWeight_pos'

/-- gaps are `(w₁ + w₂) / 2 + spacing` -/
theorem halfDivisor_eq : Gen.halfDivisor = 2 := halfDivisor_eq'

/-! ### the chain solver -/

theorem solve_length (eps : ℚ) (vars : List Item) (gaps : List ℚ) (hlen : gaps.length + 1 = vars.length) :
    (solve eps vars gaps).length = vars.length :=
  solve_length' eps vars gaps hlen

/-- Every gap is kept up to `eps`, for every chain instance with positive weights — whether or not the
items fit between the walls.  (`0 ≤ eps` is necessary: see `solve_feasible_needs_eps_nonneg`.) -/
theorem solve_feasible (eps : ℚ) (heps : 0 ≤ eps) (vars : List Item) (gaps : List ℚ)
    (hw : ∀ v ∈ vars, 0 < v.w) :
    SepBy eps gaps (solve eps vars gaps) :=
  solve_feasible' eps heps vars gaps hw

/-- with a negative tolerance the statement is false (two pooled items sit exactly `gap` apart) -/
theorem solve_feasible_needs_eps_nonneg (eps : ℚ) (h : eps < 0) :
    ¬ SepBy eps [0] (solve eps [⟨1, 0⟩, ⟨1, 0⟩] [0]) := by
  have h1 : (0 : ℚ) < -eps := by linarith
  have : solve eps [⟨1, 0⟩, ⟨1, 0⟩] [0] = [0, 0] := by
    simp [solve, prefixSums, satisfy, slacks, argmin, mergeAt, expand, Block.mean, Block.sumW,
      Block.sumWT, h1]
  rw [this]
  simp only [SepBy]
  intro hc
  linarith [hc.1]

/-! ### rounding -/

/-- Python's `round` moves a position by at most one half -/
theorem round_close (x : ℚ) : |((roundHalfEven x : Int) : ℚ) - x| ≤ 1 / 2 :=
  round_close' x

/-! ### removeOverlap -/

/-- the list is handed back sorted by target (stable sort) … -/
theorem sort_sorted (items : List (LItem × Nat)) :
    (sortItems items).Pairwise (fun a b => a.1.target ≤ b.1.target) :=
  sort_sorted' items

/-- … as a permutation of the input: no item is lost or duplicated -/
theorem sort_perm (items : List (LItem × Nat)) : (sortItems items).Perm items :=
  sort_perm' items

theorem solveSorted_length (o : ROpts) (its : List LItem) (h : its ≠ []) :
    (solveSorted o its).length = its.length :=
  solveSorted_length' o its h

/-- C01 on the solver's own (unrounded) positions: target order kept, every neighbour gap kept up to eps -/
theorem sep_unrounded (o : ROpts) (its : List LItem)
    (hs : its.Pairwise (fun a b => a.target ≤ b.target)) :
    sepAdjB o Layout.eps (its.zip (solveSorted o its)) = true :=
  sep_unrounded' o its hs

/-- C01 on the reported (rounded) positions: at most 1 unit is lost to rounding -/
theorem sep_rounded (o : ROpts) (its : List LItem)
    (hs : its.Pairwise (fun a b => a.target ≤ b.target)) :
    sepAdjB o (1 + Layout.eps)
      (its.zip ((solveSorted o its).map (fun x => ((roundHalfEven x : Int) : ℚ)))) = true :=
  sep_rounded' o its hs

/-- **C01 (neighbours)** stated of `removeOverlap` itself on an arbitrary, unsorted layer: the reported order
is the stable target order, reported positions are the rounded solver positions, and neighbouring centres
are at least `(w₁+w₂)/2 + spacing − 1 − eps` apart (spacing = line spacing iff both are stubs). -/
theorem removeOverlap_sep (o : ROpts) (items : List LItem) :
    let sorted := sortItems items.zipIdx
    let out := removeOverlap o items
    out.order = sorted.map (·.2) ∧ out.pos = out.xs.map roundHalfEven ∧
    sepAdjB o (1 + Layout.eps) ((sorted.map (·.1)).zip (out.pos.map (fun (p : Int) => (p : ℚ)))) = true := by
  intro sorted out
  exact ⟨rfl, rfl, removeOverlap_sepAdj o items⟩

/-- **C01 (any two items)**: if neighbours keep their gaps up to `tol`, items `i < j` keep the gap the pair
itself requires up to `(j − i)·tol`, provided no label is so narrow that two stubs around it could be closer
than the line spacing (`lineSpacing ≤ 2·nodeSpacing + width`; true for the defaults 2 ≤ 2·3 + w).
Without the hypothesis the literal statement fails: `any_pair_counterexample` (known finding F2). -/
theorem any_pair (o : ROpts) (tol : ℚ) (htol : 0 ≤ tol) (L : List (LItem × ℚ))
    (hadj : sepAdjB o tol L = true)
    (hw : ∀ p ∈ L, 0 ≤ p.1.width) (hns : 0 ≤ o.nodeSpacing) (hls : 0 ≤ o.lineSpacing)
    (hF2 : ∀ p ∈ L, p.1.stub = false → o.lineSpacing ≤ 2 * o.nodeSpacing + p.1.width) :
    sepAllB o (tol * L.length) L = true :=
  any_pair' o tol htol hns hls L _ (le_refl _) hadj hw hF2

/-- known finding F2: stub, narrow label, stub with no label spacing — neighbours keep their gaps, but the two
stubs end up closer than their own (line-spacing) gap even allowing 1 unit for rounding -/
theorem any_pair_counterexample :
    let o : ROpts := { minPos := none, maxPos := none, nodeSpacing := 0, lineSpacing := 2 }
    let its : List LItem := [⟨10, 1, true⟩, ⟨10, 1/2, false⟩, ⟨10, 1, true⟩]
    let L := its.zip (solveSorted o its)
    sepAdjB o Layout.eps L = true ∧ sepAllB o 1 L = false ∧ f2Shape o L = true := by
  decide +kernel

-- non-vacuity: a layer with a tie, a stub pair and both walls active
example :
    (solveSorted ⟨some 0, some 30, 3, 2⟩ [⟨5, 4, false⟩, ⟨5, 4, false⟩, ⟨9, 1, true⟩, ⟨10, 1, true⟩]).map roundHalfEven
      = [2, 9, 14, 17] := by
  decide +kernel

end Labella.C01
