import Labella.Proofs.LayoutSep
import Labella.Model.LayoutSpec
import Labella.Proofs.EndToEnd
import Labella.Props.C06
/-! # C01 — items sharing a layer never overlap and keep the order of their targets

Property theorems only; helper lemmas live in `Labella/Proofs`.  All statements are for every layer
(any number of items, any widths and targets, ties included), every option set — bounds present, absent
or infeasible alike, because the walls are just two more variables of the chain. -/
namespace Labella.C01
open Labella Labella.Chain Labella.Layout

/-! ### constants the statements depend on (re-proved whenever `Gen/Constants.lean` is regenerated) -/

/-- the solver's merge threshold `ZERO_UPPERBOUND` is non-positive (`eps = −ZERO_UPPERBOUND ≥ 0`) -/
theorem eps_nonneg : 0 ≤ Layout.eps := eps_nonneg'

/-- the wall weight is positive -/
theorem wallWeight_pos : 0 < Gen.wallWeight := wallWeight_pos'

/-- gaps are `(w₁ + w₂) / 2 + spacing` -/
theorem halfDivisor_eq : Gen.halfDivisor = 2 := halfDivisor_eq'

/-! ### the chain solver -/

theorem solve_length (eps : ℚ) (vars : List Item) (gaps : List ℚ) (hlen : gaps.length + 1 = vars.length) :
    (solve eps vars gaps).length = vars.length :=
  solve_length' eps vars gaps hlen

/-- Every gap is kept up to `eps`, for every chain instance with positive weights — whether or not the
items fit between the walls.  (`0 ≤ eps` is necessary: see `solve_feasible_needs_eps_nonneg`.) -/
theorem solve_feasible (eps : ℚ) (heps : 0 ≤ eps) (vars : List Item) (gaps : List ℚ)
    (hw : ∀ v ∈ vars, 0 < v.w) :
    SepBy eps gaps (solve eps vars gaps) :=
  solve_feasible' eps heps vars gaps hw

/-- with a negative tolerance the statement is false (two pooled items sit exactly `gap` apart) -/
theorem solve_feasible_needs_eps_nonneg (eps : ℚ) (h : eps < 0) :
    ¬ SepBy eps [0] (solve eps [⟨1, 0⟩, ⟨1, 0⟩] [0]) := by
  have h1 : (0 : ℚ) < -eps := by linarith
  have : solve eps [⟨1, 0⟩, ⟨1, 0⟩] [0] = [0, 0] := by
    simp [solve, prefixSums, satisfy, slacks, argmin, mergeAt, expand, Block.mean, Block.sumW,
      Block.sumWT, h1]
  rw [this]
  simp only [SepBy]
  intro hc
  linarith [hc.1]

/-! ### rounding -/

/-- Python's `round` moves a position by at most one half -/
theorem round_close (x : ℚ) : |((roundHalfEven x : Int) : ℚ) - x| ≤ 1 / 2 :=
  round_close' x

/-! ### removeOverlap -/

/-- the list is handed back sorted by target (stable sort) … -/
theorem sort_sorted (items : List (LItem × Nat)) :
    (sortItems items).Pairwise (fun a b => a.1.target ≤ b.1.target) :=
  sort_sorted' items

/-- … as a permutation of the input: no item is lost or duplicated -/
theorem sort_perm (items : List (LItem × Nat)) : (sortItems items).Perm items :=
  sort_perm' items

theorem solveSorted_length (o : ROpts) (its : List LItem) (h : its ≠ []) :
    (solveSorted o its).length = its.length :=
  solveSorted_length' o its h

/-- C01 on the solver's own (unrounded) positions: target order kept, every neighbour gap kept up to eps -/
theorem sep_unrounded (o : ROpts) (its : List LItem)
    (hs : its.Pairwise (fun a b => a.target ≤ b.target)) :
    sepAdjB o Layout.eps (its.zip (solveSorted o its)) = true :=
  sep_unrounded' o its hs

/-- C01 on the reported (rounded) positions: at most 1 unit is lost to rounding -/
theorem sep_rounded (o : ROpts) (its : List LItem)
    (hs : its.Pairwise (fun a b => a.target ≤ b.target)) :
    sepAdjB o (1 + Layout.eps)
      (its.zip ((solveSorted o its).map (fun x => ((roundHalfEven x : Int) : ℚ)))) = true :=
  sep_rounded' o its hs

/-- **C01 (neighbours)** stated of `removeOverlap` itself on an arbitrary, unsorted layer: the reported order
is the stable target order, reported positions are the rounded solver positions, and neighbouring centres
are at least `(w₁+w₂)/2 + spacing − 1 − eps` apart (spacing = line spacing iff both are stubs). -/
theorem removeOverlap_sep (o : ROpts) (items : List LItem) :
    let sorted := sortItems items.zipIdx
    let out := removeOverlap o items
    out.order = sorted.map (·.2) ∧ out.pos = out.xs.map roundHalfEven ∧
    sepAdjB o (1 + Layout.eps) ((sorted.map (·.1)).zip (out.pos.map (fun (p : Int) => (p : ℚ)))) = true := by
  intro sorted out
  exact ⟨rfl, rfl, removeOverlap_sepAdj o items⟩

/-- **C01 (any two items)**: if neighbours keep their gaps up to `tol`, items `i < j` keep the gap the pair
itself requires up to `(j − i)·tol`, provided no label is so narrow that two stubs around it could be closer
than the line spacing (`lineSpacing ≤ 2·nodeSpacing + width`; true for the defaults 2 ≤ 2·3 + w).
Without the hypothesis the literal statement fails: `any_pair_counterexample` (known finding F2). -/
theorem any_pair (o : ROpts) (tol : ℚ) (htol : 0 ≤ tol) (L : List (LItem × ℚ))
    (hadj : sepAdjB o tol L = true)
    (hw : ∀ p ∈ L, 0 ≤ p.1.width) (hns : 0 ≤ o.nodeSpacing) (hls : 0 ≤ o.lineSpacing)
    (hF2 : ∀ p ∈ L, p.1.stub = false → o.lineSpacing ≤ 2 * o.nodeSpacing + p.1.width) :
    sepAllB o (tol * L.length) L = true :=
  any_pair' o tol htol hns hls L _ (le_refl _) hadj hw hF2

/-- known finding F2: stub, narrow label, stub with no label spacing — neighbours keep their gaps, but the two
stubs end up closer than their own (line-spacing) gap even allowing 1 unit for rounding -/
theorem any_pair_counterexample :
    let o : ROpts := { minPos := none, maxPos := none, nodeSpacing := 0, lineSpacing := 2 }
    let its : List LItem := [⟨10, 1, true⟩, ⟨10, 1/2, false⟩, ⟨10, 1, true⟩]
    let L := its.zip (solveSorted o its)
    sepAdjB o Layout.eps L = true ∧ sepAllB o 1 L = false ∧ f2Shape o L = true := by
  decide +kernel

-- non-vacuity: a layer with a tie, a stub pair and both walls active
example :
    (solveSorted ⟨some 0, some 30, 3, 2⟩ [⟨5, 4, false⟩, ⟨5, 4, false⟩, ⟨9, 1, true⟩, ⟨10, 1, true⟩]).map roundHalfEven
      = [2, 9, 14, 17] := by
  decide +kernel

/-! ### end to end: every layer of a computed layout -/

/-- layer `j` of a computed layout as `removeOverlap` saw and left it: every item with the target it was solved against (its data position in layer 0, the position of its own stand-in in layer j-1 otherwise), its width and stub flag, and its reported position, in the reported order -/
def layerView (o : FOpts) (labels : List Label) (L : List (List Placed)) (j : Nat) : List (LItem × ℚ) :=
  (L.getD j []).map (fun p => (layerItem o labels (if j = 0 then none else L[j - 1]?) p.ref, (p.pos : ℚ)))

/-- the layer view of a computed layout IS `removeOverlap`'s sorted item list zipped with its reported positions, where the
items given to `removeOverlap` for layer `j` are those of the `j`-th distributed layer (`layerItems`) -/
theorem layerView_compute (o : FOpts) (labels : List Label) (j : Nat) :
    layerView o labels (compute o labels) j
      = ((sortItems (layerItems o labels j).zipIdx).map (·.1)).zip
          ((removeOverlap o.toR (layerItems o labels j)).pos.map (fun (p : Int) => (p : ℚ))) :=
  compute_view o labels j

/-- **C01 end to end**: in every layer of every layout the items stand in the order of their targets and neighbouring centres are at least half the sum of the widths plus the spacing apart, less 1 (rounding) and the solver tolerance -/
theorem compute_separated (o : FOpts) (labels : List Label) (j : Nat) :
    sepAdjB o.toR (1 + Layout.eps) (layerView o labels (compute o labels) j) = true := by
  rw [layerView_compute]
  exact removeOverlap_sepAdj o.toR _

-- non-vacuity: the three layers of the C06 example (6 labels with a tie, both walls) as `removeOverlap` saw and left them:
-- (target, width, stub, reported position); in layers 1 and 2 the targets are the reported positions of the stand-ins one layer nearer the axis
example :
    (List.range 3).map (fun j =>
      (layerView C06.permExOpts C06.permExL1 (compute C06.permExOpts C06.permExL1) j).map
        (fun p => (p.1.target, p.1.width, p.1.stub, p.2))) =
      [[(5, 1, true, 0), (5, 1, true, 4), (9, 1, true, 6), (10, 7, false, 14), (20, 1, true, 20), (22, 5, false, 26)],
       [(0, 1, true, 0), (4, 1, true, 3), (6, 6, false, 10), (20, 9, false, 20)],
       [(0, 8, false, 4), (3, 8, false, 15)]] := by
  rw [← compute'_eq]
  decide +kernel

/-! ### end to end: what the stateful engine reports -/

/-- the item an observer reconstructs from a reported layer: target = the item's data position (`ideal`) in layer 0, otherwise
the reported position of the item carrying the same payload (`data`) in the previous reported layer; width and stub flag as reported -/
def obsItem (prev : Option (List EngineT.ObsT)) (x : EngineT.ObsT) : LItem :=
  { target := match prev with
      | none => x.ideal
      | some ps => ((ps.find? (fun y => y.data == x.data)).map (·.pos)).getD 0,
    width := x.width, stub := x.stub }

/-- layer `j` of an observation: every item as reconstructed by `obsItem` against the previous observed layer, with its reported
position, in the reported order -/
def obsView (O : List (List EngineT.ObsT)) (j : Nat) : List (LItem × ℚ) :=
  (O.getD j []).map (fun x => (obsItem (if j = 0 then none else O[j - 1]?) x, x.pos))

/-- the observer's view of the pure observation is the layer view of the pure layout, as soon as distinct labels carry distinct payloads -/
theorem obsView_observePure (o : FOpts) (labels : List Label) (datas : List Nat) (L : List (List Placed))
    (hnd : datas.Nodup) (hid : ∀ layer ∈ L, ∀ p ∈ layer, p.ref.id < datas.length) (j : Nat) :
    obsView (EngineT.observePure o labels datas L) j = layerView o labels L j := by
  unfold obsView layerView
  have e1 : (EngineT.observePure o labels datas L).getD j [] = (L.getD j []).map (EngineT.obsP o labels datas j) := by
    rw [List.getD_eq_getElem?_getD, List.getD_eq_getElem?_getD, EngineT.observePure_getElem?]
    cases L[j]? <;> rfl
  have e2 := EngineT.observePure_getElem? o labels datas L (j - 1)
  rw [e1, e2, List.map_map]
  apply List.map_congr_left
  intro pl hpl
  have hlayer : L.getD j [] ∈ L := by
    rw [List.getD_eq_getElem?_getD] at hpl ⊢
    cases hL : L[j]? with
    | none => rw [hL] at hpl; simp at hpl
    | some layer => exact List.mem_of_getElem? hL
  have hpl' := hid _ hlayer pl hpl
  simp only [Function.comp]
  by_cases hj : j = 0
  · simp only [hj, if_true]; rfl
  · simp only [hj, if_false]
    cases hP : L[j - 1]? with
    | none => rfl
    | some ps =>
      have hps := hid ps (List.mem_of_getElem? hP)
      simp only [Option.map_some, obsItem, layerItem]
      rw [EngineT.find_data_pure o labels datas hnd (j - 1) j ps pl hps hpl']
      rfl

/-- renaming the payloads by a map that keeps the payloads present apart does not change the observer's view -/
theorem obsView_relabel (g : Nat → Nat) (O : List (List EngineT.ObsT))
    (hinj : ∀ l ∈ O, ∀ x ∈ l, ∀ l' ∈ O, ∀ y ∈ l', g y.data = g x.data → y.data = x.data) (j : Nat) :
    obsView (O.map (fun l => l.map (fun x => { x with data := g x.data }))) j = obsView O j := by
  unfold obsView
  have e1 : (O.map (fun l => l.map (fun x : EngineT.ObsT => { x with data := g x.data }))).getD j []
      = (O.getD j []).map (fun x : EngineT.ObsT => { x with data := g x.data }) := by
    rw [List.getD_eq_getElem?_getD, List.getD_eq_getElem?_getD, List.getElem?_map]
    cases O[j]? <;> rfl
  have e2 : (O.map (fun l => l.map (fun x : EngineT.ObsT => { x with data := g x.data })))[j - 1]?
      = O[j - 1]?.map (fun l => l.map (fun x : EngineT.ObsT => { x with data := g x.data })) := List.getElem?_map
  rw [e1, e2, List.map_map]
  apply List.map_congr_left
  intro x hx
  have hlayer : O.getD j [] ∈ O := by
    rw [List.getD_eq_getElem?_getD] at hx ⊢
    cases hL : O[j]? with
    | none => rw [hL] at hx; simp at hx
    | some layer => exact List.mem_of_getElem? hL
  simp only [Function.comp]
  by_cases hj : j = 0
  · simp only [hj, if_true]; rfl
  · simp only [hj, if_false]
    cases hP : O[j - 1]? with
    | none => rfl
    | some ps =>
      simp only [Option.map_some, obsItem]
      rw [EngineT.find_data_relabel g ps x
        (fun y hy => hinj _ hlayer x hx ps (List.mem_of_getElem? hP) y hy)]

/-- for EVERY store in which the engine's nodes are labels with pairwise distinct payloads — whatever stale positions, layer numbers, parent
links and stubs it holds — the observer's view of what `compute` leaves behind is the layer view of the pure layout of the engine's options
and the (data position, width) of its nodes: every per-layer statement about `layerView … (compute …)` transfers to the engine -/
theorem computeT_view_pure (e : EngineT.Engine) (s : EngineT.Store) (hg : C06.Good s e.nodes)
    (hd : (e.nodes.map (fun i => (EngineT.get s i).data)).Nodup) (j : Nat) :
    obsView (EngineT.observe (EngineT.computeT e s).2 ((EngineT.computeT e s).1.layers.getD [])) j
      = layerView e.opts (EngineT.labelsOf s e.nodes) (compute e.opts (EngineT.labelsOf s e.nodes)) j := by
  rw [C06.computeT_pure e s hg, obsView_observePure _ _ _ _ hd]
  have := compute_ids_lt e.opts (EngineT.labelsOf s e.nodes)
  rw [EngineT.labelsOf_length] at this
  rw [List.length_map]
  exact this

/-- **C01 for the stateful engine, any state**: … what `compute` leaves behind is separated layer by layer -/
theorem computeT_layers_separated (e : EngineT.Engine) (s : EngineT.Store) (hg : C06.Good s e.nodes)
    (hd : (e.nodes.map (fun i => (EngineT.get s i).data)).Nodup) (j : Nat) :
    sepAdjB e.opts.toR (1 + Layout.eps)
      (obsView (EngineT.observe (EngineT.computeT e s).2 ((EngineT.computeT e s).1.layers.getD [])) j) = true := by
  rw [computeT_view_pure e s hg hd]
  exact compute_separated _ _ j

/-- after ANY history the observer's view of what a `compute` leaves in the node objects is the layer view of the pure layout (in every reachable
world the payloads of the engine's nodes are pairwise distinct: `EngineT.world_inv`) -/
theorem engine_view_pure (ops : List EngineT.Op) (j : Nat) :
    obsView (EngineT.observe
        (EngineT.computeT (EngineT.World.run ops).engine (EngineT.World.run ops).store).2
        ((EngineT.computeT (EngineT.World.run ops).engine (EngineT.World.run ops).store).1.layers.getD [])) j
      = layerView (EngineT.World.run ops).engine.opts
          (EngineT.labelsOf (EngineT.World.run ops).store (EngineT.World.run ops).engine.nodes)
          (compute (EngineT.World.run ops).engine.opts
            (EngineT.labelsOf (EngineT.World.run ops).store (EngineT.World.run ops).engine.nodes)) j :=
  computeT_view_pure _ _ (C06.world_good ops) (EngineT.world_inv ops).datas_nodup j

/-- **C01 for the stateful engine, end to end**: whatever happened before (ANY history of engine creations, re-configurations, fresh
or re-registered node objects, computes), the layers a `compute` then leaves in the node objects are separated layer by layer:
reported order = order of the targets (layer 0: data positions; layer j: reported positions of the stand-ins in layer j-1),
neighbouring centres at least `(w₁+w₂)/2 + spacing − 1 − eps` apart -/
theorem engine_layers_separated (ops : List EngineT.Op) (j : Nat) :
    sepAdjB (EngineT.World.run ops).engine.opts.toR (1 + Layout.eps)
      (obsView (EngineT.observe
        (EngineT.computeT (EngineT.World.run ops).engine (EngineT.World.run ops).store).2
        ((EngineT.computeT (EngineT.World.run ops).engine (EngineT.World.run ops).store).1.layers.getD [])) j) = true :=
  computeT_layers_separated _ _ (C06.world_good ops) (EngineT.world_inv ops).datas_nodup j

/-- … and the same of the observation the history records for that compute (`World.outs`, where payloads are reported as the index of the
label in its batch) -/
theorem engine_reports_separated (ops : List EngineT.Op) (O : List (List EngineT.ObsT))
    (h : (EngineT.World.run (ops ++ [.compute])).outs.getLast? = some O) (j : Nat) :
    sepAdjB (EngineT.World.run ops).engine.opts.toR (1 + Layout.eps) (obsView O j) = true := by
  have hrun : EngineT.World.run (ops ++ [.compute]) = (EngineT.World.run ops).step .compute := by
    unfold EngineT.World.run
    rw [List.foldl_append]
    rfl
  rw [hrun] at h
  simp only [EngineT.World.step, List.getLast?_concat, Option.some.injEq] at h
  subst h
  have hw := EngineT.world_inv ops
  rw [obsView_relabel (fun d => List.idxOf d (EngineT.World.run ops).last)]
  · exact engine_layers_separated ops j
  · rw [C06.compute_after_any_history]
    have hids := compute_ids_lt (EngineT.World.run ops).engine.opts
      (EngineT.labelsOf (EngineT.World.run ops).store (EngineT.World.run ops).engine.nodes)
    rw [EngineT.labelsOf_length] at hids
    have hmem := EngineT.observePure_data_mem (EngineT.World.run ops).engine.opts
      (EngineT.labelsOf (EngineT.World.run ops).store (EngineT.World.run ops).engine.nodes)
      ((EngineT.World.run ops).engine.nodes.map (fun i => (EngineT.get (EngineT.World.run ops).store i).data))
      _ (by rw [List.length_map]; exact hids)
    intro l hl x hx l' hl' y hy hxy
    have hy' := hmem l' hl' y hy
    rw [hw.datas_eq] at hy'
    exact (List.idxOf_inj (hw.sub _ hy')).1 hxy

-- non-vacuity: what the history of `C06.staleOps` (a second compute under different options on node objects that carry the stubs, layer
-- numbers and positions of the first) records for its last compute, as the observer reconstructs it
example :
    (List.range 2).map (fun j =>
      (obsView ((EngineT.World.run (C06.staleOps ++ [.compute])).outs.getLast?.getD []) j).map
        (fun p => (p.1.target, p.1.width, p.1.stub, p.2))) =
      [[(5, 8, false, 4), (5, 2, true, 11), (9, 6, false, 17), (10, 2, true, 23), (20, 9, false, 30), (22, 2, true, 38)],
       [(11, 8, false, 11), (23, 7, false, 23), (38, 5, false, 38)]] := by
  rw [← EngineT.World.run'_eq]
  decide +kernel

/-! ### end to end: bounds (C03) and optimality (C02) of every layer -/

/-- the items of layer `j` of the computed layout in the order they were solved and are reported -/
def solvedItems (o : FOpts) (labels : List Label) (j : Nat) : List LItem :=
  (layerView o labels (compute o labels) j).map (·.1)

/-- they are the stable target sort of the items `removeOverlap` was given (`layerItems`: the `j`-th distributed layer, every item with
its data position (layer 0) / the reported position of its stand-in in layer `j-1` as target) … -/
theorem solvedItems_eq (o : FOpts) (labels : List Label) (j : Nat) :
    solvedItems o labels j = (sortItems (layerItems o labels j).zipIdx).map (·.1) := by
  unfold solvedItems
  rw [layerView_compute, removeOverlap_pos_eq, zip_solveSorted_fst]

/-- … hence sorted by target -/
theorem solvedItems_sorted (o : FOpts) (labels : List Label) (j : Nat) :
    (solvedItems o labels j).Pairwise (fun a b => a.target ≤ b.target) := by
  rw [solvedItems_eq, List.pairwise_map]
  exact sort_sorted' _

/-- the reported positions of layer `j` are the rounded solver positions of its items -/
theorem layerView_positions (o : FOpts) (labels : List Label) (j : Nat) :
    (layerView o labels (compute o labels) j).map (·.2)
      = (solveSorted o.toR (solvedItems o labels j)).map (fun x => ((roundHalfEven x : Int) : ℚ)) := by
  rw [solvedItems_eq, layerView_compute, removeOverlap_pos_eq, zip_solveSorted_snd]

theorem layerView_eq_zip (o : FOpts) (labels : List Label) (j : Nat) :
    layerView o labels (compute o labels) j
      = (solvedItems o labels j).zip
          ((solveSorted o.toR (solvedItems o labels j)).map (fun x => ((roundHalfEven x : Int) : ℚ))) := by
  rw [solvedItems_eq, layerView_compute, removeOverlap_pos_eq]

/-- **C03 end to end**: in every layer whose items fit between the bounds — i.e. for which SOME placement `zs` of the layer's items keeps every
gap, wall gaps included, with the walls standing exactly at the configured bounds (each bound is optional: an absent bound contributes no wall
and no wall gap) — every item lies inside the bounds up to `d + n·eps + 1/2`, where `d` is any bound on the wall displacement of
`C03.walls_near_bounds` (`Σ (zᵢ − tᵢ)² ≤ W·d²`, i.e. `d ≥ sqrt(K / W)`, `W = 10¹⁰` the wall weight), `n·eps` the solver tolerance accumulated over
the `n` items of the layer and `1/2` the rounding; and in every layer (fitting or not) the separation of `compute_separated` holds.
Widths and spacings must be non-negative (otherwise an item's edge can stick out beyond its neighbour's). -/
theorem compute_inside (o : FOpts) (labels : List Label) (j : Nat)
    (hw : ∀ l ∈ labels, 0 ≤ l.width) (hsw : 0 ≤ o.stubWidth) (hns : 0 ≤ o.nodeSpacing) (hls : 0 ≤ o.lineSpacing)
    (zs : List ℚ) (hz : zs.length = (solvedItems o labels j).length)
    (hfeas : SepBy 0 (chainGaps o.toR (solvedItems o labels j))
      ((leftWall o.toR).map (·.t) ++ zs ++ (rightWall o.toR).map (·.t)))
    (d : ℚ) (hd : 0 ≤ d) (hK : cost ((solvedItems o labels j).map toVar) zs ≤ Gen.wallWeight * d * d) :
    insideB o.toR (d + ((solvedItems o labels j).length : ℚ) * Layout.eps + 1 / 2)
        (layerView o labels (compute o labels) j) = true ∧
      sepAdjB o.toR (1 + Layout.eps) (layerView o labels (compute o labels) j) = true := by
  refine ⟨?_, compute_separated o labels j⟩
  rw [layerView_eq_zip]
  by_cases hne : solvedItems o labels j = []
  · rw [hne]; rfl
  · apply insideB_round
    refine inside_unrounded o.toR _ hne (solvedItems_sorted o labels j) ?_ hns hls zs hz hfeas d hd hK
    rw [solvedItems_eq]
    exact sorted_width_nonneg o labels hw hsw j

/-- "the items of the layer fit between the bounds" in the sense of the executable predicate `fitsB` (widths plus spacings ≤ `maxPos − minPos`;
always true when a bound is absent) is exactly the hypothesis of `compute_inside`: some placement keeps every gap with the walls at the bounds -/
theorem fits_iff_feasible (o : FOpts) (labels : List Label) (j : Nat) (h : solvedItems o labels j ≠ []) :
    fitsB o.toR (solvedItems o labels j) = true ↔
      ∃ zs : List ℚ, zs.length = (solvedItems o labels j).length ∧
        SepBy 0 (chainGaps o.toR (solvedItems o labels j))
          ((leftWall o.toR).map (·.t) ++ zs ++ (rightWall o.toR).map (·.t)) :=
  fitsB_iff_feasible o.toR _ h

-- non-vacuity: in the C06 example (bounds 0 … 30) the items of each of the three layers fit, and every item is reported inside the bounds
-- to within the rounding
example :
    (List.range 3).map (fun j =>
      (fitsB C06.permExOpts.toR (solvedItems C06.permExOpts C06.permExL1 j),
        insideB C06.permExOpts.toR (1 / 2) (layerView C06.permExOpts C06.permExL1 (compute C06.permExOpts C06.permExL1) j)))
      = [(true, true), (true, true), (true, true)] := by
  unfold solvedItems
  rw [← compute'_eq]
  decide +kernel

/-- **C02 end to end**: in every layer `j` of every layout, with `its` the layer's items in solved (= reported) order:
(1) the reported positions are the roundings of the solver's positions `solveSorted o its` (= `Chain.solve` on `chainVars`/`chainGaps` of `its`,
walls dropped), so (2) item by item the reported position is within 1/2 of the solver's; and (3) for a non-empty layer the chain instance
satisfies the hypotheses of `C02.solve_optimal` (`C02.removeOverlap_instance_ok`), so the solver's placement `x` (walls included: the bounds
enter the cost as `W (x_L − minPos)² + W (x_R − maxPos)²`) is the least-squares optimum of the layer's targets and gaps:
`cost x + Σ wᵢ (zᵢ − xᵢ)² ≤ cost z` for EVERY placement `z` that keeps the gaps — it is the unique cheapest such placement. -/
theorem compute_optimal (o : FOpts) (labels : List Label) (j : Nat) :
    (layerView o labels (compute o labels) j).map (·.2)
        = (solveSorted o.toR (solvedItems o labels j)).map (fun x => ((roundHalfEven x : Int) : ℚ)) ∧
    List.Forall₂ (fun (p : LItem × ℚ) x => |p.2 - x| ≤ 1 / 2)
        (layerView o labels (compute o labels) j) (solveSorted o.toR (solvedItems o labels j)) ∧
    (solvedItems o labels j ≠ [] →
      ∀ zs : List ℚ, zs.length = (chainVars o.toR (solvedItems o labels j)).length →
        SepBy 0 (chainGaps o.toR (solvedItems o labels j)) zs →
        cost (chainVars o.toR (solvedItems o labels j))
            (solve Layout.eps (chainVars o.toR (solvedItems o labels j)) (chainGaps o.toR (solvedItems o labels j)))
          + wdist (chainVars o.toR (solvedItems o labels j))
              (solve Layout.eps (chainVars o.toR (solvedItems o labels j)) (chainGaps o.toR (solvedItems o labels j))) zs
          ≤ cost (chainVars o.toR (solvedItems o labels j)) zs) := by
  refine ⟨layerView_positions o labels j, ?_, ?_⟩
  · rw [layerView_eq_zip]
    by_cases hne : solvedItems o labels j = []
    · rw [hne, solveSorted_nil]; exact List.Forall₂.nil
    · exact forall₂_zip_round _ _ (solveSorted_length' _ _ hne).symm
  · intro hne zs hz hfeas
    exact solve_optimal' Layout.eps eps_nonneg' _ _ (chain_lengths o.toR hne) (chainVars_pos o.toR _) zs hz hfeas


/-- **C01 for several engines alive at once**: after ANY interleaving of operations on any number of engines sharing list objects and
node objects, the layers a compute of ANY of them leaves in the node objects are separated layer by layer -/
theorem engines_layers_separated (ops : List EngineT.MOp) (k j : Nat) :
    sepAdjB ((EngineT.MWorld.run ops).engineAt k).opts.toR (1 + Layout.eps)
      (obsView (EngineT.observe
        (EngineT.computeT ((EngineT.MWorld.run ops).engineAt k) (EngineT.MWorld.run ops).store).2
        ((EngineT.computeT ((EngineT.MWorld.run ops).engineAt k) (EngineT.MWorld.run ops).store).1.layers.getD [])) j) = true :=
  computeT_layers_separated _ _ (C06.mworld_good ops k) ((EngineT.mworld_inv ops).datas_nodup k) j

/-- … and the same of the observation the history records for that compute (payloads reported as positions in the list as created) -/
theorem engines_report_separated (ops : List EngineT.MOp) (k : Nat) (O : List (List EngineT.ObsT))
    (h : (EngineT.MWorld.run (ops ++ [.compute])).outs.getLast? = some (k, O))
    (hne : (EngineT.MWorld.run ops).outs.length < (EngineT.MWorld.run (ops ++ [.compute])).outs.length) (j : Nat) :
    sepAdjB ((EngineT.MWorld.run ops).engineAt k).opts.toR (1 + Layout.eps) (obsView O j) = true := by
  have hrun : EngineT.MWorld.run (ops ++ [.compute]) = (EngineT.MWorld.run ops).step .compute := by
    unfold EngineT.MWorld.run
    rw [List.foldl_append]
    rfl
  rw [hrun] at h hne
  have hw := EngineT.mworld_inv ops
  cases he : (EngineT.MWorld.run ops).engines[(EngineT.MWorld.run ops).cur]? with
  | none =>
    -- no current engine: the step records nothing, contradicting `hne`
    exfalso
    have : (EngineT.MWorld.run ops).step .compute = EngineT.MWorld.run ops := by
      simp only [EngineT.MWorld.step, he]
    rw [this] at hne
    exact Nat.lt_irrefl _ hne
  | some e =>
    obtain ⟨houts, -, -, -, -⟩ := EngineT.MWorld.step_compute_outs (EngineT.MWorld.run ops) e he
    rw [houts, List.getLast?_concat, Option.some.injEq, Prod.mk.injEq] at h
    obtain ⟨hk, hO⟩ := h
    subst hk
    subst hO
    rw [obsView_relabel (fun d => List.idxOf d ((e.ref.bind (fun b => (EngineT.MWorld.run ops).created[b]?)).getD []))]
    · exact engines_layers_separated ops _ j
    · rw [C06.compute_after_any_interleaving]
      have hids := compute_ids_lt ((EngineT.MWorld.run ops).engineAt (EngineT.MWorld.run ops).cur).opts
        (EngineT.labelsOf (EngineT.MWorld.run ops).store ((EngineT.MWorld.run ops).engineAt (EngineT.MWorld.run ops).cur).nodes)
      rw [EngineT.labelsOf_length] at hids
      have hmem := EngineT.observePure_data_mem ((EngineT.MWorld.run ops).engineAt (EngineT.MWorld.run ops).cur).opts
        (EngineT.labelsOf (EngineT.MWorld.run ops).store ((EngineT.MWorld.run ops).engineAt (EngineT.MWorld.run ops).cur).nodes)
        (((EngineT.MWorld.run ops).engineAt (EngineT.MWorld.run ops).cur).nodes.map
          (fun i => (EngineT.get (EngineT.MWorld.run ops).store i).data))
        _ (by rw [List.length_map]; exact hids)
      intro l hl x hx l' hl' y hy hxy
      have hy' := hmem l' hl' y hy
      rw [hw.datas_eq] at hy'
      -- the engine's nodes are a reordering of the list object as created, which is the batch payloads are reported against
      rcases hw.engine_nodes (EngineT.MWorld.run ops).cur with h0 | ⟨e', b, c, he', hr, hc, hp⟩
      · rw [h0] at hy'; cases hy'
      · rw [he] at he'
        cases he'
        have hbatch : (e.ref.bind (fun b => (EngineT.MWorld.run ops).created[b]?)).getD [] = c := by
          rw [hr]; simp only [Option.bind_some, hc, Option.getD_some]
        rw [hbatch] at hxy
        exact (List.idxOf_inj (hp.subset hy')).1 hxy

/-- the side condition `hne` of `engines_report_separated` (the final `.compute` recorded something, i.e. there was a current engine) is implied
by `h`: as long as no engine exists nothing at all has been recorded, so a last observation exists only if the step recorded one -/
theorem engines_report_separated' (ops : List EngineT.MOp) (k : Nat) (O : List (List EngineT.ObsT))
    (h : (EngineT.MWorld.run (ops ++ [.compute])).outs.getLast? = some (k, O)) (j : Nat) :
    sepAdjB ((EngineT.MWorld.run ops).engineAt k).opts.toR (1 + Layout.eps) (obsView O j) = true := by
  refine engines_report_separated ops k O h ?_ j
  have hrun : EngineT.MWorld.run (ops ++ [.compute]) = (EngineT.MWorld.run ops).step .compute := by
    unfold EngineT.MWorld.run
    rw [List.foldl_append]
    rfl
  rw [hrun] at h ⊢
  cases he : (EngineT.MWorld.run ops).engines[(EngineT.MWorld.run ops).cur]? with
  | none =>
    exfalso
    have hstep : (EngineT.MWorld.run ops).step .compute = EngineT.MWorld.run ops := by
      simp only [EngineT.MWorld.step, he]
    rw [hstep] at h
    have hnil : (EngineT.MWorld.run ops).engines = [] := by
      rcases (EngineT.mworld_inv ops).cur with hc | hc
      · exact hc
      · rw [List.getElem?_eq_getElem hc] at he; cases he
    rw [EngineT.MWorld.outs_nil_of_no_engine ops hnil] at h
    cases h
  | some e =>
    rw [(EngineT.MWorld.step_compute_outs (EngineT.MWorld.run ops) e he).1, List.length_append, List.length_singleton]
    exact Nat.lt_succ_self _

end Labella.C01
