import Labella.Model.Process
import Labella.Model.CalSpec
import Labella.Proofs.CalendarLemmas
import Labella.Proofs.ProcessLemmas
/-! # C10 — a timeline's export depends only on its own data and options

Model: what timelines can share inside one process — scale objects and engine-option dicts as cells; the repaired
constructor allocates fresh cells, the pre-repair one used the two module-level defaults. -/
namespace Labella.C10
open Labella Labella.Process

/-! ### C10 -/

/-- **Isolation.**  In the repaired model (every timeline gets its own scale and its own engine-option dict) every
export of timeline `i`, after ANY interleaving of constructions and exports of any number of timelines, shows
exactly the arguments of the latest construction of `i` — whatever was constructed or exported before or in between. -/
theorem instances_isolated (ops : List POp) : outputs false PState.init ops = expected [] ops := by
  exact outputs_eq_expected ops _ _ inv_init

/-- exporting is deterministic and repeatable: an export changes nothing -/
theorem export_changes_nothing (shared : Bool) (s : PState) (i : Nat) : (pstep shared s (.export i)).1 = s := by
  rw [pstep_export]

/-- the pre-repair sharing of the module-level default scale violates isolation: construct A, construct B,
export A shows B's domain -/
theorem legacy_shared_counterexample :
    outputs true PState.init [.construct 0 ⟨"a0", "a1", "up"⟩, .construct 1 ⟨"b0", "b1", "left"⟩, .export 0]
      ≠ expected [] [.construct 0 ⟨"a0", "a1", "up"⟩, .construct 1 ⟨"b0", "b1", "left"⟩, .export 0] := by
  decide


end Labella.C10
