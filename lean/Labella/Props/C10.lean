import Labella.Model.Process
import Labella.Model.Options
import Labella.Model.CalSpec
import Labella.Proofs.CalendarLemmas
import Labella.Proofs.ProcessLemmas
import Labella.Proofs.OptionsLemmas
/-! # C10 — a timeline's export depends only on its own data and options

Model: what timelines can share inside one process — scale objects and engine-option dicts as cells; the repaired
constructor allocates fresh cells, the pre-repair one used the two module-level defaults. -/
namespace Labella.C10
open Labella Labella.Process

/-! ### C10 -/

/-- **Isolation.**  In the repaired model (every timeline gets its own scale and its own engine-option dict) every
export of timeline `i`, after ANY interleaving of constructions and exports of any number of timelines, shows
exactly the arguments of the latest construction of `i` — whatever was constructed or exported before or in between. -/
theorem instances_isolated (ops : List POp) : outputs false PState.init ops = expected [] ops := by
  exact outputs_eq_expected ops _ _ inv_init

/-- exporting is deterministic and repeatable: an export changes nothing -/
theorem export_changes_nothing (shared : Bool) (s : PState) (i : Nat) : (pstep shared s (.export i)).1 = s := by
  rw [pstep_export]

/-- the pre-repair sharing of the module-level default scale violates isolation: construct A, construct B,
export A shows B's domain -/
theorem legacy_shared_counterexample :
    outputs true PState.init [.construct 0 ⟨"a0", "a1", "up"⟩, .construct 1 ⟨"b0", "b1", "left"⟩, .export 0]
      ≠ expected [] [.construct 0 ⟨"a0", "a1", "up"⟩, .construct 1 ⟨"b0", "b1", "left"⟩, .export 0] := by
  decide


/-! ### who can write where: the constructor's option objects (`Model/Options.lean`) -/
section Objects
open Labella.Options

/-- a heap in which the module-level objects exist and the caller's dict (if any) is not one of them; the dict a caller's `latex` entry refers to
(if any) exists -/
def CallerOK (h : Heap) (opts : Option Nat) : Prop :=
  nModuleDicts ≤ h.dicts.size ∧ 1 ≤ h.scales.size ∧
  ∀ o, opts = some o → nModuleDicts ≤ o ∧ o < h.dicts.size

/-- **Frame of `Timeline.__init__`.**  Whatever the heap and the caller's dict: the constructor changes NO existing dict object except the
caller's own `options` dict, and that one only at the key `latex` (the documented write-back of the merged LaTeX settings, pointing to a NEW
dict); in particular the module-level `DEFAULT_OPTIONS` and its `margin`, `labelPadding`, `labella`, `latex` dicts — which every timeline without
its own `margin` / `labelPadding` shares by reference — are never written.  Everything else it writes is an object it has just created. -/
theorem construct_frame (h : Heap) (opts : Option Nat) (dom : String) (hok : CallerOK h opts) :
    (∀ j, j < h.dicts.size → opts ≠ some j → (construct h opts dom).1.dict j = h.dict j) ∧
    (∀ o, opts = some o → ∃ L, h.dicts.size ≤ L ∧ (construct h opts dom).1.dict o = dset (h.dict o) "latex" (.dict L)) ∧
    h.dicts.size ≤ (construct h opts dom).2 ∧ h.dicts.size ≤ (construct h opts dom).1.dicts.size := by
  have ho : ∀ o, opts = some o → o < h.dicts.size := fun o h1 => (hok.2.2 o h1).2
  refine ⟨fun j hj hne => construct_dict_of_ne dom ho hj hne, fun o hopts => ?_, ?_, ?_⟩
  · obtain ⟨L, h1, _, h2⟩ := construct_dict_caller dom ho hopts
    exact ⟨L, h1, h2⟩
  · have := construct_snd_ge dom ho; omega
  · have := construct_size_ge dom ho; omega

/-- the caller's dict is a Python dict: no key occurs twice (`DictWF`).  The association lists of the model allow duplicate keys; for such a list
`dget` finds the FIRST entry of a key whereas `dupdate` lets the LAST one win. -/
def CallerWF (h : Heap) (opts : Option Nat) : Prop := ∀ o, opts = some o → DictWF (h.dict o)

/-- the only existing SCALE object the constructor can touch is one the caller supplied under `scale` (sharing the caller asked for); without
such an entry the timeline's scale is a new object, and the module-level default scale keeps its domain.

CORRECTED statement: the hypothesis `CallerWF` (no duplicate keys in the caller's dict) was added; without it the first part is false, see
`construct_scale_frame_needs_wf` below.  `construct_scale_frame_mem` is the variant that needs no such hypothesis. -/
theorem construct_scale_frame (h : Heap) (opts : Option Nat) (dom : String) (hok : CallerOK h opts) (hwf : CallerWF h opts) :
    (∀ s, s < h.scales.size → (∀ o, opts = some o → dget (h.dict o) "scale" ≠ some (.scale s)) →
        (construct h opts dom).1.scales[s]? = h.scales[s]?) ∧
    ((∀ o, opts = some o → dhas (h.dict o) "scale" = false) →
        ∃ s, h.scales.size ≤ s ∧ dget ((construct h opts dom).1.dict (construct h opts dom).2) "scale" = some (.scale s)) := by
  have ho : ∀ o, opts = some o → o < h.dicts.size := fun o h1 => (hok.2.2 o h1).2
  refine ⟨fun s hs hne => ?_, fun hno => ⟨h.scales.size, Nat.le_refl _, (construct_fresh_scale dom ho hno).1⟩⟩
  exact construct_scales_of_not_mem dom ho hs (fun o hopts hm => hne o hopts (dget_of_mem_of_wf (hwf o hopts) hm))

/-- the same without well-formedness: an existing scale object that does not occur AT ALL under `scale` in the caller's dict is not written -/
theorem construct_scale_frame_mem (h : Heap) (opts : Option Nat) (dom : String) (hok : CallerOK h opts) (s : Nat) (hs : s < h.scales.size)
    (hne : ∀ o, opts = some o → ("scale", Val.scale s) ∉ h.dict o) :
    (construct h opts dom).1.scales[s]? = h.scales[s]? :=
  construct_scales_of_not_mem dom (fun o h1 => (hok.2.2 o h1).2) hs hne

/-- counterexample to the first part of `construct_scale_frame` without `CallerWF`: the caller's list has `scale` twice; `dget` sees scale object 1,
the `update` in the constructor takes the last entry, the module-level scale object 0, and `init_axis` writes the domain into it -/
theorem construct_scale_frame_needs_wf :
    let h : Heap := (Heap.init.allocDict [("scale", .scale 1), ("scale", .scale 0)]).1
    CallerOK h (some 5) ∧ dget (h.dict 5) "scale" ≠ some (.scale 0) ∧ (construct h (some 5) "DOM").1.scales[0]? ≠ h.scales[0]? := by
  refine ⟨⟨by decide, by decide, fun o ho => ?_⟩, by decide, by decide⟩
  cases ho; decide

/-- the dict references in `d` point to existing objects, none of which is the dict `b` -/
def RefsAvoid (h : Heap) (d : Dict) (b : Option Nat) : Prop := ∀ k r, (k, Val.dict r) ∈ d → r < h.dicts.size ∧ b ≠ some r

/-- executable form of `RefsAvoid` -/
def refsAvoidB (h : Heap) (d : Dict) (b : Option Nat) : Bool :=
  d.all fun p => match p.2 with
    | .dict r => decide (r < h.dicts.size) && decide (b ≠ some r)
    | _ => true

theorem refsAvoid_of_check {h : Heap} {d : Dict} {b : Option Nat} (hc : refsAvoidB h d b = true) : RefsAvoid h d b := by
  intro k r hp
  have := List.all_eq_true.1 hc _ hp
  simpa using this

/-- **Isolation at the level of objects.**  Build timeline A (caller dict `a` or none), then timeline B with ANY caller dict `b` — the same
dict object as A's (`b = a`: what the scripts in `examples/` do), a different one, or none — that does not hand B a scale object A uses:
everything A's export reads (its options dict, every dict it refers to, its scale's domain) is exactly what it was before B was built.

CORRECTED statement: the hypothesis `hrefs` was added — the dicts A's options dict refers to exist, and B's caller dict is not one of them.  Without
it the statement is false (`second_timeline_needs_refs_not_b`: `b` is the `margin` dict A's caller dict refers to, and gets a `latex` entry;
`second_timeline_needs_refs_in_bounds`: a dangling reference in A's caller dict comes to life when B's objects are allocated).
`second_timeline_leaves_first_alone_pre` derives `hrefs` from the heap before A is built. -/
theorem second_timeline_leaves_first_alone (h : Heap) (a b : Option Nat) (domA domB : String)
    (hA : CallerOK h a) (hB : CallerOK (construct h a domA).1 b)
    (hnoscaleA : ∀ o, a = some o → dhas (h.dict o) "scale" = false)
    (hbnew : ∀ o, b = some o → o < h.dicts.size ∨ (construct h a domA).1.dicts.size ≤ o)   -- b existed before A, or is created after A: not one of A's own objects
    (hnoscaleB : ∀ o, b = some o → dhas ((construct h a domA).1.dict o) "scale" = false)
    (hrefs : RefsAvoid (construct h a domA).1 ((construct h a domA).1.dict (construct h a domA).2) b) :
    view (construct (construct h a domA).1 b domB).1 (construct h a domA).2 = view (construct h a domA).1 (construct h a domA).2 := by
  have hoA : ∀ o, a = some o → o < h.dicts.size := fun o h1 => (hA.2.2 o h1).2
  have hoB : ∀ o, b = some o → o < (construct h a domA).1.dicts.size := fun o h1 => (hB.2.2 o h1).2
  have hSlt := construct_snd_lt domA hoA
  have hSge := construct_snd_ge domA hoA
  obtain ⟨hsc, hscsize⟩ := construct_fresh_scale domA hoA hnoscaleA
  -- A's options dict is not B's caller dict
  have hd : (construct (construct h a domA).1 b domB).1.dict (construct h a domA).2 = (construct h a domA).1.dict (construct h a domA).2 := by
    apply construct_dict_of_ne domB hoB hSlt
    intro hb
    rcases hbnew _ hb with h1 | h1 <;> omega
  -- A's scale is not written
  have hs : (construct (construct h a domA).1 b domB).1.scales[h.scales.size]? = (construct h a domA).1.scales[h.scales.size]? := by
    apply construct_scales_of_not_mem domB hoB (by omega)
    intro o hb
    exact not_mem_of_dhas_false (hnoscaleB o hb) _
  refine view_congr hd (fun k r hp => ?_) (fun s hs' => ?_)
  · obtain ⟨h1, h2⟩ := hrefs k r hp
    exact construct_dict_of_ne domB hoB h1 h2
  · rw [hsc] at hs'
    cases hs'
    exact hs

/-- `hrefs` from the heap before A is built: the references in the module-level `DEFAULT_OPTIONS` and in A's caller dict exist and are not `b` -/
theorem second_timeline_leaves_first_alone_pre (h : Heap) (a b : Option Nat) (domA domB : String)
    (hA : CallerOK h a) (hB : CallerOK (construct h a domA).1 b)
    (hnoscaleA : ∀ o, a = some o → dhas (h.dict o) "scale" = false)
    (hbnew : ∀ o, b = some o → o < h.dicts.size ∨ (construct h a domA).1.dicts.size ≤ o)
    (hnoscaleB : ∀ o, b = some o → dhas ((construct h a domA).1.dict o) "scale" = false)
    (hrefs0 : RefsAvoid h (h.dict idDefaults) b) (hrefsA : ∀ o, a = some o → RefsAvoid h (h.dict o) b) :
    view (construct (construct h a domA).1 b domB).1 (construct h a domA).2 = view (construct h a domA).1 (construct h a domA).2 := by
  have hoA : ∀ o, a = some o → o < h.dicts.size := fun o h1 => (hA.2.2 o h1).2
  have hge := construct_size_ge domA hoA
  apply second_timeline_leaves_first_alone h a b domA domB hA hB hnoscaleA hbnew hnoscaleB
  intro k r hp
  have h0 : idDefaults < h.dicts.size := Nat.lt_of_lt_of_le (by decide) hA.1
  rcases mem_construct_self domA hoA h0 hp with hp | ⟨o, ho, hp⟩ | ⟨r', hr', h1, h2⟩ | ⟨s, hs⟩
  · obtain ⟨h1, h2⟩ := hrefs0 k r hp
    exact ⟨by omega, h2⟩
  · obtain ⟨h1, h2⟩ := hrefsA o ho k r hp
    exact ⟨by omega, h2⟩
  · cases hr'
    refine ⟨h2, fun hb => ?_⟩
    have := (hB.2.2 r hb).2
    rcases hbnew r hb with h3 | h3 <;> omega
  · cases hs

/-! #### the two ways the uncorrected isolation statement fails -/

/-- `b` is the `margin` dict (object 5) A's caller dict (object 6) refers to: building B writes `latex` into it, and A's view shows it -/
theorem second_timeline_needs_refs_not_b :
    let h : Heap := ((Heap.init.allocDict [("left", .atom "1")]).1.allocDict [("margin", .dict 5)]).1
    CallerOK h (some 6) ∧ CallerOK (construct h (some 6) "A").1 (some 5) ∧ dhas (h.dict 6) "scale" = false ∧ 5 < h.dicts.size ∧
      dhas ((construct h (some 6) "A").1.dict 5) "scale" = false ∧
      view (construct (construct h (some 6) "A").1 (some 5) "B").1 (construct h (some 6) "A").2 ≠ view (construct h (some 6) "A").1 (construct h (some 6) "A").2 := by
  refine ⟨⟨by decide, by decide, fun o ho => ?_⟩, ⟨by decide, by decide, fun o ho => ?_⟩, by decide, by decide, by decide, by decide⟩
  · cases ho; decide
  · cases ho; decide

/-- A's caller dict (object 5) has a dangling reference (object 10); B is built without options, and its new objects 9, 10, … fill the gap -/
theorem second_timeline_needs_refs_in_bounds :
    let h : Heap := (Heap.init.allocDict [("margin", .dict 10)]).1
    CallerOK h (some 5) ∧ CallerOK (construct h (some 5) "A").1 none ∧ dhas (h.dict 5) "scale" = false ∧
      view (construct (construct h (some 5) "A").1 none "B").1 (construct h (some 5) "A").2 ≠ view (construct h (some 5) "A").1 (construct h (some 5) "A").2 := by
  refine ⟨⟨by decide, by decide, fun o ho => ?_⟩, ⟨by decide, by decide, fun o ho => by cases ho⟩, by decide, by decide⟩
  cases ho; decide

/-! #### non-vacuity: the statements on concrete heaps -/

/-- the heap after `import labella.timeline`, a caller-owned `margin` dict (object 5) and a caller dict referring to it (object 6) -/
def exHeap1 : Heap := ((Heap.init.allocDict [("left", .atom "7")]).1.allocDict [("direction", .atom "up"), ("margin", .dict 5)]).1

theorem exHeap1_ok : CallerOK exHeap1 (some 6) :=
  ⟨by decide, by decide, fun o ho => by cases ho; decide⟩

/-- (1) after the constructor the module-level dicts 0 … 4 and the caller's `margin` dict are what they were, the caller's dict has gained exactly
`latex` (pointing to the new object 7, the merged LaTeX settings), and the timeline's options (object 8) use the caller's margin dict, an own
`labella` dict (object 9) and an own scale (object 1) -/
example :
    ((List.range 6).all fun j => (construct exHeap1 (some 6) "A").1.dict j == exHeap1.dict j) = true ∧
    (construct exHeap1 (some 6) "A").1.dict 6 = [("direction", .atom "up"), ("margin", .dict 5), ("latex", .dict 7)] ∧
    (construct exHeap1 (some 6) "A").1.dict 7 = Heap.init.dict idLatex ∧
    (construct exHeap1 (some 6) "A").2 = 8 ∧
    (construct exHeap1 (some 6) "A").1.dict 8 =
      [("margin", .dict 5), ("initialWidth", .atom "400"), ("scale", .scale 1), ("domain", .atom "None"), ("direction", .atom "up"),
       ("layerGap", .atom "60"), ("labella", .dict 9), ("labelPadding", .dict idPadding), ("showTicks", .atom "True"), ("latex", .dict 7)] ∧
    (construct exHeap1 (some 6) "A").1.dict 9 = [("direction", .atom "up")] ∧
    (construct exHeap1 (some 6) "A").1.scales = #["default", "A"] := by
  decide

/-- … and this is an instance of `construct_frame` / `construct_scale_frame` (their hypotheses hold here) -/
example : (construct exHeap1 (some 6) "A").1.dict idMargin = exHeap1.dict idMargin :=
  (construct_frame exHeap1 (some 6) "A" exHeap1_ok).1 idMargin (by decide) (by decide)
example : (construct exHeap1 (some 6) "A").1.scales[0]? = exHeap1.scales[0]? :=
  (construct_scale_frame exHeap1 (some 6) "A" exHeap1_ok (fun o ho => by cases ho; decide)).1 0 (by decide) (fun o ho => by cases ho; decide)

/-- (2) the `examples/` pattern: ONE caller dict (object 5, no `scale`) for two timelines with different domains -/
def exHeap2 : Heap := (Heap.init.allocDict [("direction", .atom "up"), ("initialWidth", .atom "600")]).1

/-- the hypotheses of `second_timeline_leaves_first_alone` hold for it (`a = b = some 5`), so the first timeline's view is untouched … -/
theorem example_pattern_isolated :
    view (construct (construct exHeap2 (some 5) "A").1 (some 5) "B").1 (construct exHeap2 (some 5) "A").2
      = view (construct exHeap2 (some 5) "A").1 (construct exHeap2 (some 5) "A").2 := by
  refine second_timeline_leaves_first_alone exHeap2 (some 5) (some 5) "A" "B"
    ⟨by decide, by decide, fun o ho => by cases ho; decide⟩ ⟨by decide, by decide, fun o ho => by cases ho; decide⟩
    (fun o ho => by cases ho; decide) (fun o ho => by cases ho; exact Or.inl (by decide)) (fun o ho => by cases ho; decide) ?_
  exact refsAvoid_of_check (by decide)

/-- … (the same by evaluation), the view is not trivial: it shows A's domain, and the two timelines (options dicts 7 and 10) refer to different
scale objects, different `labella` dicts and different merged-latex dicts; the shared caller dict points to the LAST latex dict -/
example :
    view (construct (construct exHeap2 (some 5) "A").1 (some 5) "B").1 7 = view (construct exHeap2 (some 5) "A").1 7 ∧
    (view (construct (construct exHeap2 (some 5) "A").1 (some 5) "B").1 7).2.2 = some "A" ∧
    (view (construct (construct exHeap2 (some 5) "A").1 (some 5) "B").1 10).2.2 = some "B" ∧
    (construct exHeap2 (some 5) "A").2 = 7 ∧ (construct (construct exHeap2 (some 5) "A").1 (some 5) "B").2 = 10 ∧
    dget ((construct (construct exHeap2 (some 5) "A").1 (some 5) "B").1.dict 7) "scale" = some (.scale 1) ∧
    dget ((construct (construct exHeap2 (some 5) "A").1 (some 5) "B").1.dict 10) "scale" = some (.scale 2) ∧
    dget ((construct (construct exHeap2 (some 5) "A").1 (some 5) "B").1.dict 7) "labella" = some (.dict 8) ∧
    dget ((construct (construct exHeap2 (some 5) "A").1 (some 5) "B").1.dict 10) "labella" = some (.dict 11) ∧
    dget ((construct (construct exHeap2 (some 5) "A").1 (some 5) "B").1.dict 7) "latex" = some (.dict 6) ∧
    dget ((construct (construct exHeap2 (some 5) "A").1 (some 5) "B").1.dict 10) "latex" = some (.dict 9) ∧
    (construct (construct exHeap2 (some 5) "A").1 (some 5) "B").1.dict 5 =
      [("direction", .atom "up"), ("initialWidth", .atom "600"), ("latex", .dict 9)] ∧
    (construct (construct exHeap2 (some 5) "A").1 (some 5) "B").1.scales = #["default", "A", "B"] := by
  decide

/-- (3) for contrast, the seeded change C10-scale-written-into-caller-options: `options.setdefault("scale", TimeScale())` — the new scale object is
written into the CALLER's dict (from where `self.options.update(options)` picks it up), the rest of the constructor is unchanged -/
def constructLeaky (h : Heap) (opts : Option Nat) (dom : String) : Heap × Nat :=
  let (h, o) := match opts with
    | some o => (h, o)
    | none => h.allocDict []
  let h := if dhas (h.dict o) "scale" then h else
    let r := h.allocScale "fresh"
    r.1.setDict o (dset (r.1.dict o) "scale" (.scale r.2))
  construct h (some o) dom

/-- one timeline alone behaves as before … -/
example : view (constructLeaky exHeap2 (some 5) "A").1 (constructLeaky exHeap2 (some 5) "A").2
    = view (construct exHeap2 (some 5) "A").1 (construct exHeap2 (some 5) "A").2 := by
  decide

/-- … but with the shared caller dict the second timeline gets the FIRST timeline's scale object out of the caller's dict and re-domains it:
the first timeline's view changes (its scale now shows "B"), which `second_timeline_leaves_first_alone` excludes for `construct`
(`example_pattern_isolated`, same heap, same dict, same domains) -/
theorem leaky_breaks_isolation :
    view (constructLeaky (constructLeaky exHeap2 (some 5) "A").1 (some 5) "B").1 (constructLeaky exHeap2 (some 5) "A").2
      ≠ view (constructLeaky exHeap2 (some 5) "A").1 (constructLeaky exHeap2 (some 5) "A").2 ∧
    (view (constructLeaky exHeap2 (some 5) "A").1 (constructLeaky exHeap2 (some 5) "A").2).2.2 = some "A" ∧
    (view (constructLeaky (constructLeaky exHeap2 (some 5) "A").1 (some 5) "B").1 (constructLeaky exHeap2 (some 5) "A").2).2.2 = some "B" ∧
    -- the two timelines share one scale object, and the caller's dict now carries it
    dget ((constructLeaky (constructLeaky exHeap2 (some 5) "A").1 (some 5) "B").1.dict (constructLeaky exHeap2 (some 5) "A").2) "scale"
      = dget ((constructLeaky (constructLeaky exHeap2 (some 5) "A").1 (some 5) "B").1.dict
          (constructLeaky (constructLeaky exHeap2 (some 5) "A").1 (some 5) "B").2) "scale" ∧
    dget ((constructLeaky exHeap2 (some 5) "A").1.dict 5) "scale" = some (.scale 1) := by
  decide

/-- the frame theorem tells the two apart as well: the leaky constructor writes the caller's dict at a key other than `latex` -/
example : ¬ ∃ L, (constructLeaky exHeap2 (some 5) "A").1.dict 5 = dset (exHeap2.dict 5) "latex" (.dict L) := by
  rintro ⟨L, hL⟩
  have := congrArg (fun d => dhas d "scale") hL
  rw [dhas_dset] at this
  revert this
  decide

end Objects

end Labella.C10
