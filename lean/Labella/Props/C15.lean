import Labella.Props.C12
import Labella.Model.CalSpec
/-! # C15 — the time scale is affine in elapsed time and invertible

The time scale is the linear scale applied to integer milliseconds since the epoch, so every statement is a
corollary of C12; instants are arbitrary integers (any two distinct instants, either order). -/
namespace Labella.C15
open Labella Labella.Scale Labella.Calendar

/-- it agrees with a linear scale applied to milliseconds since the epoch (by construction of the model; the
correspondence check compares the real `TimeScale` with this) -/
theorem agrees_with_linear (d0 d1 : Int) (r0 r1 : ℚ) (t : Int) :
    timeApply d0 d1 r0 r1 t = Scale.apply false (d0 : ℚ) (d1 : ℚ) r0 r1 (t : ℚ) := rfl

/-- the two domain instants map to the two range end points -/
theorem time_endpoints (d0 d1 : Int) (r0 r1 : ℚ) (h : d0 ≠ d1) :
    timeApply d0 d1 r0 r1 d0 = r0 ∧ timeApply d0 d1 r0 r1 d1 = r1 :=
  C12.endpoints false _ _ r0 r1 (by exact_mod_cast h)

/-- every other instant is mapped proportionally to elapsed time: the image of a duration depends only on its
length, `scale(t₂) − scale(t₁) = (r1 − r0)·(t₂ − t₁)/(d1 − d0)` — equal durations map to equal lengths -/
theorem time_proportional (d0 d1 : Int) (r0 r1 : ℚ) (h : d0 ≠ d1) (t1 t2 : Int) :
    timeApply d0 d1 r0 r1 t2 - timeApply d0 d1 r0 r1 t1
      = (r1 - r0) * (((t2 - t1 : Int) : ℚ) / ((d1 - d0 : Int) : ℚ)) := by
  have hne : (d0 : ℚ) ≠ (d1 : ℚ) := by exact_mod_cast h
  have hd : ((d1 : ℚ) - (d0 : ℚ)) ≠ 0 := sub_ne_zero.mpr (Ne.symm hne)
  simp only [timeApply, C12.affine _ _ r0 r1 _ hne]
  push_cast
  field_simp
  ring

/-- later instants map strictly farther along the range -/
theorem time_strict_mono (d0 d1 : Int) (r0 r1 : ℚ) (h : d0 ≠ d1) (hr : r0 ≠ r1) (t1 t2 : Int) (ht : t1 < t2) :
    if ((d0 : ℚ) < d1 ↔ r0 < r1) then timeApply d0 d1 r0 r1 t1 < timeApply d0 d1 r0 r1 t2
    else timeApply d0 d1 r0 r1 t2 < timeApply d0 d1 r0 r1 t1 :=
  C12.strict_mono _ _ r0 r1 _ _ (by exact_mod_cast h) hr (by exact_mod_cast ht)

/-- `invert` returns the original instant (exactly, over ℚ; to within a millisecond in floating point — sampled
by the correspondence check) -/
theorem time_invert (d0 d1 : Int) (r0 r1 : ℚ) (h : d0 ≠ d1) (hr : r0 ≠ r1) (t : Int) :
    timeInvert d0 d1 r0 r1 (timeApply d0 d1 r0 r1 t) = (t : ℚ) :=
  C12.invert_apply _ _ r0 r1 _ (by exact_mod_cast h) hr

-- non-vacuity: one day mapped onto [0, 240]: 06:00 ↦ 60
example : timeApply 0 86400000 0 240 21600000 = 60 := by
  norm_num [timeApply, Scale.apply, interp, uninterp]

end Labella.C15
