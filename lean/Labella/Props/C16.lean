import Labella.Proofs.CalendarLemmas
import Labella.Proofs.TimeTickLemmas
import Labella.Model.CalSpec
/-! # C16 — time ticks increase, stay in the domain, sit on calendar boundaries
# C14 (time part) — time nice() only widens, onto calendar boundaries
# C15 — the time scale is the linear scale on milliseconds

All statements hold for every pair of integer instants (not only 1900–2200) and every count `m > 0`. -/
namespace Labella.C16
open Labella Labella.Calendar

/-! ### hierarchy of calendar boundaries -/

theorem boundary_hierarchy (t : Int) :
    (isBoundary .year t = true → isBoundary .month t = true) ∧
    (isBoundary .month t = true → isBoundary .day t = true) ∧
    (isBoundary .week t = true → isBoundary .day t = true) ∧
    (isBoundary .day t = true → isBoundary .hour t = true) ∧
    (isBoundary .hour t = true → isBoundary .minute t = true) ∧
    (isBoundary .minute t = true → isBoundary .second t = true) := by
  simp only [isBoundary, beq_iff_eq, Bool.and_eq_true, msPerDay]
  refine ⟨fun h => h.1, fun h => h.1, fun h => h.1, ?_, ?_, ?_⟩ <;> omega

/-! ### ticks -/

/-- the millisecond range lists exactly the multiples of the (integer, ≥ 1) step in `[t0, t1)` -/
theorem msRange_mem (t0 t1 : Int) (step : Rat) (x : Int) :
    x ∈ msRange t0 t1 step ↔
      (t0 ≤ x ∧ x < t1 ∧ x % (if step.floor < 1 then 1 else step.floor) = 0) := by
  exact msRange_mem' t0 t1 step x

theorem msRange_increasing (t0 t1 : Int) (step : Rat) : strictlyIncreasingB (msRange t0 t1 step) = true := by
  exact msRange_increasing' t0 t1 step

/-- ticks are strictly increasing (in particular pairwise distinct) -/
theorem ticks_increasing (d0 d1 : Int) (m : Rat) : strictlyIncreasingB (ticks d0 d1 m) = true := by
  unfold ticks
  simp only
  split
  · exact msRange_increasing' _ _ _
  · exact calRange_increasing _ _ _ _

/-- every tick lies inside the domain (either orientation) -/
theorem ticks_in_domain (d0 d1 : Int) (m : Rat) : inDomainB (min d0 d1) (max d0 d1) (ticks d0 d1 m) = true := by
  unfold inDomainB
  rw [List.all_eq_true]
  intro x hx
  unfold ticks at hx
  simp only at hx
  split at hx
  · have := (msRange_mem' _ _ _ _).1 hx
    simp only [Bool.and_eq_true, decide_eq_true_eq]
    omega
  · have := calRange_sub _ _ _ _ _ hx
    simp only [Bool.and_eq_true, decide_eq_true_eq]
    omega

/-- when the chosen method is a calendar unit, every tick is a boundary of that unit — hence, by
`boundary_hierarchy`, of every finer unit: whole seconds / minutes / hours, midnight for day-or-coarser, first of
the month for month-or-coarser, 1 January for yearly -/
theorem ticks_on_boundaries (d0 d1 : Int) (m : Rat) (u : TUnit) (s : Rat)
    (h : tickMethod (min d0 d1) (max d0 d1) m = .cal u s) :
    ∀ t ∈ ticks d0 d1 m, isBoundary u t = true := by
  intro t ht
  unfold ticks at ht
  simp only [h] at ht
  exact (calRange_sub _ _ _ _ _ ht).1

/-- … and for an integral skip they are exactly the boundaries in the domain whose unit number is divisible by it -/
theorem ticks_mem_cal (d0 d1 : Int) (m : Rat) (u : TUnit) (s : Rat)
    (h : tickMethod (min d0 d1) (max d0 d1) m = .cal u s) (hs : (effSkip s).den = 1) (x : Int) :
    x ∈ ticks d0 d1 m ↔
      (isBoundary u x = true ∧ min d0 d1 ≤ x ∧ x ≤ max d0 d1 ∧
        ((effSkip s).num ≤ 1 ∨ numberU u x % (effSkip s).num = 0)) := by
  unfold ticks
  simp only [h]
  rw [calRange_mem_int _ _ _ _ hs]
  constructor
  · rintro ⟨a, b, c, d⟩; exact ⟨a, b, by omega, d⟩
  · rintro ⟨a, b, c, d⟩; exact ⟨a, b, by omega, d⟩

/-- sub-second domains: one tick per multiple of the integer millisecond step -/
theorem ticks_mem_ms (d0 d1 : Int) (m : Rat) (s : Rat)
    (h : tickMethod (min d0 d1) (max d0 d1) m = .ms s) (x : Int) :
    x ∈ ticks d0 d1 m ↔
      (min d0 d1 ≤ x ∧ x ≤ max d0 d1 ∧ x % (if (effSkip s).floor < 1 then 1 else (effSkip s).floor) = 0) := by
  unfold ticks
  simp only [h]
  rw [msRange_mem']
  constructor
  · rintro ⟨a, b, c⟩; exact ⟨a, by omega, c⟩
  · rintro ⟨a, b, c⟩; exact ⟨a, by omega, c⟩

/-! ### nice (time) -/

/-- floor and ceil of the method's interval bracket the instant -/
theorem mFloor_le (m : Method) (t : Int) : mFloor m t ≤ t := by
  exact mFloor_le' m t

theorem le_mCeil (m : Method) (t : Int) : t ≤ mCeil m t := by
  exact le_mCeil' m t

/-- the skip loops only move further out -/
theorem niceFloor_le (m : Method) (fuel : Nat) (t : Int) : niceFloor m fuel t ≤ t := by
  exact niceFloor_le' m fuel t

theorem le_niceCeil (m : Method) (fuel : Nat) (t : Int) : t ≤ niceCeil m fuel t := by
  exact le_niceCeil' m fuel t

/-- making a time domain nice never moves an end inward and never reverses its orientation -/
theorem nice_widens (d0 d1 : Int) (m : Rat) :
    (d0 ≤ d1 → (nice d0 d1 m).1 ≤ d0 ∧ d1 ≤ (nice d0 d1 m).2) ∧
    (d1 < d0 → d0 ≤ (nice d0 d1 m).1 ∧ (nice d0 d1 m).2 ≤ d1) := by
  rw [nice_eq]
  have W := niceRaw_widens (min d0 d1) (max d0 d1) (tickMethod (min d0 d1) (max d0 d1) m)
  constructor
  · intro hle
    rw [if_neg (by omega)]
    have e0 : min d0 d1 = d0 := by omega
    have e1 : max d0 d1 = d1 := by omega
    rw [e0, e1] at W ⊢
    exact W
  · intro hlt
    rw [if_pos hlt]
    have e0 : min d0 d1 = d1 := by omega
    have e1 : max d0 d1 = d0 := by omega
    rw [e0, e1] at W ⊢
    exact ⟨W.2, W.1⟩

/-- with a calendar method both new ends are boundaries of the method's unit (so aligned at least as coarsely as the ticks) -/
theorem nice_on_boundaries (d0 d1 : Int) (m : Rat) (u : TUnit) (s : Rat)
    (h : tickMethod (min d0 d1) (max d0 d1) m = .cal u s) :
    isBoundary u (nice d0 d1 m).1 = true ∧ isBoundary u (nice d0 d1 m).2 = true := by
  rw [nice_eq, h]
  have B := niceRaw_boundary (min d0 d1) (max d0 d1) u s
  split
  · exact ⟨B.2, B.1⟩
  · exact B

-- non-vacuity (evaluated): ticks 0 86400000 10 = every 3 hours of 1970-01-01; nice 1000 90000000 10 = (0, 97200000)
example : tickMethod 0 86400000 10 = .cal .hour 3 := by
  decide +kernel
example : ticks 0 86400000 10 =
    [0, 10800000, 21600000, 32400000, 43200000, 54000000, 64800000, 75600000, 86400000] := by
  decide +kernel
example : nice 1000 90000000 10 = (0, 97200000) := by
  decide +kernel

end Labella.C16

