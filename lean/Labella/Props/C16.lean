import Labella.Proofs.CalendarLemmas
import Labella.Proofs.TimeTickLemmas
import Labella.Proofs.TickCountLemmas
import Labella.Proofs.TimeNiceLemmas
import Labella.Model.CalSpec
/-! # C16 — time ticks increase, stay in the domain, sit on calendar boundaries
# C14 (time part) — time nice() only widens, onto calendar boundaries
# C15 — the time scale is the linear scale on milliseconds

All statements hold for every pair of integer instants (not only 1900–2200) and every count `m > 0`. -/
namespace Labella.C16
open Labella Labella.Calendar

/-! ### hierarchy of calendar boundaries -/

theorem boundary_hierarchy (t : Int) :
    (isBoundary .year t = true → isBoundary .month t = true) ∧
    (isBoundary .month t = true → isBoundary .day t = true) ∧
    (isBoundary .week t = true → isBoundary .day t = true) ∧
    (isBoundary .day t = true → isBoundary .hour t = true) ∧
    (isBoundary .hour t = true → isBoundary .minute t = true) ∧
    (isBoundary .minute t = true → isBoundary .second t = true) := by
  simp only [isBoundary, beq_iff_eq, Bool.and_eq_true, msPerDay]
  refine ⟨fun h => h.1, fun h => h.1, fun h => h.1, ?_, ?_, ?_⟩ <;> omega

/-! ### ticks -/

/-- the millisecond range lists exactly the multiples of the (integer, ≥ 1) step in `[t0, t1)` -/
theorem msRange_mem (t0 t1 : Int) (step : Rat) (x : Int) :
    x ∈ msRange t0 t1 step ↔
      (t0 ≤ x ∧ x < t1 ∧ x % (if step.floor < 1 then 1 else step.floor) = 0) := by
  exact msRange_mem' t0 t1 step x

theorem msRange_increasing (t0 t1 : Int) (step : Rat) : strictlyIncreasingB (msRange t0 t1 step) = true := by
  exact msRange_increasing' t0 t1 step

/-- ticks are strictly increasing (in particular pairwise distinct) -/
theorem ticks_increasing (d0 d1 : Int) (m : Rat) : strictlyIncreasingB (ticks d0 d1 m) = true := by
  unfold ticks
  simp only
  split
  · exact msRange_increasing' _ _ _
  · exact calRange_increasing _ _ _ _

/-- every tick lies inside the domain (either orientation) -/
theorem ticks_in_domain (d0 d1 : Int) (m : Rat) : inDomainB (min d0 d1) (max d0 d1) (ticks d0 d1 m) = true := by
  unfold inDomainB
  rw [List.all_eq_true]
  intro x hx
  unfold ticks at hx
  simp only at hx
  split at hx
  · have := (msRange_mem' _ _ _ _).1 hx
    simp only [Bool.and_eq_true, decide_eq_true_eq]
    omega
  · have := calRange_sub _ _ _ _ _ hx
    simp only [Bool.and_eq_true, decide_eq_true_eq]
    omega

/-- when the chosen method is a calendar unit, every tick is a boundary of that unit — hence, by
`boundary_hierarchy`, of every finer unit: whole seconds / minutes / hours, midnight for day-or-coarser, first of
the month for month-or-coarser, 1 January for yearly -/
theorem ticks_on_boundaries (d0 d1 : Int) (m : Rat) (u : TUnit) (s : Rat)
    (h : tickMethod (min d0 d1) (max d0 d1) m = .cal u s) :
    ∀ t ∈ ticks d0 d1 m, isBoundary u t = true := by
  intro t ht
  unfold ticks at ht
  simp only [h] at ht
  exact (calRange_sub _ _ _ _ _ ht).1

/-- … and for an integral skip they are exactly the boundaries in the domain whose unit number is divisible by it -/
theorem ticks_mem_cal (d0 d1 : Int) (m : Rat) (u : TUnit) (s : Rat)
    (h : tickMethod (min d0 d1) (max d0 d1) m = .cal u s) (hs : (effSkip s).den = 1) (x : Int) :
    x ∈ ticks d0 d1 m ↔
      (isBoundary u x = true ∧ min d0 d1 ≤ x ∧ x ≤ max d0 d1 ∧
        ((effSkip s).num ≤ 1 ∨ numberU u x % (effSkip s).num = 0)) := by
  unfold ticks
  simp only [h]
  rw [calRange_mem_int _ _ _ _ hs]
  constructor
  · rintro ⟨a, b, c, d⟩; exact ⟨a, b, by omega, d⟩
  · rintro ⟨a, b, c, d⟩; exact ⟨a, b, by omega, d⟩

/-- sub-second domains: one tick per multiple of the integer millisecond step -/
theorem ticks_mem_ms (d0 d1 : Int) (m : Rat) (s : Rat)
    (h : tickMethod (min d0 d1) (max d0 d1) m = .ms s) (x : Int) :
    x ∈ ticks d0 d1 m ↔
      (min d0 d1 ≤ x ∧ x ≤ max d0 d1 ∧ x % (if (effSkip s).floor < 1 then 1 else (effSkip s).floor) = 0) := by
  unfold ticks
  simp only [h]
  rw [msRange_mem']
  constructor
  · rintro ⟨a, b, c⟩; exact ⟨a, by omega, c⟩
  · rintro ⟨a, b, c⟩; exact ⟨a, by omega, c⟩

/-! ### nice (time) -/

/-- floor and ceil of the method's interval bracket the instant -/
theorem mFloor_le (m : Method) (t : Int) : mFloor m t ≤ t := by
  exact mFloor_le' m t

theorem le_mCeil (m : Method) (t : Int) : t ≤ mCeil m t := by
  exact le_mCeil' m t

/-- the skip loops only move further out -/
theorem niceFloor_le (m : Method) (fuel : Nat) (t : Int) : niceFloor m fuel t ≤ t := by
  exact niceFloor_le' m fuel t

theorem le_niceCeil (m : Method) (fuel : Nat) (t : Int) : t ≤ niceCeil m fuel t := by
  exact le_niceCeil' m fuel t

/-- making a time domain nice never moves an end inward and never reverses its orientation -/
theorem nice_widens (d0 d1 : Int) (m : Rat) :
    (d0 ≤ d1 → (nice d0 d1 m).1 ≤ d0 ∧ d1 ≤ (nice d0 d1 m).2) ∧
    (d1 < d0 → d0 ≤ (nice d0 d1 m).1 ∧ (nice d0 d1 m).2 ≤ d1) := by
  rw [nice_eq]
  have W := niceRaw_widens (min d0 d1) (max d0 d1) (tickMethod (min d0 d1) (max d0 d1) m)
  constructor
  · intro hle
    rw [if_neg (by omega)]
    have e0 : min d0 d1 = d0 := by omega
    have e1 : max d0 d1 = d1 := by omega
    rw [e0, e1] at W ⊢
    exact W
  · intro hlt
    rw [if_pos hlt]
    have e0 : min d0 d1 = d1 := by omega
    have e1 : max d0 d1 = d0 := by omega
    rw [e0, e1] at W ⊢
    exact ⟨W.2, W.1⟩

/-- with a calendar method both new ends are boundaries of the method's unit (so aligned at least as coarsely as the ticks) -/
theorem nice_on_boundaries (d0 d1 : Int) (m : Rat) (u : TUnit) (s : Rat)
    (h : tickMethod (min d0 d1) (max d0 d1) m = .cal u s) :
    isBoundary u (nice d0 d1 m).1 = true ∧ isBoundary u (nice d0 d1 m).2 = true := by
  rw [nice_eq, h]
  have B := niceRaw_boundary (min d0 d1) (max d0 d1) u s
  split
  · exact ⟨B.2, B.1⟩
  · exact B

-- non-vacuity (evaluated): ticks 0 86400000 10 = every 3 hours of 1970-01-01; nice 1000 90000000 10 = (0, 97200000)
example : tickMethod 0 86400000 10 = .cal .hour 3 := by
  decide +kernel
example : ticks 0 86400000 10 =
    [0, 10800000, 21600000, 32400000, 43200000, 54000000, 64800000, 75600000, 86400000] := by
  decide +kernel
example : nice 1000 90000000 10 = (0, 97200000) := by
  decide +kernel

/-! ### gaps and counts -/

open Labella Labella.Calendar

/-- nominal spacing (ms) of the methods whose ticks are equally spaced: every `k` seconds/minutes/hours with `k`
dividing the enclosing minute/hour/day, every day, every week -/
def uniformStep : TUnit → Int → Option Int
  | .second, k => if k = 1 ∨ k = 5 ∨ k = 15 ∨ k = 30 then some (k * 1000) else none
  | .minute, k => if k = 1 ∨ k = 5 ∨ k = 15 ∨ k = 30 then some (k * 60000) else none
  | .hour, k => if k = 1 ∨ k = 3 ∨ k = 6 ∨ k = 12 then some (k * 3600000) else none
  | .day, k => if k = 1 then some 86400000 else none
  | .week, k => if k = 1 then some 604800000 else none
  | _, _ => none

theorem uniformStep_pos {u : TUnit} {k S : Int} (hS : uniformStep u k = some S) : 0 < S := by
  cases u <;> simp only [uniformStep] at hS
  all_goals first
    | (split at hS
       · injection hS with hS; subst hS; omega
       · exact absurd hS (by simp))
    | exact absurd hS (by simp)

/-- equally spaced methods: the ticks are exactly the instants of the domain in one residue class modulo the spacing
(residue 0, except weeks: Sundays are 3 days after a multiple of 7 days from the epoch, a Thursday) -/
theorem ticks_uniform (d0 d1 : Int) (m : Rat) (u : TUnit) (s : Rat) (S : Int)
    (h : tickMethod (min d0 d1) (max d0 d1) m = .cal u s) (hs : (effSkip s).den = 1)
    (hS : uniformStep u (effSkip s).num = some S) (x : Int) :
    x ∈ ticks d0 d1 m ↔
      (min d0 d1 ≤ x ∧ x ≤ max d0 d1 ∧ x % S = (if u = .week then 259200000 else 0)) := by
  rw [ticks_cal_mem d0 d1 m u s h hs x]
  generalize (effSkip s).num = k at hS
  apply iff_reassoc
  cases u <;> simp only [uniformStep] at hS
  · split at hS
    · injection hS with hS; subst hS
      simpa using uniform_second k x ‹_›
    · exact absurd hS (by simp)
  · split at hS
    · injection hS with hS; subst hS
      simpa using uniform_minute k x ‹_›
    · exact absurd hS (by simp)
  · split at hS
    · injection hS with hS; subst hS
      simpa using uniform_hour k x ‹_›
    · exact absurd hS (by simp)
  · split at hS
    · injection hS with hS; subst hS
      rename_i hk; subst hk
      simpa using uniform_day x
    · exact absurd hS (by simp)
  · split at hS
    · injection hS with hS; subst hS
      rename_i hk; subst hk
      simpa using uniform_week x
    · exact absurd hS (by simp)
  · exact absurd hS (by simp)
  · exact absurd hS (by simp)

/-- hence all their gaps are equal to the spacing -/
theorem gaps_uniform (d0 d1 : Int) (m : Rat) (u : TUnit) (s : Rat) (S : Int)
    (h : tickMethod (min d0 d1) (max d0 d1) m = .cal u s) (hs : (effSkip s).den = 1)
    (hS : uniformStep u (effSkip s).num = some S) :
    ∀ g ∈ gapsOf (ticks d0 d1 m), g = S := by
  exact gaps_residue _ (ticks_incr d0 d1 m) (min d0 d1) (max d0 d1) S _ (uniformStep_pos hS)
    (fun x => ticks_uniform d0 d1 m u s S h hs hS x)

/-- the millisecond branch is equally spaced too -/
theorem gaps_ms (d0 d1 : Int) (m : Rat) (s : Rat)
    (h : tickMethod (min d0 d1) (max d0 d1) m = .ms s) :
    ∀ g ∈ gapsOf (ticks d0 d1 m), g = (if (effSkip s).floor < 1 then 1 else (effSkip s).floor) := by
  exact gaps_residue _ (ticks_incr d0 d1 m) (min d0 d1) (max d0 d1) _ 0 (msStep_pos _)
    (fun x => ticks_ms_mem d0 d1 m s h x)

/-- the step table: every method the table can select is either equally spaced or one of day/2, month/1, month/3 -/
theorem table_methods (e0 e1 : Int) (m : Rat) (u : TUnit) (s : Rat) (hm : 0 < m)
    (h : tickMethod e0 e1 m = .cal u s) (hu : u ≠ .year) :
    (effSkip s).den = 1 ∧
    ((uniformStep u (effSkip s).num).isSome = true ∨ (u = .day ∧ s = 2) ∨ (u = .month ∧ (s = 1 ∨ s = 3))) := by
  have _ := hm
  have T := tickMethod_table e0 e1 m u s h hu
  have e1' : effSkip (1 : Rat) = 1 := effSkip_of_ge (by norm_num)
  have e2' : effSkip (2 : Rat) = 2 := effSkip_of_ge (by norm_num)
  have e3' : effSkip (3 : Rat) = 3 := effSkip_of_ge (by norm_num)
  have e5' : effSkip (5 : Rat) = 5 := effSkip_of_ge (by norm_num)
  have e6' : effSkip (6 : Rat) = 6 := effSkip_of_ge (by norm_num)
  have e12' : effSkip (12 : Rat) = 12 := effSkip_of_ge (by norm_num)
  have e15' : effSkip (15 : Rat) = 15 := effSkip_of_ge (by norm_num)
  have e30' : effSkip (30 : Rat) = 30 := effSkip_of_ge (by norm_num)
  rcases T with ⟨rfl, hs⟩ | ⟨rfl, hs⟩ | ⟨rfl, hs⟩ | ⟨rfl, hs⟩ | ⟨rfl, hs⟩ | ⟨rfl, hs⟩
  · rcases hs with rfl | rfl | rfl | rfl <;> simp [*, uniformStep]
  · rcases hs with rfl | rfl | rfl | rfl <;> simp [*, uniformStep]
  · rcases hs with rfl | rfl | rfl | rfl <;> simp [*, uniformStep]
  · rcases hs with rfl | rfl <;> simp [*, uniformStep]
  · subst hs; simp [*, uniformStep]
  · rcases hs with rfl | rfl <;> simp [*, uniformStep]

/-- **Gap ratio**: consecutive gaps differ by at most a factor of two — every domain, every count -/
theorem gap_ratio (d0 d1 : Int) (m : Rat) (hm : 0 < m) : gapRatioB (ticks d0 d1 m) = true := by
  obtain ⟨Q, a, b, R⟩ := row_exists d0 d1 m hm
  exact gapRatio_of_bounds _ a b (R.sp.gaps _ (ticks_incr d0 d1 m) _ _ R.mem) R.ratio

/-- the chosen table step is within a factor √5 of the target spacing `span/m` (the table's largest ratio between
neighbouring steps is 5, and the geometric-mean rule picks the nearer one): `S² ≤ 5·target²` and `target² < 5·S²` -/
theorem table_step_near_target (e0 e1 : Int) (m : Rat) (hm : 0 < m) (i : Nat)
    (hi : bisectRight Gen.timeScaleSteps (((e1 - e0 : Int) : Rat) / m) = i) (h0 : 0 < i) (hlt : i < Gen.timeScaleSteps.length) :
    let target : Rat := ((e1 - e0 : Int) : Rat) / m
    let lo := Gen.timeScaleSteps.getD (i - 1) 1
    let hi := Gen.timeScaleSteps.getD i 1
    let S := if target / lo < hi / target then lo else hi
    S * S ≤ 5 * (target * target) ∧ target * target < 5 * (S * S) := by
  have _ := hm
  intro target lo hi' S
  have sp := bisect_spec target Gen.timeScaleSteps
  rw [hi] at sp
  have ta := table_adjacent i h0 hlt
  exact near_target_core lo hi' target ta.1 (sp.1 (i - 1) (by omega)) (sp.2 hlt) ta.2

/-- **Count**: for EVERY whole count m ≥ 2 the number of ticks lies between m/2.4 − 1 and 2.4·m + 1, or the domain is shorter
than m milliseconds and gets one tick per millisecond -/
theorem tick_count (d0 d1 : Int) (m : Nat) (hm : 2 ≤ m) :
    countB (min d0 d1) (max d0 d1) (m : Rat) (ticks d0 d1 (m : Rat)) = true := by
  exact count_ok d0 d1 m hm

/-- **C16 in full** for the model: the complete tick predicate holds for every domain and EVERY whole count m ≥ 2 -/
theorem ticks_ok (d0 d1 : Int) (m : Nat) (hm : 2 ≤ m) :
    ticksOKB d0 d1 (m : Rat) (ticks d0 d1 (m : Rat)) = true := by
  exact ticksOK_all d0 d1 m hm

/-- the heart of `nice_ok`: there is a tick grid `Q` — the ticks of the original domain are exactly the points of `Q`
inside it, consecutive points of `Q` are between `a` and `b ≤ 2a` apart — such that the nice domain's lower end is the
GREATEST point of `Q` not after `min d0 d1` and its upper end the LEAST point of `Q` not before `max d0 d1` -/
theorem nice_nearest_grid_points (d0 d1 : Int) (m : Rat) (hm : 0 < m) :
    ∃ (Q : Int → Prop) (a b : Int), Spaced Q a b ∧ b ≤ 2 * a ∧
      (∀ x, x ∈ ticks d0 d1 m ↔ (min d0 d1 ≤ x ∧ x ≤ max d0 d1 ∧ Q x)) ∧
      GreatestLE Q (min d0 d1) (if d1 < d0 then (nice d0 d1 m).2 else (nice d0 d1 m).1) ∧
      LeastGE Q (max d0 d1) (if d1 < d0 then (nice d0 d1 m).1 else (nice d0 d1 m).2) := by
  exact nice_nearest d0 d1 m hm

/-- **C14 (time part) in full** for the model: for every domain and EVERY positive count (whole or fractional) the nice domain satisfies the complete predicate: ends only move outward, by less than two tick steps (largest gap of the original domain's ticks), onto boundaries at least as coarse as the tick spacing -/
theorem nice_ok (d0 d1 : Int) (m : Rat) (hm : 0 < m) :
    niceOKB d0 d1 m (nice d0 d1 m).1 (nice d0 d1 m).2 = true := by
  exact niceOK_all d0 d1 m hm

-- non-vacuity (evaluated): the domain below has nine ticks 3 h apart; its ends move out by 1 s and 1 h 40 min
example : niceOKB 1000 90000000 10 0 97200000 = true := by
  decide +kernel

end Labella.C16
