import Labella.Model.Render
import Labella.Model.Pipeline
import Labella.Proofs.Rounding
import Labella.Proofs.RenderLemmas
import Mathlib.Algebra.Order.Field.Rat
import Mathlib.Tactic.Ring
import Mathlib.Tactic.Linarith
import Mathlib.Tactic.NormNum
import Labella.Props.C01
import Labella.Proofs.PipelineLemmas
import Labella.Proofs.PipelineEval
/-! # C08 — drawn label boxes are pairwise disjoint and sit on the chosen side of the axis

Along the axis disjointness follows from the C01 separation (label spacing ≥ 3 absorbs 1 unit of position rounding
and < 2 units of origin truncation); across the axis from the layer offsets (layer gap ≥ 1). -/
namespace Labella.C08
open Labella Labella.Render

/-! ### C08: boxes -/

/-- two labels of one layer whose centres keep the C01 separation with a label spacing of at least 3 are drawn as
disjoint boxes: the slack consumed by rounding positions (1) and truncating two origins (< 2) is < 3.
`sep` is what C01 guarantees: `c_j − c_i ≥ (width_i + width_j)/2 + spacing − 1 − tol`. -/
theorem boxes_disjoint_along_axis (o : ROpt) (a b : RNode) (spacing tol : ℚ)
    (hla : a.layer = b.layer)
    (ha : if o.dir.horizontalAxis then a.width = a.w else a.width = a.h)
    (hb : if o.dir.horizontalAxis then b.width = b.w else b.width = b.h)
    (hsp : 3 ≤ spacing) (htol : 0 ≤ tol)
    (hsep : (a.width + b.width) / 2 + spacing - 1 - tol ≤ b.cur - a.cur) :
    let A := modelBox o a
    let B := modelBox o b
    if o.dir.horizontalAxis then A.ox + A.w - tol < B.ox else A.oy + A.h - tol < B.oy := by
  intro A B
  have ka := abs_lt.mp (truncToZero_close (a.cur - a.width / 2))
  have kb := abs_lt.mp (truncToZero_close (b.cur - b.width / 2))
  cases hd : o.dir
  · rw [hd] at ha hb
    simp only [Dir.horizontalAxis, if_true] at ha hb ⊢
    simp only [A, B, modelBox_eq, nodePos_up o _ hd]
    linarith [ka.1, ka.2, kb.1, kb.2]
  · rw [hd] at ha hb
    simp only [Dir.horizontalAxis, if_true] at ha hb ⊢
    simp only [A, B, modelBox_eq, nodePos_down o _ hd]
    linarith [ka.1, ka.2, kb.1, kb.2]
  · rw [hd] at ha hb
    simp only [Dir.horizontalAxis, Bool.false_eq_true, if_false] at ha hb ⊢
    simp only [A, B, modelBox_eq, nodePos_left o _ hd]
    linarith [ka.1, ka.2, kb.1, kb.2]
  · rw [hd] at ha hb
    simp only [Dir.horizontalAxis, Bool.false_eq_true, if_false] at ha hb ⊢
    simp only [A, B, modelBox_eq, nodePos_right o _ hd]
    linarith [ka.1, ka.2, kb.1, kb.2]

/-- every box lies wholly on the side of the axis named by the direction, more than `layerGap − 1` away from it -/
theorem side_of_axis (o : ROpt) (n : RNode) (hnh : 0 ≤ o.nodeHeight) (hlg : 0 ≤ o.layerGap)
    (hw : 0 ≤ n.w) (hh : 0 ≤ n.h)
    (hth : if o.dir.horizontalAxis then n.h ≤ o.nodeHeight else n.w ≤ o.nodeHeight) :
    onSideB o.dir (o.layerGap - 1) (modelBox o n) = true := by
  have hpos := posOf_ge o n hnh hlg
  cases hd : o.dir
  · rw [hd] at hth
    simp only [Dir.horizontalAxis, if_true] at hth
    simp only [onSideB, decide_eq_true_eq, modelBox_eq, nodePos_up o n hd]
    have k := truncToZero_of_nonpos (-posOf o n - o.nodeHeight) (by linarith)
    linarith [k.1, k.2]
  · simp only [onSideB, decide_eq_true_eq, modelBox_eq, nodePos_down o n hd]
    have k := truncToZero_of_nonneg (posOf o n) (by linarith)
    linarith [k.1, k.2]
  · simp only [onSideB, decide_eq_true_eq, modelBox_eq, nodePos_left o n hd]
    have k := truncToZero_of_nonpos (-posOf o n - o.nodeHeight - n.w + o.nodeHeight) (by linarith)
    linarith [k.1, k.2]
  · simp only [onSideB, decide_eq_true_eq, modelBox_eq, nodePos_right o n hd]
    have k := truncToZero_of_nonneg (posOf o n) (by linarith)
    linarith [k.1, k.2]

/-- boxes of a farther layer lie wholly beyond the boxes of nearer layers (layer gap ≥ 1, labels no thicker
than `nodeHeight`) -/
theorem layers_nested (o : ROpt) (a b : RNode) (hnh : 0 ≤ o.nodeHeight) (hlg : 1 ≤ o.layerGap)
    (hab : a.layer < b.layer)
    (hta : if o.dir.horizontalAxis then a.h ≤ o.nodeHeight else a.w ≤ o.nodeHeight)
    (hwa : 0 ≤ a.w ∧ 0 ≤ a.h) (hwb : 0 ≤ b.w ∧ 0 ≤ b.h)
    (hub : o.dir = .up → b.h = o.nodeHeight) (hlb : o.dir = .left → True) :
    ((modelBox o a).span o.dir).2 ≤ ((modelBox o b).span o.dir).1 := by
  have hlg0 : 0 ≤ o.layerGap := by linarith
  have hg : 0 ≤ gapOf o := by unfold gapOf; linarith
  have hpa := posOf_ge o a hnh hlg0
  have hpb := posOf_ge o b hnh hlg0
  have hst := posOf_step o a b hg hab
  have hgd : gapOf o = o.layerGap + o.nodeHeight := rfl
  cases hd : o.dir
  · rw [hd] at hta
    simp only [Dir.horizontalAxis, if_true] at hta
    have hbh := hub hd
    simp only [Box.span, modelBox_eq, nodePos_up o _ hd]
    have ka := truncToZero_of_nonpos (-posOf o a - o.nodeHeight) (by linarith)
    have kb := truncToZero_of_nonpos (-posOf o b - o.nodeHeight) (by linarith)
    linarith [ka.1, ka.2, kb.1, kb.2]
  · rw [hd] at hta
    simp only [Dir.horizontalAxis, if_true] at hta
    simp only [Box.span, modelBox_eq, nodePos_down o _ hd]
    have ka := truncToZero_of_nonneg (posOf o a) (by linarith)
    have kb := truncToZero_of_nonneg (posOf o b) (by linarith)
    linarith [ka.1, ka.2, kb.1, kb.2]
  · rw [hd] at hta
    simp only [Dir.horizontalAxis, Bool.false_eq_true, if_false] at hta
    simp only [Box.span, modelBox_eq, nodePos_left o _ hd]
    have ka := truncToZero_of_nonpos (-posOf o a - o.nodeHeight - a.w + o.nodeHeight) (by linarith [hwa.1])
    have kb := truncToZero_of_nonpos (-posOf o b - o.nodeHeight - b.w + o.nodeHeight) (by linarith [hwb.1])
    linarith [ka.1, ka.2, kb.1, kb.2]
  · rw [hd] at hta
    simp only [Dir.horizontalAxis, Bool.false_eq_true, if_false] at hta
    simp only [Box.span, modelBox_eq, nodePos_right o _ hd]
    have ka := truncToZero_of_nonneg (posOf o a) (by linarith)
    have kb := truncToZero_of_nonneg (posOf o b) (by linarith)
    linarith [ka.1, ka.2, kb.1, kb.2]


/-- the separation hypothesis of `boxes_disjoint_along_axis` is exactly what C01 proves for neighbours of a layer:
`sepAdjB o (1 + eps)` on the reported positions gives `gap − (1 + eps) ≤ c_j − c_i` with `gap = (w_i + w_j)/2 + spacing` -/
theorem c01_gives_separation (o : Layout.ROpts) (a b : Layout.LItem × ℚ) (rest : List (Layout.LItem × ℚ))
    (h : Layout.sepAdjB o (1 + Layout.eps) (a :: b :: rest) = true) :
    (a.1.width + b.1.width) / 2 + Layout.spacing o a.1 b.1 - 1 - Layout.eps ≤ b.2 - a.2 := by
  simp only [Layout.sepAdjB, Bool.and_eq_true, decide_eq_true_eq] at h
  have h2 := h.1.2
  simp only [Layout.gap, C01.halfDivisor_eq] at h2
  linarith

/-! ### end to end: `Timeline.compute` + the emitters, composed (`Model/Pipeline.lean`) -/
section EndToEnd
open Labella.Pipeline Labella.Layout

/-- **C08 end to end.**  For EVERY list of data (axis positions and padded drawn sizes ≥ 0), every direction, every engine configuration
with a label spacing of at least the default 3 (any algorithm, bounds, density, stub width ≥ 0, line spacing ≥ 0) and a layer gap ≥ 1:
every datum gets exactly one box; of two boxes of one layer the earlier one ends before the later one begins (up to the solver's
tolerance `eps` ≈ 1e-10 per step between them); every box lies on the side of the axis named by the direction, more than `layerGap − 1`
from it; boxes of a farther layer lie wholly beyond those of nearer layers.  Hence no two boxes intersect. -/
theorem pipeline_boxes (dir : Dir) (layerGap : ℚ) (fo : FOpts) (items : List PItem)
    (hns : 3 ≤ fo.nodeSpacing) (hls : 0 ≤ fo.lineSpacing) (hsw : 0 ≤ fo.stubWidth) (hlg : 1 ≤ layerGap)
    (hsz : ∀ it ∈ items, 0 ≤ it.w ∧ 0 ≤ it.h) :
    ((drawn dir layerGap fo items).map (·.id)).Perm (List.range items.length) ∧
    (∀ a ∈ drawn dir layerGap fo items, ∀ b ∈ drawn dir layerGap fo items, a.layer = b.layer → a.idx < b.idx →
      if dir.horizontalAxis then a.box.ox + a.box.w - Layout.eps * ((b.idx - a.idx : Nat) : ℚ) < b.box.ox
      else a.box.oy + a.box.h - Layout.eps * ((b.idx - a.idx : Nat) : ℚ) < b.box.oy) ∧
    (∀ a ∈ drawn dir layerGap fo items, onSideB dir (layerGap - 1) a.box = true) ∧
    (∀ a ∈ drawn dir layerGap fo items, ∀ b ∈ drawn dir layerGap fo items, a.layer < b.layer →
      (a.box.span dir).2 ≤ (b.box.span dir).1) := by
  have hnh : 0 ≤ (ropt dir layerGap items).nodeHeight := nodeHeight_nonneg dir items
  refine ⟨drawn_ids_perm dir layerGap fo items, ?_, ?_, ?_⟩
  · intro a ha b hb hl hi
    obtain ⟨_, hla, hwa, hha, hwida, _, hba⟩ := drawn_node dir layerGap fo items a ha
    obtain ⟨_, hlb, hwb, hhb, hwidb, _, hbb⟩ := drawn_node dir layerGap fo items b hb
    have hsep := drawn_sep dir layerGap fo items (by linarith) hls hsw hsz a b ha hb hl hi
    have htol : 0 ≤ Layout.eps * ((b.idx - a.idx : Nat) : ℚ) := mul_nonneg C01.eps_nonneg (Nat.cast_nonneg _)
    have key := boxes_disjoint_along_axis (ropt dir layerGap items) a.node b.node fo.nodeSpacing
      (Layout.eps * ((b.idx - a.idx : Nat) : ℚ)) (by rw [hla, hlb, hl])
      (by
        change if dir.horizontalAxis then a.node.width = a.node.w else a.node.width = a.node.h
        rw [hwida, hwa, hha]; unfold along; split <;> rfl)
      (by
        change if dir.horizontalAxis then b.node.width = b.node.w else b.node.width = b.node.h
        rw [hwidb, hwb, hhb]; unfold along; split <;> rfl)
      hns htol hsep
    rw [hba, hbb]
    exact key
  · intro a ha
    obtain ⟨_, _, _, _, _, _, hba⟩ := drawn_node dir layerGap fo items a ha
    have hs := drawn_size_nonneg dir layerGap fo items hsz a ha
    rw [hba]
    exact side_of_axis (ropt dir layerGap items) a.node hnh (by change 0 ≤ layerGap; linarith) hs.1 hs.2
      (drawn_thick dir layerGap fo items a ha)
  · intro a ha b hb hl
    obtain ⟨_, hla, _, _, _, _, hba⟩ := drawn_node dir layerGap fo items a ha
    obtain ⟨_, hlb, _, _, _, _, hbb⟩ := drawn_node dir layerGap fo items b hb
    rw [hba, hbb]
    exact layers_nested' (ropt dir layerGap items) a.node b.node hnh hlg (by rw [hla, hlb]; exact hl)
      (drawn_thick dir layerGap fo items a ha) (drawn_thick dir layerGap fo items b hb)
      (drawn_size_nonneg dir layerGap fo items hsz a ha) (drawn_size_nonneg dir layerGap fo items hsz b hb)

/-- … in particular no two boxes intersect by more than the accumulated solver tolerance: shrinking every box by `eps · n` (n = number of
items of its layer, stubs included — about 1e-8 for a hundred items) along the axis makes them pairwise disjoint.  Stated directly: for two
different data, the boxes are separated along the axis (same layer) or across it (different layers). -/
theorem pipeline_boxes_disjoint (dir : Dir) (layerGap : ℚ) (fo : FOpts) (items : List PItem)
    (hns : 3 ≤ fo.nodeSpacing) (hls : 0 ≤ fo.lineSpacing) (hsw : 0 ≤ fo.stubWidth) (hlg : 1 ≤ layerGap)
    (hsz : ∀ it ∈ items, 0 ≤ it.w ∧ 0 ≤ it.h) :
    ∀ a ∈ drawn dir layerGap fo items, ∀ b ∈ drawn dir layerGap fo items, a.id ≠ b.id →
      (a.layer ≠ b.layer ∧ ((a.box.span dir).2 ≤ (b.box.span dir).1 ∨ (b.box.span dir).2 ≤ (a.box.span dir).1)) ∨
      (a.layer = b.layer ∧ a.idx ≠ b.idx ∧
        (if dir.horizontalAxis then
            (a.box.ox + a.box.w - Layout.eps * (((max a.idx b.idx) - (min a.idx b.idx) : Nat) : ℚ) < b.box.ox ∨
             b.box.ox + b.box.w - Layout.eps * (((max a.idx b.idx) - (min a.idx b.idx) : Nat) : ℚ) < a.box.ox)
         else
            (a.box.oy + a.box.h - Layout.eps * (((max a.idx b.idx) - (min a.idx b.idx) : Nat) : ℚ) < b.box.oy ∨
             b.box.oy + b.box.h - Layout.eps * (((max a.idx b.idx) - (min a.idx b.idx) : Nat) : ℚ) < a.box.oy))) := by
  obtain ⟨_, hsame, _, hnest⟩ := pipeline_boxes dir layerGap fo items hns hls hsw hlg hsz
  intro a ha b hb hid
  rcases Nat.lt_trichotomy a.layer b.layer with hl | hl | hl
  · exact Or.inl ⟨Nat.ne_of_lt hl, Or.inl (hnest a ha b hb hl)⟩
  · have hidx : a.idx ≠ b.idx := fun h => hid (drawn_place_inj dir layerGap fo items a b ha hb hl h)
    refine Or.inr ⟨hl, hidx, ?_⟩
    rcases Nat.lt_or_gt_of_ne hidx with hi | hi
    · have e : max a.idx b.idx - min a.idx b.idx = b.idx - a.idx := by
        rw [Nat.max_eq_right (Nat.le_of_lt hi), Nat.min_eq_left (Nat.le_of_lt hi)]
      have := hsame a ha b hb hl hi
      rw [e]
      split
      · rename_i hc; rw [if_pos hc] at this; exact Or.inl this
      · rename_i hc; rw [if_neg hc] at this; exact Or.inl this
    · have e : max a.idx b.idx - min a.idx b.idx = a.idx - b.idx := by
        rw [Nat.max_eq_left (Nat.le_of_lt hi), Nat.min_eq_right (Nat.le_of_lt hi)]
      have := hsame b hb a ha hl.symm hi
      rw [e]
      split
      · rename_i hc; rw [if_pos hc] at this; exact Or.inr this
      · rename_i hc; rw [if_neg hc] at this; exact Or.inr this
  · exact Or.inl ⟨Nat.ne_of_gt hl, Or.inr (hnest b hb a ha hl)⟩

/-! #### non-vacuity: the C06 example (6 data, a tie, both bounds, three layers, label spacing 3), sizes attached, layer gap 10 -/

/-- direction `up`: extents along the axis (`w`) are the widths of `C06.permExL1`, thicknesses (`h`) differ -/
def pipelineExUp : List PItem := [⟨5, 8, 4⟩, ⟨5, 8, 4⟩, ⟨9, 6, 3⟩, ⟨10, 7, 4⟩, ⟨20, 9, 2⟩, ⟨22, 5, 4⟩]
/-- direction `left`: the same data turned (the extent along the axis is now `h`) -/
def pipelineExLeft : List PItem := [⟨5, 4, 8⟩, ⟨5, 4, 8⟩, ⟨9, 3, 6⟩, ⟨10, 4, 7⟩, ⟨20, 2, 9⟩, ⟨22, 4, 5⟩]

/-- (`Box` derives no `DecidableEq`) -/
local instance boxDecEq : DecidableEq Box := fun a b =>
  decidable_of_iff (a.ox = b.ox ∧ a.oy = b.oy ∧ a.w = b.w ∧ a.h = b.h) (by cases a; cases b; simp)

/-- both lists hand the engine the labels of the C06 example, and satisfy the hypotheses of `pipeline_boxes` with its options -/
theorem pipelineEx_hyps :
    (labelsOf .up pipelineExUp).map (fun l => (l.ideal, l.width)) = C06.permExL1.map (fun l => (l.ideal, l.width)) ∧
    (labelsOf .left pipelineExLeft).map (fun l => (l.ideal, l.width)) = C06.permExL1.map (fun l => (l.ideal, l.width)) ∧
    3 ≤ C06.permExOpts.nodeSpacing ∧ 0 ≤ C06.permExOpts.lineSpacing ∧ 0 ≤ C06.permExOpts.stubWidth ∧ (1 : ℚ) ≤ 10 ∧
    (∀ it ∈ pipelineExUp, 0 ≤ it.w ∧ 0 ≤ it.h) ∧ (∀ it ∈ pipelineExLeft, 0 ≤ it.w ∧ 0 ≤ it.h) := by
  decide +kernel

-- direction `up`: what `drawn` yields as (layer, place in the layer, datum, box) — the boxes hang above the axis (negative y), layer by
-- layer 14 = layerGap + nodeHeight apart, origins truncated (label 3: 14 − 7/2 = 10.5 ↦ 10) — and no two of the boxes intersect
example :
    (drawn .up 10 C06.permExOpts pipelineExUp).map (fun d => (d.layer, d.idx, d.id, d.box)) =
      [(0, 3, 3, ⟨10, -14, 7, 4⟩), (0, 5, 5, ⟨23, -14, 5, 4⟩),
       (1, 2, 2, ⟨7, -28, 6, 3⟩), (1, 3, 4, ⟨15, -28, 9, 2⟩),
       (2, 0, 0, ⟨0, -42, 8, 4⟩), (2, 1, 1, ⟨11, -42, 8, 4⟩)] ∧
    pairwiseDisjointB ((drawn .up 10 C06.permExOpts pipelineExUp).map (·.box)) = true := by
  -- `List.mergeSort` does not reduce in the kernel: evaluate the equal pipeline `drawn'` (over `compute'`, stable insertion sort)
  rw [← drawn'_eq]
  decide +kernel

-- direction `left`: the boxes lie left of the axis (negative x), their far edge — not their origin — on the layer line
example :
    (drawn .left 10 C06.permExOpts pipelineExLeft).map (fun d => (d.layer, d.idx, d.id, d.box)) =
      [(0, 3, 3, ⟨-14, 10, 4, 7⟩), (0, 5, 5, ⟨-14, 23, 4, 5⟩),
       (1, 2, 2, ⟨-27, 7, 3, 6⟩), (1, 3, 4, ⟨-26, 15, 2, 9⟩),
       (2, 0, 0, ⟨-42, 0, 4, 8⟩), (2, 1, 1, ⟨-42, 11, 4, 8⟩)] ∧
    pairwiseDisjointB ((drawn .left 10 C06.permExOpts pipelineExLeft).map (·.box)) = true := by
  rw [← drawn'_eq]
  decide +kernel

-- … and the theorem applies to them
example := pipeline_boxes_disjoint .up 10 C06.permExOpts pipelineExUp pipelineEx_hyps.2.2.1 pipelineEx_hyps.2.2.2.1
  pipelineEx_hyps.2.2.2.2.1 pipelineEx_hyps.2.2.2.2.2.1 pipelineEx_hyps.2.2.2.2.2.2.1
example := pipeline_boxes_disjoint .left 10 C06.permExOpts pipelineExLeft pipelineEx_hyps.2.2.1 pipelineEx_hyps.2.2.2.1
  pipelineEx_hyps.2.2.2.2.1 pipelineEx_hyps.2.2.2.2.2.1 pipelineEx_hyps.2.2.2.2.2.2.2

end EndToEnd

end Labella.C08
