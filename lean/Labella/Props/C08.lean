import Labella.Model.Render
import Labella.Proofs.Rounding
import Labella.Proofs.RenderLemmas
import Mathlib.Algebra.Order.Field.Rat
import Mathlib.Tactic.Ring
import Mathlib.Tactic.Linarith
import Mathlib.Tactic.NormNum
import Labella.Props.C01
/-! # C08 — drawn label boxes are pairwise disjoint and sit on the chosen side of the axis

Along the axis disjointness follows from the C01 separation (label spacing ≥ 3 absorbs 1 unit of position rounding
and < 2 units of origin truncation); across the axis from the layer offsets (layer gap ≥ 1). -/
namespace Labella.C08
open Labella Labella.Render

/-! ### C08: boxes -/

/-- two labels of one layer whose centres keep the C01 separation with a label spacing of at least 3 are drawn as
disjoint boxes: the slack consumed by rounding positions (1) and truncating two origins (< 2) is < 3.
`sep` is what C01 guarantees: `c_j − c_i ≥ (width_i + width_j)/2 + spacing − 1 − tol`. -/
theorem boxes_disjoint_along_axis (o : ROpt) (a b : RNode) (spacing tol : ℚ)
    (hla : a.layer = b.layer)
    (ha : if o.dir.horizontalAxis then a.width = a.w else a.width = a.h)
    (hb : if o.dir.horizontalAxis then b.width = b.w else b.width = b.h)
    (hsp : 3 ≤ spacing) (htol : 0 ≤ tol)
    (hsep : (a.width + b.width) / 2 + spacing - 1 - tol ≤ b.cur - a.cur) :
    let A := modelBox o a
    let B := modelBox o b
    if o.dir.horizontalAxis then A.ox + A.w - tol < B.ox else A.oy + A.h - tol < B.oy := by
  intro A B
  have ka := abs_lt.mp (truncToZero_close (a.cur - a.width / 2))
  have kb := abs_lt.mp (truncToZero_close (b.cur - b.width / 2))
  cases hd : o.dir
  · rw [hd] at ha hb
    simp only [Dir.horizontalAxis, if_true] at ha hb ⊢
    simp only [A, B, modelBox_eq, nodePos_up o _ hd]
    linarith [ka.1, ka.2, kb.1, kb.2]
  · rw [hd] at ha hb
    simp only [Dir.horizontalAxis, if_true] at ha hb ⊢
    simp only [A, B, modelBox_eq, nodePos_down o _ hd]
    linarith [ka.1, ka.2, kb.1, kb.2]
  · rw [hd] at ha hb
    simp only [Dir.horizontalAxis, Bool.false_eq_true, if_false] at ha hb ⊢
    simp only [A, B, modelBox_eq, nodePos_left o _ hd]
    linarith [ka.1, ka.2, kb.1, kb.2]
  · rw [hd] at ha hb
    simp only [Dir.horizontalAxis, Bool.false_eq_true, if_false] at ha hb ⊢
    simp only [A, B, modelBox_eq, nodePos_right o _ hd]
    linarith [ka.1, ka.2, kb.1, kb.2]

/-- every box lies wholly on the side of the axis named by the direction, more than `layerGap − 1` away from it -/
theorem side_of_axis (o : ROpt) (n : RNode) (hnh : 0 ≤ o.nodeHeight) (hlg : 0 ≤ o.layerGap)
    (hw : 0 ≤ n.w) (hh : 0 ≤ n.h)
    (hth : if o.dir.horizontalAxis then n.h ≤ o.nodeHeight else n.w ≤ o.nodeHeight) :
    onSideB o.dir (o.layerGap - 1) (modelBox o n) = true := by
  have hpos := posOf_ge o n hnh hlg
  cases hd : o.dir
  · rw [hd] at hth
    simp only [Dir.horizontalAxis, if_true] at hth
    simp only [onSideB, decide_eq_true_eq, modelBox_eq, nodePos_up o n hd]
    have k := truncToZero_of_nonpos (-posOf o n - o.nodeHeight) (by linarith)
    linarith [k.1, k.2]
  · simp only [onSideB, decide_eq_true_eq, modelBox_eq, nodePos_down o n hd]
    have k := truncToZero_of_nonneg (posOf o n) (by linarith)
    linarith [k.1, k.2]
  · simp only [onSideB, decide_eq_true_eq, modelBox_eq, nodePos_left o n hd]
    have k := truncToZero_of_nonpos (-posOf o n - o.nodeHeight - n.w + o.nodeHeight) (by linarith)
    linarith [k.1, k.2]
  · simp only [onSideB, decide_eq_true_eq, modelBox_eq, nodePos_right o n hd]
    have k := truncToZero_of_nonneg (posOf o n) (by linarith)
    linarith [k.1, k.2]

/-- boxes of a farther layer lie wholly beyond the boxes of nearer layers (layer gap ≥ 1, labels no thicker
than `nodeHeight`) -/
theorem layers_nested (o : ROpt) (a b : RNode) (hnh : 0 ≤ o.nodeHeight) (hlg : 1 ≤ o.layerGap)
    (hab : a.layer < b.layer)
    (hta : if o.dir.horizontalAxis then a.h ≤ o.nodeHeight else a.w ≤ o.nodeHeight)
    (hwa : 0 ≤ a.w ∧ 0 ≤ a.h) (hwb : 0 ≤ b.w ∧ 0 ≤ b.h)
    (hub : o.dir = .up → b.h = o.nodeHeight) (hlb : o.dir = .left → True) :
    ((modelBox o a).span o.dir).2 ≤ ((modelBox o b).span o.dir).1 := by
  have hlg0 : 0 ≤ o.layerGap := by linarith
  have hg : 0 ≤ gapOf o := by unfold gapOf; linarith
  have hpa := posOf_ge o a hnh hlg0
  have hpb := posOf_ge o b hnh hlg0
  have hst := posOf_step o a b hg hab
  have hgd : gapOf o = o.layerGap + o.nodeHeight := rfl
  cases hd : o.dir
  · rw [hd] at hta
    simp only [Dir.horizontalAxis, if_true] at hta
    have hbh := hub hd
    simp only [Box.span, modelBox_eq, nodePos_up o _ hd]
    have ka := truncToZero_of_nonpos (-posOf o a - o.nodeHeight) (by linarith)
    have kb := truncToZero_of_nonpos (-posOf o b - o.nodeHeight) (by linarith)
    linarith [ka.1, ka.2, kb.1, kb.2]
  · rw [hd] at hta
    simp only [Dir.horizontalAxis, if_true] at hta
    simp only [Box.span, modelBox_eq, nodePos_down o _ hd]
    have ka := truncToZero_of_nonneg (posOf o a) (by linarith)
    have kb := truncToZero_of_nonneg (posOf o b) (by linarith)
    linarith [ka.1, ka.2, kb.1, kb.2]
  · rw [hd] at hta
    simp only [Dir.horizontalAxis, Bool.false_eq_true, if_false] at hta
    simp only [Box.span, modelBox_eq, nodePos_left o _ hd]
    have ka := truncToZero_of_nonpos (-posOf o a - o.nodeHeight - a.w + o.nodeHeight) (by linarith [hwa.1])
    have kb := truncToZero_of_nonpos (-posOf o b - o.nodeHeight - b.w + o.nodeHeight) (by linarith [hwb.1])
    linarith [ka.1, ka.2, kb.1, kb.2]
  · rw [hd] at hta
    simp only [Dir.horizontalAxis, Bool.false_eq_true, if_false] at hta
    simp only [Box.span, modelBox_eq, nodePos_right o _ hd]
    have ka := truncToZero_of_nonneg (posOf o a) (by linarith)
    have kb := truncToZero_of_nonneg (posOf o b) (by linarith)
    linarith [ka.1, ka.2, kb.1, kb.2]


/-- the separation hypothesis of `boxes_disjoint_along_axis` is exactly what C01 proves for neighbours of a layer:
`sepAdjB o (1 + eps)` on the reported positions gives `gap − (1 + eps) ≤ c_j − c_i` with `gap = (w_i + w_j)/2 + spacing` -/
theorem c01_gives_separation (o : Layout.ROpts) (a b : Layout.LItem × ℚ) (rest : List (Layout.LItem × ℚ))
    (h : Layout.sepAdjB o (1 + Layout.eps) (a :: b :: rest) = true) :
    (a.1.width + b.1.width) / 2 + Layout.spacing o a.1 b.1 - 1 - Layout.eps ≤ b.2 - a.2 := by
  simp only [Layout.sepAdjB, Bool.and_eq_true, decide_eq_true_eq] at h
  have h2 := h.1.2
  simp only [Layout.gap, C01.halfDivisor_eq] at h2
  linarith

end Labella.C08
