import Labella.Model.QP
namespace Labella.C05
open Labella Labella.QP

theorem placeholder_empty : cost ⟨[], []⟩ [] = 0 := by decide

end Labella.C05
