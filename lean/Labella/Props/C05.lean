import Labella.Model.QP
import Labella.Proofs.LayoutSep
import Labella.Proofs.QPLemmas
import Labella.Proofs.VpscLoops
import Labella.Proofs.VpscCost
import Labella.Proofs.VpscKKT
import Labella.Proofs.VpscFuel
import Labella.Proofs.VpscResolve
import Labella.Proofs.VpscPath
import Labella.Proofs.VpscPathOpt
import Mathlib.Algebra.Order.Field.Rat
import Mathlib.Algebra.BigOperators.Group.List.Basic
import Mathlib.Tactic.Ring
import Mathlib.Tactic.Linarith
import Mathlib.Tactic.FieldSimp
/-! # C05 — the separation-constraint solver returns a feasible, certified-optimal solution

What is proved for ALL instances (any constraint graph: DAGs, duplicates, redundant constraints, cycles; any
positive weights and any scales): soundness of the executable certificate checker `QP.check`, via weak duality.
What is proved for all CHAIN instances (every instance labella itself builds): the solver model is feasible and
optimal (restated from C02).  For general DAG instances the implementation's result is validated per instance by
the proved checker (see DESIGN.md, C05); the full statement "optimal for every DAG" is FALSE for the code as it is
(known finding F1): `dag_counterexample`.

Second half of the file: the FEASIBILITY half of C05 for the statement-by-statement transliteration of `vpsc.py`
(`Model/Vpsc.lean`, tied to the code by exact-arithmetic equality of positions, returned cost and flagged constraints on
every generated instance): `vpsc_solve_feasible`, `vpsc_solve_feasible_qp` hold for ALL constraint graphs, cyclic
ones included (invariants: active constraints tight, blocks = connected components of the active graph, that graph a
forest, block membership lists exact and duplicate-free, every constraint active / flagged / listed as inactive;
proofs in `Proofs/Vpsc{Frame,Merge,Split,Loops}.lean`). -/
namespace Labella.C05
open Labella Labella.QP

/-- exact feasibility of a candidate `z` -/
def Feasible (I : Inst) (z : List ℚ) : Prop := ∀ c ∈ I.cons, 0 ≤ slack I z c

/-- **Weak duality.**  For multipliers `lam ≥ 0` (one per constraint) the dual value is a lower bound on the cost
of EVERY feasible assignment — whatever the constraint graph. -/
theorem weak_duality (I : Inst) (lam : List ℚ) (hwf : wellFormedB I = true)
    (hlen : lam.length = I.cons.length) (hpos : ∀ l ∈ lam, 0 ≤ l)
    (z : List ℚ) (hz : z.length = I.vars.length) (hfeas : Feasible I z) :
    dualValue I lam ≤ cost I z := by
  have _ := hlen  -- not needed: `zip` truncates, a missing multiplier counts as 0
  have hL := lagrangian_eq I lam hwf z hz
  have hM := mult_slack_nonneg I lam z hpos hfeas
  have hS : 0 ≤ ∑ i ∈ Finset.range I.vars.length,
      vw I i * (pos z i - pos (dualPoint I lam) i) * (pos z i - pos (dualPoint I lam) i) := by
    apply Finset.sum_nonneg
    intro i hi
    rw [mul_assoc]
    exact mul_nonneg (vw_pos hwf (Finset.mem_range.mp hi)).le (mul_self_nonneg _)
  linarith

/-- **Soundness of the certificate checker.**  If `check I x lam tolFeas tolGap` accepts — for ANY list `lam`,
wherever it came from — then `x` violates no constraint by more than `tolFeas`, and no feasible assignment
whatsoever costs less than `cost x − tolGap`. -/
theorem check_sound (I : Inst) (x lam : List ℚ) (tolFeas tolGap : ℚ)
    (h : check I x lam tolFeas tolGap = true) :
    (∀ c ∈ I.cons, -tolFeas ≤ slack I x c) ∧
    ∀ z : List ℚ, z.length = I.vars.length → Feasible I z → cost I x ≤ cost I z + tolGap := by
  unfold check at h
  simp only [Bool.and_eq_true, beq_iff_eq, decide_eq_true_eq] at h
  obtain ⟨⟨⟨⟨hwf, _hx⟩, hlam⟩, hfe⟩, hgap⟩ := h
  refine ⟨?_, ?_⟩
  · intro c hc
    unfold feasibleB at hfe
    rw [List.all_eq_true] at hfe
    simpa using hfe c hc
  · intro z hz hfeas
    have hwd := weak_duality I (clip lam) hwf (by rw [clip_length, hlam]) (clip_nonneg lam) z hz hfeas
    unfold gap at hgap
    linarith

/-- known finding F1 (witness replayed on the real code by the C05 check): on this 5-variable DAG with redundant
tight constraints `solve()` returns `xRet` (cost 5·10⁹ + 125), although `xBetter` is feasible and costs 156 -/
theorem dag_counterexample :
    let I : Inst := { vars := [⟨9, 10000000000, 1⟩, ⟨10, 1, 1⟩, ⟨9, 10, 1⟩, ⟨7, 10000000000, 1⟩, ⟨0, 1, 1⟩],
                      cons := [⟨2, 3, 0⟩, ⟨1, 4, 3⟩, ⟨0, 4, 1⟩, ⟨2, 4, 2⟩, ⟨1, 2, 1⟩] }
    let xRet : List ℚ := [170000000111/20000000012, 130000000087/20000000012, 150000000099/20000000012,
                          150000000099/20000000012, 190000000123/20000000012]
    let xBetter : List ℚ := [9, 6, 7, 7, 10]
    feasibleB I 0 xRet = true ∧ feasibleB I 0 xBetter = true ∧ cost I xBetter = 156 ∧ cost I xBetter < cost I xRet := by
  decide +kernel

/-- … and the certificate checker accepts the optimum that two further `satisfy()` passes reach, with the
multipliers the code itself computes: that placement is therefore PROVED optimal for this instance -/
theorem dag_counterexample_certified :
    let I : Inst := { vars := [⟨9, 10000000000, 1⟩, ⟨10, 1, 1⟩, ⟨9, 10, 1⟩, ⟨7, 10000000000, 1⟩, ⟨0, 1, 1⟩],
                      cons := [⟨2, 3, 0⟩, ⟨1, 4, 3⟩, ⟨0, 4, 1⟩, ⟨2, 4, 2⟩, ⟨1, 2, 1⟩] }
    check I [89999999999/10000000001, 20000000030/3333333337, 23333333367/3333333337, 23333333367/3333333337, 100000000000/10000000001]
            [160000000000/3333333337, 0, 200000000000/10000000001, 0, 26666666680/3333333337] 0 0 = true := by
  decide +kernel

/-- every chain instance (what `removeOverlap` builds): the solver model's result keeps every gap up to eps and
no placement that keeps the gaps exactly is cheaper (C02) -/
theorem chain_instances (eps : ℚ) (heps : 0 ≤ eps) (vars : List Chain.Item) (gaps : List ℚ)
    (hlen : gaps.length + 1 = vars.length) (hw : ∀ v ∈ vars, 0 < v.w) :
    Chain.SepBy eps gaps (Chain.solve eps vars gaps) ∧
    ∀ zs : List ℚ, zs.length = vars.length → Chain.SepBy 0 gaps zs →
      Chain.cost vars (Chain.solve eps vars gaps) ≤ Chain.cost vars zs := by
  refine ⟨Chain.solve_feasible' eps heps vars gaps hw, ?_⟩
  intro zs hz hfeas
  have h1 := Chain.solve_optimal' eps heps vars gaps hlen hw zs hz hfeas
  have h2 := wdist_nonneg vars (Chain.solve eps vars gaps) zs hw
  linarith


/-! ## the general solver (transliteration of `vpsc.py`): feasibility on exit, for every constraint graph -/

def qpInst (vars : List (Rat × Rat × Rat)) (cons : List (Nat × Nat × Rat)) : QP.Inst :=
  { vars := vars.map fun p => { d := p.1, w := p.2.1, s := p.2.2 }, cons := cons.map fun c => { l := c.1, r := c.2.1, g := c.2.2 } }

/-- C05 (feasibility half) for the transliterated solver, for ALL constraint graphs, cyclic ones included: when `solve` returns (no fuel
exhausted), every constraint it has not flagged unsatisfiable holds up to the solver's own tolerance, and the returned number is the cost of the returned state -/
theorem vpsc_solve_feasible (vars : List (Rat × Rat × Rat)) (cons : List (Nat × Nat × Rat))
    (hidx : ∀ c ∈ cons, c.1 < vars.length ∧ c.2.1 < vars.length) (hs : ∀ v ∈ vars, v.2.2 ≠ 0) (fuel sfuel : Nat)
    (herr : (Vpsc.solve fuel sfuel (Vpsc.init vars cons)).1.err = false) :
    (∀ ci, ci < cons.length → (Vpsc.getC (Vpsc.solve fuel sfuel (Vpsc.init vars cons)).1 ci).unsat = false →
        Gen.zeroUpperBound ≤ Vpsc.slack (Vpsc.solve fuel sfuel (Vpsc.init vars cons)).1 ci) ∧
    (Vpsc.solve fuel sfuel (Vpsc.init vars cons)).2 = Vpsc.cost (Vpsc.solve fuel sfuel (Vpsc.init vars cons)).1 := by
  obtain ⟨i1, i2, _, _, i5, _, _⟩ := Vpsc.init_inv vars cons hidx hs
  obtain ⟨_, _, _, s4, s5, s6⟩ := Vpsc.solve_spec fuel sfuel _ i1 (Vpsc.init_varsNodup vars cons hidx)
    (Vpsc.init_adjNodup vars cons hidx) i2 herr
  exact ⟨fun ci hci hu => s4 ci (by rw [s5.csize, i5]; exact hci) hu, s6⟩

theorem scaleOf_qpInst (vars : List (Rat × Rat × Rat)) (cs : List QP.Con) (k : Nat) (hk : k < vars.length) :
    QP.scaleOf { vars := vars.map fun p => { d := p.1, w := p.2.1, s := p.2.2 }, cons := cs } k = vars[k].2.2 := by
  simp [QP.scaleOf, hk]

theorem pos_positions (st : Vpsc.St) (k : Nat) (hk : k < st.vs.size) :
    QP.pos (Vpsc.positions st) k = Vpsc.position st k := by
  simp [QP.pos, Vpsc.positions, hk]

/-- the same in the vocabulary of the optimisation problem `QP`: the returned positions satisfy every unflagged constraint of the instance up to `-ZERO_UPPERBOUND` -/
theorem vpsc_solve_feasible_qp (vars : List (Rat × Rat × Rat)) (cons : List (Nat × Nat × Rat))
    (hidx : ∀ c ∈ cons, c.1 < vars.length ∧ c.2.1 < vars.length) (hs : ∀ v ∈ vars, v.2.2 ≠ 0) (fuel sfuel : Nat)
    (herr : (Vpsc.solve fuel sfuel (Vpsc.init vars cons)).1.err = false) :
    let st := (Vpsc.solve fuel sfuel (Vpsc.init vars cons)).1
    let I := qpInst vars cons
    QP.feasibleB { I with cons := (I.cons.zipIdx.filter (fun p => !(Vpsc.flagged st).contains p.2)).map (·.1) }
      (-Gen.zeroUpperBound) (Vpsc.positions st) = true := by
  intro st I
  obtain ⟨i1, i2, _, i4, i5, i6, i7⟩ := Vpsc.init_inv vars cons hidx hs
  obtain ⟨_, _, _, s4, s5, _⟩ := Vpsc.solve_spec fuel sfuel _ i1 (Vpsc.init_varsNodup vars cons hidx)
    (Vpsc.init_adjNodup vars cons hidx) i2 herr
  have hcs : st.cs.size = cons.length := s5.csize.trans i5
  have hvs : st.vs.size = vars.length := s5.vsize.trans i4
  unfold QP.feasibleB
  simp only [List.all_eq_true, decide_eq_true_eq, neg_neg]
  intro c hc
  simp only [List.mem_map, List.mem_filter] at hc
  obtain ⟨⟨c', i⟩, ⟨hmem, hfl⟩, rfl⟩ := hc
  have hmem' : I.cons[i]? = some c' := List.mem_zipIdx_iff_getElem?.mp hmem
  have hi : i < cons.length := by
    have := (List.getElem?_eq_some_iff.mp hmem').1
    simpa [I, qpInst] using this
  have hc' : c' = { l := cons[i].1, r := cons[i].2.1, g := cons[i].2.2 } := by
    simp [I, qpInst, hi] at hmem'
    exact hmem'.symm
  have hu : (Vpsc.getC st i).unsat = false := by
    simp [Vpsc.flagged] at hfl
    rcases hfl with h | h
    · rw [hcs] at h; omega
    · exact h
  have hsl := s4 i (by rw [hcs]; exact hi) hu
  obtain ⟨l1, r1, g1⟩ := i7 i hi
  have cl : (Vpsc.getC st i).l = cons[i].1 := (s5.cstat i).1.trans l1
  have cr : (Vpsc.getC st i).r = cons[i].2.1 := (s5.cstat i).2.1.trans r1
  have cg : (Vpsc.getC st i).g = cons[i].2.2 := (s5.cstat i).2.2.trans g1
  obtain ⟨hl, hr⟩ := hidx cons[i] (List.getElem_mem _)
  have sl : (Vpsc.getV st cons[i].1).s = vars[cons[i].1].2.2 := (s5.vstat _).2.2.1.trans (i6 _ hl).2.2
  have sr : (Vpsc.getV st cons[i].2.1).s = vars[cons[i].2.1].2.2 := (s5.vstat _).2.2.1.trans (i6 _ hr).2.2
  have e : Vpsc.slack st i = QP.slack { vars := I.vars, cons := (I.cons.zipIdx.filter
      (fun p => !(Vpsc.flagged st).contains p.2)).map (·.1) } (Vpsc.positions st) c' := by
    unfold Vpsc.slack QP.slack
    simp only [hu, Bool.false_eq_true, if_false, cl, cr, cg, sl, sr, hc']
    rw [show I.vars = vars.map fun p => { d := p.1, w := p.2.1, s := p.2.2 } from rfl]
    rw [scaleOf_qpInst _ _ _ hr, scaleOf_qpInst _ _ _ hl, pos_positions st _ (by rw [hvs]; exact hr),
      pos_positions st _ (by rw [hvs]; exact hl)]
  rw [← e]
  exact hsl

/-- non-vacuity: two variables wanted at 0 that must be 2 apart end at −1 and 1 (cost 2), no fuel runs out, nothing is flagged -/
example : (Vpsc.solve 10 10 (Vpsc.init [(0, 1, 1), (0, 1, 1)] [(0, 1, 2)])).1.err = false ∧
    Vpsc.positions (Vpsc.solve 10 10 (Vpsc.init [(0, 1, 1), (0, 1, 1)] [(0, 1, 2)])).1 = [-1, 1] ∧
    Vpsc.flagged (Vpsc.solve 10 10 (Vpsc.init [(0, 1, 1), (0, 1, 1)] [(0, 1, 2)])).1 = [] ∧
    (Vpsc.solve 10 10 (Vpsc.init [(0, 1, 1), (0, 1, 1)] [(0, 1, 2)])).2 = 2 := by decide +kernel

/-- non-vacuity on a cyclic instance (`x₁ ≥ x₀ + 1` and `x₀ ≥ x₁ + 1`): the run ends without error, the second constraint is flagged -/
example : (Vpsc.solve 10 10 (Vpsc.init [(0, 1, 1), (0, 1, 1)] [(0, 1, 1), (1, 0, 1)])).1.err = false ∧
    Vpsc.positions (Vpsc.solve 10 10 (Vpsc.init [(0, 1, 1), (0, 1, 1)] [(0, 1, 1), (1, 0, 1)])).1 = [-1 / 2, 1 / 2] ∧
    Vpsc.flagged (Vpsc.solve 10 10 (Vpsc.init [(0, 1, 1), (0, 1, 1)] [(0, 1, 1), (1, 0, 1)])).1 = [1] := by decide +kernel


/-- the number `solve` returns is the weighted squared displacement of the positions it returns (cost of the QP instance at the reported positions) -/
theorem vpsc_returned_cost_is_cost_of_positions (vars : List (Rat × Rat × Rat)) (cons : List (Nat × Nat × Rat))
    (hidx : ∀ c ∈ cons, c.1 < vars.length ∧ c.2.1 < vars.length) (hs : ∀ v ∈ vars, v.2.2 ≠ 0) (fuel sfuel : Nat)
    (herr : (Vpsc.solve fuel sfuel (Vpsc.init vars cons)).1.err = false) :
    (Vpsc.solve fuel sfuel (Vpsc.init vars cons)).2 = QP.cost (qpInst vars cons) (Vpsc.positions (Vpsc.solve fuel sfuel (Vpsc.init vars cons)).1) := by
  obtain ⟨_, _, _, i4, _, i6, _⟩ := Vpsc.init_inv vars cons hidx hs
  obtain ⟨hI2, hcov⟩ := Vpsc.init_inv2 vars cons hidx hs
  obtain ⟨h2, _, _, s5, s6⟩ := Vpsc.solve_spec2' fuel sfuel _ hI2 hcov herr
  rw [s6, Vpsc.cost_eq_range _ h2.inv h2.nd h2.list]
  generalize (Vpsc.solve fuel sfuel (Vpsc.init vars cons)).1 = st at *
  have hvs : st.vs.size = vars.length := s5.vsize.trans i4
  have hlen : (Vpsc.positions st).length = (qpInst vars cons).vars.length := by
    simp [Vpsc.positions, qpInst, hvs]
  have hvl : (qpInst vars cons).vars.length = vars.length := by simp [qpInst]
  rw [QP.cost_eq _ _ hlen, QP.sum_map_eq_sum_range, List.length_range, hvl, hvs]
  apply Finset.sum_congr rfl
  intro i hi
  have hi' : i < vars.length := Finset.mem_range.mp hi
  have hw : (Vpsc.getV st i).w = vars[i].2.1 := (s5.vstat i).2.1.trans (i6 i hi').2.1
  have hd : (Vpsc.getV st i).d = vars[i].1 := (s5.vstat i).1.trans (i6 i hi').1
  rw [pos_positions st i (by rw [hvs]; exact hi')]
  simp [QP.vw, QP.vd, qpInst, hi', hw, hd]
  ring


/-- the QP instance read off the state `solve` returns is the instance that was given to `init` (the problem data never change) -/
theorem instOf_solve (vars : List (Rat × Rat × Rat)) (cons : List (Nat × Nat × Rat))
    (hidx : ∀ c ∈ cons, c.1 < vars.length ∧ c.2.1 < vars.length) (hs : ∀ v ∈ vars, v.2.2 ≠ 0) (fuel sfuel : Nat)
    (herr : (Vpsc.solve fuel sfuel (Vpsc.init vars cons)).1.err = false) :
    Vpsc.instOf (Vpsc.solve fuel sfuel (Vpsc.init vars cons)).1 = qpInst vars cons := by
  obtain ⟨_, _, _, i4, i5, i6, i7⟩ := Vpsc.init_inv vars cons hidx hs
  obtain ⟨hI2, hcov⟩ := Vpsc.init_inv2 vars cons hidx hs
  obtain ⟨_, _, _, s5, _⟩ := Vpsc.solve_spec2' fuel sfuel _ hI2 hcov herr
  generalize (Vpsc.solve fuel sfuel (Vpsc.init vars cons)).1 = st at *
  have hvs : st.vs.size = vars.length := s5.vsize.trans i4
  have hcs : st.cs.size = cons.length := s5.csize.trans i5
  unfold Vpsc.instOf qpInst
  congr 1
  · apply List.ext_getElem
    · simp [hvs]
    · intro i h1 h2
      have hi : i < vars.length := by simpa [hvs] using h1
      obtain ⟨a1, a2, a3⟩ := i6 i hi
      obtain ⟨b1, b2, b3, _⟩ := s5.vstat i
      simp [b1.trans a1, b2.trans a2, b3.trans a3]
  · apply List.ext_getElem
    · simp [hcs]
    · intro i h1 h2
      have hi : i < cons.length := by simpa [hcs] using h1
      obtain ⟨a1, a2, a3⟩ := i7 i hi
      obtain ⟨b1, b2, b3⟩ := s5.cstat i
      simp [b1.trans a1, b2.trans a2, b3.trans a3]

/-- **C05 (optimality half) for the transliterated solver, conditional on the solver's own exit test.**  If, in the state `solve`
returns, no active constraint carries a negative Lagrange multiplier (so `Blocks.split` has nothing left to split), then the
returned positions minimise the weighted squared displacement among ALL placements that satisfy every constraint — for any
constraint graph.  (Known finding F1 is exactly a run that ends with a negative multiplier pending.) -/
theorem vpsc_solve_optimal (vars : List (Rat × Rat × Rat)) (cons : List (Nat × Nat × Rat))
    (hidx : ∀ c ∈ cons, c.1 < vars.length ∧ c.2.1 < vars.length) (hs : ∀ v ∈ vars, v.2.2 ≠ 0)
    (hw : ∀ v ∈ vars, 0 < v.2.1) (fuel sfuel : Nat)
    (herr : (Vpsc.solve fuel sfuel (Vpsc.init vars cons)).1.err = false)
    (herr2 : (Vpsc.lmState (Vpsc.solve fuel sfuel (Vpsc.init vars cons)).1).err = false)
    (hpos : ∀ l ∈ Vpsc.multipliers (Vpsc.solve fuel sfuel (Vpsc.init vars cons)).1, 0 ≤ l)
    (z : List Rat) (hz : z.length = vars.length) (hfeas : Feasible (qpInst vars cons) z) :
    cost (qpInst vars cons) (Vpsc.positions (Vpsc.solve fuel sfuel (Vpsc.init vars cons)).1) ≤ cost (qpInst vars cons) z := by
  have hI := instOf_solve vars cons hidx hs fuel sfuel herr
  obtain ⟨_, _, _, i4, _, i6, _⟩ := Vpsc.init_inv vars cons hidx hs
  obtain ⟨hI2, hcov⟩ := Vpsc.init_inv2 vars cons hidx hs
  obtain ⟨h2, _, _, s5, _⟩ := Vpsc.solve_spec2' fuel sfuel _ hI2 hcov herr
  generalize (Vpsc.solve fuel sfuel (Vpsc.init vars cons)).1 = st at *
  have hvs : st.vs.size = vars.length := s5.vsize.trans i4
  have hw' : ∀ v, v < st.vs.size → 0 < (Vpsc.getV st v).w := by
    intro v hv
    have hv' : v < vars.length := by rw [← hvs]; exact hv
    rw [(s5.vstat v).2.1, (i6 v hv').2.1]
    exact hw _ (List.getElem_mem _)
  have := Vpsc.vpsc_optimal_of_nonneg_multipliers st h2.inv h2.nd h2.adj h2.list h2.stats hw' herr2 hpos z
    (by rw [hvs]; exact hz) (by rw [hI]; exact hfeas)
  rw [hI] at this
  exact this

/-- the same with the solver's tolerance: if every multiplier is `≥ LAGRANGIAN_TOLERANCE` (the test `Blocks.split` applies), the
returned positions are optimal up to `−LAGRANGIAN_TOLERANCE` times the total slack the competitor leaves on the constraints whose
multiplier is negative -/
theorem vpsc_solve_near_optimal (vars : List (Rat × Rat × Rat)) (cons : List (Nat × Nat × Rat))
    (hidx : ∀ c ∈ cons, c.1 < vars.length ∧ c.2.1 < vars.length) (hs : ∀ v ∈ vars, v.2.2 ≠ 0)
    (hw : ∀ v ∈ vars, 0 < v.2.1) (fuel sfuel : Nat)
    (herr : (Vpsc.solve fuel sfuel (Vpsc.init vars cons)).1.err = false)
    (herr2 : (Vpsc.lmState (Vpsc.solve fuel sfuel (Vpsc.init vars cons)).1).err = false)
    (htol : ∀ l ∈ Vpsc.multipliers (Vpsc.solve fuel sfuel (Vpsc.init vars cons)).1, Gen.lagrangianTolerance ≤ l)
    (z : List Rat) (hz : z.length = vars.length) (hfeas : Feasible (qpInst vars cons) z) :
    cost (qpInst vars cons) (Vpsc.positions (Vpsc.solve fuel sfuel (Vpsc.init vars cons)).1) ≤
      cost (qpInst vars cons) z + (-Gen.lagrangianTolerance) *
        (((qpInst vars cons).cons.zip (Vpsc.multipliers (Vpsc.solve fuel sfuel (Vpsc.init vars cons)).1)).map
          fun p => if p.2 < 0 then slack (qpInst vars cons) z p.1 else 0).sum := by
  have hI := instOf_solve vars cons hidx hs fuel sfuel herr
  obtain ⟨_, _, _, i4, _, i6, _⟩ := Vpsc.init_inv vars cons hidx hs
  obtain ⟨hI2, hcov⟩ := Vpsc.init_inv2 vars cons hidx hs
  obtain ⟨h2, _, _, s5, _⟩ := Vpsc.solve_spec2' fuel sfuel _ hI2 hcov herr
  generalize (Vpsc.solve fuel sfuel (Vpsc.init vars cons)).1 = st at *
  have hvs : st.vs.size = vars.length := s5.vsize.trans i4
  have hw' : ∀ v, v < st.vs.size → 0 < (Vpsc.getV st v).w := by
    intro v hv
    have hv' : v < vars.length := by rw [← hvs]; exact hv
    rw [(s5.vstat v).2.1, (i6 v hv').2.1]
    exact hw _ (List.getElem_mem _)
  have := Vpsc.vpsc_near_optimal_of_tolerance st h2.inv h2.nd h2.adj h2.list h2.stats hw' herr2 htol z
    (by rw [hvs]; exact hz) (by rw [hI]; exact hfeas)
  rw [hI] at this
  exact this

/-- non-vacuity of `vpsc_solve_optimal`: three variables wanted at 0, 0, 3 with `x₁ ≥ x₀ + 2`, `x₂ ≥ x₁ + 2`: no fuel runs out, the
multipliers are nonnegative (2, 2·… ), so the returned placement is THE optimum -/
example : (Vpsc.solve 10 20 (Vpsc.init [(0, 1, 1), (0, 1, 1), (3, 1, 1)] [(0, 1, 2), (1, 2, 2)])).1.err = false ∧
    (Vpsc.lmState (Vpsc.solve 10 20 (Vpsc.init [(0, 1, 1), (0, 1, 1), (3, 1, 1)] [(0, 1, 2), (1, 2, 2)])).1).err = false ∧
    (∀ l ∈ Vpsc.multipliers (Vpsc.solve 10 20 (Vpsc.init [(0, 1, 1), (0, 1, 1), (3, 1, 1)] [(0, 1, 2), (1, 2, 2)])).1, 0 ≤ l) := by
  decide +kernel

/-! ## fuel is immaterial: `err` can only come from the two open-ended loops (`satisfyLoop`, `solveLoop`)

The model gives every recursion and loop a fuel argument and sets `err` when it runs out.  Proved in `Proofs/VpscFuel.lean`:
* in a state that satisfies the invariants the tree traversals (`computeLm`, `findPath`, `isActiveDirectedPathBetween`,
  `populateSplitBlock` inside `Block.split`) never exhaust their fuel `travFuel st = st.vs.size + 2` — the active graph is a forest,
  so a traversal that never walks straight back follows a simple path, which has at most `vs.size` variables — and the split pass
  `Blocks.split` never exhausts its fuel `list.size + 3` (the list it iterates over grows by two entries at most once):
  `Vpsc.computeLm_noerr`, `Vpsc.findPath_noerr`, `Vpsc.isActiveDirectedPathBetween_noerr`, `Vpsc.blockSplit_noerr`,
  `Vpsc.findMinLM_noerr`, `Vpsc.blocksSplit_noerr`, `Vpsc.satStep_noerr`, `Vpsc.lmState_noerr`;
* a run that ended with `err = false` does not depend on the fuel it was given (pure fuel induction, no invariant). -/

/-- (b) fuel monotonicity of `satisfy`, for ANY state: a pass that ended with `err = false` returns the very same state with any
larger fuel; hence if it raises `err` with some fuel it raises it with every smaller fuel -/
theorem satisfy_fuel_mono (sfuel : Nat) (st : Vpsc.St) :
    ((Vpsc.satisfy sfuel st).err = false → ∀ sfuel', sfuel ≤ sfuel' → Vpsc.satisfy sfuel' st = Vpsc.satisfy sfuel st) ∧
    ((Vpsc.satisfy sfuel st).err = true → ∀ sfuel', sfuel' ≤ sfuel → (Vpsc.satisfy sfuel' st).err = true) :=
  ⟨Vpsc.satisfy_fuel_mono sfuel st, Vpsc.satisfy_err_antimono sfuel st⟩

/-- **(b)** In a state that satisfies the invariants (`Inv2`, `Covered`, `err = false`), `err` after `satisfy sfuel` comes from the
`while` loop of `satisfy` running out of its fuel and from nowhere else (no traversal, no `Block.split`, not the split pass):
`satisfy sfuel` raises `err` if and only if the test of the `while` statement (`Vpsc.satCond`: the most violated constraint is
violated by more than the tolerance and inactive) is still true at the start of each of the first `sfuel` iterations of the loop
body (`Vpsc.satIter`, defined without any loop fuel).  When the test first fails at iteration `k`, every fuel `> k` returns the state
of that iteration. -/
theorem satisfy_err_only_from_loop (st : Vpsc.St) (h : Vpsc.Inv2 st) (hcov : Vpsc.Covered st none) (herr : st.err = false)
    (sfuel : Nat) :
    ((Vpsc.satisfy sfuel st).err = true ↔ ∀ k, k < sfuel → Vpsc.satCond (Vpsc.satIter k (Vpsc.satStart st)) = true) ∧
    (∀ k, k < sfuel → (∀ j, j < k → Vpsc.satCond (Vpsc.satIter j (Vpsc.satStart st)) = true) →
      Vpsc.satCond (Vpsc.satIter k (Vpsc.satStart st)) = false →
      Vpsc.satisfy sfuel st = (Vpsc.satIter k (Vpsc.satStart st)).1) ∧
    ((Vpsc.satisfy sfuel st).err = true → ∀ sfuel', sfuel' ≤ sfuel → (Vpsc.satisfy sfuel' st).err = true) ∧
    ((Vpsc.satisfy sfuel st).err = false → ∀ sfuel', sfuel ≤ sfuel' → Vpsc.satisfy sfuel' st = Vpsc.satisfy sfuel st) :=
  ⟨Vpsc.satisfy_err_iff sfuel st h hcov herr, fun k hk => Vpsc.satisfy_eq_iter sfuel st h hcov herr k hk,
    Vpsc.satisfy_err_antimono sfuel st, Vpsc.satisfy_fuel_mono sfuel st⟩

/-- **(c)** fuel monotonicity of `solve`, for ANY state: a run that ended with `err = false` returns the very same state and cost with
any larger fuels (so every C05 theorem stated for "a run with `err = false`" speaks about THE result of the fuel-free algorithm);
hence if it raises `err` it raises it with all smaller fuels -/
theorem solve_fuel_mono (fuel sfuel : Nat) (st : Vpsc.St) :
    ((Vpsc.solve fuel sfuel st).1.err = false →
      ∀ fuel', fuel ≤ fuel' → ∀ sfuel', sfuel ≤ sfuel' → Vpsc.solve fuel' sfuel' st = Vpsc.solve fuel sfuel st) ∧
    ((Vpsc.solve fuel sfuel st).1.err = true →
      ∀ fuel', fuel' ≤ fuel → ∀ sfuel', sfuel' ≤ sfuel → (Vpsc.solve fuel' sfuel' st).1.err = true) :=
  ⟨Vpsc.solve_fuel_mono fuel sfuel st, Vpsc.solve_err_antimono fuel sfuel st⟩

/-- **(c), where `err` comes from.**  If `solve fuel sfuel` raises `err` from a state that satisfies the invariants, then either one of
its `satisfy` passes — entered in a state that satisfies all invariants and has `err = false` — found the test of its `while` loop
true at the start of each of its `sfuel` iterations, or the test of the `while` loop of `solve` (`|lastcost − cost| > 0.0001`) was
true at the start of each of its `fuel` iterations. -/
theorem solve_err_only_from_loops (fuel sfuel : Nat) (st : Vpsc.St) (h : Vpsc.Inv2 st) (hcov : Vpsc.Covered st none)
    (herr : st.err = false) (he : (Vpsc.solve fuel sfuel st).1.err = true) :
    (∃ st', Vpsc.Inv2 st' ∧ Vpsc.Covered st' none ∧ st'.err = false ∧
        ∀ k, k < sfuel → Vpsc.satCond (Vpsc.satIter k (Vpsc.satStart st')) = true) ∨
    (∀ k, k < fuel → Vpsc.solveCond (Vpsc.solveIter sfuel k (Vpsc.solveStart sfuel st)) = true) :=
  Vpsc.solve_err_only_from_loops fuel sfuel st h hcov herr he

theorem init_err (vars : List (Rat × Rat × Rat)) (cons : List (Nat × Nat × Rat)) : (Vpsc.init vars cons).err = false := by
  rw [Vpsc.FrameAux.init_eq, Vpsc.FrameAux.initBlocks_eq]
  refine Vpsc.foldl_invS (fun acc : Vpsc.St => acc.err = false) _ _ _ rfl ?_
  intro acc i _ hacc
  exact hacc

/-- the two statements for the solver's initial state: the result of `solve` on an instance does not depend on the fuels once they
suffice, and `err` on an instance can only mean that one of the two `while` loops was still running when its fuel ran out -/
theorem vpsc_solve_fuel_immaterial (vars : List (Rat × Rat × Rat)) (cons : List (Nat × Nat × Rat))
    (hidx : ∀ c ∈ cons, c.1 < vars.length ∧ c.2.1 < vars.length) (hs : ∀ v ∈ vars, v.2.2 ≠ 0) (fuel sfuel : Nat) :
    ((Vpsc.solve fuel sfuel (Vpsc.init vars cons)).1.err = false →
      ∀ fuel', fuel ≤ fuel' → ∀ sfuel', sfuel ≤ sfuel' →
        Vpsc.solve fuel' sfuel' (Vpsc.init vars cons) = Vpsc.solve fuel sfuel (Vpsc.init vars cons)) ∧
    ((Vpsc.solve fuel sfuel (Vpsc.init vars cons)).1.err = true →
      (∃ st', Vpsc.Inv2 st' ∧ Vpsc.Covered st' none ∧ st'.err = false ∧
          ∀ k, k < sfuel → Vpsc.satCond (Vpsc.satIter k (Vpsc.satStart st')) = true) ∨
      (∀ k, k < fuel → Vpsc.solveCond (Vpsc.solveIter sfuel k (Vpsc.solveStart sfuel (Vpsc.init vars cons))) = true)) := by
  obtain ⟨hI2, hcov⟩ := Vpsc.init_inv2 vars cons hidx hs
  exact ⟨Vpsc.solve_fuel_mono fuel sfuel _,
    Vpsc.solve_err_only_from_loops fuel sfuel _ hI2 hcov (init_err vars cons)⟩

/-- the hypothesis `herr2` of `vpsc_solve_optimal` / `vpsc_solve_near_optimal` (recomputing the multipliers raises no `err`) follows
from `herr`: the traversals have enough fuel -/
theorem vpsc_lmState_noerr (vars : List (Rat × Rat × Rat)) (cons : List (Nat × Nat × Rat))
    (hidx : ∀ c ∈ cons, c.1 < vars.length ∧ c.2.1 < vars.length) (hs : ∀ v ∈ vars, v.2.2 ≠ 0) (fuel sfuel : Nat)
    (herr : (Vpsc.solve fuel sfuel (Vpsc.init vars cons)).1.err = false) :
    (Vpsc.lmState (Vpsc.solve fuel sfuel (Vpsc.init vars cons)).1).err = false := by
  obtain ⟨hI2, hcov⟩ := Vpsc.init_inv2 vars cons hidx hs
  obtain ⟨h2, _, _, _, _⟩ := Vpsc.solve_spec2' fuel sfuel _ hI2 hcov herr
  exact Vpsc.lmState_noerr _ h2.inv h2.list herr

/-- non-vacuity: on the cyclic two-variable instance, `solve 10 10` ends without `err`, hence every larger fuel returns the same result;
with `sfuel = 0` the `satisfy` loop is cut off at once and `err` is raised -/
example : (Vpsc.solve 10 10 (Vpsc.init [(0, 1, 1), (0, 1, 1)] [(0, 1, 1), (1, 0, 1)])).1.err = false ∧
    (Vpsc.solve 10 0 (Vpsc.init [(0, 1, 1), (0, 1, 1)] [(0, 1, 1), (1, 0, 1)])).1.err = true := by decide +kernel


/-! ## incremental use: the SAME solver object is given new desired positions and solved again (`setDesiredPositions`; `solve`)

`Vpsc.resolve fuel sfuel st pss` = `solve`, then for every list `ps` of `pss`: `setDesired ps; solve`, all on one state (the blocks, the
active constraints, the unsatisfiable flags and the pending list of the earlier solves stay; block positions are recomputed from the new
targets at the start of the next `Blocks.split`). -/

/-- the problem data after the target updates: weights, scales and constraints as given, desired positions overwritten list by list -/
def targetsAfter (vars : List (Rat × Rat × Rat)) (pss : List (List Rat)) : List (Rat × Rat × Rat) :=
  pss.foldl (fun vs ps => vs.zipIdx.map (fun (p : (Rat × Rat × Rat) × Nat) => (ps.getD p.2 p.1.1, p.1.2.1, p.1.2.2))) vars

theorem targetsAfter_eq (vars : List (Rat × Rat × Rat)) (pss : List (List Rat)) :
    targetsAfter vars pss = pss.foldl Vpsc.retarget vars := rfl

/-- the target updates change neither the number of variables nor their weights and scales -/
theorem targetsAfter_spec (vars : List (Rat × Rat × Rat)) (pss : List (List Rat)) :
    (targetsAfter vars pss).length = vars.length ∧
    ∀ i (h : i < vars.length) (h' : i < (targetsAfter vars pss).length), (targetsAfter vars pss)[i].2 = vars[i].2 :=
  Vpsc.foldl_retarget_snd pss vars

/-- everything the C05 theorems need about the pair the last `solve` of `resolve` returns -/
theorem resolve_good (vars : List (Rat × Rat × Rat)) (cons : List (Nat × Nat × Rat))
    (hidx : ∀ c ∈ cons, c.1 < vars.length ∧ c.2.1 < vars.length) (hs : ∀ v ∈ vars, v.2.2 ≠ 0) (fuel sfuel : Nat)
    (pss : List (List Rat))
    (herr : (Vpsc.resolve fuel sfuel (Vpsc.init vars cons) pss).1.err = false) :
    Vpsc.Good (targetsAfter vars pss) cons (Vpsc.resolve fuel sfuel (Vpsc.init vars cons) pss) :=
  Vpsc.resolve_good vars cons hidx hs fuel sfuel pss herr

/-- C05 (feasibility half) after ANY number of target updates and re-solves on one solver, for ALL constraint graphs: when the last `solve`
returns (no fuel exhausted), every constraint not flagged unsatisfiable holds up to the solver's tolerance, and the returned number is the
cost of the returned state -/
theorem vpsc_resolve_feasible (vars : List (Rat × Rat × Rat)) (cons : List (Nat × Nat × Rat))
    (hidx : ∀ c ∈ cons, c.1 < vars.length ∧ c.2.1 < vars.length) (hs : ∀ v ∈ vars, v.2.2 ≠ 0) (fuel sfuel : Nat)
    (pss : List (List Rat))
    (herr : (Vpsc.resolve fuel sfuel (Vpsc.init vars cons) pss).1.err = false) :
    (∀ ci, ci < cons.length → (Vpsc.getC (Vpsc.resolve fuel sfuel (Vpsc.init vars cons) pss).1 ci).unsat = false →
        Gen.zeroUpperBound ≤ Vpsc.slack (Vpsc.resolve fuel sfuel (Vpsc.init vars cons) pss).1 ci) ∧
    (Vpsc.resolve fuel sfuel (Vpsc.init vars cons) pss).2 = Vpsc.cost (Vpsc.resolve fuel sfuel (Vpsc.init vars cons) pss).1 := by
  have g := resolve_good vars cons hidx hs fuel sfuel pss herr
  exact ⟨fun ci hci hu => g.feas ci (by rw [g.data.csize]; exact hci) hu, g.cost⟩

/-- a state that holds the instance `(vars, cons)` has that instance as its `instOf` -/
theorem instOf_of_data (vars : List (Rat × Rat × Rat)) (cons : List (Nat × Nat × Rat)) (st : Vpsc.St)
    (h : Vpsc.Data vars cons st) : Vpsc.instOf st = qpInst vars cons := by
  have hvs := h.vsize
  have hcs := h.csize
  unfold Vpsc.instOf qpInst
  congr 1
  · apply List.ext_getElem
    · simp [hvs]
    · intro i h1 h2
      have hi : i < vars.length := by simpa [hvs] using h1
      obtain ⟨a1, a2, a3⟩ := h.vdat i hi
      simp [a1, a2, a3]
  · apply List.ext_getElem
    · simp [hcs]
    · intro i h1 h2
      have hi : i < cons.length := by simpa [hcs] using h1
      obtain ⟨a1, a2, a3⟩ := h.cdat i hi
      simp [a1, a2, a3]

/-- the QP instance read off the final state is the given instance with the desired positions as last set -/
theorem instOf_resolve (vars : List (Rat × Rat × Rat)) (cons : List (Nat × Nat × Rat))
    (hidx : ∀ c ∈ cons, c.1 < vars.length ∧ c.2.1 < vars.length) (hs : ∀ v ∈ vars, v.2.2 ≠ 0) (fuel sfuel : Nat)
    (pss : List (List Rat))
    (herr : (Vpsc.resolve fuel sfuel (Vpsc.init vars cons) pss).1.err = false) :
    Vpsc.instOf (Vpsc.resolve fuel sfuel (Vpsc.init vars cons) pss).1 = qpInst (targetsAfter vars pss) cons :=
  instOf_of_data _ cons _ (resolve_good vars cons hidx hs fuel sfuel pss herr).data

/-- the number the last `solve` returns is the weighted squared displacement of the returned positions from the targets as LAST set -/
theorem vpsc_resolve_returned_cost (vars : List (Rat × Rat × Rat)) (cons : List (Nat × Nat × Rat))
    (hidx : ∀ c ∈ cons, c.1 < vars.length ∧ c.2.1 < vars.length) (hs : ∀ v ∈ vars, v.2.2 ≠ 0) (fuel sfuel : Nat)
    (pss : List (List Rat))
    (herr : (Vpsc.resolve fuel sfuel (Vpsc.init vars cons) pss).1.err = false) :
    (Vpsc.resolve fuel sfuel (Vpsc.init vars cons) pss).2 =
      QP.cost (qpInst (targetsAfter vars pss) cons) (Vpsc.positions (Vpsc.resolve fuel sfuel (Vpsc.init vars cons) pss).1) := by
  have g := resolve_good vars cons hidx hs fuel sfuel pss herr
  rw [g.cost, Vpsc.cost_eq_range _ g.inv2.inv g.inv2.nd g.inv2.list]
  have hdat := g.data
  generalize (Vpsc.resolve fuel sfuel (Vpsc.init vars cons) pss).1 = st at *
  generalize targetsAfter vars pss = tv at *
  have hvs : st.vs.size = tv.length := hdat.vsize
  have hlen : (Vpsc.positions st).length = (qpInst tv cons).vars.length := by
    simp [Vpsc.positions, qpInst, hvs]
  have hvl : (qpInst tv cons).vars.length = tv.length := by simp [qpInst]
  rw [QP.cost_eq _ _ hlen, QP.sum_map_eq_sum_range, List.length_range, hvl, hvs]
  apply Finset.sum_congr rfl
  intro i hi
  have hi' : i < tv.length := Finset.mem_range.mp hi
  have hw : (Vpsc.getV st i).w = tv[i].2.1 := (hdat.vdat i hi').2.1
  have hd : (Vpsc.getV st i).d = tv[i].1 := (hdat.vdat i hi').1
  rw [pos_positions st i (by rw [hvs]; exact hi')]
  simp [QP.vw, QP.vd, qpInst, hi', hw, hd]
  ring

/-- **C05 (optimality half) after target updates, conditional on the solver's own exit test**: if no active constraint carries a negative
multiplier in the final state, the returned positions minimise the weighted squared displacement FROM THE TARGETS AS LAST SET among all
placements satisfying every constraint (what the earlier solves left in the solver does not matter) -/
theorem vpsc_resolve_optimal (vars : List (Rat × Rat × Rat)) (cons : List (Nat × Nat × Rat))
    (hidx : ∀ c ∈ cons, c.1 < vars.length ∧ c.2.1 < vars.length) (hs : ∀ v ∈ vars, v.2.2 ≠ 0)
    (hw : ∀ v ∈ vars, 0 < v.2.1) (fuel sfuel : Nat) (pss : List (List Rat))
    (herr : (Vpsc.resolve fuel sfuel (Vpsc.init vars cons) pss).1.err = false)
    (herr2 : (Vpsc.lmState (Vpsc.resolve fuel sfuel (Vpsc.init vars cons) pss).1).err = false)
    (hpos : ∀ l ∈ Vpsc.multipliers (Vpsc.resolve fuel sfuel (Vpsc.init vars cons) pss).1, 0 ≤ l)
    (z : List Rat) (hz : z.length = vars.length) (hfeas : Feasible (qpInst (targetsAfter vars pss) cons) z) :
    cost (qpInst (targetsAfter vars pss) cons) (Vpsc.positions (Vpsc.resolve fuel sfuel (Vpsc.init vars cons) pss).1) ≤
      cost (qpInst (targetsAfter vars pss) cons) z := by
  have hI := instOf_resolve vars cons hidx hs fuel sfuel pss herr
  have g := resolve_good vars cons hidx hs fuel sfuel pss herr
  obtain ⟨t1, t2⟩ := targetsAfter_spec vars pss
  have h2 := g.inv2
  have hdat := g.data
  generalize (Vpsc.resolve fuel sfuel (Vpsc.init vars cons) pss).1 = st at *
  have hvs : st.vs.size = vars.length := hdat.vsize.trans t1
  have hw' : ∀ v, v < st.vs.size → 0 < (Vpsc.getV st v).w := by
    intro v hv
    have hv' : v < vars.length := by rw [← hvs]; exact hv
    have hv'' : v < (targetsAfter vars pss).length := by rw [t1]; exact hv'
    rw [(hdat.vdat v hv'').2.1, t2 v hv' hv'']
    exact hw _ (List.getElem_mem _)
  have := Vpsc.vpsc_optimal_of_nonneg_multipliers st h2.inv h2.nd h2.adj h2.list h2.stats hw' herr2 hpos z
    (by rw [hvs]; exact hz) (by rw [hI]; exact hfeas)
  rw [hI] at this
  exact this

/-- non-vacuity: three variables wanted at 0, 0, 0 with `x₀ + 2 ≤ x₁`, `x₁ + 2 ≤ x₂` are solved (−2, 0, 2); the targets are set to 10, 0, −10
and the SAME solver solves again: the block stays, same positions, cost 12² + 0 + 12² = 288; then the targets are set to 0, 5, 20 (both
constraints slack: the block must split twice) and it solves again: every variable sits on its target, cost 0.  No fuel runs out, nothing is
flagged. -/
example :
    (Vpsc.resolve 10 20 (Vpsc.init [(0, 1, 1), (0, 1, 1), (0, 1, 1)] [(0, 1, 2), (1, 2, 2)]) [[10, 0, -10]]).1.err = false ∧
    Vpsc.positions (Vpsc.resolve 10 20 (Vpsc.init [(0, 1, 1), (0, 1, 1), (0, 1, 1)] [(0, 1, 2), (1, 2, 2)]) [[10, 0, -10]]).1 = [-2, 0, 2] ∧
    (Vpsc.resolve 10 20 (Vpsc.init [(0, 1, 1), (0, 1, 1), (0, 1, 1)] [(0, 1, 2), (1, 2, 2)]) [[10, 0, -10]]).2 = 288 ∧
    (Vpsc.resolve 10 20 (Vpsc.init [(0, 1, 1), (0, 1, 1), (0, 1, 1)] [(0, 1, 2), (1, 2, 2)]) [[10, 0, -10], [0, 5, 20]]).1.err = false ∧
    Vpsc.positions (Vpsc.resolve 10 20 (Vpsc.init [(0, 1, 1), (0, 1, 1), (0, 1, 1)] [(0, 1, 2), (1, 2, 2)]) [[10, 0, -10], [0, 5, 20]]).1
      = [0, 5, 20] ∧
    (Vpsc.resolve 10 20 (Vpsc.init [(0, 1, 1), (0, 1, 1), (0, 1, 1)] [(0, 1, 2), (1, 2, 2)]) [[10, 0, -10], [0, 5, 20]]).2 = 0 ∧
    Vpsc.flagged (Vpsc.resolve 10 20 (Vpsc.init [(0, 1, 1), (0, 1, 1), (0, 1, 1)] [(0, 1, 2), (1, 2, 2)]) [[10, 0, -10], [0, 5, 20]]).1 = [] ∧
    targetsAfter [(0, 1, 1), (0, 1, 1), (0, 1, 1)] [[10, 0, -10], [0, 5, 20]] = [(0, 1, 1), (5, 1, 1), (20, 1, 1)] := by
  decide +kernel

/-- non-vacuity of `vpsc_resolve_optimal`: in the same run, after the first update (targets 10, 0, −10) the multipliers are 24, 24, after the
second (targets 0, 5, 20) they are 0, 0 (no constraint active): recomputing them raises no `err` and none is negative, so the theorem applies
to both re-solves -/
example :
    (Vpsc.lmState (Vpsc.resolve 10 20 (Vpsc.init [(0, 1, 1), (0, 1, 1), (0, 1, 1)] [(0, 1, 2), (1, 2, 2)]) [[10, 0, -10]]).1).err = false ∧
    Vpsc.multipliers (Vpsc.resolve 10 20 (Vpsc.init [(0, 1, 1), (0, 1, 1), (0, 1, 1)] [(0, 1, 2), (1, 2, 2)]) [[10, 0, -10]]).1 = [24, 24] ∧
    (Vpsc.lmState (Vpsc.resolve 10 20 (Vpsc.init [(0, 1, 1), (0, 1, 1), (0, 1, 1)] [(0, 1, 2), (1, 2, 2)]) [[10, 0, -10], [0, 5, 20]]).1).err
      = false ∧
    Vpsc.multipliers (Vpsc.resolve 10 20 (Vpsc.init [(0, 1, 1), (0, 1, 1), (0, 1, 1)] [(0, 1, 2), (1, 2, 2)]) [[10, 0, -10], [0, 5, 20]]).1
      = [0, 0] := by
  decide +kernel


/-! ## termination of `satisfy` on path graphs — the instances `removeOverlap` builds

`removeOverlap` hands the solver the variables `[left wall,] label₀ … label_k [, right wall]` and one constraint between each pair of
neighbours: a path.  On a path the `while` loop of `Solver.satisfy` only ever MERGES two different blocks (an inactive violated
constraint whose two ends lie in one block would need a second active route between two neighbours, and a path has none), so it ends
after fewer iterations than there are variables: the loop fuel cannot run out, and `err` can only come from the outer loop of `solve`. -/

/-- every constraint joins two consecutive variables `i`, `i + 1`, and no two constraints join the same pair -/
def IsPath (st : Vpsc.St) : Prop :=
  (∀ c, c < st.cs.size → (Vpsc.getC st c).r = (Vpsc.getC st c).l + 1 ∧ (Vpsc.getC st c).r < st.vs.size) ∧
  ∀ c c', c < st.cs.size → c' < st.cs.size → (Vpsc.getC st c).l = (Vpsc.getC st c').l → c = c'

/-- on a path, in any state that satisfies the invariants, a `satisfy` pass with more loop fuel than there are variables finishes -/
theorem path_satisfy_terminates (st : Vpsc.St) (h : Vpsc.Inv2 st) (hcov : Vpsc.Covered st none) (herr : st.err = false)
    (hp : IsPath st) (sfuel : Nat) (hf : st.vs.size < sfuel) :
    (Vpsc.satisfy sfuel st).err = false :=
  Vpsc.path_satisfy_noerr st h hcov herr hp sfuel hf

/-- hence for the instances `removeOverlap` builds: `solve` can raise `err` only because the test of its OUTER loop
(`|lastcost − cost| > 0.0001`) was still true at the start of each of its `fuel` iterations -/
theorem path_solve_err_only_outer (vars : List (Rat × Rat × Rat)) (cons : List (Nat × Nat × Rat))
    (hidx : ∀ c ∈ cons, c.1 < vars.length ∧ c.2.1 < vars.length) (hs : ∀ v ∈ vars, v.2.2 ≠ 0)
    (hpath : ∀ c ∈ cons, c.2.1 = c.1 + 1) (hnd : (cons.map (·.1)).Nodup) (fuel sfuel : Nat) (hf : vars.length < sfuel)
    (he : (Vpsc.solve fuel sfuel (Vpsc.init vars cons)).1.err = true) :
    ∀ k, k < fuel → Vpsc.solveCond (Vpsc.solveIter sfuel k (Vpsc.solveStart sfuel (Vpsc.init vars cons))) = true := by
  obtain ⟨hI2, hcov⟩ := Vpsc.init_inv2 vars cons hidx hs
  have hvs : (Vpsc.init vars cons).vs.size = vars.length := (Vpsc.init_inv vars cons hidx hs).2.2.2.1
  exact Vpsc.path_solve_err_outer fuel sfuel _ hI2 hcov (init_err vars cons)
    (Vpsc.init_isPathSt vars cons hidx hs hpath hnd) (by rw [hvs]; exact hf) he

/-- non-vacuity: a wall-like heavy first variable (weight 10⁶) followed by three labels wanted at 1, 1, 2 with gaps 3 between neighbours is a path
instance (hypotheses `hidx`, `hs`, `hpath`, `hnd` hold), `5 > 4` is enough loop fuel, and `solve` ends without `err`; with too little loop
fuel (`sfuel = 1`) the `satisfy` loop is cut off and `err` is raised, so the fuel hypothesis is not idle -/
example :
    (∀ c ∈ [(0, 1, (3 : Rat)), (1, 2, 3), (2, 3, 3)], c.1 < 4 ∧ c.2.1 < 4) ∧
    (∀ v ∈ [((0 : Rat), (1000000 : Rat), (1 : Rat)), (1, 1, 1), (1, 1, 1), (2, 1, 1)], v.2.2 ≠ 0) ∧
    (∀ c ∈ [(0, 1, (3 : Rat)), (1, 2, 3), (2, 3, 3)], c.2.1 = c.1 + 1) ∧
    (([(0, 1, (3 : Rat)), (1, 2, 3), (2, 3, 3)] : List (Nat × Nat × Rat)).map (·.1)).Nodup ∧
    ([((0 : Rat), (1000000 : Rat), (1 : Rat)), (1, 1, 1), (1, 1, 1), (2, 1, 1)] : List (Rat × Rat × Rat)).length < 5 ∧
    (Vpsc.solve 10 5 (Vpsc.init [(0, 1000000, 1), (1, 1, 1), (1, 1, 1), (2, 1, 1)] [(0, 1, 3), (1, 2, 3), (2, 3, 3)])).1.err = false ∧
    (Vpsc.solve 10 1 (Vpsc.init [(0, 1000000, 1), (1, 1, 1), (1, 1, 1), (2, 1, 1)] [(0, 1, 3), (1, 2, 3), (2, 3, 3)])).1.err = true := by
  decide +kernel


/-! ## the instances `removeOverlap` builds (paths, unit scales): `solve` terminates and is optimal — unconditionally

On a path every step of the first `satisfy` pass merges two neighbouring blocks across a VIOLATED constraint; the merged block settles
between where its two halves stood, so the left half moves left and the right half moves right, which can only raise the multipliers of the
constraints inside either half, and the multiplier of the joining constraint is ≥ 0 (pool-adjacent-violators: a pooling step is never
regretted).  Hence after the first pass every multiplier is ≥ 0: the state is the optimum, the split pass of the second `satisfy` finds nothing to
split, nothing is violated, the cost does not change, and `solve` returns after exactly two passes. -/

/-- after the first `satisfy` pass from the solver's initial state no active constraint carries a negative multiplier -/
theorem path_first_pass_multipliers_nonneg (vars : List (Rat × Rat × Rat)) (cons : List (Nat × Nat × Rat))
    (hidx : ∀ c ∈ cons, c.1 < vars.length ∧ c.2.1 < vars.length) (hw : ∀ v ∈ vars, 0 < v.2.1) (hsc : ∀ v ∈ vars, v.2.2 = 1)
    (hpath : ∀ c ∈ cons, c.2.1 = c.1 + 1) (hnd : (cons.map (·.1)).Nodup) (sfuel : Nat) (hf : vars.length < sfuel) :
    (Vpsc.satisfy sfuel (Vpsc.init vars cons)).err = false ∧
    (Vpsc.lmState (Vpsc.satisfy sfuel (Vpsc.init vars cons))).err = false ∧
    ∀ l ∈ Vpsc.multipliers (Vpsc.satisfy sfuel (Vpsc.init vars cons)), 0 ≤ l := by
  have P := Vpsc.init_pstate vars cons hidx hw hsc hpath hnd
  have hs : ∀ v ∈ vars, v.2.2 ≠ 0 := fun v hv => by rw [hsc v hv]; exact one_ne_zero
  have hvs : (Vpsc.init vars cons).vs.size = vars.length := (Vpsc.init_inv vars cons hidx hs).2.2.2.1
  obtain ⟨P1, _, _⟩ := Vpsc.satisfy_pstate P sfuel (by rw [hvs]; exact hf)
  exact ⟨P1.err, Vpsc.pstate_multipliers_nonneg P1⟩

/-- **termination, unconditionally, for the instances `removeOverlap` builds**: with loop fuels 2 (outer) and more than the number of
variables (inner) `solve` finishes — and by `vpsc_solve_fuel_immaterial` any larger fuels give the very same result -/
theorem path_solve_terminates (vars : List (Rat × Rat × Rat)) (cons : List (Nat × Nat × Rat))
    (hidx : ∀ c ∈ cons, c.1 < vars.length ∧ c.2.1 < vars.length) (hw : ∀ v ∈ vars, 0 < v.2.1) (hsc : ∀ v ∈ vars, v.2.2 = 1)
    (hpath : ∀ c ∈ cons, c.2.1 = c.1 + 1) (hnd : (cons.map (·.1)).Nodup) (fuel sfuel : Nat) (hfuel : 2 ≤ fuel)
    (hf : vars.length < sfuel) :
    (Vpsc.solve fuel sfuel (Vpsc.init vars cons)).1.err = false := by
  have P := Vpsc.init_pstate vars cons hidx hw hsc hpath hnd
  have hs : ∀ v ∈ vars, v.2.2 ≠ 0 := fun v hv => by rw [hsc v hv]; exact one_ne_zero
  have hvs : (Vpsc.init vars cons).vs.size = vars.length := (Vpsc.init_inv vars cons hidx hs).2.2.2.1
  exact (Vpsc.solve_pstate P fuel sfuel hfuel (by rw [hvs]; exact hf)).1.err

/-- **C05 / C02 for the instances `removeOverlap` builds, unconditionally**: the positions `solve` returns minimise the weighted squared
displacement among ALL placements that satisfy every constraint (no hypothesis about multipliers, none about `err`) -/
theorem path_solve_optimal (vars : List (Rat × Rat × Rat)) (cons : List (Nat × Nat × Rat))
    (hidx : ∀ c ∈ cons, c.1 < vars.length ∧ c.2.1 < vars.length) (hw : ∀ v ∈ vars, 0 < v.2.1) (hsc : ∀ v ∈ vars, v.2.2 = 1)
    (hpath : ∀ c ∈ cons, c.2.1 = c.1 + 1) (hnd : (cons.map (·.1)).Nodup) (fuel sfuel : Nat) (hfuel : 2 ≤ fuel)
    (hf : vars.length < sfuel)
    (z : List Rat) (hz : z.length = vars.length) (hfeas : Feasible (qpInst vars cons) z) :
    cost (qpInst vars cons) (Vpsc.positions (Vpsc.solve fuel sfuel (Vpsc.init vars cons)).1) ≤ cost (qpInst vars cons) z := by
  have P := Vpsc.init_pstate vars cons hidx hw hsc hpath hnd
  have hs : ∀ v ∈ vars, v.2.2 ≠ 0 := fun v hv => by rw [hsc v hv]; exact one_ne_zero
  have hvs : (Vpsc.init vars cons).vs.size = vars.length := (Vpsc.init_inv vars cons hidx hs).2.2.2.1
  have PS := (Vpsc.solve_pstate P fuel sfuel hfuel (by rw [hvs]; exact hf)).1
  obtain ⟨m1, m2⟩ := Vpsc.pstate_multipliers_nonneg PS
  exact vpsc_solve_optimal vars cons hidx hs hw fuel sfuel PS.err m1 m2 z hz hfeas

/-- non-vacuity of the three theorems: a wall-like heavy first variable (weight 10¹⁰, wanted at 0) followed by four labels wanted at 1, 1, 2, 20 with gaps 3
between neighbours.  The hypotheses `hidx`, `hw`, `hsc`, `hpath`, `hnd`, `2 ≤ fuel`, `vars.length < sfuel` hold; the first pass performs three merges
(the first three constraints end active, the last one stays slack); `solve 2 6` ends with `err = false` at the positions shown (the wall gives way by
2 / 1428571429); the multipliers are 40000000000/1428571429, 34285714288/1428571429, 20000000002/1428571429, 0 — none negative; with outer fuel 1 the
loop of `solve` is cut off, so `2 ≤ fuel` is not idle -/
example :
    (∀ c ∈ [(0, 1, (3 : Rat)), (1, 2, 3), (2, 3, 3), (3, 4, 3)], c.1 < 5 ∧ c.2.1 < 5) ∧
    (∀ v ∈ [((0 : Rat), (10000000000 : Rat), (1 : Rat)), (1, 1, 1), (1, 1, 1), (2, 1, 1), (20, 1, 1)], 0 < v.2.1) ∧
    (∀ v ∈ [((0 : Rat), (10000000000 : Rat), (1 : Rat)), (1, 1, 1), (1, 1, 1), (2, 1, 1), (20, 1, 1)], v.2.2 = 1) ∧
    (∀ c ∈ [(0, 1, (3 : Rat)), (1, 2, 3), (2, 3, 3), (3, 4, 3)], c.2.1 = c.1 + 1) ∧
    (([(0, 1, (3 : Rat)), (1, 2, 3), (2, 3, 3), (3, 4, 3)] : List (Nat × Nat × Rat)).map (·.1)).Nodup ∧
    2 ≤ 2 ∧
    ([((0 : Rat), (10000000000 : Rat), (1 : Rat)), (1, 1, 1), (1, 1, 1), (2, 1, 1), (20, 1, 1)] : List (Rat × Rat × Rat)).length < 6 ∧
    (Vpsc.solve 2 6 (Vpsc.init [(0, 10000000000, 1), (1, 1, 1), (1, 1, 1), (2, 1, 1), (20, 1, 1)]
      [(0, 1, 3), (1, 2, 3), (2, 3, 3), (3, 4, 3)])).1.err = false ∧
    Vpsc.positions (Vpsc.solve 2 6 (Vpsc.init [(0, 10000000000, 1), (1, 1, 1), (1, 1, 1), (2, 1, 1), (20, 1, 1)]
      [(0, 1, 3), (1, 2, 3), (2, 3, 3), (3, 4, 3)])).1 =
      [-2 / 1428571429, 4285714285 / 1428571429, 8571428572 / 1428571429, 12857142859 / 1428571429, 20] ∧
    ((List.range 4).map fun c => (Vpsc.getC (Vpsc.solve 2 6 (Vpsc.init [(0, 10000000000, 1), (1, 1, 1), (1, 1, 1), (2, 1, 1), (20, 1, 1)]
      [(0, 1, 3), (1, 2, 3), (2, 3, 3), (3, 4, 3)])).1 c).active) = [true, true, true, false] ∧
    Vpsc.multipliers (Vpsc.satisfy 6 (Vpsc.init [(0, 10000000000, 1), (1, 1, 1), (1, 1, 1), (2, 1, 1), (20, 1, 1)]
      [(0, 1, 3), (1, 2, 3), (2, 3, 3), (3, 4, 3)])) =
      [40000000000 / 1428571429, 34285714288 / 1428571429, 20000000002 / 1428571429, 0] ∧
    Vpsc.multipliers (Vpsc.solve 2 6 (Vpsc.init [(0, 10000000000, 1), (1, 1, 1), (1, 1, 1), (2, 1, 1), (20, 1, 1)]
      [(0, 1, 3), (1, 2, 3), (2, 3, 3), (3, 4, 3)])).1 =
      [40000000000 / 1428571429, 34285714288 / 1428571429, 20000000002 / 1428571429, 0] ∧
    (Vpsc.solve 1 6 (Vpsc.init [(0, 10000000000, 1), (1, 1, 1), (1, 1, 1), (2, 1, 1), (20, 1, 1)]
      [(0, 1, 3), (1, 2, 3), (2, 3, 3), (3, 4, 3)])).1.err = true := by
  decide +kernel


/-! ### … applied to what `removeOverlap` hands the solver -/

/-- the solver instance of one layer: the variables `[left wall,] items…, [right wall]` (unit scales) and one constraint per pair of neighbours -/
def layerVars (o : Layout.ROpts) (its : List Layout.LItem) : List (Rat × Rat × Rat) :=
  (Layout.chainVars o its).map (fun v => (v.t, v.w, 1))

def layerCons (o : Layout.ROpts) (its : List Layout.LItem) : List (Nat × Nat × Rat) :=
  (Layout.chainGaps o its).zipIdx.map (fun p => (p.2, p.2 + 1, p.1))

/-- **the transliterated general solver on a layer of `removeOverlap`, unconditionally**: whatever the layer (any items, any bounds and spacings)
and in whatever ORDER the neighbour constraints are listed (the code lists the label pairs first and the two wall constraints last), `solve`
terminates (outer fuel 2, inner fuel > number of variables) and returns the least-squares optimum among all placements that keep every gap -/
theorem removeOverlap_layer_solved (o : Layout.ROpts) (its : List Layout.LItem) (hne : its ≠ [])
    (cons : List (Nat × Nat × Rat)) (hperm : cons.Perm (layerCons o its)) (fuel sfuel : Nat) (hfuel : 2 ≤ fuel)
    (hf : (layerVars o its).length < sfuel) :
    (Vpsc.solve fuel sfuel (Vpsc.init (layerVars o its) cons)).1.err = false ∧
    ∀ z : List Rat, z.length = (layerVars o its).length → Feasible (qpInst (layerVars o its) cons) z →
      cost (qpInst (layerVars o its) cons) (Vpsc.positions (Vpsc.solve fuel sfuel (Vpsc.init (layerVars o its) cons)).1)
        ≤ cost (qpInst (layerVars o its) cons) z := by
  have hlen := Layout.chain_lengths o hne
  have hvl : (layerVars o its).length = (Layout.chainVars o its).length := by simp [layerVars]
  have hmem : ∀ c ∈ cons, ∃ i, i < (Layout.chainGaps o its).length ∧ c.1 = i ∧ c.2.1 = i + 1 := by
    intro c hc
    have hc' := hperm.subset hc
    simp only [layerCons, List.mem_map] at hc'
    obtain ⟨p, hp, rfl⟩ := hc'
    have := List.mem_zipIdx_iff_getElem?.mp hp
    have hlt : p.2 < (Layout.chainGaps o its).length := (List.getElem?_eq_some_iff.mp this).1
    exact ⟨p.2, hlt, rfl, rfl⟩
  have hidx : ∀ c ∈ cons, c.1 < (layerVars o its).length ∧ c.2.1 < (layerVars o its).length := by
    intro c hc
    obtain ⟨i, hi, h1, h2⟩ := hmem c hc
    rw [hvl, h1, h2]; omega
  have hw : ∀ v ∈ layerVars o its, 0 < v.2.1 := by
    intro v hv
    simp only [layerVars, List.mem_map] at hv
    obtain ⟨x, hx, rfl⟩ := hv
    exact Layout.chainVars_pos o its x hx
  have hsc : ∀ v ∈ layerVars o its, v.2.2 = 1 := by
    intro v hv
    simp only [layerVars, List.mem_map] at hv
    obtain ⟨x, _, rfl⟩ := hv
    rfl
  have hpath : ∀ c ∈ cons, c.2.1 = c.1 + 1 := by
    intro c hc
    obtain ⟨i, _, h1, h2⟩ := hmem c hc
    rw [h1, h2]
  have hnd : (cons.map (·.1)).Nodup := by
    have h1 : ((layerCons o its).map (·.1)).Nodup := by
      have e : (layerCons o its).map (·.1) = List.range (Layout.chainGaps o its).length := by
        simp only [layerCons, List.map_map]
        apply List.ext_getElem
        · simp
        · intro i h1 h2
          simp
      rw [e]; exact List.nodup_range
    exact ((hperm.map (·.1)).nodup_iff).mpr h1
  exact ⟨path_solve_terminates _ _ hidx hw hsc hpath hnd fuel sfuel hfuel hf,
    fun z hz hfe => path_solve_optimal _ _ hidx hw hsc hpath hnd fuel sfuel hfuel hf z hz hfe⟩

end Labella.C05
