import Labella.Model.QP
import Labella.Proofs.LayoutSep
import Labella.Proofs.QPLemmas
import Mathlib.Algebra.Order.Field.Rat
import Mathlib.Algebra.BigOperators.Group.List.Basic
import Mathlib.Tactic.Ring
import Mathlib.Tactic.Linarith
import Mathlib.Tactic.FieldSimp
/-! # C05 — the separation-constraint solver returns a feasible, certified-optimal solution

What is proved for ALL instances (any constraint graph: DAGs, duplicates, redundant constraints, cycles; any
positive weights and any scales): soundness of the executable certificate checker `QP.check`, via weak duality.
What is proved for all CHAIN instances (every instance labella itself builds): the solver model is feasible and
optimal (restated from C02).  For general DAG instances the implementation's result is validated per instance by
the proved checker (see DESIGN.md, C05); the full statement "optimal for every DAG" is FALSE for the code as it is
(known finding F1): `dag_counterexample`. -/
namespace Labella.C05
open Labella Labella.QP

/-- exact feasibility of a candidate `z` -/
def Feasible (I : Inst) (z : List ℚ) : Prop := ∀ c ∈ I.cons, 0 ≤ slack I z c

/-- **Weak duality.**  For multipliers `lam ≥ 0` (one per constraint) the dual value is a lower bound on the cost
of EVERY feasible assignment — whatever the constraint graph. -/
theorem weak_duality (I : Inst) (lam : List ℚ) (hwf : wellFormedB I = true)
    (hlen : lam.length = I.cons.length) (hpos : ∀ l ∈ lam, 0 ≤ l)
    (z : List ℚ) (hz : z.length = I.vars.length) (hfeas : Feasible I z) :
    dualValue I lam ≤ cost I z := by
  have _ := hlen  -- not needed: `zip` truncates, a missing multiplier counts as 0
  have hL := lagrangian_eq I lam hwf z hz
  have hM := mult_slack_nonneg I lam z hpos hfeas
  have hS : 0 ≤ ∑ i ∈ Finset.range I.vars.length,
      vw I i * (pos z i - pos (dualPoint I lam) i) * (pos z i - pos (dualPoint I lam) i) := by
    apply Finset.sum_nonneg
    intro i hi
    rw [mul_assoc]
    exact mul_nonneg (vw_pos hwf (Finset.mem_range.mp hi)).le (mul_self_nonneg _)
  linarith

/-- **Soundness of the certificate checker.**  If `check I x lam tolFeas tolGap` accepts — for ANY list `lam`,
wherever it came from — then `x` violates no constraint by more than `tolFeas`, and no feasible assignment
whatsoever costs less than `cost x − tolGap`. -/
theorem check_sound (I : Inst) (x lam : List ℚ) (tolFeas tolGap : ℚ)
    (h : check I x lam tolFeas tolGap = true) :
    (∀ c ∈ I.cons, -tolFeas ≤ slack I x c) ∧
    ∀ z : List ℚ, z.length = I.vars.length → Feasible I z → cost I x ≤ cost I z + tolGap := by
  unfold check at h
  simp only [Bool.and_eq_true, beq_iff_eq, decide_eq_true_eq] at h
  obtain ⟨⟨⟨⟨hwf, _hx⟩, hlam⟩, hfe⟩, hgap⟩ := h
  refine ⟨?_, ?_⟩
  · intro c hc
    unfold feasibleB at hfe
    rw [List.all_eq_true] at hfe
    simpa using hfe c hc
  · intro z hz hfeas
    have hwd := weak_duality I (clip lam) hwf (by rw [clip_length, hlam]) (clip_nonneg lam) z hz hfeas
    unfold gap at hgap
    linarith

/-- known finding F1 (witness replayed on the real code by the C05 check): on this 5-variable DAG with redundant
tight constraints `solve()` returns `xRet` (cost 5·10⁹ + 125), although `xBetter` is feasible and costs 156 -/
theorem dag_counterexample :
    let I : Inst := { vars := [⟨9, 10000000000, 1⟩, ⟨10, 1, 1⟩, ⟨9, 10, 1⟩, ⟨7, 10000000000, 1⟩, ⟨0, 1, 1⟩],
                      cons := [⟨2, 3, 0⟩, ⟨1, 4, 3⟩, ⟨0, 4, 1⟩, ⟨2, 4, 2⟩, ⟨1, 2, 1⟩] }
    let xRet : List ℚ := [170000000111/20000000012, 130000000087/20000000012, 150000000099/20000000012,
                          150000000099/20000000012, 190000000123/20000000012]
    let xBetter : List ℚ := [9, 6, 7, 7, 10]
    feasibleB I 0 xRet = true ∧ feasibleB I 0 xBetter = true ∧ cost I xBetter = 156 ∧ cost I xBetter < cost I xRet := by
  decide +kernel

/-- … and the certificate checker accepts the optimum that two further `satisfy()` passes reach, with the
multipliers the code itself computes: that placement is therefore PROVED optimal for this instance -/
theorem dag_counterexample_certified :
    let I : Inst := { vars := [⟨9, 10000000000, 1⟩, ⟨10, 1, 1⟩, ⟨9, 10, 1⟩, ⟨7, 10000000000, 1⟩, ⟨0, 1, 1⟩],
                      cons := [⟨2, 3, 0⟩, ⟨1, 4, 3⟩, ⟨0, 4, 1⟩, ⟨2, 4, 2⟩, ⟨1, 2, 1⟩] }
    check I [89999999999/10000000001, 20000000030/3333333337, 23333333367/3333333337, 23333333367/3333333337, 100000000000/10000000001]
            [160000000000/3333333337, 0, 200000000000/10000000001, 0, 26666666680/3333333337] 0 0 = true := by
  decide +kernel

/-- every chain instance (what `removeOverlap` builds): the solver model's result keeps every gap up to eps and
no placement that keeps the gaps exactly is cheaper (C02) -/
theorem chain_instances (eps : ℚ) (heps : 0 ≤ eps) (vars : List Chain.Item) (gaps : List ℚ)
    (hlen : gaps.length + 1 = vars.length) (hw : ∀ v ∈ vars, 0 < v.w) :
    Chain.SepBy eps gaps (Chain.solve eps vars gaps) ∧
    ∀ zs : List ℚ, zs.length = vars.length → Chain.SepBy 0 gaps zs →
      Chain.cost vars (Chain.solve eps vars gaps) ≤ Chain.cost vars zs := by
  refine ⟨Chain.solve_feasible' eps heps vars gaps hw, ?_⟩
  intro zs hz hfeas
  have h1 := Chain.solve_optimal' eps heps vars gaps hlen hw zs hz hfeas
  have h2 := wdist_nonneg vars (Chain.solve eps vars gaps) zs hw
  linarith

end Labella.C05
