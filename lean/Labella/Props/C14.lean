import Labella.Model.Scale
import Labella.Props.C16
import Labella.Proofs.TickLemmas
import Labella.Proofs.NiceTenth
import Mathlib.Algebra.Order.Field.Rat
import Mathlib.Tactic.Ring
import Mathlib.Tactic.Linarith
import Mathlib.Tactic.FieldSimp
import Mathlib.Tactic.NormNum
/-! # C14 (linear part) — nice() only widens a domain, by less than two tick steps, to round end points

Stated over ℚ; thresholds and multipliers come from `Gen/Constants.lean` (regenerated from the source). -/
namespace Labella.C14
open Labella Labella.Scale

/-! ### nice (linear) -/

/-- the step never shrinks when the span grows -/
theorem tickStep_mono (s1 s2 m : ℚ) (h1 : 0 < s1) (h12 : s1 ≤ s2) (hm : 0 < m) :
    tickStep s1 m ≤ tickStep s2 m := by
  exact Scale.tickStep_mono s1 s2 m h1 h12 hm

/-- making a domain nice never moves an end inward and keeps the orientation -/
theorem nice_widens (d0 d1 m : ℚ) (hm : 0 < m) :
    (d0 < d1 → (nice d0 d1 m).1 ≤ d0 ∧ d1 ≤ (nice d0 d1 m).2) ∧
    (d1 < d0 → d0 ≤ (nice d0 d1 m).1 ∧ (nice d0 d1 m).2 ≤ d1) := by
  constructor
  · intro h
    obtain ⟨a1, a2, -⟩ := nicePass_lt_props d0 d1 m h hm
    have hp : (nicePass d0 d1 m).1 < (nicePass d0 d1 m).2 := by linarith
    obtain ⟨b1, b2, -⟩ := nicePass_lt_props _ _ m hp hm
    rw [nice_eq]
    exact ⟨le_trans b1 a1, le_trans a2 b2⟩
  · intro h
    obtain ⟨a1, a2⟩ := nicePass_gt_props d0 d1 m h hm
    have hp : (nicePass d0 d1 m).2 < (nicePass d0 d1 m).1 := by linarith
    obtain ⟨b1, b2⟩ := nicePass_gt_props _ _ m hp hm
    rw [nice_eq]
    exact ⟨le_trans a1 b1, le_trans b2 a2⟩

/-- each end moves by less than two tick steps of the resulting domain -/
theorem nice_less_than_two_steps (d0 d1 m : ℚ) (hd : d0 < d1) (hm : 0 < m) :
    let n := nice d0 d1 m
    let step := (tickRange n.1 n.2 m).2.2
    d0 - n.1 < 2 * step ∧ n.2 - d1 < 2 * step := by
  intro n step
  obtain ⟨a1, a2, a3, a4, -⟩ := nicePass_lt_props d0 d1 m hd hm
  have hp : (nicePass d0 d1 m).1 < (nicePass d0 d1 m).2 := by linarith
  obtain ⟨b1, b2, b3, b4, -⟩ := nicePass_lt_props _ _ m hp hm
  rw [← nice_eq] at b1 b2 b3 b4
  have hn : n.1 < n.2 := by show (nice d0 d1 m).1 < (nice d0 d1 m).2; linarith
  have hstep : step = tickStep (n.2 - n.1) m := tickRange_step_of_lt _ _ m hn
  have m1 : tickStep (d1 - d0) m ≤ tickStep ((nicePass d0 d1 m).2 - (nicePass d0 d1 m).1) m :=
    Scale.tickStep_mono _ _ m (sub_pos.mpr hd) (by linarith) hm
  have m2 : tickStep ((nicePass d0 d1 m).2 - (nicePass d0 d1 m).1) m ≤ tickStep (n.2 - n.1) m :=
    Scale.tickStep_mono _ _ m (sub_pos.mpr hp)
      (by show _ ≤ (nice d0 d1 m).2 - (nice d0 d1 m).1; linarith) hm
  rw [hstep]
  constructor
  · show d0 - (nice d0 d1 m).1 < _; linarith
  · show (nice d0 d1 m).2 - d1 < _; linarith

/-- after the second pass both ends are integer multiples of that pass's step -/
theorem nice_ends_are_multiples (d0 d1 m : ℚ) (hd : d0 < d1) (hm : 0 < m) :
    let p := nicePass d0 d1 m
    let step2 := (tickRange p.1 p.2 m).2.2
    ∃ k0 k1 : Int, (nice d0 d1 m).1 = (k0 : ℚ) * step2 ∧ (nice d0 d1 m).2 = (k1 : ℚ) * step2 := by
  intro p step2
  obtain ⟨a1, a2, -⟩ := nicePass_lt_props d0 d1 m hd hm
  have hp : p.1 < p.2 := by show (nicePass d0 d1 m).1 < (nicePass d0 d1 m).2; linarith
  obtain ⟨-, -, -, -, k0, k1, e0, e1⟩ := nicePass_lt_props p.1 p.2 m hp hm
  have hstep : step2 = tickStep (p.2 - p.1) m := tickRange_step_of_lt _ _ m hp
  rw [hstep, nice_eq]
  exact ⟨k0, k1, e0, e1⟩

/-- both ends of the nice domain are integer multiples of one tenth of the tick step of the nice domain itself -/
theorem nice_ends_multiples_of_tenth_of_final_step (d0 d1 m : ℚ) (hd : d0 < d1) (hm : 1 ≤ m) :
    let n := nice d0 d1 m
    let step := (tickRange n.1 n.2 m).2.2
    ∃ k0 k1 : Int, n.1 = (k0 : ℚ) * (step / 10) ∧ n.2 = (k1 : ℚ) * (step / 10) := by
  intro n step
  obtain ⟨hn, k0, k1, e0, e1⟩ := nice_tenth_of_lt d0 d1 m hd hm
  have hstep : step = tickStep (n.2 - n.1) m := tickRange_step_of_lt _ _ m hn
  rw [hstep]
  exact ⟨k0, k1, e0, e1⟩

/-- the same for a descending domain (`nice` keeps the orientation and treats it symmetrically) -/
theorem nice_ends_multiples_of_tenth_of_final_step_desc (d0 d1 m : ℚ) (hd : d1 < d0) (hm : 1 ≤ m) :
    let n := nice d0 d1 m
    let step := (tickRange n.1 n.2 m).2.2
    ∃ k0 k1 : Int, n.1 = (k0 : ℚ) * (step / 10) ∧ n.2 = (k1 : ℚ) * (step / 10) := by
  intro n step
  obtain ⟨hn, k0, k1, e0, e1⟩ := nice_tenth_of_gt d0 d1 m hd hm
  have hstep : step = tickStep (n.1 - n.2) m := tickRange_step_of_gt _ _ m hn
  rw [hstep]
  exact ⟨k0, k1, e0, e1⟩

/-- a descending domain gives the mirrored result -/
theorem nice_desc_eq_swap (d0 d1 m : ℚ) (hd : d1 < d0) (hm : 0 < m) :
    nice d0 d1 m = ((nice d1 d0 m).2, (nice d1 d0 m).1) :=
  nice_swap d0 d1 m hd hm

-- non-vacuity: `nice (3/10) (97/10) 10 = (0, 10)`, the final step is 1, the ends are 0 and 100 tenths of it
example : nice (3/10) (97/10) 10 = (0, 10) ∧ (tickRange 0 10 10).2.2 = 1 ∧
    (0 : ℚ) = ((0 : Int) : ℚ) * (1 / 10) ∧ (10 : ℚ) = ((100 : Int) : ℚ) * (1 / 10) := by
  refine ⟨by decide +kernel, by decide +kernel, by norm_num, by norm_num⟩

-- a case where the tenth is needed: `nice (3/2) (5/2) 1 = (0, 4)`, the final step is 5, and `4 = 8 · (5/10)` is no multiple of 5
example : nice (3/2) (5/2) 1 = (0, 4) ∧ (tickRange 0 4 1).2.2 = 5 ∧ (4 : ℚ) = ((8 : Int) : ℚ) * (5 / 10) := by
  refine ⟨by decide +kernel, by decide +kernel, by norm_num⟩

-- `1 ≤ m` cannot be dropped: for `m = 3/4`, `nice (17/2) (21/2) (3/4) = (5, 15)` with final step 20, and 5 is no multiple of 2
example : nice (17/2) (21/2) (3/4) = (5, 15) ∧ (tickRange 5 15 (3/4)).2.2 = 20 := by
  refine ⟨by decide +kernel, by decide +kernel⟩

/-! ### nice (time) — proved in `Props/C16.lean` next to the tick theorems they share lemmas with -/

/-- making a time domain nice never moves an end inward and never reverses its orientation -/
theorem time_nice_widens (d0 d1 : Int) (m : Rat) :
    (d0 ≤ d1 → (Calendar.nice d0 d1 m).1 ≤ d0 ∧ d1 ≤ (Calendar.nice d0 d1 m).2) ∧
    (d1 < d0 → d0 ≤ (Calendar.nice d0 d1 m).1 ∧ (Calendar.nice d0 d1 m).2 ≤ d1) :=
  C16.nice_widens d0 d1 m

/-- with a calendar method both new ends are boundaries of the method's unit: aligned at least as coarsely as the ticks -/
theorem time_nice_on_boundaries (d0 d1 : Int) (m : Rat) (u : Calendar.TUnit) (s : Rat)
    (h : Calendar.tickMethod (min d0 d1) (max d0 d1) m = .cal u s) :
    Calendar.isBoundary u (Calendar.nice d0 d1 m).1 = true ∧ Calendar.isBoundary u (Calendar.nice d0 d1 m).2 = true :=
  C16.nice_on_boundaries d0 d1 m u s h

-- non-vacuity: `nice (3/10) (97/10) 10 = (0, 10)` (evaluated); time: `nice 1000 90000000 10 = (0, 97200000)`
example : Calendar.nice 1000 90000000 10 = (0, 97200000) := by decide +kernel

/-- **C14 (time part) in full** for the model: for every domain and EVERY positive count (whole or fractional) the nice domain satisfies the
complete predicate: ends only move outward, by less than two tick steps (largest gap of the original domain's ticks),
onto boundaries at least as coarse as the tick spacing -/
theorem time_nice_ok (d0 d1 : Int) (m : Rat) (hm : 0 < m) :
    Calendar.niceOKB d0 d1 m (Calendar.nice d0 d1 m).1 (Calendar.nice d0 d1 m).2 = true :=
  C16.nice_ok d0 d1 m hm

end Labella.C14
