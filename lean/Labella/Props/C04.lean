import Labella.Model.LayoutSpec
import Labella.Proofs.LayoutSep
import Labella.Proofs.DistributeLemmas
/-! # C04 — layering conserves labels and builds complete stub chains within capacity
# C06 — a layout is a pure function of the labels and options

For every label list (ties, identical positions, labels wider than a layer, 1–2 labels) and every option set. -/
namespace Labella.C04
open Labella Labella.Layout

/-- every input label is placed in exactly one layer (as a label) -/
theorem distribute_conserves (o : DOpts) (labels : List Label) :
    (labelIds (distribute o labels)).Perm (List.range labels.length) := by
  rcases distribute_cases o labels with ⟨hnil, e⟩ | ⟨_, ids, hp, e⟩ | ⟨_, _, nl, hnl, e⟩ | ⟨_, _, _, e⟩
  · subst hnil; rw [e]; exact List.Perm.refl _
  · rw [e, labelIds_eq]
    simpa [labs_map_label] using hp
  · rw [e]
    exact (labelIds_simpleLayers _ nl (by omega)).trans (sortIds_perm labels)
  · rw [e, labelIds_withStubs]
    exact (overlapLayers_perm labels o _ _ _).trans (sortIds_perm labels)

/-- the stubs of layer `j` are exactly one stub — tagged with level `j` — for each label of a farther layer,
and nothing else: a label in layer `k` owns exactly one stub in each nearer layer, no other items exist -/
theorem stubs_exact (o : DOpts) (labels : List Label) (j : Nat) (layer : List Ref)
    (h : (distribute o labels)[j]? = some layer) :
    (stubsOf layer).Perm ((labelIds ((distribute o labels).drop (j + 1))).map (fun i => (i, j))) := by
  rcases distribute_cases o labels with ⟨_, e⟩ | ⟨_, ids, _, e⟩ | ⟨_, _, nl, hnl, e⟩ | ⟨_, _, _, e⟩
  · rw [e] at h; simp at h
  · rw [e] at h ⊢
    cases j with
    | zero =>
      simp only [List.getElem?_cons_zero, Option.some.injEq] at h
      subst h
      rw [stubsOf_map_label]
      simp [labelIds]
    | succ j => simp at h
  · rw [e] at h ⊢
    exact stubs_simpleLayers _ nl j layer (by omega) h
  · rw [e] at h ⊢
    exact stubs_withStubs _ j layer h

/-- layers that hold labels are contiguous from the axis outward: no label layer follows an empty layer
(the `simple` algorithm may leave empty layers at the far end when there are fewer labels than layers) -/
theorem layers_contiguous (o : DOpts) (labels : List Label) :
    ((distribute o labels).dropWhile (fun l => !l.isEmpty)).all (fun l => l.isEmpty) = true := by
  apply contiguous_of_DownClosed
  rcases distribute_cases o labels with ⟨_, e⟩ | ⟨_, ids, _, e⟩ | ⟨_, _, nl, _, e⟩ | ⟨_, _, _, e⟩
  · rw [e]; exact downClosed_nil
  · rw [e]; exact downClosed_single _
  · rw [e]; exact downClosed_simpleLayers _ _
  · rw [e]; exact downClosed_withStubs _

/-- with no upper bound (layer width absent or 0) everything stays in one layer -/
theorem no_width_single_layer (o : DOpts) (labels : List Label) (hne : labels ≠ [])
    (h : o.layerWidth = none ∨ o.layerWidth = some 0) : (distribute o labels).length = 1 := by
  by_cases hnone : o.algorithm = .none
  · rw [distribute_none o labels hne hnone]; rfl
  · rw [distribute_single o labels hne hnone (by rw [estimateLayers_noWidth o _ h])]; rfl

/-- labels that fit the density budget stay in a single layer -/
theorem fits_single_layer (o : DOpts) (labels : List Label) (hne : labels ≠ [])
    (hpos : 0 < maxWidthPerLayer o)
    (hfit : requiredWidth o.nodeSpacing (labels.map (·.width)) ≤ maxWidthPerLayer o) :
    (distribute o labels).length = 1 := by
  by_cases hnone : o.algorithm = .none
  · rw [distribute_none o labels hne hnone]; rfl
  · rw [distribute_single o labels hne hnone]; · rfl
    rw [estimateLayers_le_one_iff o _ hpos, requiredWidth_ids _ _ (sortIds_perm labels)]
    exact hfit

/-- with the default (`overlap`) algorithm every layer's labels, stubs and spacing stay within the budget unless
the layer holds at most two labels (so in particular the outer loop's fuel always suffices) -/
theorem overlap_capacity (o : DOpts) (labels : List Label) (halg : o.algorithm = .overlap)
    (hpos : 0 < maxWidthPerLayer o) :
    ∀ layer ∈ distribute o labels,
      requiredWidth o.nodeSpacing (layer.map (refWidth labels o.stubWidth)) ≤ maxWidthPerLayer o ∨
      (layer.filter (fun r => !r.isStub)).length ≤ 2 := by
  by_cases hne : labels = []
  · subst hne; rw [distribute_nil]; intro layer hl; simp at hl
  have hnone : o.algorithm ≠ .none := by rw [halg]; decide
  by_cases hnl : estimateLayers o ((sortIds labels).map (widthOf labels)) ≤ 1
  · rw [distribute_single o labels hne hnone hnl]
    intro layer hl
    simp only [List.mem_singleton] at hl
    subst hl
    left
    rw [List.map_map]
    exact (estimateLayers_le_one_iff o _ hpos).1 hnl
  · rw [distribute_overlap o labels hne halg hnl]
    apply capacity_withStubs
    apply capOK_overlapLayers
    right; omega

/-- … and three or more labels that do not fit are split into at least two layers -/
theorem overlap_splits (o : DOpts) (labels : List Label) (halg : o.algorithm = .overlap)
    (hpos : 0 < maxWidthPerLayer o) (h3 : 3 ≤ labels.length) (hw : o.layerWidth ≠ none ∧ o.layerWidth ≠ some 0)
    (hbig : maxWidthPerLayer o < requiredWidth o.nodeSpacing (labels.map (·.width))) :
    2 ≤ (distribute o labels).length := by
  have _ := hw
  have hne : labels ≠ [] := by
    intro e; rw [e] at h3; simp at h3
  have hbig' : maxWidthPerLayer o <
      requiredWidth o.nodeSpacing ((sortIds labels).map (widthOf labels)) := by
    rw [requiredWidth_ids _ _ (sortIds_perm labels)]; exact hbig
  have hnl : ¬ estimateLayers o ((sortIds labels).map (widthOf labels)) ≤ 1 := by
    rw [estimateLayers_le_one_iff o _ hpos]; exact not_le_of_gt hbig'
  rw [distribute_overlap o labels hne halg hnl, withStubs_length]
  apply overlapLayers_two _ _ _ _ _ _ hbig'
  rw [(sortIds_perm labels).length_eq, List.length_range]; exact h3


end Labella.C04
