import Labella.Model.LayoutSpec
namespace Labella.C04
open Labella Labella.Layout

theorem placeholder_empty (o : DOpts) : distribute o [] = [] := by
  simp [distribute]

end Labella.C04
