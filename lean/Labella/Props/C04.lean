import Labella.Model.LayoutSpec
import Labella.Proofs.LayoutSep
import Labella.Proofs.DistributeLemmas
import Labella.Proofs.EngineTLinks
import Labella.Props.C06
/-! # C04 — layering conserves labels and builds complete stub chains within capacity
# C06 — a layout is a pure function of the labels and options

For every label list (ties, identical positions, labels wider than a layer, 1–2 labels) and every option set. -/
namespace Labella.C04
open Labella Labella.Layout

/-- every input label is placed in exactly one layer (as a label) -/
theorem distribute_conserves (o : DOpts) (labels : List Label) :
    (labelIds (distribute o labels)).Perm (List.range labels.length) := by
  rcases distribute_cases o labels with ⟨hnil, e⟩ | ⟨_, ids, hp, e⟩ | ⟨_, _, nl, hnl, e⟩ | ⟨_, _, _, e⟩
  · subst hnil; rw [e]; exact List.Perm.refl _
  · rw [e, labelIds_eq]
    simpa [labs_map_label] using hp
  · rw [e]
    exact (labelIds_simpleLayers _ nl (by omega)).trans (sortIds_perm labels)
  · rw [e, labelIds_withStubs]
    exact (overlapLayers_perm labels o _ _ _).trans (sortIds_perm labels)

/-- the stubs of layer `j` are exactly one stub — tagged with level `j` — for each label of a farther layer,
and nothing else: a label in layer `k` owns exactly one stub in each nearer layer, no other items exist -/
theorem stubs_exact (o : DOpts) (labels : List Label) (j : Nat) (layer : List Ref)
    (h : (distribute o labels)[j]? = some layer) :
    (stubsOf layer).Perm ((labelIds ((distribute o labels).drop (j + 1))).map (fun i => (i, j))) := by
  rcases distribute_cases o labels with ⟨_, e⟩ | ⟨_, ids, _, e⟩ | ⟨_, _, nl, hnl, e⟩ | ⟨_, _, _, e⟩
  · rw [e] at h; simp at h
  · rw [e] at h ⊢
    cases j with
    | zero =>
      simp only [List.getElem?_cons_zero, Option.some.injEq] at h
      subst h
      rw [stubsOf_map_label]
      simp [labelIds]
    | succ j => simp at h
  · rw [e] at h ⊢
    exact stubs_simpleLayers _ nl j layer (by omega) h
  · rw [e] at h ⊢
    exact stubs_withStubs _ j layer h

/-- layers that hold labels are contiguous from the axis outward: no label layer follows an empty layer
(the `simple` algorithm may leave empty layers at the far end when there are fewer labels than layers) -/
theorem layers_contiguous (o : DOpts) (labels : List Label) :
    ((distribute o labels).dropWhile (fun l => !l.isEmpty)).all (fun l => l.isEmpty) = true := by
  apply contiguous_of_DownClosed
  rcases distribute_cases o labels with ⟨_, e⟩ | ⟨_, ids, _, e⟩ | ⟨_, _, nl, _, e⟩ | ⟨_, _, _, e⟩
  · rw [e]; exact downClosed_nil
  · rw [e]; exact downClosed_single _
  · rw [e]; exact downClosed_simpleLayers _ _
  · rw [e]; exact downClosed_withStubs _

/-- with no upper bound (layer width absent or 0) everything stays in one layer -/
theorem no_width_single_layer (o : DOpts) (labels : List Label) (hne : labels ≠ [])
    (h : o.layerWidth = none ∨ o.layerWidth = some 0) : (distribute o labels).length = 1 := by
  by_cases hnone : o.algorithm = .none
  · rw [distribute_none o labels hne hnone]; rfl
  · rw [distribute_single o labels hne hnone (by rw [estimateLayers_noWidth o _ h])]; rfl

/-- labels that fit the density budget stay in a single layer -/
theorem fits_single_layer (o : DOpts) (labels : List Label) (hne : labels ≠ [])
    (hpos : 0 < maxWidthPerLayer o)
    (hfit : requiredWidth o.nodeSpacing (labels.map (·.width)) ≤ maxWidthPerLayer o) :
    (distribute o labels).length = 1 := by
  by_cases hnone : o.algorithm = .none
  · rw [distribute_none o labels hne hnone]; rfl
  · rw [distribute_single o labels hne hnone]; · rfl
    rw [estimateLayers_le_one_iff o _ hpos, requiredWidth_ids _ _ (sortIds_perm labels)]
    exact hfit

/-- with the default (`overlap`) algorithm every layer's labels, stubs and spacing stay within the budget unless
the layer holds at most two labels (so in particular the outer loop's fuel always suffices) -/
theorem overlap_capacity (o : DOpts) (labels : List Label) (halg : o.algorithm = .overlap)
    (hpos : 0 < maxWidthPerLayer o) :
    ∀ layer ∈ distribute o labels,
      requiredWidth o.nodeSpacing (layer.map (refWidth labels o.stubWidth)) ≤ maxWidthPerLayer o ∨
      (layer.filter (fun r => !r.isStub)).length ≤ 2 := by
  by_cases hne : labels = []
  · subst hne; rw [distribute_nil]; intro layer hl; simp at hl
  have hnone : o.algorithm ≠ .none := by rw [halg]; decide
  by_cases hnl : estimateLayers o ((sortIds labels).map (widthOf labels)) ≤ 1
  · rw [distribute_single o labels hne hnone hnl]
    intro layer hl
    simp only [List.mem_singleton] at hl
    subst hl
    left
    rw [List.map_map]
    exact (estimateLayers_le_one_iff o _ hpos).1 hnl
  · rw [distribute_overlap o labels hne halg hnl]
    apply capacity_withStubs
    apply capOK_overlapLayers
    right; omega

/-- … and three or more labels that do not fit are split into at least two layers -/
theorem overlap_splits (o : DOpts) (labels : List Label) (halg : o.algorithm = .overlap)
    (hpos : 0 < maxWidthPerLayer o) (h3 : 3 ≤ labels.length) (hw : o.layerWidth ≠ none ∧ o.layerWidth ≠ some 0)
    (hbig : maxWidthPerLayer o < requiredWidth o.nodeSpacing (labels.map (·.width))) :
    2 ≤ (distribute o labels).length := by
  have _ := hw
  have hne : labels ≠ [] := by
    intro e; rw [e] at h3; simp at h3
  have hbig' : maxWidthPerLayer o <
      requiredWidth o.nodeSpacing ((sortIds labels).map (widthOf labels)) := by
    rw [requiredWidth_ids _ _ (sortIds_perm labels)]; exact hbig
  have hnl : ¬ estimateLayers o ((sortIds labels).map (widthOf labels)) ≤ 1 := by
    rw [estimateLayers_le_one_iff o _ hpos]; exact not_le_of_gt hbig'
  rw [distribute_overlap o labels hne halg hnl, withStubs_length]
  apply overlapLayers_two _ _ _ _ _ _ hbig'
  rw [(sortIds_perm labels).length_eq, List.length_range]; exact h3


/-! ### C04, the links: parent / child pointers of the stateful engine (`Model/EngineT.lean`) after a layout -/

/-- the chain of a node: itself, its parent, its parent's parent, … (at most `n` steps) -/
def chainOf (s : EngineT.Store) : Nat → Nat → List Nat   -- fuel, node id
  | 0, i => [i]
  | n + 1, i =>
    match (EngineT.get s i).parent with
    | some p => i :: chainOf s n p
    | none => [i]

/-- where the `child` links lead from a node (at most `n` steps): the node a stub ultimately stands for -/
def childEnd (s : EngineT.Store) : Nat → Nat → Nat   -- fuel, node id
  | 0, i => i
  | n + 1, i =>
    match (EngineT.get s i).child with
    | some c => childEnd s n c
    | none => i

/-- `chainOf` starts at the node … -/
theorem chainOf_head (s : EngineT.Store) (n i : Nat) : (chainOf s n i)[0]? = some i := by
  cases n with
  | zero => rfl
  | succ n =>
    rw [chainOf]
    cases (EngineT.get s i).parent <;> rfl

/-- … and every further entry is the `parent` of the entry before it -/
theorem chainOf_parent (s : EngineT.Store) : ∀ (n i t q : Nat), (chainOf s n i)[t + 1]? = some q →
    ∃ p, (chainOf s n i)[t]? = some p ∧ (EngineT.get s p).parent = some q := by
  intro n
  induction n with
  | zero => intro i t q h; simp [chainOf] at h
  | succ n ih =>
    intro i t q h
    rw [chainOf] at h ⊢
    cases hp : (EngineT.get s i).parent with
    | none => rw [hp] at h; simp at h
    | some p0 =>
      rw [hp] at h
      simp only [List.getElem?_cons_succ] at h ⊢
      cases t with
      | zero =>
        rw [chainOf_head] at h
        exact ⟨i, rfl, by rw [hp, ← Option.some.inj h]⟩
      | succ t =>
        obtain ⟨p, h1, h2⟩ := ih p0 t q h
        exact ⟨p, by simpa using h1, h2⟩

/-- the chain continues as long as there is a parent and fuel -/
theorem chainOf_next (s : EngineT.Store) : ∀ (n i t c x : Nat), (chainOf s n i)[t]? = some c →
    (EngineT.get s c).parent = some x → t < n → (chainOf s n i)[t + 1]? = some x := by
  intro n
  induction n with
  | zero => intro i t c x _ _ h; omega
  | succ n ih =>
    intro i t c x h hp ht
    rw [chainOf] at h ⊢
    cases hpi : (EngineT.get s i).parent with
    | none =>
      rw [hpi] at h
      cases t with
      | zero =>
        simp only [List.getElem?_cons_zero, Option.some.injEq] at h
        rw [h, hp] at hpi
        cases hpi
      | succ t => simp at h
    | some p0 =>
      rw [hpi] at h
      simp only [List.getElem?_cons_succ]
      cases t with
      | zero =>
        simp only [List.getElem?_cons_zero, Option.some.injEq] at h
        rw [h, hp] at hpi
        rw [← Option.some.inj hpi]
        exact chainOf_head s n x
      | succ t =>
        simp only [List.getElem?_cons_succ] at h
        exact ih p0 t c x h hp (by omega)

/-- **What (a), (b), (c) of C04 say about the POINTER fields** of the store `s` after a layout that reported `layers`, for an
engine with node list `nodes` and configured `stubWidth`. -/
structure LinksOK (s : EngineT.Store) (layers : List (List Nat)) (nodes : List Nat) (stubWidth : Rat) : Prop where
  /-- (a) no item is reported twice (within a layer or in two layers) -/
  nodup : layers.flatten.Nodup
  /-- (a) every engine node occurs in exactly one layer -/
  node_layer : ∀ i ∈ nodes, ∃! k, i ∈ layers.getD k []
  /-- (a) no other items: every item of every layer is an engine node (and no stub), or it is a stub, not an engine node, whose
  `child` chain ends in an engine node -/
  item : ∀ j, ∀ x ∈ layers.getD j [],
    (x ∈ nodes ∧ EngineT.isStub s x = false) ∨
    (x ∉ nodes ∧ EngineT.isStub s x = true ∧ childEnd s layers.length x ∈ nodes)
  /-- (b) an engine node `i` found in layer `k` reports `layerIndex = k` and has no `child`; following `parent` from it gives
  exactly `k` further nodes (`chainOf` with fuel `k` has `k + 1` entries and more fuel does not make it longer); the entry `p`
  at position `t` is an item of layer `k - t`, reports that layer, carries the data position and payload of `i`; the last one
  (`t = k`, in the axis layer) has no `parent`; every one but `i` itself (`0 < t`) is a stub of the configured width whose `child`
  is the entry before it -/
  chain : ∀ i ∈ nodes, ∀ k, i ∈ layers.getD k [] →
    (EngineT.get s i).layerIndex = k ∧ (EngineT.get s i).child = none ∧
    (chainOf s k i).length = k + 1 ∧ (∀ n, k ≤ n → chainOf s n i = chainOf s k i) ∧
    ∀ t p, (chainOf s k i)[t]? = some p →
      p ∈ layers.getD (k - t) [] ∧ (EngineT.get s p).layerIndex = k - t ∧
      (EngineT.get s p).ideal = (EngineT.get s i).ideal ∧ (EngineT.get s p).data = (EngineT.get s i).data ∧
      (t = k → (EngineT.get s p).parent = none) ∧
      (0 < t → (EngineT.get s p).child = (chainOf s k i)[t - 1]? ∧ EngineT.isStub s p = true ∧
        (EngineT.get s p).width = stubWidth)
  /-- (c) conversely a stub item `x` of layer `j` is the entry at some position `t > 0` of the chain of the engine node its
  `child` chain ends in (which lies in layer `j + t`), and of no other engine node's chain -/
  owner : ∀ j, ∀ x ∈ layers.getD j [], EngineT.isStub s x = true →
    (∃ t, 0 < t ∧ childEnd s layers.length x ∈ layers.getD (j + t) [] ∧
      (chainOf s (j + t) (childEnd s layers.length x))[t]? = some x) ∧
    (∀ i ∈ nodes, ∀ k t : Nat, i ∈ layers.getD k [] → (chainOf s k i)[t]? = some x → i = childEnd s layers.length x)

/-- (c) in the `∃!` form: a stub item is in the chain of exactly one engine node -/
theorem LinksOK.owner_unique {s : EngineT.Store} {layers : List (List Nat)} {nodes : List Nat} {sw : Rat}
    (h : LinksOK s layers nodes sw) (j x : Nat) (hx : x ∈ layers.getD j []) (hs : EngineT.isStub s x = true) :
    ∃! i, i ∈ nodes ∧ ∃ k t : Nat, i ∈ layers.getD k [] ∧ (chainOf s k i)[t]? = some x := by
  obtain ⟨⟨t, _, h1, h2⟩, h3⟩ := h.owner j x hx hs
  rcases h.item j x hx with ⟨_, hns⟩ | ⟨_, _, hin⟩
  · rw [hs] at hns; cases hns
  · exact ⟨_, ⟨hin, _, _, h1, h2⟩, fun i' ⟨hi', k, t', hk, hc⟩ => h3 i' hi' k t' hk hc⟩

/-- the statement depends on the node list only through membership (algorithm `none` sorts the engine's list in place) -/
theorem LinksOK.congr {s : EngineT.Store} {layers : List (List Nat)} {nodes nodes' : List Nat} {sw : Rat}
    (h : LinksOK s layers nodes sw) (hm : ∀ i, i ∈ nodes' ↔ i ∈ nodes) : LinksOK s layers nodes' sw where
  nodup := h.nodup
  node_layer i hi := h.node_layer i ((hm i).1 hi)
  item j x hx := by
    rcases h.item j x hx with ⟨a, b⟩ | ⟨a, b, c⟩
    · exact Or.inl ⟨(hm x).2 a, b⟩
    · exact Or.inr ⟨fun hc => a ((hm x).1 hc), b, (hm _).2 c⟩
  chain i hi := h.chain i ((hm i).1 hi)
  owner j x hx hs := ⟨(h.owner j x hx hs).1, fun i hi => (h.owner j x hx hs).2 i ((hm i).1 hi)⟩

section derive
open EngineT in
/-- the chain of ANY item of layer `k` (label or stub), from the local description -/
theorem chain_of_local {s : EngineT.Store} {layers : List (List Nat)} {nodes : List Nat} {sw : Rat}
    (L : EngineT.LocalLinks s layers nodes sw) : ∀ (k x : Nat), x ∈ layers.getD k [] →
    (chainOf s k x).length = k + 1 ∧ (∀ n, k ≤ n → chainOf s n x = chainOf s k x) ∧
    ∀ t p, (chainOf s k x)[t]? = some p →
      p ∈ layers.getD (k - t) [] ∧
      (get s p).ideal = (get s x).ideal ∧ (get s p).data = (get s x).data ∧
      (t = k → (get s p).parent = none) ∧
      (0 < t → (get s p).child = (chainOf s k x)[t - 1]? ∧ isStub s p = true ∧ (get s p).width = sw) := by
  intro k
  induction k with
  | zero =>
    intro x hx
    have hroot := L.root x hx
    refine ⟨rfl, ?_, ?_⟩
    · intro n _
      cases n with
      | zero => rfl
      | succ n => rw [chainOf, chainOf, hroot]
    · intro t p h
      cases t with
      | zero =>
        simp only [chainOf, List.getElem?_cons_zero, Option.some.injEq] at h
        subst h
        exact ⟨hx, rfl, rfl, fun _ => hroot, fun h0 => absurd h0 (Nat.lt_irrefl 0)⟩
      | succ t => simp [chainOf] at h
  | succ k ih =>
    intro x hx
    obtain ⟨p0, hp0, hpar, hch, hid, hda, hwi⟩ := L.up k x hx
    obtain ⟨i1, i2, i3⟩ := ih p0 hp0
    have hce : chainOf s (k + 1) x = x :: chainOf s k p0 := by rw [chainOf, hpar]
    refine ⟨by rw [hce, List.length_cons, i1], ?_, ?_⟩
    · intro n hn
      obtain ⟨n', rfl⟩ : ∃ n', n = n' + 1 := ⟨n - 1, by omega⟩
      rw [hce, chainOf, hpar]
      simp only
      rw [i2 n' (by omega)]
    · intro t p h
      rw [hce] at h ⊢
      cases t with
      | zero =>
        simp only [List.getElem?_cons_zero, Option.some.injEq] at h
        subst h
        exact ⟨hx, rfl, rfl, fun h0 => by omega, fun h0 => absurd h0 (Nat.lt_irrefl 0)⟩
      | succ t =>
        simp only [List.getElem?_cons_succ] at h
        obtain ⟨j1, j2, j3, j4, j5⟩ := i3 t p h
        refine ⟨by rw [Nat.succ_sub_succ]; exact j1, by rw [j2, hid], by rw [j3, hda], fun h0 => j4 (by omega), fun _ => ?_⟩
        cases t with
        | zero =>
          rw [chainOf_head] at h
          have : p = p0 := (Option.some.inj h).symm
          subst this
          refine ⟨by simpa using hch, ?_, hwi⟩
          unfold isStub
          rw [hch]; rfl
        | succ t =>
          obtain ⟨j6, j7, j8⟩ := j5 (Nat.succ_pos t)
          exact ⟨by simpa using j6, j7, j8⟩

open EngineT in
/-- following `child` from an item of layer `j` ends, after `t` steps, in an item of layer `j + t` without `child`, whose chain
has the item at position `t` -/
theorem childEnd_of_local {s : EngineT.Store} {layers : List (List Nat)} {nodes : List Nat} {sw : Rat}
    (L : EngineT.LocalLinks s layers nodes sw) : ∀ (n j x : Nat), x ∈ layers.getD j [] → layers.length ≤ j + n + 1 →
    ∃ t, childEnd s n x ∈ layers.getD (j + t) [] ∧ (get s (childEnd s n x)).child = none ∧
      (chainOf s (j + t) (childEnd s n x))[t]? = some x ∧ (t = 0 ↔ (get s x).child = none) := by
  intro n
  induction n with
  | zero =>
    intro j x hx hlen
    have hnone : (get s x).child = none := by
      cases hc : (get s x).child with
      | none => rfl
      | some c =>
        have := lt_length_of_mem_getD (L.down j x hx c hc).1
        omega
    exact ⟨0, hx, hnone, chainOf_head s _ _, by simp [hnone]⟩
  | succ n ih =>
    intro j x hx hlen
    cases hc : (get s x).child with
    | none =>
      have : childEnd s (n + 1) x = x := by rw [childEnd, hc]
      rw [this]
      exact ⟨0, hx, hc, chainOf_head s _ _, by simp⟩
    | some c =>
      have : childEnd s (n + 1) x = childEnd s n c := by rw [childEnd, hc]
      rw [this]
      obtain ⟨hc1, hc2⟩ := L.down j x hx c hc
      obtain ⟨t, h1, h2, h3, _⟩ := ih (j + 1) c hc1 (by omega)
      have e : j + 1 + t = j + (t + 1) := by omega
      rw [e] at h1 h3
      exact ⟨t + 1, h1, h2, chainOf_next s _ _ t c x h3 hc2 (by omega), by simp⟩

open EngineT in
/-- an item at position `t` of the chain of a childless item `i` leads back to `i` along `child` -/
theorem childEnd_chain {s : EngineT.Store} {layers : List (List Nat)} {nodes : List Nat} {sw : Rat}
    (L : EngineT.LocalLinks s layers nodes sw) (k i : Nat) (hi : i ∈ layers.getD k []) (hch : (get s i).child = none) :
    ∀ (t x : Nat), (chainOf s k i)[t]? = some x → ∀ n, t ≤ n → childEnd s n x = i := by
  obtain ⟨_, _, c3⟩ := chain_of_local L k i hi
  intro t
  induction t with
  | zero =>
    intro x h n _
    rw [chainOf_head] at h
    have : x = i := (Option.some.inj h).symm
    subst this
    cases n with
    | zero => rfl
    | succ n => rw [childEnd, hch]
  | succ t ih =>
    intro x h n hn
    obtain ⟨_, _, _, _, h5⟩ := c3 (t + 1) x h
    obtain ⟨h6, _, _⟩ := h5 (Nat.succ_pos t)
    simp only [Nat.add_sub_cancel] at h6
    obtain ⟨p, hp, _⟩ := chainOf_parent s k i t x h
    rw [hp] at h6
    obtain ⟨n', rfl⟩ : ∃ n', n = n' + 1 := ⟨n - 1, by omega⟩
    rw [childEnd, h6]
    exact ih p hp n' (by omega)

open EngineT in
theorem linksOK_of_local {s : EngineT.Store} {layers : List (List Nat)} {nodes : List Nat} {sw : Rat}
    (L : EngineT.LocalLinks s layers nodes sw) : LinksOK s layers nodes sw := by
  have hnd : (layers.flatten.map id).Nodup := by rw [List.map_id]; exact L.nodup
  have hkind : ∀ {j x}, x ∈ layers.getD j [] → (x ∈ nodes ↔ (get s x).child = none) :=
    fun hx => L.kind _ (mem_flatten_of_mem_getD hx)
  refine ⟨L.nodup, ?_, ?_, ?_, ?_⟩
  · intro i hi
    obtain ⟨k, hk⟩ := exists_getD_of_mem_flatten (L.cover i hi)
    exact ⟨k, hk, fun k' hk' => (layer_unique id layers hnd k' k i i hk' hk rfl).2⟩
  · intro j x hx
    cases hc : (get s x).child with
    | none =>
      left
      exact ⟨(hkind hx).2 hc, by unfold isStub; rw [hc]; rfl⟩
    | some c =>
      right
      refine ⟨fun hin => ?_, by unfold isStub; rw [hc]; rfl, ?_⟩
      · rw [(hkind hx).1 hin] at hc; cases hc
      · obtain ⟨t, h1, h2, _, _⟩ := childEnd_of_local L layers.length j x hx (by omega)
        exact (hkind h1).2 h2
  · intro i hi k hk
    have hch := (hkind hk).1 hi
    obtain ⟨c1, c2, c3⟩ := chain_of_local L k i hk
    refine ⟨L.layerIndex k i hk, hch, c1, c2, ?_⟩
    intro t p h
    obtain ⟨d1, d2, d3, d4, d5⟩ := c3 t p h
    exact ⟨d1, L.layerIndex _ p d1, d2, d3, d4, d5⟩
  · intro j x hx hs
    obtain ⟨t, h1, h2, h3, h4⟩ := childEnd_of_local L layers.length j x hx (by omega)
    refine ⟨⟨t, ?_, h1, h3⟩, ?_⟩
    · rcases Nat.eq_zero_or_pos t with h0 | h0
      · unfold isStub at hs
        rw [h4.1 h0] at hs
        cases hs
      · exact h0
    · intro i hi k t' hk hc
      have hlen : t' < (chainOf s k i).length := by
        by_contra hcon
        rw [List.getElem?_eq_none (by omega)] at hc
        cases hc
      rw [(chain_of_local L k i hk).1] at hlen
      have hkl := lt_length_of_mem_getD hk
      exact (childEnd_chain L k i hk ((hkind hk).1 hi) t' x hc layers.length (by omega)).symm

end derive

/-- **C04 links, end to end.**  Let `s'`, `layers` be the store and the layers the engine reports after `compute` from ANY good
state (any stale positions / layer numbers / parent links / stale stubs).  Then
 (a) every engine node occurs in exactly one layer, and every item of every layer is either an engine node or a stub whose
     `child` chain ends in an engine node (no other items);
 (b) an engine node `i` found in layer `k` has `layerIndex = k`, no `child`, and following `parent` from it gives exactly `k`
     further nodes `p₁ … p_k`, with `p_t` in layer `k - t` (so the chain runs to the axis layer 0), `parent p_k = none`, and for
     each `t`: `child p_t = some p_{t-1}` (`p₀ = i`), `isStub`, `ideal = ideal i`, `data = data i`, `width = stubWidth`,
     `layerIndex = k - t`;
 (c) conversely every stub item of layer `j` is `p_t` for exactly one engine node (the one its child chain ends in).
(The engine's nodes after the layout are those before it; algorithm `none` only reorders its list.) -/
theorem engine_links (e : EngineT.Engine) (s : EngineT.Store) (hg : C06.Good s e.nodes) :
    LinksOK (EngineT.computeT e s).2 ((EngineT.computeT e s).1.layers.getD []) (EngineT.computeT e s).1.nodes
      e.opts.stubWidth ∧
    (∀ i, i ∈ (EngineT.computeT e s).1.nodes ↔ i ∈ e.nodes) := by
  have hm : ∀ i, i ∈ (EngineT.computeT e s).1.nodes ↔ i ∈ e.nodes :=
    fun i => (EngineT.computeT_nodes e s).1.mem_iff
  exact ⟨(linksOK_of_local (EngineT.computeT_localLinks e s hg.lt hg.nodup hg.label)).congr hm, hm⟩

/-- and therefore after any history of operations (new engines, re-configuration, fresh nodes, the same node objects registered
again, computes): the `compute` that follows leaves exactly this pointer structure -/
theorem engine_links_after_any_history (ops : List EngineT.Op) :
    LinksOK (EngineT.World.run (ops ++ [.compute])).store
      ((EngineT.World.run (ops ++ [.compute])).engine.layers.getD [])
      (EngineT.World.run (ops ++ [.compute])).engine.nodes
      (EngineT.World.run (ops ++ [.compute])).engine.opts.stubWidth := by
  have h := (engine_links (EngineT.World.run ops).engine (EngineT.World.run ops).store (C06.world_good ops)).1
  have e : EngineT.World.run (ops ++ [.compute]) = (EngineT.World.run ops).step .compute := by
    unfold EngineT.World.run
    rw [List.foldl_append]
    rfl
  rw [e]
  exact h


-- non-vacuity: a history with two computes; the second (`overlap`, 3 layers) runs on node objects that carry the parent links,
-- layer numbers and positions of the first (`simple`, 2 layers), next to three stale stubs (ids 6–8) in the store
def linkOps : List EngineT.Op :=
  [.newEngine C06.staleO2, .freshNodes C06.staleLabels, .compute, .setOptions C06.staleO1]

example :
    -- before the second compute: (parent, layerIndex) of the engine's six nodes, left by the first layout …
    (EngineT.World.run linkOps).engine.nodes.map (fun i =>
        ((EngineT.get (EngineT.World.run linkOps).store i).parent,
          (EngineT.get (EngineT.World.run linkOps).store i).layerIndex)) =
      [(none, 0), (some 6, 1), (none, 0), (some 7, 1), (none, 0), (some 8, 1)] ∧
    -- … the second compute reports three layers: the six nodes 0–5 and six new stubs 9–14 (the stale 6–8 do not occur) …
    (EngineT.World.run (linkOps ++ [.compute])).engine.layers =
      some [[10, 12, 13, 3, 14, 5], [9, 11, 2, 4], [0, 1]] ∧
    -- … node 0 (layer 2) has a chain of length 2 to the axis layer, whatever the fuel …
    chainOf (EngineT.World.run (linkOps ++ [.compute])).store 2 0 = [0, 9, 10] ∧
    chainOf (EngineT.World.run (linkOps ++ [.compute])).store 7 0 = [0, 9, 10] ∧
    -- … (parent, child, layerIndex, ideal, data, width) along it: stubs of the configured width 1 carrying position and payload of 0 …
    [0, 9, 10].map (fun i =>
        ((EngineT.get (EngineT.World.run (linkOps ++ [.compute])).store i).parent,
          (EngineT.get (EngineT.World.run (linkOps ++ [.compute])).store i).child,
          (EngineT.get (EngineT.World.run (linkOps ++ [.compute])).store i).layerIndex,
          (EngineT.get (EngineT.World.run (linkOps ++ [.compute])).store i).ideal,
          (EngineT.get (EngineT.World.run (linkOps ++ [.compute])).store i).data,
          (EngineT.get (EngineT.World.run (linkOps ++ [.compute])).store i).width)) =
      [(some 9, none, 2, 5, 0, 8), (some 10, some 0, 1, 5, 0, 1), (none, some 9, 0, 5, 0, 1)] ∧
    -- … and the child chains of the stubs of layer 0 end in the nodes they stand for
    [10, 12, 13, 14].map (childEnd (EngineT.World.run (linkOps ++ [.compute])).store 3) = [0, 1, 2, 4] := by
  -- `List.mergeSort` does not reduce in the kernel: evaluate the equal `World.run'` (stable insertion sort)
  rw [← EngineT.World.run'_eq]
  decide +kernel

-- the theorem applies to that history (no evaluation needed: every reachable world is good)
example :
    LinksOK (EngineT.World.run (linkOps ++ [.compute])).store
      ((EngineT.World.run (linkOps ++ [.compute])).engine.layers.getD [])
      (EngineT.World.run (linkOps ++ [.compute])).engine.nodes
      (EngineT.World.run (linkOps ++ [.compute])).engine.opts.stubWidth :=
  engine_links_after_any_history linkOps


/-- the same after ANY interleaving of operations on several engines that are alive at once and share list objects and node objects:
a compute of ANY engine leaves exactly this pointer structure for that engine's nodes -/
theorem engine_links_after_any_interleaving (ops : List EngineT.MOp) (k : Nat) :
    LinksOK (EngineT.computeT ((EngineT.MWorld.run ops).engineAt k) (EngineT.MWorld.run ops).store).2
      ((EngineT.computeT ((EngineT.MWorld.run ops).engineAt k) (EngineT.MWorld.run ops).store).1.layers.getD [])
      (EngineT.computeT ((EngineT.MWorld.run ops).engineAt k) (EngineT.MWorld.run ops).store).1.nodes
      ((EngineT.MWorld.run ops).engineAt k).opts.stubWidth :=
  (engine_links ((EngineT.MWorld.run ops).engineAt k) (EngineT.MWorld.run ops).store (C06.mworld_good ops k)).1

end Labella.C04
