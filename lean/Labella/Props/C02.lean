import Labella.Proofs.ChainOpt
/-! # C02 — least-squares optimal placement -/
namespace Labella.C02
open Labella Labella.Chain

/-- Every block list reachable from singletons keeps the invariant "non-empty, positive weights, all
prefix residual sums ≤ 0": pooling a violating pair preserves it. -/
theorem pooling_keeps_invariant {eps : ℚ} (heps : 0 ≤ eps) (fuel : ℕ) {bs : List Block} (hwf : WF bs) :
    WF (satisfy eps fuel bs) :=
  satisfy_WF heps fuel hwf

/-- The pooled placement is optimal among all order-keeping placements of the (gap-shifted) chain, with the
strong-convexity margin: `cost x + Σ wᵢ (zᵢ − xᵢ)² ≤ cost z`; in particular the minimiser is unique. -/
theorem pooled_placement_optimal {bs : List Block} (hwf : WF bs) (zs : List ℚ)
    (hlen : zs.length = bs.flatten.length) (hz : Nondecr zs) :
    cost2 bs.flatten (expandQ bs) + dist2 bs.flatten (expandQ bs) zs ≤ cost2 bs.flatten zs :=
  chain_optimal hwf zs hlen hz

end Labella.C02
