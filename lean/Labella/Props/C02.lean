import Labella.Proofs.LayoutSep
import Labella.Model.LayoutSpec
import Labella.Props.C01
/-! # C02 — labels are displaced as little as possible (least-squares optimal placement) -/
namespace Labella.C02
open Labella Labella.Chain Labella.Layout

/-- **Least squares.**  For every chain instance (positive weights) the solver's placement `x` costs no more
than any placement `z` that keeps every gap exactly, with the strong-convexity margin
`cost x + Σ wᵢ (zᵢ − xᵢ)² ≤ cost z`: any other placement that is at least as cheap must coincide with `x`,
so the optimum is unique.  Walls are ordinary (heavy) variables of the chain, i.e. the bounds enter as the
two terms `W (x_L − minPos)² + W (x_R − maxPos)²` of the cost. -/
theorem solve_optimal (eps : ℚ) (heps : 0 ≤ eps) (vars : List Item) (gaps : List ℚ)
    (hlen : gaps.length + 1 = vars.length) (hw : ∀ v ∈ vars, 0 < v.w)
    (zs : List ℚ) (hz : zs.length = vars.length) (hfeas : SepBy 0 gaps zs) :
    cost vars (solve eps vars gaps) + wdist vars (solve eps vars gaps) zs ≤ cost vars zs :=
  solve_optimal' eps heps vars gaps hlen hw zs hz hfeas

/-- … and that placement itself keeps every gap up to `eps` -/
theorem solve_feasible (eps : ℚ) (heps : 0 ≤ eps) (vars : List Item) (gaps : List ℚ)
    (hw : ∀ v ∈ vars, 0 < v.w) : SepBy eps gaps (solve eps vars gaps) :=
  solve_feasible' eps heps vars gaps hw

/-- **An item with enough room is not moved**: if the targets themselves keep every gap, they are the result. -/
theorem solve_room_not_moved (eps : ℚ) (heps : 0 ≤ eps) (vars : List Item) (gaps : List ℚ)
    (hlen : gaps.length + 1 = vars.length) (hw : ∀ v ∈ vars, 0 < v.w)
    (hroom : SepBy 0 gaps (vars.map (·.t))) :
    solve eps vars gaps = vars.map (·.t) :=
  solve_room_not_moved' eps heps vars gaps hlen hw hroom

/-- the soft walls that stand for the bounds are at least as stiff as the reference the implementation oracle uses -/
theorem wall_weight_large : refWallWeight ≤ Gen.wallWeight := by
  unfold refWallWeight Gen.wallWeight; norm_num

/-- pooling keeps the invariant "non-empty, positive weights, every prefix residual sum ≤ 0" -/
theorem pooling_keeps_invariant {eps : ℚ} (heps : 0 ≤ eps) (fuel : ℕ) {bs : List Block} (hwf : WF bs) :
    WF (satisfy eps fuel bs) :=
  satisfy_WF heps fuel hwf

/-- every reported position is within one half of the optimum -/
theorem reported_within_half (x : ℚ) : |((roundHalfEven x : Int) : ℚ) - x| ≤ 1 / 2 :=
  round_close' x

/-- the chain instance `removeOverlap` builds always satisfies the hypotheses of the theorems above -/
theorem removeOverlap_instance_ok (o : ROpts) (its : List LItem) (h : its ≠ []) :
    (chainGaps o its).length + 1 = (chainVars o its).length ∧ ∀ v ∈ chainVars o its, 0 < v.w :=
  ⟨chain_lengths o h, chainVars_pos o its⟩

-- non-vacuity: three labels pushed apart, the middle one keeps its place by symmetry
example : solve 0 [⟨1, 0⟩, ⟨1, 1⟩, ⟨1, 2⟩] [3, 3] = [-2, 1, 4] := by decide +kernel


/-! ### end to end -/
open Labella.C01 (layerView solvedItems) in
/-- **C02 end to end** (proved in `Props/C01.lean` next to the C01 end-to-end theorem): in every layer `j` of every layout the reported positions are
the roundings of the solver's positions, item by item within 1/2 of them, and the solver's placement is the least-squares optimum of the layer's targets
and gaps, walls included: `cost x + Σ wᵢ (zᵢ − xᵢ)² ≤ cost z` for EVERY placement `z` that keeps the gaps.  Through `C01.engine_view_pure` the same holds
for what the stateful engine reports after any history. -/
theorem layout_optimal_end_to_end (o : FOpts) (labels : List Label) (j : Nat) :
    (layerView o labels (compute o labels) j).map (·.2)
        = (solveSorted o.toR (solvedItems o labels j)).map (fun x => ((roundHalfEven x : Int) : ℚ)) ∧
    List.Forall₂ (fun (p : LItem × ℚ) x => |p.2 - x| ≤ 1 / 2)
        (layerView o labels (compute o labels) j) (solveSorted o.toR (solvedItems o labels j)) ∧
    (solvedItems o labels j ≠ [] →
      ∀ zs : List ℚ, zs.length = (chainVars o.toR (solvedItems o labels j)).length →
        SepBy 0 (chainGaps o.toR (solvedItems o labels j)) zs →
        cost (chainVars o.toR (solvedItems o labels j))
            (solve Layout.eps (chainVars o.toR (solvedItems o labels j)) (chainGaps o.toR (solvedItems o labels j)))
          + wdist (chainVars o.toR (solvedItems o labels j))
              (solve Layout.eps (chainVars o.toR (solvedItems o labels j)) (chainGaps o.toR (solvedItems o labels j))) zs
          ≤ cost (chainVars o.toR (solvedItems o labels j)) zs) :=
  C01.compute_optimal o labels j

end Labella.C02
