import Labella.Model.Pipeline
import Labella.Model.Render
import Labella.Proofs.Rounding
import Labella.Proofs.RenderLemmas
import Mathlib.Algebra.Order.Field.Rat
import Mathlib.Tactic.Ring
import Mathlib.Tactic.Linarith
import Mathlib.Tactic.NormNum
import Labella.Props.C15
import Labella.Props.C14
import Labella.Proofs.PipelineLemmas
/-! # C07 — every datum is drawn once, at its true time, linked to its own label

`o` = renderer options (direction, node height = thickest label, layer gap); `n` = a label node after layout.
Dots and ticks sit at the affine map of C12/C15 (`dots_affine`, `time_dots_affine` below restate it for the axis
`[0, L]`); the link geometry is proved for all nodes and directions. -/
namespace Labella.C07
open Labella Labella.Render

/-! ### truncation -/

theorem trunc_close (x : ℚ) : |((truncToZero x : Int) : ℚ) - x| < 1 := by
  exact truncToZero_close x

theorem trunc_le_of_nonneg (x : ℚ) (h : 0 ≤ x) : ((truncToZero x : Int) : ℚ) ≤ x ∧ x - 1 < ((truncToZero x : Int) : ℚ) := by
  exact truncToZero_of_nonneg x h

theorem trunc_ge_of_nonpos (x : ℚ) (h : x ≤ 0) : x ≤ ((truncToZero x : Int) : ℚ) ∧ ((truncToZero x : Int) : ℚ) < x + 1 := by
  exact truncToZero_of_nonpos x h

/-! ### C07: the link -/

/-- a node as the timeline builds it: one hop per layer up to its own, the last hop is the node itself, its extent
along the axis is its drawn width (axis along x) or height (axis along y), and for direction `up` every label has
the common thickness `nodeHeight` -/
def WellBuilt (o : ROpt) (n : RNode) : Prop :=
  n.hops.length = n.layer + 1 ∧ n.hops.getLast? = some n.cur ∧
  (if o.dir.horizontalAxis then n.width = n.w else n.width = n.h) ∧
  (o.dir = .up → n.h = o.nodeHeight)

/-- the link starts at the datum's dot on the axis … -/
theorem link_starts_at_dot (o : ROpt) (n : RNode) (hb : WellBuilt o n) :
    (pathSteps o n).head? = some (Step.M (if o.dir.horizontalAxis then (n.ideal, 0) else (0, n.ideal))) := by
  rw [pathSteps_eq]
  rfl

/-- … has one curve per layer it passes (the datum's stubs, then the label) … -/
theorem link_one_curve_per_layer (o : ROpt) (n : RNode) (hb : WellBuilt o n) :
    ((pathSteps o n).filter (fun s => match s with | .C _ _ _ => true | _ => false)).length = n.layer + 1 := by
  rw [pathSteps_eq, List.filter_cons_of_neg (by simp),
    pathLoop_curves (wpNear o) (wpFar o) _ _ (fun _ _ _ => rfl) (fun _ => rfl)]
  rw [List.length_zipIdx]
  exact hb.1

/-- … and ends within 1 unit (coordinate truncation of the box origin) of the middle of the axis-facing edge of the
datum's own box -/
theorem link_ends_at_box (o : ROpt) (n : RNode) (hb : WellBuilt o n) (hnh : 0 ≤ o.nodeHeight) (hlg : 0 ≤ o.layerGap) :
    linkEndsB o.dir 0 1 n.ideal (pathSteps o n) (modelBox o n) = true := by
  obtain ⟨hlen, hlast, hwid, hup⟩ := hb
  obtain ⟨init, hinit⟩ := List.getLast?_eq_some_iff.mp hlast
  have hil : init.length = n.layer := by
    rw [hinit] at hlen
    simpa using hlen
  obtain ⟨pre, c1, c2, hp⟩ := pathSteps_shape o n init hinit
  rw [hp, hil]
  have h0 : ptCloseB 0 (dotPt o n) (if o.dir.horizontalAxis then (n.ideal, 0) else (0, n.ideal)) = true := by
    unfold dotPt ptCloseB
    simp [ratAbs]
  simp only [linkEndsB, List.getLast?_concat, Step.endPt, h0, Bool.true_and]
  simp only [ptCloseB, Bool.and_eq_true, decide_eq_true_eq, ratAbs_eq_abs, modelBox_eq]
  cases hd : o.dir
  · -- up
    rw [hd] at hwid
    simp only [Dir.horizontalAxis, if_true] at hwid
    have hh := hup hd
    rw [wpNear_up o n hd, nodePos_up o n hd]
    simp only [Box.facingMid]
    have k1 := trunc_shift_close n.cur (n.width / 2)
    have k2 := trunc_shift_close (-posOf o n) o.nodeHeight
    rw [← hwid]
    rw [hh]
    exact ⟨le_of_lt k1, le_of_lt k2⟩
  · -- down
    rw [hd] at hwid
    simp only [Dir.horizontalAxis, if_true] at hwid
    rw [wpNear_down o n hd, nodePos_down o n hd]
    simp only [Box.facingMid]
    have k1 := trunc_shift_close n.cur (n.width / 2)
    have k2 := trunc_shift_close (posOf o n) 0
    rw [← hwid]
    simp only [sub_zero, add_zero] at k2
    exact ⟨le_of_lt k1, le_of_lt k2⟩
  · -- left
    rw [hd] at hwid
    simp only [Dir.horizontalAxis] at hwid
    have hwid' : n.width = n.h := by simpa using hwid
    rw [wpNear_left o n hd, nodePos_left o n hd]
    simp only [Box.facingMid]
    have k1 := trunc_shift_close (-posOf o n) n.w
    have k2 := trunc_shift_close n.cur (n.width / 2)
    rw [← hwid']
    have e : -posOf o n - o.nodeHeight - n.w + o.nodeHeight = -posOf o n - n.w := by ring
    rw [e]
    exact ⟨le_of_lt k1, le_of_lt k2⟩
  · -- right
    rw [hd] at hwid
    simp only [Dir.horizontalAxis] at hwid
    have hwid' : n.width = n.h := by simpa using hwid
    rw [wpNear_right o n hd, nodePos_right o n hd]
    simp only [Box.facingMid]
    have k1 := trunc_shift_close (posOf o n) 0
    have k2 := trunc_shift_close n.cur (n.width / 2)
    rw [← hwid']
    simp only [sub_zero, add_zero] at k1
    exact ⟨le_of_lt k1, le_of_lt k2⟩

/-- the box has the datum's size plus padding, and its extent along the axis is what the layout engine separated -/
theorem box_size (dir : Dir) (pl pr pt pb H W : ℚ) (t : Bool) :
    alongAxis dir (labelSize dir pl pr pt pb H W t) = (if dir.horizontalAxis then W + pl + pr else if t then H + pl + pr else W + pl + pr) := by
  cases dir <;> cases t <;> simp [alongAxis, labelSize, Dir.horizontalAxis]


/-! ### dots and ticks -/

/-- numeric times: the dot of a datum is the affine image of its time, the axis domain maps onto `[0, L]` -/
theorem dots_affine (d0 d1 L t : ℚ) (h : d0 ≠ d1) :
    Scale.apply false d0 d1 0 L t = L * ((t - d0) / (d1 - d0)) ∧
    Scale.apply false d0 d1 0 L d0 = 0 ∧ Scale.apply false d0 d1 0 L d1 = L := by
  refine ⟨?_, (C12.endpoints false d0 d1 0 L h).1, (C12.endpoints false d0 d1 0 L h).2⟩
  rw [C12.affine d0 d1 0 L t h]; ring

/-- date/time values: the same with the instant in milliseconds exactly as supplied (time of day included) -/
theorem time_dots_affine (d0 d1 : Int) (L : ℚ) (h : d0 ≠ d1) (t : Int) :
    Calendar.timeApply d0 d1 0 L t = L * (((t - d0 : Int) : ℚ) / ((d1 - d0 : Int) : ℚ)) := by
  have := C15.time_proportional d0 d1 0 L h d0 t
  rw [(C15.time_endpoints d0 d1 0 L h).1] at this
  linarith

/-- a degenerate domain places every dot at the start of the axis -/
theorem degenerate_dots_at_start (d L t : ℚ) : Scale.apply false d d 0 L t = 0 :=
  C12.degenerate false d 0 L t

/-! ### every dot lies on the axis line (axis domain derived from the data: `init_axis` takes the extent of the times and makes it nice) -/

theorem affine_within (n0 n1 L t : ℚ) (hL : 0 ≤ L) (h0 : n0 ≤ t) (h1 : t ≤ n1) (hlt : n0 < n1) :
    0 ≤ Scale.apply false n0 n1 0 L t ∧ Scale.apply false n0 n1 0 L t ≤ L := by
  rw [C12.affine n0 n1 0 L t (ne_of_lt hlt)]
  have hd : 0 < n1 - n0 := by linarith
  have hq0 : 0 ≤ (t - n0) / (n1 - n0) := div_nonneg (by linarith) hd.le
  have hq1 : (t - n0) / (n1 - n0) ≤ 1 := by
    rw [div_le_one hd]; linarith
  constructor
  · have := mul_nonneg hL hq0
    linarith
  · have := mul_le_mul_of_nonneg_left hq1 hL
    linarith

/-- numeric times: whatever the data (all inside `[lo, hi]`, their extent) and the tick count, after `nice` every dot is at a position
between the two ends of the axis line `[0, L]` -/
theorem dots_on_axis_linear (lo hi m L t : ℚ) (hm : 0 < m) (hL : 0 ≤ L) (hlt : lo < hi) (h0 : lo ≤ t) (h1 : t ≤ hi) :
    0 ≤ Scale.apply false (Scale.nice lo hi m).1 (Scale.nice lo hi m).2 0 L t ∧
    Scale.apply false (Scale.nice lo hi m).1 (Scale.nice lo hi m).2 0 L t ≤ L := by
  obtain ⟨w0, w1⟩ := (C14.nice_widens lo hi m hm).1 hlt
  exact affine_within _ _ L t hL (by linarith) (by linarith) (by linarith)

/-- date / time values (instants in ms): the same with the calendar-aware `nice` of the time scale -/
theorem dots_on_axis_time (lo hi : Int) (m L : ℚ) (t : Int) (hL : 0 ≤ L) (hlt : lo < hi) (h0 : lo ≤ t) (h1 : t ≤ hi) :
    0 ≤ Calendar.timeApply (Calendar.nice lo hi m).1 (Calendar.nice lo hi m).2 0 L t ∧
    Calendar.timeApply (Calendar.nice lo hi m).1 (Calendar.nice lo hi m).2 0 L t ≤ L := by
  obtain ⟨w0, w1⟩ := (C14.time_nice_widens lo hi m).1 hlt.le
  have a0 : (((Calendar.nice lo hi m).1 : Int) : ℚ) ≤ (t : ℚ) := by exact_mod_cast (le_trans w0 h0)
  have a1 : (t : ℚ) ≤ (((Calendar.nice lo hi m).2 : Int) : ℚ) := by exact_mod_cast (le_trans h1 w1)
  have a2 : (((Calendar.nice lo hi m).1 : Int) : ℚ) < (((Calendar.nice lo hi m).2 : Int) : ℚ) := by
    exact_mod_cast (lt_of_le_of_lt w0 (lt_of_lt_of_le hlt w1))
  exact affine_within _ _ L _ hL a0 a1 a2

/-! ### end to end: `Timeline.compute` + the emitters, composed (`Model/Pipeline.lean`) -/
section EndToEnd
open Labella.Pipeline Labella.Layout

/-- **C07 (boxes and links) end to end.**  For EVERY list of data, direction, engine configuration and layer gap ≥ 0 (for direction `up`:
labels of one common thickness, which `Timeline.equal_heights` establishes): every datum is drawn exactly once; its box has the datum's
padded size; its link starts at the datum's own dot on the axis, has exactly one curve per layer up to the label's, passes — layer by
layer — through the reported position of the datum's own stub in that layer, and ends within 1 unit (origin truncation) of the middle of
the axis-facing edge of the datum's own box. -/
theorem pipeline_links (dir : Dir) (layerGap : ℚ) (fo : FOpts) (items : List PItem)
    (hlg : 0 ≤ layerGap) (hsz : ∀ it ∈ items, 0 ≤ it.w ∧ 0 ≤ it.h)
    (hup : dir = .up → ∀ it ∈ items, it.h = nodeHeight dir items) :
    ((drawn dir layerGap fo items).map (·.id)).Perm (List.range items.length) ∧
    ∀ a ∈ drawn dir layerGap fo items,
      a.id < items.length ∧
      a.box.w = (items.getD a.id default).w ∧ a.box.h = (items.getD a.id default).h ∧
      (pathSteps (ropt dir layerGap items) a.node).head? =
        some (Step.M (if dir.horizontalAxis then ((items.getD a.id default).ideal, 0) else (0, (items.getD a.id default).ideal))) ∧
      ((pathSteps (ropt dir layerGap items) a.node).filter (fun s => match s with | .C _ _ _ => true | _ => false)).length = a.layer + 1 ∧
      (∀ j, j < a.layer → ∃ p ∈ (Layout.compute fo (labelsOf dir items)).getD j [],
          p.ref.id = a.id ∧ p.ref.isStub = true ∧ a.node.hops.getD j 0 = (p.pos : ℚ)) ∧
      a.node.hops.getD a.layer 0 = a.node.cur ∧ a.node.hops.length = a.layer + 1 ∧
      linkEndsB dir 0 1 (items.getD a.id default).ideal (pathSteps (ropt dir layerGap items) a.node) a.box = true := by
  refine ⟨drawn_ids_perm dir layerGap fo items, fun a ha => ?_⟩
  obtain ⟨hlt, hlay, hw, hh, hwid, hideal, hbox⟩ := drawn_node dir layerGap fo items a ha
  obtain ⟨hlen, hcur, hlast, hstubs⟩ := drawn_links dir layerGap fo items a ha
  have hmem := getD_mem items a.id default hlt
  have hwb : WellBuilt (ropt dir layerGap items) a.node := by
    refine ⟨by rw [hlen, hlay], hlast, ?_, ?_⟩
    · change if dir.horizontalAxis then a.node.width = a.node.w else a.node.width = a.node.h
      rw [hwid, hw, hh]; unfold along; split <;> rfl
    · intro hd
      change a.node.h = nodeHeight dir items
      rw [hh]
      exact hup hd _ hmem
  have hnh : 0 ≤ (ropt dir layerGap items).nodeHeight := nodeHeight_nonneg dir items
  have h1 := link_starts_at_dot (ropt dir layerGap items) a.node hwb
  have h2 := link_one_curve_per_layer (ropt dir layerGap items) a.node hwb
  have h3 := link_ends_at_box (ropt dir layerGap items) a.node hwb hnh hlg
  rw [hideal] at h1 h3
  rw [hlay] at h2
  rw [← hbox] at h3
  refine ⟨hlt, ?_, ?_, h1, h2, hstubs, hcur, hlen, h3⟩
  · rw [hbox, ← hw]; rfl
  · rw [hbox, ← hh]; rfl

end EndToEnd

/-! ### the whole chain for numeric times: data → nice domain → scale → nodes → layout → drawn boxes, links and dots -/
section WholeChain
open Labella.Pipeline Labella.Layout

/-- a datum as the caller supplies it: time, explicit label width, label height, whether it has a text -/
structure Datum where
  t : ℚ
  W : ℚ
  H : ℚ
  hasText : Bool

/-- `Timeline.init_axis` + `get_nodes` for numeric times: the axis domain is the nice extent `[lo, hi]` of the data, mapped onto `[0, L]`;
every datum becomes a node at the image of its time with the padded (and for left / right turned) label size -/
def nodesOf (dir : Dir) (pl pr pt pb : ℚ) (lo hi m L : ℚ) (data : List Datum) : List PItem :=
  data.map (fun d =>
    { ideal := Scale.apply false (Scale.nice lo hi m).1 (Scale.nice lo hi m).2 0 L d.t,
      w := (labelSize dir pl pr pt pb d.H d.W d.hasText).1, h := (labelSize dir pl pr pt pb d.H d.W d.hasText).2 })

/-- **C07, the whole chain** (numeric times, axis domain derived from the data): for every list of data inside its extent `[lo, hi]`, every
tick count, axis length, direction, padding, engine configuration and layer gap ≥ 0 (direction `up`: labels of one common thickness) —
every datum is drawn exactly once; its dot lies ON the axis line at the affine image of its time; its link starts at that dot, has one
curve per layer, passes layer by layer through its own stub and ends within 1 unit of the middle of the axis-facing edge of its own box; the
box has the datum's size plus padding. -/
theorem timeline_chain (dir : Dir) (pl pr pt pb lo hi m L layerGap : ℚ) (fo : FOpts) (data : List Datum)
    (hm : 0 < m) (hL : 0 ≤ L) (hlt : lo < hi) (hin : ∀ d ∈ data, lo ≤ d.t ∧ d.t ≤ hi) (hlg : 0 ≤ layerGap)
    (hsz : ∀ it ∈ nodesOf dir pl pr pt pb lo hi m L data, 0 ≤ it.w ∧ 0 ≤ it.h)
    (hup : dir = .up → ∀ it ∈ nodesOf dir pl pr pt pb lo hi m L data, it.h = nodeHeight dir (nodesOf dir pl pr pt pb lo hi m L data)) :
    let items := nodesOf dir pl pr pt pb lo hi m L data
    ((drawn dir layerGap fo items).map (·.id)).Perm (List.range data.length) ∧
    ∀ a ∈ drawn dir layerGap fo items, ∃ d, data[a.id]? = some d ∧
      -- the dot: on the axis line, at the affine image of the datum's own time
      (items.getD a.id default).ideal = L * ((d.t - (Scale.nice lo hi m).1) / ((Scale.nice lo hi m).2 - (Scale.nice lo hi m).1)) ∧
      0 ≤ (items.getD a.id default).ideal ∧ (items.getD a.id default).ideal ≤ L ∧
      -- the box: the datum's size plus padding
      (a.box.w, a.box.h) = labelSize dir pl pr pt pb d.H d.W d.hasText ∧
      -- the link
      (pathSteps (ropt dir layerGap items) a.node).head? =
        some (Step.M (if dir.horizontalAxis then ((items.getD a.id default).ideal, 0) else (0, (items.getD a.id default).ideal))) ∧
      ((pathSteps (ropt dir layerGap items) a.node).filter (fun s => match s with | .C _ _ _ => true | _ => false)).length = a.layer + 1 ∧
      (∀ j, j < a.layer → ∃ p ∈ (Layout.compute fo (labelsOf dir items)).getD j [],
          p.ref.id = a.id ∧ p.ref.isStub = true ∧ a.node.hops.getD j 0 = (p.pos : ℚ)) ∧
      linkEndsB dir 0 1 (items.getD a.id default).ideal (pathSteps (ropt dir layerGap items) a.node) a.box = true := by
  intro items
  have hlen : items.length = data.length := by simp [items, nodesOf]
  obtain ⟨hperm, hall⟩ := pipeline_links dir layerGap fo items hlg hsz hup
  refine ⟨hlen ▸ hperm, ?_⟩
  intro a ha
  obtain ⟨hid, hw, hh, hhead, hcur, hstub, _, _, hend⟩ := hall a ha
  have hid' : a.id < data.length := hlen ▸ hid
  refine ⟨data[a.id], by simp [hid'], ?_⟩
  have hitem : items.getD a.id default =
      { ideal := Scale.apply false (Scale.nice lo hi m).1 (Scale.nice lo hi m).2 0 L data[a.id].t,
        w := (labelSize dir pl pr pt pb data[a.id].H data[a.id].W data[a.id].hasText).1,
        h := (labelSize dir pl pr pt pb data[a.id].H data[a.id].W data[a.id].hasText).2 } := by
    simp [items, nodesOf, List.getD_eq_getElem?_getD, hid']
  obtain ⟨w0, w1⟩ := (C14.nice_widens lo hi m hm).1 hlt
  have hne : (Scale.nice lo hi m).1 ≠ (Scale.nice lo hi m).2 := ne_of_lt (by linarith)
  obtain ⟨hd0, hd1⟩ := hin data[a.id] (List.getElem_mem _)
  obtain ⟨b0, b1⟩ := dots_on_axis_linear lo hi m L data[a.id].t hm hL hlt hd0 hd1
  refine ⟨?_, ?_, ?_, ?_, hhead, hcur, hstub, hend⟩
  · rw [hitem]
    simp only
    rw [C12.affine _ _ 0 L _ hne]
    ring
  · rw [hitem]; exact b0
  · rw [hitem]; exact b1
  · rw [hw, hh, hitem]

end WholeChain

end Labella.C07
