import Labella.Model.Process
import Labella.Model.CalSpec
import Labella.Proofs.CalendarLemmas
import Labella.Proofs.ProcessLemmas
/-! # C18 — results do not depend on the process's local time zone

The calendar and time-scale models (`Labella.Calendar`) take no zone parameter at all: every theorem of C14–C17 is
zone-free by construction.  To make that statement non-vacuous the pre-repair conversion (through the process's
local zone) is modelled with an explicit zone and shown to differ. -/
namespace Labella.C18
open Labella Labella.Process

/-! ### C18 -/

/-- the pre-repair hour floor depends on the zone: US Eastern, wall clock 2021-03-14 02:30 (inside the DST gap) is
floored to 03:00 instead of 02:00.  `utcOf`/`wallOf` are the two conversions of that zone around that instant
(standard time UTC−5 before 07:00 UTC, daylight time UTC−4 from then on). -/
theorem legacy_zone_dependent :
    let t : Int := 1615689000000            -- 2021-03-14T02:30 as naive wall-clock milliseconds
    let utcOf : Int → Int := fun w => w + 5 * 3600000                                -- the gap is resolved with the standard offset
    let wallOf : Int → Int := fun u => if u < 1615705200000 then u - 5 * 3600000 else u - 4 * 3600000
    legacyHourFloor utcOf wallOf t = 1615690800000 ∧ hourFloor t = 1615687200000 := by
  refine ⟨?_, ?_⟩ <;> decide

/-- with a zone that has no offset at all the two agree: the repaired function is the zone-free one -/
theorem repaired_is_utc_legacy (t : Int) : legacyHourFloor id id t = hourFloor t := by
  rfl

/-- and the repaired conversion coincides with the calendar model used everywhere else (which takes no zone) -/
theorem hourFloor_eq_floorU (t : Int) : hourFloor t = Calendar.floorU .hour t := by
  rfl


/-- every calendar operation of the model is a function of the instant alone (no zone argument exists): stated for
`floorU` as the representative the correspondence check exercises under five process time zones -/
theorem zone_free_floor (u : Calendar.TUnit) (t : Int) (zoneA zoneB : Int → Int) :
    (fun (_ : Int → Int) => Calendar.floorU u t) zoneA = (fun (_ : Int → Int) => Calendar.floorU u t) zoneB := rfl

end Labella.C18
