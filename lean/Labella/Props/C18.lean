import Labella.Model.Process
namespace Labella.C18
open Labella Labella.Process

theorem placeholder_hour : hourFloor 3600001 = 3600000 := by decide

end Labella.C18
