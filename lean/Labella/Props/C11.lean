import Labella.Model.Process
import Labella.Model.CalSpec
import Labella.Proofs.CalendarLemmas
import Labella.Proofs.ProcessLemmas
import Labella.Props.C12
import Labella.Props.C17
import Mathlib.Algebra.Order.Field.Rat
/-! # C11 — export succeeds on every documented input

Every function of the models is total (Lean definitions), including the places where the pre-repair code raised:
a zero-width domain (`Scale.uninterp` guards the division: `C12.degenerate`), the tick label precision of a zero
step (`Scale.tickDecimals` of 0), stepping days across month ends (`Calendar.stepU .day` is plain addition:
`C17.step_is_next`), the integer millisecond step (`Calendar.msRange`), `options = None`.  The theorems below state
the degenerate-domain behaviour; the crash fuzz of the real constructors and exports is the tie. -/
namespace Labella.C11
open Labella Labella.Process

/-! ### C11: degenerate time domain -/

/-- a time domain consisting of a single instant gets exactly one tick (that instant) and `nice` leaves it alone:
nothing divides by the zero span -/
theorem degenerate_time_domain (t : Int) (m : Rat) (hm : 0 < m) :
    Calendar.ticks t t m = [t] ∧ Calendar.nice t t m = (t, t) := by
  have _ := hm   -- not needed: the zero span never reaches a division by `m` that matters
  exact ⟨Calendar.ticks_degenerate t m, Calendar.nice_degenerate t m⟩


/-- a degenerate numeric domain maps every datum to the start of the axis (clamped or not) -/
theorem degenerate_linear_domain (c : Bool) (d r0 r1 x : ℚ) : Scale.apply c d d r0 r1 x = r0 :=
  C12.degenerate c d r0 r1 x

/-- … and has no ticks and an unchanged nice domain -/
theorem degenerate_linear_ticks (d m : ℚ) : Scale.ticks d d m = [] ∧ Scale.nice d d m = (d, d) := by
  constructor
  · simp [Scale.ticks, Scale.tickRange, Scale.extent]
  · simp [Scale.nice, Scale.nicePass, Scale.tickRange, Scale.extent]

/-- stepping a day boundary forward never fails and lands on the following midnight, month ends included -/
theorem day_step_total (b : Int) (hb : Calendar.isBoundary .day b = true) :
    Calendar.IsNext .day b (Calendar.stepU .day b 1) :=
  C17.step_is_next .day b hb

end Labella.C11
