/-! Model of what several timelines share inside one interpreter process (C10), and of the pre-repair
local-time conversions with an explicit zone (C18).  Core Lean only. -/
namespace Labella.Process

/-- what a timeline's own arguments determine: the (niced) axis domain and the direction, as opaque tokens -/
structure Args where
  d0 : String
  d1 : String
  dir : String
deriving Repr, BEq, DecidableEq

structure PState where
  scales : List (String × String)          -- scale objects: their domain
  dicts : List String                      -- engine-option dicts: the direction stored in them
  tls : List (Nat × Nat × Nat)             -- timelines: (id, scale cell, dict cell); later entries win
deriving Repr

inductive POp where
  | construct (i : Nat) (a : Args)
  | export (i : Nat)
deriving Repr

/-- the module-level default scale and default engine dict exist from import time on (cells 0) -/
def PState.init : PState := { scales := [("0", "1")], dicts := [""], tls := [] }

def lookup (s : PState) (i : Nat) : Option (Nat × Nat) :=
  (s.tls.reverse.find? (fun t => t.1 == i)).map (fun t => (t.2.1, t.2.2))

/-- `shared = true` is the pre-repair behaviour: every timeline without its own scale uses (and re-domains) the
module-level default scale, and writes its direction into the module-level default dict -/
def pstep (shared : Bool) (s : PState) : POp → PState × Option Args
  | .construct i a =>
    if shared then
      ({ scales := s.scales.set 0 (a.d0, a.d1), dicts := s.dicts.set 0 a.dir, tls := s.tls ++ [(i, 0, 0)] }, none)
    else
      ({ scales := s.scales ++ [(a.d0, a.d1)], dicts := s.dicts ++ [a.dir],
         tls := s.tls ++ [(i, s.scales.length, s.dicts.length)] }, none)
  | .export i =>
    match lookup s i with
    | none => (s, none)
    | some (sc, di) =>
      let d := s.scales.getD sc ("", "")
      (s, some { d0 := d.1, d1 := d.2, dir := s.dicts.getD di "" })

/-- outputs of all export operations of a history, in order -/
def outputs (shared : Bool) : PState → List POp → List (Option Args)
  | _, [] => []
  | s, op :: rest =>
    let r := pstep shared s op
    match op with
    | .export _ => r.2 :: outputs shared r.1 rest
    | .construct _ _ => outputs shared r.1 rest

/-- what isolation demands: every export of timeline `i` shows the arguments of the latest construction of `i` -/
def expected : List POp → List POp → List (Option Args)
  | _, [] => []
  | past, op :: rest =>
    match op with
    | .export i =>
      (past.reverse.findSome? (fun p => match p with
        | .construct j a => if j == i then some a else none
        | .export _ => none)) :: expected (past ++ [op]) rest
    | .construct _ _ => expected (past ++ [op]) rest

/-! ### time zones -/

/-- pre-repair `hour.floor`: the naive wall-clock instant `t` (ms) was converted with the process's local zone
(`utcOf t` = the UTC instant `timestamp()` returns for wall-clock `t`; `wallOf u` = the wall-clock `fromtimestamp`
gives for UTC instant `u`), floored in UTC, and converted back -/
def legacyHourFloor (utcOf wallOf : Int → Int) (t : Int) : Int :=
  wallOf (utcOf t / 3600000 * 3600000)

/-- the repaired conversion has no zone parameter at all -/
def hourFloor (t : Int) : Int := t / 3600000 * 3600000

end Labella.Process
