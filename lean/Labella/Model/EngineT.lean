import Labella.Model.Layout
/-! # The STATEFUL part of `force.py`, `node.py`, `distributor.py`, `removeOverlap.py`, transliterated

`Model/Layout.lean` describes a layout as a pure function of (options, labels).  The real code is not written that way:
`Node` objects are mutable and shared, they keep `currentPos`, `layerIndex`, `parent` / `child` links and whatever an
earlier layout (of this or of another engine) left in them; `Force.compute` first unlinks stale stubs (`removeStub`), the
distributor links fresh ones (`createStub`), `removeOverlap` reads `node.parent.currentPos`, sorts the list it is given IN PLACE
(for algorithm `none` that list is the engine's own `_nodes`) and overwrites `currentPos`; `Force` overwrites `layerIndex`.
Property C06 says that none of the stale state matters.  This file transliterates exactly those stateful steps over an
index-addressed node store; the decisions that depend only on data positions and widths (which label goes to which layer:
`sortIds`, `estimateLayers`, `overlapLayers`, the modulus of `algorithm_simple`) and the per-layer solve are taken from
`Model/Layout.lean` (tied to the code by the C04 / C01–C03 correspondence).  `Props/C06.lean` proves that for every reachable
state the result of `computeT` is the pure `Layout.compute` of the engine's options and the data of its nodes. -/
namespace Labella.EngineT
open Labella Labella.Layout

/-- a `Node` object -/
structure N where
  ideal : Rat
  width : Rat
  cur : Rat            -- `currentPos`
  layerIndex : Nat
  parent : Option Nat
  child : Option Nat
  data : Nat           -- payload identity (`data` is copied to stubs by reference)
deriving Repr, Inhabited, BEq

abbrev Store := Array N

def get (s : Store) (i : Nat) : N := s.getD i default
def set (s : Store) (i : Nat) (n : N) : Store := s.setIfInBounds i n

/-- `Node(idealPos, width, data)` -/
def mkNode (s : Store) (ideal width : Rat) (data : Nat) : Store × Nat :=
  (s.push { ideal := ideal, width := width, cur := ideal, layerIndex := 0, parent := none, child := none, data := data }, s.size)

/-- `Node.removeStub` -/
def removeStub (s : Store) (i : Nat) : Store :=
  match (get s i).parent with
  | some p =>
    let s := set s p { get s p with child := none }
    set s i { get s i with parent := none }
  | none => s

/-- `Node.createStub(width)`: returns the new stub's id -/
def createStub (s : Store) (i : Nat) (width : Rat) : Store × Nat :=
  let n := get s i
  let id := s.size
  let s := s.push { ideal := n.ideal, width := width, cur := n.cur, layerIndex := 0, parent := none, child := some i, data := n.data }
  (set s i { get s i with parent := some id }, id)

/-- `Node.isStub` -/
def isStub (s : Store) (i : Nat) : Bool := (get s i).child.isSome

/-- `stub = node; for j in range(top - 1, -1, -1): stub = stub.createStub(w); layers[j].append(stub)` -/
def stubChain (w : Rat) : Nat → Store → List (List Nat) → Nat → Store × List (List Nat)
  | 0, s, layers, _ => (s, layers)
  | j + 1, s, layers, cur =>
    let r := createStub s cur w
    stubChain w j r.1 (layers.modify j (· ++ [r.2])) r.2

/-- the stub-creation loops at the end of `algorithm_overlap`: from the last layer down to layer 1, for every item of the layer (as long
as the layer was when its turn came) that is not a stub -/
def overlapStubs (w : Rat) : Nat → Store → List (List Nat) → Store × List (List Nat)
  | 0, s, layers => (s, layers)
  | i + 1, s, layers =>
    -- layer index i+1 (the loop runs i = len-1 … 1)
    let layer := layers.getD (i + 1) []
    let r := layer.foldl (fun (acc : Store × List (List Nat)) node =>
      if isStub acc.1 node then acc else stubChain w (i + 1) acc.1 acc.2 node) (s, layers)
    overlapStubs w i r.1 r.2

/-- the loop of `algorithm_simple` -/
def simpleLoop (w : Rat) (nl : Nat) (nodes : List Nat) (s : Store) : Store × List (List Nat) :=
  nodes.zipIdx.foldl (fun (acc : Store × List (List Nat)) (p : Nat × Nat) =>
    let md := p.2 % nl
    let layers := acc.2.modify md (· ++ [p.1])
    stubChain w md acc.1 layers p.1) (s, List.replicate nl [])

def labelsOf (s : Store) (nodes : List Nat) : List Label := nodes.map (fun i => { ideal := (get s i).ideal, width := (get s i).width })

/-- `Distributor.distribute(nodes)`: the layers (lists of node ids) and whether the single layer returned IS the caller's list object
(algorithm `none`) -/
def distributeT (o : DOpts) (s : Store) (nodes : List Nat) : Store × List (List Nat) × Bool :=
  if nodes.isEmpty then (s, [], false) else
  match o.algorithm with
  | .none => (s, [nodes], true)
  | alg =>
    let labels := labelsOf s nodes
    let order := sortIds labels                       -- indices into `nodes`, sorted by data position (stable)
    let sorted := order.map (fun k => nodes.getD k 0)
    let nl := estimateLayers o (order.map (widthOf labels))
    if nl ≤ 1 then (s, [sorted], false) else
    match alg with
    | .simple =>
      let r := simpleLoop o.stubWidth nl.toNat sorted s
      (r.1, r.2, false)
    | _ =>
      let labLayers := (overlapLayers labels o (maxWidthPerLayer o) (order.length + 1) order).map
        (fun l => l.map (fun k => nodes.getD k 0))
      let r := overlapStubs o.stubWidth (labLayers.length - 1) s labLayers
      (r.1, r.2, false)

/-- `removeOverlap(nodes, options)`: returns the store and the list as it is after the in-place sort -/
def removeOverlapT (o : ROpts) (s : Store) (layer : List Nat) : Store × List Nat :=
  if layer.isEmpty then (s, layer) else
  let items : List LItem := layer.map (fun i =>
    { target := (match (get s i).parent with
        | some p => (get s p).cur
        | none => (get s i).ideal),
      width := (get s i).width, stub := isStub s i })
  let out := removeOverlap o items
  let sorted := out.order.map (fun k => layer.getD k 0)
  let s := (sorted.zip out.pos).foldl (fun s (p : Nat × Int) => set s p.1 { get s p.1 with cur := (p.2 : Rat) }) s
  (s, sorted)

structure Engine where
  opts : FOpts
  nodes : List Nat                        -- `_nodes`
  layers : Option (List (List Nat))       -- `getLayers()`
deriving Repr

/-- `Force.compute()` -/
def computeT (e : Engine) (s : Store) : Engine × Store :=
  let s := e.nodes.foldl removeStub s
  let d := distributeT e.opts.toD s e.nodes
  let r := d.2.1.zipIdx.foldl (fun (acc : Store × List (List Nat)) (p : List Nat × Nat) =>
    let s := p.1.foldl (fun s i => set s i { get s i with layerIndex := p.2 }) acc.1
    let ro := removeOverlapT e.opts.toR s p.1
    (ro.1, acc.2 ++ [ro.2])) (d.1, [])
  -- algorithm `none`: the layer IS `_nodes`, sorted in place
  let nodes' := if d.2.2 then r.2.headD e.nodes else e.nodes
  ({ e with nodes := nodes', layers := some r.2 }, r.1)

/-- what an observer sees of an item after a layout -/
structure ObsT where
  ideal : Rat
  width : Rat
  stub : Bool
  level : Nat          -- layer the item is in
  layerIndex : Nat     -- layer the item reports
  pos : Rat
  data : Nat
deriving Repr, BEq

def observe (s : Store) (layers : List (List Nat)) : List (List ObsT) :=
  layers.zipIdx.map (fun p => p.1.map (fun i =>
    { ideal := (get s i).ideal, width := (get s i).width, stub := isStub s i, level := p.2, layerIndex := (get s i).layerIndex,
      pos := (get s i).cur, data := (get s i).data }))

/-- the same observation of the pure layout `Layout.compute o labels`, with `data` = the data of the node the label came from -/
def observePure (o : FOpts) (labels : List Label) (datas : List Nat) (layers : List (List Placed)) : List (List ObsT) :=
  layers.zipIdx.map (fun p => p.1.map (fun pl =>
    { ideal := idealOf labels pl.ref.id, width := if pl.ref.isStub then o.stubWidth else widthOf labels pl.ref.id,
      stub := pl.ref.isStub, level := p.2, layerIndex := p.2, pos := (pl.pos : Rat), data := datas.getD pl.ref.id 0 }))

/-! ### histories over several engines sharing node objects -/

inductive Op where
  | newEngine (o : FOpts)                 -- `Force(options)`; becomes the current engine, has no nodes yet
  | setOptions (o : FOpts)                -- `set_options(...)`: the accumulated options afterwards
  | freshNodes (ls : List Label)          -- `nodes([Node(...), …])`
  | sameNodes                             -- `nodes(x)` with the node objects of the last `freshNodes` (whatever state they are in)
  | compute

structure World where
  store : Store
  engine : Engine
  last : List Nat                          -- the node objects of the last `freshNodes`
  outs : List (List (List ObsT))           -- observation after every compute

def World.init : World := { store := #[], engine := { opts := FOpts.default, nodes := [], layers := none }, last := [], outs := [] }

def World.step (w : World) : Op → World
  | .newEngine o => { w with engine := { opts := o, nodes := [], layers := none } }
  | .setOptions o => { w with engine := { w.engine with opts := o } }
  | .freshNodes ls =>
    if ls.isEmpty then w else
    let r := ls.foldl (fun (acc : Store × List Nat) l =>
      let m := mkNode acc.1 l.ideal l.width acc.1.size
      (m.1, acc.2 ++ [m.2])) (w.store, [])
    { w with store := r.1, last := r.2, engine := { w.engine with nodes := r.2, layers := none } }
  | .sameNodes => if w.last.isEmpty then w else { w with engine := { w.engine with nodes := w.last, layers := none } }
  | .compute =>
    let r := computeT w.engine w.store
    -- payloads are reported as the index of the label in the batch it was created in
    let obs := (observe r.2 (r.1.layers.getD [])).map (fun l => l.map (fun x => { x with data := w.last.idxOf x.data }))
    { w with engine := r.1, store := r.2, outs := w.outs ++ [obs] }

def World.run (ops : List Op) : World := ops.foldl World.step World.init

/-! ### several engines alive at the same time, sharing the caller's list objects and node objects

`Force.nodes(x)` stores the caller's list OBJECT (`self._nodes = x`); `removeOverlap` sorts the list it is given in place, and for
algorithm `none` that list is `_nodes` itself — so a layout by one engine can reorder the list another engine holds.  The node objects
in the lists are shared as well (their `currentPos`, `layerIndex`, `parent` links are overwritten by whichever engine ran last).
`MWorld` keeps the list objects in `lists` (engines refer to them by index), so this aliasing is part of the model. -/

structure MEngine where
  opts : FOpts
  ref : Option Nat                        -- which list object `_nodes` is (`none`: the engine's own initial `[]`)
  layers : Option (List (List Nat))
deriving Repr

inductive MOp where
  | newEngine (o : FOpts)                 -- `Force(options)`: one more engine, which becomes the current one
  | switch (k : Nat)                      -- the following operations address engine k
  | setOptions (o : FOpts)                -- `set_options(...)` on the current engine: its accumulated options afterwards
  | freshNodes (ls : List Label)          -- `x = [Node(...), …]; current.nodes(x)`: a new list object of new node objects
  | useList (b : Nat)                     -- `current.nodes(x_b)`: the b-th list object, in whatever order and state it is now
  | compute                               -- `current.compute()`
  | setWidths (b : Nat) (ws : List Rat)   -- the caller assigns `node.width = w` to the node objects of the b-th list (in creation order)

structure MWorld where
  store : Store
  lists : List (List Nat)                  -- the list objects, as they are now
  created : List (List Nat)                -- … and as they were created (payloads are reported as positions in here)
  engines : List MEngine
  cur : Nat
  outs : List (Nat × List (List ObsT))     -- (engine, observation) after every compute

def MWorld.init : MWorld := { store := #[], lists := [], created := [], engines := [], cur := 0, outs := [] }

/-- the engine as `computeT` sees it: `_nodes` is the current content of the list object it refers to -/
def MWorld.engineAt (w : MWorld) (k : Nat) : Engine :=
  match w.engines[k]? with
  | some e => { opts := e.opts, nodes := (e.ref.bind (fun b => w.lists[b]?)).getD [], layers := e.layers }
  | none => { opts := FOpts.default, nodes := [], layers := none }

def MWorld.step (w : MWorld) : MOp → MWorld
  | .newEngine o => { w with engines := w.engines ++ [{ opts := o, ref := none, layers := none }], cur := w.engines.length }
  | .switch k => if k < w.engines.length then { w with cur := k } else w
  | .setOptions o => { w with engines := w.engines.modify w.cur (fun e => { e with opts := o }) }
  | .freshNodes ls =>
    if ls.isEmpty || w.engines.length ≤ w.cur then w else
    let r := ls.foldl (fun (acc : Store × List Nat) l =>
      let m := mkNode acc.1 l.ideal l.width acc.1.size
      (m.1, acc.2 ++ [m.2])) (w.store, [])
    { w with store := r.1, lists := w.lists ++ [r.2], created := w.created ++ [r.2],
             engines := w.engines.modify w.cur (fun e => { e with ref := some w.lists.length, layers := none }) }
  | .useList b =>
    if b < w.lists.length then
      { w with engines := w.engines.modify w.cur (fun e => { e with ref := some b, layers := none }) }
    else w
  | .compute =>
    match w.engines[w.cur]? with
    | none => w
    | some e =>
      let r := computeT (w.engineAt w.cur) w.store
      let lists := match e.ref with
        | some b => w.lists.modify b (fun _ => r.1.nodes)      -- algorithm `none` sorted the caller's list object in place
        | none => w.lists
      let batch := (e.ref.bind (fun b => w.created[b]?)).getD []
      let obs := (observe r.2 (r.1.layers.getD [])).map (fun l => l.map (fun x => { x with data := batch.idxOf x.data }))
      { w with store := r.2, lists := lists, engines := w.engines.modify w.cur (fun e => { e with layers := r.1.layers }),
               outs := w.outs ++ [(w.cur, obs)] }
  | .setWidths b ws =>
    match w.created[b]? with
    | some ids => { w with store := (ids.zip ws).foldl (fun s p => set s p.1 { get s p.1 with width := p.2 }) w.store }
    | none => w

def MWorld.run (ops : List MOp) : MWorld := ops.foldl MWorld.step MWorld.init

end Labella.EngineT
