import Labella.Model.Layout
/-! Property predicates for C01–C04 as executable `Bool` functions.  The theorems in `Props/` state them
of the model for all inputs; the driver evaluates the same functions on the implementation's output. -/
namespace Labella.Layout

/-- C01, adjacent form: along a layer (items with their positions, in list order) targets are
nondecreasing and neighbouring centres are at least `gap − tol` apart -/
def sepAdjB (o : ROpts) (tol : Rat) : List (LItem × Rat) → Bool
  | a :: b :: rest =>
    decide (a.1.target ≤ b.1.target) && decide (gap o a.1 b.1 - tol ≤ b.2 - a.2) && sepAdjB o tol (b :: rest)
  | _ => true

def pairOKB (o : ROpts) (tol : Rat) (a b : LItem × Rat) : Bool :=
  decide (a.1.target ≤ b.1.target) && decide (gap o a.1 b.1 - tol ≤ b.2 - a.2)

/-- C01, literal "any two items" form -/
def sepAllB (o : ROpts) (tol : Rat) : List (LItem × Rat) → Bool
  | [] => true
  | a :: rest => rest.all (pairOKB o tol a) && sepAllB o tol rest

/-- the shape of known finding F2: two stubs, not neighbours, at least one label between them, and the
labels between them together with their spacing are narrower than the line spacing -/
def f2Shape (o : ROpts) : List (LItem × Rat) → Bool
  | [] => false
  | a :: rest =>
    (a.1.stub && (List.range rest.length).any (fun j =>
      match rest[j]? with
      | some b =>
        let mid := rest.take j
        b.1.stub && mid.any (fun m => !m.1.stub) &&
          decide ((gaps o ((a :: mid ++ [b]).map (·.1))).sum < gap o a.1 b.1)
      | none => false)) || f2Shape o rest

/-- total length the items need: widths plus spacing between neighbours -/
def neededWidth (o : ROpts) (its : List LItem) : Rat :=
  (gaps o its).sum + (its.head?.map (·.width / 2)).getD 0 + (its.getLast?.map (·.width / 2)).getD 0

def fitsB (o : ROpts) (its : List LItem) : Bool :=
  match o.minPos, o.maxPos with
  | some a, some b => decide (neededWidth o its ≤ b - a)
  | _, _ => true

/-- C03: every item lies inside the configured bounds up to `tol` -/
def insideB (o : ROpts) (tol : Rat) (l : List (LItem × Rat)) : Bool :=
  l.all (fun p =>
    (match o.minPos with
     | some a => decide (a - tol ≤ p.2 - p.1.width / 2)
     | none => true) &&
    (match o.maxPos with
     | some b => decide (p.2 + p.1.width / 2 ≤ b + tol)
     | none => true))

/-- The stiffness the property text presupposes for the bounds ("stay inside the bounds when the items fit … to within
0.5 rounding"): a wall at least 10¹⁰ times stiffer than a label moves by at most total displacement / 10¹⁰.  The
predicates below use this fixed reference, NOT the constant extracted from the source, so that a softened wall in the
code shows up as a failing input (and `C03.wall_weight_large` re-opens as a proof obligation). -/
def refWallWeight : Rat := 10000000000

/-- the chain variables with reference-stiff walls -/
def refChainVars (o : ROpts) (its : List LItem) : List Chain.Item :=
  (match o.minPos with | some m => [({ w := refWallWeight, t := m } : Chain.Item)] | none => []) ++ its.map toVar ++
  (match o.maxPos with | some m => [({ w := refWallWeight, t := m } : Chain.Item)] | none => [])

/-- the least-squares optimum with reference-stiff walls (`its` sorted) -/
def refSolveSorted (o : ROpts) (its : List LItem) : List Rat :=
  ((Chain.solve eps (refChainVars o its) (chainGaps o its)).drop (leftWall o).length).take its.length

/-- total displacement of a placement from its targets -/
def displacement (l : List (LItem × Rat)) : Rat := (l.map (fun p => ratAbs (p.2 - p.1.target))).sum

/-! ### C04 structure of a distribution

An item as observed on the implementation (or produced by the model): which label it belongs to,
whether it is a stub, the layer number it reports, the data position / width it carries, and where its
`parent` (nearer the axis) and `child` (farther) links point (`(layer, index in layer)`). -/
structure Obs where
  owner : Nat
  stub : Bool
  layerIndex : Nat
  ideal : Rat
  width : Rat
  parent : Option (Nat × Nat)
  child : Option (Nat × Nat)
  sameData : Bool
deriving Repr

def obsAt (layers : List (List Obs)) (loc : Nat × Nat) : Option Obs :=
  (layers[loc.1]?).bind (fun l => l[loc.2]?)

/-- every input label occurs exactly once as a label -/
def conservesB (n : Nat) (layers : List (List Obs)) : Bool :=
  let labs := (layers.flatMap id).filter (fun x => !x.stub)
  labs.length == n && (List.range n).all (fun i => (labs.filter (fun x => x.owner == i)).length == 1)

/-- occupied layers are contiguous from the axis outward (the `simple` algorithm may leave empty layers at
the far end when there are fewer labels than estimated layers), every item reports the layer it is in -/
def contiguousB (layers : List (List Obs)) : Bool :=
  (layers.dropWhile (fun l => !l.isEmpty)).all (fun l => l.isEmpty) &&
  layers.zipIdx.all (fun p => p.1.all (fun x => x.layerIndex == p.2))

/-- the layer holding label `i` -/
def layerOf (layers : List (List Obs)) (i : Nat) : Option Nat :=
  (layers.zipIdx.find? (fun p => p.1.any (fun x => !x.stub && x.owner == i))).map (·.2)

/-- label in layer k owns exactly one stub in each nearer layer and none elsewhere -/
def stubCountB (n : Nat) (layers : List (List Obs)) : Bool :=
  (List.range n).all (fun i =>
    match layerOf layers i with
    | none => false
    | some k => layers.zipIdx.all (fun p =>
        (p.1.filter (fun x => x.stub && x.owner == i)).length == (if p.2 < k then 1 else 0)))

/-- links: an item in layer 0 has no parent; an item in layer k+1 has its parent in layer k, a stub of the
same label whose child link points back; a label has no child, a stub has one -/
def linksB (layers : List (List Obs)) : Bool :=
  layers.zipIdx.all (fun p => p.1.zipIdx.all (fun q =>
    let x := q.1
    (match x.parent with
     | none => p.2 == 0
     | some loc => p.2 > 0 && loc.1 + 1 == p.2 &&
        (match obsAt layers loc with
         | some y => y.stub && y.owner == x.owner && y.child == some (p.2, q.2)
         | none => false)) &&
    (match x.child with
     | none => !x.stub
     | some loc => x.stub && loc.1 == p.2 + 1 &&
        (match obsAt layers loc with
         | some y => y.owner == x.owner && y.parent == some (p.2, q.2)
         | none => false))))

/-- stubs carry the label's data position and payload and the configured stub width; labels their own -/
def fieldsB (labels : List Label) (stubWidth : Rat) (layers : List (List Obs)) : Bool :=
  (layers.flatMap id).all (fun x =>
    x.sameData && x.ideal == idealOf labels x.owner &&
      x.width == (if x.stub then stubWidth else widthOf labels x.owner))

/-- width a layer occupies: labels, stubs and spacing -/
def layerWidthUsed (ns : Rat) (l : List Obs) : Rat := requiredWidth ns (l.map (·.width))

/-- capacity (overlap algorithm): each layer stays within the budget unless it holds at most two labels -/
def capacityB (o : DOpts) (slack : Rat) (layers : List (List Obs)) : Bool :=
  layers.all (fun l =>
    decide (layerWidthUsed o.nodeSpacing l ≤ maxWidthPerLayer o + slack) ||
      decide ((l.filter (fun x => !x.stub)).length ≤ 2))

def structureB (labels : List Label) (stubWidth : Rat) (layers : List (List Obs)) : Bool :=
  conservesB labels.length layers && contiguousB layers && stubCountB labels.length layers &&
    linksB layers && fieldsB labels stubWidth layers

/-- the observation the model's own distribution corresponds to -/
def modelObs (labels : List Label) (stubWidth : Rat) (layers : List (List Ref)) : List (List Obs) :=
  let find (k : Nat) (i : Nat) : Option (Nat × Nat) :=
    (layers[k]?).bind (fun l => (l.findIdx? (fun r => r.id == i)).map (fun j => (k, j)))
  layers.zipIdx.map (fun p => p.1.map (fun r =>
    { owner := r.id, stub := r.isStub, layerIndex := p.2, ideal := idealOf labels r.id,
      width := if r.isStub then stubWidth else widthOf labels r.id,
      parent := if p.2 = 0 then none else find (p.2 - 1) r.id,
      child := if r.isStub then find (p.2 + 1) r.id else none,
      sameData := true }))

end Labella.Layout
