import Labella.Model.Chain
import Labella.Gen.Constants
/-! Model of `removeOverlap.removeOverlap`, `distributor.Distributor.distribute` and `force.Force.compute`. -/
namespace Labella.Layout
open Labella

/-- an item of one layer as handed to `removeOverlap` -/
structure LItem where
  target : Rat
  width : Rat
  stub : Bool
deriving Repr, BEq

structure ROpts where
  minPos : Option Rat
  maxPos : Option Rat
  nodeSpacing : Rat
  lineSpacing : Rat
deriving Repr

/-- the solver merges while `slack < ZERO_UPPERBOUND`, i.e. while `slack < -eps` -/
def eps : Rat := -Gen.zeroUpperBound

def spacing (o : ROpts) (a b : LItem) : Rat :=
  if a.stub && b.stub then o.lineSpacing else o.nodeSpacing

def gap (o : ROpts) (a b : LItem) : Rat :=
  (a.width + b.width) / Gen.halfDivisor + spacing o a b

def gaps (o : ROpts) : List LItem → List Rat
  | a :: b :: rest => gap o a b :: gaps o (b :: rest)
  | _ => []

/-- `nodes.sort(key=targetPos)` — stable -/
def sortItems (items : List (LItem × Nat)) : List (LItem × Nat) :=
  items.mergeSort (fun a b => decide (a.1.target ≤ b.1.target))

def toVar (i : LItem) : Chain.Item := { w := 1, t := i.target }

def leftWall (o : ROpts) : List Chain.Item :=
  match o.minPos with
  | some m => [{ w := Gen.wallWeight, t := m }]
  | none => []

def rightWall (o : ROpts) : List Chain.Item :=
  match o.maxPos with
  | some m => [{ w := Gen.wallWeight, t := m }]
  | none => []

def leftGap (o : ROpts) (its : List LItem) : List Rat :=
  match o.minPos, its.head? with
  | some _, some f => [f.width / Gen.halfDivisor]
  | _, _ => []

def rightGap (o : ROpts) (its : List LItem) : List Rat :=
  match o.maxPos, its.getLast? with
  | some _, some l => [l.width / Gen.halfDivisor]
  | _, _ => []

def chainVars (o : ROpts) (its : List LItem) : List Chain.Item :=
  leftWall o ++ its.map toVar ++ rightWall o

def chainGaps (o : ROpts) (its : List LItem) : List Rat :=
  leftGap o its ++ gaps o its ++ rightGap o its

/-- unrounded solver positions of the items (walls dropped), `its` already sorted -/
def solveSorted (o : ROpts) (its : List LItem) : List Rat :=
  ((Chain.solve eps (chainVars o its) (chainGaps o its)).drop (leftWall o).length).take its.length

structure ROut where
  order : List Nat   -- original indices, in the order the list has after the call
  xs : List Rat      -- unrounded positions in that order
  pos : List Int     -- `round(v.position())`
deriving Repr

def removeOverlap (o : ROpts) (items : List LItem) : ROut :=
  let sorted := sortItems items.zipIdx
  let its := sorted.map (·.1)
  let xs := if its.isEmpty then [] else solveSorted o its
  { order := sorted.map (·.2), xs := xs, pos := xs.map roundHalfEven }

/-! ### distributor -/

structure Label where
  ideal : Rat
  width : Rat
deriving Repr, BEq

inductive Alg where | overlap | simple | none
deriving Repr, BEq, DecidableEq

structure DOpts where
  algorithm : Alg
  layerWidth : Option Rat
  density : Rat
  nodeSpacing : Rat
  stubWidth : Rat
deriving Repr

inductive Ref where
  | label (i : Nat)
  | stub (i : Nat) (level : Nat)
deriving Repr, BEq, DecidableEq

def Ref.id : Ref → Nat
  | .label i => i
  | .stub i _ => i

def Ref.isStub : Ref → Bool
  | .label _ => false
  | .stub _ _ => true

/-- `computeRequiredWidth` of the labels with the given widths -/
def requiredWidth (ns : Rat) (ws : List Rat) : Rat :=
  ws.sum + ns * (ws.length : Rat) - ns

def maxWidthPerLayer (o : DOpts) : Rat := o.density * (o.layerWidth.getD 0)

/-- `estimateRequiredLayers` (a falsy layer width — `None` or 0 — means one layer) -/
def estimateLayers (o : DOpts) (ws : List Rat) : Int :=
  match o.layerWidth with
  | none => 1
  | some w => if w = 0 then 1 else (requiredWidth o.nodeSpacing ws / maxWidthPerLayer o).ceil

def widthOf (labels : List Label) (i : Nat) : Rat := (labels[i]?.map (·.width)).getD 0
def idealOf (labels : List Label) (i : Nat) : Rat := (labels[i]?.map (·.ideal)).getD 0

/-- `sorted(nodes, key=idealPos)` on label indices — stable -/
def sortIds (labels : List Label) : List Nat :=
  ((labels.zipIdx).mergeSort (fun a b => decide (a.1.ideal ≤ b.1.ideal))).map (·.2)

/-- half-open interval intersection of the ideal extents (`IntervalTree.overlap`); a label of width 0 occupies the EMPTY interval: it is not
entered into the tree and overlaps nothing -/
def overlaps (labels : List Label) (i j : Nat) : Bool :=
  let li := idealOf labels i - widthOf labels i / 2
  let ri := idealOf labels i + widthOf labels i / 2
  let lj := idealOf labels j - widthOf labels j / 2
  let rj := idealOf labels j + widthOf labels j / 2
  decide (li < ri) && decide (lj < rj) && decide (lj < ri) && decide (li < rj)

/-- the inner loop of `algorithm_overlap`: `cur` carries (label id, overlap count) -/
def punt (labels : List Label) (o : DOpts) (maxW : Rat) :
    Nat → List (Nat × Int) → Rat → List Nat → List (Nat × Int) × List Nat
  | 0, cur, _, punted => (cur, punted)
  | fuel+1, cur, cw, punted =>
    if decide (Gen.overlapMinLabels < (cur.length : Rat)) && decide (maxW < cw) then
      match cur.mergeSort (fun a b => decide (b.2 ≤ a.2)) with
      | [] => (cur, punted)
      | h :: rest =>
        let rest' := rest.map (fun p => if overlaps labels h.1 p.1 then (p.1, p.2 - 1) else p)
        punt labels o maxW fuel rest' (cw - widthOf labels h.1 + o.stubWidth) (punted ++ [h.1])
    else (cur, punted)

/-- the outer loop of `algorithm_overlap`: returns the label layers -/
def overlapLayers (labels : List Label) (o : DOpts) (maxW : Rat) :
    Nat → List Nat → List (List Nat)
  | 0, punted => if punted.isEmpty then [] else [punted]
  | fuel+1, punted =>
    let pw := requiredWidth o.nodeSpacing (punted.map (widthOf labels))
    if maxW < pw then
      let counted := punted.map (fun i => (i, ((punted.filter (overlaps labels i)).length : Int)))
      let r := punt labels o maxW punted.length counted pw []
      (r.1.map (·.1)) :: overlapLayers labels o maxW fuel r.2
    else if punted.isEmpty then [] else [punted]

/-- stubs appended to layer `j`: for label layers from the last one down to `j+1`, in layer order -/
def stubsFor (labLayers : List (List Nat)) (j : Nat) : List Ref :=
  ((labLayers.drop (j+1)).reverse.flatMap id).map (fun i => Ref.stub i j)

def withStubs (labLayers : List (List Nat)) : List (List Ref) :=
  labLayers.zipIdx.map (fun p => p.1.map Ref.label ++ stubsFor labLayers p.2)

def simpleLayers (ids : List Nat) (nl : Nat) : List (List Ref) :=
  (List.range nl).map (fun j =>
    ids.zipIdx.filterMap (fun p =>
      if p.2 % nl = j then some (Ref.label p.1)
      else if j < p.2 % nl then some (Ref.stub p.1 j) else none))

def distribute (o : DOpts) (labels : List Label) : List (List Ref) :=
  if labels.isEmpty then [] else
  match o.algorithm with
  | .none => [(List.range labels.length).map Ref.label]
  | alg =>
    let ids := sortIds labels
    let nl := estimateLayers o (ids.map (widthOf labels))
    if nl ≤ 1 then [ids.map Ref.label] else
    match alg with
    | .simple => simpleLayers ids nl.toNat
    | _ => withStubs (overlapLayers labels o (maxWidthPerLayer o) (ids.length + 1) ids)

/-! ### engine -/

structure FOpts where
  nodeSpacing : Rat
  lineSpacing : Rat
  minPos : Option Rat
  maxPos : Option Rat
  algorithm : Alg
  density : Rat
  stubWidth : Rat
deriving Repr

def FOpts.default : FOpts :=
  { nodeSpacing := Gen.force_nodeSpacing, lineSpacing := Gen.ro_lineSpacing,
    minPos := Gen.force_minPos, maxPos := Gen.force_maxPos, algorithm := .overlap,
    density := Gen.force_density, stubWidth := Gen.force_stubWidth }

def FOpts.toD (o : FOpts) : DOpts :=
  { algorithm := o.algorithm,
    layerWidth := match o.minPos, o.maxPos with
      | some a, some b => some (b - a)
      | _, _ => none,
    density := o.density, nodeSpacing := o.nodeSpacing, stubWidth := o.stubWidth }

def FOpts.toR (o : FOpts) : ROpts :=
  { minPos := o.minPos, maxPos := o.maxPos, nodeSpacing := o.nodeSpacing, lineSpacing := o.lineSpacing }

structure Placed where
  ref : Ref
  pos : Int
deriving Repr, BEq

def layerItem (o : FOpts) (labels : List Label) (prev : Option (List Placed)) (r : Ref) : LItem :=
  { target := match prev with
      | none => idealOf labels r.id
      | some ps => ((ps.find? (fun p => p.ref.id == r.id)).map (fun p => (p.pos : Rat))).getD 0,
    width := if r.isStub then o.stubWidth else widthOf labels r.id,
    stub := r.isStub }

def placeLayer (o : FOpts) (labels : List Label) (prev : Option (List Placed)) (layer : List Ref) : List Placed :=
  let out := removeOverlap o.toR (layer.map (layerItem o labels prev))
  List.zipWith (fun idx p => { ref := layer.getD idx (Ref.label 0), pos := p }) out.order out.pos

def placeLayers (o : FOpts) (labels : List Label) : Option (List Placed) → List (List Ref) → List (List Placed)
  | _, [] => []
  | prev, l :: ls =>
    let placed := placeLayer o labels prev l
    placed :: placeLayers o labels (some placed) ls

/-- `Force.compute` followed by reading every layer back: layers from the axis outward, each in the
order `removeOverlap` leaves the list in -/
def compute (o : FOpts) (labels : List Label) : List (List Placed) :=
  placeLayers o labels none (distribute o.toD labels)

end Labella.Layout

namespace Labella.Layout

/-! ### the engine as a state machine (C06) -/

structure Engine where
  opts : FOpts
  labels : List Label
  /-- what `getLayers()` reports: `none` until a layout has been computed for the current labels -/
  layers : Option (List (List Placed))

inductive EOp where
  | setOptions (upd : FOpts → FOpts)   -- `set_options(x)`: update some keys
  | setNodes (ls : List Label)         -- `nodes(x)`; `nodes([])` is the getter and changes nothing
  | compute

def Engine.step (e : Engine) : EOp → Engine
  | .setOptions upd => { e with opts := upd e.opts }
  | .setNodes ls => if ls.isEmpty then e else { e with labels := ls, layers := none }
  | .compute => { e with layers := some (compute e.opts e.labels) }

def Engine.run (e : Engine) (ops : List EOp) : Engine := ops.foldl Engine.step e

/-- label ids that occur as labels, layer by layer -/
def labelIds (layers : List (List Ref)) : List Nat :=
  layers.flatten.filterMap (fun r => match r with | .label i => some i | .stub _ _ => none)

/-- (label id, level) of the stubs of one layer -/
def stubsOf (layer : List Ref) : List (Nat × Nat) :=
  layer.filterMap (fun r => match r with | .stub i lv => some (i, lv) | .label _ => none)

def refWidth (labels : List Label) (stubWidth : Rat) (r : Ref) : Rat :=
  if r.isStub then stubWidth else widthOf labels r.id

end Labella.Layout
