import Labella.Gen.Constants
/-! Model of `utils.int2name`, `utils.hex2rgb / hex2rgbstr / hex2html` and `tex.uni2tex`.
Strings are lists of code points (`Nat`) / `Char`s. -/
namespace Labella.Text

/-! ### int2name (Excel-style column names) -/

/-- the `while div > 0` loop; `fuel` bounds the number of iterations (`div` strictly decreases) -/
def nameLoop : Nat → Nat → List Nat → List Nat
  | 0, _, acc => acc
  | fuel+1, div, acc =>
    if div = 0 then acc else
      let m := (div - 1) % Gen.nameBase
      nameLoop fuel ((div - m) / Gen.nameBase) ((Gen.nameFirstChar + m) :: acc)

/-- code points of `int2name(i)` -/
def int2name (i : Nat) : List Nat := nameLoop (i + 1) (i + 1) []

/-- read a name back as its index: bijective base-26 value minus one -/
def nameValue : List Nat → Nat
  | [] => 0
  | l => l.foldl (fun acc c => acc * Gen.nameBase + (c - Gen.nameFirstChar + 1)) 0

def name2int (l : List Nat) : Nat := nameValue l - 1

def isUpperAZ (c : Nat) : Bool := decide (Gen.nameFirstChar ≤ c) && decide (c < Gen.nameFirstChar + Gen.nameBase)

/-- length-then-alphabetical order on code point lists -/
def shortlexLt (a b : List Nat) : Bool :=
  decide (a.length < b.length) || (a.length == b.length && decide (a < b))

/-! ### hex colours -/

def hexVal (c : Char) : Option Nat :=
  if '0' ≤ c ∧ c ≤ '9' then some (c.toNat - '0'.toNat)
  else if 'a' ≤ c ∧ c ≤ 'f' then some (c.toNat - 'a'.toNat + 10)
  else if 'A' ≤ c ∧ c ≤ 'F' then some (c.toNat - 'A'.toNat + 10)
  else none

def stripHash (s : List Char) : List Char :=
  match s with
  | '#' :: rest => rest
  | _ => s

/-- `int(a + b, 16)` for two hex digit characters -/
def hexPair (a b : Char) : Option Nat := do
  let x ← hexVal a
  let y ← hexVal b
  some (16 * x + y)

/-- `hex2rgb` -/
def hex2rgb (code : List Char) : Option (Nat × Nat × Nat) :=
  match stripHash code with
  | [a, b, c] => do some (← hexPair a a, ← hexPair b b, ← hexPair c c)
  | [a, b, c, d, e, f] => do some (← hexPair a b, ← hexPair c d, ← hexPair e f)
  | _ => none

def natDigits (n : Nat) : List Char := (toString n).toList

/-- `hex2rgbstr`: "rgb(r, g, b)" -/
def hex2rgbstr (code : List Char) : Option (List Char) :=
  (hex2rgb code).map (fun t => "rgb(".toList ++ natDigits t.1 ++ ", ".toList ++ natDigits t.2.1 ++ ", ".toList ++ natDigits t.2.2 ++ ")".toList)

def upperHex (c : Char) : Char := if 'a' ≤ c ∧ c ≤ 'z' then Char.ofNat (c.toNat - 32) else c

/-- `hex2html`: 6 upper-case hex digits -/
def hex2html (code : List Char) : List Char :=
  match stripHash code with
  | [a, b, c] => [a, a, b, b, c, c].map upperHex
  | l => l.map upperHex

/-! ### uni2tex -/

/-- the Unicode database as far as `uni2tex` consults it -/
structure UDB where
  isMark : Nat → Bool                    -- category Mn or Mc
  decomp : Nat → Option (Nat × Nat)      -- canonical decomposition with exactly two elements (base, second)

inductive Tok where
  | plain (c : Nat)
  | accent (mark : Nat) (inner : Tok)
deriving Repr, BEq

def accentCmd (mark : Nat) : Option String := (Gen.texAccents.find? (fun p => p.1 == mark)).map (·.2)

def isAccent (mark : Nat) : Bool := (accentCmd mark).isSome

/-- one step of the loop; `out` is kept reversed (last piece first) -/
def step (db : UDB) (out : List Tok) (c : Nat) : List Tok :=
  if db.isMark c && isAccent c then
    match out with
    | last :: rest => Tok.accent c last :: rest
    | [] => [Tok.plain c]
  else
    match db.decomp c with
    | some (base, acc) => if isAccent acc then Tok.accent acc (Tok.plain base) :: out else Tok.plain c :: out
    | none => Tok.plain c :: out

def uni2texToks (db : UDB) (s : List Nat) : List Tok := (s.foldl (step db) []).reverse

/-- the text of a piece: `\a{inner}` -/
def render : Tok → List Nat
  | .plain c => [c]
  | .accent m t =>
    92 :: ((accentCmd m).getD "?").toList.map Char.toNat ++ 123 :: render t ++ [125]

def uni2tex (db : UDB) (s : List Nat) : List Nat := (uni2texToks db s).flatMap render

/-- reading an accent command back as base followed by the combining mark -/
def readBack : Tok → List Nat
  | .plain c => [c]
  | .accent m t => readBack t ++ [m]

/-- one-step canonical decomposition of exactly the characters `uni2tex` converts -/
def oneStep (db : UDB) (c : Nat) : List Nat :=
  if db.isMark c && isAccent c then [c] else
  match db.decomp c with
  | some (base, acc) => if isAccent acc then [base, acc] else [c]
  | none => [c]

/-- string-level read-back of rendered text: `\a{…}` with `a` an accent command becomes `… mark`.
Total (fuel = length); meaningful when the input had no literal backslash (see `Props/C19`). -/
def markOfCmd (c : Nat) : Option Nat :=
  (Gen.texAccents.find? (fun p => p.2.toList.map Char.toNat == [c])).map (·.1)

mutual
  /-- parse pieces until a closing brace at depth 0 (or end of input); returns (read-back text, rest) -/
  def parsePieces : Nat → List Nat → List Nat × List Nat
    | 0, l => ([], l)
    | _, [] => ([], [])
    | fuel+1, 125 :: rest => ([], 125 :: rest)
    | fuel+1, 92 :: a :: 123 :: rest =>
      match markOfCmd a with
      | some m =>
        let (inner, r1) := parsePieces fuel rest
        match r1 with
        | 125 :: r2 =>
          let (more, r3) := parsePieces fuel r2
          (inner ++ [m] ++ more, r3)
        | _ => let (more, r3) := parsePieces fuel (a :: 123 :: rest); (92 :: more, r3)
      | none => let (more, r3) := parsePieces fuel (a :: 123 :: rest); (92 :: more, r3)
    | fuel+1, c :: rest => let (more, r) := parsePieces fuel rest; (c :: more, r)
end

def parseBack (s : List Nat) : List Nat :=
  let (a, rest) := parsePieces (s.length + 1) s
  a ++ rest

end Labella.Text
