import Labella.Model.Num
/-! Model of `renderer.Renderer` (layer offsets, way-points, path steps) and of the geometry the two export
back-ends (`TimelineSVG`, `TimelineTex`) emit for one datum: box origin and size, link path, dot. -/
namespace Labella.Render
open Labella

inductive Dir where | up | down | left | right
deriving Repr, BEq, DecidableEq

def Dir.horizontalAxis : Dir → Bool      -- the time axis runs along x for up/down
  | .up => true | .down => true | _ => false

structure ROpt where
  dir : Dir
  nodeHeight : Rat
  layerGap : Rat
deriving Repr

/-- a label node after layout, as the emitters see it -/
structure RNode where
  layer : Nat        -- layerIndex
  cur : Rat          -- currentPos
  ideal : Rat        -- getRoot().idealPos  (= the datum's position on the axis)
  width : Rat        -- extent along the axis
  w : Rat            -- drawn box width  (x extent)
  h : Rat            -- drawn box height (y extent)
  hops : List Rat    -- currentPos of every node on the path from the root stub to the label itself
deriving Repr

abbrev Pt := Rat × Rat

def gapOf (o : ROpt) : Rat := o.layerGap + o.nodeHeight

/-- `Renderer.layout`: (x, y, dx, dy) -/
def layoutXY (o : ROpt) (n : RNode) : Rat × Rat × Rat × Rat :=
  let pos := (n.layer : Rat) * gapOf o + o.layerGap
  match o.dir with
  | .left => (-pos - o.nodeHeight, n.cur, o.nodeHeight, n.width)
  | .right => (pos, n.cur, o.nodeHeight, n.width)
  | .up => (n.cur, -pos - o.nodeHeight, n.width, o.nodeHeight)
  | .down => (n.cur, pos, n.width, o.nodeHeight)

/-- `Timeline.nodePos` -/
def nodePos (o : ROpt) (n : RNode) : Pt :=
  let l := layoutXY o n
  let x := l.1; let y := l.2.1; let dx := l.2.2.1; let dy := l.2.2.2
  match o.dir with
  | .right => (x, y - dy / 2)
  | .left => (x - n.w + dx, y - dy / 2)
  | .up => (x - dx / 2, y)
  | .down => (x - dx / 2, y)

/-- `"translate(%i, %i)"` / `shift={(%i, %i)}`: truncation towards zero -/
def boxOrigin (o : ROpt) (n : RNode) : Int × Int :=
  (truncToZero (nodePos o n).1, truncToZero (nodePos o n).2)

/-- `Renderer.getWayPoints`: the datum on the axis, then for each hop the near and far side of its layer -/
def wayPoints (o : ROpt) (n : RNode) : List (List Pt) :=
  let g := gapOf o
  let first : List Pt := match o.dir with
    | .left => [(0, n.ideal)] | .right => [(0, n.ideal)] | _ => [(n.ideal, 0)]
  first :: n.hops.zipIdx.map (fun p =>
    let level : Rat := (p.2 : Nat)
    match o.dir with
    | .left => let xPos := g * (level + 1) * (-1); [(xPos + o.nodeHeight, p.1), (xPos, p.1)]
    | .right => let xPos := g * (level + 1); [(xPos - o.nodeHeight, p.1), (xPos, p.1)]
    | .up => let yPos := g * (level + 1) * (-1); [(p.1, yPos + o.nodeHeight), (p.1, yPos)]
    | .down => let yPos := g * (level + 1); [(p.1, yPos - o.nodeHeight), (p.1, yPos)])

inductive Step where
  | M (p : Pt)
  | C (c1 c2 p : Pt)
  | L (p : Pt)
deriving Repr, BEq

def hCurve (p1 p2 : Pt) : Step := let mx := (p1.1 + p2.1) / 2; .C (mx, p1.2) (mx, p2.2) p2
def vCurve (p1 p2 : Pt) : Step := let my := (p1.2 + p2.2) / 2; .C (p1.1, my) (p2.1, my) p2

/-- the loop of `generatePath` over the way-points after the first: a curve from the previous way-point's last
point to this one's first point, then (except for the last way-point) a line across the layer -/
def pathLoop (horiz : Bool) (prev : Pt) : List (List Pt) → List Step
  | [] => []
  | cur :: rest =>
    match cur with
    | [] => []
    | a :: more =>
      let curve := if horiz then vCurve prev a else hCurve prev a
      let far := more.getLastD a
      if rest.isEmpty then [curve] else curve :: Step.L far :: pathLoop horiz far rest

/-- `Renderer.generatePath` -/
def pathSteps (o : ROpt) (n : RNode) : List Step :=
  match wayPoints o n with
  | [] => []
  | first :: rest =>
    match first with
    | [] => []
    | p0 :: _ => Step.M p0 :: pathLoop o.dir.horizontalAxis p0 rest

def Step.endPt : Step → Pt
  | .M p => p | .C _ _ p => p | .L p => p

/-! ### predicates on emitted geometry (C07, C08) -/

structure Box where
  ox : Rat
  oy : Rat
  w : Rat
  h : Rat
deriving Repr, BEq

/-- open rectangles intersect -/
def Box.intersects (a b : Box) : Bool :=
  decide (a.ox < b.ox + b.w) && decide (b.ox < a.ox + a.w) && decide (a.oy < b.oy + b.h) && decide (b.oy < a.oy + a.h)

def pairwiseDisjointB : List Box → Bool
  | [] => true
  | a :: rest => rest.all (fun b => !a.intersects b) && pairwiseDisjointB rest

/-- the box lies wholly on the side of the axis named by the direction, at least `d` away from it -/
def onSideB (dir : Dir) (d : Rat) (b : Box) : Bool :=
  match dir with
  | .right => decide (d ≤ b.ox)
  | .left => decide (b.ox + b.w ≤ -d)
  | .down => decide (d ≤ b.oy)
  | .up => decide (b.oy + b.h ≤ -d)

/-- distance interval of a box from the axis: (near edge, far edge), both ≥ 0 on the chosen side -/
def Box.span (dir : Dir) (b : Box) : Rat × Rat :=
  match dir with
  | .right => (b.ox, b.ox + b.w)
  | .left => (-(b.ox + b.w), -b.ox)
  | .down => (b.oy, b.oy + b.h)
  | .up => (-(b.oy + b.h), -b.oy)

/-- boxes of a farther layer lie wholly beyond the boxes of nearer layers -/
def nestedB (dir : Dir) (boxes : List (Nat × Box)) : Bool :=
  boxes.all (fun a => boxes.all (fun b => !(decide (a.1 < b.1)) || decide ((a.2.span dir).2 ≤ (b.2.span dir).1)))

/-- the midpoint of the axis-facing edge of a box -/
def Box.facingMid (dir : Dir) (b : Box) : Pt :=
  match dir with
  | .right => (b.ox, b.oy + b.h / 2)
  | .left => (b.ox + b.w, b.oy + b.h / 2)
  | .down => (b.ox + b.w / 2, b.oy)
  | .up => (b.ox + b.w / 2, b.oy + b.h)

def ptCloseB (tol : Rat) (a b : Pt) : Bool := decide (ratAbs (a.1 - b.1) ≤ tol) && decide (ratAbs (a.2 - b.2) ≤ tol)

/-- link of one datum: starts (within the print precision `tolStart`) at its dot on the axis, ends within `tol` of the middle of the axis-facing edge of its box -/
def linkEndsB (dir : Dir) (tolStart tol : Rat) (dot : Rat) (steps : List Step) (b : Box) : Bool :=
  match steps with
  | Step.M p :: rest =>
    ptCloseB tolStart p (if dir.horizontalAxis then (dot, 0) else (0, dot)) &&
      (match rest.getLast? with
       | some s => ptCloseB tol s.endPt (b.facingMid dir)
       | none => false)
  | _ => false

end Labella.Render

namespace Labella.Render

/-- the box a back-end draws for a node: truncated origin, the node's drawn size -/
def modelBox (o : ROpt) (n : RNode) : Box :=
  { ox := (boxOrigin o n).1, oy := (boxOrigin o n).2, w := n.w, h := n.h }

/-- `Timeline.get_nodes` + `Item`: drawn size of a label with explicit width `W` (its height is `H`), padding
`(pl, pr, pt, pb)`; for left/right the label is turned, a text label keeping its text horizontal -/
def labelSize (dir : Dir) (pl pr pt pb H W : Rat) (hasText : Bool) : Rat × Rat :=
  if dir.horizontalAxis then (W + pl + pr, H + pt + pb)
  else if hasText then (W + pt + pb, H + pl + pr)
  else (H + pt + pb, W + pl + pr)

/-- extent of a node along the axis as handed to the layout engine -/
def alongAxis (dir : Dir) (size : Rat × Rat) : Rat := if dir.horizontalAxis then size.1 else size.2

end Labella.Render
