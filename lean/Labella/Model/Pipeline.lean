import Labella.Model.Layout
import Labella.Model.Render
/-! # `Timeline.compute` + the emitters' box geometry, composed: from padded label sizes to drawn boxes

`Timeline.get_nodes` makes one `Node(timePos, width along the axis)` per datum with the drawn size `w × h` (padding included; for `left` / `right`
already turned); `Timeline.compute` takes `nodeHeight` = the largest thickness across the axis, runs `Force(labella options)` on the nodes and
`Renderer.layout` on the result; both emitters draw, for every label (not for stubs), the box `modelBox` at the truncated `nodePos`.
This file composes the models of those steps (`Layout.compute`, `Render.modelBox`), so that C07 / C08 can be stated of the whole pipeline. -/
namespace Labella.Pipeline
open Labella Labella.Layout Labella.Render

/-- a datum as `get_nodes` leaves it -/
structure PItem where
  ideal : Rat        -- position of its dot on the axis (scale(time))
  w : Rat            -- drawn box width (x extent), padding included
  h : Rat            -- drawn box height (y extent)
deriving Repr, Inhabited

/-- extent along the axis (`node.width`) -/
def along (dir : Dir) (it : PItem) : Rat := if dir.horizontalAxis then it.w else it.h
/-- extent across the axis -/
def thick (dir : Dir) (it : PItem) : Rat := if dir.horizontalAxis then it.h else it.w

/-- `max(n.h for n in nodes)` resp. `max(n.w …)` (sizes are non-negative) -/
def nodeHeight (dir : Dir) (items : List PItem) : Rat := (items.map (thick dir)).foldl max 0

def labelsOf (dir : Dir) (items : List PItem) : List Label := items.map (fun it => { ideal := it.ideal, width := along dir it })

def ropt (dir : Dir) (layerGap : Rat) (items : List PItem) : ROpt := { dir := dir, nodeHeight := nodeHeight dir items, layerGap := layerGap }

/-- the node of label `id`, found in layer `k` at position `pos`, as the emitters see it: its hops are the positions of its stand-ins in the
layers nearer the axis, then its own -/
def rnode (dir : Dir) (items : List PItem) (L : List (List Placed)) (k : Nat) (id : Nat) (pos : Int) : RNode :=
  let it := items.getD id default
  { layer := k, cur := (pos : Rat), ideal := it.ideal, width := along dir it, w := it.w, h := it.h,
    hops := (List.range (k + 1)).map (fun j => (((L.getD j []).find? (fun p => p.ref.id == id)).map (fun p => (p.pos : Rat))).getD 0) }

structure Drawn where
  layer : Nat
  idx : Nat          -- place in its layer (in the order `removeOverlap` leaves the layer in), stubs counted
  id : Nat           -- which datum
  node : RNode
  box : Box
deriving Repr

/-- everything the emitters draw a box for: the labels (not the stubs) of every layer -/
def drawn (dir : Dir) (layerGap : Rat) (fo : FOpts) (items : List PItem) : List Drawn :=
  let L := Layout.compute fo (labelsOf dir items)
  L.zipIdx.flatMap (fun lk => lk.1.zipIdx.filterMap (fun pi =>
    if pi.1.ref.isStub then none else
      let n := rnode dir items L lk.2 pi.1.ref.id pi.1.pos
      some { layer := lk.2, idx := pi.2, id := pi.1.ref.id, node := n, box := modelBox (ropt dir layerGap items) n }))

end Labella.Pipeline
