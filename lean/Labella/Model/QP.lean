import Labella.Model.Num
/-! The optimisation problem `vpsc.Solver` solves, and an executable optimality-certificate checker.

minimise  Σ wᵢ (xᵢ − dᵢ)²   subject to   s_r·x_r − s_l·x_l ≥ gap   for every constraint (l, r, gap)

`check` accepts a candidate `x` together with *any* list of multipliers (where they came from is not trusted): it
clips them at 0, re-solves stationarity to obtain the Lagrangian dual value, and accepts iff `x` is feasible up to
`tolFeas` and its cost exceeds the dual value by at most `tolGap`.  `Props/C05.lean` proves that acceptance implies
`cost x ≤ cost z + tolGap` for EVERY feasible `z`. -/
namespace Labella.QP
open Labella

structure Var where
  d : Rat   -- desired position
  w : Rat   -- weight
  s : Rat   -- scale
deriving Repr

structure Con where
  l : Nat
  r : Nat
  g : Rat
deriving Repr

structure Inst where
  vars : List Var
  cons : List Con
deriving Repr

def pos (x : List Rat) (i : Nat) : Rat := x.getD i 0

def scaleOf (I : Inst) (i : Nat) : Rat := ((I.vars[i]?).map (·.s)).getD 1

def slack (I : Inst) (x : List Rat) (c : Con) : Rat :=
  scaleOf I c.r * pos x c.r - c.g - scaleOf I c.l * pos x c.l

def cost (I : Inst) (x : List Rat) : Rat :=
  ((I.vars.zip x).map fun p => p.1.w * (p.2 - p.1.d) * (p.2 - p.1.d)).sum

def feasibleB (I : Inst) (tol : Rat) (x : List Rat) : Bool :=
  I.cons.all fun c => decide (-tol ≤ slack I x c)

/-- derivative of `Σ λ_c · slack_c` with respect to `xᵢ` -/
def net (I : Inst) (lam : List Rat) (i : Nat) : Rat :=
  ((I.cons.zip lam).map fun p =>
    p.2 * ((if p.1.r = i then scaleOf I i else 0) - (if p.1.l = i then scaleOf I i else 0))).sum

def clip (lam : List Rat) : List Rat := lam.map (ratMax 0)

/-- the unconstrained minimiser of the Lagrangian for multipliers `lam` -/
def dualPoint (I : Inst) (lam : List Rat) : List Rat :=
  I.vars.zipIdx.map fun p => p.1.d + net I lam p.2 / (2 * p.1.w)

/-- the Lagrangian dual value: a lower bound on the cost of every feasible point when `lam ≥ 0` -/
def dualValue (I : Inst) (lam : List Rat) : Rat :=
  let y := dualPoint I lam
  cost I y - ((I.cons.zip lam).map fun p => p.2 * slack I y p.1).sum

def gap (I : Inst) (x lam : List Rat) : Rat := cost I x - dualValue I (clip lam)

def wellFormedB (I : Inst) : Bool :=
  I.vars.all (fun v => decide (0 < v.w)) &&
  I.cons.all (fun c => decide (c.l < I.vars.length) && decide (c.r < I.vars.length))

def check (I : Inst) (x lam : List Rat) (tolFeas tolGap : Rat) : Bool :=
  wellFormedB I && x.length == I.vars.length && lam.length == I.cons.length &&
    feasibleB I tolFeas x && decide (gap I x lam ≤ tolGap)

end Labella.QP
