import Labella.Model.Num
import Labella.Gen.Constants
/-! # `labella/vpsc.py` — a statement-by-statement transliteration of the general VPSC solver

`Solver`, `Blocks`, `Block`, `Variable`, `Constraint`, `PositionStats` of the Python module, with the object graph
flattened into index-addressed stores (variables, constraints, blocks are numbered; a block "object" that has been
removed from `Blocks._list` simply stays in the store, exactly as a Python object that is no longer referenced
from the list).  Arithmetic is exact (`Rat`); the correspondence check runs the real code on `Fraction`s.

Faithful details (each one is observable in exact arithmetic and is compared by the correspondence check):
* `Variable.visitNeighbours` order: `cOut` (insertion order) then `cIn`;
* `Blocks.remove` swaps the last block into the hole and *rebinds* `_list` to a copy, so that the `for b in
  self._list` loop of `Blocks.split` keeps iterating over the list object it started with (`L0` below): the two
  blocks created by the first split of a pass are visited at the end of that pass, later ones are not;
* `Solver.mostViolated` overwrites the chosen entry of `inactive` by the last one but never shortens the list
  (`l = l[:-1]` rebinds a local name);
* `sys.maxsize` as the initial minimum slack and as the slack of a constraint flagged unsatisfiable.

Not modelled: `equality` constraints (labella never creates one; the harness never does either).
Every recursion / loop of unknown length takes a fuel argument; running out of fuel sets `err` (the theorems are
stated for runs with `err = false`; the Python counterpart of running out of fuel is a `RecursionError` or a
non-terminating loop, which the harness watches for separately). -/
namespace Labella.Vpsc
open Labella

/-- `sys.maxsize` on a 64-bit CPython -/
def maxsize : Rat := 9223372036854775807

structure V where
  d : Rat
  w : Rat
  s : Rat
  offset : Rat
  block : Nat
  cOut : List Nat
  cIn : List Nat
deriving Repr, Inhabited

structure C where
  l : Nat
  r : Nat
  g : Rat
  active : Bool
  unsat : Bool
  lm : Rat
deriving Repr, Inhabited

/-- a `Block` together with its `PositionStats` -/
structure B where
  vars : List Nat
  scale : Rat
  AB : Rat
  AD : Rat
  A2 : Rat
  posn : Rat
  ind : Nat
deriving Repr, Inhabited

structure St where
  vs : Array V
  cs : Array C
  bs : Array B          -- every block ever created, by id
  list : Array Nat      -- `Blocks._list` (block ids)
  inactive : Array Nat  -- `Solver.inactive` (constraint ids, may hold duplicates)
  err : Bool
deriving Repr, Inhabited

def getV (st : St) (i : Nat) : V := st.vs.getD i default
def getC (st : St) (i : Nat) : C := st.cs.getD i default
def getB (st : St) (i : Nat) : B := st.bs.getD i default
def setV (st : St) (i : Nat) (v : V) : St := { st with vs := st.vs.setIfInBounds i v }
def setC (st : St) (i : Nat) (c : C) : St := { st with cs := st.cs.setIfInBounds i c }
def setB (st : St) (i : Nat) (b : B) : St := { st with bs := st.bs.setIfInBounds i b }

/-- `Variable.position` -/
def position (st : St) (i : Nat) : Rat :=
  let v := getV st i
  let b := getB st v.block
  (b.scale * b.posn + v.offset) / v.s

/-- `Constraint.slack` -/
def slack (st : St) (ci : Nat) : Rat :=
  let c := getC st ci
  if c.unsat then maxsize
  else (getV st c.r).s * position st c.r - c.g - (getV st c.l).s * position st c.l

/-- `Variable.dfdv` -/
def dfdv (st : St) (i : Nat) : Rat :=
  let v := getV st i
  Gen.dfdvFactor * v.w * (position st i - v.d)

/-- the `(constraint, neighbour)` pairs `Variable.visitNeighbours` walks through, in its order -/
def neighbours (st : St) (i : Nat) : List (Nat × Nat) :=
  let v := getV st i
  v.cOut.map (fun c => (c, (getC st c).r)) ++ v.cIn.map (fun c => (c, (getC st c).l))

/-- `PositionStats.addVariable` followed by `getPosn`, without touching `vars` -/
def addStats (b : B) (v : V) : B :=
  let ai := b.scale / v.s
  let bi := v.offset / v.s
  let AB := b.AB + v.w * ai * bi
  let AD := b.AD + v.w * ai * v.d
  let A2 := b.A2 + v.w * ai * ai
  { b with AB := AB, AD := AD, A2 := A2 }

def getPosn (b : B) : Rat := (b.AD - b.AB) / b.A2

/-- `Block.addVariable` -/
def addVariable (st : St) (b : Nat) (i : Nat) : St :=
  let st := setV st i { getV st i with block := b }
  let blk := addStats (getB st b) (getV st i)
  setB st b { blk with vars := blk.vars ++ [i], posn := getPosn blk }

/-- `Block(v)`: a new block object holding just `v` (its id is returned) -/
def newBlock (st : St) (i : Nat) : St × Nat :=
  let id := st.bs.size
  let st := setV st i { getV st i with offset := 0 }
  let st := { st with bs := st.bs.push { vars := [], scale := (getV st i).s, AB := 0, AD := 0, A2 := 0, posn := 0, ind := 0 } }
  (addVariable st id i, id)

/-- `Block.updateWeightedPosition` -/
def updateWeightedPosition (st : St) (b : Nat) : St :=
  let blk := getB st b
  let blk0 := { blk with AB := 0, AD := 0, A2 := 0 }
  let blk1 := blk.vars.foldl (fun acc i => addStats acc (getV st i)) blk0
  setB st b { blk1 with posn := getPosn blk1 }

/-- `Block.compute_lm(v, u, postAction)`; `track = true` is `findMinLM`'s post-action (keep the constraint with the
smallest multiplier seen so far in `m`), `track = false` the empty one -/
def computeLm : Nat → St → Bool → Option Nat → Nat → Option Nat → St × Option Nat × Rat
  | 0, st, _, m, _, _ => ({ st with err := true }, m, 0)
  | fuel + 1, st, track, m, v, u =>
    let r := (neighbours st v).foldl (fun (acc : St × Option Nat × Rat) (p : Nat × Nat) =>
      let st := acc.1
      if (getC st p.1).active && u != some p.2 then
        let sub := computeLm fuel st track acc.2.1 p.2 (some v)
        let st := sub.1
        let d := sub.2.2
        let cc := getC st p.1
        let lm := if p.2 == cc.r then d else -d
        let dv := if p.2 == cc.r then acc.2.2 + d * (getV st cc.l).s else acc.2.2 + d * (getV st cc.r).s
        let st := setC st p.1 { cc with lm := lm }
        let m := if track then
            (match sub.2.1 with
             | none => some p.1
             | some mi => if lm < (getC st mi).lm then some p.1 else some mi)
          else sub.2.1
        (st, m, dv)
      else acc) (st, m, dfdv st v)
    (r.1, r.2.1, r.2.2 / (getV r.1 v).s)

/-- `Block.populateSplitBlock(v, prev)` for the block with id `b` -/
def populateSplitBlock : Nat → St → Nat → Nat → Option Nat → St
  | 0, st, _, _, _ => { st with err := true }
  | fuel + 1, st, b, v, prev =>
    (neighbours st v).foldl (fun st (p : Nat × Nat) =>
      if (getC st p.1).active && prev != some p.2 then
        let cc := getC st p.1
        let off := if p.2 == cc.r then (getV st v).offset + cc.g else (getV st v).offset - cc.g
        let st := setV st p.2 { getV st p.2 with offset := off }
        let st := addVariable st b p.2
        populateSplitBlock fuel st b p.2 (some v)
      else st) st

/-- `Block.findPath(v, prev, to, visit)` with `findMinLMBetween`'s visitor: returns (endFound, m) -/
def findPath : Nat → St → Option Nat → Nat → Option Nat → Nat → Option (Bool × Option Nat)
  | 0, _, _, _, _, _ => none
  | fuel + 1, st, m, v, prev, to =>
    (neighbours st v).foldl (fun (acc : Option (Bool × Option Nat)) (p : Nat × Nat) =>
      match acc with
      | none => none
      | some (found, m) =>
        if (getC st p.1).active && prev != some p.2 then
          if found then some (found, m)
          else
            let sub : Option (Bool × Option Nat) :=
              if p.2 == to then some (true, m) else findPath fuel st m p.2 (some v) to
            match sub with
            | none => none
            | some (false, m') => some (false, m')
            | some (true, m') =>
              let cc := getC st p.1
              let m'' := if cc.r == p.2 then
                  (match m' with
                   | none => some p.1
                   | some mi => if cc.lm < (getC st mi).lm then some p.1 else some mi)
                else m'
              some (true, m'')
        else some (found, m)) (some (false, m))

/-- `Block.isActiveDirectedPathBetween(u, v)` (`none` = out of fuel) -/
def isActiveDirectedPathBetween : Nat → St → Nat → Nat → Option Bool
  | 0, _, _, _ => none
  | fuel + 1, st, u, v =>
    if u == v then some true
    else (getV st u).cOut.reverse.foldl (fun (acc : Option Bool) c =>
      match acc with
      | none => none
      | some true => some true
      | some false =>
        if (getC st c).active then isActiveDirectedPathBetween fuel st (getC st c).r v else some false) (some false)

def travFuel (st : St) : Nat := st.vs.size + 2

/-- `Block.findMinLM` of block `b` -/
def findMinLM (st : St) (b : Nat) : St × Option Nat :=
  match (getB st b).vars with
  | [] => ({ st with err := true }, none)
  | v0 :: _ =>
    let r := computeLm (travFuel st) st true none v0 none
    (r.1, r.2.1)

/-- `Block.createSplitBlock(startVar)` -/
def createSplitBlock (st : St) (start : Nat) : St × Nat :=
  let r := newBlock st start
  (populateSplitBlock (travFuel st) r.1 r.2 start none, r.2)

/-- `Block.split(c)`: returns the ids of the two new blocks -/
def blockSplit (st : St) (ci : Nat) : St × Nat × Nat :=
  let st := setC st ci { getC st ci with active := false }
  let c := getC st ci
  let r1 := createSplitBlock st c.l
  let r2 := createSplitBlock r1.1 c.r
  (r2.1, r1.2, r2.2)

/-- `Block.mergeAcross(b, c, dist)` on the block with id `self` -/
def mergeAcross (st : St) (self b : Nat) (ci : Nat) (dist : Rat) : St :=
  let st := setC st ci { getC st ci with active := true }
  let st := (getB st b).vars.foldl (fun st i =>
    let st := setV st i { getV st i with offset := (getV st i).offset + dist }
    addVariable st self i) st
  setB st self { getB st self with posn := getPosn (getB st self) }

/-- `Blocks.insert(b)` -/
def insertBlock (st : St) (b : Nat) : St :=
  let st := setB st b { getB st b with ind := st.list.size }
  { st with list := st.list.push b }

/-- the in-place part of `Blocks.remove(b)`: the last block is written into `b`'s slot -/
def removeSet (st : St) (b : Nat) : St :=
  let swap := st.list.getD (st.list.size - 1) 0
  if b != swap then
    let bi := (getB st b).ind
    let st := { st with list := st.list.setIfInBounds bi swap }
    setB st swap { getB st swap with ind := bi }
  else st

/-- `Blocks.remove(b)` (`self._list = self._list[:-1]` binds a *new* list) -/
def removeBlock (st : St) (b : Nat) : St :=
  let st := removeSet st b
  { st with list := st.list.pop }

/-- `Blocks.merge(c)` -/
def mergeBlocks (st : St) (ci : Nat) : St :=
  let c := getC st ci
  let l := (getV st c.l).block
  let r := (getV st c.r).block
  let dist := (getV st c.r).offset - (getV st c.l).offset - c.g
  if (getB st l).vars.length < (getB st r).vars.length then
    removeBlock (mergeAcross st r l ci dist) l
  else
    removeBlock (mergeAcross st l r ci (-dist)) r

/-- the loop of `Blocks.split`: `L0` is the list object the `for` statement iterates over, `aliased` says whether
`self._list` is still that object -/
def splitLoop : Nat → St → Array Nat → Bool → Nat → St
  | 0, st, _, _, _ => { st with err := true }
  | fuel + 1, st, L0, aliased, i =>
    if h : i < L0.size then
      let b := L0[i]
      let r := findMinLM st b
      let st := r.1
      match r.2 with
      | none => splitLoop fuel st L0 aliased (i + 1)
      | some ci =>
        if (getC st ci).lm < Gen.lagrangianTolerance then
          let b' := (getV st (getC st ci).l).block
          let sp := blockSplit st ci
          let st := insertBlock (insertBlock sp.1 sp.2.1) sp.2.2
          let stSet := removeSet st b'
          let L0' := if aliased then stSet.list else L0
          let st := { stSet with list := stSet.list.pop }
          let st := { st with inactive := st.inactive.push ci }
          splitLoop fuel st L0' false (i + 1)
        else splitLoop fuel st L0 aliased (i + 1)
    else st

/-- `Blocks.split(inactive)` -/
def blocksSplit (st : St) : St :=
  let st := st.list.foldl (fun st b => updateWeightedPosition st b) st
  splitLoop (st.list.size + 3) st st.list true 0

/-- `Solver.mostViolated` -/
def mostViolated (st : St) : St × Option Nat :=
  let n := st.inactive.size
  let r := (List.range n).foldl (fun (acc : Rat × Option Nat × Nat) i =>
    let c := st.inactive.getD i 0
    if (getC st c).unsat then acc
    else
      let sl := slack st c
      if sl < acc.1 then (sl, some c, i) else acc) (maxsize, none, n)
  match r.2.1 with
  | none => (st, none)
  | some v =>
    if r.2.2 != n && (r.1 < Gen.zeroUpperBound && !(getC st v).active) then
      ({ st with inactive := st.inactive.setIfInBounds r.2.2 (st.inactive.getD (n - 1) 0) }, some v)
    else (st, some v)

/-- the `while` loop of `Solver.satisfy`, entered with the result of the preceding `mostViolated()` -/
def satisfyLoop : Nat → St → Option Nat → St
  | 0, st, _ => { st with err := true }
  | fuel + 1, st, mv =>
    match mv with
    | none => st
    | some v =>
      if slack st v < Gen.zeroUpperBound && !(getC st v).active then
        let c := getC st v
        let lb := (getV st c.l).block
        let rb := (getV st c.r).block
        if lb != rb then
          let r := mostViolated (mergeBlocks st v)
          satisfyLoop fuel r.1 r.2
        else
          match isActiveDirectedPathBetween (travFuel st) st c.r c.l with
          | none => { st with err := true }
          | some true =>
            let r := mostViolated (setC st v { c with unsat := true })
            satisfyLoop fuel r.1 r.2
          | some false =>
            -- `lb.splitBetween(v.left, v.right)` = `findMinLMBetween` + `Block.split`
            let st1 := (computeLm (travFuel st) st false none c.l none).1
            match findPath (travFuel st) st1 none c.l none c.r with
            | none => { st1 with err := true }
            | some (_, none) =>
              let r := mostViolated (setC st1 v { getC st1 v with unsat := true })
              satisfyLoop fuel r.1 r.2
            | some (_, some sc) =>
              let sp := blockSplit st1 sc
              let st2 := insertBlock (insertBlock sp.1 sp.2.1) sp.2.2
              let st2 := removeBlock st2 lb
              let st2 := { st2 with inactive := st2.inactive.push sc }
              let st3 := if slack st2 v ≥ 0 then { st2 with inactive := st2.inactive.push v } else mergeBlocks st2 v
              let r := mostViolated st3
              satisfyLoop fuel r.1 r.2
      else st

/-- `Blocks(vs)`: one block per variable, created from the last variable to the first -/
def initBlocks (st : St) : St :=
  let n := st.vs.size
  let st := { st with bs := #[], list := Array.replicate n 0 }
  (List.range n).reverse.foldl (fun st i =>
    let r := newBlock st i
    let st := setB r.1 r.2 { getB r.1 r.2 with ind := i }
    { st with list := st.list.setIfInBounds i r.2 }) st

/-- `Solver.satisfy` (the blocks exist already: `init` below creates them, as the first call does in Python) -/
def satisfy (fuel : Nat) (st : St) : St :=
  let r := mostViolated (blocksSplit st)
  satisfyLoop fuel r.1 r.2

/-- `Block.cost` summed over `Blocks._list` -/
def cost (st : St) : Rat :=
  (st.list.toList.map (fun b => ((getB st b).vars.map (fun i =>
    let d := position st i - (getV st i).d
    d * d * (getV st i).w)).sum)).sum

/-- `Solver(vs, cs)` followed by the creation of the blocks -/
def init (vars : List (Rat × Rat × Rat)) (cons : List (Nat × Nat × Rat)) : St :=
  let vs : Array V := (vars.map (fun p => ({ d := p.1, w := p.2.1, s := p.2.2, offset := 0, block := 0, cOut := [], cIn := [] } : V))).toArray
  let cs : Array C := (cons.map (fun p => ({ l := p.1, r := p.2.1, g := p.2.2, active := false, unsat := false, lm := 0 } : C))).toArray
  let vs := (cons.zipIdx).foldl (fun (vs : Array V) (p : (Nat × Nat × Rat) × Nat) =>
    let vs := vs.modify p.1.1 (fun v => { v with cOut := v.cOut ++ [p.2] })
    vs.modify p.1.2.1 (fun v => { v with cIn := v.cIn ++ [p.2] })) vs
  initBlocks { vs := vs, cs := cs, bs := #[], list := #[], inactive := (List.range cons.length).toArray, err := false }

/-- the loop of `Solver.solve`: `while abs(lastcost - cost) > 0.0001` -/
def solveLoop : Nat → Nat → St → Rat → Rat → St × Rat
  | 0, _, st, _, c => ({ st with err := true }, c)
  | fuel + 1, sfuel, st, lastcost, c =>
    if ratAbs (lastcost - c) > Gen.solveCostTolerance then
      let st := satisfy sfuel st
      solveLoop fuel sfuel st c (cost st)
    else (st, c)

/-- `Solver.solve`: returns the final state and the returned cost -/
def solve (fuel sfuel : Nat) (st : St) : St × Rat :=
  let st := satisfy sfuel st
  solveLoop fuel sfuel st maxsize (cost st)

/-- `Solver.setDesiredPositions(ps)`: new targets for the variables of a solver that may have solved before (its blocks, active constraints,
flags and pending list stay as they are; `Blocks.split` starts every pass by recomputing the block positions from the current targets) -/
def setDesired (st : St) (ps : List Rat) : St :=
  { st with vs := st.vs.mapIdx (fun i v => { v with d := ps.getD i v.d }) }

/-- `solve()`, then for each list of new targets `setDesiredPositions(ps); solve()` on the SAME solver object -/
def resolve (fuel sfuel : Nat) (st : St) (pss : List (List Rat)) : St × Rat :=
  pss.foldl (fun r ps => solve fuel sfuel (setDesired r.1 ps)) (solve fuel sfuel st)

def positions (st : St) : List Rat := (List.range st.vs.size).map (position st)

def flagged (st : St) : List Nat := (List.range st.cs.size).filter (fun i => (getC st i).unsat)

/-- continue `satisfy` until a pass performs no split (number of block objects unchanged), at most `k` times:
the candidate optimum used as an (untrusted) hint for the certificate checker -/
def polish : Nat → Nat → St → St
  | 0, _, st => st
  | k + 1, sfuel, st =>
    let st' := satisfy sfuel st
    if st'.bs.size == st.bs.size then st' else polish k sfuel st'

/-- multipliers of the active constraints (0 elsewhere) after recomputing them on every block -/
def multipliers (st : St) : List Rat :=
  let st := st.list.foldl (fun st b => (findMinLM st b).1) st
  (List.range st.cs.size).map (fun i => if (getC st i).active then (getC st i).lm else 0)

end Labella.Vpsc
