/-! # `Timeline.__init__`'s handling of option dictionaries, as an object graph (C10)

`DEFAULT_OPTIONS` is a module-level dict whose values `margin`, `labelPadding`, `labella`, `latex` are themselves module-level dict OBJECTS and
whose `scale` is a module-level scale OBJECT; `self.options = {k: v for k, v in DEFAULT_OPTIONS.items()}` is a SHALLOW copy, so a timeline that
is given no `margin` shares the module's `margin` dict with every other such timeline.  The caller's `options` dict is an object too (the scripts in
`examples/` pass one dict to two timelines); the constructor writes the merged `latex` settings back into it.  This file transliterates the
constructor's statements over a heap of dict / scale objects, so that "who can write where" becomes a theorem (`Props/C10.lean`). -/
namespace Labella.Options

inductive Val where
  | atom (s : String)
  | dict (o : Nat)      -- reference to a dict object
  | scale (o : Nat)     -- reference to a scale object
deriving Repr, BEq, DecidableEq

abbrev Dict := List (String × Val)

def dget (d : Dict) (k : String) : Option Val := (d.find? (fun p => p.1 == k)).map (·.2)
def dhas (d : Dict) (k : String) : Bool := d.any (fun p => p.1 == k)
/-- `d[k] = v` (position of an existing key kept, new keys appended — as Python dicts do) -/
def dset (d : Dict) (k : String) (v : Val) : Dict :=
  if dhas d k then d.map (fun p => if p.1 == k then (k, v) else p) else d ++ [(k, v)]
/-- `d.update(e)` -/
def dupdate (d e : Dict) : Dict := e.foldl (fun acc p => dset acc p.1 p.2) d

structure Heap where
  dicts : Array Dict
  scales : Array String          -- a scale object: a token for the domain it currently has
deriving Repr

def Heap.dict (h : Heap) (o : Nat) : Dict := h.dicts.getD o []
def Heap.setDict (h : Heap) (o : Nat) (d : Dict) : Heap := { h with dicts := h.dicts.setIfInBounds o d }
def Heap.allocDict (h : Heap) (d : Dict) : Heap × Nat := ({ h with dicts := h.dicts.push d }, h.dicts.size)
def Heap.allocScale (h : Heap) (tok : String) : Heap × Nat := ({ h with scales := h.scales.push tok }, h.scales.size)

/-- object ids of the module-level objects -/
def idDefaults : Nat := 0
def idMargin : Nat := 1
def idLabella : Nat := 2
def idPadding : Nat := 3
def idLatex : Nat := 4
def nModuleDicts : Nat := 5

/-- the heap right after `import labella.timeline` -/
def Heap.init : Heap :=
  { dicts := #[
      [("margin", .dict idMargin), ("initialWidth", .atom "400"), ("scale", .scale 0), ("domain", .atom "None"), ("direction", .atom "right"),
       ("layerGap", .atom "60"), ("labella", .dict idLabella), ("labelPadding", .dict idPadding), ("showTicks", .atom "True"), ("latex", .dict idLatex)],
      [("left", .atom "20"), ("right", .atom "20"), ("top", .atom "20"), ("bottom", .atom "20")],
      [],
      [("left", .atom "2"), ("right", .atom "2"), ("top", .atom "3"), ("bottom", .atom "2")],
      [("fontsize", .atom "11pt"), ("tickCross", .atom "False"), ("preamble", .atom "")]],
    scales := #["default"] }

/-- `Timeline.__init__(data, options)` as far as option objects are concerned; `opts` = the caller's dict object (`none`: no options given),
`dom` = the axis domain `init_axis` derives from the data.  Returns the heap and the id of `self.options`. -/
def construct (h : Heap) (opts : Option Nat) (dom : String) : Heap × Nat :=
  -- if options is None: options = {}
  let (h, o) := match opts with
    | some o => (h, o)
    | none => h.allocDict []
  -- latex_opts = copy of DEFAULT_OPTIONS["latex"]; if "latex" in options: latex_opts.update(options["latex"]); options["latex"] = latex_opts
  let latex0 := h.dict idLatex
  let latex := match dget (h.dict o) "latex" with
    | some (.dict l) => dupdate latex0 (h.dict l)
    | _ => latex0
  let (h, L) := h.allocDict latex
  let h := h.setDict o (dset (h.dict o) "latex" (.dict L))
  -- self.options = shallow copy of DEFAULT_OPTIONS; self.options.update(options)     (options is non-empty by now)
  let (h, S) := h.allocDict (dupdate (h.dict idDefaults) (h.dict o))
  -- if "scale" not in options: self.options["scale"] = TimeScale()
  let h := if dhas (h.dict o) "scale" then h else
    let r := h.allocScale "fresh"
    r.1.setDict S (dset (r.1.dict S) "scale" (.scale r.2))
  -- self.options["labella"] = dict(self.options["labella"]); self.options["labella"]["direction"] = self.direction
  let labSrc := match dget (h.dict S) "labella" with
    | some (.dict l) => h.dict l
    | _ => []
  let dir := (dget (h.dict S) "direction").getD (.atom "right")
  let (h, LB) := h.allocDict (dset labSrc "direction" dir)
  let h := h.setDict S (dset (h.dict S) "labella" (.dict LB))
  -- init_axis: self.options["scale"].domain(...).range(...)
  let h := match dget (h.dict S) "scale" with
    | some (.scale s) => { h with scales := h.scales.setIfInBounds s dom }
    | _ => h
  (h, S)

/-- what a timeline's export depends on, as far as these objects go: its own options dict with the dicts and the scale it refers to -/
def view (h : Heap) (S : Nat) : Dict × List (String × Dict) × Option String :=
  let d := h.dict S
  (d, d.filterMap (fun p => match p.2 with | .dict o => some (p.1, h.dict o) | _ => none),
   match dget d "scale" with | some (.scale s) => h.scales[s]? | _ => none)

end Labella.Options
