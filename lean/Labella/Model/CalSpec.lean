import Labella.Model.Calendar
/-! Specifications for the calendar intervals (C17) and property predicates for time ticks / nice (C14, C16). -/
namespace Labella.Calendar

/-- `t` is a boundary of the unit — defined from the civil date, independently of `floorU` -/
def isBoundary (u : TUnit) (t : Int) : Bool :=
  match u with
  | .second => t % 1000 == 0
  | .minute => t % 60000 == 0
  | .hour => t % 3600000 == 0
  | .day => t % msPerDay == 0
  | .week => t % msPerDay == 0 && weekdaySun0 (t / msPerDay) == 0
  | .month => t % msPerDay == 0 && (civil (t / msPerDay)).2.2 == 1
  | .year => t % msPerDay == 0 && (civil (t / msPerDay)).2.2 == 1 && (civil (t / msPerDay)).2.1 == 1

/-- `f` is the latest boundary not after `t` -/
def IsFloor (u : TUnit) (t f : Int) : Prop :=
  isBoundary u f = true ∧ f ≤ t ∧ ∀ b, isBoundary u b = true → b ≤ t → b ≤ f

/-- `c` is the earliest boundary not before `t` -/
def IsCeil (u : TUnit) (t c : Int) : Prop :=
  isBoundary u c = true ∧ t ≤ c ∧ ∀ b, isBoundary u b = true → t ≤ b → c ≤ b

/-- `b'` is the boundary following the boundary `b` -/
def IsNext (u : TUnit) (b b' : Int) : Prop :=
  isBoundary u b' = true ∧ b < b' ∧ ∀ x, isBoundary u x = true → b < x → b' ≤ x

/-! ### predicates on lists of ticks (C16) -/

def strictlyIncreasingB : List Int → Bool
  | a :: b :: rest => decide (a < b) && strictlyIncreasingB (b :: rest)
  | _ => true

def gapsOf : List Int → List Int
  | a :: b :: rest => (b - a) :: gapsOf (b :: rest)
  | _ => []

def minGap (l : List Int) : Option Int := (gapsOf l).min?
def maxGap (l : List Int) : Option Int := (gapsOf l).max?

/-- every tick sits on the calendar boundaries that a spacing of at least `g` ms implies -/
def alignedB (g : Int) (l : List Int) : Bool :=
  l.all (fun t =>
    (g < 1000 || isBoundary .second t) && (g < 60000 || isBoundary .minute t) &&
    (g < 3600000 || isBoundary .hour t) && (g < 86400000 || isBoundary .day t) &&
    (g < 28 * 86400000 || isBoundary .month t) && (g < 365 * 86400000 || isBoundary .year t))

def gapRatioB (l : List Int) : Bool :=
  match minGap l, maxGap l with
  | some a, some b => decide (b ≤ 2 * a)
  | _, _ => true

/-- number of ticks lies between `m/2.4 − 1` and `2.4·m + 1`, or the domain is shorter than `m` ms and has one tick per ms -/
def countB (e0 e1 : Int) (m : Rat) (l : List Int) : Bool :=
  let n : Rat := (l.length : Nat)
  (decide (m / (12/5) - 1 ≤ n) && decide (n ≤ (12/5) * m + 1)) ||
    (decide (((e1 - e0 : Int) : Rat) < m) && l == (List.range (e1 - e0 + 1).toNat).map (fun (k : Nat) => e0 + (k : Int)))

def inDomainB (e0 e1 : Int) (l : List Int) : Bool := l.all (fun t => decide (e0 ≤ t) && decide (t ≤ e1))

def ticksOKB (d0 d1 : Int) (m : Rat) (l : List Int) : Bool :=
  let e0 := min d0 d1
  let e1 := max d0 d1
  strictlyIncreasingB l && inDomainB e0 e1 l && gapRatioB l && countB e0 e1 m l &&
    (match minGap l with
     | some g => alignedB g l
     | none => true)

/-! ### nice (C14, time part) -/

/-- the typical tick spacing of the original domain: smallest gap of its ticks (none if fewer than two ticks) -/
def tickSpacing (d0 d1 : Int) (m : Rat) : Option Int := minGap (ticks d0 d1 m)

/-- ends only move outward, orientation kept, each by less than two tick steps, and land on boundaries at
least as coarse as the tick spacing -/
def niceOKB (d0 d1 : Int) (m : Rat) (n0 n1 : Int) : Bool :=
  let lo := min d0 d1
  let hi := max d0 d1
  let nlo := if d1 < d0 then n1 else n0
  let nhi := if d1 < d0 then n0 else n1
  decide (nlo ≤ lo) && decide (hi ≤ nhi) &&
  (match maxGap (ticks d0 d1 m), minGap (ticks d0 d1 m) with
   | some g, some gmin => decide (lo - nlo < 2 * g) && decide (nhi - hi < 2 * g) && alignedB gmin [nlo, nhi]
   | _, _ => true)

end Labella.Calendar
