import Labella.Model.Num
import Labella.Gen.Constants
/-! Model of the d3 linear scale in `labella/scale.py`: the affine map, clamping, inversion, tick
arithmetic, tick format precision, `nice`, and the little state machine of
`domain / range / clamp / nice / copy` calls (with explicit list cells, because `nice` mutates the
domain list in place).  Exact rational arithmetic stands for IEEE doubles (see DESIGN.md, trusted base). -/
namespace Labella.Scale
open Labella

/-- `d3_uninterpolateNumber(a, b)(x)`; a degenerate domain divides by infinity, i.e. gives 0 -/
def uninterp (a b x : Rat) : Rat := if b - a = 0 then 0 else (x - a) / (b - a)

def clamp01 (t : Rat) : Rat := ratMax 0 (ratMin 1 t)

/-- `d3_interpolateNumber(a, b)(t)` -/
def interp (a b t : Rat) : Rat := a * (1 - t) + b * t

/-- `scale(x)` for domain `[a, b]`, range `[r0, r1]` -/
def apply (clamp : Bool) (a b r0 r1 x : Rat) : Rat :=
  interp r0 r1 (if clamp then clamp01 (uninterp a b x) else uninterp a b x)

/-- `invert(y)`: the same construction with domain and range exchanged (and the same clamping flag) -/
def invert (clamp : Bool) (a b r0 r1 y : Rat) : Rat := apply clamp r0 r1 a b y

/-! ### ticks -/

def pow10 (k : Int) : Rat := if 0 ≤ k then (10 : Rat) ^ k.toNat else 1 / (10 : Rat) ^ (-k).toNat

def log10Down : Nat → Int → Rat → Int
  | 0, k, _ => k
  | f+1, k, q => if q < pow10 k then log10Down f (k - 1) q else k

def log10Up : Nat → Int → Rat → Int
  | 0, k, _ => k
  | f+1, k, q => if pow10 (k + 1) ≤ q then log10Up f (k + 1) q else k

/-- for `q > 0`: the integer `k` with `10^k ≤ q < 10^(k+1)` (`floor(log(q)/log(10))`) -/
def floorLog10 (q : Rat) : Int :=
  let fuel := q.num.natAbs.log2 + q.den.log2 + 2
  log10Up fuel (log10Down fuel 0 q) q

def extent (d0 d1 : Rat) : Rat × Rat := if d0 < d1 then (d0, d1) else (d1, d0)

/-- the step of `d3_scale_linearTickRange` for a span > 0 and a requested count `m` -/
def tickStep (span m : Rat) : Rat :=
  let step := pow10 (floorLog10 (span / m))
  let err := m / span * step
  if err ≤ Gen.tickErr10 then step * Gen.tickMul10
  else if err ≤ Gen.tickErr5 then step * Gen.tickMul5
  else if err ≤ Gen.tickErr2 then step * Gen.tickMul2
  else step

/-- the exact `err` sits (to 1e-12 relative) on one of the three thresholds: in floating point either branch may be
taken, so such inputs are reported as ties by the driver and not judged -/
def tickStepTie (span m : Rat) : Bool :=
  if span ≤ 0 ∨ m ≤ 0 then false else
  let step := pow10 (floorLog10 (span / m))
  let err := m / span * step
  [Gen.tickErr10, Gen.tickErr5, Gen.tickErr2].any (fun thr => decide (ratAbs (err - thr) ≤ thr / 1000000000000))

/-- `(start, stop, step)` of `d3_scale_linearTickRange`; a zero span yields step 0 -/
def tickRange (d0 d1 m : Rat) : Rat × Rat × Rat :=
  let e := extent d0 d1
  let span := e.2 - e.1
  if span = 0 then (e.1, e.2, 0) else
  let step := tickStep span m
  (((e.1 / step).ceil : Rat) * step, ((e.2 / step).floor : Rat) * step + step / 2, step)

/-- `drange(start, stop, step)`: start, start+step, … while `< stop` -/
def ticks (d0 d1 m : Rat) : List Rat :=
  let r := tickRange d0 d1 m
  if r.2.2 ≤ 0 then [] else
  let n := ((r.2.1 - r.1) / r.2.2).ceil.toNat
  (List.range n).map (fun (k : Nat) => r.1 + (k : Rat) * r.2.2)

/-- `max(0, d3_scale_linearPrecision(step))`: digits after the decimal point in tick labels -/
def tickDecimals (step : Rat) : Nat :=
  if step ≤ 0 then 0 else
  -- -floor(log10(step) + 0.01): the fudge only matters when step is within 10^0.01 of a power of ten from below
  let k := floorLog10 step
  -- log10(step) + 0.01 ≥ k + 1  ⇔  step ≥ 10^(k + 0.99); tick steps are 1, 2, 5 × 10^k, never that close
  (-k).toNat

/-- exact decimal text of `x` with `d` digits after the point, rounding half to even (Python's
`"{:.df}".format(x)` on the exact value) -/
def formatFixed (x : Rat) (d : Nat) : String :=
  let scaled := roundHalfEven (x * (10 : Rat) ^ d)
  let neg := scaled < 0
  let n := scaled.natAbs
  let ip := n / 10 ^ d
  let fp := n % 10 ^ d
  let fs := toString fp
  let frac := if d = 0 then "" else "." ++ String.ofList (List.replicate (d - fs.length) '0') ++ fs
  (if neg then "-" else "") ++ toString ip ++ frac

/-- one pass of `d3_scale_nice` with `d3_scale_niceStep(step)`; orientation is preserved -/
def nicePass (d0 d1 m : Rat) : Rat × Rat :=
  let step := (tickRange d0 d1 m).2.2
  if step = 0 then (d0, d1) else
  let fl (x : Rat) : Rat := ((x / step).floor : Rat) * step
  let cl (x : Rat) : Rat := ((x / step).ceil : Rat) * step
  if d1 < d0 then (cl d0, fl d1) else (fl d0, cl d1)

/-- `d3_scale_linearNice`: two passes -/
def nice (d0 d1 m : Rat) : Rat × Rat :=
  let p := nicePass d0 d1 m
  nicePass p.1 p.2 m

/-! ### the object state machine -/

structure SObj where
  domCell : Nat
  rngCell : Nat
  clamp : Bool
  /-- what `rescale()` last captured in the closures -/
  cached : Rat × Rat × Rat × Rat × Bool
deriving Repr, BEq

structure Heap where
  cells : List (Rat × Rat)
  objs : List SObj
deriving Repr

inductive Op where
  | domain (i : Nat) (a b : Rat)
  | range (i : Nat) (r0 r1 : Rat)
  | clamp (i : Nat) (c : Bool)
  | nice (i : Nat) (m : Rat)
  | inplace (i : Nat) (a b : Rat)   -- what `nice` does to the list, with given new end points
  | copy (i : Nat)
deriving Repr

def Heap.cell (h : Heap) (c : Nat) : Rat × Rat := h.cells.getD c (0, 1)

def rescale (h : Heap) (o : SObj) : SObj :=
  let d := h.cell o.domCell
  let r := h.cell o.rngCell
  { o with cached := (d.1, d.2, r.1, r.2, o.clamp) }

def Heap.init : Heap :=
  { cells := [(0, 1), (0, 1)], objs := [rescale { cells := [(0, 1), (0, 1)], objs := [] } ⟨0, 1, false, (0, 1, 0, 1, false)⟩] }

def setObj (h : Heap) (i : Nat) (o : SObj) : Heap := { h with objs := h.objs.set i o }

/-- `sharedCopy = true` is the pre-repair behaviour (`copy()` handed the same two lists to the new object) -/
def stepOp (sharedCopy : Bool) (h : Heap) : Op → Heap
  | .domain i a b =>
    match h.objs[i]? with
    | none => h
    | some o =>
      let h1 := { h with cells := h.cells ++ [(a, b)] }
      setObj h1 i (rescale h1 { o with domCell := h.cells.length })
  | .range i r0 r1 =>
    match h.objs[i]? with
    | none => h
    | some o =>
      let h1 := { h with cells := h.cells ++ [(r0, r1)] }
      setObj h1 i (rescale h1 { o with rngCell := h.cells.length })
  | .clamp i c =>
    match h.objs[i]? with
    | none => h
    | some o => setObj h i (rescale h { o with clamp := c })
  | .nice i m =>
    match h.objs[i]? with
    | none => h
    | some o =>
      let d := h.cell o.domCell
      let h1 := { h with cells := h.cells.set o.domCell (nice d.1 d.2 m) }   -- in place
      setObj h1 i (rescale h1 o)                                               -- only the receiver rescales
  | .inplace i a b =>
    match h.objs[i]? with
    | none => h
    | some o =>
      let h1 := { h with cells := h.cells.set o.domCell (a, b) }
      setObj h1 i (rescale h1 o)
  | .copy i =>
    match h.objs[i]? with
    | none => h
    | some o =>
      if sharedCopy then
        { h with objs := h.objs ++ [rescale h o] }
      else
        let h1 := { h with cells := h.cells ++ [h.cell o.domCell, h.cell o.rngCell] }
        { h1 with objs := h1.objs ++ [rescale h1 { o with domCell := h.cells.length, rngCell := h.cells.length + 1 }] }

def run (sharedCopy : Bool) (ops : List Op) : Heap := ops.foldl (stepOp sharedCopy) Heap.init

/-- what the object reports (`domain()`, `range()`, `clamp()`) -/
def reported (h : Heap) (o : SObj) : Rat × Rat × Rat × Rat × Bool :=
  ((h.cell o.domCell).1, (h.cell o.domCell).2, (h.cell o.rngCell).1, (h.cell o.rngCell).2, o.clamp)

/-- every object maps with exactly the end points it reports -/
def coherentB (h : Heap) : Bool := h.objs.all (fun o => o.cached == reported h o)

/-! ### property predicates for ticks and nice (C13, C14), with an explicit tolerance for float observations -/

def increasingB : List Rat → Bool
  | a :: b :: rest => decide (a < b) && increasingB (b :: rest)
  | _ => true

/-- `x` is within `tol` of an integer multiple of `step` -/
def nearMultipleB (step tol x : Rat) : Bool :=
  let q := x / step
  let r := q - ((q + 1/2).floor : Rat)
  decide (ratAbs r * step ≤ tol)

/-- observed ticks `l` for domain `[d0,d1]`, count `m`: increasing multiples of the model's step, inside the domain,
none missing except possibly one at either end (float end effects), count within `[⌊0.57 m⌋, 1.43 m + 1]` -/
def ticksOKB (ftol : Rat) (d0 d1 m : Rat) (l : List Rat) : Bool :=
  let e := extent d0 d1
  let step := (tickRange d0 d1 m).2.2
  if step ≤ 0 then l.isEmpty else
  let tol := step / 1000000 + ftol
  let q := 1/1000000000 + ftol / step
  let lo := ((e.1 / step - q).ceil : Int)     -- first multiple certainly inside
  let hi := ((e.2 / step + q).floor : Int)
  let lo' := ((e.1 / step + q).ceil : Int)    -- multiples that may be lost to float effects are between
  let hi' := ((e.2 / step - q).floor : Int)
  let n : Int := l.length
  increasingB l && l.all (nearMultipleB step tol) &&
    l.all (fun x => decide (e.1 - tol ≤ x) && decide (x ≤ e.2 + tol)) &&
    decide (hi' - lo' + 1 ≤ n) && decide (n ≤ hi - lo + 1) &&
    decide ((((57 : Rat) / 100) * m).floor ≤ n) && decide ((n : Rat) ≤ (143 : Rat) / 100 * m + 1)

/-- the step has the form 1, 2 or 5 times a power of ten -/
def stepFormB (step : Rat) : Bool :=
  if step ≤ 0 then false else
  let k := floorLog10 step
  let r := step / pow10 k
  r == 1 || r == 2 || r == 5

/-- parse a decimal text `[-]digits[.digits]` -/
def parseDecimal (s : String) : Option Rat :=
  let neg := s.startsWith "-"
  let body := if neg then (s.drop 1).toString else s
  match body.splitOn "." with
  | [ip] => (ip.toNat?).map (fun n => if neg then -(n : Rat) else (n : Rat))
  | [ip, fp] => do
    let a ← ip.toNat?
    let b ← fp.toNat?
    let v : Rat := (a : Rat) + (b : Rat) / (10 : Rat) ^ fp.length
    some (if neg then -v else v)
  | _ => none

/-- tick texts are pairwise distinct and each reads back as its tick value to within a thousandth of the step -/
def textsOKB (step : Rat) (l : List Rat) (texts : List String) : Bool :=
  texts.length == l.length &&
  (List.range texts.length).all (fun i => (List.range texts.length).all (fun j => i == j || texts[i]? != texts[j]?)) &&
  (l.zip texts).all (fun p => match parseDecimal p.2 with
    | some v => decide (ratAbs (v - p.1) ≤ step / 1000)
    | none => false)

/-- observed `nice` result `(n0, n1)` for `[d0, d1]`: no end moves inward (beyond `1e-9` step), orientation kept,
each end moves out by less than two tick steps of the *resulting* domain, and lands on a multiple of a tenth of that step -/
def niceOKB (ftol : Rat) (d0 d1 m n0 n1 : Rat) : Bool :=
  let step := (tickRange n0 n1 m).2.2
  if d0 = d1 then n0 == d0 && n1 == d1 else
  if step ≤ 0 then false else
  let tol := step / 1000000000 + ftol
  let lo := ratMin d0 d1
  let hi := ratMax d0 d1
  let nlo := ratMin n0 n1
  let nhi := ratMax n0 n1
  (decide (d0 < d1) == decide (n0 < n1)) &&
  decide (nlo ≤ lo + tol) && decide (hi ≤ nhi + tol) &&
  decide (lo - nlo < 2 * step + 2 * tol) && decide (nhi - hi < 2 * step + 2 * tol) &&
  nearMultipleB (step / 10) tol nlo && nearMultipleB (step / 10) tol nhi

/-- `niceOKB` without its last clause (the roundness of the two ends) -/
def niceOKNoRoundB (ftol : Rat) (d0 d1 m n0 n1 : Rat) : Bool :=
  let step := (tickRange n0 n1 m).2.2
  if d0 = d1 then n0 == d0 && n1 == d1 else
  if step ≤ 0 then false else
  let tol := step / 1000000000 + ftol
  let lo := ratMin d0 d1
  let hi := ratMax d0 d1
  let nlo := ratMin n0 n1
  let nhi := ratMax n0 n1
  (decide (d0 < d1) == decide (n0 < n1)) &&
  decide (nlo ≤ lo + tol) && decide (hi ≤ nhi + tol) &&
  decide (lo - nlo < 2 * step + 2 * tol) && decide (nhi - hi < 2 * step + 2 * tol)

end Labella.Scale
