/-! Exact rational helpers shared by all models (core Lean only). -/
namespace Labella

/-- Python's `round(x)` on a number: nearest integer, ties to even. -/
def roundHalfEven (x : Rat) : Int :=
  let f := x.floor
  let d := x - (f : Rat)
  if d < 1/2 then f else if 1/2 < d then f + 1 else if f % 2 = 0 then f else f + 1

/-- C's `(int)x` / Python's `"%i" % x`: truncation towards zero. -/
def truncToZero (x : Rat) : Int := if 0 ≤ x then x.floor else x.ceil

def ratAbs (x : Rat) : Rat := if 0 ≤ x then x else -x

def ratMax (a b : Rat) : Rat := if a ≤ b then b else a
def ratMin (a b : Rat) : Rat := if a ≤ b then a else b

/-- prefix sums `[acc, acc+g₀, acc+g₀+g₁, …]` (length = gs.length + 1) -/
def prefixSums : Rat → List Rat → List Rat
  | acc, [] => [acc]
  | acc, g :: gs => acc :: prefixSums (acc + g) gs

def sumRat (l : List Rat) : Rat := l.foldl (· + ·) 0

end Labella

namespace Labella

/-- the number a `"%.df"` rendering denotes: `x` rounded to `d` decimals (half to even on the exact value) -/
def fixedValue (d : Nat) (x : Rat) : Rat := (roundHalfEven (x * (10 : Rat) ^ d) : Int) / (10 : Rat) ^ d

end Labella
