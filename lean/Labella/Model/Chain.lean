import Labella.Model.Num
/-! Chain (path-graph) separation solver: pool adjacent violators, most violated first.

This is the model of what `vpsc.Solver.solve` does on the instances labella itself builds
(`removeOverlap`: variables in target order, one gap constraint per adjacent pair, two optional
heavy wall variables).  After the shift `tᵢ := targetᵢ − Σ_{j<i} gapⱼ` all gaps are zero, a block is
a run of consecutive items sitting at their common weighted mean, and a constraint between two
neighbouring blocks is violated exactly when the right mean is below the left one. -/
namespace Labella.Chain

structure Item where
  w : Rat
  t : Rat
deriving Repr, BEq

abbrev Block := List Item

def Block.sumW (b : Block) : Rat := (b.map (·.w)).sum
def Block.sumWT (b : Block) : Rat := (b.map (fun i => i.w * i.t)).sum
def Block.mean (b : Block) : Rat := b.sumWT / b.sumW

/-- slack of the (inactive) constraint between each pair of neighbouring blocks -/
def slacks : List Block → List Rat
  | a :: b :: rest => (b.mean - a.mean) :: slacks (b :: rest)
  | _ => []

/-- first index holding the minimum (`mostViolated` scans left to right with a strict `<`) -/
def argmin : List Rat → Option (Nat × Rat)
  | [] => none
  | x :: xs =>
    match argmin xs with
    | none => some (0, x)
    | some (k, y) => if y < x then some (k+1, y) else some (0, x)

def mergeAt : Nat → List Block → List Block
  | 0, a :: b :: rest => (a ++ b) :: rest
  | k+1, a :: rest => a :: mergeAt k rest
  | _, l => l

/-- `Solver.satisfy`: merge across the most violated constraint while it is violated by more than `eps` -/
def satisfy (eps : Rat) : Nat → List Block → List Block
  | 0, bs => bs
  | fuel+1, bs =>
    match argmin (slacks bs) with
    | some (k, s) => if s < -eps then satisfy eps fuel (mergeAt k bs) else bs
    | none => bs

/-- every item sits at its block's weighted mean -/
def expand (bs : List Block) : List Rat :=
  bs.flatMap (fun b => b.map (fun _ => b.mean))

/-- solve a chain problem: `vars` in chain order, `gaps` between neighbours (length `vars.length - 1`);
returns the (unrounded) positions in chain order -/
def solve (eps : Rat) (vars : List Item) (gaps : List Rat) : List Rat :=
  let G := prefixSums 0 gaps
  let shifted := List.zipWith (fun (v : Item) g => ({ w := v.w, t := v.t - g } : Item)) vars G
  let bs := satisfy eps shifted.length (shifted.map (fun i => [i]))
  List.zipWith (· + ·) (expand bs) G

def cost (vars : List Item) (xs : List Rat) : Rat :=
  ((vars.zip xs).map fun p => p.1.w * (p.2 - p.1.t) * (p.2 - p.1.t)).sum

end Labella.Chain

namespace Labella.Chain

/-- `xs` keeps every gap up to `eps`: `xsᵢ₊₁ − xsᵢ ≥ gapsᵢ − eps` -/
def SepBy (eps : Rat) : List Rat → List Rat → Prop
  | g :: gs, a :: b :: xs => g - eps ≤ b - a ∧ SepBy eps gs (b :: xs)
  | _, _ => True

/-- weighted squared distance between two placements of the same variables -/
def wdist (vars : List Item) (xs zs : List Rat) : Rat :=
  ((vars.zip (xs.zip zs)).map fun p => p.1.w * (p.2.2 - p.2.1) * (p.2.2 - p.2.1)).sum

end Labella.Chain
