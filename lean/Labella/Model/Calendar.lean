import Labella.Model.Scale
/-! Model of `labella/d3_time.py` and of the time scale in `labella/scale.py`.
Instants are integer milliseconds since 1970-01-01T00:00 (naive wall-clock time, no zone);
the proleptic Gregorian calendar is modelled by integer arithmetic. -/
namespace Labella.Calendar
open Labella

def msPerDay : Int := 86400000

def isLeap (y : Int) : Bool := (y % 4 == 0 && y % 100 != 0) || y % 400 == 0

def yearLen (y : Int) : Int := if isLeap y then 366 else 365

/-- days from 1970-01-01 to 1 January of year `y` -/
def daysBeforeYear (y : Int) : Int :=
  365 * (y - 1970) + (y - 1969) / 4 - (y - 1901) / 100 + (y - 1601) / 400

/-- the year containing day number `n` (estimate and correct) -/
def yearOfDay (n : Int) : Int :=
  let y0 := 1970 + (n * 400) / 146097
  if n < daysBeforeYear y0 then y0 - 1
  else if n ≥ daysBeforeYear (y0 + 1) then y0 + 1
  else y0

def monthLen (y : Int) (m : Nat) : Int :=
  match m with
  | 1 => 31 | 2 => if isLeap y then 29 else 28 | 3 => 31 | 4 => 30 | 5 => 31 | 6 => 30
  | 7 => 31 | 8 => 31 | 9 => 30 | 10 => 31 | 11 => 30 | _ => 31

/-- days before month `m` (1-based) within year `y` -/
def daysBeforeMonth (y : Int) : Nat → Int
  | 0 => 0
  | 1 => 0
  | m+1 => daysBeforeMonth y m + monthLen y m

/-- month (1..12) and day-of-month (1-based) of the 0-based day-of-year `doy`: try months `m`, `m+1`, … -/
def monthOfDoy (y : Int) (doy : Int) : Nat → Nat → Nat × Int
  | 0, m => (m, doy - daysBeforeMonth y m + 1)
  | fuel+1, m =>
    if 12 ≤ m then (12, doy - daysBeforeMonth y 12 + 1)
    else if doy < daysBeforeMonth y (m + 1) then (m, doy - daysBeforeMonth y m + 1)
    else monthOfDoy y doy fuel (m + 1)

/-- civil date (year, month 1..12, day 1..31) of day number `n` -/
def civil (n : Int) : Int × Nat × Int :=
  let y := yearOfDay n
  let md := monthOfDoy y (n - daysBeforeYear y) 12 1
  (y, md.1, md.2)

/-- day number of a civil date (day-of-month may overflow into the following month, as plain arithmetic) -/
def dayNumber (y : Int) (m : Nat) (d : Int) : Int := daysBeforeYear y + daysBeforeMonth y m + d - 1

/-- Sunday = 0 … Saturday = 6 (1970-01-01 was a Thursday) -/
def weekdaySun0 (n : Int) : Int := (n + 4) % 7

inductive TUnit where
  | second | minute | hour | day | week | month | year
deriving Repr, BEq, DecidableEq

def unitMs : TUnit → Int
  | .second => 1000 | .minute => 60000 | .hour => 3600000 | .day => 86400000 | .week => 604800000
  | .month => 0 | .year => 0

/-- `interval.floor(t)`: latest boundary ≤ t -/
def floorU (u : TUnit) (t : Int) : Int :=
  match u with
  | .second => t / 1000 * 1000
  | .minute => t / 60000 * 60000
  | .hour => t / 3600000 * 3600000
  | .day => t / msPerDay * msPerDay
  | .week => let d := t / msPerDay; (d - weekdaySun0 d) * msPerDay
  | .month => let c := civil (t / msPerDay); dayNumber c.1 c.2.1 1 * msPerDay
  | .year => let c := civil (t / msPerDay); dayNumber c.1 1 1 * msPerDay

/-- `interval.offset(t, k)` for `k ≥ 0` (the code's month/year stepping is only defined forwards) -/
def stepU (u : TUnit) (t : Int) (k : Int) : Int :=
  match u with
  | .second => t + k * 1000
  | .minute => t + k * 60000
  | .hour => t + k * 3600000
  | .day => t + k * msPerDay
  | .week => t + 7 * k * msPerDay
  | .month =>
    let d := t / msPerDay
    let c := civil d
    let mm := (c.2.1 : Int) - 1 + k
    dayNumber (c.1 + mm / 12) ((mm % 12).toNat + 1) c.2.2 * msPerDay + (t - d * msPerDay)
  | .year =>
    let d := t / msPerDay
    let c := civil d
    dayNumber (c.1 + k) c.2.1 c.2.2 * msPerDay + (t - d * msPerDay)

/-- `interval.ceil(t)`: floor one millisecond earlier, then one unit forward -/
def ceilU (u : TUnit) (t : Int) : Int := stepU u (floorU u (t - 1)) 1

/-- `interval.round(t)`: the nearer boundary, the later one on a tie -/
def roundU (u : TUnit) (t : Int) : Int :=
  let d0 := floorU u t
  let d1 := stepU u d0 1
  if t - d0 < d1 - t then d0 else d1

/-- the unit number used by the range filter -/
def numberU (u : TUnit) (t : Int) : Int :=
  let d := t / msPerDay
  match u with
  | .second => t % 60000 / 1000
  | .minute => t % 3600000 / 60000
  | .hour => t % msPerDay / 3600000
  | .day => (civil d).2.2 - 1
  | .month => ((civil d).2.1 : Int) - 1
  | .year => (civil d).1
  | .week =>
    let y := (civil d).1
    let jan1 := dayNumber y 1 1
    let day := weekdaySun0 jan1
    (d - jan1 + (day + 7) % 7) / 7 - 1

/-- the `while time < t1` loop of `interval.range`; `fuel` bounds the number of unit steps -/
def rangeLoop (u : TUnit) (t1 : Int) (dt : Int) : Nat → Int → List Int
  | 0, _ => []
  | fuel+1, t =>
    if t < t1 then
      (if dt ≤ 1 ∨ numberU u t % dt = 0 then [t] else []) ++ rangeLoop u t1 dt fuel (stepU u t 1)
    else []

/-- shortest a unit can be, in ms: bounds the number of iterations -/
def minUnitMs : TUnit → Int
  | .month => 28 * 86400000
  | .year => 365 * 86400000
  | u => unitMs u

/-- `interval.range(t0, t1, dt)` -/
def rangeU (u : TUnit) (t0 t1 : Int) (dt : Int) : List Int :=
  let start := ceilU u t0
  rangeLoop u t1 dt ((t1 - start) / minUnitMs u + 2).toNat start

/-! ### time scale: tick method, ticks, nice -/

inductive Method where
  | ms (step : Rat)
  | cal (u : TUnit) (skip : Rat)
deriving Repr, BEq

def unitOfName : String → TUnit
  | "second" => .second | "minute" => .minute | "hour" => .hour | "day" => .day
  | "week" => .week | "month" => .month | _ => .year

/-- `d3_bisect` (right) over the step table -/
def bisectRight (steps : List Rat) (x : Rat) : Nat := (steps.takeWhile (fun s => decide (s ≤ x))).length

def linStep (lo hi m : Rat) : Rat := (Scale.tickRange lo hi m).2.2

/-- `TimeScale.tickMethod(extent, count)` -/
def tickMethod (e0 e1 : Int) (count : Rat) : Method :=
  let target : Rat := ((e1 - e0 : Int) : Rat) / count
  let steps := Gen.timeScaleSteps
  let i := bisectRight steps target
  if i = steps.length then
    .cal .year (linStep ((e0 : Rat) / Gen.yearMillis) ((e1 : Rat) / Gen.yearMillis) count)
  else if i = 0 then .ms (linStep e0 e1 count)
  else
    let lo := steps.getD (i - 1) 1
    let hi := steps.getD i 1
    let pick := if target / lo < hi / target then i - 1 else i
    match Gen.timeScaleMethods[pick]? with
    | some (n, k) => .cal (unitOfName n) k
    | none => .cal .year 1

/-- the step of the millisecond / multi-year branch sits on a float threshold tie (see `Scale.tickStepTie`) -/
def tickTie (e0 e1 : Int) (count : Rat) : Bool :=
  let target : Rat := ((e1 - e0 : Int) : Rat) / count
  let i := bisectRight Gen.timeScaleSteps target
  if i = Gen.timeScaleSteps.length then Scale.tickStepTie (((e1 - e0 : Int) : Rat) / Gen.yearMillis) count
  else if i = 0 then Scale.tickStepTie ((e1 - e0 : Int) : Rat) count
  else false

/-- `d3TimeScaleMilliseconds.range` with the integer step of the repaired code -/
def msRange (t0 t1 : Int) (step : Rat) : List Int :=
  let st : Int := if step.floor < 1 then 1 else step.floor
  let a : Int := (((t0 : Rat) / (st : Rat)).ceil) * st
  if t1 ≤ a then [] else (List.range ((t1 - a + st - 1) / st).toNat).map (fun (k : Nat) => a + (k : Int) * st)

/-- the skip actually passed to `range` by `ticks` (`skip < 1` means every unit) -/
def effSkip (s : Rat) : Rat := if s < 1 then 1 else s

/-- calendar range with a possibly non-integral skip (`number % skip` in Python floats): only integral skips
can select anything other than multiples; the model takes the floor when it is integral and keeps "never" otherwise -/
def calRange (u : TUnit) (t0 t1 : Int) (skip : Rat) : List Int :=
  if skip.den = 1 then rangeU u t0 t1 skip.num
  else (rangeU u t0 t1 1).filter (fun t => decide (((numberU u t : Rat) / skip).den = 1))

/-- `TimeScale.ticks(count)` for the domain `[d0, d1]` (either orientation) -/
def ticks (d0 d1 : Int) (count : Rat) : List Int :=
  let e0 := min d0 d1
  let e1 := max d0 d1
  match tickMethod e0 e1 count with
  | .ms s => msRange e0 (e1 + 1) (effSkip s)
  | .cal u s => calRange u e0 (e1 + 1) (effSkip s)

def skippedB (m : Method) (t : Int) : Bool :=
  match m with
  | .ms s => (msRange t (t + 1) s).isEmpty
  | .cal u s => (calRange u t (t + 1) s).isEmpty

/-- `interval.floor` / `interval.ceil` of the method's interval (the millisecond pseudo-interval is the identity) -/
def mFloor (m : Method) (t : Int) : Int :=
  match m with
  | .ms _ => t
  | .cal u _ => floorU u t

def mCeil (m : Method) (t : Int) : Int :=
  match m with
  | .ms _ => t
  | .cal u _ => ceilU u t

def mSkip : Method → Rat
  | .ms s => s
  | .cal _ s => s

/-- `time_nice_floor`: floor, then step back one millisecond and floor again while the instant is skipped -/
def niceFloor (m : Method) : Nat → Int → Int
  | 0, t => t
  | fuel+1, t => if skippedB m t then niceFloor m fuel (mFloor m (t - 1)) else t

def niceCeil (m : Method) : Nat → Int → Int
  | 0, t => t
  | fuel+1, t => if skippedB m t then niceCeil m fuel (mCeil m (t + 1)) else t

/-- `TimeScale.nice(count)`; orientation preserved -/
def nice (d0 d1 : Int) (count : Rat) : Int × Int :=
  let e0 := min d0 d1
  let e1 := max d0 d1
  let m := tickMethod e0 e1 count
  let r : Int × Int :=
    if 1 < mSkip m then
      let fuel := (mSkip m).ceil.toNat + 2
      (niceFloor m fuel (mFloor m e0), niceCeil m fuel (mCeil m e1))
    else (mFloor m e0, mCeil m e1)
  if d1 < d0 then (r.2, r.1) else r

end Labella.Calendar

namespace Labella.Calendar

/-- `TimeScale.__call__`: the linear scale applied to milliseconds since the epoch -/
def timeApply (d0 d1 : Int) (r0 r1 : Rat) (t : Int) : Rat := Scale.apply false d0 d1 r0 r1 t

/-- `TimeScale.invert` (as a rational number of milliseconds, before conversion back to a datetime) -/
def timeInvert (d0 d1 : Int) (r0 r1 : Rat) (y : Rat) : Rat := Scale.invert false d0 d1 r0 r1 y

end Labella.Calendar

namespace Labella.Calendar

def monthNames : List String := ["January", "February", "March", "April", "May", "June", "July", "August",
  "September", "October", "November", "December"]
def dayNames : List String := ["Sun", "Mon", "Tue", "Wed", "Thu", "Fri", "Sat"]

def pad2 (n : Int) : String := (if n < 10 then "0" else "") ++ toString n

/-- `scale.mytimeformat` (C locale): year / month name / "Mon dd" on Sundays / "Day dd" / hour am-pm / HH:MM / :SS -/
def timeFormat (t : Int) : String :=
  let d := t / msPerDay
  let c := civil d
  let ms := t % msPerDay
  let hh := ms / 3600000
  let mm := ms % 3600000 / 60000
  let ss := ms % 60000 / 1000
  let mon := monthNames.getD (c.2.1 - 1) "?"
  if c.2.2 = 1 ∧ c.2.1 = 1 then toString c.1
  else if c.2.2 = 1 then mon
  else if weekdaySun0 d = 0 ∧ hh = 0 ∧ mm = 0 ∧ ss = 0 then (mon.take 3).toString ++ " " ++ pad2 c.2.2
  else if hh = 0 ∧ mm = 0 ∧ ss = 0 then dayNames.getD (weekdaySun0 d).toNat "?" ++ " " ++ pad2 c.2.2
  else if mm = 0 ∧ ss = 0 then pad2 (if hh % 12 = 0 then 12 else hh % 12) ++ " " ++ (if hh < 12 then "AM" else "PM")
  else if ss = 0 then pad2 hh ++ ":" ++ pad2 mm
  else ":" ++ pad2 ss

end Labella.Calendar
