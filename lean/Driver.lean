import Labella.Driver.LayoutCmd
import Labella.Driver.OptionsCmd
import Labella.Driver.TextCmd
import Labella.Driver.CalCmd
import Labella.Driver.ScaleCmd
import Labella.Driver.QpCmd
import Labella.Driver.RenderCmd
/-! Line-protocol driver: one case per line in, one verdict line out.  A line that cannot be parsed is
answered `bad-line` (an infrastructure error for the harness, never a default verdict). -/
open Labella.Driver

def dispatch (line : String) : String :=
  let f := line.splitOn "|"
  let r := match f with
    | "layer" :: rest => layerCmd rest
    | "force" :: rest => forceCmd rest
    | "dist" :: rest => distCmd rest
    | "perm" :: rest => permCmd rest
    | "ehist" :: rest => ehistCmd rest
    | "mhist" :: rest => mhistCmd rest
    | "pipe" :: rest => pipeCmd rest
    | "objs" :: rest => objsCmd rest
    | "names" :: rest => namesCmd rest
    | "color" :: rest => colorCmd rest
    | "tex" :: rest => texCmd rest
    | "cal" :: rest => calCmd rest
    | "calrange" :: rest => calRangeCmd rest
    | "tticks" :: rest => tticksCmd rest
    | "tnice" :: rest => tniceCmd rest
    | "tscale" :: rest => tscaleCmd rest
    | "lin" :: rest => linCmd rest
    | "linmono" :: rest => linMonoCmd rest
    | "lticks" :: rest => lticksCmd rest
    | "lnice" :: rest => lniceCmd rest
    | "lhist" :: rest => lhistCmd rest
    | "qp" :: rest => qpCmd rest
    | "vpsc" :: rest => vpscCmd rest
    | "vpscr" :: rest => vpscrCmd rest
    | "geom" :: rest => geomCmd rest
    | "pic" :: rest => picCmd rest
    | "tfmt" :: rest => tfmtCmd rest
    | "size" :: rest => sizeCmd rest
    | "proc" :: rest => procCmd rest
    | _ => none
  r.getD "bad-line"

partial def loop (h : IO.FS.Stream) (out : IO.FS.Stream) : IO Unit := do
  let line ← h.getLine
  if line.isEmpty then return ()
  let l := (line.dropEndWhile (fun c => c == '\n' || c == '\r')).toString
  out.putStrLn (dispatch l)
  loop h out

def main : IO Unit := do
  let out ← IO.getStdout
  loop (← IO.getStdin) out
  out.flush
