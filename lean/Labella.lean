import Labella.Gen.Constants
import Labella.Model.Num
import Labella.Model.Chain
import Labella.Model.Layout
