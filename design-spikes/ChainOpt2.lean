import Proj.ChainOpt

def cost (items : List Item) (ys : List ℚ) : ℚ :=
  ((items.zip ys).map fun p => p.1.w * (p.2 - p.1.t)^2).sum

/-- weighted squared distance between two placements -/
def dist2 (items : List Item) (ys zs : List ℚ) : ℚ :=
  ((items.zip (ys.zip zs)).map fun p => p.1.w * (p.2.2 - p.2.1)^2).sum

def constCost (m : ℚ) (b : Block) : ℚ := (b.map fun i => i.w * (m - i.t)^2).sum
def sqTo (m : ℚ) (b : Block) (zs : List ℚ) : ℚ := ((b.zip zs).map fun p => p.1.w * (p.2 - m)^2).sum
def dotzr (m : ℚ) (b : Block) (zs : List ℚ) : ℚ := ((zs.zip (b.map (resid m))).map fun p => p.1 * p.2).sum

theorem cost_split (m : ℚ) (b : Block) (zs : List ℚ) (hlen : zs.length = b.length) :
    cost b zs = constCost m b + sqTo m b zs + 2 * dotzr m b zs - 2 * m * residSum m b := by
  induction b generalizing zs with
  | nil => simp [cost, constCost, sqTo, dotzr, residSum]
  | cons i b ih =>
    cases zs with
    | nil => simp at hlen
    | cons z zs =>
      have := ih zs (by simpa using hlen)
      simp only [cost, constCost, sqTo, dotzr, residSum, List.zip_cons_cons, List.map_cons, List.sum_cons] at *
      rw [this]; simp only [resid]; ring

theorem cost_const (m : ℚ) (b : Block) : cost b (b.map fun _ => m) = constCost m b := by
  induction b with
  | nil => simp [cost, constCost]
  | cons i b ih =>
    simp only [cost, constCost, List.map_cons, List.zip_cons_cons, List.sum_cons] at *
    rw [ih]

theorem dist2_const (m : ℚ) (b : Block) (zs : List ℚ) :
    dist2 b (b.map fun _ => m) zs = sqTo m b zs := by
  induction b generalizing zs with
  | nil => simp [dist2, sqTo]
  | cons i b ih =>
    cases zs with
    | nil => simp [dist2, sqTo]
    | cons z zs =>
      have := ih zs
      simp only [dist2, sqTo, List.map_cons, List.zip_cons_cons, List.sum_cons] at *
      rw [this]

theorem block_optimal {b : Block} (hb : b ≠ []) (hw : PosW b) (pm : PM b)
    (zs : List ℚ) (hlen : zs.length = b.length) (hz : Nondecr zs) :
    cost b (b.map fun _ => b.mean) + dist2 b (b.map fun _ => b.mean) zs ≤ cost b zs := by
  rw [cost_split b.mean b zs hlen, cost_const, dist2_const]
  have hpre : ∀ k, ((b.map (resid b.mean)).take k).sum ≤ 0 := by
    intro k
    have := pm k
    simpa [residSum, List.map_take] using this
  have htot : (b.map (resid b.mean)).sum = 0 := by
    have := residSum_mean hb hw
    simpa [residSum] using this
  have := abel0 zs (b.map (resid b.mean)) (by simpa using hlen) hz hpre htot
  have h0 : residSum b.mean b = 0 := residSum_mean hb hw
  simp only [dotzr, h0]
  linarith

/-- the placement produced from a block list: every item sits at its block's weighted mean -/
def expandQ (bs : List Block) : List ℚ := bs.flatMap (fun b => b.map (fun _ => b.mean))

theorem cost_append (a b : List Item) (ya yb : List ℚ) (h : ya.length = a.length) :
    cost (a ++ b) (ya ++ yb) = cost a ya + cost b yb := by
  simp only [cost]
  rw [List.zip_append (by omega)]
  simp

theorem dist2_append (a b : List Item) (ya yb za zb : List ℚ) (h1 : ya.length = a.length) (h2 : za.length = a.length) :
    dist2 (a ++ b) (ya ++ yb) (za ++ zb) = dist2 a ya za + dist2 b yb zb := by
  simp only [dist2]
  rw [List.zip_append (l₁ := ya) (by omega), List.zip_append (by simp; omega)]
  simp

theorem chain_optimal {bs : List Block} (hwf : WF bs) (zs : List ℚ)
    (hlen : zs.length = bs.flatten.length) (hz : Nondecr zs) :
    cost bs.flatten (expandQ bs) + dist2 bs.flatten (expandQ bs) zs ≤ cost bs.flatten zs := by
  induction bs generalizing zs with
  | nil => simp [cost, dist2, expandQ]
  | cons b bs ih =>
    obtain ⟨hb, hw, pm⟩ := hwf b (by simp)
    have hwf' : WF bs := fun c hc => hwf c (by simp [hc])
    rw [List.flatten_cons, List.length_append] at hlen
    have hsplit : zs = zs.take b.length ++ zs.drop b.length := (List.take_append_drop _ _).symm
    have hl1 : (zs.take b.length).length = b.length := by rw [List.length_take]; omega
    have hl2 : (zs.drop b.length).length = bs.flatten.length := by rw [List.length_drop]; omega
    have hz1 : Nondecr (zs.take b.length) := by rw [hsplit] at hz; exact Nondecr_append_left hz
    have hz2 : Nondecr (zs.drop b.length) := by rw [hsplit] at hz; exact Nondecr_append_right hz
    have e : expandQ (b :: bs) = (b.map fun _ => b.mean) ++ expandQ bs := by simp [expandQ]
    have hb1 := block_optimal hb hw pm (zs.take b.length) hl1 hz1
    have hb2 := ih hwf' (zs.drop b.length) hl2 hz2
    rw [List.flatten_cons, e]
    conv_rhs => rw [hsplit]
    conv_lhs => rw [hsplit]
    rw [cost_append _ _ _ _ (by simp), cost_append _ _ _ _ hl1,
      dist2_append _ _ _ _ _ _ (by simp) hl1]
    linarith

#print axioms chain_optimal
