import Mathlib.Algebra.BigOperators.Group.Finset.Basic
import Mathlib.Algebra.BigOperators.Ring.Finset
import Mathlib.Algebra.Order.BigOperators.Group.Finset
import Mathlib.Data.Rat.Defs
import Mathlib.Algebra.Order.Field.Rat
import Mathlib.Tactic.Ring
import Mathlib.Tactic.Linarith
import Mathlib.Data.Fintype.BigOperators

open Finset

variable {n m : ℕ}

structure QP (n m : ℕ) where
  d : Fin n → ℚ
  w : Fin n → ℚ
  l : Fin m → Fin n
  r : Fin m → Fin n
  g : Fin m → ℚ

namespace QP
variable (P : QP n m)

def cost (x : Fin n → ℚ) : ℚ := ∑ i, P.w i * (x i - P.d i)^2
def slack (x : Fin n → ℚ) (c : Fin m) : ℚ := x (P.r c) - x (P.l c) - P.g c
def net (lam : Fin m → ℚ) (i : Fin n) : ℚ :=
  ∑ c, lam c * ((if P.r c = i then 1 else 0) - (if P.l c = i then 1 else 0))
def Stationary (x : Fin n → ℚ) (lam : Fin m → ℚ) : Prop :=
  ∀ i, 2 * P.w i * (x i - P.d i) = P.net lam i

theorem sum_mul_net (a : Fin n → ℚ) (lam : Fin m → ℚ) :
    ∑ i, a i * P.net lam i = ∑ c, lam c * (a (P.r c) - a (P.l c)) := by
  unfold net
  simp only [Finset.mul_sum]
  rw [Finset.sum_comm]
  apply Finset.sum_congr rfl
  intro c _
  have h1 : ∀ i, a i * (lam c * ((if P.r c = i then 1 else 0) - (if P.l c = i then 1 else 0)))
      = lam c * ((if P.r c = i then a i else 0) - (if P.l c = i then a i else 0)) := by
    intro i; split_ifs <;> ring
  simp only [h1, ← Finset.mul_sum, Finset.sum_sub_distrib, Finset.sum_ite_eq, Finset.mem_univ, if_true]

theorem weak_duality (x z : Fin n → ℚ) (lam : Fin m → ℚ)
    (hst : P.Stationary x lam) (hlam : ∀ c, 0 ≤ lam c) (hz : ∀ c, 0 ≤ P.slack z c) :
    P.cost x - ∑ c, lam c * P.slack x c + ∑ i, P.w i * (z i - x i)^2 ≤ P.cost z := by
  have key : P.cost z - P.cost x - ∑ i, P.w i * (z i - x i)^2
      = ∑ c, lam c * (P.slack z c - P.slack x c) := by
    have : ∀ c, P.slack z c - P.slack x c = (z (P.r c) - x (P.r c)) - (z (P.l c) - x (P.l c)) := by
      intro c; unfold slack; ring
    simp only [this]
    rw [← P.sum_mul_net (fun i => z i - x i) lam]
    unfold cost
    rw [← Finset.sum_sub_distrib, ← Finset.sum_sub_distrib]
    apply Finset.sum_congr rfl
    intro i _
    rw [← hst i]; ring
  have hpos : 0 ≤ ∑ c, lam c * P.slack z c :=
    Finset.sum_nonneg (fun c _ => mul_nonneg (hlam c) (hz c))
  have : ∑ c, lam c * (P.slack z c - P.slack x c)
      = ∑ c, lam c * P.slack z c - ∑ c, lam c * P.slack x c := by
    rw [← Finset.sum_sub_distrib]; apply Finset.sum_congr rfl; intro c _; ring
  linarith
end QP
#print axioms QP.weak_duality
