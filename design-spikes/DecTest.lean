import Proj.Chain

def inst : List Block := [[⟨1, 0⟩], [⟨1, -1/100⟩], [⟨1, -3/200⟩], [⟨10000000000, 5⟩], [⟨1, 9/2⟩]]

#eval expand (satisfy (1/10000000000) 5 inst)

theorem t1 : (satisfy (1/10000000000) 5 inst).length = 2 := by decide +kernel

theorem t2 : expand (satisfy (1/10000000000) 5 inst) = [-1/120, -1/120, -1/120, 100000000009/20000000002, 100000000009/20000000002] := by
  decide +kernel
#print axioms t2
