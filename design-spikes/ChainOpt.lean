import Proj.ChainLoop
import Mathlib.Tactic.NormNum
import Mathlib.Tactic.Abel

/-! optimality of the pooled solution: Abel summation against the prefix-residual invariant -/

def dot (l : List (ℚ × ℚ)) : ℚ := (l.map fun p => p.1 * p.2).sum
def sumR (l : List (ℚ × ℚ)) : ℚ := (l.map Prod.snd).sum
def lastZ (z : ℚ) : List (ℚ × ℚ) → ℚ
  | [] => z
  | p :: l => lastZ p.1 l
def Mono : ℚ → List (ℚ × ℚ) → Prop
  | _, [] => True
  | z, p :: l => z ≤ p.1 ∧ Mono p.1 l

theorem abel (l : List (ℚ × ℚ)) (z c : ℚ) (hc : c ≤ 0) (hm : Mono z l)
    (hpre : ∀ k, c + sumR (l.take k) ≤ 0) :
    lastZ z l * (c + sumR l) ≤ c * z + dot l := by
  induction l generalizing z c with
  | nil => simp [lastZ, sumR, dot]; linarith [mul_comm z c]
  | cons p l ih =>
    obtain ⟨z1, r1⟩ := p
    simp only [Mono] at hm
    have hc' : c + r1 ≤ 0 := by
      have := hpre 1
      simpa [sumR] using this
    have hpre' : ∀ k, (c + r1) + sumR (l.take k) ≤ 0 := by
      intro k
      have := hpre (k + 1)
      simp only [List.take_succ_cons, sumR, List.map_cons, List.sum_cons] at this
      simp only [sumR]; linarith
    have := ih z1 (c + r1) hc' hm.2 hpre'
    simp only [lastZ, sumR, dot, List.map_cons, List.sum_cons] at *
    nlinarith [hm.1]

/-- nondecreasing list -/
def Nondecr : List ℚ → Prop
  | [] => True
  | [_] => True
  | a :: b :: l => a ≤ b ∧ Nondecr (b :: l)

theorem Nondecr.tail {a : ℚ} {l : List ℚ} (h : Nondecr (a :: l)) : Nondecr l := by
  cases l with
  | nil => trivial
  | cons b l => exact h.2

theorem Mono_of_Nondecr (z : ℚ) (zs rs : List ℚ) (h : Nondecr (z :: zs)) : Mono z (zs.zip rs) := by
  induction zs generalizing z rs with
  | nil => simp [Mono]
  | cons a zs ih =>
    cases rs with
    | nil => simp [Mono]
    | cons r rs =>
      simp only [List.zip_cons_cons, Mono]
      exact ⟨h.1, ih a rs h.2⟩

theorem Nondecr_append_left {l1 l2 : List ℚ} (h : Nondecr (l1 ++ l2)) : Nondecr l1 := by
  induction l1 with
  | nil => trivial
  | cons a l1 ih =>
    cases l1 with
    | nil => trivial
    | cons b l1 =>
      simp only [List.cons_append, Nondecr] at h ⊢
      exact ⟨h.1, ih h.2⟩

theorem Nondecr_append_right {l1 l2 : List ℚ} (h : Nondecr (l1 ++ l2)) : Nondecr l2 := by
  induction l1 with
  | nil => simpa using h
  | cons a l1 ih => exact ih (Nondecr.tail h)

/-- Σ zᵢ rᵢ ≥ 0 for nondecreasing z, prefix sums of r ≤ 0, total 0 -/
theorem abel0 (zs rs : List ℚ) (hlen : zs.length = rs.length) (hz : Nondecr zs)
    (hpre : ∀ k, (rs.take k).sum ≤ 0) (htot : rs.sum = 0) :
    0 ≤ ((zs.zip rs).map fun p => p.1 * p.2).sum := by
  cases zs with
  | nil => simp
  | cons z zs' =>
    have hsnd : ∀ (a b : List ℚ), a.length = b.length → (a.zip b).map Prod.snd = b := by
      intro a b h; exact List.map_snd_zip (by omega)
    have hm : Mono z ((z :: zs').zip rs) := by
      cases rs with
      | nil => simp [Mono]
      | cons r rs' =>
        simp only [List.zip_cons_cons, Mono]
        exact ⟨le_refl _, Mono_of_Nondecr z zs' rs' hz⟩
    have hpre' : ∀ k, (0:ℚ) + sumR (((z :: zs').zip rs).take k) ≤ 0 := by
      intro k
      have : (((z :: zs').zip rs).take k).map Prod.snd = rs.take k := by
        have : ((z :: zs').zip rs).take k = ((z :: zs').take k).zip (rs.take k) := by
          simp only [List.zip]; exact List.take_zipWith
        rw [this, List.map_snd_zip]
        simp only [List.length_take]; omega
      simp only [sumR, this, zero_add]; exact hpre k
    have h := abel ((z :: zs').zip rs) z 0 (le_refl _) hm hpre'
    have hs : sumR ((z :: zs').zip rs) = 0 := by
      simp only [sumR]; rw [hsnd _ _ hlen]; exact htot
    rw [hs] at h
    simp only [dot] at h
    linarith

#print axioms abel0
