"""Integer-millisecond reference semantics of labella.d3_time and TimeScale.ticks/nice (port target for Model/Calendar.lean)."""
import math
from fractions import Fraction as F
DAY=86400000
def is_leap(y): return (y%4==0 and y%100!=0) or y%400==0
def dby(y): return 365*(y-1970)+(y-1969)//4-(y-1901)//100+(y-1601)//400
def year_of_day(n):
    y0=1970+(n*400)//146097
    if n<dby(y0): return y0-1
    if n>=dby(y0+1): return y0+1
    return y0
ML=[31,28,31,30,31,30,31,31,30,31,30,31]
def mlen(y,m): return 29 if (m==2 and is_leap(y)) else ML[m-1]
def civil(n):
    y=year_of_day(n); doy=n-dby(y); m=1
    while doy>=mlen(y,m): doy-=mlen(y,m); m+=1
    return y,m,doy+1
def days(y,m,d): return dby(y)+sum(mlen(y,k) for k in range(1,m))+d-1
def weekday_sun0(n): return (n+4)%7   # 1970-01-01 was a Thursday (4)
# --- intervals on ms instants
def floor_(u,t):
    if u=='second': return t//1000*1000
    if u=='minute': return t//60000*60000
    if u=='hour': return t//3600000*3600000
    d=t//DAY
    if u=='day': return d*DAY
    if u=='week': return (d-weekday_sun0(d))*DAY
    y,m,dd=civil(d)
    if u=='month': return days(y,m,1)*DAY
    if u=='year': return days(y,1,1)*DAY
def step(u,t,k):
    if u=='second': return t+k*1000
    if u=='minute': return t+k*60000
    if u=='hour': return t+k*3600000
    if u=='day': return t+k*DAY
    if u=='week': return t+7*k*DAY
    d=t//DAY; rem=t-d*DAY; y,m,dd=civil(d)
    if u=='month':
        mm=m-1+k; return days(y+mm//12, mm%12+1, dd)*DAY+rem
    if u=='year': return days(y+k,m,dd)*DAY+rem
def ceil_(u,t): return step(u,floor_(u,t-1),1)
def number(u,t):
    d=t//DAY; y,m,dd=civil(d)
    if u=='second': return t%60000//1000
    if u=='minute': return t%3600000//60000
    if u=='hour': return t%DAY//3600000
    if u=='day': return dd-1
    if u=='month': return m-1
    if u=='year': return y
    if u=='week':
        jan1=days(y,1,1); day=weekday_sun0(jan1); doy=d-jan1
        return (doy+(day+7)%7)//7-(1 if day!=7 else 0)
def range_(u,t0,t1,dt):
    t=ceil_(u,t0); out=[]
    while t<t1:
        if dt<=1 or number(u,t)%dt==0: out.append(t)
        t=step(u,t,1)
    return out
STEPS=[1000,5000,15000,30000,60000,300000,900000,1800000,3600000,10800000,21600000,43200000,86400000,172800000,604800000,2592000000,7776000000,31536000000]
METHODS=[('second',1),('second',5),('second',15),('second',30),('minute',1),('minute',5),('minute',15),('minute',30),('hour',1),('hour',3),('hour',6),('hour',12),('day',1),('day',2),('week',1),('month',1),('month',3),('year',1)]
def floor_log10(q):
    k=0
    while F(10)**k>q: k-=1
    while F(10)**(k+1)<=q: k+=1
    return k
def lin_step(lo,hi,m):
    span=F(hi)-F(lo)
    if span==0: return F(0)
    st=F(10)**floor_log10(span/m); err=m/span*st
    if err<=F(15,100): st*=10
    elif err<=F(35,100): st*=5
    elif err<=F(75,100): st*=2
    return st
def tick_method(e0,e1,count):
    span=e1-e0; target=F(span,count)
    i=0
    while i<len(STEPS) and not STEPS[i]>target: i+=1   # bisect right
    if i==len(STEPS): return ('year', lin_step(F(e0,31536000000),F(e1,31536000000),count))
    if i==0: return ('ms', lin_step(e0,e1,count))
    if target/STEPS[i-1] < STEPS[i]/target: return METHODS[i-1]
    return METHODS[i]
def ms_range(t0,t1,st):
    st=max(1,math.floor(st)); a=-((-t0)//st)*st   # ceil(t0/st)*st
    return list(range(a,t1,st))
def ticks(d0,d1,count=10):
    e0,e1=min(d0,d1),max(d0,d1)
    u,skip=tick_method(e0,e1,count)
    if u=='ms': return ms_range(e0,e1+1,1 if skip<1 else skip)
    return range_(u,e0,e1+1,1 if skip<1 else skip)
def nice(d0,d1,count=10):
    e0,e1=min(d0,d1),max(d0,d1)
    u,skip=tick_method(e0,e1,count)
    if u=='ms': fl=cl=lambda t:t
    else: fl=lambda t:floor_(u,t); cl=lambda t:ceil_(u,t)
    def skipped(t):
        if u=='ms': return len(ms_range(t,t+1,skip))==0
        return len(range_(u,t,t+1,skip))==0
    def nf(t):
        t=fl(t)
        while skipped(t): t=fl(t-1)
        return t
    def nc(t):
        t=cl(t)
        while skipped(t): t=cl(t+1)
        return t
    if skip>1: lo,hi=nf(e0),nc(e1)
    else: lo,hi=fl(e0),cl(e1)
    return (lo,hi) if d0<=d1 else (hi,lo)
