def isLeap (y : Int) : Bool := (y % 4 == 0 && y % 100 != 0) || y % 400 == 0
def yearLen (y : Int) : Int := if isLeap y then 366 else 365
def daysBeforeYear (y : Int) : Int :=
  365 * (y - 1970) + (y - 1969) / 4 - (y - 1901) / 100 + (y - 1601) / 400

theorem daysBeforeYear_succ (y : Int) : daysBeforeYear (y + 1) = daysBeforeYear y + yearLen y := by
  unfold daysBeforeYear yearLen isLeap
  by_cases h4 : y % 4 = 0 <;> by_cases h100 : y % 100 = 0 <;> by_cases h400 : y % 400 = 0 <;>
    simp [h4, h100, h400] <;> omega

/-- 400·dby(y) stays within a fixed band around 146097·(y-1970) -/
theorem dby_band (y : Int) :
    146097 * (y - 1970) - 600 ≤ 400 * daysBeforeYear y ∧ 400 * daysBeforeYear y ≤ 146097 * (y - 1970) + 600 := by
  unfold daysBeforeYear; omega

def yearOfDay (n : Int) : Int :=
  let y0 := 1970 + (n * 400) / 146097
  if n < daysBeforeYear y0 then y0 - 1
  else if n ≥ daysBeforeYear (y0 + 1) then y0 + 1
  else y0

theorem yearOfDay_spec (n : Int) :
    daysBeforeYear (yearOfDay n) ≤ n ∧ n < daysBeforeYear (yearOfDay n + 1) := by
  unfold yearOfDay
  simp only
  generalize hy : 1970 + n * 400 / 146097 = y0
  have hb0 := dby_band y0
  have hbm := dby_band (y0 - 1)
  have hbp := dby_band (y0 + 1)
  have hbpp := dby_band (y0 + 1 + 1)
  have s0 := daysBeforeYear_succ y0
  have sm := daysBeforeYear_succ (y0 - 1)
  have sp := daysBeforeYear_succ (y0 + 1)
  have l0 : 365 ≤ yearLen y0 ∧ yearLen y0 ≤ 366 := by unfold yearLen; split <;> omega
  have lm : 365 ≤ yearLen (y0 - 1) ∧ yearLen (y0 - 1) ≤ 366 := by unfold yearLen; split <;> omega
  have lp : 365 ≤ yearLen (y0 + 1) ∧ yearLen (y0 + 1) ≤ 366 := by unfold yearLen; split <;> omega
  have e1 : y0 - 1 + 1 = y0 := by omega
  rw [e1] at sm
  split
  · rw [e1]; constructor <;> omega
  · split
    · constructor <;> omega
    · constructor <;> omega
#print axioms yearOfDay_spec
