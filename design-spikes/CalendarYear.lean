def isLeap (y : Int) : Bool := (y % 4 == 0 && y % 100 != 0) || y % 400 == 0
def yearLen (y : Int) : Int := if isLeap y then 366 else 365
def daysBeforeYear (y : Int) : Int :=
  365 * (y - 1970) + (y - 1969) / 4 - (y - 1901) / 100 + (y - 1601) / 400

theorem daysBeforeYear_succ (y : Int) : daysBeforeYear (y + 1) = daysBeforeYear y + yearLen y := by
  unfold daysBeforeYear yearLen isLeap
  by_cases h4 : y % 4 = 0 <;> by_cases h100 : y % 100 = 0 <;> by_cases h400 : y % 400 = 0 <;>
    simp [h4, h100, h400] <;> omega

/-- year containing day number n (days since 1970-01-01) -/
def yearOfDay (n : Int) : Int :=
  let y0 := 1970 + (n * 400) / 146097   -- estimate (may be off by one)
  if n < daysBeforeYear y0 then y0 - 1
  else if n ≥ daysBeforeYear (y0 + 1) then y0 + 1
  else y0

theorem yearOfDay_spec (n : Int) :
    daysBeforeYear (yearOfDay n) ≤ n ∧ n < daysBeforeYear (yearOfDay n + 1) := by
  unfold yearOfDay
  simp only
  split
  · unfold daysBeforeYear at *; omega
  · split
    · unfold daysBeforeYear at *; omega
    · unfold daysBeforeYear at *; omega

#eval daysBeforeYear 1970
#eval daysBeforeYear 2000
#eval yearOfDay 10957
#eval yearOfDay 10956
#print axioms yearOfDay_spec
