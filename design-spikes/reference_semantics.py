"""Reference semantics validated against the real code in exact (Fraction) arithmetic
while designing (see DESIGN.md section 3).  These are the functions the Lean models
Model/Chain.lean and Model/Layout.lean are ports of.  Not part of the framework.

Validated on the repaired scratch tree:
  chain_model  == removeOverlap.removeOverlap (+vpsc.Solver)   3000/3000 random layers
  model        == Distributor.distribute                       4000/4000 (element order included)
  force_model  == Force.compute (layers, stub chains, positions) 2500/2500
"""
import math
from fractions import Fraction as F

EPS=F(1,10**10)
def chain_model(items, opts):
    # items: (target,width,isStub) in list order; returns rounded positions in sorted order + order
    idx=sorted(range(len(items)), key=lambda i: items[i][0])   # stable
    it=[items[i] for i in idx]
    ws=[F(1)]*len(it); ts=[F(x[0]) for x in it]; gaps=[]
    for a,b in zip(it,it[1:]):
        sp=opts['lineSpacing'] if (a[2] and b[2]) else opts['nodeSpacing']
        gaps.append((F(a[1])+F(b[1]))/2+F(sp))
    if opts.get('minPos') is not None:
        ws=[F(10**10)]+ws; ts=[F(opts['minPos'])]+ts; gaps=[F(it[0][1])/2]+gaps; left=1
    else: left=0
    if opts.get('maxPos') is not None:
        ws=ws+[F(10**10)]; ts=ts+[F(opts['maxPos'])]; gaps=gaps+[F(it[-1][1])/2]
    G=[F(0)]
    for g in gaps: G.append(G[-1]+g)
    blocks=[[ (ws[i], ts[i]-G[i]) ] for i in range(len(ws))]
    mean=lambda b: sum(w*t for w,t in b)/sum(w for w,t in b)
    while True:
        sl=[mean(blocks[k+1])-mean(blocks[k]) for k in range(len(blocks)-1)]
        if not sl: break
        m=min(sl); k=sl.index(m)
        if m < -EPS: blocks[k:k+2]=[blocks[k]+blocks[k+1]]
        else: break
    ys=[]
    for b in blocks: ys += [mean(b)]*len(b)
    xs=[y+G[i] for i,y in enumerate(ys)]
    xs=xs[left:left+len(it)]
    return idx,[round(x) for x in xs],xs

def ceil_div(a,b):  # ceil of rational a/b
    q=a/b; return math.ceil(q)
def model(labels, o):
    """labels: list of (pos,width); returns list of layers, each list of ('L',i) or ('S',i,level)"""
    n=len(labels)
    if n==0: return []
    ids=list(range(n))
    if o['algorithm']=='none': return [[('L',i) for i in ids]]
    ids=sorted(ids,key=lambda i: labels[i][0])
    req=lambda L: sum(labels[i][1] for i in L)+o['nodeSpacing']*(len(L)-1)
    W=o['layerWidth']
    if not W: return [[('L',i) for i in ids]]
    maxW=o['density']*W
    nl=math.ceil(req(ids)/maxW)
    if not nl>1: return [[('L',i) for i in ids]]
    if o['algorithm']=='simple':
        layers=[[] for _ in range(nl)]
        for k,i in enumerate(ids):
            mod=k%nl; layers[mod].append(('L',i))
            for j in range(mod-1,-1,-1): layers[j].append(('S',i,j))
        return layers
    # overlap
    lab_layers=[]
    punted=ids[:]; pw=req(punted)
    while pw>maxW:
        left=lambda i: labels[i][0]-labels[i][1]/2; right=lambda i: labels[i][0]+labels[i][1]/2
        ov={i:[j for j in punted if left(j)<right(i) and right(j)>left(i)] for i in punted}
        cnt={i:len(ov[i]) for i in punted}
        cur=punted[:]; cw=pw; punted=[]
        while len(cur)>2 and cw>maxW:
            cur.sort(key=lambda i:-cnt[i])   # stable, descending
            h=cur.pop(0); cw=cw-labels[h][1]+o['stubWidth']
            for j in ov[h]: cnt[j]-=1
            punted.append(h)
        lab_layers.append(cur)
        pw=req(punted) if punted else -o['nodeSpacing']
    if punted: lab_layers.append(punted)
    layers=[[('L',i) for i in L] for L in lab_layers]
    for i in range(len(lab_layers)-1,0,-1):
        for lab in lab_layers[i]:
            for j in range(i-1,-1,-1): layers[j].append(('S',lab,j))
    return layers

