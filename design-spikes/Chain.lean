/-! Chain (path-graph) separation solver: pool-adjacent-violators, most violated first. -/
structure Item where
  w : Rat
  t : Rat
deriving Repr

abbrev Block := List Item

def Block.sumW (b : Block) : Rat := (b.map (·.w)).sum
def Block.sumWT (b : Block) : Rat := (b.map (fun i => i.w * i.t)).sum
def Block.mean (b : Block) : Rat := b.sumWT / b.sumW

def slacks : List Block → List Rat
  | a :: b :: rest => (b.mean - a.mean) :: slacks (b :: rest)
  | _ => []

/-- first index holding the minimum -/
def argmin : List Rat → Option (Nat × Rat)
  | [] => none
  | x :: xs =>
    match argmin xs with
    | none => some (0, x)
    | some (k, y) => if y < x then some (k+1, y) else some (0, x)

def mergeAt : Nat → List Block → List Block
  | 0, a :: b :: rest => (a ++ b) :: rest
  | k+1, a :: rest => a :: mergeAt k rest
  | _, l => l

def satisfy (eps : Rat) : Nat → List Block → List Block
  | 0, bs => bs
  | fuel+1, bs =>
    match argmin (slacks bs) with
    | some (k, s) => if s < -eps then satisfy eps fuel (mergeAt k bs) else bs
    | none => bs

def expand (bs : List Block) : List Rat :=
  bs.flatMap (fun b => b.map (fun _ => b.mean))
