import sys, random, collections, math
from fractions import Fraction as F
sys.path.insert(0, sys.argv[1])
from labella import vpsc
rnd=random.Random(int(sys.argv[2])); N=int(sys.argv[3]); exact=sys.argv[4]=='exact'
if exact: vpsc.Variable.dfdv=lambda self: 2*self.weight*(self.position()-self.desiredPosition)
conv=F if exact else (lambda x:x)
nsplit=[0]
osplit=vpsc.Block.split.__func__
def split(cls,c):
    nsplit[0]+=1; return osplit(cls,c)
vpsc.Block.split=classmethod(split)
def cert(des,wts,scs,cs,X,lam):
    n=len(des)
    f=sum(F(w)*(F(xi)-F(d))**2 for w,xi,d in zip(wts,X,des))
    lam=[max(F(l),F(0)) for l in lam]
    net=[F(0)]*n
    for (a,b,g),l in zip(cs,lam):
        net[b]+=l*F(scs[b]); net[a]-=l*F(scs[a])
    xs=[F(d)+net[i]/(2*F(wts[i])) for i,d in enumerate(des)]
    fs=sum(F(w)*(xi-F(d))**2 for w,xi,d in zip(wts,xs,des))
    lb=fs-sum(l*(F(scs[b])*xs[b]-F(g)-F(scs[a])*xs[a]) for (a,b,g),l in zip(cs,lam))
    return f,lb
cnt=collections.Counter(); passes=collections.Counter()
for it in range(N):
    n=rnd.randint(2,30)
    des=[rnd.choice([rnd.randint(0,50), rnd.randint(0,100)/2, rnd.uniform(0,50)]) for _ in range(n)]
    wts=[rnd.choice([1,1,1,0.01,0.5,2,10,1e3,1e10]) for _ in range(n)]
    scs=[1]*n if rnd.random()<0.7 else [rnd.choice([0.5,1,2,4]) for _ in range(n)]
    m=rnd.randint(0,4*n); cs=[]
    for _ in range(m):
        a,b=rnd.sample(range(n),2)
        if a>b: a,b=b,a
        cs.append((a,b,rnd.choice([0,1,2,0.5,rnd.uniform(0,5)])))
    vs=[vpsc.Variable(conv(d),conv(w),conv(s)) for d,w,s in zip(des,wts,scs)]
    C=[vpsc.Constraint(vs[a],vs[b],conv(g)) for a,b,g in cs]
    s=vpsc.Solver(vs,C); s.solve()
    def gap():
        s.bs.forEach(lambda b: b.findMinLM())
        f,lb=cert(des,wts,scs,cs,[v.position() for v in vs],[(c.lm if c.active else 0) for c in C])
        return float(f-lb), float(f)
    g0,f0=gap()
    if g0<=1e-6*(1+f0): cnt['opt_at_solve']+=1; continue
    cnt['subopt_at_solve']+=1
    k=0
    while k<200:
        nsplit[0]=0; s.satisfy(); k+=1
        if nsplit[0]==0: break
    g1,f1=gap()
    passes[k]+=1
    if g1<=1e-6*(1+f1): cnt['fixed_by_extra']+=1
    else: cnt['still_subopt']+=1; print('still',n,m,g1,f1,k)
print(cnt, sorted(passes.items()))
