import sys
from fractions import Fraction as F
sys.path.insert(0, sys.argv[1])
from labella import vpsc
vpsc.Variable.dfdv=lambda self: 2*self.weight*(self.position()-self.desiredPosition)
des=[9, 10, 9, 7, 0]; wts=[10**10, 1, 10, 10**10, 1]; cs=[(2, 3, 0), (1, 4, 3), (0, 4, 1), (2, 4, 2), (1, 2, 1)]
vs=[vpsc.Variable(F(d),F(w)) for d,w in zip(des,wts)]
for i,v in enumerate(vs): v.name=i
C=[vpsc.Constraint(vs[a],vs[b],F(g)) for a,b,g in cs]
for c,(a,b,g) in zip(C,cs): c.name=(a,b,g)
s=vpsc.Solver(vs,C)
om=s.bs
orig_merge=vpsc.Blocks.merge
def merge(self,c):
    print('  merge',c.name,'slack',float(c.slack())); orig_merge(self,c)
vpsc.Blocks.merge=merge
orig_split=vpsc.Block.split.__func__
def split(cls,c):
    print('  split',c.name,'lm',float(c.lm)); return orig_split(cls,c)
vpsc.Block.split=classmethod(split)
orig_sat=vpsc.Solver.satisfy
def sat(self):
    print('satisfy'); orig_sat(self); print('  pos',[float(v.position()) for v in vs],'cost',float(self.bs.cost()),'active',[c.name for c in C if c.active],'inactive list',[c.name for c in self.inactive])
vpsc.Solver.satisfy=sat
print(s.solve())
