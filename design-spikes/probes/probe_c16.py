import sys, random, collections, math
sys.path.insert(0, sys.argv[1])
import datetime as dt
from labella.scale import TimeScale
D=dt.datetime; TD=dt.timedelta
rnd=random.Random(int(sys.argv[2]))
cnt=collections.Counter(); bad=[]
def rand_t():
    d=D(1900,1,1)+TD(days=rnd.randrange(0,109000))
    k=rnd.random()
    if k<0.3: return d
    if k<0.5: return d+TD(hours=rnd.randrange(24))
    return d+TD(milliseconds=rnd.randrange(86400000))
spans=[1,3,7,8,9,10,50,500,5e3,6e4,36e5,864e5,3*864e5,6048e5,2592e6,7776e6,31536e6,5*31536e6,50*31536e6,250*31536e6]
N=int(sys.argv[3])
for it in range(N):
    a=rand_t()
    sp=rnd.choice(spans)*rnd.uniform(0.3,3)
    b=a+TD(milliseconds=max(1,round(sp)))
    if b.year>2200: continue
    m=rnd.randint(2,50)
    dom=[a,b] if rnd.random()<0.7 else [b,a]
    s=TimeScale(); s.domain(dom)
    try:
        tk=s.ticks(m)
    except Exception as e:
        cnt['exc',type(e).__name__]+=1
        if len(bad)<8: bad.append((dom,m,repr(e)))
        continue
    span_ms=(b-a)/TD(milliseconds=1)
    n=len(tk)
    ok=True
    if any(not (x<y) for x,y in zip(tk,tk[1:])): cnt['notinc']+=1; ok=False
    if tk and (tk[0]<a-TD(milliseconds=1) or tk[-1]>b+TD(milliseconds=1)): cnt['outside']+=1; ok=False
    lo=m/2.4-1; hi=2.4*m+1
    if span_ms< m:
        if n!=span_ms+1 and n!=span_ms: cnt['msCount']+=1; ok=False
    else:
        if not (lo<=n<=hi): cnt['count']+=1; ok=False; 
    gaps=[(y-x)/TD(milliseconds=1) for x,y in zip(tk,tk[1:])]
    if gaps and max(gaps)>2*min(gaps)+1e-6: cnt['gapratio']+=1; ok=False
    if gaps:
        g=min(gaps)
        for x in tk:
            if g>=1000 and x.microsecond: cnt['align_s']+=1; ok=False;break
            if g>=60000 and x.second: cnt['align_m']+=1; ok=False;break
            if g>=3600000 and x.minute: cnt['align_h']+=1; ok=False;break
            if g>=86400000 and x.hour: cnt['align_d']+=1; ok=False;break
            if g>=28*86400000 and x.day!=1: cnt['align_mo']+=1; ok=False;break
            if g>=365*86400000 and x.month!=1: cnt['align_y']+=1; ok=False;break
    if not ok and len(bad)<12: bad.append((dom,m,n,tk[:4],gaps[:5],(lo,hi)))
    cnt['ok' if ok else 'bad']+=1
print(cnt)
for b in bad: print(b)
