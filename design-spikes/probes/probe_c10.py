import sys, copy
sys.path.insert(0, sys.argv[1])
import datetime as dt
from labella.timeline import TimelineSVG, TimelineTex
A=[{'time':dt.datetime(2020,1,1,6,30),'width':40,'text':'A'},{'time':dt.datetime(2020,1,3,18,0),'width':50,'text':'B'}]
B=[{'time':dt.datetime(1990,5,1),'width':40,'text':'C'},{'time':dt.datetime(1999,1,3),'width':50,'text':'D'},{'time':dt.datetime(1995,1,3),'width':50}]
def ref(cls,d,o): return cls(copy.deepcopy(d),copy.deepcopy(o)).export()
rA=ref(TimelineSVG,A,{'direction':'up'}); 
import subprocess
tA=TimelineSVG(copy.deepcopy(A),{'direction':'up'})
tB=TimelineTex(copy.deepcopy(B),{'direction':'left'})
xA=tA.export(); xB=tB.export(); xA2=tA.export()
print('A same as solo:', xA==rA, 'A twice:', xA==xA2)
tA3=TimelineSVG(copy.deepcopy(A),{'direction':'up'})
print('A after B:', tA3.export()==rA)
print(ref(TimelineTex,B,{'direction':'left'})==xB)
try:
    print(len(TimelineSVG(copy.deepcopy(A)).export()))
except Exception as e: print('None opts', repr(e))
