import sys, random, collections
sys.path.insert(0, sys.argv[1])
import datetime as dt
from labella.d3_time import d3_time
from labella.scale import TimeScale
D=dt.datetime; TD=dt.timedelta
def ofloor(u,t):
    if u=='second': return t.replace(microsecond=0)
    if u=='minute': return t.replace(second=0,microsecond=0)
    if u=='hour': return t.replace(minute=0,second=0,microsecond=0)
    if u=='day': return D(t.year,t.month,t.day)
    if u=='week':
        d=D(t.year,t.month,t.day); return d-TD(days=(d.isoweekday()%7))
    if u=='month': return D(t.year,t.month,1)
    if u=='year': return D(t.year,1,1)
def ostep(u,t,k):
    if u=='second': return t+TD(seconds=k)
    if u=='minute': return t+TD(minutes=k)
    if u=='hour': return t+TD(hours=k)
    if u=='day': return t+TD(days=k)
    if u=='week': return t+TD(days=7*k)
    if u=='month':
        m=t.month-1+k; return t.replace(year=t.year+m//12, month=m%12+1)
    if u=='year': return t.replace(year=t.year+k)
def oceil(u,t):
    f=ofloor(u,t); return f if f==t else ostep(u,f,1)
cnt=collections.Counter()
rnd=random.Random(int(sys.argv[2]) if len(sys.argv)>2 else 0)
units=['second','minute','hour','day','week','month','year']
def rand_t():
    d=D(1900,1,1)+TD(days=rnd.randrange(0,110000))
    k=rnd.random()
    if k<0.2: return d
    if k<0.4: return d+TD(hours=rnd.randrange(24))
    if k<0.6: return d+TD(seconds=rnd.randrange(86400))
    return d+TD(milliseconds=rnd.randrange(86400000))
bad=[]
for i in range(30000):
    t=rand_t()
    for u in units:
        iv=d3_time[u]
        try:
            f=iv.floor(t); c=iv.ceil(t); r=iv.round(t)
        except Exception as e:
            cnt['exc',u,type(e).__name__]+=1
            if len(bad)<10: bad.append((u,t,repr(e)))
            continue
        of,oc=ofloor(u,t),oceil(u,t)
        if abs((f-of).total_seconds())>0: cnt['floor',u]+=1; bad.append(('floor',u,t,f,of)) if len(bad)<10 else None
        if abs((c-oc).total_seconds())>0: cnt['ceil',u]+=1; bad.append(('ceil',u,t,c,oc)) if len(bad)<10 else None
        o1=ostep(u,of,1)
        orr= of if (t-of)<(o1-t) else o1
        if r!=orr: cnt['round',u]+=1; bad.append(('round',u,t,r,orr)) if len(bad)<10 else None
        k=rnd.randrange(0,401)
        try:
            o=iv.offset(of,k)
            if o!=ostep(u,of,k): cnt['offset',u]+=1; bad.append(('offset',u,of,k,o)) if len(bad)<10 else None
        except Exception as e:
            cnt['excoff',u,type(e).__name__]+=1
print(cnt); print(bad[:10])
