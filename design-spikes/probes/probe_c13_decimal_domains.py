import sys, math
sys.path.insert(0, sys.argv[1])
from labella.scale import LinearScale, d3_scale_linearTickRange
bad=[]; cnt=0
for e in range(-4,4):
  unit=10.0**e
  for lo_k in range(-20,21,3):
    for hi_k in range(lo_k+1, lo_k+80):
      for mult in (1,2,5):
        lo=lo_k*unit*mult; hi=hi_k*unit*mult
        for m in (1,2,3,5,7,10,20,50,100):
            s=LinearScale(); s.domain([lo,hi]); tk=list(s.ticks(m)); st=d3_scale_linearTickRange([lo,hi],m)[2]
            n=len(tk); cnt+=1
            if not (math.floor(0.57*m)<=n<=1.43*m+1): bad.append(('count',lo,hi,m,n,st))
            if tk and (tk[0]<lo-1e-9*st or tk[-1]>hi+1e-9*st): bad.append(('outside',lo,hi,m,tk[0],tk[-1]))
            fm=s.tickFormat(m); tx=[fm(x) for x in tk]
            if len(set(tx))!=len(tx): bad.append(('dup',lo,hi,m))
            if any(abs(float(t)-x)>st/1000 for t,x in zip(tx,tk)): bad.append(('readback',lo,hi,m))
print(cnt,len(bad))
import collections; print(collections.Counter(b[0] for b in bad))
for b in bad[:10]: print(b)
