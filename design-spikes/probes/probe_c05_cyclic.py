import sys, random, collections, signal
sys.path.insert(0, sys.argv[1])
from labella import vpsc
rnd=random.Random(int(sys.argv[2])); N=int(sys.argv[3])
cnt=collections.Counter(); bad=[]
class TO(Exception): pass
def h(*a): raise TO()
signal.signal(signal.SIGALRM,h)
for it in range(N):
    n=rnd.randint(2,20)
    des=[rnd.choice([rnd.randint(0,20), rnd.uniform(0,20)]) for _ in range(n)]
    wts=[rnd.choice([1,1,1,0.01,2,10,1e3,1e10]) for _ in range(n)]
    m=rnd.randint(1,3*n); cs=[]
    for _ in range(m):
        a,b=rnd.sample(range(n),2)
        cs.append((a,b,rnd.choice([0,1,2,0.5,rnd.uniform(0,5)])))
    vs=[vpsc.Variable(d,w) for d,w in zip(des,wts)]
    C=[vpsc.Constraint(vs[a],vs[b],g) for a,b,g in cs]
    s=vpsc.Solver(vs,C)
    signal.alarm(5)
    try:
        cost=s.solve()
    except TO:
        cnt['timeout']+=1; bad.append(('timeout',des,wts,cs)); continue
    except RecursionError:
        cnt['rec']+=1; bad.append(('rec',des,wts,cs)); continue
    finally: signal.alarm(0)
    viol=[c.slack() for c in C if not c.unsatisfiable and c.slack()<-1e-6]
    if viol: cnt['violated']+=1; bad.append(('viol',min(viol),des,wts,cs))
    if any(c.unsatisfiable for c in C): cnt['hasunsat']+=1
    cnt['n']+=1
print(cnt)
for b in bad[:3]: print(b)
