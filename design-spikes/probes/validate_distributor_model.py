import sys, random, collections, math
from fractions import Fraction as F
sys.path.insert(0, sys.argv[1])
from labella.distributor import Distributor
from labella.node import Node
def ceil_div(a,b):  # ceil of rational a/b
    q=a/b; return math.ceil(q)
def model(labels, o):
    """labels: list of (pos,width); returns list of layers, each list of ('L',i) or ('S',i,level)"""
    n=len(labels)
    if n==0: return []
    ids=list(range(n))
    if o['algorithm']=='none': return [[('L',i) for i in ids]]
    ids=sorted(ids,key=lambda i: labels[i][0])
    req=lambda L: sum(labels[i][1] for i in L)+o['nodeSpacing']*(len(L)-1)
    W=o['layerWidth']
    if not W: return [[('L',i) for i in ids]]
    maxW=o['density']*W
    nl=math.ceil(req(ids)/maxW)
    if not nl>1: return [[('L',i) for i in ids]]
    if o['algorithm']=='simple':
        layers=[[] for _ in range(nl)]
        for k,i in enumerate(ids):
            mod=k%nl; layers[mod].append(('L',i))
            for j in range(mod-1,-1,-1): layers[j].append(('S',i,j))
        return layers
    # overlap
    lab_layers=[]
    punted=ids[:]; pw=req(punted)
    while pw>maxW:
        left=lambda i: labels[i][0]-labels[i][1]/2; right=lambda i: labels[i][0]+labels[i][1]/2
        ov={i:[j for j in punted if left(j)<right(i) and right(j)>left(i)] for i in punted}
        cnt={i:len(ov[i]) for i in punted}
        cur=punted[:]; cw=pw; punted=[]
        while len(cur)>2 and cw>maxW:
            cur.sort(key=lambda i:-cnt[i])   # stable, descending
            h=cur.pop(0); cw=cw-labels[h][1]+o['stubWidth']
            for j in ov[h]: cnt[j]-=1
            punted.append(h)
        lab_layers.append(cur)
        pw=req(punted) if punted else -o['nodeSpacing']
    if punted: lab_layers.append(punted)
    layers=[[('L',i) for i in L] for L in lab_layers]
    for i in range(len(lab_layers)-1,0,-1):
        for lab in lab_layers[i]:
            for j in range(i-1,-1,-1): layers[j].append(('S',lab,j))
    return layers
rnd=random.Random(int(sys.argv[2])); N=int(sys.argv[3]); cnt=collections.Counter()
for it in range(N):
    n=rnd.randint(0,40); span=rnd.choice([50,200,1000])
    labels=[(F(rnd.randint(0,4*span),4), F(rnd.randint(1,240),4) if rnd.random()<0.9 else F(rnd.randint(1,8*span),4)) for _ in range(n)]
    o={'layerWidth':rnd.choice([None,0,span,F(span,2),span*2,30]), 'density':rnd.choice([F(1,10),F(3,10),F(1,2),F(3,4),F(17,20),1]), 'nodeSpacing':rnd.choice([0,1,3,5,F(5,2)]), 'stubWidth':rnd.choice([0,1,2,5]), 'algorithm':rnd.choice(['overlap','overlap','simple','none'])}
    nodes=[Node(p,w,data=i) for i,(p,w) in enumerate(labels)]
    real=Distributor(dict(o)).distribute(nodes)
    def canon(x):
        if x.isStub():
            # level = position in path from root
            # find owner: follow child chain
            c=x; 
            while c.child: c=c.child
            path=c.getPathFromRoot(); return ('S',c.data,path.index(x))
        return ('L',x.data)
    got=[[canon(x) for x in L] for L in real]
    exp=model(labels,o)
    if got!=exp:
        cnt['mismatch']+=1
        if cnt['mismatch']<3: print('MISMATCH',labels,o,'\n got',got,'\n exp',exp)
    else: cnt['ok',o['algorithm'],len(exp)>1]+=1
print(cnt)
