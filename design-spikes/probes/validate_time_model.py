import sys, random, collections
sys.path.insert(0, sys.argv[1]); sys.path.insert(0,'/tmp/exp')
import datetime as dt
from labella.scale import TimeScale
from labella.d3_time import d3_time
import timeref as R
E=dt.datetime(1970,1,1); TD=dt.timedelta
ms=lambda t: ((t-E)//TD(microseconds=1000))
def exact_ms(t):
    us=(t-E)//TD(microseconds=1); return us/1000
frm=lambda m: E+TD(milliseconds=m)
rnd=random.Random(int(sys.argv[2])); N=int(sys.argv[3]); cnt=collections.Counter(); bad=[]
units=['second','minute','hour','day','week','month','year']
spans=[1,3,7,8,9,10,50,500,5e3,6e4,36e5,864e5,3*864e5,6048e5,2592e6,7776e6,31536e6,5*31536e6,50*31536e6,250*31536e6]
for it in range(N):
    a=dt.datetime(1900,1,1)+TD(days=rnd.randrange(0,109000))
    if rnd.random()<0.7: a+=TD(milliseconds=rnd.randrange(86400000))
    A=ms(a)
    for u in units:
        iv=d3_time[u]
        if ms(iv.floor(a))!=R.floor_(u,A): cnt['floor',u]+=1
        if ms(iv.ceil(a))!=R.ceil_(u,A): cnt['ceil',u]+=1
        f=iv.floor(a)
        if iv._number(f)!=R.number(u,ms(f)): cnt['number',u]+=1; bad.append((u,f,iv._number(f),R.number(u,ms(f))))
        k=rnd.randrange(0,50)
        if ms(iv.offset(f,k))!=R.step(u,ms(f),k): cnt['offset',u]+=1
    sp=rnd.choice(spans)*rnd.uniform(0.3,3); b=a+TD(milliseconds=max(1,round(sp)))
    if b.year>2200: continue
    B=ms(b); m=rnd.randint(2,50)
    dom=[a,b] if rnd.random()<0.7 else [b,a]
    s=TimeScale(); s.domain(dom)
    tk=[ms(x) for x in s.ticks(m)]
    exp=R.ticks(ms(dom[0]),ms(dom[1]),m)
    if tk!=exp: cnt['ticks']+=1; bad.append(('ticks',dom,m,tk[:4],exp[:4],len(tk),len(exp)))
    if B-A>=10:
        s2=TimeScale(); s2.domain(dom); s2.nice(m); nd=[exact_ms(x) for x in s2.domain()]
        en=R.nice(ms(dom[0]),ms(dom[1]),m)
        if [round(x) for x in nd]!=list(en) or any(abs(x-round(x))>1e-3 for x in nd): cnt['nice']+=1; bad.append(('nice',dom,m,nd,en))
    u=rnd.choice(units); st=rnd.randint(1,12)
    unit_ms={'second':1e3,'minute':6e4,'hour':36e5,'day':864e5,'week':6048e5,'month':2592e6,'year':31536e6}[u]
    r1=[ms(x) for x in d3_time[u].range(a,b,st)] if (B-A)/unit_ms<3000 else None
    if r1 is not None and r1!=R.range_(u,A,B,st): cnt['range',u]+=1
    cnt['n']+=1
print(cnt)
for b in bad[:6]: print(b)
