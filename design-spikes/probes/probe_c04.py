import sys, random, collections, math
sys.path.insert(0, sys.argv[1])
from labella.force import Force
from labella.node import Node
from labella.distributor import Distributor
rnd=random.Random(int(sys.argv[2])); N=int(sys.argv[3])
cnt=collections.Counter(); bad=[]
for it in range(N):
    n=rnd.randint(1,40); span=rnd.choice([50,200,1000])
    labels=[(rnd.choice([rnd.randint(0,span), rnd.randint(0,2*span)/2, rnd.uniform(0,span)]), rnd.choice([rnd.randint(1,60), rnd.randint(1,120)/2, rnd.uniform(0.5,2*span)])) for _ in range(n)]
    opts={'layerWidth':rnd.choice([None,span,span/2,span*2,30]), 'density':rnd.choice([0.1,0.3,0.5,0.75,0.85,1]), 'nodeSpacing':rnd.choice([0,1,3,5,2.5]), 'stubWidth':rnd.choice([0,1,2,5]), 'algorithm':rnd.choice(['overlap','overlap','simple','none'])}
    nodes=[Node(p,w,data=i) for i,(p,w) in enumerate(labels)]
    d=Distributor(opts)
    try: layers=d.distribute(nodes)
    except Exception as e:
        cnt['exc',type(e).__name__]+=1; bad.append((labels,opts,repr(e))); continue
    labs=[[x for x in L if not x.isStub()] for L in layers]
    stubs=[[x for x in L if x.isStub()] for L in layers]
    flat=[x for L in labs for x in L]
    if sorted(map(id,flat))!=sorted(map(id,nodes)): cnt['conserve']+=1; bad.append(('conserve',labels,opts))
    if any(len(L)==0 for L in layers) : cnt['emptylayer',opts['algorithm']]+=1
    # contiguous
    used=[i for i,L in enumerate(labs) if L]
    if used!=list(range(len(used))): cnt['noncontig']+=1; bad.append(('noncontig',labels,opts,[len(L) for L in labs]))
    for k,L in enumerate(labs):
        for nd in L:
            path=nd.getPathFromRoot()
            if len(path)!=k+1: cnt['chainlen']+=1
            for j,st in enumerate(path[:-1]):
                if st not in layers[j]: cnt['stubmissing']+=1
                if st.width!=opts['stubWidth'] or st.idealPos!=nd.idealPos or st.data!=nd.data: cnt['stubattr']+=1
                if st.child is not path[j+1] or path[j+1].parent is not st: cnt['link']+=1
    nst=sum(len(s) for s in stubs); 
    if nst!=sum(k*len(L) for k,L in enumerate(labs)): cnt['stubcount']+=1
    W=opts['layerWidth']
    if not W or opts['algorithm']=='none':
        if len(layers)!=1: cnt['should1']+=1
    else:
        maxw=opts['density']*W
        req=lambda L: sum(x.width for x in L)+opts['nodeSpacing']*(len(L)-1)
        if req(nodes)<=maxw and len(layers)!=1: cnt['fits_not1']+=1
        if opts['algorithm']=='overlap' and n>=3 and req(nodes)>maxw:
            for k,L in enumerate(layers):
                if len(labs[k])>2 and req(L)>maxw+1e-9: cnt['capacity']+=1; bad.append(('cap',labels,opts,k,req(L),maxw))
    cnt['n']+=1
print(cnt)
for b in bad[:5]: print(b)
