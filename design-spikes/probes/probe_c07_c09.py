import sys, random, collections, math, re, copy
sys.path.insert(0, sys.argv[1])
import datetime as dt
from xml.etree import ElementTree as ET
from labella.timeline import TimelineSVG, TimelineTex
from labella.scale import LinearScale, TimeScale
from labella.utils import hex2rgb
rnd=random.Random(int(sys.argv[2])); N=int(sys.argv[3])
cnt=collections.Counter(); bad=[]
def B(*a):
    cnt[a[0]]+=1
    if len(bad)<12: bad.append(a)
def tr(s):
    m=re.match(r'translate\(([-\d.e]+), ([-\d.e]+)\)',s); return float(m.group(1)),float(m.group(2))
def parse_svg(b):
    root=ET.fromstring(b)
    main=root.find("g/g[@class='main-layer']")
    out={'main':tr(main.get('transform'))}
    line=main.find("g/line[@class='timeline']"); out['axis']=(float(line.get('x2',0)),float(line.get('y2',0)))
    out['ticks']=[(tr(g.get('transform')), g.find('text').text) for g in main.findall("g[@class='axis-layer']/g")]
    out['links']=[p.get('d') for p in main.findall("g[@class='link-layer']/path")]
    out['linkcol']=[re.search(r'stroke: (rgb\([^)]*\))',p.get('style')).group(1) for p in main.findall("g[@class='link-layer']/path")]
    out['boxes']=[]
    for g in main.findall("g[@class='label-layer']/g"):
        r=g.find('rect'); t=g.find('text')
        out['boxes'].append((tr(g.get('transform')), float(r.get('width')), float(r.get('height')), None if t is None else t.text, r.get('style')))
    out['dots']=[(float(c.get('cx',0)),float(c.get('cy',0)),c.get('style')) for c in main.findall("g[@class='dot-layer']/circle")]
    return out
def parse_tex(s):
    out={}
    cols=dict(re.findall(r'\\definecolor\{(\w+)\}\{HTML\}\{(\w+)\}',s))
    texts=dict(re.findall(r'\\def\\text(\w+)\{(.*)\}\n',s))
    out['cols']=cols; out['texts']=texts
    m=re.search(r'% main layer\n\\begin\{scope\}\[shift=\{\((-?\d+), (-?\d+)\)\}\]',s); out['main']=(float(m.group(1)),float(m.group(2)))
    m=re.search(r'% axis\n\\begin\{scope\}\n\\draw\[[^\]]*\] \(0, 0\) -- \((-?\d+), (-?\d+)\);',s); out['axis']=(float(m.group(1)),float(m.group(2)))
    ax=s.split('% axis layer')[1].split('% link layer')[0] if '% axis layer' in s else ''
    out['ticks']=[((float(a),float(b)),t) for a,b,t in re.findall(r'shift=\{\((-?\d+), (-?\d+)\)\}\]\n\\draw[^\n]*\nnode\[anchor=\w+\] \{(.*)\};',ax)]
    lk=s.split('% link layer')[1].split('% label layer')[0]
    links=collections.OrderedDict()
    for mm in re.finditer(r'\\draw\[color=linkColor(\w+), [^\]]*\] \(([^,]+), ([^)]+)\) (?:\.\. controls\n\(([^,]+), ([^)]+)\) and \(([^,]+), ([^)]+)\) \.\. \(([^,]+), ([^)]+)\)|-- \(([^,]+), ([^)]+)\));',lk):
        g=mm.groups(); links.setdefault(g[0],[]).append(g[1:])
    out['links']=links
    lb=s.split('% label layer')[1].split('% dots')[0]
    out['boxes']=[((float(a),float(b)),float(w),float(h),ID,txt) for a,b,ID2,w,h,ID,txt in re.findall(r'shift=\{\((-?\d+), (-?\d+)\)\}\]\n\\(?:fill|draw)\[[^\]]*labelBgColor(\w+)[^\]]*\]\n\(0, 0\) rectangle \(([\d.]+), ([\d.]+)\) node\[[^\]]*text=labelTextColor(\w+)\] \{\\strut (.*)\};',lb)]
    dt_=s.split('% dots')[1]
    out['dots']=[(ID,float(a),float(b)) for ID,a,b in re.findall(r'fill=dotColor(\w+)\] at \(([-\d.e]+), ([-\d.e]+)\) \{\};',dt_)]
    return out
def path_pts(d):
    toks=d.split(); pts=[]; i=0; segs=[]
    while i<len(toks):
        c=toks[i]
        if c=='M': cur=(float(toks[i+1]),float(toks[i+2])); segs.append(('M',cur)); i+=3
        elif c=='L': p=(float(toks[i+1]),float(toks[i+2])); segs.append(('L',cur,p)); cur=p; i+=3
        elif c=='C': p=(float(toks[i+5]),float(toks[i+6])); segs.append(('C',cur,(float(toks[i+1]),float(toks[i+2])),(float(toks[i+3]),float(toks[i+4])),p)); cur=p; i+=7
    return segs
for it in range(N):
    n=rnd.randint(1,25)
    kind=rnd.choice(['lin','dt','dt','date'])
    direction=rnd.choice(['up','down','left','right'])
    data=[]
    if kind=='lin':
        span=rnd.choice([10,1000,1e6]); 
        for _ in range(n): data.append({'time':rnd.choice([rnd.uniform(0,span), float(rnd.randint(0,int(span)))])})
    else:
        base=dt.datetime(1900,1,1)+dt.timedelta(days=rnd.randrange(100000)); sp=rnd.choice([1e3,6e4,36e5,864e5,30*864e5,365*864e5,20*365*864e5])
        for _ in range(n):
            t=base+dt.timedelta(milliseconds=rnd.randrange(int(sp)))
            if kind=='date': t=t.date()
            data.append({'time':t})
    for i,d in enumerate(data):
        d['width']=rnd.choice([rnd.randint(5,80), rnd.randint(10,160)/2])
        if rnd.random()<0.7: d['text']=rnd.choice(['x','A & <b>','é"q','日本',"it's %d"%i])
    if len(set(d['time'] for d in data))==1 and rnd.random()<0.8: continue
    opts={'direction':direction}
    if kind=='lin': opts['scale']=LinearScale()
    lab={}
    if rnd.random()<0.6: lab['maxPos']=rnd.choice([360,300,200,100])
    if rnd.random()<0.3: lab['nodeSpacing']=rnd.choice([3,4,6])
    if rnd.random()<0.3: lab['algorithm']=rnd.choice(['overlap','simple','none'])
    if rnd.random()<0.3: lab['minPos']=rnd.choice([None,0,20])
    opts['labella']=lab
    if rnd.random()<0.7: opts['layerGap']=rnd.choice([1,1,1.5,2.25,5,30,60.5])
    if rnd.random()<0.3: opts['showTicks']=False
    if rnd.random()<0.3: opts['initialWidth']=rnd.choice([300,640]); opts['initialHeight']=rnd.choice([250,500])
    if rnd.random()<0.3: opts['labelPadding']={'left':rnd.randint(0,5),'right':rnd.randint(0,5),'top':rnd.randint(0,5),'bottom':rnd.randint(0,5)}
    if rnd.random()<0.4: opts['dotColor']=rnd.choice(['#abc','#A1b2C3',['#111','#222222','#f00'], lambda d: '#0f0'])
    if rnd.random()<0.3: opts['showBorder']=True
    def mk(cls):
        o=copy.copy(opts); o['labella']=dict(lab)
        if 'scale' in o: o['scale']=LinearScale()
        return cls(copy.deepcopy(data),o)
    try:
        ts=mk(TimelineSVG); svg=ts.export(); tt=mk(TimelineTex); tex=tt.export()
    except Exception as e:
        import traceback; B('exc',type(e).__name__,str(e)[:80],kind,direction,n,traceback.format_exc()[-600:]); continue
    try:
        S=parse_svg(svg); T=parse_tex(tex)
    except Exception as e:
        B('parse',repr(e)); continue
    horiz = direction in ('up','down')
    # C07 counts
    if not (len(S['dots'])==len(S['links'])==len(S['boxes'])==n): B('svgcount',n,len(S['dots']),len(S['links']),len(S['boxes']))
    if not (len(T['dots'])==len(T['links'])==len(T['boxes'])==n): B('texcount',n,len(T['dots']),len(T['links']),len(T['boxes']),direction)
    # dots affine
    times=[d['time'] for d in data]
    def num(t):
        if isinstance(t,dt.datetime): return (t-dt.datetime(1970,1,1))/dt.timedelta(milliseconds=1)
        if isinstance(t,dt.date): return (dt.datetime(t.year,t.month,t.day)-dt.datetime(1970,1,1))/dt.timedelta(milliseconds=1)
        return t
    dom=ts.options['scale'].domain(); d0,d1=num(dom[0]),num(dom[1])
    L = S['axis'][0] if horiz else S['axis'][1]
    for (cx,cy,_),t in zip(sorted(S['dots'],key=lambda d:(d[0],d[1])),sorted(times)):
        p=cx if horiz else cy; q=cy if horiz else cx
        exp=(num(t)-d0)/(d1-d0)*L if d1!=d0 else 0
        if abs(p-exp)>1e-6*max(1,L) or q!=0: B('dotpos',direction,p,exp,kind); break
    # links
    gap=None
    for i,(d,box,dot) in enumerate(zip(S['links'],S['boxes'],S['dots'])):
        segs=path_pts(d)
        st=segs[0][1]; dp=(dot[0],dot[1])
        if abs(st[0]-dp[0])>1e-6 or abs(st[1]-dp[1])>1e-6: B('linkstart',direction,st,dp); break
        end=segs[-1][-1]
        (bx,by),w,h=box[0],box[1],box[2]
        if direction=='up': mid=(bx+w/2,by+h)
        elif direction=='down': mid=(bx+w/2,by)
        elif direction=='left': mid=(bx+w,by+h/2)
        else: mid=(bx,by+h/2)
        if abs(end[0]-mid[0])>1+1e-6 or abs(end[1]-mid[1])>1+1e-6: B('linkend',direction,end,mid,(bx,by,w,h)); break
    # box size
    pad=opts.get('labelPadding',{'left':2,'right':2,'top':3,'bottom':2})
    # C08 disjoint
    bs=[(b[0][0],b[0][1],b[0][0]+b[1],b[0][1]+b[2]) for b in S['boxes']]
    lg=opts.get('layerGap',60)
    for i in range(n):
        x0,y0,x1,y1=bs[i]
        if direction=='up' and not y1<=-(lg-1)+1e-9: B('side',direction,bs[i],lg)
        if direction=='down' and not y0>=lg-1-1e-9: B('side',direction,bs[i],lg)
        if direction=='left' and not x1<=-(lg-1)+1e-9: B('side',direction,bs[i],lg)
        if direction=='right' and not x0>=lg-1-1e-9: B('side',direction,bs[i],lg)
        for j in range(i+1,n):
            a=bs[i]; b=bs[j]
            if a[0]<b[2] and b[0]<a[2] and a[1]<b[3] and b[1]<a[3]:
                B('overlap',direction,a,b,lab,lg); break
    # nested layers
    lay=[nd.layerIndex for nd in ts.nodes]
    for i in range(n):
        for j in range(n):
            if lay[j]>lay[i]:
                a=bs[i]; b=bs[j]
                ok = {'up': b[3]<=a[1]+1e-9, 'down': b[1]>=a[3]-1e-9, 'left': b[2]<=a[0]+1e-9, 'right': b[0]>=a[2]-1e-9}[direction]
                if not ok: B('nested',direction,a,b,lg); break
    # C09
    if S['main']!=T['main'] or S['axis']!=T['axis']: B('c09main',S['main'],T['main'],S['axis'],T['axis'])
    for sb,tb in zip(S['boxes'],T['boxes']):
        if sb[0]!=tb[0] or sb[1]!=tb[1] or sb[2]!=tb[2]: B('c09box',direction,sb[:3],tb[:3]); break
    for (sd,(ID,a,b)) in zip(S['dots'],T['dots']):
        if abs(sd[0]-a)>1e-6 or abs(sd[1]-b)>1e-6: B('c09dot',direction,sd,(a,b)); break
        if tuple(hex2rgb(T['cols']['dotColor'+ID]))!=tuple(map(int,re.findall(r'\d+',sd[2]))): B('c09dotcol'); break
    if len(S['ticks'])!=len(T['ticks']): B('c09tickcount',len(S['ticks']),len(T['ticks']))
    for st,tt_ in zip(S['ticks'],T['ticks']):
        if abs(st[0][0]-tt_[0][0])>=1 or abs(st[0][1]-tt_[0][1])>=1 or st[1]!=tt_[1]: B('c09tick',direction,st,tt_); break
    for d,(ID,segs) in zip(S['links'],T['links'].items()):
        flat=[]
        for g in segs:
            flat.append([x for x in g if x is not None])
        sp=path_pts(d)
        # compare string coordinates
        toks=d.split()
        texnums=[]
        for k,g in enumerate(flat):
            texnums += g[2:] if k>0 else g
        svgnums=[t for t in toks if t not in 'MLC']
        if texnums!=svgnums: B('c09link',direction,svgnums[:8],texnums[:8]); break
    cnt['n']+=1
print(cnt)
for b in bad: print(b)
