import sys, random, collections, math
from fractions import Fraction as F
sys.path.insert(0, sys.argv[1]); sys.path.insert(0,'/tmp/exp')
from labella.scale import LinearScale
from timeref import lin_step, floor_log10
def ticks_ref(d0,d1,m):
    lo,hi=min(F(d0),F(d1)),max(F(d0),F(d1)); st=lin_step(lo,hi,m)
    if st==0: return [],st
    a=math.ceil(lo/st); b=math.floor(hi/st)
    return [k*st for k in range(a,b+1)],st
def decimals_ref(st):
    # step = c*10^k
    k=floor_log10(st); return max(0,-k)
def nice_ref(d0,d1,m):
    d=[F(d0),F(d1)]
    for _ in range(2):
        lo,hi=min(d),max(d); st=lin_step(lo,hi,m)
        if st==0: break
        nlo=math.floor(lo/st)*st; nhi=math.ceil(hi/st)*st
        d=[nlo,nhi] if d[0]<=d[1] else [nhi,nlo]   # careful: equal case
    return d
def fmt_ref(x,dec):
    # exact decimal formatting, half-even
    q=x*10**dec; n=round(q)   # Fraction round = half-even
    s=str(abs(n)).rjust(dec+1,'0'); sign='-' if n<0 or (n==0 and x<0) else ''
    return sign+(s[:-dec]+'.'+s[-dec:] if dec else s)
rnd=random.Random(int(sys.argv[2])); N=int(sys.argv[3]); cnt=collections.Counter(); bad=[]
def B(*a):
    cnt[a[0]]+=1
    if len(bad)<10: bad.append(a)
for it in range(N):
    mag=10**rnd.uniform(-6,9)
    a=rnd.choice([rnd.uniform(-mag,mag), float(rnd.randint(-1000,1000)), round(rnd.uniform(-mag,mag),rnd.randint(0,6))])
    span=10**rnd.uniform(-9,12); span=rnd.choice([span, float(rnd.randint(1,1000)), round(span,3) or span])
    if span < 1e-6*max(abs(a),abs(a+span)): continue
    b=a+span
    if a==b: continue
    dom=[a,b] if rnd.random()<0.7 else [b,a]
    m=rnd.choice([None]+list(range(1,101))); mm=10 if m is None else m
    s=LinearScale(); s.domain(dom)
    tk=list(s.ticks(m)); fm=s.tickFormat(m)
    ref,st=ticks_ref(dom[0],dom[1],mm)
    lo,hi=min(F(dom[0]),F(dom[1])),max(F(dom[0]),F(dom[1]))
    # end effect: domain end within 1e-9*step of a multiple
    def near_mult(v): 
        q=v/st; return abs(q-round(q))<F(1,10**9)
    if len(tk)!=len(ref):
        if near_mult(lo) or near_mult(hi): cnt['endeffect']+=1
        else: B('count',dom,m,len(tk),len(ref),float(st))
    else:
        if any(abs(F(x)-r)>st/10**6 for x,r in zip(tk,ref)): B('values',dom,m)
        dec=decimals_ref(st)
        t1=[fm(x) for x in tk]; t2=[fmt_ref(r,dec) for r in ref]
        if t1!=t2:
            # -0 formatting
            if [t.lstrip('-') if float(t)==0 else t for t in t1]!=[t.lstrip('-') if float(t)==0 else t for t in t2]: B('text',dom,m,t1[:3],t2[:3])
            else: cnt['negzero']+=1
    s2=LinearScale(); s2.domain(dom); s2.nice(m); nd=s2.domain(); nr=nice_ref(dom[0],dom[1],mm)
    st2=lin_step(min(nr),max(nr),mm)
    if any(abs(F(x)-r)>st2/10**6 for x,r in zip(nd,nr)):
        B('nice',dom,m,nd,[float(x) for x in nr])
    cnt['n']+=1
print(cnt)
for b in bad: print(b)
