import sys, math
sys.path.insert(0, sys.argv[1])
from labella.scale import LinearScale, d3_scale_linearTickRange
worst=[]
cnt=0
for e in range(-4,4):
  unit=10.0**e
  for lo_k in range(-30,31):
    for hi_k in range(lo_k+1, lo_k+60):
      for mult in (1,2,5):
        lo=lo_k*unit*mult; hi=hi_k*unit*mult
        for m in (None,5,7,10,20,50):
            s=LinearScale(); s.domain([lo,hi]); s.nice(m); nd=s.domain()
            st=d3_scale_linearTickRange(nd,m)[2]
            mvlo=(lo-nd[0])/st; mvhi=(nd[1]-hi)/st
            cnt+=1
            if max(mvlo,mvhi)>=2-1e-9: worst.append((lo,hi,m,nd,st,mvlo,mvhi))
print(cnt,len(worst))
for w in worst[:10]: print(w)
