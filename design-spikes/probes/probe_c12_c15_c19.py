import sys, random, collections, unicodedata, re
sys.path.insert(0, sys.argv[1])
import datetime as dt
from labella.scale import LinearScale, TimeScale
from labella.tex import uni2tex
rnd=random.Random(int(sys.argv[2])); N=int(sys.argv[3])
cnt=collections.Counter(); bad=[]
def B(*a):
    cnt[a[0]]+=1
    if len(bad)<10: bad.append(a)
# C12 histories
def chk(s,tag):
    d=s.domain(); r=s.range()
    if d[0]==d[1]: return
    for k in (0,1):
        v=s(d[k])
        if s.clamp(): pass
        if abs(v-r[k])>1e-9*max(1,abs(r[0]),abs(r[1])): B('c12end',tag,d,r,v)
for it in range(N):
    scales=[LinearScale()]
    for step in range(rnd.randint(1,10)):
        s=rnd.choice(scales); op=rnd.choice(['domain','range','clamp','nice','copy','nice'])
        if op=='domain':
            a=rnd.uniform(-1e3,1e3); b=a+rnd.choice([1,-1])*rnd.uniform(1e-3,1e3); s.domain([a,b])
        elif op=='range':
            s.range([rnd.uniform(-500,500),rnd.uniform(-500,500)])
        elif op=='clamp': s.clamp(rnd.random()<0.5)
        elif op=='nice': s.nice(rnd.choice([None,5,10,20]))
        else: scales.append(s.copy())
        for i,x in enumerate(scales): chk(x,(op,i,len(scales)))
    # affine/invert
    s=LinearScale(); a=rnd.uniform(-1e6,1e6); b=a+rnd.choice([1,-1])*10**rnd.uniform(-3,6); r0=rnd.uniform(-1e3,1e3); r1=r0+rnd.choice([1,-1])*rnd.uniform(1,1e3)
    s.domain([a,b]); s.range([r0,r1])
    x=rnd.uniform(min(a,b),max(a,b))
    if abs(s.invert(s(x))-x)>1e-9*max(1,abs(a),abs(b)): B('c12inv',a,b,x)
    if s(a)!=r0 or abs(s(b)-r1)>1e-12*max(1,abs(r1)): B('c12exact',a,b,r0,r1,s(a),s(b))
    s.clamp(True); y=s(x+10*(b-a))
    if not (min(r0,r1)<=y<=max(r0,r1)): B('c12clamp',y)
    # C15
    t0=dt.datetime(1900,1,1)+dt.timedelta(milliseconds=rnd.randrange(9_400_000_000_000))
    t1=t0+rnd.choice([1,-1])*dt.timedelta(milliseconds=rnd.randrange(1,10**rnd.randint(1,12)))
    if not (1900<=t1.year<=2200): continue
    ts=TimeScale(); ts.domain([t0,t1]); ts.range([r0,r1])
    if abs(ts(t0)-r0)>1e-9 or abs(ts(t1)-r1)>1e-6: B('c15end',t0,t1,ts(t0),r0,ts(t1),r1)
    q=t0+(t1-t0)*rnd.random(); q=q.replace(microsecond=q.microsecond//1000*1000)
    back=ts.invert(ts(q))
    if abs((back-q).total_seconds())>1e-3: B('c15inv',t0,t1,q,back)
    cnt['n']+=1
# C19
pool=['a','e','Z',' ','\\','{','}','%','$','é','ñ','ü','Å','…','\u00a0','½','ﬁ','日','😀','\u0301','\u0308','\u0327','\u0329','ế','\u212b','ǖ']
acc={"`":0x300,"'":0x301,"^":0x302,'"':0x308,"H":0x30B,"~":0x303,"c":0x327,"k":0x328,"=":0x304,"b":0x331,".":0x307,"d":0x323,"r":0x30A,"u":0x306,"v":0x30C}
def readback(s):
    # innermost-first expansion of \a{X} -> X + mark
    pat=re.compile(r'\\([`\'^"H~ck=b.druv])\{([^{}\\]*)\}')
    while True:
        s2=pat.sub(lambda m: m.group(2)+chr(acc[m.group(1)]), s)
        if s2==s: return s
        s=s2
for it in range(N):
    s=''.join(rnd.choice(pool) for _ in range(rnd.randint(0,8)))
    if re.search(r'\\[`\'^"H~ck=b.druv]\{',s): continue
    try: t=uni2tex(s)
    except Exception as e: B('c19exc',s,repr(e)); continue
    if s.isascii() and t!=s: B('c19ascii',s,t)
    rb=readback(t)
    if unicodedata.normalize('NFD',rb)!=unicodedata.normalize('NFD',s): B('c19rt',s,t,rb)
print(cnt)
for b in bad: print(b)
