from fractions import Fraction as F
import itertools
def gauss(A,b):
    n=len(A); m=len(A[0]) if A else 0
    M=[row[:]+[bi] for row,bi in zip(A,b)]
    piv=[]; r=0
    for c in range(m):
        p=None
        for i in range(r,n):
            if M[i][c]!=0: p=i;break
        if p is None: continue
        M[r],M[p]=M[p],M[r]
        inv=1/M[r][c]; M[r]=[v*inv for v in M[r]]
        for i in range(n):
            if i!=r and M[i][c]!=0:
                f=M[i][c]; M[i]=[a-f*b_ for a,b_ in zip(M[i],M[r])]
        piv.append(c); r+=1
        if r==n: break
    for i in range(r,n):
        if M[i][m]!=0: return None
    x=[F(0)]*m
    for i,c in enumerate(piv): x[c]=M[i][m]
    return x, len(piv)==m
def solve_qp(des,wts,scs,cs):
    """exact optimum by active-set enumeration (tiny instances)"""
    n=len(des); m=len(cs)
    best=None
    for k in range(m+1):
        for S in itertools.combinations(range(m),k):
            # unknowns x (n), lam (k): 2w(x-d) - sum lam_c*(s_r e_r - s_l e_l)=0 ; s_r x_r - s_l x_l = g
            N=n+k
            A=[];b=[]
            for i in range(n):
                row=[F(0)]*N; row[i]=2*F(wts[i])
                for j,c in enumerate(S):
                    l,r,g=cs[c]
                    if r==i: row[n+j]-=F(scs[i])
                    if l==i: row[n+j]+=F(scs[i])
                A.append(row); b.append(2*F(wts[i])*F(des[i]))
            for j,c in enumerate(S):
                l,r,g=cs[c]
                row=[F(0)]*N; row[r]+=F(scs[r]); row[l]-=F(scs[l]); A.append(row); b.append(F(g))
            res=gauss(A,b)
            if res is None: continue
            sol,uniq=res
            x=sol[:n]; lam=sol[n:]
            if any(l<0 for l in lam): continue
            if any(F(scs[r])*x[r]-F(scs[l])*x[l]-F(g)<0 for l,r,g in cs): continue
            return x
    return None
if __name__=='__main__':
    des=[9, 10, 9, 7, 0]; wts=[10000000000.0, 1, 10, 10000000000.0, 1]; cs=[(2, 3, 0), (1, 4, 3), (0, 4, 1), (2, 4, 2), (1, 2, 1)]
    x=solve_qp(des,wts,[1]*5,cs)
    print([float(v) for v in x], float(sum(F(w)*(xi-d)**2 for w,xi,d in zip(wts,x,des))))
    xe=[F(170000000111,20000000012),F(130000000087,20000000012),F(150000000099,20000000012),F(150000000099,20000000012),F(190000000123,20000000012)]
    print([float(v) for v in xe], float(sum(F(w)*(xi-d)**2 for w,xi,d in zip(wts,xe,des))))
