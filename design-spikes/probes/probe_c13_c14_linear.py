import sys, random, collections, math
sys.path.insert(0, sys.argv[1])
import datetime as dt
from fractions import Fraction as F
from labella.scale import TimeScale, LinearScale, d3_scale_linearTickRange
D=dt.datetime; TD=dt.timedelta
rnd=random.Random(int(sys.argv[2]))
cnt=collections.Counter(); bad=[]
N=int(sys.argv[3])
def B(*a):
    if len(bad)<15: bad.append(a)
# ---- linear: C12, C13, C14
for it in range(N):
    mag=10**rnd.uniform(-6,9)
    a=rnd.choice([rnd.uniform(-mag,mag), float(rnd.randint(-1000,1000)), round(rnd.uniform(-mag,mag),rnd.randint(0,6))])
    span=10**rnd.uniform(-9,12)
    span=rnd.choice([span, float(rnd.randint(1,1000)), round(span, 3) or span])
    if span < 1e-6*max(abs(a),abs(a+span)): continue
    b=a+span
    if a==b: continue
    dom=[a,b] if rnd.random()<0.7 else [b,a]
    m=rnd.choice([None]+list(range(1,101)))
    s=LinearScale(); s.domain(dom)
    mm=10 if m is None else m
    try:
        tk=list(s.ticks(m)); fmt=s.tickFormat(m)
    except Exception as e:
        cnt['exc',type(e).__name__]+=1; B('exc',dom,m,repr(e)); continue
    step=d3_scale_linearTickRange(dom,m)[2]
    lo,hi=min(dom),max(dom)
    n=len(tk)
    if not (math.floor(0.57*mm)<=n<=1.43*mm+1): cnt['count']+=1; B('count',dom,m,n)
    if any(not x<y for x,y in zip(tk,tk[1:])): cnt['notinc']+=1
    if tk and (tk[0]<lo-1e-9*step or tk[-1]>hi+1e-9*step): cnt['outside']+=1; B('outside',dom,m,tk[0],tk[-1])
    # step form
    e=math.floor(math.log10(step)+1e-9); mant=step/10**e
    if min(abs(mant-c) for c in (1,2,5,10))>1e-9: cnt['stepform']+=1; B('stepform',dom,m,step)
    # multiples
    for x in tk:
        if abs(x/step-round(x/step))>1e-6: cnt['notmult']+=1; B('notmult',dom,m,x,step); break
    # complete
    exp_n=math.floor(F(hi)/F(step))-math.ceil(F(lo)/F(step))+1
    if abs(exp_n-n)>1: cnt['incomplete']+=1; B('incomplete',dom,m,n,exp_n)
    elif exp_n!=n: cnt['endeffect']+=1
    txt=[fmt(x) for x in tk]
    if len(set(txt))!=len(txt): cnt['dup']+=1; B('dup',dom,m,txt[:5])
    for x,t in zip(tk,txt):
        if abs(float(t)-x)>step/1000: cnt['readback']+=1; B('readback',dom,m,x,t,step); break
    # nice
    s2=LinearScale(); s2.domain(dom); s2.nice(m); nd=s2.domain()
    nstep=d3_scale_linearTickRange(nd,m)[2]
    if (nd[0]<nd[1])!=(dom[0]<dom[1]): cnt['nice_orient']+=1; B('orient',dom,m,nd)
    nlo,nhi=min(nd),max(nd)
    if nlo>lo or nhi<hi: cnt['nice_inward']+=1; B('inward',dom,m,nd)
    if lo-nlo>=2*nstep or nhi-hi>=2*nstep: cnt['nice_far']+=1; B('far',dom,m,nd,nstep)
    for v in (nlo,nhi):
        q=v/(nstep/10)
        if abs(q-round(q))>1e-6*max(1,abs(q)): cnt['nice_round']+=1; B('round',dom,m,nd,nstep)
    cnt['lin']+=1
print(cnt)
for b in bad: print(b)
