import sys
sys.path.insert(0, sys.argv[1])
from labella.force import Force
from labella.node import Node
w=2.01
labels=[(100,w),(100+5.01-0.012,w),(200,w),(200+5.01-0.011,w),(301.5,w),(306.5,w)]
nodes=[Node(p,x) for p,x in labels]
f=Force({'minPos':None}); f.nodes(nodes); f.compute()
for n in nodes: print(n.idealPos,n.width,n.currentPos)
a,b=nodes[4],nodes[5]
print('dist',b.currentPos-a.currentPos,'need',(a.width+b.width)/2+3-1)
