import sys, random, collections, math
from fractions import Fraction as F
sys.path.insert(0, sys.argv[1])
from labella import vpsc
from labella.force import Force
from labella.node import Node
oi=vpsc.Variable.__init__
def init(self,d,w=None,s=None): oi(self,F(d),None if w is None else F(w),None if s is None else F(s))
vpsc.Variable.__init__=init
vpsc.Variable.dfdv=lambda self: 2*self.weight*(self.position()-self.desiredPosition)
src=open('e22.py').read(); exec(src[src.index("EPS="):src.index("rnd=random.Random")])
src=open('e24.py').read(); exec(src[src.index("def ceil_div"):src.index("rnd=random.Random")])
def force_model(labels, fo):
    # fo: force options merged with defaults
    both = fo.get('minPos') is not None and fo.get('maxPos') is not None
    do={'algorithm':fo['algorithm'],'density':fo['density'],'nodeSpacing':fo['nodeSpacing'],'stubWidth':fo['stubWidth'],'layerWidth':(fo['maxPos']-fo['minPos']) if both else None}
    layers=model(labels,do)
    ro={'lineSpacing':2,'nodeSpacing':fo['nodeSpacing'],'minPos':fo.get('minPos'),'maxPos':fo.get('maxPos')}
    pos={}  # key: ('L',i) or ('S',i,level) -> int
    for li,L in enumerate(layers):
        if not L: continue
        items=[]
        for key in L:
            i=key[1]
            if li==0: tgt=labels[i][0]
            else: tgt=pos[('S',i,li-1)]
            w=labels[i][1] if key[0]=='L' else do['stubWidth']
            items.append((tgt,w,key[0]=='S'))
        idx,p,xs=chain_model(items,ro)
        for k,ii in enumerate(idx): pos[L[ii]]=p[k]
    return layers,pos
rnd=random.Random(int(sys.argv[2])); N=int(sys.argv[3]); cnt=collections.Counter()
for it in range(N):
    n=rnd.randint(1,40); span=rnd.choice([50,200,1000])
    labels=[(F(rnd.randint(0,4*span),4), F(rnd.randint(1,240),4)) for _ in range(n)]
    fo={'nodeSpacing':rnd.choice([0,1,3,5,F(5,2)]),'minPos':rnd.choice([0,0,None,F(-5,2),10]),'maxPos':rnd.choice([None,span,span//2,span*2]),'algorithm':rnd.choice(['overlap','overlap','simple','none']),'density':rnd.choice([F(3,10),F(1,2),F(3,4),F(17,20),1]),'stubWidth':rnd.choice([0,1,2,5])}
    nodes=[Node(p,w,data=i) for i,(p,w) in enumerate(labels)]
    f=Force(dict(fo)); f.nodes(nodes); f.compute()
    layers,pos=force_model(labels,fo)
    ok=True
    for nd in nodes:
        path=nd.getPathFromRoot(); i=nd.data
        if ('L',i) not in layers[len(path)-1] or nd.layerIndex!=len(path)-1: ok=False; break
        for lev,x in enumerate(path):
            key=('L',i) if x is nd else ('S',i,lev)
            if pos.get(key)!=x.currentPos: ok=False; break
        if not ok: break
    cnt[ok, len(layers)>1]+=1
    if not ok and cnt[False,True]+cnt[False,False]<3: print('MISMATCH',labels,fo)
print(cnt)
