import sys, random, collections, copy, traceback
sys.path.insert(0, sys.argv[1])
import datetime as dt
from labella.timeline import TimelineSVG, TimelineTex
from labella.scale import LinearScale, TimeScale
rnd=random.Random(int(sys.argv[2])); N=int(sys.argv[3])
cnt=collections.Counter(); bad={}
spans=[1,5,8,50,1e3,6e4,36e5,864e5,3*864e5,10*864e5,40*864e5,400*864e5,3000*864e5,30000*864e5,100000*864e5]
for it in range(N):
    kind=rnd.choice(['lin','dt','date','time'])
    n=rnd.choice([1,1,2,3,5,10,30])
    data=[]
    if kind=='lin':
        sp=10**rnd.uniform(-3,9); base=rnd.uniform(-sp,sp)
        for _ in range(n): data.append({'time':rnd.choice([base+rnd.uniform(0,sp), float(round(base+rnd.uniform(0,sp))), base])})
        if rnd.random()<0.3:
            for d in data: d['time']=int(d['time'])
    elif kind=='time':
        for _ in range(n): data.append({'time':dt.time(rnd.randrange(24),rnd.randrange(60),rnd.randrange(60))})
    else:
        sp=rnd.choice(spans)*rnd.uniform(0.5,2)
        base=dt.datetime(1900,1,1)+dt.timedelta(days=rnd.randrange(max(1,int(109000-sp/864e5-1))) , milliseconds=rnd.randrange(86400000))
        if rnd.random()<0.3: base=dt.datetime(base.year,rnd.choice([1,3,12]),rnd.choice([28,29,30,31,1]))
        for _ in range(n):
            try: t=base+dt.timedelta(milliseconds=rnd.randrange(max(1,int(sp))))
            except OverflowError: t=base
            if rnd.random()<0.2: t=base
            if kind=='date': t=t.date()
            data.append({'time':t})
    for i,d in enumerate(data):
        d['width']=rnd.choice([rnd.randint(5,80), rnd.randint(10,160)/2])
        if rnd.random()<0.6: d['text']='t%d'%i
    om=rnd.choice(['omit','empty','partial','partial'])
    if kind=='lin': om='partial'
    opts=None if om=='omit' else {}
    if om=='partial':
        opts={'direction':rnd.choice(['up','down','left','right'])}
        if kind=='lin': opts['scale']=LinearScale()
        lab={}
        if rnd.random()<0.6: lab['maxPos']=rnd.choice([360,100,10,0])
        if rnd.random()<0.3: lab['algorithm']=rnd.choice(['overlap','simple','none'])
        if rnd.random()<0.3: lab['minPos']=rnd.choice([None,0,20,-50])
        if rnd.random()<0.5: opts['labella']=lab
        if rnd.random()<0.3: opts['showTicks']=False
    for cls in (TimelineSVG,TimelineTex):
        try:
            o=None if opts is None else dict(opts)
            if o and 'scale' in o: o['scale']=LinearScale()
            if o and 'labella' in o: o['labella']=dict(o['labella'])
            x=(cls(copy.deepcopy(data),o) if om!='omit' or rnd.random()<0.5 else cls(copy.deepcopy(data))).export()
            cnt['ok']+=1
        except Exception as e:
            tb=traceback.extract_tb(e.__traceback__)[-1]
            key=(type(e).__name__,str(e)[:60],tb.filename.split('/')[-1],tb.lineno)
            cnt[key]+=1
            bad.setdefault(key,(kind,n,[d['time'] for d in data][:3],opts))
for k,v in cnt.items(): print(k,v)
for k,v in bad.items(): print(k,'::',v)
