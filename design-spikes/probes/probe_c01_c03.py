import sys, random
from fractions import Fraction as F
sys.path.insert(0, sys.argv[1] if len(sys.argv)>1 else '/tmp/scratch')
from labella.force import Force
from labella.node import Node

def pava(t, w):
    # weighted isotonic regression (nondecreasing), exact
    blocks=[]  # (sumw, sumwt, count)
    for ti,wi in zip(t,w):
        blocks.append([wi, wi*ti, 1])
        while len(blocks)>1 and blocks[-2][1]/blocks[-2][0] > blocks[-1][1]/blocks[-1][0]:
            b=blocks.pop(); blocks[-1][0]+=b[0]; blocks[-1][1]+=b[1]; blocks[-1][2]+=b[2]
    out=[]
    for sw,swt,c in blocks:
        out += [swt/sw]*c
    return out

def oracle_layer(items, opts):
    # items: list of (target, width, isStub) in solver order (sorted by target, stable)
    n=len(items)
    gaps=[]
    for i in range(1,n):
        a,b=items[i-1],items[i]
        sp = opts['lineSpacing'] if (a[2] and b[2]) else opts['nodeSpacing']
        gaps.append((F(a[1])+F(b[1]))/2+F(sp))
    G=[F(0)]
    for g in gaps: G.append(G[-1]+g)
    t=[F(items[i][0])-G[i] for i in range(n)]
    y=pava(t,[F(1)]*n)
    lo = None if opts.get('minPos') is None else F(opts['minPos'])+F(items[0][1])/2
    hi = None if opts.get('maxPos') is None else F(opts['maxPos'])-F(items[-1][1])/2 - G[-1]
    fits = (lo is None or hi is None or lo<=hi)
    if fits:
        y=[ (max(v,lo) if lo is not None else v) for v in y]
        y=[ (min(v,hi) if hi is not None else v) for v in y]
    return [y[i]+G[i] for i in range(n)], fits, gaps

def check(seed):
    rnd=random.Random(seed)
    n=rnd.randint(1,40)
    span=rnd.choice([50,200,1000])
    def pos():
        k=rnd.random()
        if k<0.4: return rnd.randint(0,span)
        if k<0.7: return rnd.randint(0,2*span)/2
        return rnd.uniform(0,span)
    def wid():
        k=rnd.random()
        if k<0.5: return rnd.randint(1,60)
        if k<0.8: return rnd.randint(1,120)/2
        return rnd.uniform(0.5,60)
    labels=[(pos(),wid()) for _ in range(n)]
    opts={}
    k=rnd.random()
    if k<0.3: opts['minPos']=None
    elif k<0.6: opts['minPos']=rnd.choice([0,-20,10.5,30])
    if rnd.random()<0.6: opts['maxPos']=rnd.choice([span, span+50, span/2, 904])
    if rnd.random()<0.5: opts['nodeSpacing']=rnd.choice([0,1,3,5,2.5])
    if rnd.random()<0.5: opts['density']=rnd.choice([0.3,0.5,0.75,0.85,1])
    if rnd.random()<0.5: opts['stubWidth']=rnd.choice([0,1,2,5])
    if rnd.random()<0.5: opts['algorithm']=rnd.choice(['overlap','simple','none'])
    nodes=[Node(p,w) for p,w in labels]
    import labella.removeOverlap as RO
    captured=[]
    orig=RO.removeOverlap
    def cap(ns,o):
        r=orig(ns,o); captured.append(list(ns)); return r
    RO.removeOverlap=cap
    try:
        f=Force(opts); f.nodes(nodes); f.compute()
    finally:
        RO.removeOverlap=orig
    # gather all items per layer
    layers={}
    for nd in nodes:
        cur=nd
        while cur:
            layers.setdefault(cur.layerIndex if cur is nd else None,[])
            cur=cur.parent
    # compute layer of stubs: stub layer index = position in path from root
    lay={}
    for nd in nodes:
        path=nd.getPathFromRoot()
        for li,it in enumerate(path):
            lay.setdefault(li,[]).append(it)
        assert nd.layerIndex==len(path)-1,(nd.layerIndex,len(path))
    fo=dict(lineSpacing=2,nodeSpacing=3,minPos=0,maxPos=None); fo.update({k:v for k,v in opts.items() if k in fo})
    res=[]
    for li in sorted(lay):
        its=lay[li]
        tg=lambda it: (it.parent.currentPos if it.parent else it.idealPos)
        # solver order unknown: sort by (target) stable in... use currentPos order & check consistent with target
        its_sorted=sorted(its,key=lambda it:(tg(it)))
        # C01 check on pairs adjacent by currentPos
        byc=captured[li]
        assert set(map(id,byc))==set(map(id,its))
        for i in range(len(byc)):
          for j in range(i+1,len(byc)):
            a,b=byc[i],byc[j]
            sp = fo['lineSpacing'] if (a.isStub() and b.isStub()) else fo['nodeSpacing']
            need=(a.width+b.width)/2+sp-1
            if b.currentPos-a.currentPos < need-1e-9:
                res.append(('C01adj' if j==i+1 else 'C01far',li,a.currentPos,a.width,b.currentPos,b.width,need,[ (x.width,x.isStub()) for x in byc[i+1:j]]))
            if tg(a)>tg(b): res.append(('C01order',li))
        # C02: oracle needs solver order for ties; reconstruct from final positions (strictly separated) 
        order=byc
        items=[(tg(it),it.width,it.isStub()) for it in order]
        opt,fits,gaps=oracle_layer(items,fo)
        if fits:
            for it,o in zip(order,opt):
                if abs(F(it.currentPos)-o) > F(1,2)+F(1,10**6):
                    res.append(('C02',li,it.currentPos,float(o),len(order)))
                    break
            for it in order:
                if fo['minPos'] is not None and it.currentPos-it.width/2 < fo['minPos']-0.5-1e-6: res.append(('C03lo',li,it.currentPos,it.width))
                if fo['maxPos'] is not None and it.currentPos+it.width/2 > fo['maxPos']+0.5+1e-6: res.append(('C03hi',li,it.currentPos,it.width))
    return res,(labels,opts)

bad=0
import collections
cnt=collections.Counter()
for s in range(int(sys.argv[2]) if len(sys.argv)>2 else 3000):
    try:
        r,inp=check(s)
    except RecursionError as e:
        cnt['rec']+=1; continue
    except Exception as e:
        cnt['exc:'+type(e).__name__]+=1
        if cnt['exc:'+type(e).__name__]<3: 
            import traceback; traceback.print_exc()
        continue
    for x in r: cnt[x[0]]+=1
    if r and bad<8:
        bad+=1; print(s,r[:3],len(inp[0]),inp[1])
print(cnt)
