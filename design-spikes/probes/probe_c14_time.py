import sys, random, collections
sys.path.insert(0, sys.argv[1])
import datetime as dt
from labella.scale import TimeScale
D=dt.datetime; TD=dt.timedelta
rnd=random.Random(int(sys.argv[2])); N=int(sys.argv[3])
cnt=collections.Counter(); bad=[]
def B(*a):
    cnt[a[0]]+=1
    if len(bad)<10: bad.append(a)
spans=[10,50,500,5e3,6e4,36e5,864e5,3*864e5,6048e5,2592e6,7776e6,31536e6,5*31536e6,50*31536e6,200*31536e6]
for it in range(N):
    a=D(1900,1,1)+TD(days=rnd.randrange(0,109000))
    k=rnd.random()
    if k>0.3: a+=TD(milliseconds=rnd.randrange(86400000))
    sp=rnd.choice(spans)*rnd.uniform(0.3,3)
    b=a+TD(milliseconds=max(10,round(sp)))
    if b.year>2199 or a.year<1901: continue
    dom=[a,b] if rnd.random()<0.7 else [b,a]
    m=rnd.choice([None,None,2,5,10,20,50])
    s=TimeScale(); s.domain(dom)
    tk=s.ticks(m) if m else s.ticks()
    gaps=[(y-x) for x,y in zip(tk,tk[1:])]
    s2=TimeScale(); s2.domain(dom)
    try:
        if m: s2.nice(m)
        else: s2.nice()
    except Exception as e:
        B('exc',repr(e),dom,m); continue
    nd=s2.domain()
    if (nd[0]<nd[1])!=(dom[0]<dom[1]): B('orient',dom,nd)
    lo,hi=min(dom),max(dom); nlo,nhi=min(nd),max(nd)
    ms=TD(milliseconds=1)
    if nlo>lo+ms or nhi<hi-ms: B('inward',dom,nd,m)
    if gaps:
        g=max(gaps)
        if lo-nlo>=2*g or nhi-hi>=2*g: B('far',dom,nd,m,g)
        gm=min(gaps)
        for x in (nlo,nhi):
            if gm>=TD(seconds=1) and x.microsecond: B('al_s',dom,nd,m);break
            if gm>=TD(minutes=1) and x.second: B('al_m',dom,nd,m);break
            if gm>=TD(hours=1) and x.minute: B('al_h',dom,nd,m);break
            if gm>=TD(days=1) and x.hour: B('al_d',dom,nd,m);break
            if gm>=TD(days=28) and x.day!=1: B('al_mo',dom,nd,m);break
            if gm>=TD(days=365) and x.month!=1: B('al_y',dom,nd,m);break
    cnt['n']+=1
print(cnt)
for b in bad: print(b)
