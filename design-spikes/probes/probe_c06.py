import sys, random, collections
sys.path.insert(0, sys.argv[1])
from labella.force import Force
from labella.node import Node
rnd=random.Random(int(sys.argv[2])); N=int(sys.argv[3])
cnt=collections.Counter(); bad=[]
def result(nodes):
    return sorted((n.idealPos,n.width,n.layerIndex,n.currentPos, tuple(p.currentPos for p in n.getPathFromRoot())) for n in nodes)
for it in range(N):
    n=rnd.randint(1,30); span=rnd.choice([50,200,1000])
    pw={}
    labels=[]
    for _ in range(n):
        p=rnd.choice([rnd.randint(0,span), rnd.randint(0,2*span)/2, rnd.uniform(0,span)])
        if p not in pw: pw[p]=rnd.choice([rnd.randint(1,60), rnd.randint(1,120)/2])
        labels.append((p,pw[p]))
    opts={}
    if rnd.random()<0.7: opts['maxPos']=rnd.choice([span,span/2,span+50])
    if rnd.random()<0.3: opts['minPos']=rnd.choice([None,0,-20,10.5])
    if rnd.random()<0.5: opts['algorithm']=rnd.choice(['overlap','simple','none'])
    if rnd.random()<0.5: opts['density']=rnd.choice([0.3,0.5,0.75,1])
    if rnd.random()<0.3: opts['stubWidth']=rnd.choice([0,1,2,5])
    if rnd.random()<0.3: opts['nodeSpacing']=rnd.choice([0,1,3,5])
    def fresh(lbls):
        nodes=[Node(p,w) for p,w in lbls]; f=Force(dict(opts)); f.nodes(nodes); f.compute(); return f,nodes
    f,nodes=fresh(labels); r0=result(nodes)
    f.compute(); r1=result(nodes)
    if r1!=r0: cnt['recompute']+=1; bad.append(('recompute',labels,opts))
    f.compute(); 
    if result(nodes)!=r0: cnt['recompute2']+=1
    perm=labels[:]; rnd.shuffle(perm)
    f2,n2=fresh(perm)
    if result(n2)!=r0: cnt['perm']+=1; bad.append(('perm',labels,perm,opts))
    # stale nodes into new engine
    f3=Force(dict(opts)); f3.nodes(nodes); f3.compute()
    if result(nodes)!=r0: cnt['stale']+=1
    # reuse engine for other set
    other=[(rnd.randint(0,span),rnd.randint(1,40)) for _ in range(rnd.randint(1,20))]
    ff,nn=fresh(other); rr=result(nn)
    no=[Node(p,w) for p,w in other]; f.nodes(no); f.compute()
    if result(no)!=rr: cnt['reuse']+=1; bad.append(('reuse',labels,other,opts))
    cnt['n']+=1
print(cnt)
for b in bad[:4]: print(b)
