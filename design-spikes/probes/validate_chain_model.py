import sys, random, collections
from fractions import Fraction as F
sys.path.insert(0, sys.argv[1])
from labella import vpsc, removeOverlap as RO
from labella.node import Node
oi=vpsc.Variable.__init__
def init(self,d,w=None,s=None): oi(self,F(d),None if w is None else F(w),None if s is None else F(s))
vpsc.Variable.__init__=init
vpsc.Variable.dfdv=lambda self: 2*self.weight*(self.position()-self.desiredPosition)
EPS=F(1,10**10)
def chain_model(items, opts):
    # items: (target,width,isStub) in list order; returns rounded positions in sorted order + order
    idx=sorted(range(len(items)), key=lambda i: items[i][0])   # stable
    it=[items[i] for i in idx]
    ws=[F(1)]*len(it); ts=[F(x[0]) for x in it]; gaps=[]
    for a,b in zip(it,it[1:]):
        sp=opts['lineSpacing'] if (a[2] and b[2]) else opts['nodeSpacing']
        gaps.append((F(a[1])+F(b[1]))/2+F(sp))
    if opts.get('minPos') is not None:
        ws=[F(10**10)]+ws; ts=[F(opts['minPos'])]+ts; gaps=[F(it[0][1])/2]+gaps; left=1
    else: left=0
    if opts.get('maxPos') is not None:
        ws=ws+[F(10**10)]; ts=ts+[F(opts['maxPos'])]; gaps=gaps+[F(it[-1][1])/2]
    G=[F(0)]
    for g in gaps: G.append(G[-1]+g)
    blocks=[[ (ws[i], ts[i]-G[i]) ] for i in range(len(ws))]
    mean=lambda b: sum(w*t for w,t in b)/sum(w for w,t in b)
    while True:
        sl=[mean(blocks[k+1])-mean(blocks[k]) for k in range(len(blocks)-1)]
        if not sl: break
        m=min(sl); k=sl.index(m)
        if m < -EPS: blocks[k:k+2]=[blocks[k]+blocks[k+1]]
        else: break
    ys=[]
    for b in blocks: ys += [mean(b)]*len(b)
    xs=[y+G[i] for i,y in enumerate(ys)]
    xs=xs[left:left+len(it)]
    return idx,[round(x) for x in xs],xs
rnd=random.Random(int(sys.argv[2])); N=int(sys.argv[3]); cnt=collections.Counter()
for itn in range(N):
    n=rnd.randint(1,30); span=rnd.choice([30,100,400])
    items=[(F(rnd.randint(0,4*span),4) if rnd.random()<0.8 else F(rnd.uniform(0,span)), F(rnd.randint(1,80),4) if rnd.random()<0.8 else F(rnd.uniform(0.5,20)), rnd.random()<0.3) for _ in range(n)]
    opts={'lineSpacing':2,'nodeSpacing':rnd.choice([0,F(1,2),1,3,5]),'minPos':rnd.choice([0,None,F(-5,2),10]),'maxPos':rnd.choice([None,span,span//2,span*2])}
    nodes=[]
    for t,w,st in items:
        nd=Node(t,w)
        if st: nd.child=Node(t,w)   # makes isStub() true
        nodes.append(nd)
    RO.removeOverlap(nodes, dict(opts))   # sorts in place
    idx,pos,xs=chain_model(items,opts)
    got=[nd.currentPos for nd in nodes]
    exp=pos
    if got!=exp: cnt['mismatch']+=1; print('MISMATCH',items,opts,got,exp) if cnt['mismatch']<3 else None
    cnt['n']+=1
print(cnt)
